import MgpuModel.C11CpShare
import MgpuProofs.C11CpShare
/-! # C11 — the copy / flush path and the TLB-shootdown path share `numCacheACK` (property theorems)

`reachCps g ops` is the state of the tick-exact model `MgpuModel/C11CpShare.lean` of
`cp.CommandProcessor` — `cpMiddleware.processFlushReq / processMemCopyReq / processMemCopyRsp` (the
functions `Cp.handle / Cp.dmaRsp` of `MgpuModel/C11Cp.lean`, reused), and the shootdown path of
`ctrlMiddleware` (`processShootdownCommand`, `processCUPipelineFlushRsp`,
`processAddressTranslatorFlushRsp`, the shared `processCacheFlushRsp` with its real guard,
`processTLBFlushRsp`; unchecked `Send`s drop into full buffers), and the THIRD user of `numCacheACK`,
`cpMiddleware.processLaunchKernelReq` / `invalidateL1CachesBeforeKernel` (invalidating flush requests to
the L1 scalar and vector caches before a kernel starts on an idle GPU) — and of its environment after an
ARBITRARY list of environment moves `SOp`: the moves of `CpOp` (request, tick, takes, cache
acknowledgement, DMA answer), a `ShootDownCommand` arriving, a `LaunchKernelReq` arriving, a dispatcher
finishing its kernel, the compute units / address translators /
TLBs taking `k` messages or acknowledging their `j`-th outstanding request — for an ARBITRARY
configuration `CpSCfg` (numbers of components, all buffer capacities). `CpSEnv.step` is the function
the correspondence check runs against the real component (`c11 cps` case lines). `reachCpsOld` is the same
for the code BEFORE repair 0728adcb (`processFlushReq` without the `shootDownInProcess` guard,
`processShootdownCommand` without the `numCacheACK > 0` guard), `reachCpsOldL` for the code before the repair
of finding `C11-cp-launch-in-shootdown` (`processLaunchKernelReq` without the `shootDownInProcess` guard). -/
namespace C11

/-- flush + copies, no shootdown -/
def cpsDemoPlainOps : List CpOp :=
  [.req .flush, .req .h2d, .tick, .takeCache 9, .ack 2, .ack 0, .ack 0, .ack 0, .tick, .tick, .tick, .tick, .takeDma 9,
   .rsp 0, .tick, .takeDrv 9]

/-- **1. Without a shootdown and without a kernel launch the shared component IS the component of
    `Props/C11Cp.lean`.** A run of
    the shared environment whose moves contain no `ShootDownCommand` and no `LaunchKernelReq` (moves of the
    dispatchers, compute units,
    address translators and TLBs are allowed: they find nothing) projects onto the run of `CpEnv` with
    the same copy / flush moves: the state `c : Cp` (buffers, `numCacheACK`, `currFlushRequest`, clone
    maps, fault, ghost log), the requests sent, everything at the DMA engine and the caches and what the
    driver has taken are EQUAL. So every theorem of `Props/C11Cp.lean` (`cp_flush_protocol`,
    `cp_no_copy_during_flush`, `cp_flush_acked_once_after_all_caches`, `cp_copies_forwarded_once_in_order`,
    `cp_copies_answered_once`, `cp_nothing_dropped`, `cp_quiet_all_answered`, `cp_no_fault`) holds for
    the shared component as long as neither a shootdown nor a kernel launch is issued. -/
theorem cps_without_shootdown_is_cp (g : CpSCfg) (ops : List SOp)
    (hn : ∀ op ∈ ops, op ≠ SOp.shoot ∧ op ≠ SOp.launch) :
    (reachCps g ops).toCp = reachCp g.nCaches g.capIn g.capDrv g.capDma g.capCache (ops.filterMap SOp.cp?) ∧
    (reachCps g ops).s.shoot = false ∧ (reachCps g ops).s.later = [] ∧ (reachCps g ops).s.outEarlier = [] ∧
    (reachCps g ops).s.l1Inv = none := by
  obtain ⟨a, b⟩ := CpSEnv.run_plain ops (CpSEnv.init_plain g) hn
  exact ⟨a, b.s.shoot, b.s.later, b.s.outEarlier, b.s.l1Inv⟩

example : (reachCps {} (cpsDemoPlainOps.map .cp)).s.c.log =
    [.flushStart 0, .cacheReq 0, .cacheReq 1, .cacheReq 2, .cacheReq 3, .ack, .ack, .ack, .ack, .flushDone 0 true,
     .fwd 1 0 .h2d true, .done 1 0 .h2d true] ∧
    (reachCps {} (cpsDemoPlainOps.map .cp)).drained = [.ans ⟨0, .flush⟩, .ans ⟨1, .h2d⟩] := by decide +kernel

/-- **1, observable side.** The strings the two environments answer (what the harness compares with the
    real component: `ok`/`full`, `t1`/`t0`/`fault:…`, the messages taken) are the same, move by move
    (`resetBase` = 1000000 is the model's code offset for reset requests in ToCaches; with fewer caches
    no flush request is mistaken for one). -/
theorem cps_without_shootdown_same_trace (g : CpSCfg) (ops : List CpOp) (hn : g.nCaches ≤ resetBase) :
    (CpSEnv.init g).trace (ops.map SOp.cp) =
      (CpEnv.init g.nCaches g.capIn g.capDrv g.capDma g.capCache).cpsTrace ops := by
  exact CpSEnv.trace_plain ops (CpSEnv.init_plain g) (by intro x hx; cases hx) hn

example : (CpSEnv.init {}).trace (cpsDemoPlainOps.map SOp.cp) =
    ["ok", "ok", "t1", "xc[0,1,2,3]", "ok", "ok", "ok", "ok", "t1", "t1", "t1", "t0", "xd[h1]", "ok", "t1",
     "xr[f0,h1]"] := by decide +kernel

/-- one theorem of `Props/C11Cp.lean` carried over as an instance: without a shootdown the shared
    component never panics when ToCaches holds one request per cache -/
theorem cps_without_shootdown_no_fault (g : CpSCfg) (ops : List SOp)
    (hn : ∀ op ∈ ops, op ≠ SOp.shoot ∧ op ≠ SOp.launch)
    (hcap : g.nCaches ≤ g.capCache) : (reachCps g ops).s.c.fault = none := by
  have h := (cps_without_shootdown_is_cp g ops hn).1
  have := (reach_all g.nCaches g.capIn g.capDrv g.capDma g.capCache (ops.filterMap SOp.cp?)).2.2.2 hcap
  rw [← h] at this
  exact this

example : (reachCps {} [.cp (.req .flush), .take .cu 3, .cp .tick, .ack .tlb 0, .kdone, .query]).s.c.fault = none :=
  cps_without_shootdown_no_fault _ _ (by decide) (by decide)

/-! ## 2. flushes, copies and shootdowns in ANY interleaving: every request is answered -/

/-- variant 1 of the (repaired) finding `C19-cp-flush-lost-in-shootdown`: the flush request arrives while
    the shootdown waits for the compute units (`numCacheACK == 0`); everything is acknowledged honestly -/
def cpsDemoLost : List SOp :=
  [.shoot, .cp .tick, .cp (.req .flush), .cp .tick, .take .cu 9, .ack .cu 0, .cp .tick, .take .at 9, .ack .at 0,
   .cp .tick, .cp (.takeCache 9), .cp (.ack 0), .cp (.ack 0), .cp (.ack 0), .cp (.ack 0), .cp (.ack 0), .cp (.ack 0),
   .cp (.ack 0), .cp (.ack 0), .cp .tick, .cp .tick, .cp .tick, .cp .tick, .cp .tick, .cp .tick, .cp .tick, .cp .tick,
   .take .tlb 9, .ack .tlb 0, .cp .tick, .cp (.takeDrv 9)]

/-- variant 2: the shootdown command arrives while the flush waits for the caches -/
def cpsDemoNil : List SOp :=
  [.cp (.req .flush), .cp .tick, .shoot, .cp .tick, .cp (.takeCache 4), .cp (.ack 0), .cp (.ack 0), .cp (.ack 0),
   .cp (.ack 0), .cp .tick, .cp .tick, .cp .tick, .cp .tick, .take .tlb 1, .ack .tlb 0, .cp .tick, .cp (.takeDrv 1),
   .take .cu 1, .ack .cu 0, .cp .tick, .take .at 1, .ack .at 0, .cp .tick, .cp (.takeCache 9), .cp (.ack 0),
   .cp (.ack 0), .cp (.ack 0), .cp (.ack 0), .cp .tick, .cp .tick, .cp .tick, .cp .tick]

/-- the moves that let the repaired code finish variant 1 (the flush was held back behind the shootdown) -/
def cpsDemoLostTail : List SOp :=
  [.cp .tick, .cp (.takeCache 9), .cp (.ack 0), .cp (.ack 0), .cp (.ack 0), .cp (.ack 0), .cp .tick, .cp .tick, .cp .tick,
   .cp .tick, .cp (.takeDrv 9)]

/-- the moves that let the repaired code finish variant 2 (the shootdown was held back behind the flush) -/
def cpsDemoNilTail : List SOp := [.take .tlb 1, .ack .tlb 0, .cp .tick, .cp (.takeDrv 9)]

/-- **2. Full statement — a THEOREM since repair 0728adcb** (`processFlushReq` waits while
    `shootDownInProcess`, `processShootdownCommand` waits while `numCacheACK > 0`). For every
    configuration with every class of component present and buffers that hold one loop of `Send`s
    (`CpSCfg.Roomy`), for EVERY list of environment moves that delivers flush requests, H2D / D2H copy
    requests and `ShootDownCommand`s in ANY interleaving — no discipline of the driver is assumed any
    more, the two guards of the command processor itself keep the two users of `numCacheACK` apart —
    with ticks, takes and acknowledgements in any order and any back-pressure: the command processor
    never panics (no nil dereference of `currFlushRequest`, no `never`, no `cache_send`); no unchecked
    `Send` of a loop drops a message; and in every quiet state (nothing in any buffer, nothing
    unacknowledged at any component) in which no `ShootdownCompleteRsp` was handed to a full ToDriver
    (`dropDone = 0` — that `Send` is still unchecked) the driver has taken exactly one answer per accepted
    flush / H2D / D2H request and one `ShootdownCompleteRsp` per accepted shootdown command.
    Since the repair of finding `C11-cp-launch-in-shootdown` the moves may deliver `LaunchKernelReq`s as
    well, at any time (the hypothesis `cpsNoLaunch ops` of the former statement is gone): the third user of
    the counter waits for a shootdown like the other two (section 4). -/
theorem cps_flush_answered_full (g : CpSCfg) (ops : List SOp) (hr : g.Roomy) :
    (reachCps g ops).s.c.fault = none ∧
    ((reachCps g ops).s.dropCU = 0 ∧ (reachCps g ops).s.dropAT = 0 ∧ (reachCps g ops).s.dropC = 0 ∧
      (reachCps g ops).s.dropTLB = 0) ∧
    ((reachCps g ops).quiet → (reachCps g ops).s.dropDone = 0 → (reachCps g ops).allAnswered) := by
  have h := cps_reach_serInv g hr ops
  exact ⟨h.nf, h.rest.nodrop, fun hq hd => h.quiet_answered hr (cps_reach_nodrop g ops) hq hd⟩

/-- the two overlapping runs of the former finding on the repaired code: the later request waits in the
    driver port until the earlier user of the counter is done; both are answered -/
example : ({} : CpSCfg).Roomy ∧
    (reachCps {} (cpsDemoLost ++ cpsDemoLostTail)).quiet ∧
    (reachCps {} (cpsDemoLost ++ cpsDemoLostTail)).drained = [.sdone 0, .ans ⟨0, .flush⟩] ∧
    (reachCps {} (cpsDemoLost ++ cpsDemoLostTail)).s.sig = "0,0,0,0,0,0,0,0,0" ∧
    (reachCps {} (cpsDemoNil ++ cpsDemoNilTail)).quiet ∧
    (reachCps {} (cpsDemoNil ++ cpsDemoNilTail)).s.c.fault = none ∧
    (reachCps {} (cpsDemoNil ++ cpsDemoNilTail)).drained = [.ans ⟨0, .flush⟩, .sdone 0] := by
  unfold CpSEnv.quiet CpSCfg.Roomy
  decide +kernel

/-- **Statement 2 for the code before repair 0728adcb** (`CpSEnv.stepOld`: `CpS.handleOld` takes a flush
    request while `shootDownInProcess`, `CpS.hShootOld` takes a shootdown command while
    `numCacheACK > 0`; everything else is the same function). -/
def cps_flush_answered_before_fix : Prop :=
  ∀ (g : CpSCfg) (ops : List SOp), g.Roomy → cpsNoLaunch ops →
    (reachCpsOld g ops).s.c.fault = none ∧
    ((reachCpsOld g ops).quiet → (reachCpsOld g ops).s.dropDone = 0 → (reachCpsOld g ops).allAnswered)

/-- **Both variants of the repaired finding, kernel-checked on the model of the old code.** Variant 1:
    the run ends quiet, without fault, all counters 0 — the driver has received the
    `ShootdownCompleteRsp` and NO answer to its flush request: the flush's acknowledgements and the
    shootdown's reset acknowledgements were counted together, the last one ran
    `processCacheFlushCausedByTLBShootdown`, which clears `currFlushRequest`. Variant 2: the flush's
    own four acknowledgements bring the counter to 0 while `shootDownInProcess`: the TLB flush and
    `ShootdownCompleteRsp` go out before the compute units, translators and caches were touched, and the
    shootdown's later cache acknowledgements end in `processRegularCacheFlush` with
    `currFlushRequest == nil`: nil-pointer panic. -/
theorem cps_flush_overlap_witnesses_before_fix :
    ((reachCpsOld {} cpsDemoLost).quiet ∧ (reachCpsOld {} cpsDemoLost).s.c.fault = none ∧
      (reachCpsOld {} cpsDemoLost).sent = [⟨0, .flush⟩] ∧ (reachCpsOld {} cpsDemoLost).drained = [.sdone 0] ∧
      (reachCpsOld {} cpsDemoLost).s.sig = "0,0,0,0,0,0,0,0,0") ∧
    ((reachCpsOld {} cpsDemoNil).s.c.fault = some "nilderef" ∧ (reachCpsOld {} cpsDemoNil).drained = [.sdone 0]) := by
  unfold CpSEnv.quiet
  decide +kernel

/-- **Refuted for the old code:** the default configuration (one component per class, shipped
    4096-entry buffers, so `Roomy`) and the two runs of `cps_flush_overlap_witnesses_before_fix`; the
    run `cpsDemoNil` panics (first clause), the run `cpsDemoLost` ends quiet with the flush unanswered
    (second clause, see the `example` below). This was finding `C19-cp-flush-lost-in-shootdown`. -/
theorem cps_flush_answered_before_fix_refuted : ¬ cps_flush_answered_before_fix := by
  intro h
  have hr : ({} : CpSCfg).Roomy := by unfold CpSCfg.Roomy; decide
  obtain ⟨_, hn, _⟩ := cps_flush_overlap_witnesses_before_fix
  have h2 := (h {} cpsDemoNil hr (by unfold cpsNoLaunch; decide)).1
  rw [hn] at h2
  cases h2

/-- the second clause alone is refuted as well for the old code (variant 1: quiet, no fault, the flush
    unanswered) -/
example : ¬ ((reachCpsOld {} cpsDemoLost).quiet → (reachCpsOld {} cpsDemoLost).s.dropDone = 0 →
    (reachCpsOld {} cpsDemoLost).allAnswered) := by
  intro h
  obtain ⟨⟨hq, _, hs, hd, _⟩, _⟩ := cps_flush_overlap_witnesses_before_fix
  have := (h hq (by decide +kernel)).1.length_eq
  rw [hs, hd] at this
  exact absurd this (by decide)

/-! ## 3. the counter account, the flush protocol, copies and the shootdown phases -/

/-- **(a) No copy is handed to the DMA engine while a cache request of ANY of the three origins is
    unacknowledged** — for every configuration, every event order, kernel launches included. In every
    reachable state the shared counter `numCacheACK` equals the cache requests
    (flush requests of `processFlushReq`, reset requests of the shootdown, invalidation requests of
    `invalidateL1CachesBeforeKernel`) waiting in ToCaches + taken
    by the caches and not acknowledged + acknowledgements waiting in the port + reset requests lost by the
    unchecked `ToCaches.Send` (so a lost reset request keeps the counter above 0 for ever). And for every
    forward event in the log (`processMemCopyReq` sent a clone to ToDMA): before it, the counter was
    incremented exactly as often as it was decremented (= it was 0), and no reset request had been
    lost — hence no cache request was in ToCaches, at a cache, or acknowledged-but-unprocessed. -/
theorem cps_no_copy_while_cache_acks_outstanding (g : CpSCfg) (ops : List SOp) :
    (reachCps g ops).s.c.numAck = (reachCps g ops).s.c.cacheOut.length + (reachCps g ops).atCaches.length +
      (reachCps g ops).s.c.cacheIn.length + (reachCps g ops).s.dropC ∧
    ∀ pre ev post, (reachCps g ops).s.log = pre ++ ev :: post → ev.isFwd = true →
      pre.countP SEv.isCacheAsk = pre.countP SEv.isCacheAck ∧ pre.countP SEv.isResetDrop = 0 := by
  have h := cps_reach_cacheInv g ops
  exact ⟨h.count, h.fwd⟩

/-- a copy request behind a shootdown: it is forwarded during the CU phase (counter 0), the next one
    waits through the whole cache phase (4 resets, acknowledged out of order) -/
example : (reachCps {} [.shoot, .cp (.req .h2d), .cp .tick, .take .cu 1, .ack .cu 0, .cp .tick, .take .at 1, .ack .at 0,
      .cp .tick, .cp (.req .d2h), .cp .tick, .cp (.takeCache 9), .cp (.ack 2), .cp (.ack 0), .cp (.ack 1), .cp .tick, .cp .tick,
      .cp .tick, .cp (.ack 0), .cp .tick, .cp .tick]).s.log =
    [.shootStart 0, .cuReq 0 true, .cp (.fwd 0 0 .h2d true), .cuAck, .atReq 0 true, .atAck, .reset 1 true, .reset 2 true,
     .reset 0 true, .reset 3 true, .ackS, .ackS, .ackS, .ackS, .tlbReq 0 true, .cp (.fwd 1 1 .d2h true)] := by
  decide +kernel

/-- a ToCaches buffer with room for 2 of the 4 reset requests: two are lost, the counter stays at 2 for
    ever, the copy behind the shootdown is never forwarded -/
example : (reachCps { capCache := 2 } [.shoot, .cp .tick, .take .cu 1, .ack .cu 0, .cp .tick, .take .at 1, .ack .at 0,
      .cp .tick, .cp (.req .h2d), .cp .tick, .cp (.takeCache 9), .cp (.ack 0), .cp (.ack 0), .cp .tick, .cp .tick, .cp .tick]).s.sig =
      "0,0,0,2,1,0,0,0,0" ∧
    (reachCps { capCache := 2 } [.shoot, .cp .tick, .take .cu 1, .ack .cu 0, .cp .tick, .take .at 1, .ack .at 0,
      .cp .tick, .cp (.req .h2d), .cp .tick, .cp (.takeCache 9), .cp (.ack 0), .cp (.ack 0), .cp .tick, .cp .tick, .cp .tick]).s.dropC = 2 ∧
    (reachCps { capCache := 2 } [.shoot, .cp .tick, .take .cu 1, .ack .cu 0, .cp .tick, .take .at 1, .ack .at 0,
      .cp .tick, .cp (.req .h2d), .cp .tick, .cp (.takeCache 9), .cp (.ack 0), .cp (.ack 0), .cp .tick, .cp .tick, .cp .tick]).s.c.drvIn =
      [⟨0, .h2d⟩] := by
  decide +kernel

/-- shootdown with two copies behind it, then a flush, then a second shootdown; acknowledgements out of
    order -/
def cpsDemoSerial : List SOp :=
  [.shoot, .cp (.req .h2d), .cp .tick, .take .cu 1, .ack .cu 0, .cp .tick, .take .at 1, .ack .at 0, .cp .tick,
   .cp (.req .d2h), .cp (.takeCache 9), .cp (.ack 3), .cp (.ack 0), .cp (.ack 1), .cp (.ack 0), .cp .tick, .cp .tick,
   .cp .tick, .cp .tick, .take .tlb 1, .ack .tlb 0, .cp .tick, .cp (.takeDma 9), .cp (.rsp 1), .cp (.rsp 0), .cp .tick,
   .cp (.takeDrv 9), .cp (.req .flush), .cp .tick, .cp (.takeCache 9), .cp (.ack 0), .cp (.ack 0), .cp (.ack 0),
   .cp (.ack 0), .cp .tick, .cp .tick, .cp .tick, .cp .tick, .cp (.takeDrv 9), .shoot, .cp .tick, .take .cu 1,
   .ack .cu 0, .cp .tick, .take .at 1, .ack .at 0, .cp .tick, .cp (.takeCache 9), .cp (.ack 0), .cp (.ack 0),
   .cp (.ack 0), .cp (.ack 0), .cp .tick, .cp .tick, .cp .tick, .cp .tick, .take .tlb 1, .ack .tlb 0, .cp .tick,
   .cp (.takeDrv 9)]

/-- an instance of `cps_flush_answered_full` -/
example : ({} : CpSCfg).Roomy ∧ (reachCps {} cpsDemoSerial).quiet ∧
    (reachCps {} cpsDemoSerial).s.dropDone = 0 ∧
    (reachCps {} cpsDemoSerial).drained = [.sdone 0, .ans ⟨1, .d2h⟩, .ans ⟨0, .h2d⟩, .ans ⟨2, .flush⟩, .sdone 1] ∧
    (reachCps {} cpsDemoSerial).sent = [⟨0, .h2d⟩, ⟨1, .d2h⟩, ⟨2, .flush⟩] ∧ (reachCps {} cpsDemoSerial).shootSent = 2 := by
  unfold CpSEnv.quiet CpSCfg.Roomy
  decide +kernel

/-- the remaining hypothesis `dropDone = 0` of `cps_flush_answered_full` is needed:
    `processTLBFlushRsp` ignores the error of `ToDriver.Send`; with a one-entry ToDriver that still holds a
    copy's answer the `ShootdownCompleteRsp` is lost -/
example :
    (reachCps { capDrv := 1 } [.cp (.req .h2d), .cp .tick, .cp (.takeDma 1), .cp (.rsp 0), .cp .tick, .shoot,
      .cp .tick, .take .cu 1, .ack .cu 0, .cp .tick, .take .at 1, .ack .at 0, .cp .tick, .cp (.takeCache 9), .cp (.ack 0),
      .cp (.ack 0), .cp (.ack 0), .cp (.ack 0), .cp .tick, .cp .tick, .cp .tick, .cp .tick, .take .tlb 1, .ack .tlb 0, .cp .tick,
      .cp (.takeDrv 9)]).drained = [.ans ⟨0, .h2d⟩] ∧
    (reachCps { capDrv := 1 } [.cp (.req .h2d), .cp .tick, .cp (.takeDma 1), .cp (.rsp 0), .cp .tick, .shoot,
      .cp .tick, .take .cu 1, .ack .cu 0, .cp .tick, .take .at 1, .ack .at 0, .cp .tick, .cp (.takeCache 9), .cp (.ack 0),
      .cp (.ack 0), .cp (.ack 0), .cp (.ack 0), .cp .tick, .cp .tick, .cp .tick, .cp .tick, .take .tlb 1, .ack .tlb 0, .cp .tick,
      .cp (.takeDrv 9)]).s.dropDone = 1 := by decide +kernel

/-- **(b) The flush protocol of `Props/C11Cp.lean` holds with shootdowns and kernel launches in ANY
    interleaving**: the copy / flush path's event log is accepted by the acceptor `specStep` (a flush starts
    only when none is open, asks every cache once in order, is answered only when all `n` caches were
    asked and every request acknowledged; a copy is forwarded only when no flush is open); hence before
    every forward event every started flush was answered and every flush request acknowledged; and the
    answer to flush `f` is produced exactly once, after exactly the caches `0 … n-1` were asked and `n`
    acknowledgements processed, with no copy forwarded in between. (The shootdown's reset requests and
    their acknowledgements are not events of this log: they are `SEv.reset` / `SEv.ackS` of the shared
    log, and `cps_no_copy_while_cache_acks_outstanding` covers them.) -/
theorem cps_flush_protocol (g : CpSCfg) (ops : List SOp) (hr : g.Roomy) :
    (∃ q, specRun g.nCaches {} (reachCps g ops).s.c.log = some q) ∧
    (∀ pre post ev, ev.isFwd = true → (reachCps g ops).s.c.log = pre ++ ev :: post →
      pre.filterMap CpEv.flushStart? = pre.filterMap CpEv.flushDone? ∧
      (pre.filterMap CpEv.cacheIdx?).length = pre.countP CpEv.isAck) ∧
    (∀ pre post f b, (reachCps g ops).s.c.log = pre ++ .flushDone f b :: post →
      (∃ p1 p2, pre = p1 ++ .flushStart f :: p2 ∧ p2.filterMap CpEv.cacheIdx? = List.range g.nCaches ∧
        p2.countP CpEv.isAck = g.nCaches ∧ ∀ ev ∈ p2, ev.isFwd = false) ∧
      f ∉ pre.filterMap CpEv.flushDone? ∧ f ∉ post.filterMap CpEv.flushDone?) := by
  have h := cps_reach_serInv g hr ops
  obtain ⟨q, hq, _⟩ := h.inv.flush.spec
  have hq' : specRun g.nCaches {} (reachCps g ops).s.c.log = some q := by
    rw [← h.rest.ncaches]; exact hq
  refine ⟨⟨q, hq'⟩, ?_, ?_⟩
  · intro pre post ev hf hlog
    rw [hlog] at hq'
    exact accepted_fwd_idle hf hq'
  · intro pre post f b hlog
    have hnd : ((reachCps g ops).s.c.log.filterMap CpEv.flushDone?).Nodup := h.inv.flushDone_nodup
    rw [hlog] at hq' hnd
    exact accepted_flushDone hq' hnd

example : (reachCps {} cpsDemoSerial).s.c.log =
    [.fwd 0 0 .h2d true, .fwd 1 1 .d2h true, .done 1 1 .d2h true, .flushStart 2, .cacheReq 0, .cacheReq 1, .cacheReq 2,
     .cacheReq 3, .done 0 0 .h2d true, .ack, .ack, .ack, .ack, .flushDone 2 true] := by decide +kernel

/-- **(b) Copies with shootdowns and kernel launches in any interleaving: forwarded once in arrival order, answered once for the original
    request** (the statements of `cp_copies_forwarded_once_in_order` / `cp_copies_answered_once`): the
    requests the driver port accepted are the requests taken from the port (one `flushStart` / `fwd`
    event each, in arrival order) followed by those waiting in the port — in front of and behind
    shootdown commands; the clones the DMA side has seen plus those in ToDMA are the forward events in
    order; the answers the driver has taken plus those in ToDriver (between the `ShootdownCompleteRsp`s)
    are the answer events in order; no request is answered twice; clone ids are pairwise distinct. -/
theorem cps_copies_once (g : CpSCfg) (ops : List SOp) (hr : g.Roomy) :
    (reachCps g ops).sent.map (·.id) = List.range (reachCps g ops).sent.length ∧
    (reachCps g ops).sent = (reachCps g ops).s.c.log.filterMap CpEv.popped? ++
      ((reachCps g ops).s.c.drvIn ++ (reachCps g ops).s.later.filterMap SIn.req?) ∧
    (reachCps g ops).dmaSeen ++ (reachCps g ops).s.c.dmaOut = (reachCps g ops).s.c.log.filterMap CpEv.clone? ∧
    (reachCps g ops).drained.filterMap SOut.ans? ++
      ((reachCps g ops).s.outEarlier.filterMap SOut.ans? ++ (reachCps g ops).s.c.drvOut) =
      (reachCps g ops).s.c.log.filterMap CpEv.rsp? ∧
    ((reachCps g ops).s.c.log.filterMap CpEv.doneOrig?).Nodup ∧
    ((reachCps g ops).s.c.log.filterMap CpEv.fwdCid?).Nodup := by
  have h := cps_reach_serInv g hr ops
  obtain ⟨r, hr1, hr2⟩ := h.inv.pop.popped
  refine ⟨h.inv.pop.ids, ?_, h.inv.copy.clones, h.inv.rsp.rsps, h.inv.copy.done_orig, ?_⟩
  · rw [hr2 h.nf] at hr1; exact hr1
  · have := h.inv.copy.cids
    show (List.filterMap CpEv.fwdCid? (reachCps g ops).proj.s.log).Nodup
    rw [this]; exact List.nodup_range

example : (reachCps {} cpsDemoSerial).dmaSeen = [⟨0, 0, .h2d⟩, ⟨1, 1, .d2h⟩] := by decide +kernel

/-- **(b) The shootdown's own bookkeeping (flushes, copies and kernel launches in any interleaving).** Each of `numCUAck`,
    `numAddrTranslationFlushAck`, `numTLBAck` equals the requests of its class in the CP's port + taken by
    the components and not acknowledged + acknowledgements waiting (no unchecked `Send` lost one, the
    `uint64` counters never wrap); without `shootDownInProcess` all three are 0; with it, the four phases
    (compute units, address translators, caches — through the shared `numCacheACK` —, TLBs) exclude each
    other and exactly one of them is waiting for somebody: the shootdown can neither skip a phase nor
    stall with nothing outstanding. -/
theorem cps_shootdown_phases (g : CpSCfg) (ops : List SOp) (hr : g.Roomy) :
    (reachCps g ops).s.numCU = (reachCps g ops).s.cuOut.length + (reachCps g ops).atCU.length +
      (reachCps g ops).s.cuIn.length ∧
    (reachCps g ops).s.numAT = (reachCps g ops).s.atOut.length + (reachCps g ops).atAT.length +
      (reachCps g ops).s.atIn.length ∧
    (reachCps g ops).s.numTLB = (reachCps g ops).s.tlbOut.length + (reachCps g ops).atTLB.length +
      (reachCps g ops).s.tlbIn.length ∧
    ((reachCps g ops).s.shoot = false →
      (reachCps g ops).s.numCU = 0 ∧ (reachCps g ops).s.numAT = 0 ∧ (reachCps g ops).s.numTLB = 0) ∧
    ((reachCps g ops).s.shoot = true →
      ((reachCps g ops).s.numCU = 0 ∨
        ((reachCps g ops).s.numAT = 0 ∧ (reachCps g ops).s.c.numAck = 0 ∧ (reachCps g ops).s.numTLB = 0)) ∧
      ((reachCps g ops).s.numAT = 0 ∨ ((reachCps g ops).s.c.numAck = 0 ∧ (reachCps g ops).s.numTLB = 0)) ∧
      ((reachCps g ops).s.c.numAck = 0 ∨ (reachCps g ops).s.numTLB = 0) ∧
      0 < (reachCps g ops).s.numCU + (reachCps g ops).s.numAT + (reachCps g ops).s.c.numAck +
        (reachCps g ops).s.numTLB) := by
  have h := (cps_reach_serInv g hr ops).rest
  exact ⟨h.kcu, h.kat, h.ktlb, h.idle, fun hs' => ⟨(h.phase hs').1, (h.phase hs').2.1, (h.phase hs').2.2, h.live hs'⟩⟩

/-- in the middle of the cache phase of `cpsDemoSerial` (all four resets acknowledged, two of the
    acknowledgements processed) -/
example : (reachCps {} (cpsDemoSerial.take 16)).s.sig = "0,0,0,2,1,0,0,0,0" ∧
    (reachCps {} (cpsDemoSerial.take 16)).s.c.cacheIn = [resetBase + 0, resetBase + 2] := by
  decide +kernel

/-! ## 4. the third user of `numCacheACK`: the L1 invalidation before a kernel starts on an idle GPU -/

/-- a kernel launch on an idle GPU with a flush request and a copy request behind it; the two L1
    invalidation requests are acknowledged out of order -/
def cpsDemoKernel : List SOp :=
  [.launch, .cp (.req .flush), .cp (.req .h2d), .cp .tick, .query, .cp (.takeCache 9), .cp (.ack 1), .cp .tick, .query,
   .cp (.ack 0), .cp .tick, .query, .cp .tick, .cp (.takeCache 9), .cp (.ack 0), .cp (.ack 0), .cp (.ack 0), .cp (.ack 0),
   .cp .tick, .cp .tick, .cp .tick, .cp .tick, .cp .tick, .cp (.takeDma 9), .cp (.rsp 0), .cp .tick, .cp (.takeDrv 9), .kdone]

/-- **(c) Everybody waits for whoever holds the counter.** In EVERY reachable state (any configuration,
    any moves, kernel launches and shootdowns included) with `numCacheACK > 0` — flush requests,
    shootdown resets or kernel-start invalidations unacknowledged — `cpMiddleware.Handle` takes NOTHING from
    the driver port (no copy request, no flush request, no `LaunchKernelReq`: `processMemCopyReq`,
    `processFlushReq`, `processLaunchKernelReq` all return on `numCacheACK > 0`) and
    `processShootdownCommand` does not take a `ShootDownCommand`: the stage functions return the state
    unchanged. In particular copies and driver flushes wait for the L1 invalidation of a kernel start. -/
theorem cps_all_wait_while_cache_acks_outstanding (g : CpSCfg) (ops : List SOp)
    (h : 0 < (reachCps g ops).s.c.numAck) :
    (reachCps g ops).s.handle = ((reachCps g ops).s, false) ∧
    (reachCps g ops).s.hShoot = ((reachCps g ops).s, false) :=
  CpS.counter_blocks _ h

/-- after the tick that took the launch request: two invalidation requests out, the flush and the copy
    wait in the port, and further ticks make no progress until the caches acknowledge -/
example : (reachCps {} (cpsDemoKernel.take 4)).s.sig = "0,0,0,2,0,0,1,0,0" ∧
    (reachCps {} (cpsDemoKernel.take 4)).s.c.cacheOut = [invBase + 1, invBase + 2] ∧
    (reachCps {} (cpsDemoKernel.take 4)).s.c.drvIn = [] ∧
    (reachCps {} (cpsDemoKernel.take 4)).s.later = [.launch 0, .req ⟨0, .flush⟩, .req ⟨1, .h2d⟩] ∧
    (reachCps {} (cpsDemoKernel.take 4 ++ [.cp .tick, .cp .tick])).s.log = (reachCps {} (cpsDemoKernel.take 4)).s.log ∧
    (reachCps {} (cpsDemoKernel.take 4 ++ [.cp .tick, .cp .tick])).s.later = (reachCps {} (cpsDemoKernel.take 4)).s.later ∧
    (CpSEnv.init {}).trace (cpsDemoKernel.take 4 ++ [.cp .tick, .cp .tick]) = ["ok", "ok", "ok", "t1", "t0", "t0"] := by
  decide +kernel

/-- **(c) Nothing is answered for the invalidation.** In every reachable state in which the command
    processor waits for a kernel-start invalidation (`l1InvalidatedFor != nil`) and no shootdown is in
    process, `processCacheFlushRsp` only decrements the counter (or waits): ToDriver, `currFlushRequest`,
    the copy / flush path's event log and `l1InvalidatedFor` are unchanged — no `FlushRsp`, no
    `ShootdownCompleteRsp`, no nil dereference. (The kernel itself is started by the next
    `processLaunchKernelReq` on the request that stayed at the head of the port.) -/
theorem cps_kernel_invalidation_answers_nothing (g : CpSCfg) (ops : List SOp)
    (hs : (reachCps g ops).s.shoot = false) (hl : (reachCps g ops).s.l1Inv.isSome = true) :
    (reachCps g ops).s.cacheRsp.1.c.drvOut = (reachCps g ops).s.c.drvOut ∧
    (reachCps g ops).s.cacheRsp.1.outEarlier = (reachCps g ops).s.outEarlier ∧
    (reachCps g ops).s.cacheRsp.1.c.curFlush = (reachCps g ops).s.c.curFlush ∧
    (reachCps g ops).s.cacheRsp.1.c.log = (reachCps g ops).s.c.log ∧
    (reachCps g ops).s.cacheRsp.1.l1Inv = (reachCps g ops).s.l1Inv :=
  CpS.invalidation_answers_nothing _ hs hl

/-- the whole run: the kernel starts after both acknowledgements (nothing in ToDriver for them), THEN the
    flush asks the four caches, THEN the copy is forwarded; both are answered once -/
example : (reachCps {} cpsDemoKernel).s.log =
    [.inval 0 1, .inval 0 2, .ackI, .ackI, .kstart 0, .cp (.flushStart 0), .cp (.cacheReq 0), .cp (.cacheReq 1),
     .cp (.cacheReq 2), .cp (.cacheReq 3), .cp .ack, .cp .ack, .cp .ack, .cp .ack, .cp (.flushDone 0 true),
     .cp (.fwd 1 0 .h2d true), .cp (.done 1 0 .h2d true)] ∧
    (reachCps {} cpsDemoKernel).drained = [.ans ⟨0, .flush⟩, .ans ⟨1, .h2d⟩] ∧
    (reachCps {} cpsDemoKernel).s.sig = "0,0,0,0,0,0,0,0,1" ∧
    (reachCps {} (cpsDemoKernel.take 8)).s.l1Inv = some 0 ∧ (reachCps {} (cpsDemoKernel.take 8)).s.shoot = false := by
  decide +kernel

/-- a second kernel while the first runs starts at once, without invalidation (`IsDispatching`) -/
example : (reachCps { nDisp := 2 } [.launch, .cp .tick, .cp (.takeCache 9), .cp (.ack 0), .cp (.ack 0), .cp .tick, .cp .tick,
    .launch, .cp .tick]).s.sig = "0,0,0,0,0,0,0,2,2" := by
  decide +kernel

/-- a `LaunchKernelReq` delivered while a shootdown waits for the compute units (`numCacheACK == 0`): since
    the repair it waits in the driver port until the `ShootdownCompleteRsp` is out -/
def cpsDemoLaunchInShoot : List SOp :=
  [.shoot, .cp .tick, .launch, .cp .tick, .cp (.takeCache 9), .cp (.ack 0), .cp (.ack 0), .cp .tick, .cp .tick,
   .take .tlb 9, .ack .tlb 0, .cp .tick, .take .cu 9, .ack .cu 0, .cp .tick, .take .at 9, .ack .at 0, .cp .tick,
   .cp (.takeCache 9), .cp (.ack 0), .cp (.ack 0), .cp (.ack 0), .cp (.ack 0), .cp .tick, .cp .tick, .cp .tick, .cp .tick]

/-- the moves that let the repaired code finish that run: the TLB answers, the kernel-start invalidation
    is acknowledged, the kernel starts -/
def cpsDemoLaunchInShootTail : List SOp :=
  [.take .tlb 9, .ack .tlb 0, .cp .tick, .cp (.takeDrv 9), .cp .tick, .cp (.takeCache 9), .cp (.ack 1), .cp (.ack 0),
   .cp .tick, .cp .tick]

/-- **Full statement with kernel launches — a THEOREM since the repair of finding
    `C11-cp-launch-in-shootdown`** (`processLaunchKernelReq` waits while `shootDownInProcess`, as
    `processFlushReq` does). With every class of component present and roomy buffers the command processor
    never panics, whatever the driver delivers — flush requests, copies, shootdown commands and kernel
    launch requests in ANY interleaving, ticks, takes and acknowledgements in any order: no nil dereference
    of `currFlushRequest`, no `never`, no `cache_send` (the kernel-start invalidation finds ToCaches empty).
    The proof is the invariant `CpsSerInv` of `MgpuProofs/C11CpShare.lean`, which now holds in EVERY
    reachable state: while a kernel-start invalidation is outstanding no shootdown is in process and the
    launch request stays at the head of the port (`CpsLinv`), so the three users of `numCacheACK` never
    overlap. -/
theorem cps_no_fault_full (g : CpSCfg) (ops : List SOp) (hr : g.Roomy) : (reachCps g ops).s.c.fault = none :=
  (cps_reach_serInv g hr ops).nf

/-- while the kernel-start invalidation is outstanding no shootdown is in process, the launch request it
    belongs to is the head of the driver port, and a shootdown command behind it waits; while a shootdown
    is in process no invalidation is outstanding (every reachable state) -/
theorem cps_launch_excludes_shootdown (g : CpSCfg) (ops : List SOp) (hr : g.Roomy) :
    (∀ id, (reachCps g ops).s.l1Inv = some id →
      (reachCps g ops).s.shoot = false ∧ (reachCps g ops).s.c.drvIn = [] ∧
      ∃ rest, (reachCps g ops).s.later = .launch id :: rest) ∧
    ((reachCps g ops).s.shoot = true → (reachCps g ops).s.l1Inv = none) :=
  ⟨(cps_reach_serInv g hr ops).rest.linv, (cps_reach_serInv g hr ops).rest.l1_none_of_shoot⟩

/-- the run of the former finding on the repaired code: the launch request waits through the whole
    shootdown (CU, translator, cache and TLB phases in order), the `ShootdownCompleteRsp` goes out once,
    THEN the two L1 invalidations are issued and the kernel starts -/
example : (reachCps {} (cpsDemoLaunchInShoot ++ cpsDemoLaunchInShootTail)).s.log =
    [.shootStart 0, .cuReq 0 true, .cuAck, .atReq 0 true, .atAck, .reset 1 true, .reset 2 true, .reset 0 true,
     .reset 3 true, .ackS, .ackS, .ackS, .ackS, .tlbReq 0 true, .tlbAck, .shootDone 0 true, .inval 0 1, .inval 0 2,
     .ackI, .ackI, .kstart 0] ∧
    (reachCps {} (cpsDemoLaunchInShoot ++ cpsDemoLaunchInShootTail)).quiet ∧
    (reachCps {} (cpsDemoLaunchInShoot ++ cpsDemoLaunchInShootTail)).drained = [.sdone 0] ∧
    (reachCps {} (cpsDemoLaunchInShoot ++ cpsDemoLaunchInShootTail)).s.sig = "0,0,0,0,0,0,0,1,1" := by
  unfold CpSEnv.quiet
  decide +kernel

/-- **The full statement for the code before that repair** (`CpSEnv.stepOldL`: `CpS.launchOld` takes a
    launch request while `shootDownInProcess`; everything else is the same function). -/
def cps_no_fault_full_before_fix : Prop :=
  ∀ (g : CpSCfg) (ops : List SOp), g.Roomy → (reachCpsOldL g ops).s.c.fault = none

/-- **Refuted for the old code — the former finding `C11-cp-launch-in-shootdown`** (`known_findings.d/C11.json`,
    now under `fixed`; the run is replayed on the real `cp.CommandProcessor` by `harness/c11_share.go` as a
    regression case): `processLaunchKernelReq` checked `numCacheACK > 0` but not `shootDownInProcess`. The two
    invalidation acknowledgements bring the counter
    to 0 while `shootDownInProcess`: `processCacheFlushRsp` takes the shootdown branch, the TLB flush and
    the `ShootdownCompleteRsp` go out before the compute units and address translators answered; their
    later answers send the four reset requests, whose acknowledgements arrive with
    `shootDownInProcess == false` and `l1InvalidatedFor == nil`: `processRegularCacheFlush` dereferences
    `currFlushRequest == nil`. (No flush or copy answer is involved in this run.) -/
theorem cps_no_fault_full_before_fix_refuted : ¬ cps_no_fault_full_before_fix := by
  intro h
  have hr : ({} : CpSCfg).Roomy := by unfold CpSCfg.Roomy; decide
  have h2 := h {} cpsDemoLaunchInShoot hr
  have hf : (reachCpsOldL {} cpsDemoLaunchInShoot).s.c.fault = some "nilderef" := by decide +kernel
  rw [hf] at h2
  cases h2

/-- the events of that run on the old code: `shootDone` before `cuAck`; the last four events are the reset
    acknowledgements handled as a regular flush's -/
example : (reachCpsOldL {} cpsDemoLaunchInShoot).s.log =
    [.shootStart 0, .cuReq 0 true, .inval 0 1, .inval 0 2, .ackS, .ackS, .tlbReq 0 true, .kstart 0, .tlbAck,
     .shootDone 0 true, .cuAck, .atReq 0 true, .atAck, .reset 1 true, .reset 2 true, .reset 0 true, .reset 3 true,
     .cp .ack, .cp .ack, .cp .ack, .cp .ack] := by
  decide +kernel

end C11
