import MgpuModel.C11CpShare
import MgpuProofs.C11CpShare
/-! # C11 — the copy / flush path and the TLB-shootdown path share `numCacheACK` (property theorems)

`reachCps g ops` is the state of the tick-exact model `MgpuModel/C11CpShare.lean` of
`cp.CommandProcessor` — `cpMiddleware.processFlushReq / processMemCopyReq / processMemCopyRsp` (the
functions `Cp.handle / Cp.dmaRsp` of `MgpuModel/C11Cp.lean`, reused), and the shootdown path of
`ctrlMiddleware` (`processShootdownCommand`, `processCUPipelineFlushRsp`,
`processAddressTranslatorFlushRsp`, the shared `processCacheFlushRsp` with its real guard,
`processTLBFlushRsp`; unchecked `Send`s drop into full buffers) — and of its environment after an
ARBITRARY list of environment moves `SOp`: the moves of `CpOp` (request, tick, takes, cache
acknowledgement, DMA answer), a `ShootDownCommand` arriving, the compute units / address translators /
TLBs taking `k` messages or acknowledging their `j`-th outstanding request — for an ARBITRARY
configuration `CpSCfg` (numbers of components, all buffer capacities). `CpSEnv.step` is the function
the correspondence check runs against the real component (`c11 cps` case lines). -/
namespace C11

/-- flush + copies, no shootdown -/
def demoPlainOps : List CpOp :=
  [.req .flush, .req .h2d, .tick, .takeCache 9, .ack 2, .ack 0, .ack 0, .ack 0, .tick, .tick, .tick, .tick, .takeDma 9,
   .rsp 0, .tick, .takeDrv 9]

/-- **1. Without a shootdown the shared component IS the component of `Props/C11Cp.lean`.** A run of
    the shared environment whose moves contain no `ShootDownCommand` (moves of the compute units,
    address translators and TLBs are allowed: they find nothing) projects onto the run of `CpEnv` with
    the same copy / flush moves: the state `c : Cp` (buffers, `numCacheACK`, `currFlushRequest`, clone
    maps, fault, ghost log), the requests sent, everything at the DMA engine and the caches and what the
    driver has taken are EQUAL. So every theorem of `Props/C11Cp.lean` (`cp_flush_protocol`,
    `cp_no_copy_during_flush`, `cp_flush_acked_once_after_all_caches`, `cp_copies_forwarded_once_in_order`,
    `cp_copies_answered_once`, `cp_nothing_dropped`, `cp_quiet_all_answered`, `cp_no_fault`) holds for
    the shared component as long as no shootdown is issued. -/
theorem cps_without_shootdown_is_cp (g : CpSCfg) (ops : List SOp) (hn : ∀ op ∈ ops, op ≠ SOp.shoot) :
    (reachCps g ops).toCp = reachCp g.nCaches g.capIn g.capDrv g.capDma g.capCache (ops.filterMap SOp.cp?) ∧
    (reachCps g ops).s.shoot = false ∧ (reachCps g ops).s.later = [] ∧ (reachCps g ops).s.outEarlier = [] := by
  have hp : (CpSEnv.init g).Plain := ⟨⟨rfl, rfl, rfl, rfl, rfl, rfl, rfl, rfl, rfl⟩, rfl, rfl, rfl⟩
  obtain ⟨a, b⟩ := CpSEnv.run_plain ops hp hn
  exact ⟨a, b.s.shoot, b.s.later, b.s.outEarlier⟩

example : (reachCps {} (demoPlainOps.map .cp)).s.c.log =
    [.flushStart 0, .cacheReq 0, .cacheReq 1, .cacheReq 2, .cacheReq 3, .ack, .ack, .ack, .ack, .flushDone 0 true,
     .fwd 1 0 .h2d true, .done 1 0 .h2d true] ∧
    (reachCps {} (demoPlainOps.map .cp)).drained = [.ans ⟨0, .flush⟩, .ans ⟨1, .h2d⟩] := by decide +kernel

/-- **1, observable side.** The strings the two environments answer (what the harness compares with the
    real component: `ok`/`full`, `t1`/`t0`/`fault:…`, the messages taken) are the same, move by move
    (`resetBase` = 1000000 is the model's code offset for reset requests in ToCaches; with fewer caches
    no flush request is mistaken for one). -/
theorem cps_without_shootdown_same_trace (g : CpSCfg) (ops : List CpOp) (hn : g.nCaches ≤ resetBase) :
    (CpSEnv.init g).trace (ops.map SOp.cp) =
      (CpEnv.init g.nCaches g.capIn g.capDrv g.capDma g.capCache).trace ops := by
  have hp : (CpSEnv.init g).Plain := ⟨⟨rfl, rfl, rfl, rfl, rfl, rfl, rfl, rfl, rfl⟩, rfl, rfl, rfl⟩
  exact CpSEnv.trace_plain ops hp (by intro x hx; cases hx) hn

example : (CpSEnv.init {}).trace (demoPlainOps.map SOp.cp) =
    ["ok", "ok", "t1", "xc[0,1,2,3]", "ok", "ok", "ok", "ok", "t1", "t1", "t1", "t0", "xd[h1]", "ok", "t1",
     "xr[f0,h1]"] := by decide +kernel

/-- one theorem of `Props/C11Cp.lean` carried over as an instance: without a shootdown the shared
    component never panics when ToCaches holds one request per cache -/
theorem cps_without_shootdown_no_fault (g : CpSCfg) (ops : List SOp) (hn : ∀ op ∈ ops, op ≠ SOp.shoot)
    (hcap : g.nCaches ≤ g.capCache) : (reachCps g ops).s.c.fault = none := by
  have h := (cps_without_shootdown_is_cp g ops hn).1
  have := (reach_all g.nCaches g.capIn g.capDrv g.capDma g.capCache (ops.filterMap SOp.cp?)).2.2.2 hcap
  rw [← h] at this
  exact this

example : (reachCps {} [.cp (.req .flush), .take .cu 3, .cp .tick, .ack .tlb 0, .query]).s.c.fault = none :=
  cps_without_shootdown_no_fault _ _ (by decide) (by decide)

/-! ## 2. the full statement is false: a flush that overlaps a shootdown -/

/-- **Full statement (false for the code as it is).** With every class of component present and
    buffers that hold one loop of `Send`s: the command processor never panics, and in every quiet state
    (nothing in any buffer, nothing unacknowledged at any component; no `ShootdownCompleteRsp` was lost
    to a full ToDriver) every request the driver port accepted — flush, copies, shootdown — has been
    answered exactly once. -/
def cps_flush_answered_full : Prop :=
  ∀ (g : CpSCfg) (ops : List SOp), g.Roomy →
    (reachCps g ops).s.c.fault = none ∧
    ((reachCps g ops).quiet → (reachCps g ops).s.dropDone = 0 → (reachCps g ops).allAnswered)

/-- variant 1 of finding `C19-cp-flush-lost-in-shootdown`: the flush request is taken while the
    shootdown waits for the compute units (`numCacheACK == 0`); everything is acknowledged honestly -/
def demoLost : List SOp :=
  [.shoot, .cp .tick, .cp (.req .flush), .cp .tick, .take .cu 9, .ack .cu 0, .cp .tick, .take .at 9, .ack .at 0,
   .cp .tick, .cp (.takeCache 9), .cp (.ack 0), .cp (.ack 0), .cp (.ack 0), .cp (.ack 0), .cp (.ack 0), .cp (.ack 0),
   .cp (.ack 0), .cp (.ack 0), .cp .tick, .cp .tick, .cp .tick, .cp .tick, .cp .tick, .cp .tick, .cp .tick, .cp .tick,
   .take .tlb 9, .ack .tlb 0, .cp .tick, .cp (.takeDrv 9)]

/-- variant 2: the shootdown is taken while the flush waits for the caches; the flush's own four
    acknowledgements end the shootdown's cache phase before it began -/
def demoNil : List SOp :=
  [.cp (.req .flush), .cp .tick, .shoot, .cp .tick, .cp (.takeCache 4), .cp (.ack 0), .cp (.ack 0), .cp (.ack 0),
   .cp (.ack 0), .cp .tick, .cp .tick, .cp .tick, .cp .tick, .take .tlb 1, .ack .tlb 0, .cp .tick, .cp (.takeDrv 1),
   .take .cu 1, .ack .cu 0, .cp .tick, .take .at 1, .ack .at 0, .cp .tick, .cp (.takeCache 9), .cp (.ack 0),
   .cp (.ack 0), .cp (.ack 0), .cp (.ack 0), .cp .tick, .cp .tick, .cp .tick, .cp .tick]

/-- **Both variants of the finding, kernel-checked on the model** (and replayed on the real
    `cp.CommandProcessor` by `harness/c11_share.go`, whose traces the correspondence compares with these
    runs). Variant 1: the run ends quiet, without fault, all counters 0 — the driver has received the
    `ShootdownCompleteRsp` and NO answer to its flush request: the flush's acknowledgements and the
    shootdown's reset acknowledgements were counted together, the last one ran
    `processCacheFlushCausedByTLBShootdown`, which clears `currFlushRequest`. Variant 2: the flush's
    own four acknowledgements bring the counter to 0 while `shootDownInProcess`: the TLB flush and
    `ShootdownCompleteRsp` go out before the compute units, translators and caches were touched, and the
    shootdown's later cache acknowledgements end in `processRegularCacheFlush` with
    `currFlushRequest == nil`: nil-pointer panic. -/
theorem cps_flush_overlap_witnesses :
    ((reachCps {} demoLost).quiet ∧ (reachCps {} demoLost).s.c.fault = none ∧
      (reachCps {} demoLost).sent = [⟨0, .flush⟩] ∧ (reachCps {} demoLost).drained = [.sdone 0] ∧
      (reachCps {} demoLost).s.sig = "0,0,0,0,0,0") ∧
    ((reachCps {} demoNil).s.c.fault = some "nilderef" ∧ (reachCps {} demoNil).drained = [.sdone 0]) := by
  unfold CpSEnv.quiet
  decide +kernel

theorem cps_flush_answered_full_refuted : ¬ cps_flush_answered_full := by
  intro h
  have hr : ({} : CpSCfg).Roomy := by unfold CpSCfg.Roomy; decide
  obtain ⟨⟨hq, _, hs, hd, _⟩, hn, _⟩ := cps_flush_overlap_witnesses
  -- variant 2 contradicts the first clause, variant 1 the second
  have h2 := (h {} demoNil hr).1
  rw [hn] at h2
  cases h2

/-- the second clause alone is refuted as well (variant 1: quiet, no fault, the flush unanswered) -/
example : ¬ ((reachCps {} demoLost).quiet → (reachCps {} demoLost).s.dropDone = 0 → (reachCps {} demoLost).allAnswered) := by
  intro h
  obtain ⟨⟨hq, _, hs, hd, _⟩, _⟩ := cps_flush_overlap_witnesses
  have := (h hq (by decide +kernel)).1.length_eq
  rw [hs, hd] at this
  exact absurd this (by decide)

/-! ## 3. what IS safe -/

/-- **(a) No copy is handed to the DMA engine while a cache request of EITHER origin is
    unacknowledged** — for every configuration, every event order, overlapping flushes and shootdowns
    included. In every reachable state the shared counter `numCacheACK` equals the cache requests
    (flush requests of `processFlushReq` and reset requests of the shootdown) waiting in ToCaches + taken
    by the caches and not acknowledged + acknowledgements waiting in the port + reset requests lost by the
    unchecked `ToCaches.Send` (so a lost reset request keeps the counter above 0 for ever). And for every
    forward event in the log (`processMemCopyReq` sent a clone to ToDMA): before it, the counter was
    incremented exactly as often as it was decremented (= it was 0), and no reset request had been
    lost — hence no cache request was in ToCaches, at a cache, or acknowledged-but-unprocessed. -/
theorem cps_no_copy_while_cache_acks_outstanding (g : CpSCfg) (ops : List SOp) :
    (reachCps g ops).s.c.numAck = (reachCps g ops).s.c.cacheOut.length + (reachCps g ops).atCaches.length +
      (reachCps g ops).s.c.cacheIn.length + (reachCps g ops).s.dropC ∧
    ∀ pre ev post, (reachCps g ops).s.log = pre ++ ev :: post → ev.isFwd = true →
      pre.countP SEv.isCacheAsk = pre.countP SEv.isCacheAck ∧ pre.countP SEv.isResetDrop = 0 := by
  have h := reach_cacheInv g ops
  exact ⟨h.count, h.fwd⟩

/-- a copy request behind a shootdown: it is forwarded during the CU phase (counter 0), the next one
    waits through the whole cache phase (4 resets, acknowledged out of order) -/
example : (reachCps {} [.shoot, .cp (.req .h2d), .cp .tick, .take .cu 1, .ack .cu 0, .cp .tick, .take .at 1, .ack .at 0,
      .cp .tick, .cp (.req .d2h), .cp .tick, .cp (.takeCache 9), .cp (.ack 2), .cp (.ack 0), .cp (.ack 1), .cp .tick, .cp .tick,
      .cp .tick, .cp (.ack 0), .cp .tick, .cp .tick]).s.log =
    [.shootStart 0, .cuReq 0 true, .cp (.fwd 0 0 .h2d true), .cuAck, .atReq 0 true, .atAck, .reset 1 true, .reset 2 true,
     .reset 0 true, .reset 3 true, .ackS, .ackS, .ackS, .ackS, .tlbReq 0 true, .cp (.fwd 1 1 .d2h true)] := by
  decide +kernel

/-- a ToCaches buffer with room for 2 of the 4 reset requests: two are lost, the counter stays at 2 for
    ever, the copy behind the shootdown is never forwarded -/
example : (reachCps { capCache := 2 } [.shoot, .cp .tick, .take .cu 1, .ack .cu 0, .cp .tick, .take .at 1, .ack .at 0,
      .cp .tick, .cp (.req .h2d), .cp .tick, .cp (.takeCache 9), .cp (.ack 0), .cp (.ack 0), .cp .tick, .cp .tick, .cp .tick]).s.sig =
      "0,0,0,2,1,0" ∧
    (reachCps { capCache := 2 } [.shoot, .cp .tick, .take .cu 1, .ack .cu 0, .cp .tick, .take .at 1, .ack .at 0,
      .cp .tick, .cp (.req .h2d), .cp .tick, .cp (.takeCache 9), .cp (.ack 0), .cp (.ack 0), .cp .tick, .cp .tick, .cp .tick]).s.dropC = 2 ∧
    (reachCps { capCache := 2 } [.shoot, .cp .tick, .take .cu 1, .ack .cu 0, .cp .tick, .take .at 1, .ack .at 0,
      .cp .tick, .cp (.req .h2d), .cp .tick, .cp (.takeCache 9), .cp (.ack 0), .cp (.ack 0), .cp .tick, .cp .tick, .cp .tick]).s.c.drvIn =
      [⟨0, .h2d⟩] := by
  decide +kernel

end C11
