import MgpuModel.C19
namespace C19
end C19
