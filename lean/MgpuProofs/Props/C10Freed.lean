import MgpuProofs.C10Freed
import MgpuProofs.Props.C10Run
/-!
# Property C10 — "Freeing a buffer unmaps all of its pages", for whole histories

The run-level form of the oracle *every page of a freed buffer is unmapped*: after **any** history of
a single process in which every call returned (a Go panic is a `Fault` and ends the history), every
buffer that a context lists as freed has none of its `numPages` virtual pages in the page table.
No caller discipline is assumed (`Disciplined` is **not** a hypothesis): `FreeMemory` with any pointer
(a buffer start, the middle of a buffer, a pointer of another context, an already freed pointer),
`RemovePage`, `Remap`, `Distribute`, migration and `AllocatePageWithGivenVAddr` may be interleaved
freely.  Hypotheses: `Cfg` (positive page size dividing the device sizes) and `Valid` (= migration
targets are real GPUs ∧ at most one `Init`).  Without the single-process hypothesis the statement is
false — `freed_buffers_unmapped_full_refuted`, the open finding (mirror keyed by the virtual address only).
-/
namespace C10

/-- After every successful history of a single process, for every context and every buffer it lists
as freed, no virtual page of that buffer is mapped for the context's process.

Why: a `Free(ptr)` that does not fault has removed the key `(pid, v)` of every `v` it iterated over
(`pageTable.Remove` panics on a missing key, and with one process the mirror's entry carries that
process' ID); when `ptr` is the start of a buffer whose page count the allocator still remembers,
these `v` are exactly the buffer's pages; when the count was already deleted (an earlier `Free(ptr)`)
the first `Remove` panics, so that history is not a successful one; and virtual addresses below the
cursor are never inserted again (`Remap`/`Distribute`/migration/`AllocatePageWithGivenVAddr` only
`Update` existing keys). -/
theorem freed_buffers_unmapped {ps cpu : Nat} {gpus : List Nat} {ops : List Op} {s : State} (h : Cfg ps cpu gpus)
    (hv : Valid gpus.length ops) (hr : run (initState ps cpu gpus) ops = .ok s) :
    ∀ c ∈ s.ctxs, ∀ b ∈ c.bufs, b.freed = true → ∀ v ∈ bufPages s.ps b, (c.pid, v) ∉ s.pt.map key :=
  fun c hc b hb hf => (run_freed_all h hv.1 hv.2 hr c hc b hb).2 hf

/-- The same history also leaves the allocator's page-count record of every listed buffer either
intact or deleted-with-all-pages-unmapped: there is no state in which `Free` forgot the count of a
buffer but left some of its pages mapped. -/
theorem buffer_record_or_unmapped {ps cpu : Nat} {gpus : List Nat} {ops : List Op} {s : State} (h : Cfg ps cpu gpus)
    (hv : Valid gpus.length ops) (hr : run (initState ps cpu gpus) ops = .ok s) :
    ∀ c ∈ s.ctxs, ∀ b ∈ c.bufs,
      lookup s.npages b.vaddr = some (numPagesOf s.ps b.size) ∨
      (lookup s.npages b.vaddr = some 0 ∧ ∀ v ∈ bufPages s.ps b, (c.pid, v) ∉ s.pt.map key) :=
  fun c hc b hb => (run_freed_all h hv.1 hv.2 hr c hc b hb).1

/-- non-vacuity: the example history (remap, distribute, migration, unified allocation, two frees,
removeFreedBuffers, AllocatePageWithGivenVAddr) meets the hypotheses -/
example : ∀ s, run (initState 4096 16384 [32768, 32768]) exampleOps = .ok s →
    ∀ c ∈ s.ctxs, ∀ b ∈ c.bufs, b.freed = true → ∀ v ∈ bufPages s.ps b, (c.pid, v) ∉ s.pt.map key :=
  fun _ hr => freed_buffers_unmapped example_cfg example_valid hr

/-- … it runs to the end, and its final state does list a freed buffer (0x3000 in context 1), whose
page was mapped before the `Free` (so the conclusion is not about an empty set of buffers) -/
example : (match run (initState 4096 16384 [32768, 32768]) exampleOps with
     | .ok s => s.ctxs.any fun cx => cx.bufs.any fun b => b.freed
     | .error _ => false) = true := by decide

example : (match run (initState 4096 16384 [32768, 32768]) (exampleOps.take 14) with
     | .ok s => (s.pt.map key).contains (1, 12288)
     | .error _ => false) = true := by decide

/-- a history outside any caller discipline (Free in the middle of a buffer, RemovePage) also meets
the hypotheses and runs: the theorem covers it -/
def undisciplinedOps : List Op := [.init, .alloc 0 12000, .alloc 0 100, .free 0 8192, .rmpage 12288, .free 0 16384]

example : (match run (initState 4096 16384 [32768, 32768]) undisciplinedOps with
     | .ok s => s.ctxs.any fun cx => cx.bufs.any fun b => b.freed
     | .error _ => false) = true := by decide

example : ∀ s, run (initState 4096 16384 [32768, 32768]) undisciplinedOps = .ok s →
    ∀ c ∈ s.ctxs, ∀ b ∈ c.bufs, b.freed = true → ∀ v ∈ bufPages s.ps b, (c.pid, v) ∉ s.pt.map key := by
  intro s hr
  refine freed_buffers_unmapped example_cfg ⟨?_, by unfold SingleProc; decide⟩ hr
  intro op hop
  simp [undisciplinedOps] at hop
  rcases hop with rfl | rfl | rfl | rfl | rfl | rfl <;> simp [MigOK]

/-- Without the single-process hypothesis the statement is false (the open finding, same cause as
`free_no_crash_full_refuted`): the allocator's mirror is keyed by the virtual address only. -/
def freed_buffers_unmapped_full : Prop :=
  ∀ (ops : List Op) (s : State), MigsOK 1 ops → run (initState 4096 4096 [8192]) ops = .ok s →
    ∀ c ∈ s.ctxs, ∀ b ∈ c.bufs, b.freed = true → ∀ v ∈ bufPages s.ps b, (c.pid, v) ∉ s.pt.map key

/-- Two processes allocate (both get 0x1000), process 1 frees: the mirror entry for 0x1000 is the one
process 2 pushed last, so `Free` unmaps **process 2's** page; process 1's buffer is marked freed while
its page `(1, 0x1000)` stays mapped (and its physical page is never returned). -/
theorem freed_buffers_unmapped_full_refuted : ¬ freed_buffers_unmapped_full := by
  intro h
  have hm : MigsOK 1 crossPidOps := by
    intro op hop
    simp [crossPidOps] at hop
    rcases hop with rfl | rfl | rfl | rfl | rfl <;> simp [MigOK]
  have hr : run (initState 4096 4096 [8192]) crossPidOps = .ok crossPidState := rfl
  have hc : crossPidState.ctxs[0]? = some { pid := 1, gpu := 1, bufs := [⟨4096, 100, true⟩] } := rfl
  have := h crossPidOps crossPidState hm hr _ (List.mem_of_getElem? hc) ⟨4096, 100, true⟩
    (List.mem_singleton.mpr rfl) rfl 4096 (bufPages_head _ _)
  revert this
  decide

end C10
