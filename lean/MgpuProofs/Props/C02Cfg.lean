import MgpuProofs.Props.C02Wf
import MgpuProofs.C02WfDemo
import MgpuProofs.C02CfgLemmas
/-! # C02 — the hazard hypothesis as a dataflow analysis over the control-flow graph

`hazardFreeRun` ("`s_waitcnt` is placed correctly") is the hypothesis of the simulation theorem
`wavefront_timing_equals_emulator`. `Props/C02WfStatic.lean` gives it a static, decidable form for
straight-line kernels only. Here the static form covers kernels WITH branches (loops, if/else): a
forward may-be-in-flight analysis over the control-flow graph (`MgpuModel/C02Cfg.lean`), whose result
is validated by `cfgCheck`; every theorem below depends on `cfgCheck` only, not on how the solver
found the certificate.
-/
namespace C02.Cfg
open C02.Wf

/-- **cfg_check_sound.** Let `g` describe the program `P` (`GraphOK`: instruction `k` of `g.code` is what
    the emulator decodes at `g.addr k`; the PC behind a non-branch and every PC a branch can produce is
    the address of a listed successor), all instructions in one alias class, and let `A` (one abstract
    in-state per instruction: which vector accesses / scalar loads may be in flight, vector accesses
    with a lower bound on the number of younger ones) pass the certificate check `cfgCheck g A` — a
    decidable predicate on the graph alone. Then on the repaired compute unit every emulator run from
    `g.addr 0` that halts within `fuel` instructions and stays inside owned memory passes the
    address-exact dynamic hazard check: the hypothesis of the simulation theorem. -/
theorem cfg_check_sound (P : Prog) (hfix : P.oldCU = false) (g : Graph) (hok : GraphOK P g)
    (hreg : ∀ i ∈ g.code, ∀ j ∈ g.code, i.region = j.region) (A : List AState)
    (hc : cfgCheck g A = true) (hpos : 0 < g.code.length) (regs : RF) (mem : Mem) (fuel : Nat)
    (hterm : ∃ n, n ≤ fuel ∧ ∃ E, erun P n (einit (g.addr 0) regs mem) = some E ∧ E.done = true)
    (hacc : accRun P fuel (einit (g.addr 0) regs mem) = true) :
    hazardFreeRun P fuel (einit (g.addr 0) regs mem, {}) = true :=
  cfg_sound_aux hfix hok hreg hc fuel _ {} 0 hpos rfl (Cov.empty _) hterm hacc

/-- non-vacuity: the loop kernel `csLoop` (load / wait / xor / counter / compare / conditional branch back;
    store after the loop) at 0x1000 meets every hypothesis of `cfg_check_sound`, with the certificate
    the solver computes, on an input that runs the loop twice -/
example : GraphOK (cprog 0x1000 csLoop noForeign) (cgraph 0x1000 csLoop) ∧
    (∀ i ∈ (cgraph 0x1000 csLoop).code, ∀ j ∈ (cgraph 0x1000 csLoop).code, i.region = j.region) ∧
    cfgCheck (cgraph 0x1000 csLoop) (cfgSolve (cgraph 0x1000 csLoop) 715) = true ∧
    0 < (cgraph 0x1000 csLoop).code.length ∧
    (∃ n, n ≤ 20 ∧ ∃ E, erun (cprog 0x1000 csLoop noForeign) n
      (einit ((cgraph 0x1000 csLoop).addr 0) loopRegs demoMem) = some E ∧ E.done = true) ∧
    accRun (cprog 0x1000 csLoop noForeign) 20 (einit ((cgraph 0x1000 csLoop).addr 0) loopRegs demoMem) = true := by
  have hc : cfgCheck (cgraph 0x1000 csLoop) (cfgSolve (cgraph 0x1000 csLoop) 715) = true := by decide +kernel
  exact ⟨cgraph_ok_of_succ 0x1000 csLoop noForeign (by decide) (by decide +kernel)
      (fun k hk j hj => by
        have := cfgCheck_succ_lt hc k (by rw [cgraph_code, List.length_map]; exact hk) j hj
        rwa [cgraph_code, List.length_map] at this),
    cgraph_region _ _, hc, by decide,
    haltsIn_spec _ 20 _ (by decide +kernel), accRun_all' _ (fun _ => rfl) (fun _ => rfl) _ _⟩

/-- **cgraph_ok.** The graph `cgraph base cs` built from a kernel of the sample instruction set
    (fall-through edges, branch targets computed on PCs as `s_branch`/`s_cbranch_*` do and looked up
    among the instruction starts) describes the compiled program, provided every successor index is in
    range — which `cfgCheck` checks (an unresolved branch target is the out-of-range index). -/
theorem cgraph_ok (base : Nat) (cs : List CInst) (foreign : Nat → Bool) (A : List AState)
    (hlen : cs.length ≤ 65536) (hsz : base + 8 * cs.length < PCM)
    (hc : cfgCheck (cgraph base cs) A = true) :
    GraphOK (cprog base cs foreign) (cgraph base cs) :=
  cgraph_ok_of_succ base cs foreign hlen hsz (fun k hk j hj => by
    have := cfgCheck_succ_lt hc k (by rw [cgraph_code, List.length_map]; exact hk) j hj
    rwa [cgraph_code, List.length_map] at this)

/-- non-vacuity: the loop kernel passes the check; its conditional branch (index 6) has the two
    successors 7 (fall through) and 1 (the loop head) -/
example : cfgCheck (cgraph 0x1000 csLoop) (cfgSolve (cgraph 0x1000 csLoop) 715) = true ∧
    (cgraph 0x1000 csLoop).succ 6 = [7, 1] ∧ csLoop.length ≤ 65536 ∧ 0x1000 + 8 * csLoop.length < PCM := by
  refine ⟨by decide +kernel, by decide +kernel, by decide, by decide +kernel⟩

/-- **branching_program_static_check.** The simulation theorem with the hazard hypothesis in its static
    form for programs with branches: a kernel whose control-flow graph passes `cfgCheck` gives, on every
    schedule of the timing compute unit that completes, the emulator's final registers, owned memory
    and executed-instruction sequence — for every input on which the emulator halts within `fuel`
    instructions (a loop's trip count depends on the input; halting is not derivable from the check). -/
theorem branching_program_static_check (P : Prog) (hP : P.WF) (gate : TState → Inst → Bool)
    (g : Graph) (hok : GraphOK P g) (hreg : ∀ i ∈ g.code, ∀ j ∈ g.code, i.region = j.region)
    (A : List AState) (hc : cfgCheck g A = true) (hpos : 0 < g.code.length)
    (regs : RF) (mem : Mem) (fuel : Nat)
    (hterm : ∃ n, n ≤ fuel ∧ ∃ E, erun P n (einit (g.addr 0) regs mem) = some E ∧ E.done = true)
    (hacc : accRun P fuel (einit (g.addr 0) regs mem) = true)
    (evs : List Ev) (T : TState) (hrun : trun P gate (tinit (g.addr 0) regs mem) evs = some T)
    (hdone : T.ph = .done) :
    ∃ n E, erun P n (einit (g.addr 0) regs mem) = some E ∧ E.done = true ∧ T.regs = E.regs ∧
      (∀ a, P.own a = true → T.mem a = E.mem a) ∧ T.trace = E.trace :=
  wavefront_timing_equals_emulator P hP gate (g.addr 0) regs mem fuel
    (cfg_check_sound P hP.fixed g hok hreg A hc hpos regs mem fuel hterm hacc) evs T hrun hdone

/-- non-vacuity: the hypotheses about the program are those of `cfg_check_sound` (met by `csLoop`,
    see above) plus `Prog.WF`, which every compiled program has; and a schedule of the timing compute
    unit (`evsLoop`, two iterations) completes — with the emulator's `v9[0]` and stored byte -/
example : (cprog 0x1000 csLoop noForeign).WF ∧
    (trun (cprog 0x1000 csLoop noForeign) (fun _ _ => true) (tinit 0x1000 loopRegs demoMem) evsLoop).map
      (fun T => (T.ph, T.regs (vreg 9 0), T.mem 4, T.trace.length)) = some (.done, 370083840, 28, 16) ∧
    (erun (cprog 0x1000 csLoop noForeign) 16 (einit 0x1000 loopRegs demoMem)).map
      (fun E => (E.done, E.regs (vreg 9 0), E.mem 4, E.trace.length)) = some (true, 370083840, 28, 16) :=
  ⟨cprog_wf _ _ _, by decide +kernel, by decide +kernel⟩

/-- **loop_program_cfg_check.** The full statement for the repaired compute unit on the sample
    instruction set, kernels WITH branches: if the dataflow check `hcheckCfg` accepts the control-flow
    graph of the kernel — a decidable predicate on the instruction list — then for every input on which
    the emulator halts (within `fuel` instructions), EVERY schedule of the timing compute unit that
    completes ends with the emulator's registers, memory and executed-instruction sequence. -/
theorem loop_program_cfg_check (base : Nat) (cs : List CInst) (gate : TState → Inst → Bool)
    (regs : RF) (mem : Mem) (fuel : Nat) (evs : List Ev) (T : TState)
    (hlen : cs.length ≤ 65536) (hsz : base + 8 * cs.length < PCM) (hpos : 0 < cs.length)
    (hc : hcheckCfg (cgraph base cs) = true)
    (hterm : ∃ n, n ≤ fuel ∧ ∃ E, erun (cprog base cs noForeign) n (einit base regs mem) = some E ∧ E.done = true)
    (hrun : trun (cprog base cs noForeign) gate (tinit base regs mem) evs = some T) (hdone : T.ph = .done) :
    ∃ n E, erun (cprog base cs noForeign) n (einit base regs mem) = some E ∧ E.done = true ∧
      T.regs = E.regs ∧ (∀ a, T.mem a = E.mem a) ∧ T.trace = E.trace := by
  have h0 : (cgraph base cs).addr 0 = base := by
    rw [cgraph_addr]
    cases cs with
    | nil => rfl
    | cons _ _ => rfl
  have hg := cgraph_ok base cs noForeign _ hlen hsz hc
  obtain ⟨n, E, h1, h2, h3, h4, h5⟩ := branching_program_static_check (cprog base cs noForeign)
    (cprog_wf _ _ _) gate (cgraph base cs) hg (cgraph_region base cs) _ hc
    (by rw [cgraph_code, List.length_map]; exact hpos) regs mem fuel (by rw [h0]; exact hterm)
    (accRun_all' _ (fun _ => rfl) (fun _ => rfl) _ _) evs T (by rw [h0]; exact hrun) hdone
  rw [h0] at h1
  exact ⟨n, E, h1, h2, h3, fun a => h4 a rfl, h5⟩

/-- non-vacuity: `csLoop` is accepted and its emulator run on `loopRegs` (two iterations) halts -/
example : hcheckCfg (cgraph 0x1000 csLoop) = true ∧ 0 < csLoop.length ∧
    (∃ n, n ≤ 20 ∧ ∃ E, erun (cprog 0x1000 csLoop noForeign) n (einit 0x1000 loopRegs demoMem) = some E ∧
      E.done = true) :=
  ⟨by decide +kernel, by decide, haltsIn_spec _ 20 _ (by decide +kernel)⟩

/-- **cfg_check_extends_hcheck.** The dataflow check is not weaker than the straight-line check: an
    instruction list (vmcnt operands at most 64 — the hardware field has 6 bits) that passes `hcheck`
    passes `cfgCheck` on its line graph (instruction `k` continues at `k + 1`), with the certificate
    obtained by walking the list with the transfer function. -/
theorem cfg_check_extends_hcheck (l : List Inst)
    (hvm : ∀ i ∈ l, ∀ vm lgkm, i.kind = .wait vm lgkm → vm ≤ 64) (h : hcheck l = true) :
    cfgCheck (lineGraph l) (lineCert l) = true :=
  line_cert_ok l hvm h

/-- non-vacuity: the straight-line kernel `csGood` passes `hcheck`; the solver finds a certificate for its
    line graph as well -/
example : hcheck (csGood.map compile) = true ∧ hcheckCfg (lineGraph (csGood.map compile)) = true ∧
    (∀ i ∈ csGood.map compile, ∀ vm lgkm, i.kind = .wait vm lgkm → vm ≤ 64) := by
  refine ⟨by decide +kernel, by decide +kernel, ?_⟩
  intro i hi vm lgkm hk
  simp only [csGood, List.map_cons, List.map_nil, List.mem_cons, List.not_mem_nil, or_false] at hi
  rcases hi with rfl | rfl | rfl | rfl | rfl | rfl | rfl | rfl | rfl <;> simp [compile] at hk
  omega

/-- **loop_program_accepted.** A kernel with a loop — which the straight-line check cannot express (it
    contains a branch, so it is no `StraightLine`) — whose `s_waitcnt` sits inside the loop body is accepted
    by the dataflow check. -/
theorem loop_program_accepted :
    hcheckCfg (cgraph 0x1000 csLoop) = true ∧ (∃ c ∈ csLoop, (compile c).kind = .branch) :=
  ⟨by decide +kernel, .cbr 1 0xfff9, by decide, rfl⟩

/-- non-vacuity: on the two-iteration input the dynamic check agrees -/
example : hazardFreeRun (cprog 0x1000 csLoop noForeign) 20 (einit 0x1000 loopRegs demoMem, {}) = true := by
  decide +kernel

/-- **loop_carried_hazard_rejected.** The loop-carried hazard: in `csLoopBad` the load is issued at the
    end of the loop body, its destination is read at the top of the body, and the only `s_waitcnt` is behind
    the loop. ONE iteration laid out as a straight line passes the old check (`hcheck`), yet the dataflow
    check rejects the loop — and rightly so: NO certificate passes `cfgCheck` (by soundness: on the input
    `loopRegs` the loop runs twice and the address-exact dynamic check fails in the second iteration). -/
theorem loop_carried_hazard_rejected :
    hcheck (csLoopBadOnce.map compile) = true ∧
    hcheckCfg (cgraph 0x1000 csLoopBad) = false ∧
    (∀ A, cfgCheck (cgraph 0x1000 csLoopBad) A = false) ∧
    hazardFreeRun (cprog 0x1000 csLoopBad noForeign) 30 (einit 0x1000 loopRegs demoMem, {}) = false := by
  have hdyn : hazardFreeRun (cprog 0x1000 csLoopBad noForeign) 30 (einit 0x1000 loopRegs demoMem, {}) = false := by
    decide +kernel
  refine ⟨by decide +kernel, by decide +kernel, ?_, hdyn⟩
  intro A
  cases h : cfgCheck (cgraph 0x1000 csLoopBad) A with
  | false => rfl
  | true =>
    have hs := cfg_check_sound (cprog 0x1000 csLoopBad noForeign) rfl (cgraph 0x1000 csLoopBad)
      (cgraph_ok 0x1000 csLoopBad noForeign A (by decide) (by decide +kernel) h) (cgraph_region _ _) A h
      (by decide) loopRegs demoMem 30 (haltsIn_spec _ 30 _ (by decide +kernel))
      (accRun_all' _ (fun _ => rfl) (fun _ => rfl) _ _)
    have h0 : (cgraph 0x1000 csLoopBad).addr 0 = 0x1000 := rfl
    rw [h0, hdyn] at hs
    cases hs

/-- non-vacuity: the rejected kernel is a real loop (the branch at index 5 goes back to index 1) and its
    emulator run on `loopRegs` halts -/
example : (cgraph 0x1000 csLoopBad).succ 5 = [6, 1] ∧
    haltsIn (cprog 0x1000 csLoopBad noForeign) 30 (einit 0x1000 loopRegs demoMem) = true :=
  ⟨by decide +kernel, by decide +kernel⟩

/-- **loop_carried_hazard_differs.** The rejection is necessary: for the rejected loop `csLoopBad` the
    compute unit's rules accept a schedule (`evsLoopBad`: the load of iteration 1 returns only at the
    `s_waitcnt` behind the loop) on which the wavefront completes with `v9[0] = 1` and stores 1 at
    address 0, while the emulator ends with `v9[0] = 1 ^ loaded` and stores 0 there. -/
theorem loop_carried_hazard_differs :
    (trun (cprog 0x1000 csLoopBad noForeign) (fun _ _ => true) (tinit 0x1000 loopRegs demoMem) evsLoopBad).map
      (fun T => (T.ph, T.regs (vreg 9 0), T.mem 0)) = some (.done, 1, 1) ∧
    (erun (cprog 0x1000 csLoopBad noForeign) 15 (einit 0x1000 loopRegs demoMem)).map
      (fun E => (E.done, E.regs (vreg 9 0), E.mem 0)) = some (true, 370083840, 0) := by
  refine ⟨?_, ?_⟩ <;> decide +kernel

/-- non-vacuity: both runs execute the same 15 instructions (two iterations of the loop) -/
example : (trun (cprog 0x1000 csLoopBad noForeign) (fun _ _ => true) (tinit 0x1000 loopRegs demoMem) evsLoopBad).map
      (fun T => T.trace.length) = some 15 ∧
    (erun (cprog 0x1000 csLoopBad noForeign) 15 (einit 0x1000 loopRegs demoMem)).map
      (fun E => E.trace.length) = some 15 := by
  refine ⟨?_, ?_⟩ <;> decide +kernel

end C02.Cfg
