import MgpuProofs.C12_FullMeasure
/-!
# C12 (waiting on a command queue always terminates): the driver cannot spin

`no_lost_wakeup` (C12.W.Full) says the driver is never asleep while something is left to do. The
other half of "waiting terminates" is that the driver does not stay AWAKE for ever without getting
anywhere: Akita re-schedules a tick whenever `Driver.Tick` reports progress, so a stage that reports
progress without changing anything would keep the engine busy for ever (the simulation never ends
and the waiting thread never returns). `measure` counts what the command path can still do — messages
in the GPU port, requests to send, requests in the delay line (twice: they are moved, then sent),
the delay line's counter, and for every queued command its start, its requests and its completion.
On a state in which only the command path is active (`CmdOnly`: kernel / copy answers in the port,
no page migration) every stage of the transcribed `Driver.Tick` that reports progress strictly
decreases the measure and no stage increases it.
-/
namespace C12
namespace W
namespace Full

/-- **Reported progress is real progress.** On the command path (Noop, kernel and memory-copy
    commands, their requests and answers, the delay line) a `Driver.Tick` that returns `true` has
    strictly decreased the amount of work the driver can still do. So the engine cannot be kept
    ticking by a command whose handling says "progress" and changes nothing: a wait on a command
    queue is never starved by a driver that spins. -/
theorem progress_decreases_measure (k : Caps) (c : C) (h : CmdOnly c) (hp : (tick k c).2 = true) :
    measure (tick k c).1 < measure c :=
  (tick_measure k c h).2.2 hp

/-- **The command path is closed under `Tick`.** If the GPU port holds only kernel / copy answers
    and no page migration is in flight, the same holds after the tick (no stage invents a migration
    or a foreign message) — so the two statements about the measure apply to every later tick. -/
theorem cmd_only_preserved (k : Caps) (c : C) (h : CmdOnly c) : CmdOnly (tick k c).1 :=
  (tick_measure k c h).1

/-- **The driver goes to sleep (no livelock).** Without new input — no further answer delivered, no
    further command enqueued — the driver reports "no progress" after at most `measure c` ticks,
    whatever the port capacities; the engine then stops re-scheduling it. A command whose start
    reports progress without changing anything (as the unified multi-GPU launch with an empty grid
    did before it was made to complete at once: `kern 0`) would make this false: every tick would
    return `true` for ever. -/
theorem driver_goes_to_sleep (k : Caps) (c : C) (h : CmdOnly c) :
    ∃ n, n ≤ measure c ∧ (tick k (iter k n c)).2 = false := by
  generalize hm : measure c = m
  induction m using Nat.strongRecOn generalizing c with
  | _ m ih =>
    cases hp : (tick k c).2 with
    | false => exact ⟨0, Nat.zero_le _, hp⟩
    | true =>
      obtain ⟨h', _, hlt⟩ := tick_measure k c h
      have hlt := hlt hp
      obtain ⟨n, hn, hq⟩ := ih (measure (tick k c).1) (by omega) (tick k c).1 h' rfl
      exact ⟨n + 1, by omega, hq⟩

/-- **… and it sleeps only with nothing left to do.** The quiet tick reached after at most
    `measure c` ticks has changed nothing and leaves no work (`quiet_tick`): every request that
    could be sent is sent, every startable command is started, the delay line is not counting for a
    copy request, the GPU port is empty. What is still pending then waits for an answer of the GPU
    side — whose delivery wakes the driver (`delivery_wakes`). -/
theorem driver_sleeps_with_nothing_to_do (k : Caps) (c : C) (h : CmdOnly c) :
    ∃ n, n ≤ measure c ∧ (tick k (iter k n c)).2 = false ∧ (tick k (iter k n c)).1 = iter k n c ∧
      ¬ work k (iter k n c) := by
  obtain ⟨n, hn, hq⟩ := driver_goes_to_sleep k c h
  obtain ⟨he, hw⟩ := quiet_tick k (iter k n c) (cmdOnly_clean (iter_cmdOnly k n c h)) hq
  exact ⟨n, hn, hq, he, hw⟩

/-! non-vacuity: two queues of one context — a kernel with two launch requests, and a Noop with a
    two-page H2D copy behind it (the copy starts after the kernel has marked the context dirty, so it
    flushes both GPUs); delay line of 3 cycles. Without any answer the driver starts everything,
    sends the 2 + 2 + 2 requests, and reports "no progress" in its 9th tick (bound: 18). -/
def demoC : C :=
  { d := { nGpus := 2, cycH2D := 3, dirty := [false],
           qs := [{ cmds := [.kern 2] }, { cmds := [.noop, .copy false 2] }] } }

example : CmdOnly demoC ∧ measure demoC = 18 ∧
    (∀ n, n < 8 → (tick {} (iter {} n demoC)).2 = true) ∧ (tick {} (iter {} 8 demoC)).2 = false ∧
    measure (iter {} 8 demoC) = 2 ∧ (iter {} 8 demoC).outb.length = 6 ∧
    (iter {} 8 demoC).d.qs.map (fun q => (q.cmds.length, q.running, q.left)) = [(1, true, 2), (1, true, 4)] :=
  ⟨⟨(by intro m hm; cases hm), rfl, rfl, rfl⟩, by decide, by decide, by decide, by decide, by decide, by decide⟩

/-! non-vacuity with answers in the port: both commands are running, all six answers have arrived;
    the driver takes one answer per tick (the kernel's through `processReturnReq`, the copy's through
    the middleware), completes both commands and goes to sleep with empty queues and measure 0 -/
def demoAnswered : C :=
  { d := { nGpus := 2, cycH2D := 3, dirty := [true], cyc := none,
           qs := [{ cmds := [.kern 2], running := true, left := 2 }, { cmds := [.copy false 2], running := true, left := 4 }] },
    inb := [.kernRsp 0, .genRsp 1, .genRsp 1, .kernRsp 0, .genRsp 1, .genRsp 1] }

example : CmdOnly demoAnswered ∧ measure demoAnswered = 8 ∧ (tick {} (iter {} 6 demoAnswered)).2 = false ∧
    measure (iter {} 6 demoAnswered) = 0 ∧ (iter {} 6 demoAnswered).d.qs.map (·.cmds) = [[], []] := by
  refine ⟨⟨?_, rfl, rfl, rfl⟩, by decide, by decide, by decide, by decide⟩
  intro m hm
  simp only [demoAnswered, List.mem_cons, List.mem_nil_iff, or_false] at hm
  rcases hm with rfl | rfl | rfl | rfl | rfl | rfl
  · exact ⟨0, Or.inl rfl⟩
  · exact ⟨1, Or.inr rfl⟩
  · exact ⟨1, Or.inr rfl⟩
  · exact ⟨0, Or.inl rfl⟩
  · exact ⟨1, Or.inr rfl⟩
  · exact ⟨1, Or.inr rfl⟩

end Full
end W
end C12
