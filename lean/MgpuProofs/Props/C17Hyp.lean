import MgpuProofs.Props.C17
import MgpuProofs.Props.C17Live
import MgpuProofs.Props.C17Pay
/-! # C17 — the hypotheses of the theorems cannot be dropped

For every hypothesis that is not discharged from the reachable-state invariant, a kernel-checked witness shows that the
statement fails without it; the same inputs run on the real component in every check (`harness/c17*.go`): short masks
(`fault:bounds` lines of the main runner), rejected addresses and capacity (`fault:conv`, `fault:cap` lines of the deep
runner), zero sizes (`c17 valid …` lines: `Builder.configurationMustBeValid` panics), straddling requests and
block-splitting converters (fixed witnesses). The width hypothesis of the safety theorems is gone (`Props/C17W.lean`). -/
namespace C17

/-- `opOk` of `no_panic_on_ok_traffic`, `liveness_*`: each of its three conjuncts is needed — a mask shorter than the data
(index panic in `finalizeWrite`), an address the bank address converter rejects (`log.Panic` in `dispatchPending`), a
footprint beyond the storage capacity (`log.Panic` in `finalizeRead`) each make a tick of a reachable state panic. -/
theorem no_panic_needs_opOk :
    (tickFlags tiny (run tiny [.deliver .wr 0 2 [1, 2] (some [true]), .tick, .tick, .tick])).2 = true ∧
    (tickFlags ⟨2, 6, 1, 1, 1, 0, 0, 1, 1, some ⟨64, 2, 0, 0⟩, none⟩
      (run ⟨2, 6, 1, 1, 1, 0, 0, 1, 1, some ⟨64, 2, 0, 0⟩, none⟩ [.deliver .rd 0x40 1 [] none, .tick])).2 = true ∧
    (tickFlags ⟨2, 6, 1, 1, 1, 0, 0, 1, 1, none, some 0x1000⟩
      (run ⟨2, 6, 1, 1, 1, 0, 0, 1, 1, none, some 0x1000⟩ [.deliver .rd 0x2000 4 [] none, .tick, .tick, .tick])).2 = true := by
  decide +kernel

/-- the three requests above violate exactly the conjunct in question -/
example : ¬ opOk tiny (.deliver .wr 0 2 [1, 2] (some [true])) ∧
    ¬ opOk ⟨2, 6, 1, 1, 1, 0, 0, 1, 1, some ⟨64, 2, 0, 0⟩, none⟩ (.deliver .rd 0x40 1 [] none) ∧
    ¬ opOk ⟨2, 6, 1, 1, 1, 0, 0, 1, 1, none, some 0x1000⟩ (.deliver .rd 0x2000 4 [] none) := by decide

/-- the conclusion of `liveness_bounded` for configuration `c`, without the builder's positivity hypotheses -/
def LivenessAt (c : Cfg) : Prop := ∀ (ops1 ops2 : List Op) (r : Req), (∀ op ∈ ops1 ++ ops2, opOk c op) →
  r ∈ (run c ops1).arrived → remaining c (run c ops1) r ≤ acceptingTicks c (bankOf c r.addr) (run c ops1) ops2 →
  r ∈ (run c (ops1 ++ ops2)).resp.map (·.req)

/-- `liveness_bounded` is `LivenessAt` under the hypotheses the builder enforces -/
example (c : Cfg) (hw : c.width = 1) (hd : 0 < c.depth) (hp : 0 < c.post) (hb : 0 < c.banks) : LivenessAt c :=
  fun ops1 ops2 r hok hr hn => liveness_bounded c hw hd hp hb ops1 ops2 hok r hr hn

/-- **`0 < post`, `0 < depth`, `0 < banks` are needed** (width 1 each time): with a post-pipeline buffer of capacity 0 the
pipeline can never hand a request over, with 0 stages it can never accept one, with 0 banks nothing is ever dispatched —
a read delivered to such a component is still unanswered after 40 ticks, every one of which "accepted" (nothing was
offered). The real `Builder.Build` refuses these configurations (`configurationMustBeValid`; `c17 valid` case lines). -/
theorem liveness_needs_builder_validity :
    ¬ LivenessAt ⟨1, 6, 1, 1, 1, 0, 0, 0, 1, none, none⟩ ∧
    ¬ LivenessAt ⟨1, 6, 1, 0, 1, 0, 0, 1, 1, none, none⟩ ∧
    ¬ LivenessAt ⟨0, 6, 1, 1, 1, 0, 0, 1, 1, none, none⟩ := by
  refine ⟨?_, ?_, ?_⟩ <;> intro h
  · have := h [.deliver .rd 0 1 [] none] (List.replicate 40 .tick) ⟨0, .rd, 0, 1, [], none⟩ (by decide +kernel)
      (by decide +kernel) (by decide +kernel)
    revert this; decide +kernel
  · have := h [.deliver .rd 0 1 [] none] (List.replicate 40 .tick) ⟨0, .rd, 0, 1, [], none⟩ (by decide +kernel)
      (by decide +kernel) (by decide +kernel)
    revert this; decide +kernel
  · have := h [.deliver .rd 0 1 [] none] (List.replicate 40 .tick) ⟨0, .rd, 0, 1, [], none⟩ (by decide +kernel)
      (by decide +kernel) (by decide +kernel)
    revert this; decide +kernel

/-- **`fits` is needed in `footprint_one_bank`** (no converter): a 4-byte request at 0x3e touches 0x40, a byte of the next
interleave block — another bank. -/
theorem footprint_needs_fits : ¬ (∀ (c : Cfg) (r : Req) (x : Nat), ConvOk c → 0 < c.banks → touches x r = true →
    bankOf c r.addr = bankOf c x) := by
  intro h
  have := h ⟨2, 6, 1, 1, 1, 0, 0, 1, 1, none, none⟩ ⟨0, .wr, 0x3e, 4, [1, 2, 3, 4], none⟩ 0x40 trivial (by decide) (by decide)
  revert this; decide

/-- **`b ≤ ilv` is needed in `fits_of_line`**: a request inside an aligned 128-byte line can straddle a 64-byte block. -/
theorem fits_of_line_needs_small_line : ¬ (∀ (c : Cfg) (b : Nat) (r : Req), inLine b r → fits c r) := by
  intro h
  have := h ⟨2, 6, 1, 1, 1, 0, 0, 1, 1, none, none⟩ 7 ⟨0, .wr, 0x3e, 4, [1, 2, 3, 4], none⟩ (by decide)
  revert this; unfold fits; decide

/-- **`r ∈ arrived` is needed in the liveness theorems**: a request the port refused (incoming buffer full: the `f`
answers of the trace) is not part of the scenario and is never answered. -/
theorem liveness_needs_arrival : ¬ (∀ (c : Cfg) (ops : List Op) (r : Req), c.width = 1 → 0 < c.depth → 0 < c.post →
    0 < c.banks → r ∈ (run c ops).resp.map (·.req)) := by
  intro h
  have := h tiny [.deliver .wr 0 1 [1] none, .deliver .wr 0 1 [2] none, .tick, .tick, .tick, .tick, .out 1, .tick, .tick]
    ⟨1, .wr, 0, 1, [2], none⟩ rfl (by decide) (by decide) (by decide)
  revert this; decide +kernel

end C17
