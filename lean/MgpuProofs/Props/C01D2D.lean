import MgpuModel.C01_Kernels
import MgpuProofs.C01D2D
/-! # C01 — property theorems: the repaired device-to-device copy, the hidden kernel argument, the page queue

* `memcopyD2D_exact` — the repaired `Driver.EnqueueMemCopyD2D(dst, src, num)` (repo fix f8227823: `copyKernel`
  on the `num / 4` whole dwords, the `num % 4` tail bytes through the host) copies exactly the `num` requested
  bytes and changes nothing else (contrast: `memcopyD2D_tail_overrun` in Props/C01Emu.lean, a statement about
  the OLD launch shape `G = ⌈num/4⌉, N = num`);
* `d2dPlan_exact` — the plan covers `num` bytes: `4·words + tailLen = num`, `tailOff = 4·words`, `tailLen < 4`;
* `copyKernel_driver_kernarg`, `copyKernel_driver_kernarg_run`, `driver_writes_hidden_offset` — the REPAIRED
  driver (finding `C01-hidden-kernarg-stale-page`) writes 48 bytes of kernel arguments: the explicit ones and
  explicit zeros for the hidden global offsets; `copyKernel` reads the hidden global offset x at
  `kernarg + 24 .. 31`.  The program proof holds for the image the driver really installs, for EVERY memory —
  whatever the kernel-argument page held before;
* `copyKernel_fresh_kernarg`, `copyKernel_fresh_kernarg_run`, `old_driver_leaves_hidden_offset` — the driver
  BEFORE that repair wrote only the 24 explicit bytes (`driverImageOldOld`): the proof needed the 8 bytes behind
  them to be zero in the caller's memory (a never-used page), and a reused page keeps whatever it held;
* `fresh_until_wrap`, `fresh_always_refuted` — where that zero comes from: the free-page queue of a device hands
  out the pages of its initial queue, each once and in order, before anything that was given back; after that
  (the queue "wraps") a page that was used before can be handed out again. -/
namespace C01
namespace Emu
open C03V Copy

/-- **d2dPlan_exact.** The plan of `EnqueueMemCopyD2D(…, num)` covers the `num` bytes exactly: the kernel's
    `4·words` bytes and the `tailLen < 4` bytes starting at `tailOff = 4·words`. -/
theorem d2dPlan_exact (num : Nat) :
    4 * (d2dPlan num).words + (d2dPlan num).tailLen = num ∧ (d2dPlan num).tailOff = 4 * (d2dPlan num).words ∧
      (d2dPlan num).tailLen < 4 :=
  d2dPlan_sum num

/-- **memcopyD2D_exact.** The repaired `MemCopyD2D(dst, src, num)`, for every `num` (the launch, when there is
    one, being a valid configuration: `num / 4 < 2^31`, no 64-bit wrap-around, aligned kernel-argument and packet
    addresses, destination disjoint from what the kernel reads — `d2dCfgW_valid` gives it from elementary
    conditions), source range `[src, src+num)` disjoint from destination range `[dst, dst+num)`, any tail of the
    kernel-argument segment, any packet announcing work-group size 64, any memory whose source bytes are bytes:
    after the kernel (run on the `num / 4` dwords, skipped when that is 0) and the host copy of the `num % 4` tail
    bytes, `dst[i] = src[i]` for exactly the `num` requested bytes, and EVERY other byte of memory — in
    particular the up to three bytes behind the destination range that the old launch shape overwrote — is what
    it was at launch. -/
theorem memcopyD2D_exact (co ka pa src dst num : Nat)
    (hsE : src + num ≤ 2 ^ 64) (hdE : dst + num ≤ 2 ^ 64)
    (hdisj : src + num ≤ dst ∨ dst + num ≤ src)
    (hv : 0 < num / 4 → (d2dCfgW co ka pa src dst num).Valid) (tail pk : List Nat) (m : Mem)
    (hpk : 8 ≤ pk.length) (h4 : pk.getD 4 0 = 64) (h5 : pk.getD 5 0 = 0)
    (hsep : ka + 32 ≤ pa ∨ pa + pk.length ≤ ka)
    (hbytes : ∀ i, i < num → get (d2dStart co ka pa src dst num tail pk m) (src + i) < 256) :
    (∀ i, i < num → get (d2dRun co ka pa src dst num tail pk m) (dst + i) =
      get (d2dStart co ka pa src dst num tail pk m) (src + i)) ∧
    (∀ a, (a < dst ∨ dst + num ≤ a) → get (d2dRun co ka pa src dst num tail pk m) a =
      get (d2dStart co ka pa src dst num tail pk m) a) :=
  d2d_exact co ka pa src dst num hsE hdE hdisj hv tail pk m hpk h4 h5 hsep hbytes

/-- **copyKernel_driver_kernarg (full statement, since the repair of finding `C01-hidden-kernarg-stale-page`).**
    `EnqueueMemCopyD2D` writes the 48 bytes `KernelMemCopyArgs{Src, Dst, N, HiddenGlobalOffsetX/Y/Z: 0}`
    (`driverImage`) into the kernel-argument buffer.  For EVERY memory `m` — no hypothesis on the page the
    buffer lies on — the emulator runs the dispatch with the image the driver really installs without fault,
    `dst[i] = src[i]` for the `4·min(G,N)` bytes of the copied elements and every other byte is what it was at
    launch (`driverMem`: the caller's memory with the 48 argument bytes and the packet installed). -/
theorem copyKernel_driver_kernarg (c : Cfg) (hv : c.Valid) (hG : 0 < c.G) (pk : List Nat) (m : Mem) (fuel : Nat)
    (hpk : 8 ≤ pk.length) (h4 : pk.getD 4 0 = 64) (h5 : pk.getD 5 0 = 0)
    (hsep : c.ka + 32 ≤ c.pa ∨ c.pa + pk.length ≤ c.ka)
    (hsrc : c.src < 2 ^ 64) (hdst : c.dst < 2 ^ 64)
    (hbytes : ∀ i, i < 4 * c.K → get (driverMem c pk m) (c.src + i) < 256) :
    ∃ m', runE P (disp c (driverImage c) pk) (fuel + 27) m = .ok m' ∧
      (∀ i, i < 4 * c.K → get m' (c.dst + i) = get (driverMem c pk m) (c.src + i)) ∧
      (∀ a, ¬ c.inDst a → get m' a = get (driverMem c pk m) a) :=
  driver_kernarg_runE c hv hG pk m fuel hpk h4 h5 hsep hsrc hdst hbytes

/-- the same for `Emu.run` (the function the correspondence cases execute) -/
theorem copyKernel_driver_kernarg_run (c : Cfg) (hv : c.Valid) (hG : 0 < c.G) (pk : List Nat) (m : Mem)
    (hpk : 8 ≤ pk.length) (h4 : pk.getD 4 0 = 64) (h5 : pk.getD 5 0 = 0)
    (hsep : c.ka + 32 ≤ c.pa ∨ c.pa + pk.length ≤ c.ka)
    (hsrc : c.src < 2 ^ 64) (hdst : c.dst < 2 ^ 64)
    (hbytes : ∀ i, i < 4 * c.K → get (driverMem c pk m) (c.src + i) < 256) :
    (∀ i, i < 4 * c.K → get (run P (disp c (driverImage c) pk) m) (c.dst + i) = get (driverMem c pk m) (c.src + i)) ∧
    (∀ a, ¬ c.inDst a → get (run P (disp c (driverImage c) pk) m) a = get (driverMem c pk m) a) :=
  driver_kernarg_run c hv hG pk m hpk h4 h5 hsep hsrc hdst hbytes

/-- **driver_writes_hidden_offset.** In the memory the repaired driver installs, the hidden global offset x
    the kernel loads is zero whatever the page held before; the image is the image of the program proof
    (`kernargImage`) followed by the zero offsets y and z, so `memcopyD2D_exact` (any `tail`) is a statement
    about the launch the driver really builds. -/
theorem driver_writes_hidden_offset (c : Cfg) (pk : List Nat) (m : Mem)
    (hsep : c.ka + 32 ≤ c.pa ∨ c.pa + pk.length ≤ c.ka) :
    (∀ j, j < 8 → get (driverMem c pk m) (c.ka + 24 + j) = 0) ∧
    driverImage c = kernargImage c ++ (le8 0 ++ le8 0) ∧ (driverImage c).length = 48 :=
  ⟨driverMem_hidden_zero c pk m hsep, driverImage_eq c, rfl⟩

/-- **old_driver_leaves_hidden_offset (the code before the repair).** The 24-byte image left bytes 24..31 of
    the kernel-argument buffer as the page held them: with `0x40` there (the input of the former finding: a page
    that was used before) the kernel's hidden global offset is 64, not 0 — `MemCopyD2D(64)` launched 16
    work-items with ids 64..79, none below `N = 16`, and copied nothing. -/
theorem old_driver_leaves_hidden_offset (c : Cfg) (pk : List Nat) (m : Mem)
    (hsep : c.ka + 32 ≤ c.pa ∨ c.pa + pk.length ≤ c.ka) (j : Nat) (hj : j < 8) :
    get (driverMemOld c pk m) (c.ka + 24 + j) = get m (c.ka + 24 + j) := by
  unfold driverMemOld
  rw [get_install, if_neg (by omega), get_install, if_neg (by rw [driverImageOld_length]; omega)]

/-- **copyKernel_fresh_kernarg (the code before the repair).** `EnqueueMemCopyD2D` wrote the 24 bytes `KernelMemCopyArgs{src, dst, n}`
    (`driverImageOld`) into the kernel-argument buffer; `copyKernel` also loads the hidden global offset x from
    bytes 24..31 of that buffer, which nobody wrote.  If these 8 bytes are zero in the caller's memory
    (`hfresh`: the buffer lies on a never-used page, see `fresh_until_wrap`), the emulator runs the dispatch
    with the image the driver really installs without fault, `dst[i] = src[i]` for the `4·min(G,N)` bytes of the
    copied elements and every other byte is what it was at launch (`driverMemOld`: the caller's memory with the 24
    argument bytes and the packet installed). -/
theorem copyKernel_fresh_kernarg (c : Cfg) (hv : c.Valid) (hG : 0 < c.G) (pk : List Nat) (m : Mem) (fuel : Nat)
    (hpk : 8 ≤ pk.length) (h4 : pk.getD 4 0 = 64) (h5 : pk.getD 5 0 = 0)
    (hsep : c.ka + 32 ≤ c.pa ∨ c.pa + pk.length ≤ c.ka)
    (hsrc : c.src < 2 ^ 64) (hdst : c.dst < 2 ^ 64)
    (hfresh : ∀ j, j < 8 → get m (c.ka + 24 + j) = 0)
    (hbytes : ∀ i, i < 4 * c.K → get (driverMemOld c pk m) (c.src + i) < 256) :
    ∃ m', runE P (disp c (driverImageOld c) pk) (fuel + 27) m = .ok m' ∧
      (∀ i, i < 4 * c.K → get m' (c.dst + i) = get (driverMemOld c pk m) (c.src + i)) ∧
      (∀ a, ¬ c.inDst a → get m' a = get (driverMemOld c pk m) a) :=
  fresh_kernarg_runE c hv hG pk m fuel hpk h4 h5 hsep hsrc hdst hfresh hbytes

/-- the same for `Emu.run` (the function the correspondence cases execute) -/
theorem copyKernel_fresh_kernarg_run (c : Cfg) (hv : c.Valid) (hG : 0 < c.G) (pk : List Nat) (m : Mem)
    (hpk : 8 ≤ pk.length) (h4 : pk.getD 4 0 = 64) (h5 : pk.getD 5 0 = 0)
    (hsep : c.ka + 32 ≤ c.pa ∨ c.pa + pk.length ≤ c.ka)
    (hsrc : c.src < 2 ^ 64) (hdst : c.dst < 2 ^ 64)
    (hfresh : ∀ j, j < 8 → get m (c.ka + 24 + j) = 0)
    (hbytes : ∀ i, i < 4 * c.K → get (driverMemOld c pk m) (c.src + i) < 256) :
    (∀ i, i < 4 * c.K → get (run P (disp c (driverImageOld c) pk) m) (c.dst + i) = get (driverMemOld c pk m) (c.src + i)) ∧
    (∀ a, ¬ c.inDst a → get (run P (disp c (driverImageOld c) pk) m) a = get (driverMemOld c pk m) a) :=
  fresh_kernarg_run c hv hG pk m hpk h4 h5 hsep hsrc hdst hfresh hbytes

/-- on a fresh page the 24-byte image the old driver installed and the 32-byte image of `copyKernel_run` (explicit zero
    offset) give the same memory content -/
theorem fresh_kernarg_same_memory (c : Cfg) (pk : List Nat) (m : Mem)
    (hfresh : ∀ j, j < 8 → get m (c.ka + 24 + j) = 0) :
    get (driverMemOld c pk m) = get (launchMem c [] pk m) :=
  get_driverMemOld c pk m hfresh

/-- **fresh_until_wrap.** The free-page queue of a device (`popNextAvailablePAddrs` takes the head,
    `addSinglePAddr` appends at the END): for every initial queue `q0` and every sequence of pops and pushes
    that does not run out of memory, (1) the `k`-th page handed out is the `k`-th page of the initial queue as
    long as `k < |q0|`, whatever was given back in between; hence (2) when the initial queue has no duplicates,
    the first `|q0|` pages handed out are pairwise distinct pages of the initial queue — none of them was handed
    out (and possibly written) before. -/
theorem fresh_until_wrap (q0 : List Nat) (ops : List QOp) (q' outs : List Nat)
    (h : qrun q0 ops = some (q', outs)) :
    (∀ k, k < outs.length → k < q0.length → outs[k]? = q0[k]?) ∧
    (q0.Nodup → (outs.take q0.length).Nodup ∧ ∀ p ∈ outs.take q0.length, p ∈ q0) := by
  refine ⟨qrun_prefix ops q0 [] q' outs (by rw [List.append_nil]; exact h), fun hnd => ?_⟩
  rw [qrun_take q0 ops q' outs h]
  exact ⟨hnd.sublist (List.take_sublist _ _), fun p hp => List.mem_of_mem_take hp⟩

/-- **fresh_always_refuted.** Without the restriction to the first `|q0|` pages the claim is false: once the
    queue has wrapped, a page that was given back is handed out again (`[pop, push 1, pop]` on `[1]` hands out
    page 1 twice).  From then on a kernel-argument buffer may lie on a page whose bytes 24..31 were written
    before, and `hfresh` of `copyKernel_fresh_kernarg` is no longer guaranteed by the allocator — which is why
    the repaired driver writes the zeros itself (`copyKernel_driver_kernarg` has no such hypothesis). -/
theorem fresh_always_refuted : ¬ fresh_always_full := by
  intro h
  exact absurd (h [1] [.pop, .push 1, .pop] [] [1, 1] (by decide) (by decide)) (by decide)

/-! ## the hypotheses are met -/

example : d2dPlan 5 = ⟨1, 4, 1⟩ := by decide
example : d2dPlan 3 = ⟨0, 0, 3⟩ := by decide
example : d2dPlan 8 = ⟨2, 8, 0⟩ := by decide

/-- a concrete launch of the repaired copy: the addresses the real driver hands out in the harness runs, `num = 5`
    (one dword by the kernel, one tail byte through the host) -/
example : (d2dCfgW 0x3000 0x4000 0x5000 0x1000 0x2000 5).Valid :=
  d2dCfgW_valid 0x3000 0x4000 0x5000 0x1000 0x2000 5 (by decide) (by decide) (by decide) (by decide) (by decide)
    (by decide) (by decide) (by decide) (by decide) (by decide) (by decide)

/-- the packet image of that launch announces work-group size 64 in bytes 4,5 -/
example : ([0, 0, 0, 0, 64, 0, 1, 0] : List Nat).getD 4 0 = 64 ∧ ([0, 0, 0, 0, 64, 0, 1, 0] : List Nat).getD 5 0 = 0 := by
  decide

/-- `memcopyD2D_exact` applies to that launch on the memory `src = [1,2,3,4,5]`: all hypotheses hold together,
    the five bytes arrive and byte `dst + 5` — which the old launch shape overwrote — keeps its value -/
example :
    (∀ i, i < 5 → get (d2dRun 0x3000 0x4000 0x5000 0x1000 0x2000 5 [] [0, 0, 0, 0, 64, 0, 1, 0]
        (install 0x1000 [1, 2, 3, 4, 5] [])) (0x2000 + i) =
      get (d2dStart 0x3000 0x4000 0x5000 0x1000 0x2000 5 [] [0, 0, 0, 0, 64, 0, 1, 0]
        (install 0x1000 [1, 2, 3, 4, 5] [])) (0x1000 + i)) ∧
    get (d2dRun 0x3000 0x4000 0x5000 0x1000 0x2000 5 [] [0, 0, 0, 0, 64, 0, 1, 0]
        (install 0x1000 [1, 2, 3, 4, 5] [])) (0x2000 + 5) =
      get (d2dStart 0x3000 0x4000 0x5000 0x1000 0x2000 5 [] [0, 0, 0, 0, 64, 0, 1, 0]
        (install 0x1000 [1, 2, 3, 4, 5] [])) (0x2000 + 5) := by
  obtain ⟨h1, h2⟩ := memcopyD2D_exact 0x3000 0x4000 0x5000 0x1000 0x2000 5 (by decide) (by decide) (by decide)
    (fun _ => d2dCfgW_valid 0x3000 0x4000 0x5000 0x1000 0x2000 5 (by decide) (by decide) (by decide) (by decide)
      (by decide) (by decide) (by decide) (by decide) (by decide) (by decide) (by decide))
    [] [0, 0, 0, 0, 64, 0, 1, 0] (install 0x1000 [1, 2, 3, 4, 5] []) (by decide) (by decide) (by decide) (by decide)
    (by decide +kernel)
  exact ⟨h1, h2 _ (Or.inr (Nat.le_refl _))⟩

/-- a never-used page: the hidden-offset bytes of a kernel-argument buffer at 0x4000 are zero -/
example : ∀ j, j < 8 → get (install 0x1000 [1, 2, 3, 4, 5] []) (0x4000 + 24 + j) = 0 := by decide

example : driverImageOld (d2dCfgW 0x3000 0x4000 0x5000 0x1000 0x2000 5) =
    [0, 0x10, 0, 0, 0, 0, 0, 0, 0, 0x20, 0, 0, 0, 0, 0, 0, 1, 0, 0, 0, 0, 0, 0, 0] := by decide

example : qrun [10, 20] [.pop, .push 10, .pop] = some ([10], [10, 20]) := by decide
/-- after the wrap the page given back comes out again -/
example : qrun [10, 20] [.pop, .push 10, .pop, .pop] = some ([], [10, 20, 10]) := by decide
example : ¬ ([1, 1] : List Nat).Nodup := by decide

end Emu
end C01
