import MgpuProofs.C01Lemmas
/-! # C01 — property theorems (kernel-argument marshalling)

The end-to-end statement of C01 (every workload verifies in every configuration) is NOT
proved; it is supported by differential execution only (see notes/C01.md). What is proved
here, for every argument list and every launch request, is the marshalling step every
kernel launch goes through. -/
namespace C01

/-! ### property theorems -/

/-- **Little-endian bytes of an offset.** The four bytes written into a `LocalPtr` field decode
back to the offset (offsets are `< 2^32` by `patch`), so the kernel reads exactly the LDS
offset the driver computed. -/
theorem le_roundtrip (n k : Nat) : leVal (le n k) = n % 256 ^ k := by
  induction k generalizing n with
  | zero => simp [le, leVal, Nat.mod_one]
  | succ k ih =>
    simp only [le, leVal, ih]
    rw [Nat.pow_succ, Nat.mul_comm (256 ^ k) 256, Nat.mod_mul]

example : leVal (le 305419896 4) = 305419896 := by decide

/-- **Main theorem (kernarg_layout).** For every launch request (`static < 2^32`, any grid,
work-group size, addresses and ANY list of argument fields):
* the packet's grid / work-group / code-object / kernarg-address fields equal the request;
* `GroupSegmentSize = (static + Σ dynamic sizes) mod 2^32`;
* the patched struct has the same number of fields with the same byte widths, every
  non-`LocalPtr` field is copied unchanged and every `LocalPtr` field holds
  `(static + Σ sizes of the LocalPtr fields before it) mod 2^32`;
* the kernarg byte image is the packed concatenation of the patched fields: the slice at
  field i's offset is exactly that field's little-endian encoding (byte-exact copy for plain
  fields). -/
theorem kernarg_layout (r : Req) (hs : r.static < W) :
    let out := marshal r
    let patched := (patch r.static r.fields).1
    (out.1.gridX = r.gx ∧ out.1.gridY = r.gy ∧ out.1.gridZ = r.gz ∧
     out.1.wgX = r.wx ∧ out.1.wgY = r.wy ∧ out.1.wgZ = r.wz ∧
     out.1.kernelObject = r.co ∧ out.1.kernargAddress = r.ka) ∧
    out.1.groupSegmentSize = (r.static + dynSum r.fields) % W ∧
    patched.length = r.fields.length ∧
    patched.map (fun f => (encodeField f).length) = r.fields.map (fun f => (encodeField f).length) ∧
    (∀ i, patched[i]? = (r.fields[i]?).map (expectedField r.static r.fields i)) ∧
    out.2 = encode patched ∧
    (∀ i f, patched[i]? = some f →
      (out.2.drop (encode (patched.take i)).length).take (encodeField f).length = encodeField f) := by
  intro out patched
  have hm : r.static % W = r.static := Nat.mod_eq_of_lt hs
  have ho2 : out.2 = encode patched := by
    show encode (patch (r.static % W) r.fields).1 = _
    rw [hm]
  have hg : out.1.groupSegmentSize = (patch r.static r.fields).2 := by
    show (patch (r.static % W) r.fields).2 = _
    rw [hm]
  refine ⟨⟨rfl, rfl, rfl, rfl, rfl, rfl, rfl, rfl⟩, ?_, patch_length' _ _, patch_widths' _ _,
    fun i => patch_get' _ hs _ i, ho2, ?_⟩
  · rw [hg]
    exact patch_total' _ hs _
  · intro i f h
    rw [ho2]
    exact encode_slice' _ i f h

/-- hypotheses are met by a concrete non-trivial request (matrixtranspose-like: two pointers,
one 4 KiB LocalPtr, scalars, a second LocalPtr), static LDS 64 bytes -/
example :
    (marshal { static := 64, gx := 64, gy := 64, gz := 1, wx := 16, wy := 16, wz := 1, co := 4096, ka := 8192,
               fields := [.plain [0,16,0,0,1,0,0,0], .localPtr 4096, .plain [7,0,0,0], .localPtr 260] }).1.groupSegmentSize
      = 64 + 4096 + 260 ∧
    (patch 64 [.plain [0,16,0,0,1,0,0,0], .localPtr 4096, .plain [7,0,0,0], .localPtr 260]).1
      = [.plain [0,16,0,0,1,0,0,0], .localPtr 64, .plain [7,0,0,0], .localPtr 4160] := by decide

/-- **No overflow ⇒ exact sum.** When `static + Σ dynamic sizes < 2^32` (every real launch:
LDS is 64 KiB) `GroupSegmentSize` is the exact sum, not just the sum modulo 2^32. -/
theorem group_segment_exact (r : Req) (h : r.static + dynSum r.fields < W) :
    (marshal r).1.groupSegmentSize = r.static + dynSum r.fields := by
  have hs : r.static < W := by omega
  have := (kernarg_layout r hs).2.1
  rw [this, Nat.mod_eq_of_lt h]

/-- **Dynamic LDS regions are disjoint and inside the group segment.** Without overflow, the
region handed to the i-th `LocalPtr` argument is `[static + Σ_before, static + Σ_before + size_i)`:
it starts at or after the static segment, ends at or before the start of every later `LocalPtr`
region, and ends inside `GroupSegmentSize`. (`off k` is the value `kernarg_layout` says is
written into field k.) -/
theorem lds_regions_disjoint (r : Req) (h : r.static + dynSum r.fields < W)
    (i j vi vj : Nat) (hij : i < j)
    (hi : r.fields[i]? = some (.localPtr vi)) (hj : r.fields[j]? = some (.localPtr vj)) :
    let off := fun k => (r.static + dynSum (r.fields.take k)) % W
    r.static ≤ off i ∧ off i + vi ≤ off j ∧ off j + vj ≤ (marshal r).1.groupSegmentSize := by
  have hi1 := dynSum_take_succ _ _ _ hi
  have hj1 := dynSum_take_succ _ _ _ hj
  have hmono := dynSum_take_mono r.fields (i + 1) j hij
  have hle := dynSum_take_le r.fields (j + 1)
  have hg := group_segment_exact r h
  have h1 : (r.static + dynSum (r.fields.take i)) % W = r.static + dynSum (r.fields.take i) :=
    Nat.mod_eq_of_lt (by omega)
  have h2 : (r.static + dynSum (r.fields.take j)) % W = r.static + dynSum (r.fields.take j) :=
    Nat.mod_eq_of_lt (by omega)
  simp only [h1, h2, hg]
  omega

example : let r : Req := { static := 64, gx := 1, gy := 1, gz := 1, wx := 1, wy := 1, wz := 1, co := 0, ka := 0,
                            fields := [.localPtr 4096, .plain [1, 2], .localPtr 260] }
    r.static + dynSum r.fields < W ∧ r.fields[0]? = some (.localPtr 4096) ∧ r.fields[2]? = some (.localPtr 260) := by
  decide

/-! ### hypotheses -/

/-- **The hypothesis `static < 2^32` of `kernarg_layout` is a typing fact, not a restriction.**
`co.GroupSegmentByteSize` is a Go `uint32`; the model reduces the request's value modulo 2^32 before
anything else, so every request behaves as the request with the reduced value — for which `kernarg_layout`
applies without hypothesis. -/
theorem kernarg_layout_any_static (r : Req) :
    marshal r = marshal { r with static := r.static % W } ∧ ({ r with static := r.static % W } : Req).static < W := by
  constructor
  · show (_, _) = (_, _)
    simp only [Nat.mod_mod]
  · exact Nat.mod_lt _ (by decide)

/-- the full statement of `group_segment_exact` without the no-overflow hypothesis -/
def group_segment_exact_full : Prop := ∀ r : Req, (marshal r).1.groupSegmentSize = r.static + dynSum r.fields

/-- **refuted**: the hypothesis cannot be dropped — the running LDS size is a `uint32` and wraps.  Two dynamic
regions of 2^32 − 1 and 2 bytes give `GroupSegmentSize = 1`, and the second region starts at offset 2^32 − 1.
(The real driver does the same: the correspondence cases of harness/c01_kernarg.go include overflowing
`LocalPtr` sizes on every run, diffs = 0.) -/
theorem group_segment_exact_refuted : ¬ group_segment_exact_full := by
  intro h
  have := h { static := 0, gx := 1, gy := 1, gz := 1, wx := 1, wy := 1, wz := 1, co := 0, ka := 0,
              fields := [.localPtr 4294967295, .localPtr 2] }
  revert this
  decide

example : (marshal { static := 0, gx := 1, gy := 1, gz := 1, wx := 1, wy := 1, wz := 1, co := 0, ka := 0,
                     fields := [.localPtr 4294967295, .localPtr 2] }).1.groupSegmentSize = 1 := by decide

end C01
