import MgpuProofs.C15Back
import MgpuProofs.Props.C15Resend
/-! # C15 ∘ C14 — fourth stage: the way back (ROB → compute unit) never gets stuck

The connection hands a response to the compute unit under the request ID the ROB's tick stamped on it
(`named`). `names_cover`: in every composed run every response the ROB has ever built has a name, so
the head of the Top port's outgoing buffer can always be moved as soon as the compute unit's port has
room (`back_is_enabled`) — the model has no artificial deadlock on the way back, and the compute unit
frees its port by its own ticks (one scalar response per tick while it runs or re-sends). -/
namespace C15.Cu

/-- **Every response the ROB of the composition has built carries a name** (any composed event
    list, no protocol): the list of named request numbers is the delivered log. -/
theorem names_cover (c : Cfg) (evs : List CEv) :
    (crun c evs).named.map (·.1) = (crun c evs).sys.rob.delivered.map (·.rspTo) :=
  (crun_Covered c evs).2

example : (crun demoCfg answeredEvs).named = [(1, (0, 1))] := by decide

/-- **The way back is never stuck on the connection**: in every composed run, if a response waits
    at the head of the ROB's Top port, the compute unit is not faulted and its scalar port has room,
    then `back` moves it: it leaves the Top port and enters the compute unit's port under its name. -/
theorem back_is_enabled (c : Cfg) (evs : List CEv) (d : TRsp) (rest : List TRsp)
    (htop : (crun c evs).sys.rob.topOut = d :: rest) (hf : (crun c evs).cu.fault = false)
    (hroom : (crun c evs).cu.s.inp.length < c.cu.capS) :
    ∃ r, nameOf (crun c evs) d.rspTo = some r ∧
      (crun c (evs ++ [.back])).sys.rob.topOut = rest ∧
      (crun c (evs ++ [.back])).cu.s.inp = (crun c evs).cu.s.inp ++ [r] := by
  have hcov := names_cover c evs
  obtain ⟨pre, hpre⟩ := (crun_Covered c evs).1.1.topOutDel
  have hmem : d.rspTo ∈ (crun c evs).named.map (·.1) := by
    rw [hcov, hpre, htop]; simp
  obtain ⟨x, hx, hx1⟩ := List.mem_map.1 hmem
  have hsome : ∃ r, nameOf (crun c evs) d.rspTo = some r := by
    unfold nameOf
    rcases hfind : (crun c evs).named.find? (fun y => y.1 == d.rspTo) with _ | y
    · have := List.find?_eq_none.1 hfind x hx
      simp [hx1] at this
    · exact ⟨y.2, by rw [hfind]; rfl⟩
  obtain ⟨r, hr⟩ := hsome
  refine ⟨r, hr, ?_⟩
  have hrun : crun c (evs ++ [.back]) = cstep c (crun c evs) .back := by
    simp [crun, List.foldl_append]
  rw [hrun]
  simp only [cstep, htop, hr, hf, Bool.false_eq_true, if_false, hroom, if_true]
  constructor
  · simp [sysStep, htop, C15.step]
  · simp [C14.Flush.step, hf, C14.Flush.Chan.deliver, hroom]

example : (crun demoCfg (answeredEvs.take 25)).sys.rob.topOut.map (·.rspTo) = [1] ∧
    (crun demoCfg (answeredEvs.take 26)).cu.s.inp = [(0, 1)] := by decide

/-- **Fifth stage: the compute unit applies the response.** In every composed run (no protocol, no
    hypothesis on names): if the response at the head of the compute unit's scalar port names the
    CURRENT request `(e.id, e.gen)` of an in-flight record `e` and the unit reads its ports (it runs,
    or it is re-sending), its next tick answers the record: `e.id` is in `applied` (and, by
    `cu_never_applies_twice`, never a second time). A response under any other name — a stale
    generation, or the never-sent ID of `unsent_name_witness` — is dropped and the record stays in the
    in-flight / shadow list until its current request is answered. -/
theorem answer_is_applied (c : Cfg) (evs : List CEv) (e : C14.Flush.Entry) (rest : List C14.Flush.Req)
    (hinp : (crun c evs).cu.s.inp = (e.id, e.gen) :: rest) (he : e ∈ (crun c evs).cu.s.inf)
    (hf : (crun c evs).cu.fault = false)
    (hrun : (crun c evs).cu.isPaused = false ∨ (crun c evs).cu.isSending = true) :
    e.id ∈ (crun c (evs ++ [.cu .tick])).cu.s.applied := by
  have hrun' : crun c (evs ++ [.cu .tick]) = cstep c (crun c evs) (.cu .tick) := by
    simp [crun, List.foldl_append]
  have hcu : (cstep c (crun c evs) (.cu .tick)).cu = C14.Flush.tick c.cu (crun c evs).cu := by
    simp [cstep, isLink, C14.Flush.step, hf]
  rw [hrun', hcu]
  exact tick_applies_current c.cu _ e rest hinp he hrun

/-- the end of `answeredEvs`: the response (0, 1) is in the port, record 0 is in flight under
    generation 1, the unit runs; its tick applies it -/
example : (crun demoCfg (answeredEvs.take 26)).cu.s.inp = [(0, 1)] ∧
    (crun demoCfg (answeredEvs.take 26)).cu.s.inf.map (fun e => (e.id, e.gen)) = [(0, 1)] ∧
    (crun demoCfg (answeredEvs.take 26)).cu.isPaused = false ∧
    (crun demoCfg answeredEvs).cu.s.applied = [0] := by decide

/-- **The response is named with the record's CURRENT request ID** — why the aliasing of the request
    object is harmless for liveness. In every composed run: when a tick of the ROB builds the response
    to its request number `n`, which the connection took from the compute unit as a request of record
    `r.1`, and that record is still listed by the compute unit (in flight or saved) as `e`, then the
    name under which `back` will hand the response over is `(e.id, e.gen)` — the ID `answer_is_applied`
    needs — even if the copy the ROB served was sent under an older generation (a copy that survived a
    flush in the compute unit's port). -/
theorem response_named_with_current_generation (c : Cfg) (evs : List CEv) (d : TRsp) (r : C14.Flush.Req)
    (e : C14.Flush.Entry)
    (hd : d ∈ (crun c (evs ++ [.rob .tick])).sys.rob.delivered.drop (crun c evs).sys.rob.delivered.length)
    (hid : (crun c evs).idOf[d.rspTo]? = some r)
    (he : e ∈ (crun c evs).cu.s.inf ++ (crun c evs).cu.s.sh) (hr : e.id = r.1) :
    nameOf (crun c (evs ++ [.rob .tick])) d.rspTo = some (e.id, e.gen) := by
  have hrun : crun c (evs ++ [.rob .tick]) = cstep c (crun c evs) (.rob .tick) := by
    simp [crun, List.foldl_append]
  rw [hrun] at hd ⊢
  generalize hσ : crun c evs = σ at hd hid he ⊢
  have hcov : σ.named.map (·.1) = σ.sys.rob.delivered.map (·.rspTo) := by rw [← hσ]; exact names_cover c evs
  have hok : σ.sys.Ok c.rob := by rw [← hσ]; exact (crun_Covered c evs).1
  have hids : (C14.Flush.ids (σ.cu.s.inf ++ σ.cu.s.sh)).Nodup := by
    have := (crun_IdsOK c evs).2.1.1
    rw [hσ] at this
    exact (List.nodup_append.1 this).2.1
  -- the state after the tick
  have hsys : (cstep c σ (.rob .tick)).sys = sysStep c.rob σ.sys .tick := rfl
  have hnamed : (cstep c σ (.rob .tick)).named = σ.named ++ nameRsps σ (sysStep c.rob σ.sys .tick) := rfl
  obtain ⟨more, hmore⟩ := sysStep_delivered_ext c.rob σ.sys .tick hok
  rw [hsys, hmore, List.drop_left] at hd
  -- delivered ids never repeat
  have hnd : ((sysStep c.rob σ.sys .tick).rob.delivered.map (·.rspTo)).Nodup := by
    have h1 : (cstep c σ (.rob .tick)).sys = sysRun c.rob (robEvs c {} (evs ++ [.rob .tick])) := by
      rw [← hσ, ← hrun]; exact comp_rob_is_sysRun c _
    have := (sys_order_once_capacity c.rob (robEvs c {} (evs ++ [.rob .tick]))).2.2.1
    rw [← h1, hsys] at this
    exact (List.nodup_append.1 this).1
  have hnot : ∀ x ∈ σ.named, ¬ (x.1 == d.rspTo) = true := by
    intro x hx hxe
    have hx1 : x.1 ∈ σ.sys.rob.delivered.map (·.rspTo) := by rw [← hcov]; exact List.mem_map_of_mem hx
    rw [hmore, List.map_append] at hnd
    have := (List.nodup_append.1 hnd).2.2 x.1 hx1 d.rspTo (List.mem_map_of_mem hd)
    exact this (by simpa using hxe)
  unfold nameOf
  rw [hnamed, List.find?_append, List.find?_eq_none.2 hnot, Option.none_or]
  rw [nameRsps_eq, hmore, List.drop_left]
  rcases hf : (more.map fun d' => (d'.rspTo, nameFn σ d'.rspTo)).find? (fun x => x.1 == d.rspTo) with _ | x
  · exfalso
    have := List.find?_eq_none.1 hf (d.rspTo, nameFn σ d.rspTo) (List.mem_map.2 ⟨d, hd, rfl⟩)
    exact this (beq_self_eq_true _)
  · have hx1 := List.find?_some hf
    obtain ⟨d', _, hx⟩ := List.mem_map.1 (List.mem_of_find?_eq_some hf)
    have hdd : d'.rspTo = d.rspTo := by rw [← hx] at hx1; simpa using hx1
    rw [hf]
    show some x.2 = some (e.id, e.gen)
    rw [← hx]
    simp only [hdd]
    unfold nameFn
    rw [hid]
    simp only
    rw [← hr, curGen_of_mem σ.cu.s hids e he]

/-- `answeredEvs`: the ROB retires its request 1 (the re-sent copy of record 0, sent as (0, 1)) at the
    tick with index 24; record 0 is in flight under generation 1 -/
example : (crun demoCfg (answeredEvs.take 25)).sys.rob.delivered.map (·.rspTo) = [1] ∧
    (crun demoCfg (answeredEvs.take 24)).sys.rob.delivered = [] ∧
    (crun demoCfg (answeredEvs.take 24)).idOf[1]? = some (0, 1) ∧
    nameOf (crun demoCfg (answeredEvs.take 25)) 1 = some (0, 1) := by decide

/-- **The way in is never stuck on the connection either**: in every composed run, a request at the
    head of the compute unit's scalar port is moved into the ROB's Top port as soon as that has room
    (and the unit is not faulted); the ROB numbers it with its next request number and `idOf` records
    which request ID of the compute unit that number stands for. -/
theorem xfer_is_enabled (c : Cfg) (evs : List CEv) (r : C14.Flush.Req) (rest : List C14.Flush.Req)
    (hout : (crun c evs).cu.s.out = r :: rest) (hf : (crun c evs).cu.fault = false)
    (hroom : (crun c evs).sys.rob.topIn.length < c.rob.topInCap) :
    (crun c (evs ++ [.xfer])).cu.s.out = rest ∧
    (crun c (evs ++ [.xfer])).idOf = (crun c evs).idOf ++ [r] ∧
    (crun c (evs ++ [.xfer])).sys.rob.topIn =
      (crun c evs).sys.rob.topIn ++ [(reqOf r).toReq (crun c evs).sys.rob.nextTop] := by
  have hrun : crun c (evs ++ [.xfer]) = cstep c (crun c evs) .xfer := by
    simp [crun, List.foldl_append]
  rw [hrun]
  simp only [cstep, hout, hf, Bool.false_eq_true, if_false, hroom, if_true]
  refine ⟨?_, trivial, ?_⟩
  · simp [C14.Flush.step, hf, C14.Flush.Chan.take, hout]
  · simp [sysStep, C15.step, hroom]

example : (crun demoCfg roundEvs).cu.s.out = [(0, 1)] ∧ (crun demoCfg (roundEvs ++ [.xfer])).idOf = [(0, 0), (0, 1)] ∧
    (crun demoCfg (roundEvs ++ [.xfer])).sys.rob.topIn.map (·.id) = [1] := by decide

end C15.Cu
