import MgpuProofs.C20_Quiesce
import MgpuProofs.C20_EngineLemmas
import MgpuProofs.C20_EngineQuiet
import MgpuProofs.C20_EngineLens
import MgpuProofs.C20_EngineAsleep
/-! # C20 — property theorems about the REAL event order: an abstract Akita engine

`terminates_all_idle` / `terminates_run_finite` (Props/C20.lean) speak about the model's `awake` flags
and about *strict* runs.  The real serial engine is not strict: a wake-up (`TickLater`) that reaches a
component in the same cycle before its own tick leaves a second event pending, which the model's
`Handle` (clear flag, tick, set iff progress) forgets — the component is ticked once more although the
model considers it asleep (a *spurious* tick).  Here the engine itself is modelled
(`MgpuModel/C20_Engine.lean`): a configuration is the model state plus the multiset `q` of scheduled
events; the engine may handle ANY element of `q` next (every assignment of frequencies, every
tie-break), and the events scheduled during a `Handle` are constrained only by Akita's guarantees
(`EngStep`: (a) no progress ⇒ nothing scheduled, (b) one event per scheduler per `Handle`, (c) a wake-up
leaves an event pending).  The harness checks (a)–(c) on every handled event of every real run
(`c20 eng` case lines, answer `valid=1`), so the theorems apply to the recorded real orders. -/
namespace C20

/-- **Every run of the engine is finite, spurious ticks included.**  For every shape, trace and engine
    run from the initial configuration (`Runner.Run` schedules the driver once): the number of handled
    events is at most `engBound = 1 + Φ(init) · N` (`Φ(init)` = instructions + 6 per warp, block and
    kernel + 3; `N` = number of components and connections; `engBound_eq`).  The potential
    `|q| + Φ(s) · N` strictly decreases with every handled event: a tick without progress only removes
    its event, a tick with progress lowers `Φ` and schedules at most `N` events. -/
theorem engine_run_bounded (G S C : Nat) (trace : List Kernel) (steps : List EStep)
    (h : EngRun (init false G S C trace) [Ev.drv] steps) : steps.length ≤ engBound G S C trace := by
  have := Eng.bounded_gen G S C trace [] [Ev.drv] steps
    (by intro x hx; rw [List.mem_singleton.1 hx]; exact (Eng.mem_allEvs_iff _ _).2 trivial) h
  rw [Eng.engBound_eq]
  simpa [run, Nat.add_comm] using this

/-- **There is no infinite engine run** (the same, for an infinite sequence of steps): some finite
    prefix is not an engine run. -/
theorem engine_terminates (G S C : Nat) (trace : List Kernel) (f : Nat → EStep) :
    ∃ n, ¬ EngRun (init false G S C trace) [Ev.drv] ((List.range n).map f) := by
  refine ⟨engBound G S C trace + 1, fun h => ?_⟩
  have := engine_run_bounded G S C trace _ h
  simp only [List.length_map, List.length_range] at this
  omega

/-- **Wake-up coverage is an invariant of engine runs**: in every configuration an engine run
    reaches, every component or connection whose model flag is set has an event in the queue (model
    flags ⊆ real pending ticks).  Rule (c) of `EngStep` is local — it only speaks about flags that
    were set *during* the step; that the older wake-ups are still covered is proved. -/
theorem engine_awake_covered (G S C : Nat) (trace : List Kernel) (steps : List EStep)
    (h : EngRun (init false G S C trace) [Ev.drv] steps) :
    ∀ x ∈ allEvs (engEnd (init false G S C trace) [Ev.drv] steps).1,
      awakeOf (engEnd (init false G S C trace) [Ev.drv] steps).1 x = true →
      x ∈ (engEnd (init false G S C trace) [Ev.drv] steps).2 :=
  Eng.covered_run _ _ steps h (Eng.covered_init G S C trace)

/-- **When the engine's queue runs empty the simulation is finished** (shapes ≥ 1×1×1, every trace,
    every engine order): every model flag is clear and all kernels are reported, every device, SM and
    sub-core is idle, all lists and buffers are empty.  With `engine_run_bounded`/`engine_never_stuck`:
    every maximal engine run is finite and ends finished. -/
theorem engine_queue_empty_finished (G S C : Nat) (trace : List Kernel) (steps : List EStep)
    (hG : 1 ≤ G) (hS : 1 ≤ S) (hC : 1 ≤ C)
    (h : EngRun (init false G S C trace) [Ev.drv] steps)
    (hq : (engEnd (init false G S C trace) [Ev.drv] steps).2 = []) :
    allAsleep (engEnd (init false G S C trace) [Ev.drv] steps).1 = true ∧
    finished (engEnd (init false G S C trace) [Ev.drv] steps).1 = true := by
  have hc := engine_awake_covered G S C trace steps h
  rw [hq] at hc
  have ha := Eng.covered_empty_asleep _ hc
  refine ⟨ha, ?_⟩
  rw [Eng.engEnd_fst] at ha ⊢
  refine asleep_finished G S C trace _ hG hS hC ?_ ha
  intro e he
  exact (Eng.mem_allEvs_iff _ e).1 (Eng.handled_inRange _ _ steps
    (by intro x hx; rw [List.mem_singleton.1 hx]; exact (Eng.mem_allEvs_iff _ _).2 trivial) h e he)

/-- **Exactly once, for every engine order.**  The headline of the property without any hypothesis on
    the event list: whatever order the engine handles its scheduled events in (every frequency
    assignment, every tie-break, spurious ticks included), when its queue is empty every kernel is
    reported, everything is idle, and the sub-cores have received AND executed exactly the instructions
    of the trace, the SMs exactly its warps (`exactly_once_at_quiescence` with its in-range hypothesis
    discharged by the engine's rules). -/
theorem engine_exactly_once (G S C : Nat) (trace : List Kernel) (steps : List EStep)
    (hG : 1 ≤ G) (hS : 1 ≤ S) (hC : 1 ≤ C)
    (h : EngRun (init false G S C trace) [Ev.drv] steps)
    (hq : (engEnd (init false G S C trace) [Ev.drv] steps).2 = []) :
    finished (engEnd (init false G S C trace) [Ev.drv] steps).1 = true ∧
    receivedInsts (engEnd (init false G S C trace) [Ev.drv] steps).1 = instsOfTrace trace ∧
    executedInsts (engEnd (init false G S C trace) [Ev.drv] steps).1 = instsOfTrace trace ∧
    receivedWarps (engEnd (init false G S C trace) [Ev.drv] steps).1 = warpsOfTrace trace := by
  have ha := (engine_queue_empty_finished G S C trace steps hG hS hC h hq).1
  rw [Eng.engEnd_fst] at ha ⊢
  refine quiescent_totals G S C trace _ hG hS hC ?_ ha
  intro e he
  exact (Eng.mem_allEvs_iff _ e).1 (Eng.handled_inRange _ _ steps
    (by intro x hx; rw [List.mem_singleton.1 hx]; exact (Eng.mem_allEvs_iff _ _).2 trivial) h e he)

/-- **The engine is never stuck on a non-empty queue**: in every configuration an engine run reaches,
    every scheduled event can be handled (some `new` satisfies Akita's rules) — so a run that cannot
    be extended has an empty queue, and by the previous theorem is finished. -/
theorem engine_never_stuck (G S C : Nat) (trace : List Kernel) (steps : List EStep)
    (e : Ev) (he : e ∈ (engEnd (init false G S C trace) [Ev.drv] steps).2) :
    ∃ new, EngStep (engEnd (init false G S C trace) [Ev.drv] steps).1
      (engEnd (init false G S C trace) [Ev.drv] steps).2 e new := by
  refine ⟨_, Eng.fifo_step _ _ e ?_ he⟩
  rw [Eng.engEnd_fst]
  exact (shape_run _ _).legacy

/-- **`valid=1` of a `c20 eng` case line means "is an engine run"**: the executable replay the driver
    runs on the recorded real order reports no bad step iff the record is an `EngRun`; it ends in the
    configuration `engEnd` and counts the handled events. -/
theorem engine_replay_decides (s : Sys) (q : List Ev) (steps : List EStep) :
    ((engReplay s q steps).bad = none ↔ EngRun s q steps) ∧
    ((engReplay s q steps).s, (engReplay s q steps).q) = engEnd s q steps ∧
    (engReplay s q steps).n = steps.length := by
  have h1 := Eng.replay_valid steps { s := s, q := q } rfl
  have h2 := Eng.replay_state steps { s := s, q := q }
  refine ⟨h1, ?_, ?_⟩
  · unfold engReplay; rw [h2.1, h2.2.1]
  · unfold engReplay; rw [h2.2.2]; simp

/-! ## non-vacuity -/

/-- a recorded run of the REAL serial engine (all components and connections at 1 GHz): one block with
    warps {0,3,2,1,0} on 1 GPU × 1 SM × 4 sub-cores, 64 handled events; `(e, new)` = handled event and
    the events `Engine.Schedule` received while it was handled (harness line `c20 eng g=1 s=1 c=4 …`) -/
def realRun : List EStep :=
  [(.drv, [.c0, .drv]), (.c0, [.gpu 0, .c0]), (.drv, []), (.gpu 0, [.gpu 0]),
   (.c0, []), (.gpu 0, [.c1 0, .gpu 0]), (.c1 0, [.sm 0, .c1 0]), (.gpu 0, []),
   (.sm 0, [.sm 0]), (.c1 0, []), (.sm 0, [.c2 0, .sm 0]), (.c2 0, [.sub 0, .c2 0]),
   (.sm 0, [.sm 0]), (.sub 0, [.sub 0]), (.c2 0, [.sub 1, .c2 0]), (.sm 0, [.sm 0]),
   (.sub 1, [.sub 1]), (.sub 0, [.sub 0]), (.c2 0, [.sub 2, .c2 0]), (.sub 1, [.sub 1]),
   (.sub 2, [.sub 2]), (.sm 0, [.sm 0]), (.sub 0, []), (.c2 0, [.sub 3, .c2 0]),
   (.sm 0, [.sm 0]), (.sub 3, [.sub 3]), (.sub 1, [.sub 1]), (.sub 2, [.sub 2]),
   (.c2 0, [.sub 0, .c2 0]), (.sub 1, [.sub 1]), (.sub 0, [.sub 0]), (.sm 0, []),
   (.sub 2, [.sub 2]), (.sub 3, [.sub 3]), (.c2 0, []), (.sub 2, [.c2 0, .sub 2]),
   (.sub 3, [.sub 3]), (.sub 0, [.sub 0]), (.sub 1, [.sub 1]), (.c2 0, [.sm 0, .c2 0]),
   (.sub 0, []), (.sm 0, [.sub 0, .sub 1, .sub 2, .sub 3, .sm 0]), (.sub 1, []), (.sub 2, []),
   (.sub 3, []), (.c2 0, []), (.sub 2, []), (.sub 1, []),
   (.sub 0, []), (.sub 3, []), (.sm 0, [.sm 0]), (.sm 0, [.sm 0]),
   (.sm 0, [.sm 0]), (.sm 0, [.c1 0, .sm 0]), (.c1 0, [.gpu 0, .c1 0]), (.sm 0, []),
   (.gpu 0, [.gpu 0]), (.c1 0, []), (.gpu 0, [.c0, .gpu 0]), (.c0, [.drv, .c0]),
   (.gpu 0, []), (.drv, [.drv]), (.c0, []), (.drv, [])]

/-- the real order is an engine run of the abstract engine, it contains 3 spurious ticks (ticks of
    sub-cores whose model flag was clear — not a strict run, `terminates_run_finite` does not apply),
    none of them reports progress, it ends with an empty queue, finished, within the bound -/
example :
    EngRun (init false 1 1 4 [[[0, 3, 2, 1, 0]]]) [Ev.drv] realRun ∧
    (engReplay (init false 1 1 4 [[[0, 3, 2, 1, 0]]]) [Ev.drv] realRun).spurious = 3 ∧
    (engReplay (init false 1 1 4 [[[0, 3, 2, 1, 0]]]) [Ev.drv] realRun).missed = 0 ∧
    ¬ Strict (init false 1 1 4 [[[0, 3, 2, 1, 0]]]) (realRun.map Prod.fst) ∧
    (engEnd (init false 1 1 4 [[[0, 3, 2, 1, 0]]]) [Ev.drv] realRun).2 = [] ∧
    finished (engEnd (init false 1 1 4 [[[0, 3, 2, 1, 0]]]) [Ev.drv] realRun).1 = true ∧
    realRun.length = 64 ∧ engBound 1 1 4 [[[0, 3, 2, 1, 0]]] = 511 := by
  refine ⟨(Eng.replay_valid realRun { s := init false 1 1 4 [[[0, 3, 2, 1, 0]]], q := [Ev.drv] } rfl).1 ?_,
    ?_, ?_, ?_, ?_, ?_, ?_, ?_⟩ <;> decide +kernel

/-- the FIFO engine on 2×2×3 with a degenerate trace: an engine run (by `fifo_run`) that empties its
    queue after 160 events — the hypotheses of `engine_queue_empty_finished` are met -/
example :
    EngRun (init false 2 2 3 [[[0, 5], []], [], [[1, 2, 3, 4, 5, 6, 7]]]) [Ev.drv]
      (engFifo 400 (init false 2 2 3 [[[0, 5], []], [], [[1, 2, 3, 4, 5, 6, 7]]]) [Ev.drv]) ∧
    (engEnd (init false 2 2 3 [[[0, 5], []], [], [[1, 2, 3, 4, 5, 6, 7]]]) [Ev.drv]
      (engFifo 400 (init false 2 2 3 [[[0, 5], []], [], [[1, 2, 3, 4, 5, 6, 7]]]) [Ev.drv])).2 = [] ∧
    (engFifo 400 (init false 2 2 3 [[[0, 5], []], [], [[1, 2, 3, 4, 5, 6, 7]]]) [Ev.drv]).length = 160 :=
  ⟨Eng.fifo_run _ _ _ rfl, by decide +kernel, by decide +kernel⟩

/-- `engine_never_stuck` has something to say: after 12 FIFO steps the queue is not empty -/
example : (engEnd (init false 1 1 2 [[[3, 5]]]) [Ev.drv] (engFifo 12 (init false 1 1 2 [[[3, 5]]]) [Ev.drv])).2 ≠ [] := by
  decide +kernel

/-! ## spurious ticks are invisible -/

/-- **`Tick` returned false ⇒ nothing changed** (repaired code, the justification of rule (a)): if the
    tick of an in-range component whose flag is clear reports no progress, the state is literally
    unchanged; for a connection everything but its round-robin pointer (`Inert`).  `Lens` = the
    component lists have the length the shape says (an invariant of in-range runs, `lens_run`).
    Before the fixes this was false (`progress_flag_honest_legacy_refuted`). -/
theorem noprogress_changes_nothing (s : Sys) (e : Ev) (hl : s.legacy = false) (hlen : Lens s)
    (he : e.InRange s.G s.S s.C) (ha : awakeOf s e = false) (hp : awakeOf (step s e) e = false) :
    Inert s (step s e) e := by
  cases e with
  | drv => exact Quiet.quiet_tickDriver s ha hp
  | gpu g =>
    have hg : g < s.G := he
    exact Quiet.quiet_tickGpu s g hl (by rw [hlen.l1]; exact hg) (by rw [hlen.gpus]; exact hg) ha hp
  | sm m =>
    have hm : m < s.G * s.S := he
    exact Quiet.quiet_tickSm s m hl (by rw [hlen.l1]; exact div_lt_of_lt hm) (by rw [hlen.l2]; exact hm)
      (by rw [hlen.sms]; exact hm) ha hp
  | sub u =>
    have hu : u < s.G * s.S * s.C := he
    exact Quiet.quiet_tickSub s u (by rw [hlen.l2]; exact div_lt_of_lt hu) (by rw [hlen.subs]; exact hu) ha hp
  | c0 => exact Quiet.quiet_tickConn0 s ha hp
  | c1 g => exact Quiet.quiet_tickConn1 s g ha hp
  | c2 m => exact Quiet.quiet_tickConn2 s m ha hp

/-- **A tick of a model-asleep component is invisible** (every shape, trace, in-range event sequence,
    repaired code): in every reachable state, a tick of an in-range component or connection whose
    model flag is clear reports no progress (from the wake-up discipline `Inv2`: an asleep component
    has an empty inbox, nothing it could send, no free child it could serve), sets no flag, and leaves
    the state literally unchanged — for a connection, unchanged up to its round-robin pointer `rr`
    (`Inert`, `Level.SameButRR`: all lists, counters, buffers and the flag are equal).  This is the
    harness's `missed=0` check as a theorem. -/
theorem asleep_tick_inert (G S C : Nat) (trace : List Kernel) (evs : List Ev) (e : Ev)
    (hr : ∀ x ∈ evs, x.InRange G S C) (he : e.InRange G S C)
    (ha : awakeOf (run (init false G S C trace) evs) e = false) :
    awakeOf (step (run (init false G S C trace) evs) e) e = false ∧
    (∀ x, awakeOf (step (run (init false G S C trace) evs) e) x = awakeOf (run (init false G S C trace) evs) x) ∧
    Inert (run (init false G S C trace) evs) (step (run (init false G S C trace) evs) e) e := by
  have hs := shape_run (init false G S C trace) evs
  have hl : (run (init false G S C trace) evs).legacy = false := hs.legacy
  have he' : e.InRange (run (init false G S C trace) evs).G (run (init false G S C trace) evs).S
      (run (init false G S C trace) evs).C := by rw [hs.G, hs.S, hs.C]; exact he
  have hp := asleep_noprog _ e hl (inv2_run G S C trace evs hr)
    (NInv.of_inv1 (inv1_run' G S C trace evs)) he' ha
  refine ⟨hp, fun x => ?_, noprogress_changes_nothing _ e hl (lens_run G S C trace evs hr) he' ha hp⟩
  by_cases hx : x = e
  · rw [hx, hp, ha]
  · exact Meas.noprog_step _ e hl hp x hx

/-- the full statement: literally nothing changes, also for connections -/
def AsleepTickInertFull : Prop :=
  ∀ (G S C : Nat) (trace : List Kernel) (evs : List Ev) (e : Ev),
    (∀ x ∈ evs, x.InRange G S C) → e.InRange G S C →
    awakeOf (run (init false G S C trace) evs) e = false →
    step (run (init false G S C trace) evs) e = run (init false G S C trace) evs

/-- **The literal statement is false for connections**: `directconnection.Tick` advances its
    round-robin pointer `nextPortID` on every tick, also when nothing could be forwarded (initial state
    of 1×1×1, the driver's connection: `rr` 0 → 1).  `asleep_tick_inert` is the strongest true form
    (real connections are never ticked spuriously — `TickNow` schedules only when nothing is pending —
    but the abstract engine allows it). -/
theorem asleep_tick_inert_full_refuted : ¬ AsleepTickInertFull := by
  intro h
  have := h 1 1 1 [] [] .c0 (by intro x hx; cases hx) trivial rfl
  have := congrArg (fun s => s.l0.rr) this
  revert this
  decide +kernel

/-- **In an engine run a spurious tick schedules nothing and is invisible**: if the engine, in a
    configuration it reached from the initial one, handles an event of a component whose model flag is
    clear, then no event is scheduled during it (`new = []`), no flag changes and the state is `Inert`. -/
theorem engine_spurious_tick_invisible (G S C : Nat) (trace : List Kernel) (steps : List EStep)
    (e : Ev) (new : List Ev) (h : EngRun (init false G S C trace) [Ev.drv] steps)
    (hs : EngStep (engEnd (init false G S C trace) [Ev.drv] steps).1
      (engEnd (init false G S C trace) [Ev.drv] steps).2 e new)
    (ha : awakeOf (engEnd (init false G S C trace) [Ev.drv] steps).1 e = false) :
    new = [] ∧ Inert (engEnd (init false G S C trace) [Ev.drv] steps).1
      (step (engEnd (init false G S C trace) [Ev.drv] steps).1 e) e := by
  have hq0 : ∀ x ∈ [Ev.drv], x ∈ allEvs (init false G S C trace) := by
    intro x hx; rw [List.mem_singleton.1 hx]; exact (Eng.mem_allEvs_iff _ _).2 trivial
  have hr : ∀ x ∈ steps.map Prod.fst, x.InRange G S C := fun x hx =>
    (Eng.mem_allEvs_iff _ x).1 (Eng.handled_inRange _ _ steps hq0 h x hx)
  have he : e.InRange G S C := by
    have := Eng.queue_inRange_run _ _ steps hq0 h e hs.pending
    rw [Eng.engEnd_fst] at this
    have hsh := shape_run (init false G S C trace) (steps.map Prod.fst)
    have := (Eng.mem_allEvs_iff _ e).1 this
    rw [hsh.G, hsh.S, hsh.C] at this
    exact this
  rw [Eng.engEnd_fst] at ha hs ⊢
  have := asleep_tick_inert G S C trace _ e hr he ha
  exact ⟨hs.quiet this.1, this.2.2⟩

/-- the hypothesis of `asleep_tick_inert`/`engine_spurious_tick_invisible` is met by the recorded real
    run: event 46 (`U2`, sub-core 2) is handled while its model flag is clear -/
example :
    awakeOf (engEnd (init false 1 1 4 [[[0, 3, 2, 1, 0]]]) [Ev.drv] (realRun.take 46)).1 (.sub 2) = false ∧
    (realRun.drop 46).head? = some (.sub 2, []) := by
  decide +kernel

/-- `engine_exactly_once` on the recorded real order (hypotheses: the example after `realRun`): the queue is
    empty and the 6 instructions of warps {0,3,2,1,0} were executed, 5 warps received -/
example :
    (engEnd (init false 1 1 4 [[[0, 3, 2, 1, 0]]]) [Ev.drv] realRun).2 = [] ∧
    executedInsts (engEnd (init false 1 1 4 [[[0, 3, 2, 1, 0]]]) [Ev.drv] realRun).1 = 6 ∧
    receivedWarps (engEnd (init false 1 1 4 [[[0, 3, 2, 1, 0]]]) [Ev.drv] realRun).1 = 5 := by
  decide +kernel

end C20
