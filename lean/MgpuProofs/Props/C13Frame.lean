import MgpuProofs.C13Frame
import MgpuProofs.Props.C13Elf
/-!
# C13 — the frame property at file level

Two files of the same length that agree on every byte range `elf.NewFile` and the loader read
(`Elf.readRanges f`, a function of the first file) are parsed into the same sections and load
identically, for every kernel name.
-/
namespace C13

/-- **file_frame.** Let `g` have the length of `f` and the same bytes on `Elf.readRanges f` (ELF
header; `p_offset`/`p_filesz` of every program header; the first 44 bytes of every section header;
the section-name string table; the symbol table and its `sh_link` string table; every section named
`.text` / `.rodata`).  Then `elf.NewFile` returns the same sections, `Symbols()` the same result, and
`LoadKernelCodeObjectFromBytes` the same outcome for every name — every other byte of the file
(`sh_info`/`sh_addralign`/`sh_entsize`, the rest of the program headers, `.note`, `.dynsym`, `.comment`,
padding, …) is irrelevant. -/
theorem file_frame (f g : Bytes) (h : Elf.AgreeOn f g (Elf.readRanges f)) (k : String) :
    Elf.parse g = Elf.parse f ∧
    (∀ secs, Elf.parse f = .ok secs → Elf.symbolsOf g secs = Elf.symbolsOf f secs) ∧
    Elf.loadBytes g k = Elf.loadBytes f k := by
  have hH : Elf.AgreeOn f g (Elf.hdrRanges f) :=
    ⟨h.1, fun r hr => h.2 r (List.mem_append_left _ hr)⟩
  have hB : Elf.AgreeOn f g (Elf.bodyRanges f) :=
    ⟨h.1, fun r hr => h.2 r (List.mem_append_right _ hr)⟩
  have hp : Elf.parse g = Elf.parse f :=
    Elf.parse_congr (Elf.parseHeaders_congr hH)
      (fun shs ndx sh hq hne hg => hB.sec (Elf.mem_body_shstr hq hne hg))
  have hsy : ∀ secs, Elf.parse f = .ok secs → Elf.symbolsOf g secs = Elf.symbolsOf f secs := by
    intro secs hs
    apply Elf.symbolsOf_congr
    · intro st hst
      apply hB.sec
      apply Elf.mem_body_secs hs
      apply List.mem_append_left
      unfold Elf.symRanges
      rw [hst]
      exact List.mem_cons_self ..
    · intro st x hst hx
      apply hB.sec
      apply Elf.mem_body_secs hs
      apply List.mem_append_left
      unfold Elf.symRanges
      rw [hst]
      simp only [hx]
      exact List.mem_cons_of_mem _ (List.mem_singleton.2 rfl)
  refine ⟨hp, hsy, ?_⟩
  unfold Elf.loadBytes
  rw [hp]
  cases hs : Elf.parse f with
  | reject => rfl
  | unmodelled => rfl
  | ok secs =>
    have hc : Elf.CodeAgree f g secs := by
      intro s hsm hcode
      apply hB.sec
      apply Elf.mem_body_secs hs
      apply List.mem_append_right
      unfold Elf.codeRanges
      exact List.mem_map.2 ⟨s, List.mem_filter.2 ⟨hsm, hcode⟩, rfl⟩
    simp only
    rw [hsy secs hs, Elf.findSection_congr ".text" (by decide) hc]
    simp only [Elf.loadKernel_congr hc]

/-- **file_frame_named.** The byte-level frame property for a load by name.  `Elf.namedRanges f k`
lists, as a function of the file and the name: the ELF header, the fields read of the program and
section headers, the section-name table, the symbol table and its string table, and — when the
symbols are readable (for the empty name: when it selects the single kernel symbol) — of `.text`
only **the selected symbol's range**
`[sh_offset + (st_value − sh_addr), + st_size)` and of `.rodata` only **the 64 bytes of the
descriptor** `<k>.kd`.  Two files of the same length that agree there load `k` identically: the
code of every other kernel, every other descriptor, all other sections are irrelevant. -/
theorem file_frame_named (f g : Bytes) (k : String) (h : Elf.AgreeOn f g (Elf.namedRanges f k)) :
    Elf.loadBytes g k = Elf.loadBytes f k := by
  have hH : Elf.AgreeOn f g (Elf.hdrRanges f) := ⟨h.1, fun r hr => h.2 r (Elf.mem_named_hdr hr)⟩
  have hp : Elf.parse g = Elf.parse f :=
    Elf.parse_congr (Elf.parseHeaders_congr hH)
      (fun shs ndx sh hq hne hg => h.sec (Elf.mem_named_shstr hq hne hg))
  unfold Elf.loadBytes
  rw [hp]
  cases hs : Elf.parse f with
  | reject => rfl
  | unmodelled => rfl
  | ok secs =>
    have hsy : Elf.symbolsOf g secs = Elf.symbolsOf f secs := by
      apply Elf.symbolsOf_congr
      · intro st hst
        apply h.sec
        apply Elf.mem_named_sym hs
        unfold Elf.symRanges
        rw [hst]
        exact List.mem_cons_self ..
      · intro st x hst hx
        apply h.sec
        apply Elf.mem_named_sym hs
        unfold Elf.symRanges
        rw [hst]
        simp only [hx]
        exact List.mem_cons_of_mem _ (List.mem_singleton.2 rfl)
    simp only
    rw [hsy]
    cases hS : Elf.symbolsOf f secs with
    | unmodelled => rfl
    | err =>
      have hc : Elf.CodeAgree f g secs :=
        Elf.codeAgree_of h (fun r hr => Elf.mem_named_tail hs (by rw [hS]; exact hr))
      simp only [Elf.loadKernel_congr hc]
    | panic =>
      have hc : Elf.CodeAgree f g secs :=
        Elf.codeAgree_of h (fun r hr => Elf.mem_named_tail hs (by rw [hS]; exact hr))
      simp only
      rw [Elf.findSection_congr ".text" (by decide) hc]
    | ok syms =>
      simp only
      by_cases hk : k = ""
      · subst hk
        apply congrArg some
        apply Elf.loadKernel_fine_empty h.1 syms
        · intro hfl
          exact Elf.codeAgree_of h (fun r hr => Elf.mem_named_tail hs (by
            rw [hS]; simp only [if_true, hfl]; exact hr))
        · intro k0 hfl
          have hm : ∀ r, r ∈ Elf.selRanges f secs syms k0.name → r ∈ Elf.namedRanges f "" :=
            fun r hr => Elf.mem_named_tail hs (by rw [hS]; simp only [if_true, hfl]; exact hr)
          constructor
          · intro t s ht hsel
            apply h.on
            apply hm
            unfold Elf.selRanges
            rw [ht, hsel]
            exact List.mem_append_left _ (List.mem_singleton.2 rfl)
          · intro ro s hro hkd ha
            apply h.on
            apply hm
            unfold Elf.selRanges
            rw [hro, hkd]
            simp only [if_pos ha]
            exact List.mem_append_right _ (List.mem_singleton.2 rfl)
      · have hm : ∀ r, r ∈ Elf.selRanges f secs syms k → r ∈ Elf.namedRanges f k :=
          fun r hr => Elf.mem_named_tail hs (by rw [hS]; simp only [if_neg hk]; exact hr)
        rw [Elf.loadKernel_fine h.1 syms k hk]
        · intro t s ht hsel
          apply h.on
          apply hm
          unfold Elf.selRanges
          rw [ht, hsel]
          exact List.mem_append_left _ (List.mem_singleton.2 rfl)
        · intro ro s hro hkd ha
          apply h.on
          apply hm
          unfold Elf.selRanges
          rw [hro, hkd]
          simp only [if_pos ha]
          exact List.mem_append_right _ (List.mem_singleton.2 rfl)

/-- non-vacuity: the 476-byte file of `Props/C13Elf.lean` with one byte of the `.text` section
header's `sh_addralign` field (file offset 270) overwritten: a different file that agrees on all
ranges read; the theorem gives the load, `decide` confirms it -/
def framePoked : Bytes := Elf.poke elfFile 270 0xAA

theorem framePoked_agrees : framePoked ≠ elfFile ∧ Elf.AgreeOn elfFile framePoked (Elf.readRanges elfFile) := by
  decide +kernel

example : Elf.loadBytes framePoked "k" = some (.ok elfLoaded) := by
  rw [(file_frame elfFile framePoked framePoked_agrees.2 "k").2.2]; exact elfFile_load

/-- and a byte inside a range read (the first byte of the kernel) does change the result -/
example : ¬ Elf.AgreeOn elfFile (Elf.poke elfFile 66 0xAA) (Elf.readRanges elfFile) ∧
    Elf.loadBytes (Elf.poke elfFile 66 0xAA) "k" ≠ Elf.loadBytes elfFile "k" := by
  decide +kernel

/-- non-vacuity of `file_frame_named`: byte 64 is the first byte of `.text`, outside the range
`[66, 70)` of kernel `k`: the coarse hypothesis fails, the named one holds, the load is the same -/
theorem frameOther_agrees :
    ¬ Elf.AgreeOn elfFile (Elf.poke elfFile 64 0xAA) (Elf.readRanges elfFile) ∧
    Elf.AgreeOn elfFile (Elf.poke elfFile 64 0xAA) (Elf.namedRanges elfFile "k") ∧
    (66, 4) ∈ Elf.namedRanges elfFile "k" := by
  decide +kernel

example : Elf.loadBytes (Elf.poke elfFile 64 0xAA) "k" = some (.ok elfLoaded) := by
  rw [file_frame_named elfFile _ "k" frameOther_agrees.2.1]; exact elfFile_load

/-- the empty name selects the single kernel symbol of this file, so the same byte is irrelevant
for it too -/
example : Elf.loadBytes (Elf.poke elfFile 64 0xAA) "" = Elf.loadBytes elfFile "" :=
  file_frame_named elfFile _ "" (by decide +kernel)

end C13
