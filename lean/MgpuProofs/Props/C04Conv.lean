import MgpuModel.C04
import MgpuProofs.C04NormBytes
import MgpuProofs.Props.C04
/-! # C04 — the converse direction: the decoder's image, and exactly which bits it ignores

`descOf c i` reads a description back from a decoded instruction, `normBytes c b` is the canonical form of a byte
string (the bits `Decode` does not read cleared — listed per format in `normRow` and in the `ignored_bits_*` theorems —,
an unused second dword and everything behind dropped). Definitions in `MgpuProofs/C04Norm.lean`, `C04NormTop.lean`,
`C04NormBytes.lean`; per-format lemmas `norm_X` (the cleared bits are ignored) and `desc_X` (nothing else is: the ISA
encoding of `descOf i` IS the canonical form) in `C04NormS/V/V3/Mem.lean`. -/
namespace C04
open Gen
set_option linter.unusedSimpArgs false

/-- **The bits cleared by `normBytes` are ignored** — for every architecture flag and EVERY byte string of at least
    four bytes (decodable or not): decoding the canonical form gives the same outcome (instruction, error or
    not-implemented) as decoding the original bytes. -/
theorem ignored_bits (c : Bool) (b : List Nat) (hb : BytesOK b) (h4 : 4 ≤ b.length) :
    decode c (normBytes c b) = decode c b := by
  obtain ⟨h0, h1⟩ := wordsOf_bounds hb
  obtain ⟨n0, n1⟩ := normCore_bounds c _ _ h0 h1
  rw [normBytes, decode_bytesOf c _ n0 n1, decodeCore_norm c _ _ h0 h1, decode_wordsOf c b h4]

/-- **Encode is the inverse of decode on the decoder's image, up to exactly the ignored bits**: if a byte string
    decodes to `i`, the ISA encoding of the description read back from `i` is the canonical form of the bytes — so
    NO bit outside the ones `normBytes` clears is ignored. (No exclusion any more: since the S0 repair bit 30 of an
    SDWA dword is one of the ignored bits and bit 23 is read, see `sdwa_s0_misread_before_fix`.) -/
theorem encode_descOf (c : Bool) (b : List Nat) (i : Inst) (hb : BytesOK b)
    (h : decode c b = .ok i) :
    encode (descOf c i) = normBytes c b := by
  have h4 : 4 ≤ b.length := (decode_size c b i h).2 |> fun hs => by
    rcases (decode_size c b i h).1 with e | e <;> omega
  obtain ⟨h0, h1⟩ := wordsOf_bounds hb
  rw [decode_wordsOf c b h4] at h
  rw [normBytes, decodeCore_desc c _ _ i h0 h1 h, encode_eq_bytesOf]

/-- **Re-encoding a decoded instruction decodes to the same instruction**: `decode ∘ encode ∘ descOf` is the identity
    on the decoder's image. -/
theorem decode_reencode (c : Bool) (b : List Nat) (i : Inst) (hb : BytesOK b)
    (h : decode c b = .ok i) :
    decode c (encode (descOf c i)) = .ok i := by
  have h4 : 4 ≤ b.length := by
    have := decode_size c b i h
    rcases this.1 with e | e <;> omega
  rw [encode_descOf c b i hb h, ignored_bits c b hb h4, h]

/-- **Two byte strings decode to the same instruction iff they agree outside the ignored bits**: for decodable `b`,
    `b'` (any lengths, any tails), `decode c b = decode c b'` exactly when the canonical forms coincide. -/
theorem decode_eq_iff_norm (c : Bool) (b b' : List Nat) (i i' : Inst) (hb : BytesOK b) (hb' : BytesOK b')
    (h : decode c b = .ok i) (h' : decode c b' = .ok i') :
    i = i' ↔ normBytes c b = normBytes c b' := by
  constructor
  · intro e
    subst e
    rw [← encode_descOf c b i hb h, ← encode_descOf c b' i hb' h']
  · intro e
    have l4 : 4 ≤ b.length := by have := decode_size c b i h; rcases this.1 with e | e <;> omega
    have l4' : 4 ≤ b'.length := by have := decode_size c b' i' h'; rcases this.1 with e | e <;> omega
    have a := ignored_bits c b hb l4
    rw [e, ignored_bits c b' hb' l4', h', h] at a
    injection a with a
    exact a.symm

/-- **Everything the decoder returns is denoted by a description**: when the description read back from a decoded
    instruction is well-formed, the instruction is exactly what that description denotes. -/
theorem decoded_is_denoted (c : Bool) (b : List Nat) (i : Inst) (hb : BytesOK b)
    (h : decode c b = .ok i) (hwf : wellFormed (descOf c i) = true) :
    i = instOf c (descOf c i) := by
  have a := decode_reencode c b i hb h
  have b' := decode_encode c (descOf c i) hwf []
  rw [List.append_nil] at b'
  rw [b'] at a
  exact (Outcome.ok.inj a).symm

/-- non-vacuity: `global_load_dwordx2 v[1:2], v3, s[4:5] offset:-8 glc` with the ignored LDS bit, bit 25 and SEG = 3
    set, followed by junk, has the canonical form of the plain encoding with SEG = 1 (CDNA3) / SEG = 0 (GCN3); the
    description read back re-encodes to it -/
example : normBytes true [0xf8, 0xff, 0x55, 0xde, 0x03, 0x00, 0x04, 0x01, 9, 9] = [0xf8, 0x5f, 0x55, 0xdc, 0x03, 0x00, 0x04, 0x01] := by
  decide +kernel
example : normBytes false [0xf8, 0xff, 0x55, 0xde, 0x03, 0x00, 0x04, 0x01, 9, 9] = [0xf8, 0x1f, 0x55, 0xdc, 0x03, 0x00, 0x04, 0x01] := by
  decide +kernel
example : decode true [0xf8, 0xff, 0x55, 0xde, 0x03, 0x00, 0x04, 0x01, 9, 9] = decode true [0xf8, 0x5f, 0x55, 0xdc, 0x03, 0x00, 0x04, 0x01] := by
  decide +kernel
example : (match decode true [0xf8, 0xff, 0x55, 0xde, 0x03, 0x00, 0x04, 0x01, 9, 9] with
     | .ok i => encode (descOf true i) | _ => []) = [0xf8, 0x5f, 0x55, 0xdc, 0x03, 0x00, 0x04, 0x01] := by
  decide +kernel
/-- an SDWA dword with the reserved bit 30 and S0 (bit 23) set: bit 30 is dropped by the canonical form, S0 is kept and
    read back -/
example : normBytes false [0xf9, 0x04, 0x00, 0x02, 0x01, 0x06, 0x86, 0x46] = [0xf9, 0x04, 0x00, 0x02, 0x01, 0x06, 0x86, 0x06] ∧
    (match decode false [0xf9, 0x04, 0x00, 0x02, 0x01, 0x06, 0x86, 0x46] with
     | .ok i => encode (descOf false i) | _ => []) = [0xf9, 0x04, 0x00, 0x02, 0x01, 0x06, 0x86, 0x06] := by
  decide +kernel

/-! ## per format: which bits are ignored (row level; `normRow` spelled out) -/

/-- the 4-byte formats SOP2, SOPK, SOP1, SOPC, SOPP, VOP1, VOPC and VOP2 without SDWA ignore NO bit of the first dword;
    the second dword is read exactly when a source field says 255 (or 249 / a K opcode for VOP2, opcode 20 for SOPK) -/
theorem ignored_bits_4byte (c : Bool) (ft : Nat) (row : Row) (w0 : Nat) (w1? : Option Nat)
    (h : ft = FT_SOP2 ∨ ft = FT_SOPK ∨ ft = FT_SOP1 ∨ ft = FT_SOPC ∨ ft = FT_SOPP ∨ ft = FT_VOP1 ∨ ft = FT_VOPC ∨
      (ft = FT_VOP2 ∧ extractBits w0 0 8 ≠ 249)) :
    normRow c ft row w0 w1? = (w0, if usesSecond4 ft row w0 then w1? else none) := by
  rcases h with h | h | h | h | h | h | h | ⟨h, h9⟩ <;> subst h
  all_goals first
    | (simp [normRow, FT_SOP2, FT_SOPK, FT_SOP1, FT_SOPC, FT_SOPP, FT_VOP1, FT_VOPC, FT_VOP2, FT_SMEM, FT_VOP3a, FT_VOP3b, FT_DS, FT_FLAT]; done)
    | (simp [normRow, h9, FT_SOP2, FT_SOPK, FT_SOP1, FT_SOPC, FT_SOPP, FT_VOP1, FT_VOPC, FT_VOP2, FT_SMEM, FT_VOP3a, FT_VOP3b, FT_DS, FT_FLAT])

/-- VOP2 + SDWA: bits 14..15 (OMOD) and the reserved bits 22 and 30 of the SDWA dword are ignored, DST_UNUSED 3 reads
    as 0; the first dword is read completely -/
theorem ignored_bits_sdwa (c : Bool) (row : Row) (w0 w1 : Nat) (h : extractBits w0 0 8 = 249) :
    normRow c FT_VOP2 row w0 (some w1) =
      (w0, some (if extractBits w1 11 12 == 3 then clr (clr (clr (clr w1 14 15) 22 22) 30 30) 11 12
                 else clr (clr (clr w1 14 15) 22 22) 30 30)) := by
  simp [normRow, normSdwa, h, FT_VOP2, FT_SMEM, FT_VOP3a, FT_VOP3b, FT_DS, FT_FLAT]

/-- SMEM: bits 13..15 of the first dword; of the second dword everything above the 20-bit offset (21 bits for an
    immediate on CDNA3) -/
theorem ignored_bits_smem (c : Bool) (row : Row) (w0 w1 : Nat) :
    normRow c FT_SMEM row w0 (some w1) =
      (clr w0 13 15, some (if c && extractBits w0 17 17 != 0 then extractBits w1 0 20 else extractBits w1 0 19)) := by
  simp [normRow, FT_SMEM]

/-- VOP3a: OP_SEL (bits 11..14) unless the row is packed (944: all read; 945/946: 11..12 read); SRC2 (bits 18..26 of
    the second dword) unless the row has a third source -/
theorem ignored_bits_vop3a (c : Bool) (row : Row) (w0 w1 : Nat) :
    normRow c FT_VOP3a row w0 (some w1) =
      ((if row.opcode == 944 then w0 else if 945 ≤ row.opcode && row.opcode ≤ 946 then clr w0 13 14 else clr w0 11 14),
       some (if row.src2W != 0 then w1 else clr w1 18 26)) := by
  simp [normRow, FT_SMEM, FT_VOP3a]

/-- VOP3b: VDST (bits 0..7) for opcodes ≤ 255 (no such row exists); SRC2 unless opcode > 255 with a third source -/
theorem ignored_bits_vop3b (c : Bool) (row : Row) (w0 w1 : Nat) :
    normRow c FT_VOP3b row w0 (some w1) =
      ((if row.opcode > 255 then w0 else clr w0 0 7),
       some (if row.opcode > 255 && row.src2W > 0 then w1 else clr w1 18 26)) := by
  simp [normRow, FT_SMEM, FT_VOP3a, FT_VOP3b]

/-- DS: bit 25 of the first dword; DATA0 / DATA1 / VDST bytes of the second dword when the row lacks that operand -/
theorem ignored_bits_ds (c : Bool) (row : Row) (w0 w1 : Nat) :
    normRow c FT_DS row w0 (some w1) =
      (clr w0 25 25,
       some (let a := if row.src0W > 0 then w1 else clr w1 8 15
             let b := if row.src1W > 0 then a else clr a 16 23
             if row.dstW > 0 then b else clr b 24 31)) := by
  simp [normRow, FT_SMEM, FT_VOP3a, FT_VOP3b, FT_DS]

/-- FLAT / GLOBAL / SCRATCH: bit 13 (LDS) and bit 25 always; SEG (bits 14..15) completely on GCN3 and when
    SADDR = 0x7F, and otherwise (CDNA3, scalar base in use) only "SEG ≠ 0" is read (canonical value 1); the second dword
    is read completely -/
theorem ignored_bits_flat (c : Bool) (row : Row) (w0 w1 : Nat) :
    normRow c FT_FLAT row w0 (some w1) =
      ((if c && extractBits w1 16 22 != 0x7F && extractBits w0 14 15 != 0
        then clr (clr (clr w0 13 13) 14 15) 25 25 + 2 ^ 14 else clr (clr (clr w0 13 13) 14 15) 25 25), some w1) := by
  simp [normRow, FT_SMEM, FT_VOP3a, FT_VOP3b, FT_DS, FT_FLAT]

/-- **Row level iff** (all 13 formats at once; `ignored_bits_*` above spell out `normRow` per format): two word pairs
    carrying the same format encoding and opcode, both decoded successfully, give the same instruction exactly when
    their canonical forms coincide. -/
theorem ignored_bits_exact (c : Bool) (f : Format) (row : Row) (w0 w0' : Nat) (w1? w1'? : Option Nat) (i i' : Inst)
    (hfm : f ∈ formats) (h13 : ft13.contains f.ft = true)
    (hw0 : w0 < 2 ^ 32) (hw1 : ∀ w1, w1? = some w1 → w1 < 2 ^ 32)
    (hw0' : w0' < 2 ^ 32) (hw1' : ∀ w1, w1'? = some w1 → w1 < 2 ^ 32)
    (hhit : w0 / 2 ^ shiftOf f = f.encoding / 2 ^ shiftOf f) (hop : extractBits w0 f.opLo f.opHi = row.opcode)
    (hhit' : w0' / 2 ^ shiftOf f = f.encoding / 2 ^ shiftOf f) (hop' : extractBits w0' f.opLo f.opHi = row.opcode)
    (h : decodeRow c f row w0 w1? = .ok i) (h' : decodeRow c f row w0' w1'? = .ok i') :
    i = i' ↔ normRow c f.ft row w0 w1? = normRow c f.ft row w0' w1'? :=
  ignored_bits_row c f row w0 w0' w1? w1'? i i' hfm h13 hw0 hw1 hw0' hw1' hhit hop hhit' hop' h h'

/-- non-vacuity: `ds_write_b32 v3, v4` (no DATA1, no VDST): the DATA1 / VDST bytes and bit 25 do not matter, DATA0 does -/
example :
    (match formatOf FT_DS, lookUp FT_DS 13 with
     | some f, some row =>
       decide (decodeRow false f row 0xd81a0000 (some 0x00000403) = decodeRow false f row 0xda1a0000 (some 0xffee0403)) &&
       decide (decodeRow false f row 0xd81a0000 (some 0x00000403) ≠ decodeRow false f row 0xd81a0000 (some 0x00000503)) &&
       decide (normRow false FT_DS row 0xda1a0000 (some 0xffee0403) = (0xd81a0000, some 0x00000403))
     | _, _ => false) = true := by
  decide +kernel

end C04
