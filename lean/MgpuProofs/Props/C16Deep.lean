import MgpuProofs.Props.C16
import MgpuProofs.C16Ctl
/-! # C16 — second deepening: liveness under fairness, the control path, coalescing, page straddling

Closed world = `Reach c e w` as in `Props/C16.lean` (translator + honest translation service + honest
memory + bounded ports + controller + Akita's wake rule; every width, 0 included). -/
namespace C16

/-! ## liveness under fairness -/

/-- **Every accepted access is eventually forwarded and answered, under fairness, with back-pressure
on every port.** Take any reachable world and any infinite schedule of moves of the component and its
honest neighbours in which each kind of move recurs for ever (`Fair`: the engine runs a scheduled tick,
the translation service answers *some* lookup, the memory answers *some* request, each of the four
outgoing buffers is read) — order, delays, which lookup is answered, how long a full buffer stays full
are all free. Then after finitely many moves: every access accepted since the last flush is answered
(exactly once and faithfully, by `at_world_faithful`, which holds in that world too); nothing is left
anywhere unless a flush still awaits its restart; the control handshake is complete — every command
the controller delivered has been taken and acknowledged and the controller has seen exactly one
acknowledgement per command. Proof: the lexicographic measure (`wmu`, awake) strictly decreases or the
move is a no-op (`hstep_dichotomy`); a productive move exists while the world is not settled
(`stuck_free'`) and stays productive across no-ops until its kind recurs. -/
theorem at_fair_liveness (c : Cfg) (e : Env) (w : CW) (hr : Reach c e w) (sched : Nat → HOp)
    (hf : Fair sched) :
    ∃ n, (∀ p ∈ (hrun c e w (pre sched n)).s.received, p.2 = (hrun c e w (pre sched n)).s.epoch →
            ∃ x ∈ (hrun c e w (pre sched n)).s.answered, x.top = p.1) ∧
         ((hrun c e w (pre sched n)).s.flushing = false → wmu (hrun c e w (pre sched n)) = 0) ∧
         (hrun c e w (pre sched n)).s.ctlIn = [] ∧ (hrun c e w (pre sched n)).s.ctlOut = 0 ∧
         (hrun c e w (pre sched n)).s.taken = (hrun c e w (pre sched n)).sentCtl ∧
         (hrun c e w (pre sched n)).ackSeen = (hrun c e w (pre sched n)).sentCtl.length := by
  obtain ⟨n, hn⟩ := fair_settles _ w rfl hr sched hf
  refine ⟨n, hn.1.1, hn.1.2, hn.2.1, hn.2.2.1, ?_, ?_⟩
  · have hc := reach_ctlw (reach_hrun hr (pre sched n))
    rw [hc.sent, hn.2.1]; rfl
  · have hr' := reach_hrun hr (pre sched n)
    have hc := reach_ctlw hr'
    obtain ⟨ops, hops⟩ := reach_run hr'
    have hk : KInv (hrun c e w (pre sched n)).s := hops ▸ run_kinv c ops
    have h1 := hc.seen
    rw [hn.2.2.1, hk.acks] at h1
    rw [hc.sent, hn.2.1]
    simpa using h1

/-- the round-robin schedule (tick, translation reply, memory response, the four retrievals, …) is fair,
so `at_fair_liveness` is not vacuous -/
example : Fair rr := rr_fair

/-- **A bound.** If every kind of move recurs within every window of `K` consecutive moves
(`FairK K`; the round-robin schedule has `K = 7`), the world is settled — all accepted accesses
answered, control handshake complete, all outgoing buffers taken — after at most
`K · (2·wmu w + 2)` moves, where `wmu w` weighs the work held anywhere in the world. -/
theorem at_fair_liveness_bound (c : Cfg) (e : Env) (w : CW) (hr : Reach c e w) (K : Nat)
    (sched : Nat → HOp) (hf : FairK K sched) :
    ∃ n, n ≤ K * (2 * wmu w + 2) ∧ SettledC (hrun c e w (pre sched n)) := by
  obtain ⟨n, hle, hn⟩ := fair_settles_bound K _ w rfl hr sched hf
  refine ⟨n, Nat.le_trans hle (Nat.mul_le_mul_left K ?_), hn⟩
  unfold lmu
  split <;> omega

example : FairK 7 rr := rr_fairK

/-- The same claim without the fairness hypothesis (any schedule of internal moves). -/
def at_fair_liveness_full : Prop :=
  ∀ (c : Cfg) (e : Env) (w : CW) (sched : Nat → HOp), Reach c e w → (∀ i, (sched i).internal = true) →
    ∃ n, SettledC (hrun c e w (pre sched n))

/-- It is false: if the translation service never takes the lookup from the translation port
(schedule = ticks only), the access waits for ever — the component goes to sleep and every further
tick is a no-op. The real component behaves the same (harness scenario `deep2.unfair`). -/
theorem at_fair_liveness_refuted : ¬ at_fair_liveness_full := by
  intro h
  let w0 : CW := hrun ⟨1, 12⟩ demoEnv {} [.access 1 0x1004 ⟨false, 4, [], [], false⟩, .tick, .tick]
  obtain ⟨n, hn⟩ := h ⟨1, 12⟩ demoEnv w0 (fun _ => .tick) (reach_hrun Reach.init _) (fun _ => rfl)
  have hfix : ∀ n, hrun ⟨1, 12⟩ demoEnv w0 (List.replicate n .tick) = w0 := by
    intro n
    induction n with
    | zero => rfl
    | succ n ih =>
      rw [List.replicate_succ]
      show hrun ⟨1, 12⟩ demoEnv (hstep ⟨1, 12⟩ demoEnv w0 .tick) (List.replicate n .tick) = w0
      rw [hstep_tick_asleep _ _ w0 (by decide)]
      exact ih
  rw [pre_const, hfix] at hn
  have : w0.s.trOut = [] := hn.2.2.2.2.2
  revert this
  decide

/-! ## the control path: acknowledgement exactly once -/

/-- **Flush / restart commands are acknowledged exactly once.** In every reachable world, with
`sentCtl` the commands the controller delivered (newest first), `taken` the commands the translator
took from its control port, `acks` the acknowledgements it sent and `ackSeen` those the controller
took: (1) every delivered command is still waiting at the control port or was taken — same order, no
loss, no duplicate; (2) one acknowledgement was sent per command taken; (3) every acknowledgement
sent was seen by the controller or waits in the control port (capacity 1); (4) the flush epoch is the
number of flushes taken and the translator is flushing iff the last command taken was a flush;
(5) a restart is only ever taken directly after a flush. `at_fair_liveness` adds: eventually
`taken = sentCtl` and `ackSeen = |sentCtl|`. (2) and (4) hold for every op sequence of the open
environment as well (`run_kinv`). -/
theorem at_ctl_exactly_once (c : Cfg) (e : Env) (w : CW) (hr : Reach c e w) :
    w.sentCtl = w.s.ctlIn.reverse ++ w.s.taken ∧
    w.s.acks = w.s.taken.length ∧
    (w.ackSeen + w.s.ctlOut = w.s.acks ∧ w.s.ctlOut ≤ 1 ∧ w.s.ctlIn.length ≤ 1) ∧
    (w.s.epoch = w.s.taken.count .flush ∧ w.s.flushing = (w.s.taken.head? == some Ctl.flush)) ∧
    (∀ pre post, w.s.taken = pre ++ Ctl.restart :: post → post.head? = some Ctl.flush) := by
  obtain ⟨ops, hops⟩ := reach_run hr
  have hk : KInv w.s := hops ▸ run_kinv c ops
  have hb : BInv c w.s := hops ▸ run_binv c ops
  have hc := reach_ctlw hr
  exact ⟨hc.sent, hk.acks, ⟨hc.seen, hb.ctlO, hb.ctlI⟩, ⟨hk.ep, hk.fl⟩, hc.rs⟩

/-- (2) and (4) in the open environment: any op sequence, any replies, restart without flush included -/
theorem at_ctl_ack_per_command (c : Cfg) (ops : List Op) :
    (run c ops).acks = (run c ops).taken.length ∧
    (run c ops).epoch = (run c ops).taken.count .flush ∧
    (run c ops).flushing = ((run c ops).taken.head? == some Ctl.flush) :=
  ⟨(run_kinv c ops).acks, (run_kinv c ops).ep, (run_kinv c ops).fl⟩

/-- **What a restart drops, what survives.** A successful restart step empties the three incoming
buffers and clears the flushing flag; transactions, in-flight records, the three outgoing buffers
(responses / forwarded requests / lookups already handed to a port still go out), the id counters and
all logs are untouched, and exactly one acknowledgement is sent. -/
theorem at_restart_step (s : St) (rest : List Ctl) (h1 : s.ctlIn = .restart :: rest) (h2 : s.ctlOut < 1) :
    let s' := (handleCtrl s).1
    s'.topIn = [] ∧ s'.botIn = [] ∧ s'.trIn = [] ∧ s'.flushing = false ∧ s'.ctlIn = rest ∧
    s'.txs = s.txs ∧ s'.infl = s.infl ∧ s'.topOut = s.topOut ∧ s'.botOut = s.botOut ∧ s'.trOut = s.trOut ∧
    s'.nextT = s.nextT ∧ s'.nextB = s.nextB ∧ s'.epoch = s.epoch ∧ s'.received = s.received ∧
    s'.forwarded = s.forwarded ∧ s'.answered = s.answered ∧ s'.acks = s.acks + 1 ∧ s'.ctlOut = s.ctlOut + 1 := by
  simp [handleCtrl, h1, h2]

/-- a successful flush step, complementing `at_flush_step`: the six port buffers, counters and logs
survive; one acknowledgement is sent -/
theorem at_flush_survivors (s : St) (rest : List Ctl) (h1 : s.ctlIn = .flush :: rest) (h2 : s.ctlOut < 1) :
    let s' := (handleCtrl s).1
    s'.topIn = s.topIn ∧ s'.botIn = s.botIn ∧ s'.trIn = s.trIn ∧ s'.topOut = s.topOut ∧
    s'.botOut = s.botOut ∧ s'.trOut = s.trOut ∧ s'.nextT = s.nextT ∧ s'.nextB = s.nextB ∧
    s'.received = s.received ∧ s'.forwarded = s.forwarded ∧ s'.answered = s.answered ∧
    s'.ctlIn = rest ∧ s'.acks = s.acks + 1 ∧ s'.ctlOut = s.ctlOut + 1 := by
  simp [handleCtrl, h1, h2]

/-- **A restart never drops anything that is still awaited.** In every reachable world in which the
translator is flushing (the only time a restart can be pending or taken): it holds no transaction and
no in-flight record; every translation reply waiting at the translation port answers a lookup of an
*earlier* epoch and every memory response waiting at the bottom port answers a request forwarded in an
earlier epoch (the pipeline would drop them as unknown anyway: `at_flush_world`); the accesses waiting
at the top port were never accepted (their ids occur nowhere in `received`) — the requester is flushed
together with the translator and must not wait for them. -/
theorem at_restart_drops_only_stale (c : Cfg) (e : Env) (w : CW) (hr : Reach c e w)
    (hfl : w.s.flushing = true) :
    (∀ k ∈ w.s.ctlIn, k = .restart → w.s.flushing = true) ∧
    w.s.txs = [] ∧ w.s.infl = [] ∧
    (∀ r ∈ w.s.trIn, ∃ p ∈ w.s.askedAt, p.1 = r.rspTo ∧ p.2 < w.s.epoch) ∧
    (∀ r ∈ w.s.botIn, ∃ l ∈ w.s.forwarded, l.breq.bid = r.rspTo ∧ l.epoch < w.s.epoch) ∧
    (∀ a ∈ w.s.topIn, ∀ p ∈ w.s.received, p.1.id ≠ a.id) := by
  obtain ⟨ops, hops⟩ := reach_run hr
  have hm : MInv c w.s := hops ▸ run_minv c ops
  have hn : NInv w.s := hops ▸ run_ninv c ops
  have hf : FInv w.s := hops ▸ run_finv c ops
  have hc : CInv w.s := hops ▸ run_cinv c ops
  have hw := reach_winv hr
  have he := reach_einv hr
  obtain ⟨f1, f2, _⟩ := hf.fl hfl
  refine ⟨fun _ _ _ => hfl, (hn.fl hfl).1, (hn.fl hfl).2, ?_, ?_, ?_⟩
  · intro r hr'
    obtain ⟨q, hq, rfl⟩ := hw.tT r (hm.trIn r hr')
    obtain ⟨ep, hep⟩ := he.aa q hq
    exact ⟨_, hep, rfl, f1 _ hep⟩
  · intro r hr'
    obtain ⟨l, hl, rfl⟩ := hw.tM r (hm.botIn r hr')
    exact ⟨l, hl, rfl, f2 l hl⟩
  · intro a ha p hp heq
    have h1 := hc.a a.id
    have h2 : 0 < (w.s.topIn.map (·.id)).count a.id :=
      List.count_pos_iff.mpr (List.mem_map.mpr ⟨a, ha, rfl⟩)
    have h3 : 0 < (w.s.received.map (·.1.id)).count a.id :=
      List.count_pos_iff.mpr (List.mem_map.mpr ⟨p, hp, heq⟩)
    omega

/-! ## coalescing -/

/-- **At most one lookup is outstanding per (PID, page)** — for every op sequence of the open
environment: the (PID, page) keys of the transactions whose translation has not arrived are pairwise
distinct. So an access to a page whose lookup is pending is always coalesced into it (never a second
lookup), and accesses of different PIDs on the same virtual page never share one. -/
theorem at_coalesce_complete (c : Cfg) (ops : List Op) :
    (((run c ops).txs.filter fun t => !t.done).map fun t => (t.treq.pid, t.treq.vpage)).Nodup :=
  run_pinv c ops

/-- **No access is appended to a finished transaction.** For *every* state: `translate` leaves the
completed transactions — with their waiting requests, in order — exactly as they are; a whole tick
changes them only through `parseTranslation` (which pops the head request after a successful bottom
send). And in every reachable state each transaction's waiting accesses all have the PID and page of
its lookup, so whatever is coalesced is forwarded under the translation of its own (PID, page). -/
theorem at_done_tx_closed (c : Cfg) (s : St) :
    (translate c s).1.txs.filter (·.done) = s.txs.filter (·.done) ∧
    ((iter (translate c) c.width s).1.txs.filter (·.done) = s.txs.filter (·.done)) := by
  refine ⟨translate_done_unchanged c s, ?_⟩
  exact iter_pres (P := fun s' => s'.txs.filter (·.done) = s.txs.filter (·.done))
    (fun s' h => (translate_done_unchanged c s').trans h) _ _ rfl

theorem at_coalesced_same_page (c : Cfg) (ops : List Op) :
    ∀ t ∈ (run c ops).txs, ∀ a ∈ t.reqs, a.pid = t.treq.pid ∧ pageId c.lg a.vaddr = t.treq.vpage := by
  intro t ht a ha
  have := ((run_minv c ops).tx t ht).2.2.2.1 a ha
  exact ⟨this.1, this.2.1⟩

/-! ## page-straddling accesses -/

/-- every forwarded request of a reachable world goes to the page-table entry of the access's own
(PID, page) plus the page offset -/
theorem reach_forward_own {c : Cfg} {e : Env} {w : CW} (hr : Reach c e w) :
    ∀ l ∈ w.s.forwarded,
      l.breq.paddr = e.pt l.top.pid (pageId c.lg l.top.vaddr) + l.top.vaddr % 2 ^ c.lg ∧ l.breq.pl = l.top.pl := by
  obtain ⟨ops, hops⟩ := reach_run hr
  have hw := reach_winv hr
  have hu : UInv w.s := hops ▸ run_uinv c ops
  have htruth : ∀ q ∈ w.s.asked, ∀ r ∈ w.s.tdel, r.rspTo = q.tid → r.paddr = e.pt q.pid q.vpage := by
    intro q hq r hrr he
    obtain ⟨q', hq', rfl⟩ := hw.tT r hrr
    have : q' = q := eq_of_nodup_map (·.tid) _ hu.and_ q' hq' q hq he
    rw [this]
  have hown := at_forward_own_page c ops e.pt (by rw [← hops]; exact htruth)
  rw [← hops] at hown
  exact hown

/-- **Byte-level faithfulness of accesses inside one page.** In every reachable world, for every
forwarded request whose access does not cross a page boundary (`offset + size ≤ page size`), every
byte `i` of the access is sent to the translation of *that byte's own* virtual address:
`pt pid (page of (vaddr+i)) + offset of (vaddr+i)`. -/
theorem at_bytes_partial (c : Cfg) (e : Env) (w : CW) (hr : Reach c e w) :
    ∀ l ∈ w.s.forwarded, l.top.vaddr % 2 ^ c.lg + l.top.pl.size ≤ 2 ^ c.lg → ∀ i < l.top.pl.size,
      l.breq.paddr + i =
        e.pt l.top.pid (pageId c.lg (l.top.vaddr + i)) + (l.top.vaddr + i) % 2 ^ c.lg := by
  intro l hl hin i hi
  obtain ⟨h1, _⟩ := reach_forward_own hr l hl
  obtain ⟨p1, p2⟩ := page_of_byte c.lg l.top.vaddr i (by omega)
  rw [h1, p1, p2]
  omega

/-- the same for every access, page-straddling ones included -/
def at_bytes_full : Prop :=
  ∀ (c : Cfg) (e : Env) (w : CW), Reach c e w → ∀ l ∈ w.s.forwarded, ∀ i < l.top.pl.size,
    l.breq.paddr + i = e.pt l.top.pid (pageId c.lg (l.top.vaddr + i)) + (l.top.vaddr + i) % 2 ^ c.lg

/-- the page table of the witness: consecutive virtual pages are not physically consecutive -/
def straddleEnv : Env := ⟨fun pid vp => 0x100000 * pid + 8 * vp, fun _ => none⟩

def straddleOps : List HOp :=
  [.access 1 0x1ffe ⟨false, 4, [], [], false⟩, .tick, .drainTr, .ansT 0, .tick]

/-- It is false: the translator does not split an access that crosses a page boundary; it forwards
the whole access at the first page's translation, so the bytes beyond the boundary go to the page
that follows *physically*, not to the translation of the next virtual page. Witness: a 4-byte read at
0x1ffe (4 KiB pages): byte 2 is virtual 0x2000 whose page is at 0x110000, but it is sent to 0x109000.
The real component forwards exactly the same request (harness scenario `deep2.straddle`, diffs=0).
The property's statement (request level: page base + offset, size unchanged) holds nevertheless; the
byte-level reading needs the requesters' contract "no access crosses a page" — the CU's coalescer and
scalar unit split at cache-line boundaries (`scalarunit.go`: `byteInCacheline`), so it is met. -/
theorem at_bytes_refuted : ¬ at_bytes_full := by
  intro h
  have := h ⟨1, 12⟩ straddleEnv _ (reach_hrun Reach.init straddleOps)
    ⟨⟨0, 1, 0x1ffe, ⟨false, 4, [], [], false⟩⟩, ⟨0, 0x108ffe, ⟨false, 4, [], [], false⟩⟩, 0⟩ (by decide) 2 (by decide)
  revert this
  decide

/-! ## hypotheses that cannot be dropped -/

/-- `at_forward_own_page` needs its truthfulness hypothesis: the translator trusts the translation
service; if the service answers a lookup with a wrong page the access is forwarded there. (In the closed
world the hypothesis is discharged: `at_world_faithful`.) The real component forwards to the same wrong
address (harness scenario `deep2.lie`, diffs=0). -/
theorem at_forward_own_page_needs_truth :
    ∃ (c : Cfg) (ops : List Op) (pt : Nat → Nat → Nat), ∃ l ∈ (run c ops).forwarded,
      l.breq.paddr ≠ pt l.top.pid (pageId c.lg l.top.vaddr) + l.top.vaddr % 2 ^ c.lg :=
  ⟨⟨1, 12⟩, [.access 1 0x1004 ⟨false, 4, [], [], false⟩, .tick, .drainTr, .trsp ⟨0, 0x99000⟩, .tick],
    fun _ _ => 0x11000, ⟨⟨0, 1, 0x1004, ⟨false, 4, [], [], false⟩⟩, ⟨0, 0x99004, ⟨false, 4, [], [], false⟩⟩, 0⟩,
    by decide, by decide⟩

/-- `at_world_monotone` needs "internal moves only": a new access adds work -/
theorem at_world_monotone_needs_internal :
    wmu (hstep ⟨1, 12⟩ demoEnv {} (.access 1 0x1004 ⟨false, 4, [], [], false⟩)) > wmu ({} : CW) := by
  decide

/-- `at_no_loss` (1) needs "no control message pending" for its strict part: a tick that only takes a
flush command reports progress while `mu` (which does not count the control port) stays 0; the closed
world's measure `wmu` counts the control port and needs no such exception (`tick_sdec`). -/
theorem at_no_loss_needs_no_ctl :
    ∃ (c : Cfg) (ops : List Op), (tick c (run c ops)).2 = true ∧ ¬ mu (tick c (run c ops)).1 < mu (run c ops) :=
  ⟨⟨1, 12⟩, [.ctl .flush], by decide, by decide⟩

/-- `at_flush_step` needs room in the control port: with the previous acknowledgement still there the
command stays at the port and nothing is cleared -/
theorem at_flush_step_needs_room :
    ∃ s : St, s.ctlIn = [.flush] ∧ s.ctlOut = 1 ∧ handleCtrl s = (s, false) :=
  ⟨{ ctlIn := [.flush], ctlOut := 1 }, rfl, rfl, rfl⟩

/-- a restart that is not preceded by a flush, taken while a memory response waits behind a full top port -/
def restartNoFlushOps : List Op :=
  [.access 1 0x1004 ⟨false, 4, [], [], false⟩, .tick, .drainTr, .trsp ⟨0, 0x11000⟩, .tick, .drainBot,
   .brsp ⟨0, some [1, 2, 3, 4]⟩, .tick,
   .access 1 0x2004 ⟨false, 4, [], [], false⟩, .tick, .drainTr, .trsp ⟨1, 0x12000⟩, .tick, .drainBot,
   .brsp ⟨1, some [5, 6, 7, 8]⟩, .ctl .restart, .tick, .drainTop, .drainCtl, .tick, .tick]

/-- The closed world's rule "restart only while flushing" cannot be dropped: a restart that is not
preceded by a flush discards the memory response an in-flight record waits for — the record stays for
ever, the accepted access 1 is never answered although nothing is pending anywhere and the component
is idle. (Open environment; the simulator's controller always flushes first, and then
`at_restart_drops_only_stale` applies. The real component does the same: harness scenario
`deep2.restart-no-flush`, diffs=0, the access stays unanswered after the closing rounds.) -/
theorem at_restart_needs_flush :
    let s := run ⟨1, 12⟩ restartNoFlushOps
    s.taken = [.restart] ∧ s.flushing = false ∧ s.infl.map (·.breq.bid) = [1] ∧ s.botIn = [] ∧ s.botOut = [] ∧
    s.received.map (·.1.id) = [1, 0] ∧ s.answered.map (·.top.id) = [0] ∧ (tick ⟨1, 12⟩ s).2 = false := by
  decide

/-! ### Non-vacuity -/

/-- a world with a flush taken, a restart waiting, a stale reply and a never-accepted access at the ports -/
def ctlDemo : List HOp :=
  [.access 1 0x1004 ⟨false, 4, [], [], false⟩, .tick, .drainTr, .flush, .tick, .ansT 0,
   .access 1 0x2004 ⟨false, 4, [], [], false⟩, .restart]

example :
    let w := hrun ⟨1, 12⟩ demoEnv {} ctlDemo
    w.s.flushing = true ∧ w.sentCtl = [.restart, .flush] ∧ w.s.taken = [.flush] ∧ w.s.ctlIn = [.restart] ∧
    w.s.acks = 1 ∧ w.ackSeen = 0 ∧ w.s.ctlOut = 1 ∧ w.s.trIn.map (·.rspTo) = [0] ∧ w.s.askedAt = [(0, 0)] ∧
    w.s.epoch = 1 ∧ w.s.topIn.map (·.id) = [1] ∧ w.s.received.map (·.1.id) = [0] := by
  decide

example := at_restart_drops_only_stale ⟨1, 12⟩ demoEnv _ (reach_hrun Reach.init ctlDemo) (by decide)

/-- the fair schedule completes the handshake of that world -/
example := at_fair_liveness ⟨1, 12⟩ demoEnv _ (reach_hrun Reach.init ctlDemo) rr rr_fair

/-- two PIDs on one virtual page pending at once, and a coalesced access: keys distinct -/
example :
    let s := run ⟨2, 12⟩ [.access 1 0x1004 ⟨false, 4, [], [], false⟩, .access 2 0x1008 ⟨false, 4, [], [], false⟩,
      .tick, .access 1 0x1010 ⟨false, 4, [], [], false⟩, .tick]
    s.txs.map (fun t => (t.treq.pid, t.treq.vpage, t.reqs.length, t.done)) =
      [(1, 0x1000, 2, false), (2, 0x1000, 1, false)] := by
  decide

/-- an access inside its page: hypotheses of `at_bytes_partial` -/
example :
    let w := hrun ⟨1, 12⟩ straddleEnv {} [.access 1 0x1ff0 ⟨false, 16, [], [], false⟩, .tick, .drainTr, .ansT 0, .tick]
    w.s.forwarded.map (fun l => (l.top.vaddr % 2 ^ 12 + l.top.pl.size, l.breq.paddr)) = [(4096, 0x108ff0)] := by
  decide

end C16
