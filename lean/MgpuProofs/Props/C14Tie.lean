import MgpuModel.C14
import MgpuModel.Gen.C14Sched
/-! # C14 — the hand-written scheduler model against what `translate/c14.go` reads from the Go source

`MgpuModel/Gen/C14Sched.lean` is regenerated from `amd/timing/cu/scheduler.go`, `computeunit.go`,
`amd/timing/wavefront/wavefront.go` on every run: the `WfState` constants in `iota` order, the
barrier-buffer capacity, the port capacities, the opcode table of `EvaluateInternalInst`, the
comparison operators of the wait-count / end-of-program / barrier-buffer tests and the
wavefront-state conditions of the five group predicates, of `setAllWfStateToReady` and of
`setWavesToReady`. The theorems below state — for all inputs — that the hand-written model computes
with exactly these constants, operators and conditions; a change of any of them in the Go code
changes the generated definition and breaks the corresponding theorem. -/
namespace C14
open Gen.C14Sched

/-- the numeric value of the Go constant -/
def code : WfState → Nat
  | .dispatching => 0
  | .ready => 1
  | .running => 2
  | .completed => 3
  | .atBarrier => 4
  | .sampled => 5

def goName : WfState → String
  | .dispatching => "WfDispatching"
  | .ready => "WfReady"
  | .running => "WfRunning"
  | .completed => "WfCompleted"
  | .atBarrier => "WfAtBarrier"
  | .sampled => "WfSampledCompleted"

def allStates : List WfState := [.dispatching, .ready, .running, .completed, .atBarrier, .sampled]

/-- **The six wavefront states of the model are the Go constants, in `iota` order** (the state
    letters `DRNCBS` of the case lines are indexed by that value on the Go side). -/
theorem state_codes_from_source :
    allStates.map goName = wfStateNames ∧ (∀ st, wfStateNames[code st]? = some (goName st)) ∧
    (∀ st, "DRNCBS".toList[code st]? = some (charOfState st)) ∧
    (∀ ch st, stateOfChar ch = some st → charOfState st = ch) := by
  refine ⟨by decide, ?_, ?_, ?_⟩
  · intro st; cases st <;> decide
  · intro st; cases st <;> decide
  · intro ch st h
    unfold stateOfChar at h
    split at h <;> first | (cases h; rfl) | cases h

example : code .atBarrier = 4 ∧ goName .sampled = "WfSampledCompleted" := by decide

def portCap (name : String) : Option (Nat × Nat) := (ports.find? (fun p => p.1 == name)).map (·.2)

/-- **Capacities.** The barrier buffer of the model has `NewScheduler`'s size, the ToACE outgoing
    buffer `NewComputeUnit`'s; the flush model's default capacities are those of the four other
    ports. -/
theorem capacities_from_source :
    Cfg.cur.bufSize = barrierBufferSize ∧
    (portCap "ToACE").map (·.2) = some Cfg.cur.aceCap ∧
    (portCap "ToInstMem").map (·.2) = some ({} : Flush.Cfg).capF ∧
    (portCap "ToScalarMem").map (·.2) = some ({} : Flush.Cfg).capS ∧
    (portCap "ToVectorMem").map (·.2) = some ({} : Flush.Cfg).capV ∧
    (portCap "ToCP").map (·.2) = some ({} : Flush.Cfg).capCP ∧
    (portCap "ToCP").map (·.1) = some ({} : Flush.Cfg).capCP := by decide

example : Cfg.cur.bufSize = 16 ∧ Cfg.cur.aceCap = 4 := by decide

/-- the function a case of the switch calls, by its Go name -/
def callByName (c : Cfg) (s : State) (w : Wf) : String → Option Ev
  | "evalSEndPgm" => some (evalSEndPgm c s w)
  | "evalSBarrier" => some (evalSBarrier c s w)
  | "evalSWaitCnt" => some (evalSWaitCnt s w)
  | "UpdatePCAndSetReady" => some ⟨{ s with wfs := updWf s.wfs w.id setReady }, true, true, false⟩
  | _ => none

/-- the generated opcode table, interpreted: the first case whose opcode is the instruction's, else
    the `default:` case -/
def tableEval (c : Cfg) (s : State) (w : Wf) (tbl : List (Option Nat × String)) : Option Ev :=
  match tbl.find? (fun e => e.1 == some w.op) with
  | some e => callByName c s w e.2
  | none => match tbl.find? (fun e => e.1 == none) with
    | some e => callByName c s w e.2
    | none => none

/-- **The opcode switch of `EvaluateInternalInst`.** For every configuration, state and wavefront,
    `evalInst` is the interpretation of the opcode table read from the Go source. -/
theorem eval_switch_from_source (c : Cfg) (s : State) (w : Wf) :
    tableEval c s w evalSwitch = some (evalInst c s w) := by
  unfold tableEval evalInst evalSwitch
  by_cases h1 : w.op = 1
  · simp [h1, callByName]
  · have e1 : (some 1 == some w.op) = false := by simpa using fun h => h1 h.symm
    by_cases h10 : w.op = 10
    · simp [h10, callByName]
    · have e10 : (some 10 == some w.op) = false := by simpa using fun h => h10 h.symm
      by_cases h12 : w.op = 12
      · simp [h12, callByName]
      · have e12 : (some 12 == some w.op) = false := by simpa using fun h => h12 h.symm
        have en : ((none : Option Nat) == some w.op) = false := by simp
        simp only [List.find?_cons, e1, e10, e12, en, List.find?_nil, if_neg h1, if_neg h10, if_neg h12]
        rfl

example : (evalSwitch.map (·.1)) = [some 1, some 10, some 12, none] := by decide

/-- a comparison operator of the Go source on two Go `int`s -/
def cmpOp : String → Int → Int → Bool
  | ">", a, b => decide (a > b)
  | ">=", a, b => decide (a ≥ b)
  | "<", a, b => decide (a < b)
  | "<=", a, b => decide (a ≤ b)
  | "==", a, b => decide (a = b)
  | "!=", a, b => decide (a ≠ b)
  | _, _, _ => false

/-- **`evalSWaitCnt` with the operators of the source.** -/
theorem waitcnt_from_source (s : State) (w : Wf) :
    evalSWaitCnt s w =
      if cmpOp waitLgkm w.osc w.lk || cmpOp waitVm w.ovc w.vm then ⟨s, false, false, false⟩
      else ⟨{ s with wfs := updWf s.wfs w.id setReady }, true, true, false⟩ := by
  unfold evalSWaitCnt waitLgkm waitVm cmpOp
  by_cases h : w.osc > w.lk ∨ w.ovc > w.vm
  · rw [if_pos h, if_pos (by simpa using h)]
  · rw [if_neg h, if_neg (by simpa using h)]

/-- **`evalSEndPgm` waits with the operators of the source**; the barrier buffer has room by the
    operator of the source. -/
theorem endpgm_barrier_ops_from_source (c : Cfg) (s : State) (w : Wf) :
    ((cmpOp endVm w.ovc 0 || cmpOp endLgkm w.osc 0) = true → evalSEndPgm c s w = ⟨s, false, false, false⟩) ∧
    (allAtBarrier c w.wg (updWf s.wfs w.id park) = false →
      (evalSBarrier c s w).completed = cmpOp bufRoom s.buf.length c.bufSize) := by
  constructor
  · intro h
    have h' : w.ovc > 0 ∨ w.osc > 0 := by simpa [cmpOp, endVm, endLgkm] using h
    unfold evalSEndPgm
    rw [if_pos h']
  · intro h
    unfold evalSBarrier
    simp only [h, Bool.false_eq_true, if_false, bufRoom, cmpOp]
    by_cases hb : s.buf.length < c.bufSize
    · simp [hb]
    · simp [hb]

/-- **The group predicates test exactly the states the Go functions test** (`…0`, `…1` are the
    generated conditions on the state code, `…Acts` what the guarded statement does). -/
theorem group_predicates_from_source (c : Cfg) (hA : c.fixA = true) (g i : Nat) (wfs : List Wf) :
    allAtBarrierActs = ["continue", "return false"] ∧
    allAtBarrier c g wfs =
      wfs.all (fun w => w.wg != g || allAtBarrier0 (code w.state) || !allAtBarrier1 (code w.state)) ∧
    othersCompletedActs = ["return false"] ∧
    othersCompleted g i wfs = wfs.all (fun w => w.id == i || w.wg != g || !othersCompleted0 (code w.state)) ∧
    othersAtBarrierActs = ["return false"] ∧
    othersAtBarrier g i wfs = wfs.all (fun w => w.id == i || w.wg != g || !othersAtBarrier0 (code w.state)) ∧
    someExecutingActs = ["return true"] ∧
    someExecuting g wfs = wfs.any (fun w => w.wg == g && someExecuting0 (code w.state)) := by
  refine ⟨by decide, ?_, by decide, ?_, by decide, ?_, by decide, ?_⟩
  · unfold allAtBarrier
    congr 1; funext w
    rw [hA]
    generalize (w.wg != g) = b
    cases w.state <;> cases b <;> decide
  · unfold othersCompleted
    congr 1; funext w
    generalize (w.id == i) = a
    generalize (w.wg != g) = b
    cases w.state <;> cases a <;> cases b <;> decide
  · unfold othersAtBarrier
    congr 1; funext w
    generalize (w.id == i) = a
    generalize (w.wg != g) = b
    cases w.state <;> cases a <;> cases b <;> decide
  · unfold someExecuting
    congr 1; funext w
    generalize (w.wg == g) = b
    cases w.state <;> cases b <;> decide

/-- **Who is released, who is reset, which entry is skipped**: `setAllWfStateToReady` skips the
    states the source skips, `setWavesToReady` resets the states the source resets, and the entry
    test of `EvaluateInternalInst` is the source's. -/
theorem release_flush_skip_from_source (g : Nat) (w : Wf) :
    releaseActs = ["continue"] ∧
    release g w = (if w.wg = g ∧ release0 (code w.state) = false then { setReady w with bar := w.bar + 1 } else w) ∧
    flushWavesActs = ["wf.State = wavefront.WfReady"] ∧
    (flushWf w).state = (if w.inPool && flushWaves0 (code w.state) then .ready else w.state) ∧
    evalSkipActs = ["continue"] ∧ ((w.state == .ready) = evalSkip0 (code w.state)) := by
  refine ⟨by decide, ?_, by decide, ?_, by decide, ?_⟩
  · unfold release
    cases hs : w.state <;> simp [code, release0]
  · unfold flushWf
    cases hs : w.state <;> cases hp : w.inPool <;> simp [code, flushWaves0, hs]
  · cases w.state <;> simp [code, evalSkip0]

/-- **The scheduler side of `flushPipeline`.** `Scheduler.Flush` resets exactly the two lists the
    model empties, and `flushPipeline` calls `setWavesToReady` before it (the order `schedFlush`
    transcribes). -/
theorem sched_flush_from_source (s : State) :
    schedFlushResets = ["barrierBuffer", "internalExecuting"] ∧
    flushPipelineCalls = ["cu.populateShadowBuffers", "cu.setWavesToReady", "cu.Scheduler.Flush",
      "cu.flushInternalComponents", "cu.Scheduler.Pause"] ∧
    (schedFlush s).buf = [] ∧ (schedFlush s).exec = [] ∧ (schedFlush s).wfs = s.wfs.map flushWf :=
  ⟨by decide, by decide, rfl, rfl, rfl⟩

/-- **The states the mapping / completion paths assign.** `handleMapWGReq` assigns
    `WfSampledCompleted` (sampled path) and `WfReady` (dispatched path) — the two kinds of wavefront
    of `XInit` —, `handleWfCompletionEvent` and the three ways of ending in `evalSEndPgm` assign
    `WfCompleted`, `evalSBarrier` assigns `WfAtBarrier`. -/
theorem assigned_states_from_source :
    mapWGStates = [goName .sampled, goName .ready] ∧ wfCompletionStates = [goName .completed] ∧
    endPgmStates = [goName .completed, goName .completed, goName .completed] ∧
    barrierStates = [goName .atBarrier] ∧ vectorResponsesPerCycle = 16 := by decide

/-- **The vector memory unit's configurations.** `C14.Vmu.r9nano` / `mi300a` of
    `Props/C14Vmu.lean` are the `cu.MakeBuilder` defaults and the constants of the mi300a platform
    builder (lanes, stages, post-pipeline buffer; port capacity of `NewComputeUnit`; 16 requests per
    cycle in `sendRequest`; `cyclePerStage = 1`; `Run` = send, tick, insert). -/
theorem vmu_configurations_from_source :
    vmuDefault = (10, 1, 8) ∧ vmuMI300A = (4, 8, 64, 3) ∧ cyclePerStage = 1 ∧ vmuBurst = 16 ∧
    (portCap "ToVectorMem").map (·.2) = some 64 ∧
    vmuRunOrder = ["u.sendRequest", "u.transactionPipeline.Tick", "u.instToTransaction", "u.instructionPipeline.Tick"] ∧
    (∀ c s, Vmu.cycle c s = Vmu.insert c
      { Vmu.send c c.burst s with lanes := (Vmu.tick c.buf (Vmu.send c c.burst s).lanes (Vmu.send c c.burst s).post).1
                                  post := (Vmu.tick c.buf (Vmu.send c c.burst s).lanes (Vmu.send c c.burst s).post).2 }) :=
  ⟨by decide, by decide, by decide, by decide, by decide, by decide, fun _ _ => rfl⟩

/-- **Who may issue.** The arbiter model's constants are the source's: `ExeUnitSpecial` is unit
    type 6 (the last of the 7 entries of the type mask), `WfReady` is state 1, the decode units
    accept 4 wavefronts, the branch unit one. -/
theorem arbiter_constants_from_source :
    exeUnitNames[6]? = some "ExeUnitSpecial" ∧ exeUnitNames.length = typeMaskLen ∧
    wfStateNames[1]? = some "WfReady" ∧
    (∀ u, Arb.unitCap u = if u = 3 then branchUnitCap else decodeUnitCap) ∧
    exeUnitNames[3]? = some "ExeUnitBranch" ∧
    (∀ w : Arb.AWf, Arb.eligible w = (w.state == code .ready && w.hasInst && !w.hazard)) := by
  refine ⟨by decide, by decide, by decide, ?_, by decide, fun _ => rfl⟩
  intro u
  unfold Arb.unitCap
  split <;> rfl

/-- the audited sources of the hand-transcribed functions -/
def auditedFuncs : List (String × String × String) := [
  ("amd/timing/cu/scheduler.go", "SchedulerImpl.Run", "5828805e59205f9d"),
  ("amd/timing/cu/scheduler.go", "SchedulerImpl.issueToInternal", "69b64e525541e005"),
  ("amd/timing/cu/scheduler.go", "SchedulerImpl.EvaluateInternalInst", "8dce7b9f48acdf19"),
  ("amd/timing/cu/scheduler.go", "SchedulerImpl.evalSEndPgm", "370f309b9295bf9c"),
  ("amd/timing/cu/scheduler.go", "SchedulerImpl.areAllOtherWfsInWGCompleted", "0c2533e1e89ad914"),
  ("amd/timing/cu/scheduler.go", "SchedulerImpl.atLeaseOneWfIsExecuting", "ddcdf02eb6700d53"),
  ("amd/timing/cu/scheduler.go", "SchedulerImpl.sendWGCompletionMessage", "9928a70073cf5026"),
  ("amd/timing/cu/scheduler.go", "SchedulerImpl.areAllOtherWfsInWGAtBarrier", "436babc3080ebeb8"),
  ("amd/timing/cu/scheduler.go", "SchedulerImpl.evalSBarrier", "71ab4551d6ce0bf7"),
  ("amd/timing/cu/scheduler.go", "SchedulerImpl.areAllWfInWGAtBarrier", "fce25bb0ee6a9ac8"),
  ("amd/timing/cu/scheduler.go", "SchedulerImpl.passBarrier", "f6dbe57e31ada37e"),
  ("amd/timing/cu/scheduler.go", "SchedulerImpl.setAllWfStateToReady", "7a163924cf79986e"),
  ("amd/timing/cu/scheduler.go", "SchedulerImpl.removeAllWfFromBarrierBuffer", "59544bca208a6d81"),
  ("amd/timing/cu/scheduler.go", "SchedulerImpl.removeAllWfFromInternalExecuting", "3b06b9a7e6df65b2"),
  ("amd/timing/cu/scheduler.go", "SchedulerImpl.evalSWaitCnt", "317d167474cffce5"),
  ("amd/timing/cu/scheduler.go", "SchedulerImpl.Pause", "c1d5f0bdada7e46f"),
  ("amd/timing/cu/scheduler.go", "SchedulerImpl.Resume", "572c7bc1e1079d3e"),
  ("amd/timing/cu/scheduler.go", "SchedulerImpl.Flush", "e34615032a0ae208"),
  ("amd/timing/cu/computeunit.go", "ComputeUnit.Tick", "06727abbfa9f4345"),
  ("amd/timing/cu/computeunit.go", "ComputeUnit.runPipeline", "a8859285cbe2f68a"),
  ("amd/timing/cu/computeunit.go", "ComputeUnit.doFlush", "490ce9c3e5459f97"),
  ("amd/timing/cu/computeunit.go", "ComputeUnit.processInput", "50e4a9d7dbfcc221"),
  ("amd/timing/cu/computeunit.go", "ComputeUnit.processInputFromCP", "7cdd211532001fcf"),
  ("amd/timing/cu/computeunit.go", "ComputeUnit.handlePipelineFlushReq", "8cbde6197ae8c6ba"),
  ("amd/timing/cu/computeunit.go", "ComputeUnit.handlePipelineResume", "daf31ff932016f9a"),
  ("amd/timing/cu/computeunit.go", "ComputeUnit.sendToCP", "e1c747b446bb061c"),
  ("amd/timing/cu/computeunit.go", "ComputeUnit.flushPipeline", "d4951aeef62579fc"),
  ("amd/timing/cu/computeunit.go", "ComputeUnit.handleWfCompletionEvent", "6f7b1082db69c39c"),
  ("amd/timing/cu/computeunit.go", "ComputeUnit.handleMapWGReq", "a9c42c0cf7e2f58e"),
  ("amd/timing/cu/computeunit.go", "ComputeUnit.clearWGResource", "ea14272885ad9288"),
  ("amd/timing/cu/computeunit.go", "ComputeUnit.handleFetchReturn", "7732d8dd61131722"),
  ("amd/timing/cu/computeunit.go", "ComputeUnit.handleScalarDataLoadReturn", "31e1fa387f112e69"),
  ("amd/timing/cu/computeunit.go", "ComputeUnit.isLastRead", "6693d09d147887ca"),
  ("amd/timing/cu/computeunit.go", "ComputeUnit.handleVectorDataLoadReturn", "f078ad1db4d8814b"),
  ("amd/timing/cu/computeunit.go", "ComputeUnit.handleVectorDataStoreRsp", "075ec747ca9fcc14"),
  ("amd/timing/cu/computeunit.go", "ComputeUnit.UpdatePCAndSetReady", "90bf2bff5f096440"),
  ("amd/timing/cu/computeunit.go", "ComputeUnit.SetReady", "8269f8beeccc09de"),
  ("amd/timing/cu/computeunit.go", "ComputeUnit.reInsertShadowBufferReqsToOriginalBuffers", "e68f105f127162c0"),
  ("amd/timing/cu/computeunit.go", "ComputeUnit.checkShadowBuffers", "dec3b7f372f59deb"),
  ("amd/timing/cu/computeunit.go", "ComputeUnit.sendOutShadowBufferReqs", "0f24e5b430a58865"),
  ("amd/timing/cu/computeunit.go", "ComputeUnit.sendScalarShadowBufferAccesses", "6226c10da5a22e13"),
  ("amd/timing/cu/computeunit.go", "ComputeUnit.sendVectorShadowBufferAccesses", "d34cd4948071e9a0"),
  ("amd/timing/cu/computeunit.go", "ComputeUnit.sendInstFetchShadowBufferAccesses", "1107a4bdde657f21"),
  ("amd/timing/cu/computeunit.go", "ComputeUnit.populateShadowBuffers", "fa78f27b34b4b3ec"),
  ("amd/timing/cu/computeunit.go", "ComputeUnit.setWavesToReady", "bcddb11cd1a6b65a"),
  ("amd/timing/cu/vectormemoryunit.go", "VectorMemoryUnit.Run", "c68373828b92cc9a"),
  ("amd/timing/cu/vectormemoryunit.go", "VectorMemoryUnit.instToTransaction", "f4606185f9b0f95b"),
  ("amd/timing/cu/vectormemoryunit.go", "VectorMemoryUnit.insertTransactionToPipeline", "77f439160dac4605"),
  ("amd/timing/cu/vectormemoryunit.go", "VectorMemoryUnit.computeCoalescingPenalty", "6d6fe2b42397dad9"),
  ("amd/timing/cu/vectormemoryunit.go", "VectorMemoryUnit.executeFlatLoad", "2efb11ce5908e120"),
  ("amd/timing/cu/vectormemoryunit.go", "VectorMemoryUnit.executeFlatStore", "f5c6a23b598e601d"),
  ("amd/timing/cu/vectormemoryunit.go", "VectorMemoryUnit.sendRequest", "5bacd1145532cf95"),
  ("amd/timing/cu/vectormemoryunit.go", "VectorMemoryUnit.Flush", "5c6f0ef19b88add2"),
  ("amd/timing/cu/vectormemoryunit.go", "VectorMemoryUnit.canAcceptTransaction", "768ee07adcb42269"),
  ("amd/timing/cu/vectormemoryunit.go", "VectorMemoryUnit.setAsideTransaction", "0f27e4879b03e92e"),
  ("amd/timing/cu/vectormemoryunit.go", "orderedTransaction.is", "875e4123de01c83e"),
  ("amd/timing/cu/issuearbiter.go", "IssueArbiter.Arbitrate", "ced3994b7fa48de1"),
  ("amd/timing/cu/issuearbiter.go", "IssueArbiter.isAllWfPoolsEmpty", "3e4d850c398947c8"),
  ("amd/timing/cu/scheduler.go", "SchedulerImpl.DoIssue", "31e1408965ab1e10"),
  ("amd/timing/cu/scheduler.go", "SchedulerImpl.getUnitToIssueTo", "f3dc11ba61875256"),
  ("amd/timing/cu/decodeunit.go", "DecodeUnit.CanAcceptWave", "dc432ce4bc04d880"),
  ("amd/timing/cu/decodeunit.go", "DecodeUnit.AcceptWave", "25177d5854296f2c"),
  ("amd/timing/cu/branchunit.go", "BranchUnit.CanAcceptWave", "7de6ef24cb08cf69"),
  ("amd/timing/cu/branchunit.go", "BranchUnit.AcceptWave", "4f25ece48bf570b2"),
  ("akita/pipelining/pipeline.go", "pipelineImpl.Clear", "d311a0e343aa8e2a"),
  ("akita/pipelining/pipeline.go", "pipelineImpl.Tick", "e5a6b9e4c8b58d73"),
  ("akita/pipelining/pipeline.go", "pipelineImpl.tryMoveToPostPipelineBuffer", "c9672880c4bfed18"),
  ("akita/pipelining/pipeline.go", "pipelineImpl.tryMoveToNextStage", "d09127340bbde180"),
  ("akita/pipelining/pipeline.go", "pipelineImpl.CanAccept", "2c250fbe8ee7c6da"),
  ("akita/pipelining/pipeline.go", "pipelineImpl.Accept", "bc1c2fe5931f1d05"),
  ("amd/emu/computeunit.go", "ComputeUnit.runWG", "a284127e1bf586b9"),
  ("amd/emu/computeunit.go", "ComputeUnit.isAllWfCompleted", "c9519dafe303ca18"),
  ("amd/emu/computeunit.go", "ComputeUnit.resolveBarrier", "b8d70b499d09d44f")]

/-- **The hand-transcribed functions are unchanged**: every function that `C14` / `C14.Flush`
    transcribe by hand has the source it had when the model was written; an edit of any of them
    breaks this obligation and names the function (`changedFuncs`). -/
theorem modelled_functions_unchanged : modelledFuncs = auditedFuncs := by decide

/-- the functions whose source differs from the audited one (empty on the audited tree) -/
def changedFuncs : List (String × String) :=
  (modelledFuncs.filter fun f => !auditedFuncs.contains f).map fun f => (f.1, f.2.1)

example : changedFuncs = [] := by decide

end C14
