import MgpuProofs.C15Round
/-! # C15 ∘ C14 — liveness of the flush / restart round of the composition (first component of the
measure across a round)

Between the compute unit's flush acknowledgement and its restart the command processor runs its round
towards the reorder buffer: `DiscardTransactions` → acknowledgement → `Restart` → acknowledgement →
restart request to the compute unit. `roundMu` (`MgpuProofs/C15Round.lean`) counts the steps of that
round still to come, read off the composed state (`robPh`, the ROB's Control port). These theorems
show it is a decreasing measure of the composition under the protocol: nothing any component or the
environment does legally can push the round back, the one event that is due pays exactly one unit,
such an event always exists (no deadlock in the handshake, whatever else is in the buffers), and hence
the round is closed after at most `roundMu ≤ 6` due events, however they are interleaved with ticks of
the compute unit, traffic on the connection and the memory's answers. After the round the compute unit
re-sends its shadow list (`C14.Flush.drain_completes`, `resend_complete`) and the restarted, empty
ROB serves the re-sent requests (`eventually_answered_from_arrival`, `served_in_order_after_restart`). -/
namespace C15.Cu

/-- **No legal event pushes the round back.** For every state of the composition and every event
    the protocol allows (ticks of either component, traffic on the connection, the memory, the command
    processor's messages): the number of steps of the round still to come does not grow — except that
    at phase 0 (no round open, measure 0) the command processor may open a new round. -/
theorem round_measure_never_increases (c : Cfg) (σ : Comp) (e : CEv) (hl : legalB c σ e = true) :
    roundMu (cstep c σ e) ≤ roundMu σ ∨ (σ.robPh = 0 ∧ roundMu σ = 0) := by
  rcases robPh_step c σ e with h | ⟨h0, _⟩ | ⟨h0, h1⟩ | ⟨h0, h1⟩ | ⟨h0, h1⟩ | ⟨h0, h1, _, _⟩
  · by_cases hc : ∃ m, e = .rob (.ctl m)
    · obtain ⟨m, rfl⟩ := hc
      simp only [legalB, Bool.or_eq_true, Bool.and_eq_true, decide_eq_true_eq] at hl
      rcases hl with hl | hl
      · exact Or.inr ⟨hl.2, by simp [roundMu, hl.2]⟩
      · left
        have h2 : σ.robPh = 2 := hl.2
        simp only [roundMu, h, h2]
        exact Nat.le_refl _
    · left
      refine roundMu_le_of h (cstep_ctlIn_le c σ e ?_)
      intro m hm; exact hc ⟨m, hm⟩
  · exact Or.inr ⟨h0, by simp [roundMu, h0]⟩
  · left; simp only [roundMu, h0, h1]; split <;> omega
  · left; simp only [roundMu, h0, h1]; split <;> omega
  · left; simp only [roundMu, h0, h1]; split <;> omega
  · left; simp only [roundMu, h0, h1]; omega

example : (List.range 20).map (fun k => roundMu (crun demoCfg (roundEvs.take k))) =
    [0, 0, 0, 0, 0, 0, 0, 0, 0, 6, 5, 4, 3, 2, 1, 0, 0, 0, 0, 0] := by decide

/-- **The event that is due pays exactly one unit** (and is legal): the ROB's tick while a
    `DiscardTransactions` / `Restart` message waits in its Control port (it is processed at once: the
    acknowledgement port is empty then), the command processor taking the acknowledgement, its
    `Restart` message after the first acknowledgement, its restart request to the compute unit after
    the second. Only hypothesis on the configuration: the ROB's Control port can hold one
    acknowledgement. -/
theorem round_helpful_decreases (c : Cfg) (hcap : 0 < c.rob.ctlOutCap) (σ : Comp) (e : CEv) (hp : Proto σ)
    (hh : helpfulR c σ e = true) :
    legalB c σ e = true ∧ roundMu (cstep c σ e) + 1 = roundMu σ := by
  unfold Proto ProtoV at hp
  cases e with
  | xfer => simp [helpfulR] at hh
  | back => simp [helpfulR] at hh
  | cu o =>
    cases o <;> simp only [helpfulR, Bool.false_eq_true] at hh
    simp only [Bool.and_eq_true, decide_eq_true_eq, Bool.not_eq_true'] at hh
    obtain ⟨⟨h4, _⟩, hroom⟩ := hh
    have hcp : σ.cu.cp = .acked := by
      rcases hp with hp | ⟨hcp, _⟩
      · omega
      · exact hcp
    refine ⟨by simp [legalB, isLink, hcp, h4], ?_⟩
    simp [cstep, isLink, robPhStep, roundMu, h4, hroom]
  | rob e' =>
    cases e' with
    | arrive q => simp [helpfulR] at hh
    | takeRsp => simp [helpfulR] at hh
    | memTake => simp [helpfulR] at hh
    | memAnswer j p => simp [helpfulR] at hh
    | tick =>
      simp only [helpfulR, Bool.and_eq_true, decide_eq_true_eq, Bool.not_eq_true', Option.isNone_iff_eq_none] at hh
      obtain ⟨⟨hph, hne⟩, hf⟩ := hh
      refine ⟨rfl, ?_⟩
      have key : ∀ m, σ.sys.rob.ctlIn = [m] → σ.sys.rob.ctlOut = 0 → (m.discard = true ∨ m.restart = true) →
          (cstep c σ (.rob .tick)).sys.rob.ctlIn = [] := by
        intro m hin hout hm
        exact tick_consumes c.rob σ.sys.rob m [] hf hin (by omega) hm
      have hsame : (cstep c σ (.rob .tick)).robPh = σ.robPh := rfl
      rcases hp with hp | ⟨_, hp | hp | hp | hp | hp | hp⟩ <;> obtain ⟨h1, h2, h3, _⟩ := hp
      all_goals first | omega | skip
      all_goals first | (rw [h2] at hne; simp at hne; done) | skip
      · have := key _ h2 h3 (Or.inl rfl)
        simp [roundMu, hsame, h1, this, h2]
      · have := key _ h2 h3 (Or.inr rfl)
        simp [roundMu, hsame, h1, this, h2]
    | takeAck =>
      simp only [helpfulR, Bool.and_eq_true, decide_eq_true_eq] at hh
      obtain ⟨hph, hne⟩ := hh
      refine ⟨rfl, ?_⟩
      rcases hp with hp | ⟨_, hp | hp | hp | hp | hp | hp⟩ <;> obtain ⟨h1, h2, h3, _⟩ := hp
      all_goals first | omega | skip
      · have : (cstep c σ (.rob .takeAck)).robPh = 2 := by simp [cstep, robPhStep, h1, hne]
        simp [roundMu, this, h1, h2]
      · have : (cstep c σ (.rob .takeAck)).robPh = 4 := by simp [cstep, robPhStep, h1, hne]
        simp [roundMu, this, h1, h2]
    | ctl m =>
      simp only [helpfulR, Bool.and_eq_true, decide_eq_true_eq, Bool.not_eq_true'] at hh
      obtain ⟨⟨⟨h2, hd⟩, hr⟩, hroom⟩ := hh
      refine ⟨by simp [legalB, hd, hr, h2], ?_⟩
      have hph : (cstep c σ (.rob (.ctl m))).robPh = 3 := by simp [cstep, robPhStep, hroom, hd, hr, h2]
      have hin : (cstep c σ (.rob (.ctl m))).sys.rob.ctlIn = σ.sys.rob.ctlIn ++ [m] := by
        simp [cstep, sysStep, C15.step, hroom]
      simp [roundMu, hph, hin, h2]

example : helpfulCountR demoCfg (crun demoCfg (roundEvs.take 8)) ((roundEvs.drop 8).take 7) = 6 ∧
    helpfulR demoCfg (crun demoCfg (roundEvs.take 9)) (.rob .tick) = true := by decide

/-- **The round is closed after at most `roundMu` (≤ 6) due events — bounded liveness of the
    handshake over every legal schedule of the composition.** From any reachable state, along any
    legal continuation (compute-unit ticks, connection traffic, memory answers, anything legal in
    between): either the round has been closed at some point (`robPh = 0`: the compute unit's
    restart request is on its way, the ROB is empty, not flushing, its Control port is empty —
    `protocol_round`), or the measure has dropped by at least the number of due events that happened.
    In particular the round is closed at the latest when `roundMu` due events have happened. -/
theorem round_completes_within (c : Cfg) (hcap : 0 < c.rob.ctlOutCap) (evs0 evs : List CEv)
    (hl : legalRunB c {} (evs0 ++ evs) = true) :
    let σ := crun c evs0
    ((∃ k, k ≤ evs.length ∧ (crun c (evs0 ++ evs.take k)).robPh = 0) ∨
      roundMu (crun c (evs0 ++ evs)) + helpfulCountR c σ evs ≤ roundMu σ) ∧
    (roundMu σ ≤ helpfulCountR c σ evs → ∃ k, k ≤ evs.length ∧ (crun c (evs0 ++ evs.take k)).robPh = 0) := by
  intro σ
  obtain ⟨hl0, hl1⟩ := legalRunB_append c evs0 evs {} hl
  have hp : Proto σ := comp_proto c evs0 hl0
  have hrun : ∀ l : List CEv, crun c (evs0 ++ l) = l.foldl (cstep c) σ := by
    intro l; simp [σ, crun, List.foldl_append]
  have fold : ∀ (es : List CEv) (σ : Comp), Proto σ →
      legalRunB c σ es = true →
      (∃ k, k ≤ es.length ∧ ((es.take k).foldl (cstep c) σ).robPh = 0) ∨
      roundMu (es.foldl (cstep c) σ) + helpfulCountR c σ es ≤ roundMu σ := by
    intro es
    induction es with
    | nil => intro σ _ _; right; simp [helpfulCountR]
    | cons e es ih =>
      intro σ hp hl
      simp only [legalRunB, Bool.and_eq_true] at hl
      by_cases h0 : σ.robPh = 0
      · left; exact ⟨0, Nat.zero_le _, h0⟩
      · have hp' := cstep_Proto c σ e hl.1 hp
        rcases ih (cstep c σ e) hp' hl.2 with ⟨k, hk, hz⟩ | hle
        · left; exact ⟨k + 1, by simp; omega, by simpa using hz⟩
        · right
          simp only [List.foldl_cons, helpfulCountR]
          by_cases hh : helpfulR c σ e = true
          · have := (round_helpful_decreases c hcap σ e hp hh).2
            simp only [hh, if_true]; omega
          · rcases round_measure_never_increases c σ e hl.1 with hle' | ⟨hz, _⟩
            · simp only [hh, Bool.false_eq_true, if_false]; omega
            · exact absurd hz h0
  have key := fold evs σ hp hl1
  constructor
  · rcases key with ⟨k, hk, hz⟩ | hle
    · left; exact ⟨k, hk, by rw [hrun]; exact hz⟩
    · right; rw [hrun]; exact hle
  · intro hn
    rcases key with ⟨k, hk, hz⟩ | hle
    · exact ⟨k, hk, by rw [hrun]; exact hz⟩
    · refine ⟨evs.length, Nat.le_refl _, ?_⟩
      rw [List.take_length, hrun]
      exact roundMu_zero (by omega)

example : roundMu (crun demoCfg (roundEvs.take 9)) = 6 ∧
    helpfulCountR demoCfg (crun demoCfg (roundEvs.take 9)) (roundEvs.drop 9) = 6 ∧
    (crun demoCfg roundEvs).robPh = 0 := by decide

/-- **No deadlock in the handshake**: while a round is open (and the ROB is not faulted, its
    Control port can take one message) a due event exists — the ROB's own tick, or a move of the
    command processor — unless the round is finished on the ROB's side and only the compute unit's
    command-processor port refuses the restart request. -/
theorem round_no_deadlock (c : Cfg) (hin : 0 < c.rob.ctlInCap) (σ : Comp) (hp : Proto σ) (h0 : σ.robPh ≠ 0)
    (hf : σ.sys.rob.fault = none) :
    (∃ e, helpfulR c σ e = true) ∨
    (σ.robPh = 4 ∧ (σ.cu.fault = true ∨ ¬ σ.cu.cpIn.length < c.cu.capCP)) := by
  unfold Proto ProtoV at hp
  rcases hp with hp | ⟨_, hp | hp | hp | hp | hp | hp⟩ <;> obtain ⟨h1, h2, h3, h4⟩ := hp
  · exact absurd h1 h0
  · left; exact ⟨.rob .tick, by simp [helpfulR, h1, h2, hf]⟩
  · left; exact ⟨.rob .takeAck, by simp [helpfulR, h1, h3]⟩
  · left; exact ⟨.rob (.ctl ⟨false, true⟩), by simp [helpfulR, h1, h2, hin]⟩
  · left; exact ⟨.rob .tick, by simp [helpfulR, h1, h2, hf]⟩
  · left; exact ⟨.rob .takeAck, by simp [helpfulR, h1, h3]⟩
  · by_cases hb : σ.cu.fault = false ∧ σ.cu.cpIn.length < c.cu.capCP
    · left; exact ⟨.cu .cpRestart, by simp [helpfulR, h1, hb.1, hb.2]⟩
    · right
      refine ⟨h1, ?_⟩
      by_cases hcf : σ.cu.fault = true
      · exact Or.inl hcf
      · right; intro hlt; exact hb ⟨by simpa using hcf, hlt⟩

example : Proto (crun demoCfg (roundEvs.take 11)) ∧ (crun demoCfg (roundEvs.take 11)).robPh = 2 ∧
    helpfulR demoCfg (crun demoCfg (roundEvs.take 11)) (.rob (.ctl ⟨false, true⟩)) = true :=
  ⟨comp_proto _ _ (by decide), by decide, by decide⟩

end C15.Cu
