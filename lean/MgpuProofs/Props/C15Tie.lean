import MgpuModel.C15
import MgpuModel.Gen.C15Rob
/-! # C15 — the hand-written model against the values the translator reads from the Go source

`translate/c15.go` regenerates `MgpuModel/Gen/C15Rob.lean` from `amd/timing/rob/{builder,rob}.go`,
the shader-array builder, the two GPU builders and the command processor's control middleware on
every `./check C15`. The theorems below are proof obligations over the generated definitions: a
changed default, port capacity, stage order, copied field, reset statement or protocol guard — or
any other edit of `rob.go` — makes one of them fail to compile (verdict: broken tie), independently
of the sampled correspondence. -/
namespace C15
open Gen.C15Rob

/-- the smallest configuration (all capacities 1) -/
def tinyCfg : Cfg :=
  { cap := 1, width := 1, topInCap := 1, topOutCap := 1, botInCap := 1, botOutCap := 1, ctlInCap := 1,
    ctlOutCap := 1, bottomUnit := true }

/-- **Builder defaults and port capacities.** The configuration the model uses for `pb=def` /
    `cb=def` is `createPorts`' (Top and Bottom: `2*numReqPerCycle` each way, Control 1/1), the
    builder's defaults are 4 requests per cycle and 128 entries, the shipped shader array builds
    512/32 (L1V, L1S) and 128/4 (L1I) ROBs whose bottom units are the address translators (L1V,
    L1S) and the L1I cache, and every ROB control port is registered with the command processor
    as an address translator (three statements per GPU builder). -/
theorem builder_values_from_source (w : Nat) :
    defaultPorts w = (topInCap w, topOutCap w, bottomInCap w, bottomOutCap w) ∧
    defaultCtlPorts = (controlInCap, controlOutCap) ∧
    defaultNumReqPerCycle = 4 ∧ defaultBufferSize = 128 ∧
    buildCopies = ["b.bufferSize", "b.numReqPerCycle"] ∧
    shippedRobs = ["buildL1VReorderBuffers", "512", "32", "buildL1SReorderBuffer", "512", "32",
                   "buildL1IReorderBuffer", "128", "4"] ∧
    bottomUnits = ["connectVectorMem", "atTopPort.AsRemote()", "connectScalarMem", "atTopPort.AsRemote()",
                   "connectInstMem", "l1iTopPort.AsRemote()"] ∧
    r9nanoRobsUnderCP = 3 ∧ mi300aRobsUnderCP = 3 ∧
    [topPortNames, bottomPortNames, controlPortNames].map (fun l => l.drop 1) =
      [["name+\".TopPort\"", "\"Top\"", "rb.topPort"], ["name+\".BottomPort\"", "\"Bottom\"", "rb.bottomPort"],
       ["name+\".ControlPort\"", "\"Control\"", "rb.controlPort"]] := by
  refine ⟨rfl, rfl, rfl, rfl, rfl, rfl, rfl, rfl, rfl, rfl⟩

example : defaultPorts defaultNumReqPerCycle = (8, 8, 8, 8) ∧ defaultPorts 32 = (64, 64, 64, 64) := by decide

/-- **Stage order.** `Tick` = `processControlMsg`, then `dropUndeliveredMsgs` while flushing, else
    `runPipeline` = `bottomUp`, `parseBottom`, `topDown`, each `numReqPerCycle` times — the order
    the model's `tick` / `runPipeline` apply them in (definitional unfolding on the right). -/
theorem stage_order_from_source (c : Cfg) (s : St) :
    pipelineLoops = ["i=0", "i<b.numReqPerCycle", "i++", "b.bottomUp()||madeProgress",
                     "i=0", "i<b.numReqPerCycle", "i++", "b.parseBottom()||madeProgress",
                     "i=0", "i<b.numReqPerCycle", "i++", "b.topDown()||madeProgress"] ∧
    runPipeline c s =
      iterP (topDown c) c.width (iterP parseBottom c.width (iterP (bottomUp c) c.width (s, false))) ∧
    src_Tick = ["madeProgress=b.processControlMsg()||madeProgress", "ifb.isFlushing{",
                "madeProgress=b.dropUndeliveredMsgs()||madeProgress", "}else{",
                "madeProgress=b.runPipeline()||madeProgress", "}", "returnmadeProgress"] := by
  refine ⟨rfl, rfl, rfl⟩

example : (runPipeline tinyCfg {}).2 = false := by decide

/-- **Capacity test.** `topDown` refuses a request exactly when the source's `isFull`
    (`transactions.Len() >= bufferSize`) says so. -/
theorem is_full_from_source (c : Cfg) (s : St) :
    (s.txs.length ≥ c.cap) ↔ isFull s.txs.length c.cap = true := by
  simp [isFull]

example : isFull 2 2 = true ∧ isFull 1 2 = false := by decide

/-- **Copied fields.** The forwarded read is built from address, access size and PID, the
    forwarded write from address, PID, data and dirty mask, both addressed to `BottomUnit` (this is
    the field list of `dupReq` / `forwarded_fields_exact`; `CanWaitForCoalesce` and `Info` are in
    neither chain); the response is rebuilt from the lower level's data and the requester's id
    (`reqFromTop.Meta().ID`), sent to the requester's port from the Top port; the forwarded copy
    leaves from the Bottom port. -/
theorem copied_fields_from_source :
    dupReadCalls = ["WithAddress", "WithByteSize", "WithPID", "WithDst", "Build"] ∧
    dupReadArgs = ["req.Address", "req.AccessByteSize", "req.PID", "b.BottomUnit", ""] ∧
    dupWriteCalls = ["WithAddress", "WithPID", "WithData", "WithDirtyMask", "WithDst", "Build"] ∧
    dupWriteArgs = ["req.Address", "req.PID", "req.Data", "req.DirtyMask", "b.BottomUnit", ""] ∧
    dupDataCalls = ["WithData", "WithRspTo", "Build"] ∧ dupDataArgs = ["rsp.Data", "rspTo", ""] ∧
    dupDoneCalls = ["WithRspTo", "Build"] ∧ dupDoneArgs = ["rspTo", ""] ∧
    bottomUpHeader = ["b.duplicateRsp(trans.rspFromBottom,trans.reqFromTop.Meta().ID)",
                      "trans.reqFromTop.Meta().Src", "b.topPort.AsRemote()"] ∧
    topDownHeader = ["b.bottomPort.AsRemote()", "trans.reqToBottom"] := by
  refine ⟨rfl, rfl, rfl, rfl, rfl, rfl, rfl, rfl, rfl, rfl⟩

example : dupReq 7 { id := 1, write := false, addr := 64, size := 4, data := [9], mask := [true], pid := 3, cwc := true, src := 2 } =
    { id := 7, write := false, addr := 64, size := 4, data := [], mask := [], pid := 3, cwc := false } := by decide

/-- **Protocol order of the command processor** (what `C15.Cu.legalB` assumes): the discard
    message goes to the ROBs when the last compute unit has acknowledged its flush, the restart
    message when the last TLB has restarted, and the compute units are restarted when the last
    address translator / ROB has acknowledged its restart. -/
theorem protocol_order_from_source :
    cpDiscard = ["m.numCUAck==0", "WithSrc", "WithDst", "ToDiscardTransactions", "Build"] ∧
    cpRestart = ["m.numTLBAck==0", "WithSrc", "WithDst", "ToRestart", "Build"] ∧
    cpCuRestart = ["m.numAddrTranslationRestartAck==0", "WithSrc", "WithDst", "Build"] := by
  refine ⟨rfl, rfl, rfl⟩

example : Cu.legalB { rob := tinyCfg } {} (.rob (.ctl ⟨true, false⟩)) = false := by decide

/-- **Every function of `rob.go` as it was transcribed.** The statement list (whitespace removed,
    control structure flattened) of each of the 19 functions of the file; an edit anywhere in the
    file changes one of these lists and this theorem no longer compiles, which forces the model to
    be looked at again. -/
theorem rob_source_as_transcribed :
    functions = ["Tick", "dropUndeliveredMsgs", "processControlMsg", "discardTransactions", "restart",
      "runPipeline", "topDown", "parseBottom", "bottomUp", "isFull", "createTransaction", "addTransaction",
      "deleteTransaction", "duplicateReq", "duplicateReadReq", "duplicateWriteReq", "duplicateRsp",
      "duplicateDataReadyRsp", "duplicateWriteDoneRsp"] ∧
    src_Tick =
      ["madeProgress=b.processControlMsg()||madeProgress", "ifb.isFlushing{", "madeProgress=b.dropUndeliveredMsgs()||madeProgress", "}else{", "madeProgress=b.runPipeline()||madeProgress", "}", "returnmadeProgress"] ∧
    src_dropUndeliveredMsgs =
      ["for;b.bottomPort.RetrieveOutgoing()!=nil;{", "madeProgress=true", "}", "for;b.topPort.RetrieveOutgoing()!=nil;{", "madeProgress=true", "}", "returnmadeProgress"] ∧
    src_processControlMsg =
      ["item:=b.controlPort.PeekIncoming()", "ifitem==nil{", "returnfalse", "}", "msg:=item.(*mem.ControlMsg)", "ifmsg.DiscardTransations{", "returnb.discardTransactions(msg)", "}elseifmsg.Restart{", "returnb.restart(msg)", "}", "panic(\"never\")"] ∧
    src_discardTransactions =
      ["rsp:=mem.ControlMsgBuilder{}.WithSrc(b.controlPort.AsRemote()).WithDst(msg.Src).ToNotifyDone().Build()", "err:=b.controlPort.Send(rsp)", "iferr!=nil{", "returnfalse", "}", "b.isFlushing=true", "b.toBottomReqIDToTransactionTable=make(map[string]*list.Element)", "b.transactions.Init()", "b.controlPort.RetrieveIncoming()", "returntrue"] ∧
    src_restart =
      ["rsp:=mem.ControlMsgBuilder{}.WithSrc(b.controlPort.AsRemote()).WithDst(msg.Src).ToNotifyDone().Build()", "err:=b.controlPort.Send(rsp)", "iferr!=nil{", "returnfalse", "}", "b.isFlushing=false", "b.toBottomReqIDToTransactionTable=make(map[string]*list.Element)", "b.transactions.Init()", "for;b.topPort.RetrieveIncoming()!=nil;{", "}", "for;b.bottomPort.RetrieveIncoming()!=nil;{", "}", "b.controlPort.RetrieveIncoming()", "returntrue"] ∧
    src_runPipeline =
      ["fori:=0;i<b.numReqPerCycle;i++{", "madeProgress=b.bottomUp()||madeProgress", "}", "fori:=0;i<b.numReqPerCycle;i++{", "madeProgress=b.parseBottom()||madeProgress", "}", "fori:=0;i<b.numReqPerCycle;i++{", "madeProgress=b.topDown()||madeProgress", "}", "returnmadeProgress"] ∧
    src_topDown =
      ["item:=b.topPort.PeekIncoming()", "ifitem==nil{", "returnfalse", "}", "ifb.isFull(){", "returnfalse", "}", "tracing.AddMilestone(tracing.MsgIDAtReceiver(item,b),tracing.MilestoneKindHardwareResource,b.Name()+\".Buffer\",b.Name(),b)", "req:=item.(mem.AccessReq)", "trans:=b.createTransaction(req)", "trans.reqToBottom.Meta().Src=b.bottomPort.AsRemote()", "err:=b.bottomPort.Send(trans.reqToBottom)", "iferr!=nil{", "returnfalse", "}", "tracing.AddMilestone(tracing.MsgIDAtReceiver(item,b),tracing.MilestoneKindNetworkBusy,b.bottomPort.Name(),b.Name(),b)", "b.addTransaction(trans)", "b.topPort.RetrieveIncoming()", "tracing.TraceReqReceive(req,b)", "tracing.TraceReqInitiate(trans.reqToBottom,b,tracing.MsgIDAtReceiver(req,b))", "returntrue"] ∧
    src_parseBottom =
      ["item:=b.bottomPort.PeekIncoming()", "ifitem==nil{", "returnfalse", "}", "rsp:=item.(mem.AccessRsp)", "rspTo:=rsp.GetRspTo()", "transElement,found:=b.toBottomReqIDToTransactionTable[rspTo]", "iffound{", "trans:=transElement.Value.(*transaction)", "trans.rspFromBottom=rsp", "tracing.TraceReqFinalize(trans.reqToBottom,b)", "}", "b.bottomPort.RetrieveIncoming()", "returntrue"] ∧
    src_bottomUp =
      ["elem:=b.transactions.Front()", "ifelem==nil{", "returnfalse", "}", "trans:=elem.Value.(*transaction)", "iftrans.rspFromBottom==nil{", "returnfalse", "}", "tracing.AddMilestone(tracing.MsgIDAtReceiver(trans.reqFromTop,b),tracing.MilestoneKindData,\"data\",b.Name(),b)", "rsp:=b.duplicateRsp(trans.rspFromBottom,trans.reqFromTop.Meta().ID)", "rsp.Meta().Dst=trans.reqFromTop.Meta().Src", "rsp.Meta().Src=b.topPort.AsRemote()", "err:=b.topPort.Send(rsp)", "iferr!=nil{", "returnfalse", "}", "tracing.AddMilestone(tracing.MsgIDAtReceiver(trans.reqFromTop,b),tracing.MilestoneKindNetworkBusy,b.topPort.Name(),b.Name(),b)", "b.deleteTransaction(elem)", "tracing.TraceReqComplete(trans.reqFromTop,b)", "returntrue"] ∧
    src_isFull =
      ["returnb.transactions.Len()>=b.bufferSize"] ∧
    src_createTransaction =
      ["return&transaction{reqFromTop:req,reqToBottom:b.duplicateReq(req)}"] ∧
    src_addTransaction =
      ["elem:=b.transactions.PushBack(trans)", "b.toBottomReqIDToTransactionTable[trans.reqToBottom.Meta().ID]=elem"] ∧
    src_deleteTransaction =
      ["trans:=elem.Value.(*transaction)", "b.transactions.Remove(elem)", "delete(b.toBottomReqIDToTransactionTable,trans.reqToBottom.Meta().ID)"] ∧
    src_duplicateReq =
      ["switchreq:=req.(type){case*mem.ReadReq:returnb.duplicateReadReq(req)case*mem.WriteReq:returnb.duplicateWriteReq(req)default:panic(\"unsupportedtype\")}"] ∧
    src_duplicateReadReq =
      ["returnmem.ReadReqBuilder{}.WithAddress(req.Address).WithByteSize(req.AccessByteSize).WithPID(req.PID).WithDst(b.BottomUnit).Build()"] ∧
    src_duplicateWriteReq =
      ["returnmem.WriteReqBuilder{}.WithAddress(req.Address).WithPID(req.PID).WithData(req.Data).WithDirtyMask(req.DirtyMask).WithDst(b.BottomUnit).Build()"] ∧
    src_duplicateRsp =
      ["switchrsp:=rsp.(type){case*mem.DataReadyRsp:returnb.duplicateDataReadyRsp(rsp,rspTo)case*mem.WriteDoneRsp:returnb.duplicateWriteDoneRsp(rsp,rspTo)default:panic(\"typenotsupported\")}"] ∧
    src_duplicateDataReadyRsp =
      ["returnmem.DataReadyRspBuilder{}.WithData(rsp.Data).WithRspTo(rspTo).Build()"] ∧
    src_duplicateWriteDoneRsp =
      ["returnmem.WriteDoneRspBuilder{}.WithRspTo(rspTo).Build()"] := by
  refine ⟨rfl, rfl, rfl, rfl, rfl, rfl, rfl, rfl, rfl, rfl, rfl, rfl, rfl, rfl, rfl, rfl, rfl, rfl, rfl, rfl⟩

example : functions.length = 19 := by decide

end C15
