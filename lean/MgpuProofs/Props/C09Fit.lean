import MgpuProofs.Props.C09
import MgpuProofs.C09Fit5
import MgpuProofs.C09Tie4
import MgpuProofs.C09Rej
/-! # C09 — a work-group that fits an empty CU is always dispatched: liveness without alternative

`Props/C09.lean` ends with a liveness theorem whose conclusion keeps the alternative `RefusedIdle`
("nothing in flight, yet every CU refuses"). This module discharges it:
* `ReserveResourceForWG` is *complete and exact* on a CU without residents (`Fits`);
* the bookkeeping state is a function of the resident set, releasing restores it exactly;
* pool residents are exactly what dispatchers hold (placed or in flight);
hence for kernels whose work-groups fit a CU, every launch is answered under a fair environment.
Since the repair 91eb1bb3 `StartDispatching` checks the first work-group of a launch against the pool
(`launchFits` = `Fits` on the empty-pool sizes of some CU): a launch that fits no CU is rejected at once
(`oversize_launch_is_rejected`, `…_at_once`), one that fits never is (`fitting_launch_is_never_rejected`);
the silent wait of the pinned code is kept as a witness about `…Old` (`oversize_group_waits_forever_before_fix`). -/
namespace C09

/-- the demo CU of `Props/C09.lean`: 2 SIMDs × 2 slots, 4 SGPR units, 2 VGPR units per SIMD, 4 LDS units -/
example : demoCU.shapes = (some 4, [some 2, some 2], some 4) := by decide

/-- **An empty CU accepts a work-group iff it fits** (`Fits`, the predicate as the code computes it:
    `nwf·⌈s/16⌉ ≤` SGPR units, `⌈l/256⌉ ≤` LDS units, `nwf ≤ Σ_SIMD min(slots, ⌊VGPR units/⌈v/4⌉⌋)`,
    unlimited masks never limit). For every CU satisfying the resource invariant and without resident
    work-groups — whatever `nextSIMD` and the bump counters are, i.e. after any history that released
    everything — `ReserveResourceForWG` answers ok when the demand fits and refuses otherwise. -/
theorem empty_cu_accepts_iff_fits (cap : List Nat) (cu : CU) (key : Nat) (d : Dem) (hinv : Inv cap cu)
    (hres : cu.resident = []) :
    (Fits cap cu.shapes d → ∃ locs cu', reserve cu key d = (.ok locs, cu')) ∧
    (¬ Fits cap cu.shapes d → ∃ cu', reserve cu key d = (.no, cu')) :=
  reserve_empty cap cu key d hinv hres

example : Fits [2, 2] demoCU.shapes ⟨4, 16, 4, 1024⟩ ∧ ¬ Fits [2, 2] demoCU.shapes ⟨4, 16, 5, 1024⟩ ∧
    ¬ Fits [2, 2] demoCU.shapes ⟨4, 17, 4, 1024⟩ ∧ ¬ Fits [2, 2] demoCU.shapes ⟨1, 16, 4, 1025⟩ ∧
    ¬ Fits [2, 2] demoCU.shapes ⟨5, 0, 0, 0⟩ ∧ (reserve demoCU 1 ⟨4, 16, 4, 1024⟩).1 =
      .ok [⟨0, 0, 0, 0⟩, ⟨1, 0, 64, 0⟩, ⟨0, 16, 128, 0⟩, ⟨1, 16, 192, 0⟩] := by decide

/-- the shipped timing CU (4 SIMDs × 10 slots, 3200 SGPRs, 16384 VGPRs per SIMD, 64 KiB LDS): a
    1024-work-item group with 64 VGPRs fits (4 wavefronts per SIMD), with 68 VGPRs it does not
    (17 units: 3 wavefronts per SIMD, 12 < 16) -/
example : Fits shippedWf (some 200, [some 64, some 64, some 64, some 64], some 256) ⟨16, 16, 64, 0⟩ ∧
    ¬ Fits shippedWf (some 200, [some 64, some 64, some 64, some 64], some 256) ⟨16, 16, 68, 0⟩ := by decide

/-- **Mask shapes never change**: neither `ReserveResourceForWG` (whatever it answers) nor
    `FreeResourcesForWG` changes the length of a mask or turns a limited mask into an unlimited one;
    so `Fits` of a CU is the same predicate at all times. -/
theorem mask_shapes_never_change (cu : CU) (key : Nat) (d : Dem) :
    (reserve cu key d).2.shapes = cu.shapes ∧ ∀ cu', free cu key = some cu' → cu'.shapes = cu.shapes :=
  ⟨reserve_shapes cu key d, fun cu' h => free_shapes cu key cu' h⟩

example : (reserve demoCU 1 ⟨5, 0, 0, 0⟩).1 = .no ∧ (reserve demoCU 1 ⟨5, 0, 0, 0⟩).2.shapes = demoCU.shapes := by
  decide

/-- **The bookkeeping state is a function of the resident set.** Two states of one CU with the same
    resident work-groups (reached by any two histories of reservations and releases) have the same
    free-slot counters and the same cells in every limited mask. -/
theorem masks_are_a_function_of_residents (cap : List Nat) (cu cu' : CU) (h : Inv cap cu) (h' : Inv cap cu')
    (hres : cu.resident = cu'.resident) (hsh : cu.shapes = cu'.shapes) :
    cu.wfFree = cu'.wfFree ∧ SameCells cu.smask cu'.smask ∧ SameCells cu.lmask cu'.lmask ∧
    ∀ k (h1 : k < cu.vmasks.length) (h2 : k < cu'.vmasks.length), SameCells cu.vmasks[k] cu'.vmasks[k] :=
  masks_function_of_residents cap cu cu' h h' hres hsh

/-- **reserve ∘ free = id.** Releasing a work-group after its admission restores residents, free
    slots and all limited masks exactly (only the round-robin SIMD pointer and bump counters of
    unlimited masks may differ); with `masks_are_a_function_of_residents` the same holds when other
    reservations and releases were interleaved: what remains is determined by who remains. -/
theorem reserve_then_free_is_identity (cap : List Nat) (cu : CU) (key : Nat) (d : Dem) (locs : List Loc)
    (cu1 : CU) (hinv : Inv cap cu) (hn : 1 ≤ d.nwf) (h1 : reserve cu key d = (.ok locs, cu1)) :
    ∃ cu2, free cu1 key = some cu2 ∧ Inv cap cu2 ∧ cu2.resident = cu.resident ∧ cu2.wfFree = cu.wfFree ∧
      SameCells cu2.smask cu.smask ∧ SameCells cu2.lmask cu.lmask ∧
      ∀ k (h1 : k < cu2.vmasks.length) (h2 : k < cu.vmasks.length), SameCells cu2.vmasks[k] cu.vmasks[k] :=
  reserve_free_roundtrip cap cu key d locs cu1 hinv hn h1

example : ((runR demoCU [.reserve 1 ⟨1, 17, 5, 300⟩, .reserve 2 ⟨1, 16, 4, 256⟩, .free 2]).map
      fun c => (c.wfFree, c.smask, c.lmask, c.vmasks)) =
    ((runR demoCU [.reserve 1 ⟨1, 17, 5, 300⟩]).map fun c => (c.wfFree, c.smask, c.lmask, c.vmasks)) ∧
    ((runR demoCU [.reserve 1 ⟨1, 17, 5, 300⟩, .reserve 2 ⟨1, 16, 4, 256⟩]).map (·.wfFree)) = some [1, 1] := by
  decide

/-- **Pool residents are exactly what the dispatchers hold.** In every reachable state of the command
    processor (pool initially without residents; any dispatchers, launches, completions, back-pressure)
    the mask shapes are those of the registered CUs, and — unless a Go panic was hit — every work-group
    resident on CU `c` is the placed-but-unsent work-group or an in-flight `MapWGReq` of some
    dispatcher, for that CU. (Invariant `TI`, `MgpuProofs/C09Tie1.lean`.) -/
theorem residents_are_held (cfg : Cfg) (nd : Nat) (pool : List CU) (ops : List Op)
    (hempty : ∀ cu ∈ pool, cu.resident = []) :
    let cp := run (mkCP cfg nd pool) ops
    cp.pool.map CU.shapes = pool.map CU.shapes ∧
    (cp.fault = none → ∀ c, ∀ e ∈ (cp.pool.getD c default).resident,
      ∃ j dl, dl.cu = c ∧ dl.key = e.1 ∧
        ((∃ r, (r, dl) ∈ (cp.disp j).inflight) ∨ (cp.disp j).currWG = some dl)) := by
  intro cp
  have h := ti_run cfg nd pool ops hempty
  exact ⟨h.shapes, h.tied⟩

example : let cp := run (mkCP demoCfg 8 demoPool) (demoOps.take 8)
    cp.pool.map (·.resident.map (·.1)) = [[0, 2, 3], [1]] ∧
    cp.disps.map (fun d => d.inflight.map (fun e => (e.1, e.2.cu, e.2.key))) =
      [[(2, 0, 3), (1, 1, 1), (0, 0, 0)], [(3, 0, 2)], [], [], [], [], [], []] := by decide

/-- every work-group of the two demo kernels fits a demo CU -/
theorem demo_kernels_fit : ∀ k, Op.launch k ∈ demoOps →
    KernOK k ∧ KernFits [[2, 2], [2, 2]] (demoPool.map CU.shapes) k := by
  intro k hk
  have : k = ⟨0, 160, 64, 16, 4, 256⟩ ∨ k = ⟨1, 64, 64, 32, 8, 512⟩ := by
    simp [demoOps] at hk; exact hk
  rcases this with rfl | rfl
  · refine ⟨⟨by decide, by decide⟩, ?_⟩
    intro idx hidx
    have h3 : idx < 3 := hidx
    refine ⟨0, by decide, ?_⟩
    have : idx = 0 ∨ idx = 1 ∨ idx = 2 := by omega
    rcases this with rfl | rfl | rfl <;> decide
  · refine ⟨⟨by decide, by decide⟩, ?_⟩
    intro idx hidx
    have h1 : idx < 1 := hidx
    have : idx = 0 := by omega
    subst this
    exact ⟨0, by decide, by decide⟩

theorem demoPool_inv : PoolInv [[2, 2], [2, 2]] demoPool := by
  have h : Inv [2, 2] demoCU :=
    registered_cu_inv [2, 2] (some 64) [some 512, some 512] (some 1024) demoCU (by decide) rfl (by decide)
  refine ⟨rfl, ?_⟩
  intro c hc
  have hc2 : c < 2 := hc
  have : c = 0 ∨ c = 1 := by omega
  rcases this with rfl | rfl <;> exact h

/-- **`no_stuck`, without the `RefusedIdle` alternative.** Pool initially without residents and
    satisfying the resource invariant, at least one dispatcher, every launched kernel well formed and
    such that each of its work-groups fits some CU of the pool when that CU is empty (`KernFits`): in
    every reachable state, a tick that reports no progress and ends without fault while the
    environment owes nothing (`EnvReady`) means that **every launch has been answered**. -/
theorem no_stuck_when_groups_fit (caps : List (List Nat)) (cfg : Cfg) (nd : Nat) (pool : List CU)
    (ops : List Op) (hnd : 0 < nd) (hempty : ∀ cu ∈ pool, cu.resident = []) (hp : PoolInv caps pool)
    (hops : ∀ k, .launch k ∈ ops → KernOK k ∧ KernFits caps (pool.map CU.shapes) k)
    (hb : (cpTick (run (mkCP cfg nd pool) ops)).2 = false)
    (hf : (cpTick (run (mkCP cfg nd pool) ops)).1.fault = none)
    (henv : EnvReady (run (mkCP cfg nd pool) ops)) : AllAnswered (run (mkCP cfg nd pool) ops) :=
  no_stuck_fits_run caps cfg nd pool ops hnd hempty hp hops hb hf henv

example : (cpTick demoEnd).2 = false ∧ (cpTick demoEnd).1.fault = none := by decide

/-- **`fair_environment_answers_every_launch`, no remaining alternative** (temporal liveness). Any
    finite op sequence `ops0` (all the launches, distinct ids, every work-group fits a CU of the pool)
    followed by any infinite launch-free schedule: if no fault occurs and the environment is fair —
    again and again a tick happens when it owes nothing — then after finitely many moves **every launch
    has exactly one `LaunchKernelRsp` and its whole grid `0 … NumWG−1` mapped exactly once**. -/
theorem fair_environment_answers_every_launch_that_fits (caps : List (List Nat)) (cfg : Cfg) (nd : Nat)
    (pool : List CU) (ops0 : List Op) (sched : Nat → Op) (hnd : 0 < nd) (hids : (launchIds ops0).Nodup)
    (hempty : ∀ cu ∈ pool, cu.resident = []) (hp : PoolInv caps pool)
    (hops : ∀ k, .launch k ∈ ops0 → KernOK k ∧ KernFits caps (pool.map CU.shapes) k)
    (hnl : ∀ n k, sched n ≠ .launch k)
    (hfault : ∀ n, (run (mkCP cfg nd pool) (ops0 ++ prefixOf sched n)).fault = none)
    (hfair : ∀ n, ∃ m, n ≤ m ∧ sched m = .tick ∧
      EnvReady (run (mkCP cfg nd pool) (ops0 ++ prefixOf sched m))) :
    ∃ N, ∀ k, Op.launch k ∈ ops0 →
      rspCount (run (mkCP cfg nd pool) (ops0 ++ prefixOf sched N)).log k.id = 1 ∧
      mapsOf (run (mkCP cfg nd pool) (ops0 ++ prefixOf sched N)).log k.id = List.range k.numWG := by
  obtain ⟨N, hN⟩ := fair_run_answers_fits caps cfg nd pool ops0 sched hnd hempty hp hops hnl hfault hfair
  refine ⟨N, ?_⟩
  intro k hk
  have hids' : (launchIds (ops0 ++ prefixOf sched N)).Nodup := by
    rw [launchIds_prefix ops0 sched hnl N]; exact hids
  have hk' : Op.launch k ∈ ops0 ++ prefixOf sched N := List.mem_append_left _ hk
  have h1 := all_answered_rsp cfg nd pool _ hids' hN k hk'
  exact ⟨h1, (rsp_implies_whole_grid cfg nd pool _ hids' k hk' (by omega)).1⟩

/-- the hypotheses are met by the demo scenario followed by ticks for ever -/
example : ∃ N, ∀ k, Op.launch k ∈ demoOps →
      rspCount (run (mkCP demoCfg 8 demoPool) (demoOps ++ prefixOf (fun _ => Op.tick) N)).log k.id = 1 ∧
      mapsOf (run (mkCP demoCfg 8 demoPool) (demoOps ++ prefixOf (fun _ => Op.tick) N)).log k.id
        = List.range k.numWG := by
  have demo_forever : ∀ n, run (mkCP demoCfg 8 demoPool) (demoOps ++ prefixOf (fun _ => Op.tick) n) = demoEnd := by
    intro n
    induction n with
    | zero => simp [prefixOf, demoEnd]
    | succ n ih =>
      rw [run_prefix_succ, ih]
      show (cpTick demoEnd).1 = demoEnd
      decide
  refine fair_environment_answers_every_launch_that_fits [[2, 2], [2, 2]] demoCfg 8 demoPool demoOps
    (fun _ => Op.tick) (by decide) (by decide) (by decide) demoPool_inv demo_kernels_fit
    (fun n k h => by cases h) (fun n => by rw [demo_forever]; decide) ?_
  intro n
  refine ⟨n, Nat.le_refl _, rfl, ?_⟩
  rw [demo_forever]
  have hnone : ∀ j r, ¬ (demoEnd.disp j).inFl r := by
    intro j r
    have := disp_forall demoEnd (fun d => d.inflight = []) rfl (by decide) j
    simp [Disp.inFl, this]
  refine ⟨by decide, by decide, fun j r h => absurd h (hnone j r), ?_⟩
  intro ids rest h
  have : demoEnd.cuIn = [] := by decide
  rw [this] at h; cases h

/-! ## an oversize launch is rejected at once (repair 91eb1bb3); a launch that fits never is -/

/-- **the check the model computes is `Fits`.** On a CU that satisfies the resource invariant — whatever
    is resident on it — `fitsWhenEmpty` (pool sizes = free entries + resident wavefronts, mask shapes)
    answers exactly the predicate `Fits` of `empty_cu_accepts_iff_fits` for the registered pool sizes;
    for a whole pool `CheckWGFitsInACU` of the first work-group is `FitsPool` ("some CU fits"). -/
theorem fit_check_is_fits (cap : List Nat) (cu : CU) (d : Dem) (h : Inv cap cu) :
    fitsEmpty cu d = true ↔ Fits cap cu.shapes d := fitsEmpty_iff cap cu d h

example : fitsEmpty demoCU ⟨4, 16, 4, 1024⟩ = true ∧ fitsEmpty demoCU ⟨4, 17, 4, 1024⟩ = false ∧
    fitsEmpty (reserve demoCU 99 ⟨4, 16, 4, 1024⟩).2 ⟨4, 16, 4, 1024⟩ = true ∧
    (reserve demoCU 99 ⟨4, 16, 4, 1024⟩).2.poolSizes = [2, 2] ∧
    (reserve demoCU 99 ⟨4, 16, 4, 1024⟩).2.wfFree = [0, 0] := by decide

/-- **An oversize launch is rejected by `Handle`.** A launch at the head of `ToDriver`, an available
    dispatcher, a pool that satisfies the resource invariant, and no CU of the pool on which the first
    work-group `Fits` (also: no CU at all): `processLaunchKernelReq` only raises the terminal fault
    "oversize" (the Go panic "cannot dispatch kernel") — the launch stays queued, no dispatcher starts
    it, nothing is emitted, no progress is reported. -/
theorem oversize_launch_is_rejected (caps : List (List Nat)) (cp : CP) (k : Kern) (rest : List Kern) (i : Nat)
    (hd : cp.drvIn = k :: rest) (hfa : findAvailable cp.disps = some i) (hk : 1 ≤ k.gx)
    (hp : PoolInv caps cp.pool) (hno : ¬ FitsPool caps (cp.pool.map CU.shapes) (k.dem 0)) :
    handleLaunch cp = ({ cp with fault := some "oversize" }, false) := by
  have hl : launchFits cp.pool k = false := by
    cases h : launchFits cp.pool k with
    | false => rfl
    | true => exact absurd ((launchFits_iff caps _ cp.pool k hp rfl hk).1 h) hno
  unfold handleLaunch
  rw [hd]; simp only [hfa, hl]
  simp [hd]

/-- **An oversize launch is rejected at once by the tick that takes it.** The dispatchers' ticks raise
    no fault, a launch `k` is at the head of `ToDriver`, a dispatcher is available after the
    dispatchers' ticks, the pool satisfies the resource invariant and no CU of the pool `Fits` the first
    work-group of `k`: the state after `CommandProcessor.Tick` is the state after the dispatchers' ticks
    with `fault = some "oversize"` and nothing else changed — the launch is still queued, no
    dispatcher took it, the trace has no new event (nothing is mapped for it, no response is sent). -/
theorem oversize_launch_is_rejected_at_once (caps : List (List Nat)) (cp : CP) (k : Kern) (rest : List Kern)
    (i : Nat) (hf1 : (tickDispatchers (List.range cp.disps.length) cp).1.fault = none)
    (hd : cp.drvIn = k :: rest) (hk : 1 ≤ k.gx)
    (hav : findAvailable (tickDispatchers (List.range cp.disps.length) cp).1.disps = some i)
    (hp : PoolInv caps (tickDispatchers (List.range cp.disps.length) cp).1.pool)
    (hno : ¬ FitsPool caps ((tickDispatchers (List.range cp.disps.length) cp).1.pool.map CU.shapes) (k.dem 0)) :
    (cpTick cp).1 = { (tickDispatchers (List.range cp.disps.length) cp).1 with fault := some "oversize" } ∧
    (cpTick cp).1.fault = some "oversize" ∧ (cpTick cp).1.drvIn = k :: rest ∧
    (cpTick cp).1.log = (tickDispatchers (List.range cp.disps.length) cp).1.log ∧
    (cpTick cp).1.out = (tickDispatchers (List.range cp.disps.length) cp).1.out ∧
    (cpTick cp).1.disps = (tickDispatchers (List.range cp.disps.length) cp).1.disps := by
  have hd1 : (tickDispatchers (List.range cp.disps.length) cp).1.drvIn = k :: rest := by
    rw [tickDispatchers_drvIn]; exact hd
  have e1 := oversize_launch_is_rejected caps _ k rest i hd1 hav hk hp hno
  have e2 : handleLaunch (handleLaunch (tickDispatchers (List.range cp.disps.length) cp).1).1 =
      handleLaunch (tickDispatchers (List.range cp.disps.length) cp).1 :=
    handleLaunch_fault_idem _ (by rw [e1]) hf1
  have hf : ¬ (tickDispatchers (List.range cp.disps.length) cp).1.fault.isSome = true := by rw [hf1]; simp
  have e : (cpTick cp).1 =
      { (tickDispatchers (List.range cp.disps.length) cp).1 with fault := some "oversize" } := by
    unfold cpTick
    simp only [hf, Bool.false_eq_true, if_false]
    rw [e2, e1]
  refine ⟨e, ?_, ?_, ?_, ?_, ?_⟩ <;> rw [e]
  exact hd1

/-- **A launch that fits is never rejected.** Pool with the resource invariant; the first work-group of
    the launch at the head of the queue `Fits` some CU of the pool (a launch with an empty grid is not
    checked): `Handle` does exactly what it did before the repair and raises no fault. -/
theorem fitting_launch_is_never_rejected (caps : List (List Nat)) (cp : CP) (hp : PoolInv caps cp.pool)
    (hfit : ∀ k rest, cp.drvIn = k :: rest → 1 ≤ k.gx → FitsPool caps (cp.pool.map CU.shapes) (k.dem 0)) :
    handleLaunch cp = handleLaunchOld cp ∧ (handleLaunch cp).1.fault = cp.fault := by
  have e : handleLaunch cp = handleLaunchOld cp := by
    apply handleLaunch_of_fits
    intro k rest hd
    by_cases hk : 1 ≤ k.gx
    · exact (launchFits_iff caps _ cp.pool k hp rfl hk).2 (hfit k rest hd hk)
    · have : k.gx = 0 := by omega
      simp [launchFits, this]
  refine ⟨e, ?_⟩
  rw [e]
  unfold handleLaunchOld
  cases cp.drvIn with
  | nil => rfl
  | cons k rest =>
    cases findAvailable cp.disps with
    | none => rfl
    | some i => rfl

/-- the hypotheses of the three theorems on the demo pool: the 200-SGPR kernel fits no demo CU, the demo
    kernels do -/
example : PoolInv [[2, 2], [2, 2]] demoPool ∧
    ¬ FitsPool [[2, 2], [2, 2]] (demoPool.map CU.shapes) ((⟨0, 64, 64, 200, 4, 256⟩ : Kern).dem 0) ∧
    FitsPool [[2, 2], [2, 2]] (demoPool.map CU.shapes) ((⟨0, 160, 64, 16, 4, 256⟩ : Kern).dem 0) := by
  refine ⟨demoPool_inv, ?_, ⟨0, by decide, by decide⟩⟩
  rintro ⟨c, hc, hf⟩
  have hc2 : c < 2 := hc
  have : c = 0 ∨ c = 1 := by omega
  rcases this with rfl | rfl <;> exact absurd hf (by decide)

/-- **A queued launch — in particular a rejected one, which stays queued — is never mapped and never
    answered**: in every reachable state (distinct launch ids) the trace holds no `MapWGReq` and no
    `LaunchKernelRsp` of a launch that is still in `ToDriver`. -/
theorem queued_launch_is_untouched (cfg : Cfg) (nd : Nat) (pool : List CU) (ops : List Op)
    (hids : (launchIds ops).Nodup) (k : Kern) (hk : k ∈ (run (mkCP cfg nd pool) ops).drvIn) :
    mapsOf (run (mkCP cfg nd pool) ops).log k.id = [] ∧ rspCount (run (mkCP cfg nd pool) ops).log k.id = 0 :=
  (run_GI ops _ (mkCP_DCI cfg nd pool) (mkCP_GI cfg nd pool _ hids)).wait k hk

/-! ## the witness: an oversize work-group waited for ever before the repair, now it is rejected -/

/-- the state two ticks after the launch of a kernel whose work-group needs 200 SGPRs on 64-SGPR CUs,
    on the pinned code before the repair -/
def tooBigEnd : CP := runOld (mkCP demoCfg 2 demoPool) tooBigOps

/-- **`oversize_group_waits_forever_before_fix`** (kernel-checked witness about the code *before* the
    repair 91eb1bb3: `handleLaunchOld` / `cpTickOld` / `runOld`). The work-group fits no CU
    (`¬ KernFits`). Then for ever: no fault, the environment owes nothing at every tick (both ports have
    room, nothing is in flight, no unread message), and yet the launch is never answered, never mapped
    and never rejected — every tick reports no progress (the state is a fixed point of
    `CommandProcessor.Tick`, so the ticking component goes to sleep and nothing wakes it). This was the
    recorded finding `C09.oversize.silent-wait`; the harness keeps the oracle, so that reverting the
    repair is caught. -/
theorem oversize_group_waits_forever_before_fix :
    ¬ KernFits [[2, 2], [2, 2]] (demoPool.map CU.shapes) ⟨0, 64, 64, 200, 4, 256⟩ ∧
    ∀ n, let cp := runOld (mkCP demoCfg 2 demoPool) (tooBigOps ++ prefixOf (fun _ => Op.tick) n)
      cp = tooBigEnd ∧ cp.fault = none ∧ EnvReady cp ∧ (cpTickOld cp).2 = false ∧ cp.log = [] ∧
      ¬ AllAnswered cp := by
  constructor
  · intro h
    obtain ⟨c, hc, hf⟩ := h 0 (by decide)
    have hc2 : c < 2 := hc
    have : c = 0 ∨ c = 1 := by omega
    rcases this with rfl | rfl <;> exact absurd hf (by decide)
  · have fix : ∀ n, runOld (mkCP demoCfg 2 demoPool) (tooBigOps ++ prefixOf (fun _ => Op.tick) n) = tooBigEnd := by
      intro n
      induction n with
      | zero => simp [prefixOf, tooBigEnd]
      | succ n ih =>
        have : runOld (mkCP demoCfg 2 demoPool) (tooBigOps ++ prefixOf (fun _ => Op.tick) (n + 1)) =
            stepOld (runOld (mkCP demoCfg 2 demoPool) (tooBigOps ++ prefixOf (fun _ => Op.tick) n)) .tick := by
          rw [prefixOf_succ, ← List.append_assoc]
          simp [runOld, List.foldl_append]
        rw [this, ih]
        show (cpTickOld tooBigEnd).1 = tooBigEnd
        decide
    intro n
    simp only
    rw [fix n]
    have hnone : ∀ j r, ¬ (tooBigEnd.disp j).inFl r := by
      intro j r
      have := disp_forall tooBigEnd (fun d => d.inflight = []) rfl (by decide) j
      simp [Disp.inFl, this]
    refine ⟨rfl, by decide, ⟨by decide, by decide, fun j r h => absurd h (hnone j r), ?_⟩, by decide,
      by decide, fun h => absurd (h.2 0) (by decide)⟩
    intro ids rest h
    have : tooBigEnd.cuIn = [] := by decide
    rw [this] at h; cases h

/-- **`oversize_group_is_rejected`** (kernel-checked witness about the repaired code). The same 200-SGPR
    kernel on the same 64-SGPR CUs: the first `CommandProcessor.Tick` after the launch — the tick in
    which dispatcher 0 would take it — ends with `fault = some "oversize"`; nothing was mapped or
    answered, the launch is still queued and no dispatcher holds it. The fault is terminal: further
    ticks change nothing. Replayed on the real command processor (`c09OversizeCase`). -/
theorem oversize_group_is_rejected :
    (run (mkCP demoCfg 2 demoPool) [.launch ⟨0, 64, 64, 200, 4, 256⟩, .tick]).fault = some "oversize" ∧
    (run (mkCP demoCfg 2 demoPool) [.launch ⟨0, 64, 64, 200, 4, 256⟩, .tick]).log = [] ∧
    (run (mkCP demoCfg 2 demoPool) [.launch ⟨0, 64, 64, 200, 4, 256⟩, .tick]).drvIn = [⟨0, 64, 64, 200, 4, 256⟩] ∧
    (run (mkCP demoCfg 2 demoPool) [.launch ⟨0, 64, 64, 200, 4, 256⟩, .tick]).disps.map (·.kern) = [none, none] ∧
    run (mkCP demoCfg 2 demoPool) tooBigOps = run (mkCP demoCfg 2 demoPool) [.launch ⟨0, 64, 64, 200, 4, 256⟩, .tick] ∧
    (runOld (mkCP demoCfg 2 demoPool) [.launch ⟨0, 64, 64, 200, 4, 256⟩, .tick]).fault = none := by
  decide

end C09
