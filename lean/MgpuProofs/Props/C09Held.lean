import MgpuProofs.Props.C09Fit
import MgpuProofs.C09Held3
/-! # C09 — across dispatchers: what is in flight is resident, disjoint, and no Go panic is reachable

Run-level statements for any number of dispatchers sharing one pool and one CU-facing port
(`MgpuProofs/C09Held1–3.lean`, invariant `HI`; with `TI` of `C09Tie1–2.lean`: the work-groups resident
in the pool are *exactly* the placed / in-flight work-groups of the dispatchers). -/
namespace C09

/-- **No Go panic of the bookkeeping is reachable; the only reachable panic is the deliberate rejection
    of an oversize kernel.** Pool initially without residents and satisfying the resource invariant;
    every launched kernel well formed with work-groups of at most 1024 work-items (16 wavefronts: the
    dispatcher's 17-entry latency table). Then along **every** op sequence — any number of dispatchers,
    overlapping launches, completions in any order, batched across dispatchers, duplicated or foreign
    ids, any back-pressure — `panic("reserving a work-group twice")`, `panic("work-group not found")`
    and the latency-table index panic are unreachable: the state carries no fault, or the fault
    "oversize" raised by `StartDispatching` (repair 91eb1bb3) for a launch whose first work-group fits
    no CU; and if every work-group of every launched kernel fits some CU (`KernFits`) no fault at all. -/
theorem no_go_panic_reachable (caps : List (List Nat)) (cfg : Cfg) (nd : Nat) (pool : List CU) (ops : List Op)
    (hempty : ∀ cu ∈ pool, cu.resident = []) (hp : PoolInv caps pool)
    (hops : ∀ k, Op.launch k ∈ ops → KernOK k ∧ k.wx ≤ 1024) :
    ((run (mkCP cfg nd pool) ops).fault = none ∨ (run (mkCP cfg nd pool) ops).fault = some "oversize") ∧
    ((∀ k, Op.launch k ∈ ops → KernFits caps (pool.map CU.shapes) k) →
      (run (mkCP cfg nd pool) ops).fault = none) :=
  ⟨(safe_run caps cfg nd pool ops hempty hp hops).nf,
   fun hfit => run_fits_nofault caps cfg nd pool hempty hp ops
     (fun k hk => ⟨(hops k hk).1, (hops k hk).2, hfit k hk⟩)⟩

example : (∀ k, Op.launch k ∈ demoOps → KernOK k ∧ k.wx ≤ 1024) ∧
    (run (mkCP demoCfg 8 demoPool) demoOps).fault = none := by
  refine ⟨?_, by decide⟩
  intro k hk
  have : k = ⟨0, 160, 64, 16, 4, 256⟩ ∨ k = ⟨1, 64, 64, 32, 8, 512⟩ := by
    simp [demoOps] at hk; exact hk
  rcases this with rfl | rfl <;> exact ⟨⟨by decide, by decide⟩, by decide⟩

/-- the bound of 1024 work-items is necessary: a 1088-work-item group (17 wavefronts) on a CU with
    unlimited resources indexes past the latency table (`fault:bounds`, also in the Go code) -/
example : (run (mkCP demoCfg 1 [(mkCU [40] none [none] none).getD default])
    [.launch ⟨0, 1088, 1088, 0, 0, 0⟩, .tick, .tick]).fault = some "bounds" := by decide

/-- **Resident ⇔ held.** In every reachable state (same hypotheses; also a state in which an oversize
    launch was rejected): a work-group is resident on CU
    `c` iff some dispatcher holds it for that CU — as its placed-but-unsent work-group or as an
    in-flight `MapWGReq` — and then it is resident with exactly the wavefront locations the
    `MapWGReq` carries; every key is held by one holder only. So the pool never leaks a reservation
    and never loses one, for any interleaving of the dispatchers. -/
theorem residents_are_exactly_the_held_groups (caps : List (List Nat)) (cfg : Cfg) (nd : Nat)
    (pool : List CU) (ops : List Op) (hempty : ∀ cu ∈ pool, cu.resident = []) (hp : PoolInv caps pool)
    (hops : ∀ k, Op.launch k ∈ ops → KernOK k ∧ k.wx ≤ 1024) :
    let cp := run (mkCP cfg nd pool) ops
    (∀ c, ∀ e ∈ (cp.pool.getD c default).resident, ∃ j dl, dl.cu = c ∧ dl.key = e.1 ∧ Holds cp j dl) ∧
    (∀ j dl, Holds cp j dl → ∃ d, (dl.key, d, dl.locs) ∈ (cp.pool.getD dl.cu default).resident) ∧
    (∀ j j' dl dl', Holds cp j dl → Holds cp j' dl' → dl.key = dl'.key → j = j' ∧ dl = dl') := by
  intro cp
  have ha := acc_run caps cfg nd pool ops hempty hp hops
  have hs := ha.safe
  refine ⟨ha.tied, ?_, hs.hi.uniq⟩
  intro j dl hh
  obtain ⟨d, _, hd⟩ := hs.hi.res j dl hh
  exact ⟨d, hd⟩

/-- **Work-groups in flight at any dispatchers occupy disjoint resources.** In every reachable state
    (same hypotheses), two different work-groups held by any two dispatchers (or the same one) for the
    same CU are both resident there, and every SGPR / LDS / per-SIMD VGPR unit region of the one is
    disjoint from every region of the other in each limited mask — for the demands `d`, `d'` under which
    they were admitted. With `byte_offsets_disjoint'` these are disjoint byte ranges of the register
    files and the LDS: the `MapWGReq`s outstanding at any moment never alias. -/
theorem inflight_groups_disjoint (caps : List (List Nat)) (cfg : Cfg) (nd : Nat) (pool : List CU)
    (ops : List Op) (hempty : ∀ cu ∈ pool, cu.resident = []) (hp : PoolInv caps pool)
    (hops : ∀ k, Op.launch k ∈ ops → KernOK k ∧ k.wx ≤ 1024)
    (j j' : Nat) (dl dl' : DLoc) (hh : Holds (run (mkCP cfg nd pool) ops) j dl)
    (hh' : Holds (run (mkCP cfg nd pool) ops) j' dl') (hne : dl ≠ dl') (hcu : dl.cu = dl'.cu) :
    let cu := (run (mkCP cfg nd pool) ops).pool.getD dl.cu default
    ∃ d d', (dl.key, d, dl.locs) ∈ cu.resident ∧ (dl'.key, d', dl'.locs) ∈ cu.resident ∧
      (∀ m, cu.smask = .lim m → ∀ l ∈ dl.locs, ∀ l' ∈ dl'.locs,
        disj (l.soff / 64, units d.s sGran) (l'.soff / 64, units d'.s sGran)) ∧
      (∀ m, cu.lmask = .lim m → ∀ l ∈ dl.locs, ∀ l' ∈ dl'.locs,
        disj (l.loff / 256, units d.l lGran) (l'.loff / 256, units d'.l lGran)) ∧
      (∀ k (hk : k < cu.vmasks.length) m, cu.vmasks[k] = .lim m → ∀ l ∈ dl.locs, ∀ l' ∈ dl'.locs,
        l.simd = k → l'.simd = k →
        disj (l.voff / 16, units d.v vGran) (l'.voff / 16, units d'.v vGran)) := by
  intro cu
  have hs := safe_run caps cfg nd pool ops hempty hp hops
  obtain ⟨d, _, hd⟩ := hs.hi.res j dl hh
  obtain ⟨d', _, hd'⟩ := hs.hi.res j' dl' hh'
  rw [← hcu] at hd'
  have hkey : dl.key ≠ dl'.key := fun e => hne (hs.hi.uniq j j' dl dl' hh hh' e).2
  have hclt : dl.cu < (run (mkCP cfg nd pool) ops).pool.length := by
    by_cases hc : dl.cu < (run (mkCP cfg nd pool) ops).pool.length
    · exact hc
    · exfalso
      have hg : (run (mkCP cfg nd pool) ops).pool.getD dl.cu default = default := by
        simp only [List.getD_eq_getElem?_getD]
        rw [List.getElem?_eq_none (by omega)]; rfl
      rw [hg] at hd; cases hd
  have hpinv := hs.inv.pool hs.notTwice
  have hg : cu = (run (mkCP cfg nd pool) ops).pool[dl.cu] := by
    simp [cu, List.getD_eq_getElem?_getD, hclt]
  have hinv : Inv (caps.getD dl.cu []) cu := by rw [hg]; exact hpinv.2 dl.cu hclt
  have hne' : ((dl.key, d, dl.locs) : Nat × Dem × List Loc) ≠ (dl'.key, d', dl'.locs) := by
    intro e; injection e with e1 _; exact hkey e1
  obtain ⟨r1, r2, r3⟩ := residents_disjoint _ cu hinv _ _ hd hd' hne'
  exact ⟨d, d', hd, hd', r1, r2, r3⟩

/-- the demo run after eight ops: dispatcher 0 has three requests in flight, dispatcher 1 one; the
    two on CU 0 from different dispatchers are different work-groups on the same CU -/
example : let cp := run (mkCP demoCfg 8 demoPool) (demoOps.take 8)
    (cp.disp 0).inflight.map (fun e => (e.2.cu, e.2.key, e.2.locs.map (·.soff))) =
      [(0, 3, [192]), (1, 1, [0]), (0, 0, [0])] ∧
    (cp.disp 1).inflight.map (fun e => (e.2.cu, e.2.key, e.2.locs.map (·.soff))) = [(0, 2, [64])] := by
  decide

/-- **`fair_environment_answers_every_launch`, final form: no alternative and no "no fault"
    hypothesis.** Pool initially without residents and satisfying the resource invariant, at least one
    dispatcher; a finite op sequence `ops0` containing all launches — distinct ids, well formed, at most
    1024 work-items per work-group, every work-group fits some CU of the pool when that CU is empty
    (`KernFits`) — followed by **any** infinite launch-free schedule of ticks, completion messages and
    port-room changes that is fair (again and again a tick happens while the environment owes
    nothing). Then after finitely many moves every launch has exactly one `LaunchKernelRsp` and its
    whole grid `0 … NumWG−1` mapped exactly once. No dispatcher starves: this holds for every launch,
    whichever dispatcher took it and whatever the other dispatchers do. -/
theorem every_launch_that_fits_is_answered (caps : List (List Nat)) (cfg : Cfg) (nd : Nat)
    (pool : List CU) (ops0 : List Op) (sched : Nat → Op) (hnd : 0 < nd) (hids : (launchIds ops0).Nodup)
    (hempty : ∀ cu ∈ pool, cu.resident = []) (hp : PoolInv caps pool)
    (hops : ∀ k, .launch k ∈ ops0 → KernOK k ∧ k.wx ≤ 1024 ∧ KernFits caps (pool.map CU.shapes) k)
    (hnl : ∀ n k, sched n ≠ .launch k)
    (hfair : ∀ n, ∃ m, n ≤ m ∧ sched m = .tick ∧
      EnvReady (run (mkCP cfg nd pool) (ops0 ++ prefixOf sched m))) :
    ∃ N, ∀ k, Op.launch k ∈ ops0 →
      rspCount (run (mkCP cfg nd pool) (ops0 ++ prefixOf sched N)).log k.id = 1 ∧
      mapsOf (run (mkCP cfg nd pool) (ops0 ++ prefixOf sched N)).log k.id = List.range k.numWG := by
  obtain ⟨N, hN⟩ := fair_run_answers_safe caps cfg nd pool ops0 sched hnd hempty hp hops hnl hfair
  refine ⟨N, ?_⟩
  intro k hk
  have hids' : (launchIds (ops0 ++ prefixOf sched N)).Nodup := by
    rw [launchIds_prefix ops0 sched hnl N]; exact hids
  have hk' : Op.launch k ∈ ops0 ++ prefixOf sched N := List.mem_append_left _ hk
  have h1 := all_answered_rsp cfg nd pool _ hids' hN k hk'
  exact ⟨h1, (rsp_implies_whole_grid cfg nd pool _ hids' k hk' (by omega)).1⟩

/-- the hypotheses are met by the demo scenario followed by ticks for ever -/
example : ∃ N, ∀ k, Op.launch k ∈ demoOps →
      rspCount (run (mkCP demoCfg 8 demoPool) (demoOps ++ prefixOf (fun _ => Op.tick) N)).log k.id = 1 ∧
      mapsOf (run (mkCP demoCfg 8 demoPool) (demoOps ++ prefixOf (fun _ => Op.tick) N)).log k.id
        = List.range k.numWG := by
  have demo_forever : ∀ n, run (mkCP demoCfg 8 demoPool) (demoOps ++ prefixOf (fun _ => Op.tick) n) = demoEnd := by
    intro n
    induction n with
    | zero => simp [prefixOf, demoEnd]
    | succ n ih =>
      rw [run_prefix_succ, ih]
      show (cpTick demoEnd).1 = demoEnd
      decide
  have hsmall : ∀ k, Op.launch k ∈ demoOps → k.wx ≤ 1024 := by
    intro k hk
    have : k = ⟨0, 160, 64, 16, 4, 256⟩ ∨ k = ⟨1, 64, 64, 32, 8, 512⟩ := by
      simp [demoOps] at hk; exact hk
    rcases this with rfl | rfl <;> decide
  refine every_launch_that_fits_is_answered [[2, 2], [2, 2]] demoCfg 8 demoPool demoOps
    (fun _ => Op.tick) (by decide) (by decide) (by decide) demoPool_inv
    (fun k hk => ⟨(demo_kernels_fit k hk).1, hsmall k hk, (demo_kernels_fit k hk).2⟩)
    (fun n k h => by cases h) ?_
  intro n
  refine ⟨n, Nat.le_refl _, rfl, ?_⟩
  rw [demo_forever]
  have hnone : ∀ j r, ¬ (demoEnd.disp j).inFl r := by
    intro j r
    have := disp_forall demoEnd (fun d => d.inflight = []) rfl (by decide) j
    simp [Disp.inFl, this]
  refine ⟨by decide, by decide, fun j r h => absurd h (hnone j r), ?_⟩
  intro ids rest h
  have : demoEnd.cuIn = [] := by decide
  rw [this] at h; cases h

/-- **Every accepted launch is answered; a launch that cannot be placed is rejected loudly** — the
    liveness theorem *without* the fit hypothesis. Pool initially without residents and satisfying the
    resource invariant, at least one dispatcher; a finite op sequence `ops0` containing all launches —
    distinct ids, well formed, at most 1024 work-items per work-group, **nothing assumed about their
    resource demands** — followed by any infinite launch-free schedule that is fair. Then after finitely
    many moves EITHER the state carries `fault = some "oversize"` (the Go panic "cannot dispatch
    kernel": the tick that took a launch whose first work-group fits no CU of the pool rejected it,
    `oversize_launch_is_rejected_at_once`) OR every launch has exactly one `LaunchKernelRsp` and its
    whole grid `0 … NumWG−1` mapped exactly once. There is no third outcome: the silent wait of the
    pinned code (`oversize_group_waits_forever_before_fix`) is gone. Proof: every kernel a dispatcher is
    working on passed the check of its first work-group, the first work-group is the largest and `Fits`
    is monotone in the number of wavefronts, so all its work-groups fit (`Acc.kd`); a queued launch with
    an idle dispatcher is taken or rejected in the next tick. -/
theorem every_accepted_launch_is_answered (caps : List (List Nat)) (cfg : Cfg) (nd : Nat)
    (pool : List CU) (ops0 : List Op) (sched : Nat → Op) (hnd : 0 < nd) (hids : (launchIds ops0).Nodup)
    (hempty : ∀ cu ∈ pool, cu.resident = []) (hp : PoolInv caps pool)
    (hops : ∀ k, .launch k ∈ ops0 → KernOK k ∧ k.wx ≤ 1024)
    (hnl : ∀ n k, sched n ≠ .launch k)
    (hfair : ∀ n, ∃ m, n ≤ m ∧ sched m = .tick ∧
      EnvReady (run (mkCP cfg nd pool) (ops0 ++ prefixOf sched m))) :
    ∃ N, (run (mkCP cfg nd pool) (ops0 ++ prefixOf sched N)).fault = some "oversize" ∨
      ∀ k, Op.launch k ∈ ops0 →
        rspCount (run (mkCP cfg nd pool) (ops0 ++ prefixOf sched N)).log k.id = 1 ∧
        mapsOf (run (mkCP cfg nd pool) (ops0 ++ prefixOf sched N)).log k.id = List.range k.numWG := by
  obtain ⟨N, hN⟩ := fair_run_answers_accepted caps cfg nd pool ops0 sched hnd hempty hp hops hnl hfair
  refine ⟨N, ?_⟩
  rcases hN with hN | hN
  · exact Or.inl hN
  · right
    intro k hk
    have hids' : (launchIds (ops0 ++ prefixOf sched N)).Nodup := by
      rw [launchIds_prefix ops0 sched hnl N]; exact hids
    have hk' : Op.launch k ∈ ops0 ++ prefixOf sched N := List.mem_append_left _ hk
    have h1 := all_answered_rsp cfg nd pool _ hids' hN k hk'
    exact ⟨h1, (rsp_implies_whole_grid cfg nd pool _ hids' k hk' (by omega)).1⟩

/-- both outcomes occur: the demo scenario followed by ticks for ever is answered (previous example, no
    fault: `no_go_panic_reachable`), the 200-SGPR kernel followed by ticks for ever is rejected in its
    first tick and stays rejected -/
example : (∀ k, Op.launch k ∈ tooBigOps → KernOK k ∧ k.wx ≤ 1024) ∧
    ∀ n, (run (mkCP demoCfg 2 demoPool) (tooBigOps ++ prefixOf (fun _ => Op.tick) n)).fault = some "oversize" := by
  constructor
  · intro k hk
    have : k = ⟨0, 64, 64, 200, 4, 256⟩ := by simpa [tooBigOps] using hk
    subst this; exact ⟨⟨by decide, by decide⟩, by decide⟩
  · intro n
    induction n with
    | zero => decide
    | succ n ih =>
      rw [run_prefix_succ]
      show (cpTick _).1.fault = some "oversize"
      rw [cpTick_faulted _ (by rw [ih]; rfl)]; exact ih

/-! ## fairness between dispatchers: eventual, not first-come-first-served -/

/-- one demo CU, three dispatchers; kernel 0 (two 1-wavefront groups), kernel 1 (one group that needs
    the whole CU: 4 wavefronts, all SGPR units), kernel 2 (three 1-wavefront groups), launched in this
    order; completions of the small groups arrive staggered, so the CU is never empty until they are done -/
def overtakeOps : List Op :=
  [.launch ⟨0, 128, 64, 16, 4, 256⟩, .launch ⟨1, 256, 256, 16, 4, 256⟩, .launch ⟨2, 192, 64, 16, 4, 256⟩,
   .tick, .tick, .tick, .complete [0], .tick, .tick, .complete [1], .complete [2], .complete [3], .tick, .tick,
   .tick, .complete [4], .tick, .tick, .tick, .tick, .complete [5], .tick, .tick, .tick]

/-- **A later launch overtakes an earlier one** (kernel-checked witness). Kernel 1 was launched before
    kernel 2 and fits an empty CU, yet every work-group of kernel 2 is mapped before the only
    work-group of kernel 1: the dispatchers are ticked in index order and each takes what fits *now*
    (first fit), so a work-group that needs a whole CU waits until the CU happens to be empty. The wait
    is bounded only by the work of the other kernels — `every_launch_that_fits_is_answered` guarantees
    the answer for finitely many launches, nothing bounds the overtaking (with an unbounded stream of
    small kernels the large one would wait for ever). All three kernels are answered exactly once. -/
theorem later_launch_overtakes_earlier :
    (run (mkCP demoCfg 3 [demoCU]) overtakeOps).log.reverse.map
      (fun e => match e with | .map r _ l i _ => (r, l, i) | .rsp l => (99, l, 99)) =
      [(0, 0, 0), (1, 0, 1), (2, 2, 0), (3, 2, 1), (4, 2, 2), (99, 0, 99), (5, 1, 0), (99, 2, 99), (99, 1, 99)] ∧
    (run (mkCP demoCfg 3 [demoCU]) overtakeOps).fault = none ∧
    Fits [2, 2] demoCU.shapes ((⟨1, 256, 256, 16, 4, 256⟩ : Kern).dem 0) :=
  ⟨by decide +kernel, by decide +kernel, by decide⟩

end C09
