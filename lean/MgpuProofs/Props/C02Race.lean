import MgpuProofs.C02Race
/-! # C02 — race-free work-groups: timing's interleaving = the emulator's wavefront order

`emu.ComputeUnit.runWG` runs the wavefronts of a work-group one after the other, each until it
reaches a barrier, then resolves the barrier (phase by phase; inside a phase wavefront 0 completely,
then wavefront 1, …).  The cycle-level simulator interleaves the memory / LDS accesses of the
wavefronts of one barrier phase arbitrarily; a wavefront passes a barrier only when all have arrived.

A schedule is a list of `(wavefront id, access)`; an access (`Act`) has a read footprint, a write
footprint and a function on (the wavefront's own state, the shared store) that respects them
(`Act.WF`).  `SameThreads l l'` says that `l'` is an interleaving of the same per-wavefront access
sequences as `l` (for every wavefront id the filtered sub-lists are equal — same accesses, same order).
The theorems hold for **all** access functions, footprints, numbers of wavefronts, initial states and
interleavings.  They say nothing about programs with a data race (`race_breaks_independence`), and
the decomposition of a real kernel run into such accesses is not part of this file.
-/
namespace C02.Race

/-! ## Part A — one phase -/

/-- **commute_of_no_conflict.** Two accesses of *different* wavefronts whose footprints are honest
    and do not conflict (no cell written by one and read or written by the other) can be performed in
    either order: same local states of all wavefronts, same shared store. -/
theorem commute_of_no_conflict {L : Type} (s : CfgS L) (e e' : Nat × Act L) (hne : e.1 ≠ e'.1)
    (hwf : e.2.WF) (hwf' : e'.2.WF) (hnc : ¬ Conflict e.2 e'.2) :
    stepS (stepS s e) e' = stepS (stepS s e') e :=
  stepS_comm s e e' hne hwf hwf' hnc

/-- non-vacuity: wavefront 0 stores to cell 0, wavefront 1 loads cell 1 — both orders, computed -/
example :
    let s : CfgS Nat := ⟨fun _ => 0, fun c => 7 + c⟩
    let e : Nat × Act Nat := (0, Act.write 0 5)
    let e' : Nat × Act Nat := (1, Act.read 1 (fun _ v => v))
    e.1 ≠ e'.1 ∧ e.2.WF ∧ e'.2.WF ∧ ¬ Conflict e.2 e'.2 ∧
    (stepS (stepS s e) e').loc 1 = 8 ∧ (stepS (stepS s e') e).loc 1 = 8 ∧
    (stepS (stepS s e) e').sh 0 = 5 ∧ (stepS (stepS s e') e).sh 0 = 5 :=
  ⟨by decide, Act.write_wf 0 5, Act.read_wf 1 (fun _ v => v), by decide, by decide, by decide, by decide, by decide⟩

/-- **race_free_interleaving_independent.** If all accesses of a phase have honest footprints and no
    two different wavefronts access the same cell with at least one of them writing, then every
    interleaving `l'` of the same per-wavefront sequences ends in the same configuration as `l`
    (every wavefront's local state and the whole shared store), from every start configuration. -/
theorem race_free_interleaving_independent {L : Type} (l l' : List (Nat × Act L))
    (hwf : ∀ e ∈ l, e.2.WF) (hrf : RaceFree l) (hst : SameThreads l l') (s : CfgS L) :
    runS l' s = runS l s :=
  runS_sameThreads l l' hwf hrf hst s

/-- wavefront 0 stores 10 to cell 0 then loads it back; wavefront 1 stores 11 to cell 1 -/
def demoL : List (Nat × Act Nat) :=
  [(0, Act.write 0 10), (1, Act.write 1 11), (0, Act.read 0 (fun _ v => v))]
/-- the same threads, wavefront 1 last -/
def demoL' : List (Nat × Act Nat) :=
  [(0, Act.write 0 10), (0, Act.read 0 (fun _ v => v)), (1, Act.write 1 11)]

theorem demoL_wf : ∀ e ∈ demoL, e.2.WF := by
  intro e he
  simp only [demoL, List.mem_cons, List.not_mem_nil, or_false] at he
  rcases he with rfl | rfl | rfl
  · exact Act.write_wf ..
  · exact Act.write_wf ..
  · exact Act.read_wf 0 (fun _ v => v)

theorem demoL_same : SameThreads demoL demoL' :=
  SameThreads.swap [(0, Act.write 0 10)] [] _ _ (by decide)

/-- non-vacuity: the hypotheses hold for `demoL`, `demoL'`, and the common result is as computed -/
example :
    (∀ e ∈ demoL, e.2.WF) ∧ RaceFree demoL ∧ SameThreads demoL demoL' ∧ demoL ≠ demoL' ∧
    (runS demoL' ⟨fun _ => 0, fun _ => 0⟩).loc 0 = 10 ∧ (runS demoL' ⟨fun _ => 0, fun _ => 0⟩).sh 1 = 11 :=
  ⟨demoL_wf, by decide, demoL_same, by simp [demoL, demoL'], by decide, by decide⟩

/-! ## barrier phases -/

/-- **timing_phases_equal_emulator_order.** `ps` is a schedule cut into barrier phases, with
    wavefront ids `< n`; every phase is race-free with honest footprints.  Then every schedule `ps'`
    with the same number of phases whose k-th phase is an interleaving of the same per-wavefront
    sequences as the k-th phase of `ps` (what the timing simulator may do) ends in the same
    configuration as the emulator's order: per phase wavefront 0 completely, then wavefront 1, …. -/
theorem timing_phases_equal_emulator_order {L : Type} (n : Nat) (ps ps' : List (List (Nat × Act L)))
    (hps : ∀ p ∈ ps, (∀ e ∈ p, e.2.WF) ∧ RaceFree p ∧ ∀ e ∈ p, e.1 < n)
    (hlen : ps'.length = ps.length)
    (hk : ∀ (k : Nat) p p', ps[k]? = some p → ps'[k]? = some p' → SameThreads p p')
    (s : CfgS L) :
    runPhases ps' s = runPhases (ps.map (emuOrder n)) s := by
  have hp : ∀ p ∈ ps, (∀ e ∈ p, e.2.WF) ∧ RaceFree p := fun p h => ⟨(hps p h).1, (hps p h).2.1⟩
  rw [runPhases_sameThreads ps ps' hp hlen hk s]
  symm
  apply runPhases_sameThreads ps (ps.map (emuOrder n)) hp (by simp)
  intro k p p' h1 h2
  rw [List.getElem?_map, h1] at h2
  simp only [Option.map_some, Option.some.injEq] at h2
  subst h2
  exact sameThreads_emuOrder n p (hps p (List.mem_of_getElem? h1)).2.2

/-- phase 1: each wavefront stores to its own cell; barrier; phase 2: each loads the neighbour's cell -/
def demoPs : List (List (Nat × Act Nat)) :=
  [[(1, Act.write 1 11), (0, Act.write 0 10)],
   [(1, Act.read 0 (fun _ v => v)), (0, Act.read 1 (fun _ v => v))]]
/-- another interleaving: phase 1 in the other order, phase 2 in the same order -/
def demoPs' : List (List (Nat × Act Nat)) :=
  [[(0, Act.write 0 10), (1, Act.write 1 11)],
   [(1, Act.read 0 (fun _ v => v)), (0, Act.read 1 (fun _ v => v))]]

theorem demoPs_ok : ∀ p ∈ demoPs, (∀ e ∈ p, e.2.WF) ∧ RaceFree p ∧ ∀ e ∈ p, e.1 < 2 := by
  intro p hp
  simp only [demoPs, List.mem_cons, List.not_mem_nil, or_false] at hp
  rcases hp with rfl | rfl
  · refine ⟨?_, by decide, by decide⟩
    intro e he
    simp only [List.mem_cons, List.not_mem_nil, or_false] at he
    rcases he with rfl | rfl <;> exact Act.write_wf ..
  · refine ⟨?_, by decide, by decide⟩
    intro e he
    simp only [List.mem_cons, List.not_mem_nil, or_false] at he
    rcases he with rfl | rfl
    · exact Act.read_wf 0 (fun _ v => v)
    · exact Act.read_wf 1 (fun _ v => v)

theorem demoPs_same : ∀ (k : Nat) p p', demoPs[k]? = some p → demoPs'[k]? = some p' → SameThreads p p' := by
  intro k p p' h h'
  match k with
  | 0 =>
    simp only [demoPs, demoPs', List.getElem?_cons_zero, Option.some.injEq] at h h'
    subst h; subst h'
    exact SameThreads.swap [] [] _ _ (by decide)
  | 1 =>
    simp only [demoPs, demoPs', List.getElem?_cons_succ, List.getElem?_cons_zero, Option.some.injEq] at h h'
    subst h; subst h'
    exact SameThreads.refl _
  | k + 2 => simp [demoPs] at h

/-- non-vacuity: all hypotheses hold for the two-wavefront, two-phase schedule; the emulator's order
    and the other interleaving both leave 11 in wavefront 0, 10 in wavefront 1 -/
example :
    (∀ p ∈ demoPs, (∀ e ∈ p, e.2.WF) ∧ RaceFree p ∧ ∀ e ∈ p, e.1 < 2) ∧
    demoPs'.length = demoPs.length ∧
    (∀ (k : Nat) p p', demoPs[k]? = some p → demoPs'[k]? = some p' → SameThreads p p') ∧
    (runPhases demoPs' ⟨fun _ => 0, fun _ => 0⟩).loc 0 = 11 ∧
    (runPhases demoPs' ⟨fun _ => 0, fun _ => 0⟩).loc 1 = 10 ∧
    (runPhases (demoPs.map (emuOrder 2)) ⟨fun _ => 0, fun _ => 0⟩).loc 0 = 11 ∧
    (runPhases (demoPs.map (emuOrder 2)) ⟨fun _ => 0, fun _ => 0⟩).loc 1 = 10 ∧
    (runPhases (demoPs.map (emuOrder 2)) ⟨fun _ => 0, fun _ => 0⟩).sh 0 = 10 :=
  ⟨demoPs_ok, rfl, demoPs_same, by decide, by decide, by decide, by decide, by decide⟩

/-- the emulator's order of the first demo phase really is wavefront 0 first -/
example : (emuOrder 2 [((1 : Nat), "b"), (0, "a"), (1, "d"), (0, "c")]) = [(0, "a"), (0, "c"), (1, "b"), (1, "d")] := by
  decide

/-! ## the race-freedom hypothesis is needed -/

/-- **race_breaks_independence.** With a race the interleaving is observable.  Wavefront 0 stores 1
    to cell 0 and wavefront 1 loads cell 0 in the same phase: footprints honest, the two schedules
    are interleavings of the same threads, the phase is not race-free, and wavefront 1 ends with 1
    in one order and with 0 in the other. -/
theorem race_breaks_independence :
    ∃ (l l' : List (Nat × Act Nat)) (s : CfgS Nat),
      (∀ e ∈ l, e.2.WF) ∧ SameThreads l l' ∧ ¬ RaceFree l ∧
      (runS l s).loc 1 = 1 ∧ (runS l' s).loc 1 = 0 ∧ runS l' s ≠ runS l s := by
  refine ⟨[(0, Act.write 0 1), (1, Act.read 0 (fun _ v => v))],
    [(1, Act.read 0 (fun _ v => v)), (0, Act.write 0 1)], ⟨fun _ => 0, fun _ => 0⟩, ?_, ?_, ?_, ?_, ?_, ?_⟩
  · intro e he
    simp only [List.mem_cons, List.not_mem_nil, or_false] at he
    rcases he with rfl | rfl
    · exact Act.write_wf ..
    · exact Act.read_wf 0 (fun _ v => v)
  · exact SameThreads.swap [] [] _ _ (by decide)
  · decide
  · decide
  · decide
  · intro h
    have h1 := congrArg (fun c => c.loc 1) h
    revert h1
    decide

/-- the write/write variant: both wavefronts store to cell 0; the last one wins -/
theorem race_breaks_independence_ww :
    ∃ (l l' : List (Nat × Act Unit)) (s : CfgS Unit),
      (∀ e ∈ l, e.2.WF) ∧ SameThreads l l' ∧ ¬ RaceFree l ∧
      (runS l s).sh 0 = 2 ∧ (runS l' s).sh 0 = 1 := by
  refine ⟨[(0, Act.write 0 1), (1, Act.write 0 2)], [(1, Act.write 0 2), (0, Act.write 0 1)],
    ⟨fun _ => (), fun _ => 0⟩, ?_, ?_, ?_, ?_, ?_⟩
  · intro e he
    simp only [List.mem_cons, List.not_mem_nil, or_false] at he
    rcases he with rfl | rfl <;> exact Act.write_wf ..
  · exact SameThreads.swap [] [] _ _ (by decide)
  · decide
  · decide
  · decide

/-- non-vacuity of the refutation's vocabulary: the racy phase is rejected by `RaceFree`, the
    race-free one of `demoPs` is accepted -/
example : ¬ RaceFree [((0 : Nat), (Act.write 0 1 : Act Nat)), (1, Act.read 0 (fun _ v => v))] ∧
    RaceFree [((0 : Nat), (Act.write 0 1 : Act Nat)), (1, Act.read 1 (fun _ v => v))] := by
  constructor <;> decide

/-! ## Part B — tagged writes of the C02 model (`Wr`, `applyW`) -/

/-- **write_lists_interleaving_independent.** Writes tagged with the wavefront issuing them,
    applied last-writer-wins (`applyW`): if writes of different wavefronts never target the same cell,
    every interleaving of the same per-wavefront write sequences leaves the same memory. -/
theorem write_lists_interleaving_independent (l l' : List (Nat × Wr)) (m : St)
    (hd : ∀ e ∈ l, ∀ e' ∈ l, e.1 ≠ e'.1 → e.2.cell ≠ e'.2.cell) (hst : SameThreads l l') :
    applyW (l'.map (·.2)) m = applyW (l.map (·.2)) m := by
  rw [applyW_map_snd, applyW_map_snd]
  exact foldl_sameThreads (fun f e => upd f e.2) l l'
    (fun e he e' he' hne t => upd_comm t e.2 e'.2 (hd e he e' he' hne)) hst m

/-- wavefront 0 writes cell (0,100) twice (1 then 3), wavefront 1 writes cell (0,101) -/
def demoW : List (Nat × Wr) := [(0, ⟨0, (0, 100), 1⟩), (1, ⟨0, (0, 101), 2⟩), (0, ⟨0, (0, 100), 3⟩)]
def demoW' : List (Nat × Wr) := [(0, ⟨0, (0, 100), 1⟩), (0, ⟨0, (0, 100), 3⟩), (1, ⟨0, (0, 101), 2⟩)]

theorem demoW_same : SameThreads demoW demoW' :=
  SameThreads.swap (α := Wr) [(0, ⟨0, (0, 100), 1⟩)] [] (1, ⟨0, (0, 101), 2⟩) (0, ⟨0, (0, 100), 3⟩) (by decide)

/-- non-vacuity: hypotheses hold (note two writes of the *same* wavefront to one cell are allowed —
    their order is kept by `SameThreads`), and the result is the later write of wavefront 0 -/
example :
    (∀ e ∈ demoW, ∀ e' ∈ demoW, e.1 ≠ e'.1 → e.2.cell ≠ e'.2.cell) ∧ SameThreads demoW demoW' ∧
    demoW ≠ demoW' ∧
    applyW (demoW'.map (·.2)) (fun _ => 0) (0, 100) = 3 ∧ applyW (demoW.map (·.2)) (fun _ => 0) (0, 101) = 2 :=
  ⟨by decide, demoW_same, by decide, by decide, by decide⟩

/-- **write_lists_equal_emulator_order.** … in particular the same memory as the emulator's order
    (all writes of wavefront 0, then all of wavefront 1, …), for wavefront ids `< n`. -/
theorem write_lists_equal_emulator_order (n : Nat) (l l' : List (Nat × Wr)) (m : St)
    (hn : ∀ e ∈ l, e.1 < n)
    (hd : ∀ e ∈ l, ∀ e' ∈ l, e.1 ≠ e'.1 → e.2.cell ≠ e'.2.cell) (hst : SameThreads l l') :
    applyW (l'.map (·.2)) m = applyW ((emuOrder n l).map (·.2)) m := by
  rw [write_lists_interleaving_independent l l' m hd hst,
    write_lists_interleaving_independent l (emuOrder n l) m hd (sameThreads_emuOrder n l hn)]

example : (emuOrder 2 demoW').map (·.2.val) = [1, 3, 2] ∧ (emuOrder 2 demoW).map (·.2.val) = [1, 3, 2] := by
  decide

/-- without the disjointness hypothesis the claim fails: two wavefronts writing one cell -/
theorem write_lists_race_breaks_independence :
    ∃ (l l' : List (Nat × Wr)) (m : St), SameThreads l l' ∧
      applyW (l'.map (·.2)) m ≠ applyW (l.map (·.2)) m := by
  refine ⟨[(0, ⟨0, (0, 0), 1⟩), (1, ⟨0, (0, 0), 2⟩)], [(1, ⟨0, (0, 0), 2⟩), (0, ⟨0, (0, 0), 1⟩)],
    fun _ => 0, SameThreads.swap [] [] _ _ (by decide), ?_⟩
  intro h
  have h1 := congrFun h (0, 0)
  revert h1
  decide

end C02.Race
