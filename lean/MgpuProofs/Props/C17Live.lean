import MgpuProofs.C17Live4
/-! # C17 — liveness of `simplebankedmemory` as a theorem (width 1)

Every accepted request is answered after a bounded number of ticks in which the Top port takes the responses its bank
offers — whatever else happens in between (new arrivals, ticks in which the port refuses, partial drains).
The proof is a decreasing measure: `remaining c s r` = sum, over the requests of `r`'s bank that are in flight up to and
including `r`, of the number of ticks each still needs when nothing is in its way (`C17Live.lean`: stage position and
cycle counter in the pipeline, delay-queue counter, pending / port buffer). Helper files `C17Live*.lean`. -/
namespace C17

/-- **The measure decreases.** From any reachable state `run c ops1`, along *any* continuation `ops2` (deliveries of
new requests, ticks in which the port accepts or refuses, drains of any size, in any order) the measure of a request that
has been accepted never grows, and it drops by at least one in every tick in which the port takes the responses of the
request's bank. Hypotheses: width 1, the builder's `depth, post, banks > 0`, and `opOk`: masks not shorter than the data
and addresses the bank address converter (if any) accepts (otherwise the component panics). -/
theorem remaining_decreases (c : Cfg) (hw : c.width = 1) (hd : 0 < c.depth) (hp : 0 < c.post) (hb : 0 < c.banks)
    (ops1 ops2 : List Op) (hok : ∀ op ∈ ops1 ++ ops2, opOk c op) (r : Req) (hr : r ∈ (run c ops1).arrived) :
    remaining c (run c (ops1 ++ ops2)) r
      ≤ remaining c (run c ops1) r - acceptingTicks c (bankOf c r.addr) (run c ops1) ops2 := by
  rw [run_append]
  exact remaining_fold c hd hp hb r ops2 (run c ops1) (run_inv c hw ops1)
    (run_LI c ops1 (fun op h => hok op (by simp [h])) hw) (fun op h => hok op (by simp [h])) hr

/-- **Liveness.** An accepted request is answered once the continuation contains `remaining` ticks in which the port
accepted its bank's responses — arrivals may continue, blocked ticks and partial drains may be interleaved anywhere. -/
theorem liveness_bounded (c : Cfg) (hw : c.width = 1) (hd : 0 < c.depth) (hp : 0 < c.post) (hb : 0 < c.banks)
    (ops1 ops2 : List Op) (hok : ∀ op ∈ ops1 ++ ops2, opOk c op) (r : Req) (hr : r ∈ (run c ops1).arrived)
    (hn : remaining c (run c ops1) r ≤ acceptingTicks c (bankOf c r.addr) (run c ops1) ops2) :
    r ∈ (run c (ops1 ++ ops2)).resp.map (·.req) := by
  have h1 := remaining_decreases c hw hd hp hb ops1 ops2 hok r hr
  have hr' : r ∈ (run c (ops1 ++ ops2)).arrived := by
    rw [run_append]
    have : ∀ (ops : List Op) (s : State), r ∈ s.arrived → r ∈ (ops.foldl (step c) s).arrived := by
      intro ops
      induction ops with
      | nil => intro s h; exact h
      | cons o os ih => intro s h; exact ih _ (step_arrived_mono c s o r h)
    exact this ops2 _ hr
  exact answered_of_remaining_zero c _ (run_inv c hw _) r hr' (by omega)

/-- **The bound.** `remaining ≤ (requests of the same bank in flight ahead of r + 1) · latencyBound`, where
`latencyBound c = max miss 1 + depth · cyclesPerStage + 3` (port buffer → pending → row-miss delay → `depth` stages →
post-pipeline buffer → answer). The bank count does not enter here; it enters the room condition
`port_accepts_with_room`. -/
theorem latency_bound (c : Cfg) (hw : c.width = 1) (hd : 0 < c.depth) (ops : List Op) (hok : ∀ op ∈ ops, opOk c op)
    (r : Req) : remaining c (run c ops) r ≤ (ahead c (run c ops) r + 1) * latencyBound c :=
  remaining_le c hd _ (run_LI c ops hok hw) (run_bnd c ops hok hw) r

/-- **Liveness with the explicit bound**: `(ahead + 1) · latencyBound` accepting ticks suffice. -/
theorem liveness_explicit (c : Cfg) (hw : c.width = 1) (hd : 0 < c.depth) (hp : 0 < c.post) (hb : 0 < c.banks)
    (ops1 ops2 : List Op) (hok : ∀ op ∈ ops1 ++ ops2, opOk c op) (r : Req) (hr : r ∈ (run c ops1).arrived)
    (hn : (ahead c (run c ops1) r + 1) * latencyBound c ≤ acceptingTicks c (bankOf c r.addr) (run c ops1) ops2) :
    r ∈ (run c (ops1 ++ ops2)).resp.map (·.req) :=
  liveness_bounded c hw hd hp hb ops1 ops2 hok r hr
    (Nat.le_trans (latency_bound c hw hd ops1 (fun op h => hok op (by simp [h])) r) hn)

/-- **Liveness under back-pressure, counted in plain ticks.** If the port refuses the bank's responses in at most `B`
of the ticks of the continuation (in any positions) and the continuation contains at least `remaining + B` ticks, the
request is answered. -/
theorem liveness_under_backpressure (c : Cfg) (hw : c.width = 1) (hd : 0 < c.depth) (hp : 0 < c.post) (hb : 0 < c.banks)
    (ops1 ops2 : List Op) (hok : ∀ op ∈ ops1 ++ ops2, opOk c op) (r : Req) (hr : r ∈ (run c ops1).arrived) (B : Nat)
    (hB : refusingTicks c (bankOf c r.addr) (run c ops1) ops2 ≤ B)
    (hn : remaining c (run c ops1) r + B ≤ countTicks ops2) :
    r ∈ (run c (ops1 ++ ops2)).resp.map (·.req) := by
  have := accepting_add_refusing c (bankOf c r.addr) ops2 (run c ops1)
  exact liveness_bounded c hw hd hp hb ops1 ops2 hok r hr (by omega)

/-- **When does the port accept?** Whenever the outgoing buffer has room for one full post-pipeline buffer per bank
(`outBuf + banks · post ≤ top`; with MI300A's 16 · 128 > 1024 this means: drained below the mark), every bank's
responses are taken in that tick. -/
theorem port_accepts_with_room (c : Cfg) (hw : c.width = 1) (ops : List Op) (hok : ∀ op ∈ ops, opOk c op)
    (hroom : (run c ops).outBuf.length + c.banks * c.post ≤ c.top) (k : Nat) : accepts c (run c ops) k = true :=
  accepts_of_room c _ (run_inv c hw ops) (run_LI c ops hok hw) (run_bnd c ops hok hw) hroom k

/-- **… the finer form** (the coarse one is never met by MI300A's 16·128 > 1024): the port takes every bank's responses
in a tick whenever the outgoing buffer has room for all responses that are waiting in the post-pipeline buffers — in
particular whenever the environment keeps the outgoing buffer at most `top − postTotal` full. -/
theorem port_accepts_when_waiting_fits (c : Cfg) (hw : c.width = 1) (ops : List Op) (hok : ∀ op ∈ ops, opOk c op)
    (hroom : (run c ops).outBuf.length + postTotal (run c ops) ≤ c.top) (k : Nat) : accepts c (run c ops) k = true :=
  accepts_of_room' c _ (run_inv c hw ops) (run_LI c ops hok hw) hroom k

/-- **Back-pressure: nothing is lost or duplicated while the port is blocked.** If the outgoing buffer is full and the
environment retrieves nothing during `ops2` (any number of ticks and new deliveries), then no response is emitted, the
buffer is untouched, and for every bank the in-flight requests are exactly the old ones, in the same order, followed by
the newly accepted ones. (No mask hypothesis: also true when a tick panics.) -/
theorem blocked_conserves (c : Cfg) (hw : c.width = 1) (ops1 ops2 : List Op) (hno : ∀ op ∈ ops2, noOut op)
    (hfull : c.top ≤ (run c ops1).outBuf.length) :
    (run c (ops1 ++ ops2)).resp = (run c ops1).resp ∧ (run c (ops1 ++ ops2)).outBuf = (run c ops1).outBuf ∧
    ∀ k, (chain c (run c (ops1 ++ ops2)) k).map (·.req) = (chain c (run c ops1) k).map (·.req) ++
      ((run c (ops1 ++ ops2)).arrived.drop (run c ops1).arrived.length).filter (inB c k) := by
  have h1 := run_inv c hw ops1
  have h2 := run_inv c hw (ops1 ++ ops2)
  rw [run_append] at h2 ⊢
  obtain ⟨a1, a2, t, ht⟩ := blocked_fold c ops2 (run c ops1) hno hfull
  refine ⟨a1, a2, ?_⟩
  intro k
  have r1 := h1.r k
  have r2 := h2.r k
  unfold R at r1 r2
  rw [a1, ht, List.filter_append, ← r1, List.append_assoc] at r2
  rw [ht, List.drop_left]
  exact List.append_cancel_left r2

/-- **No panic on well-formed traffic.** If every delivered request has a mask at least as long as its data, an address
the bank address converter accepts (when one is installed) and a footprint the storage accepts (`capErr` false), then no
tick of any reachable state panics — neither the index panic of `finalizeWrite`, nor `log.Panic` of the storage, nor the
converter's "does not belong to current element". -/
theorem no_panic_on_ok_traffic (c : Cfg) (hw : c.width = 1) (ops : List Op) (hok : ∀ op ∈ ops, opOk c op) :
    (tickFlags c (run c ops)).2 = false :=
  tick_nofault c _ (run_inv c hw ops) (run_LI c ops hok hw)

/-- would-be stronger liveness: count every tick that *starts* with an empty outgoing buffer (the environment retrieved
everything) instead of the ticks in which the bank's responses were all taken -/
def liveness_drained_full : Prop := ∀ (c : Cfg) (ops1 ops2 : List Op) (r : Req), c.width = 1 → 0 < c.depth → 0 < c.post →
  0 < c.banks → 0 < c.top → (∀ op ∈ ops1 ++ ops2, opOk c op) → r ∈ (run c ops1).arrived →
  (ahead c (run c ops1) r + 1) * latencyBound c ≤ drainedTicks c (run c ops1) ops2 →
  r ∈ (run c (ops1 ++ ops2)).resp.map (·.req)

def starveCfg : Cfg := ⟨2, 6, 1, 1, 1, 8, 5, 1, 1, none, none⟩
def starveRounds (n : Nat) : List Op := (List.range n).flatMap fun i => [.deliver .wr 0 1 [i] none, .tick, .out 1]
/-- six writes to bank 0 (one per tick, every response retrieved at once), then a read of 0x40 (bank 1) -/
def starvePre : List Op := starveRounds 6 ++ [.deliver .rd 0x40 1 [] none, .tick, .out 1]

/-- **Refuted: `finalizeBanks` serves the banks in index order.** Two banks, port buffers of one entry, row-miss delay 5:
a stream of one write per tick to bank 0 builds a backlog behind its first row miss; the read of bank 1 (request 6,
alone in its bank, bound 1·9 ticks) then finds the single outgoing slot taken by bank 0 in every tick — after 60 more
ticks, each starting with an **empty** outgoing buffer, requests 7…59 are answered and request 6 is not. Hence liveness
needs the per-bank hypothesis of `liveness_bounded`; the scenario runs on the real component in every check. -/
theorem liveness_drained_full_refuted : ¬ liveness_drained_full := by
  intro h
  have := h starveCfg starvePre (starveRounds 60) ⟨6, .rd, 0x40, 1, [], none⟩ rfl (by decide) (by decide) (by decide)
    (by decide) (by decide +kernel) (by decide +kernel) (by decide +kernel)
  revert this
  decide +kernel

/-! ### non-vacuity -/

def mi300aL : Cfg := ⟨16, 6, 1, 5, 1, 11, 52, 128, 1024, some ⟨128, 16, 0, 0⟩, some 4294967296⟩
def wr0 : Req := ⟨0, .wr, 0x40, 4, [1, 2, 3, 4], none⟩

/-- MI300A parameters: the write to 0x40 just accepted has `remaining = latencyBound = 60`; a continuation with another
arrival (a read of the same line) and 60 ticks answers it. -/
example : remaining mi300aL (run mi300aL [.deliver .wr 0x40 4 [1, 2, 3, 4] none]) wr0 = 60 ∧ latencyBound mi300aL = 60 := by
  decide +kernel

example : wr0 ∈ (run mi300aL ([.deliver .wr 0x40 4 [1, 2, 3, 4] none] ++
    (.tick :: .deliver .rd 0x40 4 [] none :: List.replicate 59 .tick))).resp.map (·.req) :=
  liveness_bounded mi300aL rfl (by decide) (by decide) (by decide) _ _ (by decide +kernel) wr0 (by decide +kernel)
    (by decide +kernel)

/-- MI300A parameters, 62 ticks into the write/read scenario: the finer room condition holds (the coarse one cannot) -/
example : (run mi300aL ([.deliver .wr 0x40 4 [1, 2, 3, 4] none, .tick, .tick, .deliver .rd 0x40 4 [] none]
      ++ List.replicate 58 .tick)).outBuf.length +
    postTotal (run mi300aL ([.deliver .wr 0x40 4 [1, 2, 3, 4] none, .tick, .tick, .deliver .rd 0x40 4 [] none]
      ++ List.replicate 58 .tick)) ≤ mi300aL.top ∧ ¬ (0 + mi300aL.banks * mi300aL.post ≤ mi300aL.top) := by
  decide +kernel

/-- the explicit bound on the same scenario: nothing ahead of the write in its bank, so 1 · 60 accepting ticks suffice -/
example : (ahead mi300aL (run mi300aL [.deliver .wr 0x40 4 [1, 2, 3, 4] none]) wr0 + 1) * latencyBound mi300aL = 60 := by
  decide +kernel

def tiny : Cfg := ⟨2, 6, 1, 1, 1, 0, 0, 1, 1, none, none⟩
/-- back-pressure: port buffer of one slot, full and never drained — the second write stays in flight, nothing is emitted -/
example : (run tiny [.deliver .wr 0 1 [1] none, .tick, .tick, .tick, .tick]).outBuf.length = 1 ∧
    (run tiny ([.deliver .wr 0 1 [1] none, .tick, .tick, .tick, .tick] ++
      [.deliver .wr 0 1 [2] none, .tick, .tick, .tick, .tick, .tick])).resp.length = 1 := by decide +kernel

end C17
