import MgpuProofs.C19SysStep
import MgpuProofs.C19Quiet2
import MgpuProofs.C19SysTerm
/-! # C19 — the migration handshake as one closed system: property theorems

`SY.Sys` (`MgpuModel/C19_Sys.lean`) = the tick-exact driver stages (`DR.Drv`, tied by `c19 drv` lines) +
one tick-exact command processor per GPU (`CP.Cp`, tied by `c19 cp` lines) + the two-controller world
(`World`, tied by `c19 mig` lines) + abstract acknowledging components (each answers every request exactly
once, any order, any delay) + Akita connections + an MMU with one request outstanding. `SY.Reach` = all
states reachable by ANY schedule of driver stages / ticks, CP stages / ticks, connection transfers,
component moves, controller / network / memory moves and MMU moves. -/
namespace C19
open SY
open CP (Cp Cls K Sub Cmd Ans)
open DR (Drv MmuReq MigCmd)

/-- every component of GPU `g` that can touch memory on its behalf is quiet: all compute units flushed,
    all address translators discarded, all caches flushed and paused, all TLBs shot down — each
    acknowledged its flush and has not seen a restart since -/
def GpuQuiet (s : SY.Sys) (g : Nat) : Prop :=
  (∀ i, i < (s.cp g).nCU → i ∈ (s.cm g).qCU) ∧ (∀ i, i < (s.cp g).nAT → i ∈ (s.cm g).qAT) ∧
  (∀ i, i < (s.cp g).nCache → i ∈ (s.cm g).qCache) ∧ (∀ i, i < (s.cp g).nTLB → i ∈ (s.cm g).qTLB)

/-- the RDMA engine of GPU `g` acknowledged its drain and has not seen a restart since -/
def RdmaDrained (s : SY.Sys) (g : Nat) : Prop := 0 ∈ (s.cm g).qRdma

/-- the window in which pages are copied: the RDMA engines of ALL GPUs are drained and every accessing
    GPU of the request is quiet -/
def Window (s : SY.Sys) : Prop :=
  ∃ r, s.drv.cur = some r ∧ (∀ g, g < s.drv.ngpu → RdmaDrained s g) ∧ ∀ a ∈ r.acc, GpuQuiet s (a - 1)

theorem SY.gidle_fault {rq gq : Bool} {c : Cp} {m : Comps} (h : GIdle rq gq c m) : c.fault = none := by
  have := congrArg Cp.fault h.cp
  simpa [base] using this

theorem SY.window_of_mig {s : SY.Sys} (_I : SY.Inv s) (r : MmuReq) (fl : Option (MigCmd × MigAt)) (ws : WSt)
    (hc : s.drv.cur = some r) (_hr : ReqOK s r) (hmp : MigPh s r fl ws) : Window s := by
  have key : ∀ g, (g < s.drv.ngpu → RdmaDrained s g) ∧ (g ∈ accT r → GpuQuiet s g) := by
    intro g
    by_cases hfl : ∃ m loc, fl = some (m, .atG loc) ∧ g = m.gpu
    · obtain ⟨m, loc, rfl, rfl⟩ := hfl
      have := mig_quiet (hmp.busy m loc rfl)
      refine ⟨fun hg => this.1 (by simp [flagsBefore, hg]), fun hg => ?_⟩
      exact this.2 (by simp [flagsBefore, hg])
    · have hid := hmp.idle g (fun m loc hx e => hfl ⟨m, loc, hx, e⟩)
      have := idle_quiet hid
      refine ⟨fun hg => this.1 (by simp [flagsBefore, hg]), fun hg => ?_⟩
      exact this.2 (by simp [flagsBefore, hg])
  refine ⟨r, hc, fun g hg => (key g).1 hg, fun a ha => (key (a - 1)).2 ?_⟩
  simp only [accT, List.mem_map]
  exact ⟨a, ha, rfl⟩

/-- **handshake_window (safety, a).** In every reachable state of the closed system, for every schedule:
    whenever a migrate command is outstanding or queued (`numPagesMigratingACK > 0`: from the last shootdown
    acknowledgement to the last page-migration acknowledgement), and in particular whenever a page
    migration request is inside the two-controller system (`live ≠ []`: from the moment the controller takes
    the request of its command processor until its completion is collected — the only interval in which
    bytes are copied, see `copy_only_in_window`), the RDMA engines of all GPUs are drained and all compute
    units, address translators, caches and TLBs of every accessing GPU are flushed and not restarted:
    no access of an accessing GPU and no remote access can observe a half-copied page. -/
theorem handshake_window {s : SY.Sys} (h : SY.Reach s) : (0 < s.drv.mig ∨ s.w.live ≠ []) → Window s := by
  have I := SY.reach_inv h
  intro hw
  cases I.ph with
  | idle hd hg hw' hm =>
    rcases hw with x | x
    · have := hd.ctrs.2.2.1; simp at this; omega
    · exact absurd hw'.live x
  | bcast p r σ loc hp hh hc hr hct htc hone hb hw' hm hpg hrh =>
    rcases hw with x | x
    · have := hct.2.2.1
      rw [if_neg (by intro e; injection e with e; exact hp e)] at this
      omega
    · exact absurd hw'.live x
  | mig r fl ws hh hc hr hct hmp hw' hm hrh => exact window_of_mig I r fl ws hc hr hmp

/-- **copy_only_in_window (safety, a).** A byte of either memory that differs after a move of the closed
    system (only moves inside the two-controller world write memory) lies in the destination range of the
    request in flight, and the state before the move is inside the window of `handshake_window`. -/
theorem copy_only_in_window {s : SY.Sys} (h : SY.Reach s) (o : Op) (ho : o.honest = true) (hs : o.isSubmit = false)
    (i x : Nat) (hi : i < 2)
    (hne : readByte ((SY.step s (.world o)).w.sys.mem i) x ≠ readByte (s.w.sys.mem i) x) :
    Window s ∧ ∃ ℓ ∈ s.w.live, ℓ.p = i ∧ ℓ.r.wr ≤ x ∧ x < ℓ.r.wr + ℓ.r.size := by
  have I := SY.reach_inv h
  have hW : WReach s.w := by
    cases I.ph with
    | idle _ _ hw _ => exact hw.reach
    | bcast _ _ _ _ _ _ _ _ _ _ _ _ hw _ _ _ => exact hw.reach
    | mig _ _ _ _ _ _ _ _ hw _ _ => exact hw.reach
  obtain ⟨r, hcur, hh, _, h1, h2⟩ := (migration_frame hW).1 o (valid_of_honest _ o ho hs) i hi x hne
  have WI := wreach_inv hW
  have hl : ∃ ℓ ∈ s.w.live, ℓ.p = i ∧ ℓ.r = r := by
    have : i = 0 ∨ i = 1 := by omega
    rcases this with rfl | rfl
    · have := WI.d0.lm r (Or.inl hcur)
      obtain ⟨ℓ, a, b, c⟩ := this
      exact ⟨ℓ, a, b, c⟩
    · have := WI.d1.lm r (Or.inl hcur)
      obtain ⟨ℓ, a, b, c⟩ := this
      exact ⟨ℓ, a, b, c⟩
  obtain ⟨ℓ, hl1, hl2, hl3⟩ := hl
  refine ⟨handshake_window h (Or.inr (List.ne_nil_of_mem hl1)), ℓ, hl1, hl2, ?_, ?_⟩
  · rw [hl3]; exact h1
  · rw [hl3]; exact h2

/-- **world_inside_system (corollary of `migration_end_to_end`).** The two-controller part of every
    reachable state of the closed system is a reachable `World`: the submissions the command processors
    make on behalf of the driver are valid (one request in flight, frames inside the memories, page size
    a positive multiple of 64), so all conclusions of `migration_end_to_end` hold inside the handshake —
    no controller or memory fault, source range stable, and destination range = source image as soon as
    the completion is decided. At most one request is in flight. -/
theorem world_inside_system {s : SY.Sys} (h : SY.Reach s) :
    WReach s.w ∧ s.w.live.length ≤ 1 ∧
    (s.w.sys.fault = none ∧ s.w.sys.p0.fault = none ∧ s.w.sys.p1.fault = none) ∧
    (∀ ℓ ∈ s.w.live, readBytes (s.w.sys.mem (1 - ℓ.p)) ℓ.r.rd ℓ.r.size = ℓ.snap ∧
      ((ℓ.r.id ∈ (s.w.sys.pmc ℓ.p).ctlOut ∨ (s.w.sys.pmc ℓ.p).toCtrl = some ℓ.r.id) →
        readBytes (s.w.sys.mem ℓ.p) ℓ.r.wr ℓ.r.size = ℓ.snap)) := by
  have I := SY.reach_inv h
  have hW : WReach s.w ∧ s.w.live.length ≤ 1 := by
    cases I.ph with
    | idle _ _ hw _ => exact ⟨hw.reach, by rw [show s.w.live = [] from hw.live]; simp⟩
    | bcast _ _ _ _ _ _ _ _ _ _ _ _ hw _ _ _ => exact ⟨hw.reach, by rw [show s.w.live = [] from hw.live]; simp⟩
    | mig _ _ ws _ _ _ _ _ hw _ _ =>
      refine ⟨hw.reach, ?_⟩
      have := hw.live
      cases ws with
      | none => rw [show s.w.live = [] from this]; simp
      | back g => rw [show s.w.live = [] from this]; simp
      | copying g m => obtain ⟨ℓ, e, _⟩ := this; rw [e]; simp
  have E := migration_end_to_end hW.1
  exact ⟨hW.1, hW.2, E.1, fun ℓ hl => ⟨(E.2.1 ℓ hl).2.2.1, (E.2.1 ℓ hl).2.2.2⟩⟩

/-- **pages_rehomed_once (safety, a).** From the last shootdown acknowledgement until the driver is idle
    again (migrating, restarting the GPUs, restarting the RDMA engines): the migrate-command log grew by
    exactly one entry per page of the request, in the order of the request (so `preparePageForMigration`
    ran exactly once per page), and the page table maps every page to the frame its command writes to,
    on the requesting GPU's device, flagged as migrating. -/
theorem pages_rehomed_once {s : SY.Sys} (h : SY.Reach s) (r : MmuReq) (hc : s.drv.cur = some r)
    (hp : 0 < s.drv.mig ∨ 0 < s.drv.restart ∨ 0 < s.drv.rdma) :
    ∃ old new, s.drv.migLog = old ++ new ∧
      new.map (fun m => (m.gpu, m.vaddr)) = migOrder s.drv.ngpu r.map ∧
      ∀ m ∈ new, ∃ pg, s.drv.alloc.find r.pid m.vaddr = some pg ∧ pg.paddr = m.wr ∧ pg.dev = m.gpu + 1 ∧
        pg.migrating = true := by
  have I := SY.reach_inv h
  cases I.ph with
  | idle hd _ _ _ => rw [hd.cur] at hc; cases hc
  | bcast p r' σ loc hp' hh hc' hr hct htc hone hb hw' hm hpg hrh =>
    rw [hc'] at hc; injection hc with hc; subst hc
    have : p = .restart ∨ p = .rdma := by
      obtain ⟨c1, c2, c3, c4, c5⟩ := hct
      cases p
      · simp at c3 c4 c5; omega
      · simp at c3 c4 c5; omega
      · exact absurd rfl hp'
      · exact Or.inl rfl
      · exact Or.inr rfl
    exact (hrh this).log
  | mig r' fl ws hh hc' hr hct hmp hw' hm hrh =>
    rw [hc'] at hc; injection hc with hc; subst hc
    exact hrh.log

/-- **mmu_answered_once_in_order (b).** In every reachable state: the MMU's requests carry the ids
    0, 1, 2, … in sending order; the driver took them in that order (`taken` is a prefix of `mmuSent`, the rest
    waits in the MMU port: **a request that arrives while a migration is handled stays in the port and is
    served afterwards**); the answers the driver produced (`answered`, then the one waiting in
    `toSendToMMU`) are, in order, the ids of the requests taken except possibly the one being served; what
    the MMU received is a prefix of that; no answer was ever overwritten (`lost = []`). Hence every request
    is answered at most once, in order, and when the driver is idle every request taken has its answer
    produced. -/
theorem mmu_answered_once_in_order {s : SY.Sys} (h : SY.Reach s) :
    s.drv.lost = [] ∧ s.mmuSent = List.range s.mmuSent.length ∧
    s.mmuSent = s.drv.taken ++ s.drv.mmuIn.map (·.id) ∧
    s.mmuGot ++ s.drv.mmuOut.map (·.1) = s.drv.answered ∧
    (∃ pc, pc.length ≤ 1 ∧ s.drv.answered ++ (match s.drv.toMMU with
        | some a => [a.1]
        | none => []) ++ pc = s.drv.taken ∧ (s.drv.handling = false → pc = [])) := by
  have I := SY.reach_inv h
  cases I.ph with
  | idle hd _ _ hm => exact ⟨hm.lost, hm.ids, hm.sent, hm.got, [], by simp, hm.ans, fun _ => rfl⟩
  | bcast p r σ loc hp hh hc hr hct htc hone hb hw' hm hpg hrh =>
    refine ⟨hm.lost, hm.ids, hm.sent, hm.got, _, ?_, hm.ans, fun x => by rw [hh] at x; cases x⟩
    split <;> simp
  | mig r fl ws hh hc hr hct hmp hw' hm hrh =>
    exact ⟨hm.lost, hm.ids, hm.sent, hm.got, [r.id], by simp, hm.ans, fun x => by rw [hh] at x; cases x⟩

/-- **handshake_no_fault_ordered (corollary: `handshake_ordered` inside the closed system).** No component
    of a reachable state has panicked (driver, every command processor: no `Send` error, no foreign or
    unexpected acknowledgement, no counter decremented at 0), and at most one of the driver's five
    acknowledgement counters is non-zero: the phases follow each other in program order. -/
theorem handshake_no_fault_ordered {s : SY.Sys} (h : SY.Reach s) :
    s.drv.fault = none ∧
    ((s.drv.drain = 0 ∨ (s.drv.shoot = 0 ∧ s.drv.mig = 0 ∧ s.drv.restart = 0 ∧ s.drv.rdma = 0)) ∧
      (s.drv.shoot = 0 ∨ (s.drv.mig = 0 ∧ s.drv.restart = 0 ∧ s.drv.rdma = 0)) ∧
      (s.drv.mig = 0 ∨ (s.drv.restart = 0 ∧ s.drv.rdma = 0)) ∧ (s.drv.restart = 0 ∨ s.drv.rdma = 0)) ∧
    (s.drv.handling = false → s.drv.drain = 0 ∧ s.drv.shoot = 0 ∧ s.drv.mig = 0 ∧ s.drv.restart = 0 ∧
      s.drv.rdma = 0 ∧ s.drv.toSend = [] ∧ s.drv.toCP = [] ∧ s.drv.one = false ∧ s.w.live = [] ∧
      ∀ g, (s.cm g).qRdma = [] ∧ (s.cm g).qCU = [] ∧ (s.cm g).qAT = [] ∧ (s.cm g).qCache = [] ∧ (s.cm g).qTLB = []) := by
  have I := SY.reach_inv h
  refine ⟨I.nf, ?_, ?_⟩
  · have key : ∀ p n, Ctrs s.drv p n →
        ((s.drv.drain = 0 ∨ (s.drv.shoot = 0 ∧ s.drv.mig = 0 ∧ s.drv.restart = 0 ∧ s.drv.rdma = 0)) ∧
        (s.drv.shoot = 0 ∨ (s.drv.mig = 0 ∧ s.drv.restart = 0 ∧ s.drv.rdma = 0)) ∧
        (s.drv.mig = 0 ∨ (s.drv.restart = 0 ∧ s.drv.rdma = 0)) ∧ (s.drv.restart = 0 ∨ s.drv.rdma = 0)) := by
      intro p n hc
      obtain ⟨c1, c2, c3, c4, c5⟩ := hc
      rw [c1, c2, c3, c4, c5]
      match p with
      | none => simp
      | some .drain => simp
      | some .shoot => simp
      | some .mig => simp
      | some .restart => simp
      | some .rdma => simp
    cases I.ph with
    | idle hd _ _ _ => exact key _ _ hd.ctrs
    | bcast p r σ loc hp hh hc hr hct htc hone hb hw' hm hpg hrh => exact key _ _ hct
    | mig r fl ws hh hc hr hct hmp hw' hm hrh => exact key _ _ hct
  · intro hh
    cases I.ph with
    | idle hd hg hw _ =>
      obtain ⟨c1, c2, c3, c4, c5⟩ := hd.ctrs
      simp at c1 c2 c3 c4 c5
      refine ⟨c1, c2, c3, c4, c5, hd.toSend, hd.toCP, hd.one, hw.live, fun g => ?_⟩
      have q := (hg g).qs
      have e : ∀ cl, (s.cm g).quiet cl = [] := by
        intro cl
        apply List.eq_nil_iff_forall_not_mem.mpr
        intro i hi
        have := (q cl i).mp hi
        cases cl <;> simp [qFull] at this
      exact ⟨e .rdma, e .cu, e .at, e .cache, e .tlb⟩
    | bcast p r σ loc hp hh' _ _ _ _ _ _ _ _ _ _ => rw [hh'] at hh; cases hh
    | mig r fl ws hh' _ _ _ _ _ _ _ => rw [hh'] at hh; cases hh

/-! ## termination -/

/-- **handshake_progress (c, the measure).** `rank s = (R s, L s)` ordered lexicographically — `R` = the
    driver-level steps the requests known to the driver still need (phase changes, two per page still to be
    migrated), `L` = every message in flight weighted by the hops it and everything it will spawn still
    has to make (driver queues, command processors with their fan-outs to come, components, the two
    controllers with network and memories, the answer to the MMU). In every reachable state:
    1. no move other than a new request of the MMU increases the rank (any driver stage or tick, any
       command-processor stage or tick, any connection transfer, any component taking or acknowledging a
       request in any order, any controller / network / memory move);
    2. unless the driver has nothing left to do for the MMU (`Quiescent`: not handling, no request waiting,
       no answer on its way), some allowed move strictly decreases the rank: the system is never stuck. -/
theorem handshake_progress {s : SY.Sys} (h : SY.Reach s) :
    (∀ m : Mv, m.ok s → m.isSend = false → LexLe (rank (SY.step s m)) (rank s)) ∧
    (¬ SY.Quiescent s → ∃ m : Mv, m.ok s ∧ m.isSend = false ∧ LexLt (rank (SY.step s m)) (rank s)) :=
  ⟨fun m hm hs => rank_step_le (SY.reach_inv h) m hm hs, fun hq => enabled (SY.reach_inv h) hq⟩

/-- **handshake_terminates (c).** Every infinite schedule of allowed moves without further MMU requests that
    is fair — whenever some component can make progress, eventually a move that makes progress is taken —
    reaches a state in which the driver is idle: every request the MMU ever sent was taken, answered and
    the answer received (`mmuGot = mmuSent`), all five acknowledgement counters are 0, the driver's queues
    are empty, no page migration request is in flight, and nothing is paused any more: every RDMA engine,
    compute unit, address translator, cache and TLB of every GPU has been restarted. (The lexicographic
    order on pairs of naturals is well founded: `lexLt_wf`.) -/
theorem handshake_terminates {s0 : SY.Sys} {σ : Nat → Mv} {st : Nat → SY.Sys} (h0 : SY.Reach s0)
    (hr : Run s0 σ st) (hf : Fair σ st) :
    ∃ N, SY.Quiescent (st N) ∧ (st N).mmuGot = (st N).mmuSent ∧ (st N).drv.answered = (st N).drv.taken ∧
      (st N).drv.drain = 0 ∧ (st N).drv.shoot = 0 ∧ (st N).drv.mig = 0 ∧ (st N).drv.restart = 0 ∧
      (st N).drv.rdma = 0 ∧ (st N).drv.toSend = [] ∧ (st N).drv.toCP = [] ∧ (st N).w.live = [] ∧
      ∀ g, ((st N).cm g).qRdma = [] ∧ ((st N).cm g).qCU = [] ∧ ((st N).cm g).qAT = [] ∧
        ((st N).cm g).qCache = [] ∧ ((st N).cm g).qTLB = [] := by
  obtain ⟨N, hq⟩ := fair_run_quiesces h0 hr hf
  have hR := run_reach h0 hr N
  obtain ⟨q1, q2, q3, q4⟩ := hq
  obtain ⟨c1, c2, c3, c4, c5, c6, c7, _, c9, c10⟩ := (handshake_no_fault_ordered hR).2.2 q1
  obtain ⟨m1, m2, m3, m4, pc, _, m5, m6⟩ := mmu_answered_once_in_order hR
  have hpc := m6 q1
  subst hpc
  rw [q3] at m5
  rw [q4] at m4
  rw [q2] at m3
  simp only [List.map_nil, List.append_nil] at m3 m4 m5
  refine ⟨N, ⟨q1, q2, q3, q4⟩, by rw [m4, m5, m3], m5, c1, c2, c3, c4, c5, c6, c7, c9, c10⟩

/-! ## full statements that the code does not meet -/

/-- "the old frame is released by `preparePageForMigration` itself": after the call the old physical page is in
    the free list of the device it belonged to -/
def old_frame_released_by_prepare : Prop :=
  ∀ (a a' : Alloc) (pid vaddr gpu old : Nat) (pg : Page), prepare a pid vaddr gpu = .ok (pg, old, a') →
    ∃ f ∈ a'.free, old ∈ f

/-- **refuted — and rightly so**: `preparePageForMigration` only takes a frame (`AllocatePageWithGivenVAddr`); the
    page migration controller still READS the old frame, so it must not be reusable yet. Witness: CPU with 2
    pages, two GPUs with 2 pages each, a page of process 1 on GPU 1 is re-homed to GPU 2 — its old frame 0x3000 is
    in no free list afterwards (nor mapped). Before the repair of finding `C19-old-frame-not-released` nothing
    gave it back later either (`old_frame_released_before_fix_refuted`); now the driver gives it back when the
    page's `PageMigrationRspToDriver` arrives (`old_frame_released_full`). -/
theorem old_frame_released_by_prepare_refuted : ¬ old_frame_released_by_prepare := by
  intro h
  have ha : (mkAlloc 12 2 [2, 2]).allocate 1 1 1 = .ok (match (mkAlloc 12 2 [2, 2]).allocate 1 1 1 with
    | .ok a => a
    | .error _ => default) := by rfl
  generalize hA : (match (mkAlloc 12 2 [2, 2]).allocate 1 1 1 with
    | .ok a => a
    | .error _ => default) = A at ha
  have hp : ∃ pg a', prepare A 1 4096 1 = .ok (pg, 12288, a') ∧ ∀ f ∈ a'.free, 12288 ∉ f := by
    subst hA
    exact ⟨_, _, rfl, by decide⟩
  obtain ⟨pg, a', hp1, hp2⟩ := hp
  obtain ⟨f, hf, hd⟩ := h A a' 1 4096 1 12288 pg hp1
  exact hp2 f hf hd

/-- **old_frame_released_full — a THEOREM since the repair of finding `C19-old-frame-not-released`.** In every
    reachable state of the closed system (real driver, command processors, page migration controllers, MMU) in
    which the acknowledgement of the migrate command in flight is at the head of the driver's GPU port:
    `processReturnReq` does not fault, and the old frame the driver remembered when it sent that command
    (`currentlyMigratingFromPAddr`, set by `sendMigrationReqToCP` to the command's `ToReadFromPhysicalAddress`:
    `sMig_remembers_old_frame`) is appended to the free list of the device whose address range holds it — one of
    the two GPUs, the frame lies inside that GPU's memory — every other free list and the page table are
    unchanged. It is given back exactly then, not earlier: until the acknowledgement the page migration
    controller reads the frame (`handshake_window`). -/
theorem old_frame_released_full {s : SY.Sys} (h : SY.Reach s) (rest : List Ans) (hin : s.drv.gpuIn = .mig :: rest) :
    ∃ d l, (d = 1 ∨ d = 2) ∧ s.drv.alloc.free[d]? = some l ∧
      s.drv.ret.1.fault = none ∧ s.drv.ret.1.alloc.free = s.drv.alloc.free.set d (l ++ [s.drv.oldF]) ∧
      s.drv.ret.1.alloc.table = s.drv.alloc.table ∧ s.drv.alloc.deviceOf s.drv.oldF = some d ∧
      s.drv.oldF + (1 <<< s.drv.alloc.lg) ≤ (s.w.sys.mem (d - 1)).size := by
  have I := SY.reach_inv h
  have nf := I.nf
  cases I.ph with
  | idle di _ _ _ => rw [di.gpuIn] at hin; cases hin
  | bcast p r σ loc hp _ _ _ _ _ _ bc _ _ _ _ =>
    exact absurd (bc.gpuIn.symm.trans hin) (c4_no_mig p r hp _ rest)
  | mig r fl ws hh hc rq ct mp wi mi rh =>
    have hg := mp.gpuIn
    rw [hin] at hg
    have hone : s.drv.one = true := by
      rcases fl with _ | ⟨m, a⟩
      · simp [flIn] at hg
      · simpa using mp.one
    obtain ⟨d, hd12, hdev, hb⟩ := I.rel.flying hone
    obtain ⟨l, hl, hrel⟩ := c4_release s.drv.alloc s.drv.oldF d I.rel.ranges hdev
    refine ⟨d, l, hd12, hl, ?_⟩
    have hrest : rest = [] := by
      rcases fl with _ | ⟨m, a⟩
      · simp [flIn] at hg
      · cases a <;> simp [flIn] at hg
        exact hg
    subst hrest
    have hmig : s.drv.mig = s.drv.toCP.length + 1 := by have := mp.ctr; rw [← mp.one, hone] at this; simpa using this
    by_cases he : s.drv.toCP = []
    · have hd : CP.dec s.drv.mig = 0 := by rw [hmig, c4_dec_succ, he]; rfl
      have hr0 : s.drv.restart = 0 := by have := ct.2.2.2.1; simpa using this
      have htm : s.drv.toMMU = none := (mi.fresh (by simp)).1
      rw [c4_ret_zero s.drv [] r _ nf hin hone hrel hd hc hr0 rq.accLt rq.accIn htm]
      exact ⟨nf, rfl, rfl, hdev, hb⟩
    · have hd : CP.dec s.drv.mig ≠ 0 := by
        rw [hmig, c4_dec_succ]; exact fun h0 => he (List.length_eq_zero_iff.mp h0)
      rw [c4_ret_ne s.drv [] _ nf hin hone hrel hd]
      exact ⟨nf, rfl, rfl, hdev, hb⟩

/-- `sendMigrationReqToCP` remembers the old frame of the command it sends -/
theorem sMig_remembers_old_frame (d : Drv) (h : d.sMig.2 = true) :
    ∃ m rest, d.toCP = m :: rest ∧ d.sMig.1.oldF = m.rd ∧ d.sMig.1.one = true ∧ d.sMig.1.toCP = rest := by
  unfold Drv.sMig at h ⊢
  by_cases hf : d.fault.isSome = true
  · simp [hf] at h
  · cases hq : d.toCP with
    | nil => simp [hf, hq] at h
    | cons m rest =>
      by_cases ho : d.one = true
      · simp [hf, hq, ho] at h
      · by_cases hl : d.gpuOut.length < d.capGpuOut
        · exact ⟨m, rest, rfl, by simp [hf, ho, hl]⟩
        · simp [hf, hq, ho, hl] at h

/-- `processReturnReq` BEFORE the repair: the acknowledgement of a migrate command only decremented the counter
    and cleared `isCurrentlyMigratingOnePage` (the repaired function with the flag already cleared releases
    nothing) -/
def retBeforeRelease (d : Drv) : Drv × Bool :=
  match d.gpuIn with
  | .mig :: _ => ({ d with one := false } : Drv).ret
  | _ => d.ret

/-- CPU and two GPUs with two frames each; frame 0x3000 of GPU 1 is in use (not on its free list) -/
def demoRelAlloc : Alloc :=
  { lg := 12, free := [[4096, 8192], [16384], [20480, 24576]], range := [(4096, 8192), (12288, 8192), (20480, 8192)] }

/-- the full clause for the code before the repair: after the acknowledgement the remembered old frame is in
    some free list -/
def old_frame_released_before_fix : Prop :=
  ∀ d : Drv, d.fault = none → d.one = true → (∃ rest, d.gpuIn = .mig :: rest) →
    ∃ f ∈ (retBeforeRelease d).1.alloc.free, d.oldF ∈ f

/-- **refuted — the former finding `C19-old-frame-not-released`**: two GPUs with two frames each, the command in
    flight migrates a page away from frame 0x3000 of GPU 1; after the acknowledgement (old code) the frame is in no
    free list, and no page-table entry names it: lost for ever. On the repaired code the same state gives it
    back to GPU 1 (`example` below). -/
theorem old_frame_released_before_fix_refuted : ¬ old_frame_released_before_fix := by
  intro h
  have := h { ngpu := 2, nPmc := 2, alloc := demoRelAlloc, one := true, oldF := 12288, mig := 2,
              cur := some ⟨0, 1, 1, [1], [], 4096⟩, handling := true, gpuIn := [.mig] } rfl rfl ⟨[], rfl⟩
  revert this
  decide

example : (({ ngpu := 2, nPmc := 2, alloc := demoRelAlloc, one := true, oldF := 12288, mig := 2,
              cur := some ⟨0, 1, 1, [1], [], 4096⟩, handling := true, gpuIn := [.mig] } : Drv).ret.1.alloc.free) =
    [[4096, 8192], [16384, 12288], [20480, 24576]] ∧
    (({ ngpu := 2, nPmc := 2, alloc := demoRelAlloc, one := true, oldF := 12288, mig := 2,
        cur := some ⟨0, 1, 1, [1], [], 4096⟩, handling := true, gpuIn := [.mig] } : Drv).ret.1.fault) = none := by decide

/-- the full clause "every request is answered" for an MMU that may have several requests outstanding and
    may leave answers in the driver's port: no answer is ever overwritten in `toSendToMMU` -/
def mmu_answer_any_mmu_full : Prop :=
  ∀ d : Drv, d.fault = none → d.lost = [] → (d.ret.1).lost = []

/-- **refuted**: `preparePageMigrationRspToMMU` overwrites the single slot `toSendToMMU`; witness: the answer
    to request 1 still waits there (the MMU port's outgoing buffer holds the answer to request 0) when the
    last page of request 2 is acknowledged — request 1 is never answered (reproduced on the real driver as
    `C19.drv.mmu-answer-overwritten`; unreachable with the shipped MMU, which has one request outstanding:
    `mmu_answered_once_in_order`) -/
theorem mmu_answer_any_mmu_full_refuted : ¬ mmu_answer_any_mmu_full := by
  intro h
  have := h { ngpu := 2, nPmc := 2, cur := some ⟨2, 1, 1, [1], [], 4096⟩, handling := true, mig := 1, one := true,
              alloc := mkAlloc 12 2 [2, 2], oldF := 12288,
              gpuIn := [.mig], toMMU := some (1, []), mmuOut := [(0, [])] } rfl rfl
  revert this
  decide

/-! ## the quiet-tick rule -/

/-- **cp_tick_sleeps (3).** A tick of the command processor that reports no progress leaves the state
    unchanged (including every buffer), so the next tick reports no progress either: the component may
    sleep. And it reports no progress exactly when none of its eight stages can act. -/
theorem cp_tick_sleeps (s : Cp) :
    (s.tick.2 = false → s.tick.1 = s ∧ s.tick.1.tick = (s.tick.1, false)) ∧
    (s.tick.2 = false ↔ ∀ f ∈ CP.stages, (f s).2 = false) :=
  ⟨fun h => ⟨CP.tick_quiet s h, CP.tick_sleeps s h⟩, CP.tick_quiet_iff s⟩

/-- **drv_tick_sleeps (3).** The same for the migration stages of the repaired `Driver.Tick`. -/
theorem drv_tick_sleeps (d : Drv) :
    (d.tick.2 = false → d.tick.1 = d ∧ d.tick.1.tick = (d.tick.1, false)) ∧
    (d.tick.2 = false ↔ ∀ f ∈ DR.stages, (f d).2 = false) :=
  ⟨fun h => ⟨DR.tick_quiet d h, DR.tick_sleeps d h⟩, DR.tick_quiet_iff d⟩

/-- **drv_tick_old_refuted (3).** The driver as it was before the repair 43a1a06d
    (`processShootdownCompleteRsp` reported progress only for the last acknowledgement) violates the rule:
    with two shootdown acknowledgements in its port it consumes one, reports no progress, and would be put
    to sleep with the other one waiting. -/
theorem drv_tick_old_refuted : ¬ DR.quietRuleOld := DR.quietRuleOld_refuted

/-! ## the theorems are not vacuous: a complete handshake of the closed system

Two GPUs with one CU, AT, cache and TLB each, pages of 64 bytes, one page of process 1 on GPU 1 (frame 0x80)
requested by GPU 2, both GPUs accessing. The schedule below (132 state-changing moves after the MMU's request) drains both RDMA engines,
shoots both GPUs down, copies the page, restarts everything and ends idle. -/

def demoAlloc : Alloc :=
  match (mkAlloc 6 1 [1, 1]).allocate 1 1 1 with
  | .ok a => a
  | .error _ => default

def demoS0 : SY.Sys :=
  { drv := { ngpu := 2, nPmc := 2, alloc := demoAlloc }, cp := fun _ => { nS := 0, nV := 0, n2 := 0 }, w := { sys := { m0 := Array.ofFn (n := 256) (fun x => x.val % 251), m1 := Array.replicate 256 7 } } }

def demoReq : MmuReq := ⟨0, 1, 1, [1, 2], [(2, [64])], 64⟩

def demoMoves : List Mv :=
  [
    .dtick, .dtick, .toCp, .ctick 0, .take 0 .rdma, .ack 0 .rdma 0, .dtick, .toCp, .ctick 0, .ctick 1,
    .toDrv 0, .take 1 .rdma, .ack 1 .rdma 0, .dtick, .ctick 1, .toDrv 1, .dtick, .dtick, .toCp, .ctick 0,
    .take 0 .cu, .ack 0 .cu 0, .dtick, .toCp, .ctick 0, .ctick 1, .take 0 .at, .ack 0 .at 0, .take 1 .cu,
    .ack 1 .cu 0, .ctick 0, .ctick 1, .take 0 .cache, .ack 0 .cache 0, .take 1 .at, .ack 1 .at 0, .ctick 0,
    .ctick 1, .take 0 .tlb, .ack 0 .tlb 0, .take 1 .cache, .ack 1 .cache 0, .ctick 0, .ctick 1, .toDrv 0,
    .take 1 .tlb, .ack 1 .tlb 0, .dtick, .ctick 1, .toDrv 1, .dtick, .dtick, .toCp, .ctick 1, .pmcTake 1,
    .world (Op.ctl 1), .world (Op.tick 1), .world (Op.tick 1), .world (Op.pick 1), .world (Op.dnet 0),
    .world (Op.tick 0), .world (Op.tick 0), .world (Op.mtake 0), .world (Op.mdo 0 0), .world (Op.mrsp 0 0),
    .world (Op.tick 0), .world (Op.tick 0), .world (Op.pick 0), .world (Op.dnet 0), .world (Op.tick 1),
    .world (Op.tick 1), .world (Op.mtake 1), .world (Op.mdo 1 0), .world (Op.mrsp 1 0), .world (Op.tick 1),
    .world (Op.tick 1), .pmcColl 1, .pmcBack 1, .ctick 1, .toDrv 1, .dtick, .dtick, .toCp, .ctick 0,
    .take 0 .cache, .ack 0 .cache 0, .mmuTake, .dtick, .toCp, .ctick 0, .ctick 1, .take 0 .tlb,
    .ack 0 .tlb 0, .take 1 .cache, .ack 1 .cache 0, .ctick 0, .ctick 1, .take 0 .at, .ack 0 .at 0,
    .take 1 .tlb, .ack 1 .tlb 0, .ctick 0, .ctick 1, .take 0 .cu, .ack 0 .cu 0, .take 1 .at, .ack 1 .at 0,
    .ctick 0, .ctick 1, .toDrv 0, .take 1 .cu, .ack 1 .cu 0, .dtick, .ctick 1, .toDrv 1, .dtick, .dtick,
    .toCp, .ctick 0, .take 0 .rdma, .ack 0 .rdma 0, .dtick, .toCp, .ctick 0, .ctick 1, .toDrv 0,
    .take 1 .rdma, .ack 1 .rdma 0, .dtick, .ctick 1, .toDrv 1, .dtick]

def demoMid (f : SY.Sys) : Bool := f.w.live.length == 1 && f.drv.mig == 1

def demoEnd (f : SY.Sys) : Bool :=
  !f.drv.handling && f.drv.taken == [0] && f.drv.answered == [0] && f.mmuGot == [0] && f.w.live.length == 0 &&
  readBytes f.w.sys.m1 192 64 == readBytes demoS0.w.sys.m0 128 64 && readByte demoS0.w.sys.m1 192 == 7

/-- moves other than the MMU's request whose validity does not depend on the state -/
def okB : Mv → Bool
  | .world o => o.honest && !o.isSubmit && !SY.Op.isColl o
  | .mmuSend _ => false
  | _ => true

theorem ok_of_okB (s : SY.Sys) (m : Mv) (h : okB m = true) : m.ok s := by
  cases m <;> simp_all [okB, Mv.ok]

theorem reach_run {s : SY.Sys} (h : SY.Reach s) (ms : List Mv) (hv : ms.all okB = true) : SY.Reach (SY.run s ms) := by
  induction ms generalizing s with
  | nil => exact h
  | cons m ms ih =>
    simp only [List.all_cons, Bool.and_eq_true] at hv
    exact ih (SY.Reach.step m h (ok_of_okB s m hv.1)) hv.2

theorem demo_init : Init demoS0 := by
  refine ⟨by decide, by decide, rfl, fun _ => ?_, fun _ => rfl, fun _ => rfl, ⟨_, _, rfl⟩, fun _ => rfl, ⟨rfl, rfl⟩, ?_, by decide,
    by unfold RangeOK; decide +kernel⟩
  · show CfgOK ({ nS := 0, nV := 0, n2 := 0 } : Cp)
    exact ⟨by decide, by decide, by decide, by decide, by decide, by decide, by decide, by decide, by decide,
      by decide, by decide, by decide, by decide⟩
  · intro d hd
    rcases hd with rfl | rfl <;> exact ⟨by decide +kernel, by decide +kernel⟩

theorem demo_req_ok : MmuOK demoS0 demoReq := by
  have hm : migOrder 2 demoReq.map = [(1, 64)] := by decide
  refine ⟨rfl, rfl, by decide, Or.inl rfl, ?_, ?_, ?_, rfl, by decide, ?_, by decide, by decide, by decide, ?_, by decide⟩
  · intro x hx
    have : x = (1, 64) := by
      have : x ∈ migOrder 2 demoReq.map := hx
      rw [hm] at this; simpa using this
    subst this
    exact ⟨by decide, by decide, by decide, ⟨_, rfl, rfl⟩⟩
  · show ((migOrder 2 demoReq.map).map (·.2)).Nodup
    rw [hm]; decide
  · show migOrder 2 demoReq.map ≠ []
    rw [hm]; decide
  · intro g hg
    have : g = 0 ∨ g = 1 := by omega
    rcases this with rfl | rfl <;> decide
  · show (migOrder 2 demoReq.map).length < CP.w64
    rw [hm]; decide

/-- the state after the request and the first `k` moves of the schedule is reachable -/
theorem demo_reach (k : Nat) : SY.Reach (SY.run (SY.step demoS0 (.mmuSend demoReq)) (demoMoves.take k)) := by
  refine reach_run (SY.Reach.step (.mmuSend demoReq) (SY.Reach.init demo_init) demo_req_ok) _ ?_
  have : demoMoves.all okB = true := by decide
  rw [List.all_eq_true] at this ⊢
  exact fun m hm => this m (List.mem_of_mem_take hm)

/-- after 55 moves the controller of GPU 2 has taken the request: a copy is in flight, so `handshake_window`
    and `pages_rehomed_once` apply non-trivially (migrate counter 1, one live request) -/
example : demoMid (SY.run (SY.step demoS0 (.mmuSend demoReq)) (demoMoves.take 55)) = true := by decide +kernel

/-- the whole schedule: the request was taken and answered once, the MMU got the answer, the driver is idle,
    no request is live, and the new frame on GPU 2 (0xc0) holds the bytes of the old frame on GPU 1 (0x80) -/
example : demoEnd (SY.run (SY.step demoS0 (.mmuSend demoReq)) demoMoves) = true := by decide +kernel

/-- `handshake_progress` / `handshake_terminates` are not vacuous: right after the MMU's request the driver
    is not quiescent, and along the schedule the rank goes from (9, 0) — a request of one page waiting — over
    (3, 36) — the page being copied — down to (0, 0) -/
example : ¬ SY.Quiescent (SY.step demoS0 (.mmuSend demoReq)) ∧
    rank (SY.step demoS0 (.mmuSend demoReq)) = (9, 0) ∧
    rank (SY.run (SY.step demoS0 (.mmuSend demoReq)) (demoMoves.take 55)) = (3, 36) ∧
    rank (SY.run (SY.step demoS0 (.mmuSend demoReq)) demoMoves) = (0, 0) := by
  refine ⟨fun h => ?_, by decide +kernel, by decide +kernel, by decide +kernel⟩
  have := h.2.1
  revert this
  decide

/-! ## a driver cache flush and a TLB shootdown exclude each other (finding `C19-cp-flush-lost-in-shootdown`, repaired)

Both count their cache acknowledgements in `numCacheACK`, and `processCacheFlushRsp` tells them apart by
`shootDownInProcess` only. -/

/-- **while a shootdown is in process `processFlushReq` accepts nothing**: the `FlushReq` stays at the head of the
    driver port, no cache is asked, no counter moves -/
theorem flush_waits_for_shootdown (s : Cp) (h : s.shoot = true) : Cp.hFlush s = (s, false) := by
  unfold Cp.hFlush
  split
  · rfl
  · split
    · split
      · rfl
      · simp [h]
    · rfl

/-- **while the caches owe acknowledgements (flush or restart) `processShootdownCommand` accepts nothing** -/
theorem shootdown_waits_for_cache_acks (s : Cp) (id : Nat) (rest : List Cmd) (hd : s.drvIn = .shoot id :: rest)
    (h : 0 < s.numCache) : Cp.hCtrl s = (s, false) := by
  unfold Cp.hCtrl
  split
  · rfl
  · simp only [hd]
    split
    · rfl
    · simp [h]

/-- a command processor with 4 caches in which shootdown 0 has been accepted (the compute unit is being flushed) and
    the driver's `FlushReq` 7 arrives -/
def overlapCp : Cp :=
  { capIn := 8, capDrv := 8, capRdma := 8, capCU := 8, capAT := 8, capCache := 8, capTLB := 8, capPMC := 8,
    shoot := true, curShoot := some 0, numCU := 1, drvIn := [.flush 7] }

def fourAcks (s : Cp) : Cp :=
  (Cp.rCache (Cp.rCache (Cp.rCache (Cp.rCache { s with cacheIn := [⟨.flush, 0, 0⟩, ⟨.flush, 1, 0⟩, ⟨.flush, 2, 0⟩, ⟨.flush, 3, 0⟩] }).1).1).1).1

/-- **before the repair** the flush was accepted during the shootdown (4 cache flushes, `currFlushRequest` = 7), and its
    own 4 acknowledgements were taken for the shootdown's cache reset: `currFlushRequest` cleared, the TLB flush sent
    although compute unit, address translator and caches of the shootdown had not been flushed, and NO answer to the
    driver — the flush was lost. The repaired `processFlushReq` leaves the request in the port. -/
theorem flush_lost_in_shootdown_before_fix :
    (Cp.hFlushOld overlapCp).2 = true ∧ (Cp.hFlushOld overlapCp).1.numCache = 4 ∧ (Cp.hFlushOld overlapCp).1.curFlush = some 7 ∧
    (fourAcks (Cp.hFlushOld overlapCp).1).curFlush = none ∧ (fourAcks (Cp.hFlushOld overlapCp).1).drvOut = [] ∧
    (fourAcks (Cp.hFlushOld overlapCp).1).tlbOut = [⟨.flush, 0, 0⟩] ∧ (fourAcks (Cp.hFlushOld overlapCp).1).numCU = 1 ∧
    Cp.hFlush overlapCp = (overlapCp, false) := by
  refine ⟨by decide, by decide, by decide, by decide, by decide, by decide, by decide, flush_waits_for_shootdown _ rfl⟩

end C19
