import MgpuProofs.C06Sdwa
import MgpuProofs.Props.C06Body
/-! # C06 — SDWA: the state wrapper `emu.NewSDWAState` preserves lane independence and EXEC obedience

Since the SDWA repair both `runVOP2` dispatchers wrap the state of an SDWA instruction
(`if inst.IsSdwa { state = NewSDWAState(state) }`) and run the ORDINARY handler on it: the handler sees a plain
instruction, its reads of SRC0 / SRC1 deliver the selected byte / word, its write of the vector destination
goes through DST_SEL / DST_UNUSED (which READS the old destination of that lane). The wrapper sits outside
the translated lane bodies; `LaneHandler.sdwaWrap` (MgpuModel/C06_Deep.lean) is its model — the two select
functions are translated from `amd/emu/sdwa.go`, the wrapper methods are transcribed by hand
(`hand_modelled_unchanged` in Props/C06Deep.lean holds their source hashes), and the `c06 sdwa` / `c06 sdwarun`
correspondence (harness/c06_sdwa.go) runs real SDWA encodings of every translated VOP2 opcode against it.

Proved here: wrapping keeps every translated body lane-uniform, hence the wrapped handler AS GO RUNS IT is an
instance of the skeleton `vexec`, and the inactive-lane / lane-independence / permutation theorems hold for
SDWA instructions by instantiation. -/
namespace C06
open Gen.Lane

theorem tagsOK_of_mem (h : LaneHandler) (hm : h ∈ Gen.Lane.laneHandlers) : TagsOK h := by
  have ht := List.all_eq_true.mp mask_tags_consistent h hm
  simp only [Bool.and_eq_true, Bool.or_eq_true, bne_iff_ne, beq_iff_eq, ne_eq] at ht
  exact ⟨fun h2 => by rcases ht.1 with h3 | h3; exact absurd h2 h3; exact h3,
         fun h2 => by rcases ht.2 with h3 | h3; exact absurd h2 h3; exact h3⟩

/-- **The SDWA wrapper keeps every translated lane body lane-uniform**: under `NewSDWAState`, iteration `i`
    still looks only at bit `i` of the masks and changes only bit `i` of the accumulator — the sub-dword
    selection is applied to the lane's own operand values and to the lane's own old destination. -/
theorem sdwa_wrapper_keeps_lane_uniformity : ∀ h ∈ Gen.Lane.laneHandlers, LaneUniform h.sdwaWrap :=
  fun h hm => sdwa_preserves_uniform h (lane_bodies_uniform h hm)

private def exU : Uni :=
  { Uni.zero with isSdwa := true, src0Sel := 0xff00#32, src1Sel := 0xffffffff#32, dstSel := 0xffff0000#32, dstUnused := 2#8 }

-- v_and_b32_sdwa v, v, v dst_sel:WORD_1 dst_unused:UNUSED_PRESERVE src0_sel:BYTE_1: (0x56 & 0xffffffff) placed in
-- the upper word, the lower word kept from the old destination
example : (Gen.Lane.laneHandlers.any fun h => h.arch == "gcn3" && h.name == "runVANDB32") = true ∧
    (lh_gcn3_runVANDB32.sdwaWrap.raw exU ⟨3, 0x12345678#64, 0xffffffff#64, 0#64, 0xaaaabbbb#64, 0#64, 0#64⟩).dst
      = some 0x0056bbbb#64 := by
  refine ⟨by decide +kernel, by decide⟩

/-- **An SDWA instruction as Go runs it IS an instance of the skeleton**: for every translated handler under
    the wrapper, every operand placement, EXEC, VCC, register file: the Go loop equals `vexec` of the wrapped
    lane-local body on the VGPR file and, bit by bit, on the written-back mask. -/
theorem sdwa_handler_is_vexec (h : LaneHandler) (hm : h ∈ Gen.Lane.laneHandlers) (ops : Ops)
    (exec vcc0 m : BitVec 64) (vgpr : Nat → Nat → Nat) (hs : IsMaskSource h ops vcc0 m) :
    (goRun h.sdwaWrap ops exec vcc0 vgpr).vgpr = (vexec h.sdwaWrap.toHandler ops exec (absState vgpr m vcc0)).vgpr ∧
    (h.accInit ≠ .none →
      ∀ l, (goRun h.sdwaWrap ops exec vcc0 vgpr).acc.getLsbD l
        = (vexec h.sdwaWrap.toHandler ops exec (absState vgpr m vcc0)).mout l) :=
  handler_is_vexec_gen h.sdwaWrap (sdwa_wrapper_keeps_lane_uniformity h hm) (tagsOK_sdwa h (tagsOK_of_mem h hm))
    ops exec vcc0 m vgpr hs

example : IsMaskSource lh_gcn3_runVADDCU32 ⟨.vgpr 0 1, .vgpr 1 1, .uni 0, .vgpr 2 1, exU⟩ 0x5#64 0x5#64 :=
  ⟨fun _ => rfl, fun h => by cases h⟩

/-- what `runVOP2` runs for a handler: the wrapped one for an SDWA instruction, the plain one otherwise — in
    both cases a lane-uniform handler with consistent tags -/
theorem vop2Handler_good (h : LaneHandler) (hm : h ∈ Gen.Lane.laneHandlers) (u : Uni) :
    LaneUniform (vop2Handler h u) ∧ TagsOK (vop2Handler h u) ∧
    (vop2Handler h u).msrc = h.msrc ∧ (vop2Handler h u).accInit = h.accInit := by
  unfold vop2Handler
  split
  · exact ⟨sdwa_wrapper_keeps_lane_uniformity h hm, tagsOK_sdwa h (tagsOK_of_mem h hm), rfl, rfl⟩
  · exact ⟨lane_bodies_uniform h hm, tagsOK_of_mem h hm, rfl, rfl⟩

theorem isMaskSource_vop2 (h : LaneHandler) (ops : Ops) (vcc0 m : BitVec 64) (hs : IsMaskSource h ops vcc0 m) (u : Uni) :
    IsMaskSource (vop2Handler h u) ops vcc0 m := by
  unfold vop2Handler; split <;> exact hs

/-- **`runVOP2` (SDWA or not) is `vexec`**: the dispatcher's `if inst.IsSdwa { state = NewSDWAState(state) }`
    followed by the handler equals the skeleton instance of the handler it selects. -/
theorem vop2_is_vexec (h : LaneHandler) (hm : h ∈ Gen.Lane.laneHandlers) (ops : Ops)
    (exec vcc0 m : BitVec 64) (vgpr : Nat → Nat → Nat) (hs : IsMaskSource h ops vcc0 m) :
    (vop2Run h ops exec vcc0 vgpr).vgpr
      = (vexec (vop2Handler h ops.uni).toHandler ops exec (absState vgpr m vcc0)).vgpr ∧
    (h.accInit ≠ .none →
      ∀ l, (vop2Run h ops exec vcc0 vgpr).acc.getLsbD l
        = (vexec (vop2Handler h ops.uni).toHandler ops exec (absState vgpr m vcc0)).mout l) := by
  obtain ⟨hu, ht, _, ha⟩ := vop2Handler_good h hm ops.uni
  have := handler_is_vexec_gen _ hu ht ops exec vcc0 m vgpr (isMaskSource_vop2 h ops vcc0 m hs ops.uni)
  exact ⟨this.1, fun hne => this.2 (by rw [ha]; exact hne)⟩

example : vop2Handler lh_gcn3_runVANDB32 exU = lh_gcn3_runVANDB32.sdwaWrap ∧
    vop2Handler lh_gcn3_runVANDB32 Uni.zero = lh_gcn3_runVANDB32 := ⟨rfl, rfl⟩

/-- **EXEC obedience of SDWA instructions**: a lane whose EXEC bit is clear keeps its whole VGPR row — the
    wrapper's read-modify-write of the destination (it reads the old dword for UNUSED_PRESERVE) happens for
    active lanes only — and its bit of the written-back mask is 0 (fresh accumulators) / the old VCC bit. -/
theorem sdwa_inactive_lanes_unchanged (h : LaneHandler) (hm : h ∈ Gen.Lane.laneHandlers) (ops : Ops)
    (exec vcc0 m : BitVec 64) (vgpr : Nat → Nat → Nat) (hs : IsMaskSource h ops vcc0 m)
    (l : Nat) (hl : exec.getLsbD l = false) :
    (vop2Run h ops exec vcc0 vgpr).vgpr l = vgpr l ∧
    (h.accInit = .zero → (vop2Run h ops exec vcc0 vgpr).acc.getLsbD l = false) ∧
    (h.accInit = .vcc → (vop2Run h ops exec vcc0 vgpr).acc.getLsbD l = vcc0.getLsbD l) := by
  obtain ⟨hv, ha⟩ := vop2_is_vexec h hm ops exec vcc0 m vgpr hs
  obtain ⟨_, _, _, hacc⟩ := vop2Handler_good h hm ops.uni
  obtain ⟨h1, h2⟩ := inactive_lanes_unchanged (vop2Handler h ops.uni).toHandler ops exec (absState vgpr m vcc0)
    (translated_load_or_store _) l hl
  refine ⟨by rw [hv, h1]; rfl, ?_, ?_⟩
  · intro hk
    rw [ha (by simp [hk]) l, h2]
    simp [LaneHandler.toHandler, LaneHandler.maskMode, hacc, hk]
  · intro hk
    rw [ha (by simp [hk]) l, h2]
    simp [LaneHandler.toHandler, LaneHandler.maskMode, hacc, hk, absState]

example : (0x5#64).getLsbD 1 = false ∧ lh_gcn3_runVADDCU32.accInit = .zero := ⟨by decide, rfl⟩

/-- **Lane independence of SDWA instructions**: lane `l` of the result of `runVOP2` is determined by lane
    `l`'s row, its EXEC bit, its VCC bit and the instruction's (uniform) fields — selects included. -/
theorem sdwa_lane_independent (h : LaneHandler) (hm : h ∈ Gen.Lane.laneHandlers) (hns : h.msrc ≠ .src2) (ops : Ops)
    (exec exec' vcc0 vcc0' : BitVec 64) (vgpr vgpr' : Nat → Nat → Nat)
    (l : Nat) (hv : vgpr l = vgpr' l) (he : exec.getLsbD l = exec'.getLsbD l)
    (hvb : vcc0.getLsbD l = vcc0'.getLsbD l) :
    (vop2Run h ops exec vcc0 vgpr).vgpr l = (vop2Run h ops exec' vcc0' vgpr').vgpr l ∧
    (h.accInit ≠ .none →
      (vop2Run h ops exec vcc0 vgpr).acc.getLsbD l = (vop2Run h ops exec' vcc0' vgpr').acc.getLsbD l) := by
  have hs : IsMaskSource h ops vcc0 vcc0 := ⟨fun _ => rfl, fun h2 => absurd h2 hns⟩
  have hs' : IsMaskSource h ops vcc0' vcc0' := ⟨fun _ => rfl, fun h2 => absurd h2 hns⟩
  obtain ⟨hv1, ha1⟩ := vop2_is_vexec h hm ops exec vcc0 vcc0 vgpr hs
  obtain ⟨hv2, ha2⟩ := vop2_is_vexec h hm ops exec' vcc0' vcc0' vgpr' hs'
  obtain ⟨h1, h2⟩ := lane_independent (vop2Handler h ops.uni).toHandler ops exec exec'
    (absState vgpr vcc0 vcc0) (absState vgpr' vcc0' vcc0') (translated_load_or_store _) l hv
    (by simp [absState, hvb]) (by simp [absState, hvb]) rfl he
  rw [hv1, hv2]
  refine ⟨h1, fun hne => ?_⟩
  rw [ha1 hne l, ha2 hne l]
  exact h2

example : lh_gcn3_runVANDB32.msrc ≠ .src2 := by decide

/-- **Permutation equivariance of SDWA instructions**: rename the lanes of the register file, of EXEC and of
    VCC by `π`; lane `l` of the result of `runVOP2` is lane `π l` of the original result. -/
theorem sdwa_perm_equivariant (h : LaneHandler) (hm : h ∈ Gen.Lane.laneHandlers) (hns : h.msrc ≠ .src2) (ops : Ops)
    (exec exec' vcc0 vcc0' : BitVec 64) (vgpr : Nat → Nat → Nat)
    (π : Nat → Nat) (hπ : ∀ l, l < 64 → π l < 64)
    (hex : ∀ l, l < 64 → exec'.getLsbD l = exec.getLsbD (π l))
    (hvc : ∀ l, l < 64 → vcc0'.getLsbD l = vcc0.getLsbD (π l)) (l : Nat) (hl : l < 64) :
    (vop2Run h ops exec' vcc0' (fun k => vgpr (π k))).vgpr l = (vop2Run h ops exec vcc0 vgpr).vgpr (π l) ∧
    (h.accInit ≠ .none →
      (vop2Run h ops exec' vcc0' (fun k => vgpr (π k))).acc.getLsbD l
        = (vop2Run h ops exec vcc0 vgpr).acc.getLsbD (π l)) := by
  have hs : IsMaskSource h ops vcc0 vcc0 := ⟨fun _ => rfl, fun h2 => absurd h2 hns⟩
  have hs' : IsMaskSource h ops vcc0' vcc0' := ⟨fun _ => rfl, fun h2 => absurd h2 hns⟩
  obtain ⟨hv1, ha1⟩ := vop2_is_vexec h hm ops exec vcc0 vcc0 vgpr hs
  obtain ⟨hv2, ha2⟩ := vop2_is_vexec h hm ops exec' vcc0' vcc0' (fun k => vgpr (π k)) hs'
  obtain ⟨h1, h2⟩ := lane_independent (vop2Handler h ops.uni).toHandler ops exec' exec'
    (absState (fun k => vgpr (π k)) vcc0' vcc0') (permState π (absState vgpr vcc0 vcc0))
    (translated_load_or_store _) l rfl
    (by simp [absState, permState, hvc l hl]) (by simp [absState, permState, hvc l hl]) rfl rfl
  obtain ⟨p1, p2⟩ := perm_equivariant (vop2Handler h ops.uni).toHandler ops exec exec' (absState vgpr vcc0 vcc0)
    (translated_load_or_store _) π hπ hex l hl
  rw [hv1, hv2]
  refine ⟨h1.trans p1, fun hne => ?_⟩
  rw [ha1 hne, ha2 hne]
  exact h2.trans p2

example : ∀ l, l < 64 → (fun l => 63 - l) l < 64 := by intro l _; simp; omega

theorem sdwaDst_preserve (old new : BitVec 64) (sel : BitVec 32) :
    sdwaDst old new sel 2#8 =
      (((new.setWidth 32 <<< (fn_gcn3_sdwaSelectField sel).2.1.toNat) &&& (fn_gcn3_sdwaSelectField sel).1) |||
        (old.setWidth 32 &&& ~~~(fn_gcn3_sdwaSelectField sel).1)).setWidth 64 := by
  have h1 : ((2#8 : BitVec 8) == 1#8) = false := by decide
  have h2 : ((2#8 : BitVec 8) == 2#8) = true := by decide
  simp only [sdwaDst, fn_gcn3_SDWADstSelect, h1, h2, Bool.false_eq_true, if_false, if_true]

theorem preserve_outside (old x mask : BitVec 32) :
    ((x &&& mask) ||| (old &&& ~~~mask)).setWidth 64 &&& ~~~(mask.setWidth 64)
      = old.setWidth 64 &&& ~~~(mask.setWidth 64) := by
  apply BitVec.eq_of_getLsbD_eq
  intro i hi
  simp only [BitVec.getLsbD_and, BitVec.getLsbD_or, BitVec.getLsbD_not, BitVec.getLsbD_setWidth]
  by_cases h32 : i < 32
  · cases mask.getLsbD i <;> cases old.getLsbD i <;> cases x.getLsbD i <;> simp [h32]
  · have h1 := BitVec.getLsbD_of_ge old i (by omega)
    have h2 := BitVec.getLsbD_of_ge x i (by omega)
    simp [h1, h2]

/-- **UNUSED_PRESERVE keeps the lane's own bytes**: with DST_UNUSED = PRESERVE the bits outside the selected
    field of the new destination are the bits of the SAME lane's old destination (for every one of the six
    byte / word selects), so the read-modify-write of the wrapper cannot move data between lanes either. -/
theorem sdwa_dst_preserve_keeps_other_bytes (old new : BitVec 64) :
    ∀ sel ∈ [0xff#32, 0xff00#32, 0xff0000#32, 0xff000000#32, 0xffff#32, 0xffff0000#32],
      sdwaDst old new sel 2#8 &&& ~~~(sel.setWidth 64) = (old.setWidth 32).setWidth 64 &&& ~~~(sel.setWidth 64) := by
  intro sel hsel
  have hmask : (fn_gcn3_sdwaSelectField sel).1 = sel := by
    simp only [List.mem_cons, List.mem_nil_iff, or_false] at hsel
    rcases hsel with rfl | rfl | rfl | rfl | rfl | rfl <;> decide
  rw [sdwaDst_preserve, hmask]
  exact preserve_outside _ _ _

example : sdwaDst 0xaaaabbbb#64 0x56#64 0xffff0000#32 2#8 = 0x0056bbbb#64 := by decide

end C06
