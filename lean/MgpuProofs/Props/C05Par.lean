import MgpuModel.C05_Par
/-! # C05 — the parallel engine clause: "the functional results remain identical"

`sim.ParallelEngine` runs the events of one ROUND (same time, same class; `MgpuModel/C05_Par.lean`,
tied to the real engine by the `c05 par` case lines) in one goroutine each and waits for all of
them. Which events form a round is a function of the script; the order in which their handlers
take effect is up to the host scheduler. Model-level statement of the clause:

* `parallel_round_order_independent` — if the handlers of a round's events pairwise commute, every
  order of the round (every permutation of its events) leaves the same state;
* `distinct_components_commute` / `parallel_round_distinct_components` — handlers that each touch
  only the state of their own component commute when the events of the round belong to pairwise
  different components (an Akita component has at most one tick event per cycle:
  `TickScheduler.nextTickTime`), so the component states after a round do not depend on the host
  schedule;
* `same_component_events_break_it` — the hypothesis cannot be dropped: two same-time events of ONE
  component with non-commuting handlers give different states in the two orders. This is the
  residue the property excludes for the parallel engine (times / counters may differ there: two
  senders filling one port buffer in one cycle do so in goroutine order).
-/
namespace C05
namespace Par

/-- the handlers of the events of one round pairwise commute -/
def Commute {S E : Type} (f : S → E → S) (l : List E) : Prop :=
  ∀ a ∈ l, ∀ b ∈ l, ∀ s, f (f s a) b = f (f s b) a

/-- **A round of commuting handlers has one result, whatever the order** in which the goroutines
    of `runEventsUntilConflict` take effect: for every permutation of the round's events the state
    after the round is the same. -/
theorem parallel_round_order_independent {S E : Type} (f : S → E → S) (l₁ l₂ : List E)
    (hp : l₁.Perm l₂) (hc : Commute f l₁) (s : S) : l₁.foldl f s = l₂.foldl f s :=
  hp.foldl_eq' (fun x hx y hy z => hc x hx y hy z) s

/-- component states; an event names its component and what its handler does to that component -/
abbrev Comps := Nat → Nat
abbrev CEv := Nat × (Nat → Nat)

/-- a handler that touches only the state of its own component -/
def applyEv (s : Comps) (e : CEv) : Comps := fun c => if c = e.1 then e.2 (s c) else s c

/-- handlers of pairwise different components commute -/
theorem distinct_components_commute (l : List CEv) (hd : l.Pairwise (fun a b => a.1 ≠ b.1)) :
    Commute applyEv l := by
  have hsym : ∀ a ∈ l, ∀ b ∈ l, a = b ∨ a.1 ≠ b.1 := by
    induction hd with
    | nil => intro a ha; simp at ha
    | cons hx _ ih =>
      intro a ha b hb
      rcases List.mem_cons.mp ha with ha | ha <;> rcases List.mem_cons.mp hb with hb | hb
      · exact Or.inl (ha.trans hb.symm)
      · exact Or.inr (by rw [ha]; exact hx b hb)
      · exact Or.inr (by rw [hb]; exact Ne.symm (hx a ha))
      · exact ih a ha b hb
  intro a ha b hb s
  rcases hsym a ha b hb with h | h
  · subst h; rfl
  · funext c
    simp only [applyEv]
    by_cases h1 : c = a.1 <;> by_cases h2 : c = b.1
    · exact absurd (h1.symm.trans h2) h
    · subst h1; simp [h]
    · subst h2; simp [Ne.symm h]
    · simp [h1, h2]

/-- **Functional results of a parallel round do not depend on the host schedule**: when the events
    of the round belong to pairwise different components and every handler touches its own
    component only, all orders of the round produce the same component states. -/
theorem parallel_round_distinct_components (l₁ l₂ : List CEv) (hp : l₁.Perm l₂)
    (hd : l₁.Pairwise (fun a b => a.1 ≠ b.1)) (s : Comps) :
    l₁.foldl applyEv s = l₂.foldl applyEv s :=
  parallel_round_order_independent applyEv l₁ l₂ hp (distinct_components_commute l₁ hd) s

/-- non-vacuity: three components, a round of three events, two orders -/
example : ([(0, (· + 1)), (1, (· * 2)), (2, fun _ => 7)] : List CEv).foldl applyEv (fun _ => 1) 1 =
    ([(2, fun _ => 7), (1, (· * 2)), (0, (· + 1))] : List CEv).foldl applyEv (fun _ => 1) 1 := by decide

example : ([(0, (· + 1)), (1, (· * 2)), (2, fun _ => 7)] : List CEv).Pairwise (fun a b => a.1 ≠ b.1) := by
  simp

/-- **The hypothesis cannot be dropped**: two same-time events of ONE component whose handlers do
    not commute (`x+1`, `2x`) leave different states in the two orders of the round. -/
theorem same_component_events_break_it :
    ∃ (l₁ l₂ : List CEv) (s : Comps), l₁.Perm l₂ ∧ l₁.foldl applyEv s 0 ≠ l₂.foldl applyEv s 0 := by
  refine ⟨[(0, (· + 1)), (0, (· * 2))], [(0, (· * 2)), (0, (· + 1))], fun _ => 1, List.Perm.swap _ _ _, ?_⟩
  decide

/-! ### the round structure (executable model `Par.run`, tied by `c05 par`) -/

/-- an event scheduled for the current time by a handler of the round runs in a LATER round: the
    first round holds events 1 and 2, their same-time follow-ups 3 and 4 form the next one -/
example : showRounds (run [(1, [⟨false, 0, 3, false⟩]), (2, [⟨false, 0, 4, false⟩])] 10
    { prim := [⟨0, 1, false⟩, ⟨0, 2, false⟩] }).rounds = "0p:1,2,3,4" := by decide

example : ((run [(1, [⟨false, 0, 3, false⟩]), (2, [⟨false, 0, 4, false⟩])] 10
    { prim := [⟨0, 1, false⟩, ⟨0, 2, false⟩] }).rounds.map (·.2.2.map (·.id))) = [[1, 2], [3, 4]] := by decide

/-- primary rounds come first at equal times (`primaryTime <= secondaryTime`) -/
example : showRounds (run [] 10 { prim := [⟨1, 1, false⟩], sec := [⟨1, 2, true⟩, ⟨0, 3, true⟩] }).rounds =
    "0s:3 1p:1 1s:2" := by decide

end Par
end C05
