import MgpuProofs.C06Sdwa
import MgpuProofs.Props.C06Body
/-! # C06, second deepening — the documented cross-lane instruction, handlers without lane code, the
hand-transcribed parts tied to the source, and the hypotheses that cannot be dropped

* `v_readfirstlane_b32` (the one documented exception of the property) is transcribed (`goReadFirstLane`) and
  proved to be what the ISA documents: it reads lane `firstActive exec` (lowest set EXEC bit; lane 0 when
  EXEC = 0), depends on no other lane, writes no vector register — and it is NOT lane-independent
  (`readfirstlane_is_cross_lane`), which is why it is the exception.
* the handlers without lane code (`vop3aPreprocess/Postprocess`, CDNA3 `v_cmp_f_u64`) are translated
  (`Gen.Lane.noLaneHandlers`): they write nothing or the constant mask 0, which is the skeleton instance
  `hConstFalse` under every EXEC.
* regenerated obligations: the source hashes of the hand-transcribed functions, the statements with which both
  `runVOP2` apply the SDWA wrapper, the lane guard `LaneMasked` translated from util.go, the list of bodies with
  an unmodelled abort path.
* hypotheses: `IsMaskSource` of `handler_is_vexec` disappears for every handler whose mask source is not the
  src2 operand (`handler_is_vexec_closed`); for a src2 mask the operand must be uniform — with a VGPR there the
  handler is not permutation-equivariant (`src2_mask_needs_uniform`, replayed on the real ALU by
  harness/c06_sdwa.go); `LaneUniform` cannot be dropped (`nonuniform_body_breaks_vexec`: the historical
  `VCC&(1<<i) == 1` defect shape). -/
namespace C06
open Gen.Lane

/-! ## `v_readfirstlane_b32` -/

theorem rflScan_snd_false (exec : BitVec 64) (n : Nat) (hn : n ≤ 64) (h : (rflScan exec n).2 = false) :
    (rflScan exec n).1 = 0 ∧ ∀ i, i < n → exec.getLsbD i = false := by
  induction n with
  | zero => exact ⟨rfl, fun i hi => by omega⟩
  | succ n ih =>
    have hlt : n < 64 := by omega
    simp only [rflScan] at h ⊢
    by_cases hp : (rflScan exec n).2 = true
    · simp [hp] at h
    · have hp' : (rflScan exec n).2 = false := by simpa using hp
      simp only [hp', Bool.false_eq_true, if_false, Guard.skips_eq _ _ _ hlt] at h ⊢
      by_cases he : exec.getLsbD n = true
      · simp [he] at h
      · have he' : exec.getLsbD n = false := by simpa using he
        simp only [he', Bool.not_false, if_true]
        obtain ⟨h1, h2⟩ := ih (by omega) hp'
        refine ⟨h1, fun i hi => ?_⟩
        by_cases hin : i = n
        · subst hin; exact he'
        · exact h2 i (by omega)

theorem rflScan_snd_true (exec : BitVec 64) (n : Nat) (hn : n ≤ 64) (h : (rflScan exec n).2 = true) :
    (rflScan exec n).1 < n ∧ exec.getLsbD (rflScan exec n).1 = true ∧
    ∀ i, i < (rflScan exec n).1 → exec.getLsbD i = false := by
  induction n with
  | zero => simp [rflScan] at h
  | succ n ih =>
    have hlt : n < 64 := by omega
    simp only [rflScan] at h ⊢
    by_cases hp : (rflScan exec n).2 = true
    · simp only [hp, if_true]
      obtain ⟨h1, h2, h3⟩ := ih (by omega) hp
      exact ⟨by omega, h2, h3⟩
    · have hp' : (rflScan exec n).2 = false := by simpa using hp
      simp only [hp', Bool.false_eq_true, if_false, Guard.skips_eq _ _ _ hlt] at h ⊢
      by_cases he : exec.getLsbD n = true
      · have e : (if (!exec.getLsbD n) = true then rflScan exec n else (n, true)) = (n, true) := by simp [he]
        rw [e]
        exact ⟨Nat.lt_succ_self n, he, (rflScan_snd_false exec n (by omega) hp').2⟩
      · have he' : exec.getLsbD n = false := by simpa using he
        simp [he', hp'] at h

theorem find_range_eq (p : Nat → Bool) (n k : Nat) (hk : k < n) (hp : p k = true) (hb : ∀ i, i < k → p i = false) :
    (List.range n).find? p = some k := by
  induction n with
  | zero => omega
  | succ n ih =>
    rw [List.range_succ, List.find?_append]
    by_cases hkn : k < n
    · rw [ih hkn]; rfl
    · have : k = n := by omega
      subst this
      have hnone : (List.range k).find? p = none := by
        rw [List.find?_eq_none]
        intro x hx
        simp [hb x (List.mem_range.mp hx)]
      simp [hnone, hp]

theorem find_range_none (p : Nat → Bool) (n : Nat) (hb : ∀ i, i < n → p i = false) : (List.range n).find? p = none := by
  rw [List.find?_eq_none]
  intro x hx
  simp [hb x (List.mem_range.mp hx)]

/-- **The scan of `v_readfirstlane_b32` finds the first active lane**: the Go loop (`laneid = i; break` at the
    first lane whose EXEC bit is set) ends with the lowest set bit of EXEC, and with lane 0 when EXEC = 0. -/
theorem readfirstlane_scan_spec (exec : BitVec 64) : (rflScan exec 64).1 = firstActive exec := by
  unfold firstActive
  by_cases h : (rflScan exec 64).2 = true
  · obtain ⟨h1, h2, h3⟩ := rflScan_snd_true exec 64 (Nat.le_refl _) h
    rw [find_range_eq (fun i => exec.getLsbD i) 64 _ h1 h2 h3]; rfl
  · have h' : (rflScan exec 64).2 = false := by simpa using h
    obtain ⟨h1, h2⟩ := rflScan_snd_false exec 64 (Nat.le_refl _) h'
    rw [find_range_none (fun i => exec.getLsbD i) 64 h2, h1]; rfl

example : firstActive 0x28#64 = 3 ∧ firstActive 0#64 = 0 ∧ (rflScan 0x28#64 64) = (3, true) := by decide +kernel

/-- **`v_readfirstlane_b32` reads the first active lane and nothing else**: its result is the source operand
    of lane `firstActive exec`; two register files that agree on that one row give the same result. -/
theorem readfirstlane_reads_first_active (src0 : Opnd) (exec : BitVec 64) (vgpr vgpr' : Nat → Nat → Nat) :
    goReadFirstLane src0 exec vgpr = readOpnd src0 (vgpr (firstActive exec)) ∧
    (vgpr (firstActive exec) = vgpr' (firstActive exec) →
      goReadFirstLane src0 exec vgpr = goReadFirstLane src0 exec vgpr') := by
  have e := readfirstlane_scan_spec exec
  exact ⟨by simp only [goReadFirstLane, e], fun h => by simp only [goReadFirstLane, e, h]⟩

example : goReadFirstLane (.vgpr 0 1) 0x28#64 (fun l r => if r = 0 then 100 + l else 0) = 103#64 := by decide +kernel

/-- **It is the cross-lane exception**: what the instruction delivers (to every lane — an SGPR) is another
    lane's register: two register files that agree on lane 5's row, under one EXEC, give different results. So
    no per-lane function of lane 5's own inputs describes it, unlike every handler covered by `vexec`. -/
theorem readfirstlane_is_cross_lane :
    ∃ (exec : BitVec 64) (vgpr vgpr' : Nat → Nat → Nat), vgpr 5 = vgpr' 5 ∧ exec.getLsbD 5 = true ∧
      goReadFirstLane (.vgpr 0 1) exec vgpr ≠ goReadFirstLane (.vgpr 0 1) exec vgpr' := by
  refine ⟨0x28#64, fun l r => if r = 0 then 100 + l else 0, fun l r => if r = 0 ∧ l ≠ 3 then 100 + l else 0, ?_, by decide, by decide +kernel⟩
  funext r; simp

/-- **It writes no vector register**: its destination is an SGPR (a uniform operand); the 64 `WriteOperand`
    calls of the Go loop write that one scalar. (With a VGPR destination the loop would write every lane
    whatever EXEC says — `example` below; the decoders never produce that.) -/
theorem readfirstlane_sgpr_dst_keeps_vgprs (src0 : Opnd) (v : BitVec 64) (exec : BitVec 64) (vgpr : Nat → Nat → Nat) :
    goReadFirstLaneVgpr src0 (.uni v) exec vgpr = vgpr := by
  funext l
  simp [goReadFirstLaneVgpr, writeOpnd, writeCells]

example : goReadFirstLaneVgpr (.vgpr 0 1) (.vgpr 2 1) 0x28#64 (fun l r => if r = 0 then 100 + l else 0) 7 2 = 103 := by decide +kernel

/-! ## handlers without lane code -/

/-- writing the constant mask 0 is the skeleton instance "every active lane's result bit is false": under every
    EXEC the whole mask result is 0, registers / memory / log are untouched -/
theorem const_zero_is_vexec (exec : BitVec 64) (s : VState) :
    (vexec hConstFalse () exec s).mout = (fun _ => false) ∧ (vexec hConstFalse () exec s).vgpr = s.vgpr ∧
    (vexec hConstFalse () exec s).mem = s.mem ∧ (vexec hConstFalse () exec s).log = s.log := by
  rw [seq_eq_par hConstFalse () exec s (Or.inl (fun _ _ => rfl))]
  refine ⟨?_, ?_, ?_, ?_⟩
  · funext l; simp [parMap, hConstFalse, prologue, laneOut]
  · funext l; simp [parMap, hConstFalse, laneOut, writeCells, prologue]
  · have : activeStores hConstFalse () (fun i => exec.getLsbD i) 64 (prologue hConstFalse s) = [] := by
      simp [activeStores, hConstFalse, laneOut]
    simp only [parMap, this, applyStores, List.foldl_nil]
    rfl
  · have : activeAccesses hConstFalse () (fun i => exec.getLsbD i) 64 (prologue hConstFalse s) = [] := by
      simp [activeAccesses, hConstFalse, laneOut, accesses]
    simp only [parMap, this, List.append_nil]
    rfl

/-- **Every handler without lane code obeys EXEC trivially** (regenerated): it writes nothing at all, or hands
    the constant 0 to `SetVCC` — the instance `hConstFalse` of the skeleton (`const_zero_is_vexec`), for which
    inactive lanes' bits are 0 like for every compare. Its panic condition is a function of the instruction. -/
theorem no_lane_handlers_are_vexec :
    (Gen.Lane.noLaneHandlers.all fun h => h.setVCC == none || h.setVCC == some 0#64) = true ∧
    (∀ h ∈ Gen.Lane.noLaneHandlers, ∀ u vcc, h.ok u = true →
      noLaneRun h u vcc = some vcc ∨ noLaneRun h u vcc = some 0#64) := by
  constructor
  · decide
  · intro h hm u vcc hok
    have hall : (Gen.Lane.noLaneHandlers.all fun h => h.setVCC == none || h.setVCC == some 0#64) = true := by decide
    have := List.all_eq_true.mp hall h hm
    simp only [Bool.or_eq_true, beq_iff_eq] at this
    rcases this with h0 | h0 <;> simp [noLaneRun, hok, h0]

example : (Gen.Lane.noLaneHandlers.map fun h => (h.arch, h.name, h.setVCC)).contains ("cdna3", "runVCmpFU64", some 0#64) = true ∧
    (Gen.Lane.noLaneHandlers.any fun h => h.name == "vop3aPostprocess" && !h.ok { Uni.zero with omod := 1 }) = true := by decide

/-! ## Regenerated obligations about the hand-transcribed parts -/

/-- **The hand-transcribed functions are the audited ones** (regenerated): the hash of the normalised source of
    both `runVREADFIRSTLANEB32`, of `NewSDWAState`, of the three `sdwaState` methods and of the three `amd/bitops`
    functions the bodies call (`C06.Go.extractBitsU64/U32`, `signExt`) equals the value recorded when
    `goReadFirstLane` / `LaneHandler.sdwaWrap` / `C06.Go.*` were written. An edit to one of them breaks this obligation
    (and must be followed by a new look at the model), not only the sampled correspondence. -/
theorem hand_modelled_unchanged :
    Gen.Lane.handModelled =
      [("gcn3", "ALUImpl", "runVREADFIRSTLANEB32", "b306e1236349be05"),
       ("cdna3", "ALU", "runVREADFIRSTLANEB32", "ac94a0dee4f3bbf5"),
       ("gcn3", "", "NewSDWAState", "e7a85b3e59070175"),
       ("gcn3", "sdwaState", "Inst", "ccf2f1eed807d199"),
       ("gcn3", "sdwaState", "ReadOperand", "6fe0fd9c0e57e50b"),
       ("gcn3", "sdwaState", "WriteOperand", "ff962901066be903"),
       ("bitops", "", "ExtractBitsFromU64", "06f59f25de72c634"),
       ("bitops", "", "ExtractBitsFromU32", "10cd08addbf2c5d3"),
       ("bitops", "", "SignExt", "651005404d93159f")] := by decide

example : Gen.Lane.handModelled.length = 9 := by decide

/-- **Both VOP2 dispatchers apply the wrapper exactly as `vop2Handler` says** (regenerated): the statements in
    front of the opcode switch are `inst := state.Inst()` and `if inst.IsSdwa { state = NewSDWAState(state) }`. -/
theorem vop2_prelude_as_modelled :
    Gen.Lane.vop2Prelude =
      [("gcn3", "inst := state.Inst() ; if inst.IsSdwa { state = NewSDWAState(state) }"),
       ("cdna3", "inst := state.Inst() ; if inst.IsSdwa { state = emu.NewSDWAState(state) }")] := by decide

example : Gen.Lane.vop2Prelude.length = 2 := by decide

/-- **The lane guard, from the source**: `Guard.skips .notLaneMasked` is `!LaneMasked(exec, uint(i))` with
    `LaneMasked` TRANSLATED from amd/emu/util.go, and both guard spellings skip exactly the lanes whose EXEC
    bit is clear. -/
theorem guard_matches_source (exec : BitVec 64) (i : Nat) (hi : i < 64) :
    Guard.skips .notLaneMasked exec i = !fn_gcn3_LaneMasked exec (BitVec.ofNat 64 i) ∧
    Guard.skips .notLaneMasked exec i = Guard.skips .bitZero exec i ∧
    Guard.skips .bitZero exec i = !exec.getLsbD i := by
  refine ⟨?_, ?_, Guard.skips_eq _ _ _ hi⟩
  · simp only [Guard.skips, fn_gcn3_LaneMasked, ofNat_toNat_lt hi]
  · rw [Guard.skips_eq _ _ _ hi, Guard.skips_eq _ _ _ hi]

example : fn_gcn3_LaneMasked 0x28#64 3#64 = true ∧ fn_gcn3_LaneMasked 0x28#64 4#64 = false := by decide

/-- the translated bodies with a data-dependent abort that the model does not follow (tripwire) -/
theorem partial_bodies_listed :
    Gen.Lane.partialBodies = [("gcn3", "runVDIVFIXUPF64"), ("cdna3", "runVDIVFIXUPF64")] := by decide

example : Gen.Lane.partialBodies.length = 2 := by decide

/-! ## Hypotheses -/

/-- the 64-bit value a handler uses as lane-mask source, read off its operands -/
def maskSourceOf (h : LaneHandler) (ops : Ops) (vcc0 : BitVec 64) : BitVec 64 :=
  match h.msrc with
  | .src2 => (match ops.src2 with | .uni m => m | _ => 0#64)
  | _ => vcc0

/-- **`handler_is_vexec` without the `IsMaskSource` hypothesis**: for every translated handler whose mask source
    is VCC, the accumulator or nothing — and for a src2 mask whenever the operand is uniform (an SGPR pair / VCC,
    the only thing the ISA allows there) — the Go loop equals `vexec` on the state built from its own inputs. -/
theorem handler_is_vexec_closed (h : LaneHandler) (hm : h ∈ Gen.Lane.laneHandlers) (ops : Ops)
    (exec vcc0 : BitVec 64) (vgpr : Nat → Nat → Nat)
    (hu : h.msrc = .src2 → ∃ m, ops.src2 = .uni m) :
    (goRun h ops exec vcc0 vgpr).vgpr
      = (vexec h.toHandler ops exec (absState vgpr (maskSourceOf h ops vcc0) vcc0)).vgpr ∧
    (h.accInit ≠ .none →
      ∀ l, (goRun h ops exec vcc0 vgpr).acc.getLsbD l
        = (vexec h.toHandler ops exec (absState vgpr (maskSourceOf h ops vcc0) vcc0)).mout l) := by
  apply handler_is_vexec h hm
  constructor
  · intro hv; simp [maskSourceOf, hv]
  · intro h2
    obtain ⟨m, hm2⟩ := hu h2
    simp [maskSourceOf, h2, hm2]

example : lh_gcn3_runVADDCU32.msrc ≠ .src2 := by decide

private def exOpsV : Ops := ⟨.vgpr 0 1, .vgpr 2 1, .vgpr 4 2, .vgpr 6 1, Uni.zero⟩
private def exVg : Nat → Nat → Nat := fun l r =>
  match r with
  | 0 => 10 + l | 2 => 20 + l | 4 => (if l = 0 then 1 else 0) | _ => 0
private def exSwap : Nat → Nat := fun l => if l = 0 then 1 else if l = 1 then 0 else l

/-- **The uniformity of a src2 mask cannot be dropped**: `v_cndmask_b32_e64` with a VECTOR register in the mask
    position (not encodable per the ISA, but the decoder and the handler accept it: lane `i` then tests bit `i`
    of its OWN register) is not permutation-equivariant — lanes 0 and 1 swapped: lane 1 (old lane 0) now tests
    bit 1 of the value 1. The same two runs on the real ALU are the `c06 gorun` witness lines of
    harness/c06_sdwa.go. -/
theorem src2_mask_needs_uniform :
    (goRun lh_gcn3_runVCNDMASKB32VOP3a exOpsV 0x3#64 0#64 exVg).vgpr 0 6 = 20 ∧
    (goRun lh_gcn3_runVCNDMASKB32VOP3a exOpsV 0x3#64 0#64 (fun l => exVg (exSwap l))).vgpr 1 6 = 10 ∧
    lh_gcn3_runVCNDMASKB32VOP3a.msrc = .src2 := by
  refine ⟨by decide, by decide, rfl⟩

/-- a body of the historical defect shape: `if vcc&(1<<i) == 1 { dst = src1 } else { dst = src0 }` -/
def badCndmask : LaneHandler :=
  { arch := "x", name := "bad", guard := .bitZero, accInit := .none, msrc := .vcc, sink := .none, ok := fun _ => true
    raw := fun _ r =>
      { dst := some (if (r.vcc &&& (1#64 <<< r.i)) == 1#64 then r.src1 else r.src0), acc := r.acc } }

/-- **`LaneUniform` cannot be dropped from `handler_is_vexec`**: the defect shape `VCC&(1<<i) == 1` (GCN3
    `v_div_fmas_f64` before its repair) is not lane-uniform, and its Go loop differs from `vexec` of its
    lane-local body: lane 1 with VCC bit 1 set takes src0. (The repaired code no longer contains the shape; the
    regenerated `lane_bodies_uniform` would name a handler that reintroduces it.) -/
theorem nonuniform_body_breaks_vexec :
    ¬ LaneUniform badCndmask ∧
    (goRun badCndmask ⟨.vgpr 0 1, .vgpr 2 1, .uni 0, .vgpr 6 1, Uni.zero⟩ 0x3#64 0x3#64 exVg).vgpr 1 6 = 11 ∧
    (vexec badCndmask.toHandler ⟨.vgpr 0 1, .vgpr 2 1, .uni 0, .vgpr 6 1, Uni.zero⟩ 0x3#64
      (absState exVg 0x3#64 0x3#64)).vgpr 1 6 = 21 := by
  refine ⟨?_, by decide, by decide⟩
  intro hu
  have := (hu Uni.zero ⟨1, 5#64, 7#64, 0#64, 0#64, 0x2#64, 0#64⟩ (by decide)).1
  revert this
  decide

end C06
