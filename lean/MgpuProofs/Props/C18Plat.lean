import MgpuProofs.C18Plat
import MgpuProofs.Props.C18Mem
import MgpuProofs.Props.C18Sys
/-! # C18 — the routing decision on the platform the builders create

`MgpuModel/C18_Plat.lean` models the path of one access on the platform
`timingconfig.Builder.WithNumGPUs(n).WithGPUType(t).Build()` creates: the issuer's L1→L2 mapper, the shared
RDMA address table, the destination engine's local mapper. All numbers and the wiring come from
`MgpuModel/Gen/C18Plat.lean`, regenerated from the Go builders on every run. This file

* pins the generated values and wiring (A) — a changed Go constant or a re-wired mapper breaks a proof here;
* ties the platform model to the single-engine model (`routeOut` / `routeIn`), the memory-level model
  (`target`), and the closed n-node system (`platform`, `sys_forwarded_once_to_owner`) (B);
* states the routing property itself (C): every address in a GPU bank is kept local by exactly one GPU,
  and an access from any GPU ends in that GPU's L2 bank after at most one forward;
* shows by kernel-checked witnesses that the equality `dramSize = gpuMemSize` is needed in both directions (D);
* ties the allocator's ranges to the platform, with the recorded exception `C18-owner-last-page` (E). -/
namespace C18

/-! ## A. generated values and wiring -/

/-- **platOf_values.** The numbers the builders fix, for both GPU types and every GPU count: 4 GiB RDMA
bank size, 4 GiB local range, 128-byte interleaving of both mappers, 16 L2 banks, `(n + 1)`·4 GiB of
global storage. Any change of a Go default changes `Gen/C18Plat.lean` and breaks this `rfl`. -/
theorem platOf_values (t : GpuType) (n : Nat) :
    platOf t n = ⟨n, 4294967296, 4294967296, 128, 16, 128, n * 4294967296 + 4294967296⟩ := by
  cases t <;> rfl

/-- **platOf_ok.** The builders' numbers satisfy every hypothesis (`PlatOk`) of the routing theorems:
positive sizes, local range as wide as the RDMA bank, DMA mapper interleaved like the L1→L2 mapper. -/
theorem platOf_ok (t : GpuType) (n : Nat) : PlatOk (platOf t n) := by
  cases t <;>
    exact ⟨(by decide : 0 < 4294967296), rfl, (by decide : 0 < 128), (by decide : 0 < 16), rfl⟩

/-- **plat_wiring_pinned.** The platform builder's wiring, as generated: entry 0 of the RDMA table is the
pseudo port "CPU" and every GPU appends its `RDMAData` port; GPU `i` (`1 ≤ i < numGPUs + 1`) is built with
`WithMemAddrOffset(i · gpuMemSize)` and the shared table, and WITHOUT `WithDramSize` (so the GPU builder's
default `dramSize` is the width of the local range); the allocator is told `gpuMemSize`; the table's bank
size is `gpuMemSize`; the storage holds `numGPUs · gpuMemSize + cpuMemSize` bytes and the two sizes are equal. -/
theorem plat_wiring_pinned :
    Gen.C18Plat.rdmaFirstModule = ["sim.RemotePort(\"CPU\")"] ∧
    Gen.C18Plat.rdmaAppend = ["gpu.GetPortByName(\"RDMAData\").AsRemote()"] ∧
    Gen.C18Plat.gpuBuildCalls =
      ["WithGPUID", "WithMemAddrOffset", "WithRDMAAddressMapper", "WithDriver", "Build"] ∧
    Gen.C18Plat.gpuBuildArgs = ["uint64(index)", "memAddrOffset", "b.rdmaAddressMapper"] ∧
    Gen.C18Plat.registerDramSize = ["b.gpuMemSize"] ∧
    Gen.C18Plat.gpuLoopStart = 1 ∧
    (∀ i n, Gen.C18Plat.gpuLoopCond i n = decide (i < n + 1)) ∧
    (∀ i s, Gen.C18Plat.memAddrOffset i s = i * s) ∧
    (∀ s, Gen.C18Plat.rdmaBankSize s = s) ∧
    (∀ n g c, Gen.C18Plat.storageCap n g c = n * g + c) ∧
    Gen.C18Plat.sizesDiffer Gen.C18Plat.cpuMemSize Gen.C18Plat.gpuMemSize = false ∧
    Gen.C18Plat.gpuBuilderCalls =
      ["MakeBuilder", "WithSimulation", "WithMMU", "WithLog2PageSize", "WithGlobalStorage",
       "MakeBuilder", "WithSimulation", "WithMMU", "WithLog2PageSize", "WithGlobalStorage"] :=
  ⟨rfl, rfl, rfl, rfl, rfl, rfl, fun _ _ => rfl, fun _ _ => rfl, fun _ => rfl, fun _ _ _ => rfl,
    by decide, rfl⟩

/-- **plat_gpu_wiring_pinned.** The GPU builders' wiring, identical for `r9nano` and `mi300a`: the L1→L2
mapper uses the address-space limitation with `LowAddress = memAddrOffset`, `HighAddress = memAddrOffset +
dramSize`, one low module per L2 bank (`i < numMemoryBank`), `ModuleForOtherAddresses` = the engine's inside
port, and is the engine's `localModules`; L2 bank `i` writes back to DRAM controller `i`; the engine's remote
table is the shared RDMA address table; its outside ports are exported as `RDMARequest` / `RDMAData`; all ten
port buffers of the engine have `bufferSize` entries. -/
theorem plat_gpu_wiring_pinned :
    Gen.C18Plat.r9nano_l1Limit = ["true"] ∧ Gen.C18Plat.mi300a_l1Limit = ["true"] ∧
    Gen.C18Plat.r9nano_l1Other = ["b.l1AddressMapper", "b.rdmaEngine.RDMARequestInside.AsRemote()"] ∧
    Gen.C18Plat.mi300a_l1Other = Gen.C18Plat.r9nano_l1Other ∧
    Gen.C18Plat.r9nano_l2Loop =
      ["i", "0", "i<b.numMemoryBank", "i", "++", "b.l1AddressMapper.LowModules",
       "l2.GetPortByName(\"Top\").AsRemote()"] ∧
    Gen.C18Plat.mi300a_l2Loop = Gen.C18Plat.r9nano_l2Loop ∧
    Gen.C18Plat.r9nano_l2ToDram =
      ["b.drams[i].GetPortByName(\"Top\").AsRemote()", "dram.GetPortByName(\"Top\").AsRemote()"] ∧
    Gen.C18Plat.mi300a_l2ToDram = Gen.C18Plat.r9nano_l2ToDram ∧
    Gen.C18Plat.r9nano_rdmaBuild =
      ["MakeBuilder", "WithEngine", "WithFreq", "WithLocalModules", "Build", "b.l1AddressMapper",
       "b.rdmaAddressMapper"] ∧
    Gen.C18Plat.mi300a_rdmaBuild = Gen.C18Plat.r9nano_rdmaBuild ∧
    Gen.C18Plat.r9nano_extPorts =
      ["\"RDMARequest\"", "b.rdmaEngine.RDMARequestOutside", "\"RDMAData\"", "b.rdmaEngine.RDMADataOutside"] ∧
    Gen.C18Plat.mi300a_extPorts = Gen.C18Plat.r9nano_extPorts ∧
    Gen.C18Plat.rdma_portCaps = List.replicate 10 "b.bufferSize" ∧
    (∀ x, Gen.C18Plat.mi300a_l1Low x = Gen.C18Plat.r9nano_l1Low x) ∧
    (∀ x y, Gen.C18Plat.mi300a_l1High x y = Gen.C18Plat.r9nano_l1High x y) ∧
    (∀ x, Gen.C18Plat.r9nano_l1Low x = x) ∧
    (∀ x y, Gen.C18Plat.r9nano_l1High x y = x + y) :=
  ⟨rfl, rfl, rfl, rfl, rfl, rfl, rfl, rfl, rfl, rfl, rfl, rfl, rfl, fun _ => rfl, fun _ _ => rfl,
    fun _ => rfl, fun _ _ => rfl⟩

/-- **plat_lo_hi.** GPU `g`'s L1→L2 mapper keeps `[g·S, g·S + D)` local (`LowAddress = memAddrOffset =
g · gpuMemSize`, `HighAddress = LowAddress + dramSize`). -/
theorem plat_lo_hi (p : PlatCfg) (g : Nat) : p.lo g = g * p.S ∧ p.hi g = g * p.S + p.D := ⟨rfl, rfl⟩

/-! ## B. ties to the existing models -/

/-- **engineCfg_routeOut.** The shared RDMA address table of the platform model is the remote table
(`routeOut`) of every GPU's engine in the single-engine model. -/
theorem engineCfg_routeOut (p : PlatCfg) (g a : Nat) : routeOut (engineCfg p g) a = rdmaFind p a := rfl

/-- **engineCfg_routeIn.** GPU `g`'s L1→L2 mapper of the platform model is the local-module finder
(`routeIn`) of `g`'s engine in the single-engine model — the same mapper object in the Go builders
(`r9nano_l1Other`, `r9nano_rdmaBuild`); 1000 = `ModuleForOtherAddresses`. -/
theorem engineCfg_routeIn (p : PlatCfg) (g a : Nat) (hi : 0 < p.isz) (hk : 0 < p.k) :
    routeIn (engineCfg p g) a = (match l1Find p g a with | .rdma => some 1000 | .l2 j => some j) := by
  have h0 : ¬ (p.isz = 0 ∨ p.k = 0) := by omega
  unfold routeIn l1Find
  simp only [engineCfg]
  by_cases h : a ≥ p.hi g ∨ a < p.lo g
  · simp only [h, if_true]
  · simp only [h, h0, if_false]

/-- **l1Find_isLocal.** With local ranges one bank wide, GPU `g`'s L1→L2 mapper keeps `a` in its own L2
exactly when the memory-level model's `isLocal` says so. -/
theorem l1Find_isLocal (p : PlatCfg) (h : p.D = p.S) (g a : Nat) :
    l1Find p g a ≠ .rdma ↔ isLocal p.S g a = true := by
  rw [l1Find_ne_rdma_iff, h]
  unfold isLocal
  simp only [Bool.and_eq_true, decide_eq_true_eq]

/-- **engineCfg_nodeCfg.** With local ranges one bank wide, GPU `g`'s engine on the builders' platform is
node `g` of the uniform `(n + 1)`-node platform of the closed-system model (`nodeCfg`), with the generated
`rdma.MakeBuilder` defaults as buffer size and per-cycle widths. -/
theorem engineCfg_nodeCfg (p : PlatCfg) (h : p.D = p.S) (g : Nat) :
    engineCfg p g = nodeCfg Gen.C18Plat.rdma_bufferSize Gen.C18Plat.rdma_outgoingReqPerCycle
      Gen.C18Plat.rdma_outgoingRspPerCycle Gen.C18Plat.rdma_incomingReqPerCycle
      Gen.C18Plat.rdma_incomingRspPerCycle p.S (p.n + 1) p.isz p.k g := by
  unfold engineCfg nodeCfg
  rw [lo_eq, hi_eq, h, Nat.add_mul, Nat.one_mul]

/-- **plat_is_sys_platform.** The engines of the builders' platform, for both GPU types and every GPU
count, are exactly the closed-system model's `platform` with 128-entry buffers, width 1 everywhere,
4 GiB banks, `n + 1` nodes, 128-byte interleaving and 16 banks. Node 0 is the host bank (it has no engine
and never issues), nodes `1 … n` are the GPUs. -/
theorem plat_is_sys_platform (t : GpuType) (n : Nat) :
    (List.range (n + 1)).map (engineCfg (platOf t n)) = platform 128 1 1 1 1 4294967296 (n + 1) 128 16 := by
  unfold platform
  congr 1
  funext g
  rw [engineCfg_nodeCfg _ (platOf_ok t n).dEq g, platOf_values]
  rfl

/-- **plat_sys_forwarded_once_to_owner.** `sys_forwarded_once_to_owner` on the builders' platform, every
schedule: each clone an engine sends out goes to the owner bank `addr / 4 GiB` (the only node whose mapper
keeps the address local), each clone an engine hands to its L2 side has its address in that GPU's bank and goes
to L2 bank `addr / 128 % 16`, never back to an engine. No hypothesis about the configuration is left. -/
theorem plat_sys_forwarded_once_to_owner (t : GpuType) (n : Nat) (ops : List SOp) (b : Nat) (B : Node)
    (hB : (srun (initSys ((List.range (n + 1)).map (engineCfg (platOf t n)))) ops).nodes[b]? = some B) :
    (∀ φ ∈ B.s.io.fwd, φ.out.dst = C18.bank 4294967296 (addrOf φ.orig.pl) ∧ φ.out.dst < n + 1 ∧
      ∀ g, isLocal 4294967296 g (addrOf φ.orig.pl) = true ↔ g = φ.out.dst) ∧
    (∀ φ ∈ B.s.oi.fwd, b * 4294967296 ≤ addrOf φ.orig.pl ∧ addrOf φ.orig.pl < (b + 1) * 4294967296 ∧
      isLocal 4294967296 b (addrOf φ.orig.pl) = true ∧ φ.out.dst = addrOf φ.orig.pl / 128 % 16) := by
  rw [plat_is_sys_platform] at hB
  exact sys_forwarded_once_to_owner 128 1 1 1 1 4294967296 (n + 1) 128 16 (by decide) (by decide) ops b B hB

/-- **access_target.** Under `PlatOk` the platform model's `access` and the memory-level model's `target`
(over which placement invariance is proved) make the same decision: same serving GPU, same fault. -/
theorem access_target (p : PlatCfg) (h : PlatOk p) (g a : Nat) :
    target (memCfgOf p) g a =
      (match access p g a with
       | .l2 d _ _ => .ok d
       | .cpu => .error .cpu
       | .oob => .error .bounds
       | .loop => .error .loop) := by
  rw [access_eq p h, target_eq (memCfgOf p) h.sPos]
  simp only [memCfgOf]
  by_cases h1 : a / p.S = g
  · simp only [h1, if_true]
  · by_cases h2 : a / p.S = 0
    · have h1' : ¬ 0 = g := by rw [← h2]; exact h1
      simp only [h2, h1', if_false, if_true]
    · by_cases h3 : a / p.S ≤ p.n
      · simp only [h1, h2, h3, if_true, if_false]
      · simp only [h1, h2, h3, if_false]

/-! ## C. the routing statement -/

/-- **plat_access.** Under `PlatOk`, where an access of GPU `g` to physical address `a` ends depends only on
the bank index `a / S`: the issuer's own L2 (bank `a / isz % k`, no forward) when it is `g`; the pseudo port
"CPU" when it is 0; L2 bank `a / isz % k` of GPU `a / S` after exactly one forward when it is another GPU;
a Go slice panic beyond the table. Never `loop`. -/
theorem plat_access (p : PlatCfg) (h : PlatOk p) (g a : Nat) :
    access p g a =
      if a / p.S = g then .l2 g (a / p.isz % p.k) 0
      else if a / p.S = 0 then .cpu
      else if a / p.S ≤ p.n then .l2 (a / p.S) (a / p.isz % p.k) 1
      else .oob :=
  access_eq p h g a

/-- **plat_local_or_owner.** For every address in a GPU bank (`S ≤ a < (n + 1)·S`): the owner `a / S` is a
GPU; the L2 bank index is in range; exactly one GPU's L1→L2 mapper keeps the address local — the owner;
and an access from ANY `g` ends in the owner's L2 bank `a / isz % k`, directly when `g` is the owner, after
exactly one RDMA forward otherwise. -/
theorem plat_local_or_owner (p : PlatCfg) (h : PlatOk p) (g a : Nat) (ha1 : p.S ≤ a)
    (ha2 : a < (p.n + 1) * p.S) :
    1 ≤ a / p.S ∧ a / p.S ≤ p.n ∧ a / p.isz % p.k < p.k ∧
    (∀ g', l1Find p g' a ≠ .rdma ↔ g' = a / p.S) ∧
    access p g a = .l2 (a / p.S) (a / p.isz % p.k) (if g = a / p.S then 0 else 1) := by
  have h1 : 1 ≤ a / p.S := (Nat.le_div_iff_mul_le h.sPos).2 (by rw [Nat.one_mul]; exact ha1)
  have h2 : a / p.S < p.n + 1 := (Nat.div_lt_iff_lt_mul h.sPos).2 ha2
  have h2' : a / p.S ≤ p.n := Nat.le_of_lt_succ h2
  have h0 : ¬ a / p.S = 0 := Nat.ne_of_gt h1
  refine ⟨h1, h2', Nat.mod_lt _ h.kPos, ?_, ?_⟩
  · intro g'
    rw [l1Find_of_ok p h.sPos h.dEq]
    by_cases e : a / p.S = g'
    · simp only [e, if_true, ne_eq, reduceCtorEq, not_false_eq_true]
    · have e' : ¬ g' = a / p.S := fun x => e x.symm
      simp only [e, e', if_false, ne_eq, not_true_eq_false]
  · rw [access_eq p h]
    by_cases e : a / p.S = g
    · have e' : g = a / p.S := e.symm
      simp only [e, if_true]
    · have e' : ¬ g = a / p.S := fun x => e x.symm
      simp only [e, e', h0, h2', if_true, if_false]

/-- **builders_access.** On the platform the builders create (either GPU type, any number of GPUs), every
address in a GPU bank is served by L2 bank `a / 128 % 16` of GPU `a / 4 GiB`, whichever GPU `g` issues the
access: directly when `g` owns it, after exactly one RDMA forward otherwise. No hypothesis about the
configuration is left — `platOf_ok` discharges them from the generated constants. -/
theorem builders_access (t : GpuType) (n g a : Nat) (ha1 : 4294967296 ≤ a) (ha2 : a < (n + 1) * 4294967296) :
    access (platOf t n) g a = .l2 (a / 4294967296) (a / 128 % 16) (if g = a / 4294967296 then 0 else 1) := by
  have hok := platOf_ok t n
  rw [platOf_values] at hok ⊢
  exact (plat_local_or_owner _ hok g a ha1 ha2).2.2.2.2

/-- **plat_storage_reach.** On the builders' platform the RDMA table has an entry for an address exactly
when the address lies inside the global storage. -/
theorem plat_storage_reach (t : GpuType) (n a : Nat) :
    a < (platOf t n).cap ↔ (rdmaFind (platOf t n) a).isSome = true := by
  have hok := platOf_ok t n
  rw [platOf_values] at hok ⊢
  rw [rdmaFind_isSome _ hok.sPos]
  show a < n * 4294967296 + 4294967296 ↔ a < (n + 1) * 4294967296
  omega

/-- **plat_cpu_bank.** An access of a GPU to an address in bank 0 goes to the pseudo port "CPU", which no
component serves. -/
theorem plat_cpu_bank (p : PlatCfg) (h : PlatOk p) (g a : Nat) (hg : 1 ≤ g) (ha : a < p.S) :
    access p g a = .cpu := by
  have h0 : a / p.S = 0 := Nat.div_eq_of_lt ha
  have h1 : ¬ 0 = g := by omega
  rw [access_eq p h, h0]
  simp only [h1, if_true, if_false]

/-- **plat_beyond.** An access of the host or a GPU to an address beyond the last bank indexes the RDMA
table out of range (Go slice panic). -/
theorem plat_beyond (p : PlatCfg) (h : PlatOk p) (g a : Nat) (hg : g ≤ p.n) (ha : (p.n + 1) * p.S ≤ a) :
    access p g a = .oob := by
  have h1 : p.n + 1 ≤ a / p.S := (Nat.le_div_iff_mul_le h.sPos).2 ha
  have e1 : ¬ a / p.S = g := by omega
  have e2 : ¬ a / p.S = 0 := by omega
  have e3 : ¬ a / p.S ≤ p.n := by omega
  rw [access_eq p h]
  simp only [e1, e2, e3, if_false]

/-- **plat_dma_same_bank.** The DMA / PMC mapper picks the DRAM controller behind the L2 bank the L1→L2
mapper picks (L2 bank `j` writes back to DRAM controller `j`, `r9nano_l2ToDram` in `plat_gpu_wiring_pinned`). -/
theorem plat_dma_same_bank (p : PlatCfg) (h : PlatOk p) (a : Nat) : dramFind p a = a / p.isz % p.k := by
  unfold dramFind
  rw [h.dmaEq]

/-! ## D. the hypotheses of `PlatOk` are needed -/

/-- the routing statement without `D = S` -/
def plat_access_full : Prop :=
  ∀ (p : PlatCfg) (g a : Nat), 0 < p.S → 0 < p.isz → 0 < p.k → 1 ≤ g → g ≤ p.n → p.S ≤ a → a < (p.n + 1) * p.S →
    ∃ j hops, access p g a = .l2 (a / p.S) j hops

/-- **plat_access_full_refuted.** … is false. Witness: 2 GPUs, 64-byte banks but 32-byte local ranges
(`dramSize < gpuMemSize`): address 104 is in bank 1, GPU 1's mapper does not keep it, so GPU 2's request
would be handed by GPU 1's engine to `ModuleForOtherAddresses` — its own inside port (`loop`). -/
theorem plat_access_full_refuted : ¬ plat_access_full := by
  intro h
  obtain ⟨j, hops, e⟩ := h ⟨2, 64, 32, 4, 2, 4, 192⟩ 2 104 (by decide) (by decide) (by decide) (by decide)
    (by decide) (by decide) (by decide)
  have e' : access ⟨2, 64, 32, 4, 2, 4, 192⟩ 2 104 = .loop := by decide
  rw [e'] at e
  cases e

/-- **plat_access_partial.** The version that holds: with `D = S` (and the DMA equality, i.e. `PlatOk`). -/
theorem plat_access_partial (p : PlatCfg) (h : PlatOk p) (g a : Nat) (ha1 : p.S ≤ a) (ha2 : a < (p.n + 1) * p.S) :
    ∃ j hops, access p g a = .l2 (a / p.S) j hops :=
  ⟨_, _, (plat_local_or_owner p h g a ha1 ha2).2.2.2.2⟩

/-- **plat_dram_larger_two_owners.** The other direction: 64-byte banks but 96-byte local ranges
(`dramSize > gpuMemSize`). GPU 1 and GPU 2 both keep address 130 in their own L2 — the byte exists twice. -/
theorem plat_dram_larger_two_owners :
    let p : PlatCfg := ⟨2, 64, 96, 4, 2, 4, 192⟩
    l1Find p 1 130 ≠ .rdma ∧ l1Find p 2 130 ≠ .rdma ∧ access p 1 130 = .l2 1 0 0 ∧ access p 2 130 = .l2 2 0 0 := by
  decide

/-! ## E. the allocator's ranges on the builders' platform -/

/-- **allocStart_value.** The allocator starts one 4 KiB page above 0 (`1 << log2PageSize` with the
platform builder's `log2PageSize`). -/
theorem allocStart_value : allocStart = 4096 := by
  show Gen.C10Alloc.newAllocTotal Gen.C18Plat.log2PageSize = 4096
  simp only [Gen.C10Alloc.newAllocTotal, Gen.C18Plat.log2PageSize, Nat.reduceShiftLeft]

/-- **plat_alloc_owner.** Every address the allocator gives to GPU `d`, except the last page of `d`'s range,
is served by `d`'s L2 (bank `a / 128 % 16`) from every GPU, with one forward unless `g = d`. -/
theorem plat_alloc_owner (t : GpuType) (n d a g : Nat) (hd1 : 1 ≤ d) (hd : d ≤ n)
    (hlo : allocStart + d * 4294967296 ≤ a) (hhi : a < d * 4294967296 + 4294967296) :
    allocOwner allocStart 4294967296 n a = some d ∧
    access (platOf t n) g a = .l2 d (a / 128 % 16) (if g = d then 0 else 1) := by
  obtain ⟨h1, h2, _⟩ := owner_routing 4294967296 allocStart n d a hd hlo hhi
  unfold bank at h2
  have h3 := builders_access t n g a (by omega) (by omega)
  rw [h2] at h3
  exact ⟨h1, h3⟩

/-- **plat_alloc_last_page.** The recorded finding `C18-owner-last-page` on the builders' platform: the last
page of GPU `d`'s allocator range is served by the NEXT GPU's L2, and for the last GPU the access indexes the
RDMA table out of range (Go slice panic) at an address beyond the global storage. (`d = 0`, the host's
range, and `g = 0` are included: neither `1 ≤ d` nor `1 ≤ g` is needed.) -/
theorem plat_alloc_last_page (t : GpuType) (n d a g : Nat) (hd : d ≤ n) (hg : g ≤ n)
    (hlo : (d + 1) * 4294967296 ≤ a) (hhi : a < (d + 1) * 4294967296 + allocStart) :
    allocOwner allocStart 4294967296 n a = some d ∧
    (d < n → access (platOf t n) g a = .l2 (d + 1) (a / 128 % 16) (if g = d + 1 then 0 else 1)) ∧
    (d = n → access (platOf t n) g a = .oob ∧ ¬ a < (platOf t n).cap) := by
  have hP : allocStart ≤ 4294967296 := by rw [allocStart_value]; decide
  obtain ⟨h1, h2⟩ := alloc_last_page_next_bank allocStart 4294967296 n d a hP hd hlo hhi
  unfold bank at h2
  refine ⟨h1, ?_, ?_⟩
  · intro hlt
    have h3 := builders_access t n g a (by omega) (last_page_lt 4294967296 allocStart n d a hP hlt hhi)
    rw [h2] at h3
    exact h3
  · intro he
    subst he
    have hok := platOf_ok t d
    rw [platOf_values] at hok ⊢
    refine ⟨plat_beyond _ hok g a hg hlo, ?_⟩
    show ¬ a < d * 4294967296 + 4294967296
    omega

/-! ## non-vacuity: concrete instances -/

/-- 4 GPUs, `r9nano`: GPU 1 reads an address of GPU 3 — one forward, L2 bank `0x1234 / 128 % 16 = 4` -/
example : access (platOf .r9nano 4) 1 (3 * 4294967296 + 0x1234) = .l2 3 4 1 := by decide

/-- 2 GPUs, `mi300a`: GPU 2 reads its own memory -/
example : access (platOf .mi300a 2) 2 (2 * 4294967296 + 5) = .l2 2 0 0 := by decide

/-- bank 0 is "CPU"; beyond the last bank is a slice panic; and neither is inside / both outside … -/
example : access (platOf .r9nano 2) 1 4096 = .cpu ∧ access (platOf .r9nano 2) 1 (3 * 4294967296) = .oob ∧
    (4096 < (platOf .r9nano 2).cap) ∧ ¬ (3 * 4294967296 < (platOf .r9nano 2).cap) := by decide

/-- the hypotheses of `builders_access` are satisfiable, and its conclusion is what evaluation gives -/
example : access (platOf .mi300a 4) 2 (4 * 4294967296 + 130) =
    .l2 ((4 * 4294967296 + 130) / 4294967296) ((4 * 4294967296 + 130) / 128 % 16)
      (if 2 = (4 * 4294967296 + 130) / 4294967296 then 0 else 1) :=
  builders_access .mi300a 4 2 _ (by decide) (by decide)

/-- `PlatOk` holds of a small configuration, and `plat_local_or_owner` applies to it -/
example : PlatOk ⟨2, 64, 64, 4, 2, 4, 192⟩ := ⟨by decide, rfl, by decide, by decide, rfl⟩

example : access ⟨2, 64, 64, 4, 2, 4, 192⟩ 2 104 = .l2 1 0 1 ∧ access ⟨2, 64, 64, 4, 2, 4, 192⟩ 1 104 = .l2 1 0 0 ∧
    l1Find ⟨2, 64, 64, 4, 2, 4, 192⟩ 2 104 = .rdma ∧ dramFind ⟨2, 64, 64, 4, 2, 4, 192⟩ 104 = 0 := by decide

/-- the witness of `plat_access_full_refuted` satisfies every hypothesis but `D = S` -/
example : access ⟨2, 64, 32, 4, 2, 4, 192⟩ 2 104 = .loop ∧ (64 : Nat) ≤ 104 ∧ 104 < (2 + 1) * 64 := by decide

/-- `plat_alloc_owner`: first address of GPU 1's allocator range, read by GPU 2 -/
example : allocOwner allocStart 4294967296 2 (4294967296 + 4096) = some 1 ∧
    access (platOf .r9nano 2) 2 (4294967296 + 4096) = .l2 1 0 1 := by decide

/-- `plat_alloc_last_page`: the last page of GPU 1's range is served by GPU 2, that of GPU 2's range by nobody -/
example : allocOwner allocStart 4294967296 2 (2 * 4294967296 + 100) = some 1 ∧
    access (platOf .r9nano 2) 1 (2 * 4294967296 + 100) = .l2 2 0 1 ∧
    allocOwner allocStart 4294967296 2 (3 * 4294967296 + 100) = some 2 ∧
    access (platOf .r9nano 2) 1 (3 * 4294967296 + 100) = .oob := by decide

/-- `access_target` at work: same decision in both models -/
example : target (memCfgOf (platOf .r9nano 2)) 1 (2 * 4294967296 + 100) = .ok 2 ∧
    target (memCfgOf (platOf .r9nano 2)) 1 100 = .error .cpu ∧
    target (memCfgOf (platOf .r9nano 2)) 1 (3 * 4294967296) = .error .bounds := ⟨rfl, rfl, rfl⟩

/-- the engines of the 2-GPU platform are the three nodes of the closed-system platform -/
example : engineCfg (platOf .r9nano 2) 1 = nodeCfg 128 1 1 1 1 4294967296 3 128 16 1 := by
  rw [engineCfg_nodeCfg _ (platOf_ok _ _).dEq]; rfl

/-! ## The runner's platform for a GPU list -/

theorem le_getLast_of_sorted : ∀ (ids : List Nat), ids.Pairwise (· ≤ ·) → ∀ i ∈ ids, i ≤ ids.getLast?.getD 0 := by
  intro ids
  induction ids with
  | nil => intro _ i hi; cases hi
  | cons x xs ih =>
    intro hp i hi
    rw [List.pairwise_cons] at hp
    cases xs with
    | nil =>
      simp only [List.mem_singleton] at hi
      subst hi
      simp
    | cons y ys =>
      have hl : (x :: y :: ys).getLast?.getD 0 = (y :: ys).getLast?.getD 0 := by
        simp [List.getLast?_cons_cons]
      rw [hl]
      rcases List.mem_cons.mp hi with rfl | hm
      · have h1 := hp.1 y (List.mem_cons_self)
        have h2 := ih hp.2 y (List.mem_cons_self)
        omega
      · exact ih hp.2 i hm

/-- the fold of `numGPUsToBuild` started at `n` is at least `n` and at least every element -/
theorem le_foldMax : ∀ (ids : List Nat) (n : Nat),
    n ≤ ids.foldl (fun n id => if id > n then id else n) n ∧
    ∀ i ∈ ids, i ≤ ids.foldl (fun n id => if id > n then id else n) n := by
  intro ids
  induction ids with
  | nil => intro n; exact ⟨Nat.le_refl _, fun i hi => by cases hi⟩
  | cons x xs ih =>
    intro n
    simp only [List.foldl_cons]
    have hn : n ≤ (if x > n then x else n) := by split <;> omega
    have hx : x ≤ (if x > n then x else n) := by split <;> omega
    generalize (if x > n then x else n) = m at hn hx ⊢
    obtain ⟨h1, h2⟩ := ih m
    refine ⟨by omega, fun i hi => ?_⟩
    rcases List.mem_cons.mp hi with rfl | hm
    · omega
    · exact h2 i hm

/-- **runner_source_pinned.** The runner sizes both platforms by `numGPUsToBuild` — the running maximum over
`r.GPUIDs`, started at 0 — and unifies the whole list (generated from `amd/samples/runner/runner.go`; a changed
helper body breaks this obligation). -/
theorem runner_source_pinned :
    Gen.C18Plat.runnerNumGPUs = ["r.numGPUsToBuild()", "r.numGPUsToBuild()"] ∧
    Gen.C18Plat.runnerNumGPUsBody =
      ["numGPUs:=0", "for_,id:=ranger.GPUIDs{ifid>numGPUs{numGPUs=id}}", "returnnumGPUs"] ∧
    Gen.C18Plat.runnerUnified = ["nil", "r.GPUIDs", "[]int{unifiedGPUID}"] := ⟨rfl, rfl, rfl⟩

/-- the full statement: the platform contains every listed GPU, whatever the order of the list, and
`CreateUnifiedGPU` does not panic on it -/
def runner_covers_full : Prop :=
  ∀ ids : List Nat, ids ≠ [] → (∀ i ∈ ids, 1 ≤ i) → runnerMissing ids = [] ∧ unifyFaults (runnerBuilt ids) ids = false

/-- **runner_covers_full_holds** (finding `C18-runner-gpu-order`, repaired): the runner builds `max ids` GPUs, so every
listed GPU exists — `SelectGPU` and `CreateUnifiedGPU.mustBeAllActualGPUs` stay inside `d.devices` — for sorted and
unsorted lists alike. -/
theorem runner_covers_full_holds : runner_covers_full := by
  intro ids hne hpos
  have hle := (le_foldMax ids 0).2
  constructor
  · unfold runnerMissing runnerBuilt
    rw [List.filter_eq_nil_iff]
    intro i hi
    have := hle i hi
    simp only [decide_eq_true_eq]
    omega
  · unfold unifyFaults runnerBuilt
    have h1 : ids.isEmpty = false := by cases ids with
      | nil => exact absurd rfl hne
      | cons _ _ => rfl
    rw [h1, Bool.false_or]
    rw [Bool.eq_false_iff]
    intro h
    rw [List.any_eq_true] at h
    obtain ⟨i, hi, hd⟩ := h
    have := hle i hi
    have := hpos i hi
    simp only [decide_eq_true_eq] at hd
    omega

/-- **runner_covers_sorted.** (special case kept from before the repair) a GPU list written in ascending order
(`-gpus=1,2,4`) is covered -/
theorem runner_covers_sorted (ids : List Nat) (hne : ids ≠ []) (_hs : ids.Pairwise (· ≤ ·)) (hpos : ∀ i ∈ ids, 1 ≤ i) :
    runnerMissing ids = [] ∧ unifyFaults (runnerBuilt ids) ids = false :=
  runner_covers_full_holds ids hne hpos

/-- the same statement about the runner BEFORE the repair (platform sized by the last id) -/
def runner_covers_before_fix : Prop :=
  ∀ ids : List Nat, ids ≠ [] → (∀ i ∈ ids, 1 ≤ i) → runnerMissingOld ids = []

/-- **runner_covers_before_fix_refuted.** … was false: for `-gpus=2,1` the runner built ONE GPU
(`r.GPUIDs[len(r.GPUIDs)-1]`), GPU 2 did not exist: `SelectGPU(2)` indexed `d.devices` out of range,
`-unified-gpus=2,1` panicked in `CreateUnifiedGPU`. Replayed on the real runner by the harness
(`c18 runner … gpus=2,1`, oracle `C18.runner.gpu-missing`) until the repair. -/
theorem runner_covers_before_fix_refuted : ¬ runner_covers_before_fix := by
  intro h
  have := h [2, 1] (by decide) (by decide)
  revert this
  decide

/-- before the repair sorted lists were covered (the old platform = the new one on them) -/
theorem runner_old_covers_sorted (ids : List Nat) (hs : ids.Pairwise (· ≤ ·)) : runnerMissingOld ids = [] := by
  have hle := le_getLast_of_sorted ids hs
  unfold runnerMissingOld runnerBuiltOld
  rw [List.filter_eq_nil_iff]
  intro i hi
  have := hle i hi
  simp only [decide_eq_true_eq]
  omega

/-- sorted and permuted lists get the same platform now; before the repair the permuted ones lost GPUs -/
example : runnerBuilt [1, 2, 3, 4] = 4 ∧ runnerMissing [1, 2, 3, 4] = [] ∧ unifyFaults 4 [1, 2, 3, 4] = false ∧
    runnerBuilt [2, 1] = 2 ∧ runnerMissing [2, 1] = [] ∧ unifyFaults (runnerBuilt [2, 1]) [2, 1] = false ∧
    runnerBuilt [3, 4, 1, 2] = 4 ∧ runnerMissing [3, 4, 1, 2] = [] ∧
    runnerBuiltOld [2, 1] = 1 ∧ runnerMissingOld [2, 1] = [2] ∧ unifyFaults (runnerBuiltOld [2, 1]) [2, 1] = true ∧
    runnerMissingOld [3, 4, 1, 2] = [3, 4] ∧ [1, 2, 4].Pairwise (· ≤ ·) := by decide

end C18
