import MgpuProofs.C07Alloc
import MgpuProofs.C07Disagree
import MgpuProofs.C07Release
set_option linter.unusedVariables false
set_option linter.unusedSimpArgs false
/-! # C07 — property theorems, second layer: one refinement statement for both register stores

* abstract state: `GMap = wavefront → CellId → Nat` (MgpuProofs/C07Map.lean), cells `s i`, `v lane i`,
  `vcc_lo`, `vcc_hi`, `exec_lo`, `exec_hi`, `scc`, `m0`; an access reads its cells in operand order
  (`CMap.readBytes`) and a write replaces exactly them, each by its chunk of the data (`CMap.writeBytes`);
* both stores (`EmuG`: one `EmuRF` per wavefront; `TimingRF`: the CU's shared files + per-wavefront
  offsets) refine it for ARBITRARY interleaved sequences of the four operand calls;
* the offsets come from the resource allocator (`C09.reserve` / `C09.free`, invariant `C09.Inv`):
  in every reachable allocator state the windows are byte-disjoint and inside the files (`Alloc`);
* exact fault predicates for every (register, RegCount, lane[, data length]) in both stores and the
  complete list of operands on which they disagree.
Helper lemmas: MgpuProofs/C07Frame.lean, C07Map.lean, C07Run.lean, C07Alloc.lean, C07Fault.lean, C07Disagree.lean. -/
namespace C07
open Gen

/-- **Both register stores refine one abstract map `wavefront → Cell → value`, for every interleaved
sequence of operand accesses.** `ops` is any list of (wavefront, access) with accesses
`ReadOperandBytes / ReadOperand / WriteOperandBytes / WriteOperand` of 1..16 registers, the 64-bit
names (`vcc`, `exec`, `vcc_lo`/`exec_lo` with count 2), the halves, `scc`, `m0`.
*Emulation* (every wavefront has its own `emu.Wavefront` store): the list of answers, faults
included, is the abstract machine's, and the stores afterwards hold the abstract machine's final map.
*Timing* (one `SimpleRegisterFile` per kind shared by all resident wavefronts, addressed through
`SRegOffset`/`VRegOffset`): the same, provided the windows are inside the files and pairwise
byte-disjoint (`Alloc`, discharged by `allocator_windows_disjoint` below) — and `Alloc` still holds
afterwards. Since `GMap.step` touches only the accessing wavefront's map and `CMap.writeBytes` only
the cells of the access, this is read-after-write, the frame property (no other register, lane, half
or wavefront) and the aliasing of multi-register operands in one statement. -/
theorem stores_refine_register_map (ops : List (Nat × Op)) :
    (∀ (es : EmuG), (∀ j, (es j).Sized) → (∀ p ∈ ops, p.2.Ok 102 256) →
      (es.exec ops).2 = ((absEG es).exec ops).2 ∧ absEG (es.exec ops).1 = ((absEG es).exec ops).1) ∧
    (∀ (t : TimingRF), Alloc t → GOk t ops →
      (t.exec ops).2 = ((absG t).exec ops).2 ∧ absG (t.exec ops).1 = ((absG t).exec ops).1 ∧
      SameLayout t (t.exec ops).1 ∧ Alloc (t.exec ops).1) :=
  ⟨fun es hs hok => ⟨(emu_exec_refines ops es hs hok).1, (emu_exec_refines ops es hs hok).2.1⟩,
   fun t hA hok => timing_exec_refines ops t hA hok⟩

/-- an interleaving of three wavefronts: a write of wavefront 0, a 64-bit read of wavefront 2's VCC,
    a 4-register vector write of wavefront 1, wavefront 0 reading back -/
def demoOps : List (Nat × Op) :=
  [(0, .w ⟨.s 4, 2, 0⟩ 0x1122334455667788), (2, .r ⟨.vcclo, 2, 0⟩),
   (1, .wb ⟨.v 2, 4, 63⟩ (List.replicate 16 9)), (0, .rb ⟨.s 5, 0, 0⟩ 4), (0, .w ⟨.exechi, 0, 0⟩ 7)]

example : Alloc t0 ∧ GOk t0 demoOps := by
  refine ⟨t0_alloc, ?_⟩
  intro p hp
  simp only [demoOps, List.mem_cons, List.mem_nil_iff, or_false] at hp
  rcases hp with rfl | rfl | rfl | rfl | rfl <;>
    refine ⟨by decide, ?_⟩ <;>
    simp [Op.Ok, Acc.Supported, cnt, t0, TimingRF.wf, width_s, width_v, Acc.width, Acc.cells, CellId.bytes] <;>
    decide

/-- **Read-after-write returns the last write per cell** (abstract machine, then both stores). After
any interleaved sequence, the value of cell `id` of wavefront `wi` is the chunk of the most recent
write of *that* wavefront whose operand denotes the cell — through whichever name (`s[4:5]`, `vcc`,
`vcc_hi`, …) — or its initial value if there was none; accesses of other wavefronts, other lanes and
other registers never matter. -/
theorem cell_holds_last_write (ops : List (Nat × Op)) (wi : Nat) (id : CellId) :
    (∀ g : GMap, (g.exec ops).1 wi id = (lastWrite wi id ops).getD (g wi id)) ∧
    (∀ (es : EmuG), (∀ j, (es j).Sized) → (∀ p ∈ ops, p.2.Ok 102 256) →
      absEG (es.exec ops).1 wi id = (lastWrite wi id ops).getD (absEG es wi id)) ∧
    (∀ (t : TimingRF), Alloc t → GOk t ops →
      absG (t.exec ops).1 wi id = (lastWrite wi id ops).getD (absG t wi id)) := by
  refine ⟨gmap_last_write wi id ops, fun es hs hok => ?_, fun t hA hok => ?_⟩
  · rw [(emu_exec_refines ops es hs hok).2.1]; exact gmap_last_write wi id ops _
  · rw [(timing_exec_refines ops t hA hok).2.1]; exact gmap_last_write wi id ops _

example : lastWrite 0 (.s 5) demoOps = some 0x11223344 ∧ lastWrite 0 (.s 4) demoOps = some 0x55667788 ∧
    lastWrite 1 (.s 5) demoOps = none ∧ lastWrite 1 (.v 63 3) demoOps = some 0x09090909 ∧
    lastWrite 1 (.v 62 3) demoOps = none ∧ lastWrite 0 .execHi demoOps = some 7 ∧
    lastWrite 0 .execLo demoOps = none := by decide +kernel

/-- **Emulation and timing answer every interleaved sequence identically.** Emulation keeps one store
per wavefront, timing one shared file; if initially every resident wavefront's owned cells agree,
then any interleaving of supported accesses of all wavefronts produces the same list of answers in
both modes and the owned cells agree afterwards. (`emu_timing_same_answers_seq` of the first layer
is the one-wavefront case, re-derived below.) -/
theorem emu_timing_same_answers_interleaved (ops : List (Nat × Op)) (es : EmuG) (t : TimingRF)
    (hs : ∀ j, (es j).Sized) (hA : Alloc t) (hok : GOk t ops)
    (hag : ∀ j, j < t.wfs.size → MapAgree (t.wf j).ns (t.wf j).nv (absEG es j) (absG t j)) :
    (es.exec ops).2 = (t.exec ops).2 ∧
    ∀ j, j < t.wfs.size →
      MapAgree (t.wf j).ns (t.wf j).nv (absEG (es.exec ops).1 j) (absG (t.exec ops).1 j) := by
  have hokE : ∀ p ∈ ops, p.2.Ok 102 256 := by
    intro p hp
    obtain ⟨hwi, ho⟩ := hok p hp
    have hf := hA.fits p.1 hwi
    exact ho.mono hf.hns (by have := hf.hrow; omega)
  obtain ⟨e1, e2, _⟩ := emu_exec_refines ops es hs hokE
  obtain ⟨t1, t2, _, _⟩ := timing_exec_refines ops t hA hok
  obtain ⟨g1, g2⟩ := gmap_exec_agree t.wfs.size (fun j => ((t.wf j).ns, (t.wf j).nv)) ops (absEG es) (absG t)
    hag (fun p hp => hok p hp)
  refine ⟨by rw [e1, t1, g1], fun j hj => ?_⟩
  rw [e2, t2]
  exact g2 j hj

/-- the first layer's sequence theorem as a corollary of the interleaved one — now also with the
    co-resident wavefronts only required to be byte-disjoint (`Alloc`), not interval-disjoint -/
theorem emu_timing_same_answers_seq_of_run (ops : List Op) (e : EmuRF) (t : TimingRF) (wi : Nat)
    (hs : e.Sized) (hwi : wi < t.wfs.size) (hA : Alloc t)
    (hag : Agree (absE e) (absT t (t.wf wi)) (t.wf wi).ns (t.wf wi).nv)
    (hok : ∀ o ∈ ops, o.Ok (t.wf wi).ns (t.wf wi).nv) : e.run ops = t.run wi ops := by
  -- the other wavefronts' emulator stores: any sized store holding the timing wavefront's cells
  -- is not needed — give every other index the same `e` and restrict agreement to `wi` by
  -- running the abstract machines directly
  have hokE : ∀ o ∈ ops, o.Ok 102 256 := fun o ho =>
    (hok o ho).mono (hA.fits wi hwi).hns (by have := (hA.fits wi hwi).hrow; omega)
  have hG : GOk t (ops.map fun o => (wi, o)) := by
    intro p hp
    obtain ⟨o, ho, rfl⟩ := List.mem_map.mp hp
    exact ⟨hwi, hok o ho⟩
  have hE : ∀ p ∈ ops.map (fun o => (wi, o)), p.2.Ok 102 256 := by
    intro p hp
    obtain ⟨o, ho, rfl⟩ := List.mem_map.mp hp
    exact hokE o ho
  obtain ⟨e1, _, _⟩ := emu_exec_refines _ (fun _ => e) (fun _ => hs) hE
  obtain ⟨t1, _, _, _⟩ := timing_exec_refines _ t hA hG
  -- agreement only at index `wi`: use a one-wavefront agreement relation
  have key : ∀ (l : List Op) (g g' : GMap), MapAgree (t.wf wi).ns (t.wf wi).nv (g wi) (g' wi) →
      (∀ o ∈ l, o.Ok (t.wf wi).ns (t.wf wi).nv) →
      (g.exec (l.map fun o => (wi, o))).2 = (g'.exec (l.map fun o => (wi, o))).2 := by
    intro l
    induction l with
    | nil => intros; rfl
    | cons o l ih =>
      intro g g' h hl
      obtain ⟨c1, c2⟩ := cmap_step_agree _ _ (g wi) (g' wi) o h (hl o (by simp))
      simp only [List.map_cons, GMap.exec]
      have c1' : (g.step wi o).2 = (g'.step wi o).2 := c1
      rw [c1', ih (g.step wi o).1 (g'.step wi o).1 (by simpa [GMap.step] using c2)
        (fun o' ho' => hl o' (by simp [ho']))]
  have hgi : absG t wi = (absT t (t.wf wi)).toMap := by simp only [absG, hwi, if_true]
  rw [← EmuG.exec_single wi ops (fun _ => e), ← TimingRF.exec_single wi ops t, e1, t1]
  exact key ops _ _ (by rw [hgi]; exact hag.mapAgree) hok

/-- **A write touches only bytes of the writer's own register windows.** Unconditionally (any
register, count, lane, offset, data) `CURegFileAccessor.WriteReg` changes at most the `4·count`
bytes at `getRegOffset` of the scalar file (SGPR) or of the writer's SIMD's vector file (VGPR) and no
other wavefront's record (`writeReg_frame`); for a supported access these bytes lie inside the
writer's own SGPR window / its own lane's VGPR window — so every wavefront whose windows share no
byte with the writer's (`WindowsDisjoint`; weaker than the first layer's `RegionsDisjoint`, which
rejects an empty window pointing into a neighbour — exactly what the allocator hands to a kernel
without SGPRs/VGPRs) keeps all its cells. -/
theorem write_touches_only_own_window (t : TimingRF) (wi : Nat) (a : Acc) (d : List UInt8)
    (hf : Fits t (t.wf wi)) (ha : a.Supported (t.wf wi).ns (t.wf wi).nv) :
    (∀ p, ¬ ownS (t.wf wi) p →
      get (t.writeOperandBytes wi a.k.reg a.rc a.lane d).1.sfile p = get t.sfile p) ∧
    (∀ (x : TWf) p, ¬ (x.simd = (t.wf wi).simd ∧ ownV (t.wf wi) p) →
      get ((t.writeOperandBytes wi a.k.reg a.rc a.lane d).1.vfileOf x) p = get (t.vfileOf x) p) ∧
    (∀ wj, wj ≠ wi → (t.writeOperandBytes wi a.k.reg a.rc a.lane d).1.wf wj = t.wf wj) ∧
    (∀ wj, wj ≠ wi → WindowsDisjoint (t.wf wi) (t.wf wj) →
      absT (t.writeOperandBytes wi a.k.reg a.rc a.lane d).1
        ((t.writeOperandBytes wi a.k.reg a.rc a.lane d).1.wf wj) = absT t (t.wf wj)) := by
  have hnv : (t.wf wi).nv ≤ 256 := by have := hf.hrow; omega
  obtain ⟨f1, f2, f3⟩ := tim_write_only_own t wi a d hf.hns hnv ha
  exact ⟨f1, f2, f3, fun wj hne hdis => tim_others_unchanged t wi wj a d hf.hns hnv ha hne hdis⟩

example : WindowsDisjoint ⟨0, 64, 0, 0, 0, 0, 0, 0, 0⟩ ⟨0, 0, 0, 32, 8, 0, 0, 0, 0⟩ ∧
    ¬ RegionsDisjoint ⟨0, 64, 0, 0, 0, 0, 0, 0, 0⟩ ⟨0, 0, 0, 32, 8, 0, 0, 0, 0⟩ := by
  refine ⟨⟨fun p ⟨a, b⟩ => ?_, Or.inr fun p ⟨⟨l, _, _, a1, a2⟩, _⟩ => ?_⟩, fun h => ?_⟩
  · simp only [ownS] at a b; omega
  · simp only at a1 a2; omega
  · have := h.1; simp only at this; omega

/-- **Register release inside the run.** Extend the access sequences by `rel` steps
(`SchedulerImpl.resetRegisterValue` when a wavefront ends): on the abstract map a release sets every
SGPR/VGPR cell of that wavefront to 0 and keeps its special registers (`clearRegs`); the timing
store refines the extended machine for every interleaving of accesses and releases of all resident
wavefronts — a release never disturbs a co-resident wavefront whose windows are byte-disjoint, and
never panics. -/
theorem timing_run_with_release_refines (ops : List (Nat × GOp)) (t : TimingRF) (hA : Alloc t)
    (hok : GOkR t ops) :
    (t.execR ops).2 = ((absG t).execR ops).2 ∧ absG (t.execR ops).1 = ((absG t).execR ops).1 ∧
    SameLayout t (t.execR ops).1 ∧ Alloc (t.execR ops).1 :=
  timing_execR_refines ops t hA hok

example : GOkR t0 [(0, .acc (.w ⟨.s 4, 2, 0⟩ 7)), (0, .rel), (1, .acc (.r ⟨.vcclo, 2, 0⟩)), (0, .acc (.r ⟨.s 4, 0, 0⟩))] ∧
    clearRegs (fun _ => 5) (.s 4) = 0 ∧ clearRegs (fun _ => 5) .vccHi = 5 := by
  refine ⟨fun p hp => ?_, rfl, rfl⟩
  simp only [List.mem_cons, List.mem_nil_iff, or_false] at hp
  rcases hp with rfl | rfl | rfl | rfl <;>
    refine ⟨by decide, ?_⟩ <;>
    simp [GOp.Ok, Op.Ok, Acc.Supported, cnt, t0, TimingRF.wf, width_s, width_v, Acc.width, Acc.cells, CellId.bytes] <;>
    decide

/-! ## the offsets come from the resource allocator -/

/-- **Every reachable state of the shipped CU's resource allocator hands out byte-disjoint register
windows inside the register files.** Start from the freshly registered shipped compute unit
(4 SIMDs × 10 slots, 3200 SGPRs, 16384 VGPRs per SIMD) and run any sequence of
`ReserveResourceForWG` / `FreeResourcesForWG` calls that does not panic (groups with ≥ 1 wavefront):
the windows `(SIMDID, SGPROffset, VGPROffset, WFSgprCount, WIVgprCount)` of all live wavefronts
(`wfsOfCU`, what `wfdispatcher.go` copies into the timing wavefronts) are pairwise byte-disjoint,
each SGPR window lies inside the 12800-byte scalar file, each VGPR window inside one 1024-byte lane
row of an existing SIMD's vector file. Uses C09's invariant `reserve_inv` plus: masks never change
size (`runR_shape`), unit regions → byte windows (`allocator_windows`). -/
theorem allocator_windows_disjoint (ops : List C09.ROp) (cu0 cu : C09.CU) (h0 : shippedCU = some cu0)
    (hops : ∀ op ∈ ops, ∀ k d, op = .reserve k d → 1 ≤ d.nwf) (hrun : C09.runR cu0 ops = some cu) :
    C09.Inv C09.shippedWf cu ∧ CUShape cu 200 64 4 ∧
    (wfsOfCU cu).Pairwise WindowsDisjoint ∧
    ∀ w ∈ wfsOfCU cu, w.soff + 4 * w.ns ≤ 12800 ∧ w.voff + 4 * w.nv ≤ 1024 ∧ w.simd < 4 := by
  have hinv0 : C09.Inv C09.shippedWf cu0 := C09.mkCU_inv _ _ _ _ cu0 h0 rfl (by decide)
  have hinv := C09.reserve_inv C09.shippedWf cu0 hinv0 (by decide) ops hops cu hrun
  have hsh := runR_shape ops cu0 cu 200 64 4 hrun (shipped_shape cu0 h0)
  obtain ⟨a, b⟩ := allocator_windows C09.shippedWf cu 200 64 hinv hsh (Nat.le_refl _)
  exact ⟨hinv, hsh, a, fun w hw => ⟨by have := (b w hw).1; omega, by have := (b w hw).2.1; omega, (b w hw).2.2⟩⟩

/-- two kernels: 2 wavefronts with 17 SGPRs / 5 VGPRs, then 1 wavefront that uses no registers at all
    (its empty windows point to offset 0, into the first wavefront's registers) -/
def demoAlloc : List C09.ROp := [.reserve 1 ⟨2, 17, 5, 300⟩, .reserve 2 ⟨1, 0, 0, 0⟩]

example : (shippedCU.bind fun cu0 => C09.runR cu0 demoAlloc).map (fun cu => (wfsOfCU cu).map TWf.layout) =
    some [(0, 0, 0, 17, 5), (1, 128, 0, 17, 5), (2, 0, 0, 0, 0)] := by decide +kernel

/-- **… hence the compute unit the dispatcher builds from them satisfies `Alloc`, and every access
sequence on it refines the abstract map.** `t` is any compute unit with the shipped register files
whose resident wavefronts carry the layouts the allocator recorded (special-register values
arbitrary), every resident kernel declaring at most the 102 architectural SGPRs. -/
theorem allocated_cu_refines_register_map (aops : List C09.ROp) (cu0 cu : C09.CU) (t : TimingRF)
    (h0 : shippedCU = some cu0) (hops : ∀ op ∈ aops, ∀ k d, op = .reserve k d → 1 ≤ d.nwf)
    (hrun : C09.runR cu0 aops = some cu)
    (hlay : t.wfs.toList.map TWf.layout = (wfsOfCU cu).map TWf.layout)
    (hsf : t.sfile.size = 12800) (hnv : t.vfiles.size = 4)
    (hvf : ∀ k (h : k < t.vfiles.size), t.vfiles[k].size = 65536)
    (hns : ∀ e ∈ cu.resident, e.2.1.s ≤ 102) :
    Alloc t ∧ ∀ ops : List (Nat × Op), GOk t ops →
      (t.exec ops).2 = ((absG t).exec ops).2 ∧ absG (t.exec ops).1 = ((absG t).exec ops).1 ∧
      Alloc (t.exec ops).1 := by
  obtain ⟨hinv, hsh, _, _⟩ := allocator_windows_disjoint aops cu0 cu h0 hops hrun
  have hA : Alloc t := alloc_of_allocator C09.shippedWf cu t hinv hsh hlay hsf hnv hvf hns
  refine ⟨hA, fun ops hok => ?_⟩
  obtain ⟨a, b, _, c⟩ := timing_exec_refines ops t hA hok
  exact ⟨a, b, c⟩

/-! ## faults -/

/-- **Exactly which reads panic, in each store.** For every register number, count and lane (no side
condition besides the emulator's file sizes): `ReadOperandBytes` and `ReadOperand` of the emulator
fault exactly as the decidable predicates `emuReadFault` / `emuReadOperandFault` say, those of a
timing wavefront exactly as `timReadFault` says (index out of range ↦ `bounds`, "Register type … not
supported" ↦ `unsupported`). -/
theorem read_faults_exact (e : EmuRF) (hs : e.Sized) (t : TimingRF) (wi r rc lane n : Nat) :
    errOf (e.readOperandBytes r rc lane n) = emuReadFault r rc lane ∧
    errOf (e.readOperand r rc lane) = emuReadOperandFault r rc lane ∧
    errOf (t.readOperandBytes wi r rc lane n) = timReadFault t (t.wf wi) r rc lane ∧
    errOf (t.readOperand wi r rc lane) = timReadFault t (t.wf wi) r rc lane :=
  ⟨emu_readOperandBytes_fault e hs r rc lane n, emu_readOperand_fault e hs r rc lane,
   tim_readOperandBytes_fault t wi r rc lane n, tim_readOperand_fault t wi r rc lane⟩

/-- **Exactly which writes panic, in each store**, as a function of register, count, lane and the
length of the data (`WriteOperandBytes`) / for every value (`WriteOperand`). -/
theorem write_faults_exact (e : EmuRF) (hs : e.Sized) (t : TimingRF) (wi r rc lane v : Nat) (d : List UInt8) :
    (e.writeOperandBytes r rc lane d).2 = emuWriteFault r rc lane d.length ∧
    (e.writeOperand r rc lane v).2 = emuWriteOperandFault r rc lane ∧
    (t.writeOperandBytes wi r rc lane d).2 = timWriteFault t (t.wf wi) r rc lane d.length ∧
    (t.writeOperand wi r rc lane v).2 = timWriteOperandFault t (t.wf wi) r rc lane :=
  ⟨emu_writeOperandBytes_fault e hs r rc lane d, emu_writeOperand_fault e hs r rc lane v,
   tim_writeOperandBytes_fault t wi r rc lane d, tim_writeOperand_fault t wi r rc lane v⟩

example : emuReadFault 258 16 0 = none ∧ emuReadFault 358 4 0 = some .bounds ∧
    emuReadFault 370 0 0 = some .unsupported ∧ emuWriteFault 364 0 0 4 = some .bounds ∧
    emuWriteOperandFault 258 4 0 = some .bounds := by decide +kernel

/-- the statement "both stores fault on the same operands", kept visible: it is false -/
def read_faults_agree_every_operand : Prop :=
  ∀ (t : TimingRF) (w : TWf) (r rc lane : Nat), emuReadFault r rc lane = timReadFault t w r rc lane

/-- a compute unit with one wavefront in the last 16-SGPR unit of the scalar file and the second
    4-VGPR unit of SIMD 0 -/
def t2 : TimingRF := ⟨Array.replicate 12800 0, #[Array.replicate 65536 0], #[⟨0, 12736, 16, 16, 4, 0, 0, 0, 0⟩]⟩

/-- **The complete list of read operands on which the stores disagree about faulting**
(`read_bytes_fault_disagree`: an exact iff for all registers, counts, lanes, wavefront offsets), with
one kernel-checked witness per class on the real file sizes: (1) `vcc` with count 9 — emulator
panics (72 > 64-byte buffer), timing answers; (2) `exec_hi` with count 2 — emulator "not supported",
timing answers `exec`; (3a) `s[100:103]` — emulator panics, timing silently reads past the
architectural SGPRs (the neighbour's registers); (3b) `s16` of a wavefront owning 16 SGPRs in the last
unit of the file — timing panics, emulator answers; (4a) `v0` with count 17 — emulator panics only;
(4b) lane 63, `v252` of a wavefront at `VRegOffset` 16 — timing panics only; (5) `flat_scratch_lo`
with count 17 — emulator "index out of range", timing "not supported". All seven are replayed on the
real stores by harness/c07_deep.go. Every disagreement lies outside the supported subset. -/
theorem read_faults_agree_every_operand_refuted : ¬ read_faults_agree_every_operand ∧
    (∀ (t : TimingRF) (w : TWf) (r rc lane : Nat),
      emuReadFault r rc lane ≠ timReadFault t w r rc lane ↔
        ((isSpecial7 r || r == R_EXECHI) = true ∧ 64 < numBytes r rc) ∨
        (r = R_EXECHI ∧ 2 ≤ rc ∧ numBytes r rc ≤ 64) ∨
        (isSReg r = true ∧ ¬ (emuSOut r rc ↔ timSOut t w r rc)) ∨
        (isVReg r = true ∧ ¬ (emuVOut r rc lane ↔ timVOut t w r rc lane)) ∨
        (isSReg r = false ∧ isVReg r = false ∧ (isSpecial7 r || r == R_EXECHI) = false ∧ 64 < numBytes r rc)) ∧
    (emuReadFault 364 9 0 = some .bounds ∧ timReadFault t1 (t1.wf 0) 364 9 0 = none) ∧
    (emuReadFault 362 2 0 = some .unsupported ∧ timReadFault t1 (t1.wf 0) 362 2 0 = none) ∧
    (emuReadFault 358 4 0 = some .bounds ∧ timReadFault t1 (t1.wf 0) 358 4 0 = none) ∧
    (emuReadFault 274 0 0 = none ∧ timReadFault t2 (t2.wf 0) 274 0 0 = some .bounds) ∧
    (emuReadFault 2 17 0 = some .bounds ∧ timReadFault t1 (t1.wf 0) 2 17 0 = none) ∧
    (emuReadFault 254 0 63 = none ∧ timReadFault t2 (t2.wf 0) 254 0 63 = some .bounds) ∧
    (emuReadFault 370 17 0 = some .bounds ∧ timReadFault t1 (t1.wf 0) 370 17 0 = some .unsupported) := by
  have s1 : t1.sfile.size = 12800 := by simp [t1]
  have v1 : (t1.vfileOf (t1.wf 0)).size = 65536 := by simp [t1, TimingRF.vfileOf, TimingRF.wf]
  have s2 : t2.sfile.size = 12800 := by simp [t2]
  have v2 : (t2.vfileOf (t2.wf 0)).size = 65536 := by simp [t2, TimingRF.vfileOf, TimingRF.wf]
  have o1 : (t1.wf 0).soff = 0 ∧ (t1.wf 0).voff = 0 := ⟨rfl, rfl⟩
  have o2 : (t2.wf 0).soff = 12736 ∧ (t2.wf 0).voff = 16 := ⟨rfl, rfl⟩
  have w1 : emuReadFault 364 9 0 = some .bounds ∧ timReadFault t1 (t1.wf 0) 364 9 0 = none :=
    ⟨by decide +kernel, by rw [timReadFault_eq, s1, v1, o1.1, o1.2]; decide +kernel⟩
  refine ⟨fun h => ?_, read_bytes_fault_disagree, w1,
    ⟨by decide +kernel, by rw [timReadFault_eq, s1, v1, o1.1, o1.2]; decide +kernel⟩,
    ⟨by decide +kernel, by rw [timReadFault_eq, s1, v1, o1.1, o1.2]; decide +kernel⟩,
    ⟨by decide +kernel, by rw [timReadFault_eq, s2, v2, o2.1, o2.2]; decide +kernel⟩,
    ⟨by decide +kernel, by rw [timReadFault_eq, s1, v1, o1.1, o1.2]; decide +kernel⟩,
    ⟨by decide +kernel, by rw [timReadFault_eq, s2, v2, o2.1, o2.2]; decide +kernel⟩,
    ⟨by decide +kernel, by rw [timReadFault_eq, s1, v1, o1.1, o1.2]; decide +kernel⟩⟩
  have := h t1 (t1.wf 0) 364 9 0
  rw [w1.1, w1.2] at this
  cases this

/-- **`ReadOperand` and `WriteOperand`: the complete lists of disagreements about faulting.**
`ReadOperand`: the eight special registers never fault in either store; an SGPR/VGPR operand is a
disagreement exactly when one bounds test trips and the other does not (the emulator's
`readFromRegFile` looks at one or two registers whatever the count and tests the architectural
limits, timing reads the whole range and tests only the end of the physical file); an unsupported
register with an operand longer than 64 bytes panics differently. `WriteOperand` (any value):
`exec_hi` with count 2 (emulator "not supported", timing writes `exec`), and one/two-register
SGPR/VGPR operands with exactly one bounds test tripping; everything else faults identically
(in particular every operand wider than 8 bytes panics in both). -/
theorem operand_fault_disagreements (t : TimingRF) (w : TWf) (r rc lane : Nat) :
    (emuReadOperandFault r rc lane ≠ timReadFault t w r rc lane ↔
      (isSReg r = true ∧ ¬ (emuSOutR r rc ↔ timSOut t w r rc)) ∨
      (isVReg r = true ∧ ¬ (emuVOutR r rc lane ↔ timVOut t w r rc lane)) ∨
      (isSReg r = false ∧ isVReg r = false ∧ (isSpecial7 r || r == R_EXECHI) = false ∧ 64 < numBytes r rc)) ∧
    (emuWriteOperandFault r rc lane ≠ timWriteOperandFault t w r rc lane ↔
      (r = R_EXECHI ∧ rc = 2) ∨
      (isSReg r = true ∧ cnt rc ≤ 2 ∧ ¬ (102 < regIndex r + cnt rc ↔ timSOut t w r rc)) ∨
      (isVReg r = true ∧ cnt rc ≤ 2 ∧ ¬ (16384 < lane * 256 + regIndex r + cnt rc ↔ timVOut t w r rc lane))) :=
  ⟨read_operand_fault_disagree t w r rc lane, write_operand_fault_disagree t w r rc lane⟩

example : emuReadOperandFault 358 4 0 = none ∧ emuReadFault 358 4 0 = some .bounds ∧
    emuReadOperandFault 359 2 0 = some .bounds ∧ emuWriteOperandFault 362 2 0 = some .unsupported ∧
    emuWriteOperandFault 359 2 0 = some .bounds := by decide +kernel

/-- **Inside the supported subset nothing faults, in either store** (so the fault predicates and the
refinement theorems partition the operand space consistently). -/
theorem supported_never_faults (a : Acc) :
    (a.Supported 102 256 → emuReadFault a.k.reg a.rc a.lane = none ∧ emuReadOperandFault a.k.reg a.rc a.lane = none) ∧
    (∀ (t : TimingRF) (wi : Nat), Fits t (t.wf wi) → a.Supported (t.wf wi).ns (t.wf wi).nv →
      timReadFault t (t.wf wi) a.k.reg a.rc a.lane = none) := by
  refine ⟨fun ha => ?_, fun t wi hf ha => ?_⟩
  · have hs : e1.Sized := ⟨by simp [e1], by simp [e1]⟩
    obtain ⟨r1, r2, _, _⟩ := emu_refines_cells e1 a hs ha
    constructor
    · rw [← emu_readOperandBytes_fault e1 hs _ _ _ 0, r1 0]; rfl
    · rw [← emu_readOperand_fault e1 hs, r2]; rfl
  · rw [← tim_readOperand_fault, tim_readOperand t wi a hf ha]; rfl

example : (⟨.s 86, 16, 0⟩ : Acc).Supported 102 256 ∧ (⟨.vcclo, 2, 0⟩ : Acc).Supported 102 256 := by decide

end C07
