import MgpuModel.C03V
/-! # C03 (vector / memory half) — meaning lemmas of the ISA specification

`MgpuModel/C03V_Int.lean` writes the per-lane semantics of the integer vector instructions in the
bit-level style of the ISA manuals (wrap-around adds, masks, shifts, unsigned compares as carry
detectors).  The theorems below state, for ALL operands, what each of those functions means in
ordinary arithmetic on the operand values.  They are what makes the specification an independent
reference rather than a second copy of the Go handlers: the Go code is compared (every run, on
corner and random states, through the real decoder and the real `ALU.Run`) with functions that
provably compute `(a+b) mod 2^32`, `⌊a·b / 2^32⌋`, the sign-extended bit field, … -/
namespace C03V
open C03V.I

/-- V_ADD_CO_U32: the destination is the sum modulo 2^32 and the carry-out (VCC / SDST bit of the
    lane) is set exactly when the true sum does not fit in 32 bits. -/
theorem addCo_meaning (a b : W) :
    (addCo a b).1.toNat = (a.toNat + b.toNat) % 2 ^ 32 ∧
    (addCo a b).2 = decide (a.toNat + b.toNat ≥ 2 ^ 32) := by
  have ha := a.isLt; have hb := b.isLt
  constructor
  · simp [addCo, BitVec.toNat_add]
  · simp only [addCo, BitVec.ult, BitVec.toNat_add, decide_eq_decide]; omega
example : addCo 0xFFFFFFFF#32 2#32 = (1#32, true) := by decide

/-- V_SUB_CO_U32: difference modulo 2^32; the borrow-out is set exactly when S1 > S0. -/
theorem subCo_meaning (a b : W) :
    (subCo a b).1.toNat = (a.toNat + 2 ^ 32 - b.toNat) % 2 ^ 32 ∧
    (subCo a b).2 = decide (a.toNat < b.toNat) := by
  constructor
  · simp only [subCo]; bv_omega
  · simp [subCo, BitVec.ult]
example : subCo 1#32 2#32 = (0xFFFFFFFF#32, true) := by decide

/-- V_ADDC_CO_U32: sum with carry-in modulo 2^32; carry-out is the carry of the 33-bit sum. -/
theorem addcCo_meaning (a b : W) (cin : Bool) :
    (addcCo a b cin).1.toNat = (a.toNat + b.toNat + cin.toNat) % 2 ^ 32 ∧
    (addcCo a b cin).2 = decide (a.toNat + b.toNat + cin.toNat ≥ 2 ^ 32) := by
  have ha := a.isLt; have hb := b.isLt
  cases cin
  · constructor
    · simp [addcCo, BitVec.toNat_add]
    · simp [addcCo, BitVec.ult, BitVec.toNat_add]; omega
  · constructor
    · simp [addcCo, BitVec.toNat_add]
    · simp [addcCo, BitVec.ult, BitVec.toNat_add]
      apply Bool.eq_iff_iff.mpr; simp only [Bool.or_eq_true, decide_eq_true_eq]; omega
example : addcCo 0xFFFFFFFF#32 0#32 true = (0#32, true) := by decide

/-- V_SUBB_CO_U32: difference with borrow-in; borrow-out exactly when S1 + cin > S0. -/
theorem subbCo_meaning (a b : W) (cin : Bool) :
    (subbCo a b cin).1.toNat = (a.toNat + 2 ^ 33 - b.toNat - cin.toNat) % 2 ^ 32 ∧
    (subbCo a b cin).2 = decide (a.toNat < b.toNat + cin.toNat) := by
  have ha := a.isLt; have hb := b.isLt
  cases cin
  · constructor
    · simp [subbCo, BitVec.toNat_sub]; omega
    · simp [subbCo, BitVec.ult, BitVec.toNat_sub]
  · constructor
    · simp [subbCo, BitVec.toNat_sub]; omega
    · simp [subbCo, BitVec.ult, BitVec.toNat_sub]
      apply Bool.eq_iff_iff.mpr; simp only [Bool.or_eq_true, decide_eq_true_eq]; omega
example : subbCo 5#32 5#32 true = (0xFFFFFFFF#32, true) := by decide

/-- V_MUL_LO_U32: the product modulo 2^32. -/
theorem mulLo_meaning (a b : W) : (mulLo a b).toNat = (a.toNat * b.toNat) % 2 ^ 32 := by
  simp [mulLo, BitVec.toNat_mul]

/-- V_XAD_U32 (GFX9, used by the shipped gfx942 kernel rotate_tensor): bitwise xor of the first two
    operands, then the third added modulo 2^32. -/
theorem xad_meaning (a b c : W) : (xad a b c).toNat = ((a.toNat ^^^ b.toNat) + c.toNat) % 2 ^ 32 := by
  simp [xad, BitVec.toNat_add, BitVec.toNat_xor]
example : xad 0xFFFF0000#32 0x0000FFFF#32 2#32 = 1#32 := by decide

/-- V_MUL_HI_U32: the upper half of the 64-bit product, `⌊a·b / 2^32⌋`. -/
theorem mulHiU_meaning (a b : W) : (mulHiU a b).toNat = a.toNat * b.toNat / 2 ^ 32 := by
  have ha := a.isLt
  have hb := b.isLt
  have hp : a.toNat * b.toNat < 2 ^ 32 * 2 ^ 32 := Nat.mul_lt_mul'' ha hb
  have h64 : a.toNat * b.toNat < 2 ^ 64 := by simpa using hp
  simp only [mulHiU, BitVec.toNat_setWidth, BitVec.toNat_ushiftRight, BitVec.toNat_mul,
    Nat.shiftRight_eq_div_pow]
  have e1 : a.toNat % 2 ^ 64 = a.toNat := Nat.mod_eq_of_lt (by omega)
  have e2 : b.toNat % 2 ^ 64 = b.toNat := Nat.mod_eq_of_lt (by omega)
  rw [e1, e2, Nat.mod_eq_of_lt h64]
  apply Nat.mod_eq_of_lt
  exact (Nat.div_lt_iff_lt_mul (by decide)).mpr (by simpa using hp)
example : mulHiU 0xFFFFFFFF#32 0xFFFFFFFF#32 = 0xFFFFFFFE#32 := by decide

/-- V_MUL_U32_U24: only the low 24 bits of each source take part. -/
theorem mulU24_meaning (a b : W) :
    (mulU24 a b).toNat = ((a.toNat % 2 ^ 24) * (b.toNat % 2 ^ 24)) % 2 ^ 32 := by
  have h : ∀ x : W, (zext24 x).toNat = x.toNat % 2 ^ 24 := by
    intro x
    simp only [zext24, BitVec.toNat_and]
    exact Nat.and_two_pow_sub_one_eq_mod x.toNat 24
  simp [mulU24, BitVec.toNat_mul, h]

/-- V_MUL_I32_I24: the product of the sign-extended 24-bit fields, wrapped to 32 bits. -/
theorem mulI24_meaning (a b : W) :
    mulI24 a b = BitVec.ofInt 32 ((a.setWidth 24).toInt * (b.setWidth 24).toInt) := by
  have h : ∀ x : W, sext24 x = BitVec.ofInt 32 (x.setWidth 24).toInt := by
    intro x
    simp only [sext24]
    apply BitVec.eq_of_toInt_eq
    rw [BitVec.toInt_signExtend_of_le (by decide), BitVec.toInt_ofInt]
    have := BitVec.toInt_lt (x := x.setWidth 24)
    have := BitVec.le_toInt (x := x.setWidth 24)
    rw [Int.bmod_eq_of_le] <;> omega
  simp only [mulI24, h]
  exact (BitVec.ofInt_mul _ _).symm
example : mulI24 0x00FFFFFF#32 2#32 = 0xFFFFFFFE#32 := by decide

/-- V_LSHLREV_B32: the shift count is S0 modulo 32 (only 5 bits are used). -/
theorem lshlrev_meaning (a b : W) :
    (lshlrev a b).toNat = (b.toNat * 2 ^ (a.toNat % 32)) % 2 ^ 32 := by
  have h : (a &&& 31#32).toNat = a.toNat % 32 := by
    simp only [BitVec.toNat_and]
    exact Nat.and_two_pow_sub_one_eq_mod a.toNat 5
  simp only [lshlrev, BitVec.shiftLeft_eq', h, BitVec.toNat_shiftLeft, Nat.shiftLeft_eq]
example : lshlrev 33#32 1#32 = 2#32 := by decide

/-- V_LSHRREV_B32: logical shift by S0 modulo 32 = division by a power of two. -/
theorem lshrrev_meaning (a b : W) : (lshrrev a b).toNat = b.toNat / 2 ^ (a.toNat % 32) := by
  have h : (a &&& 31#32).toNat = a.toNat % 32 := by
    simp only [BitVec.toNat_and]
    exact Nat.and_two_pow_sub_one_eq_mod a.toNat 5
  simp only [lshrrev, BitVec.ushiftRight_eq', h, BitVec.toNat_ushiftRight, Nat.shiftRight_eq_div_pow]
example : lshrrev 32#32 0x80000000#32 = 0x80000000#32 := by decide

/-- V_ASHRREV_I32: arithmetic shift = floor division of the SIGNED value by 2^(S0 mod 32). -/
theorem ashrrev_meaning (a b : W) : (ashrrev a b).toInt = b.toInt / 2 ^ (a.toNat % 32) := by
  have h : (a &&& 31#32).toNat = a.toNat % 32 := by
    simp only [BitVec.toNat_and]
    exact Nat.and_two_pow_sub_one_eq_mod a.toNat 5
  simp only [ashrrev, h, BitVec.toInt_sshiftRight, Int.shiftRight_eq_div_pow]
  norm_cast
example : ashrrev 36#32 0x80000000#32 = 0xF8000000#32 := by decide

/-- V_LSHLREV_B64 uses 6 bits of the count: a count of 64 shifts by 0. -/
theorem lshlrev64_meaning (a : W) (b : D) :
    (lshlrev64 a b).toNat = (b.toNat * 2 ^ (a.toNat % 64)) % 2 ^ 64 := by
  have h : (a &&& 63#32).toNat = a.toNat % 64 := by
    simp only [BitVec.toNat_and]
    exact Nat.and_two_pow_sub_one_eq_mod a.toNat 6
  simp only [lshlrev64, BitVec.shiftLeft_eq', h, BitVec.toNat_shiftLeft, Nat.shiftLeft_eq]
example : lshlrev64 64#32 5#64 = 5#64 := by decide

/-- V_ASHRREV_I64: floor division of the signed 64-bit value by 2^(S0 mod 64). -/
theorem ashrrev64_meaning (a : W) (b : D) : (ashrrev64 a b).toInt = b.toInt / 2 ^ (a.toNat % 64) := by
  have h : (a &&& 63#32).toNat = a.toNat % 64 := by
    simp only [BitVec.toNat_and]
    exact Nat.and_two_pow_sub_one_eq_mod a.toNat 6
  simp only [ashrrev64, h, BitVec.toInt_sshiftRight, Int.shiftRight_eq_div_pow]
  norm_cast

/-- V_BFE_U32: the `width`-bit field starting at bit `offset` (both taken modulo 32). -/
theorem bfeU_meaning (a off wd : W) :
    (bfeU a off wd).toNat = (a.toNat / 2 ^ (off.toNat % 32)) % 2 ^ (wd.toNat % 32) := by
  have ho : (off &&& 31#32).toNat = off.toNat % 32 := by
    simp only [BitVec.toNat_and]
    exact Nat.and_two_pow_sub_one_eq_mod off.toNat 5
  have hw : (wd &&& 31#32).toNat = wd.toNat % 32 := by
    simp only [BitVec.toNat_and]
    exact Nat.and_two_pow_sub_one_eq_mod wd.toNat 5
  have hlt : wd.toNat % 32 < 32 := Nat.mod_lt _ (by decide)
  have hm : (maskW (wd.toNat % 32)).toNat = 2 ^ (wd.toNat % 32) - 1 := by
    have hp : 2 ^ (wd.toNat % 32) < 2 ^ 32 := Nat.pow_lt_pow_right (by decide) hlt
    have hpos : 0 < 2 ^ (wd.toNat % 32) := Nat.pow_pos (by decide)
    simp only [maskW, BitVec.toNat_sub, BitVec.toNat_shiftLeft, BitVec.toNat_ofNat, Nat.shiftLeft_eq]
    omega
  simp only [bfeU, hw, BitVec.toNat_and, BitVec.ushiftRight_eq', ho, BitVec.toNat_ushiftRight,
    Nat.shiftRight_eq_div_pow, hm]
  exact Nat.and_two_pow_sub_one_eq_mod _ _
example : bfeU 0x12345678#32 8#32 12#32 = 0x456#32 := by decide

/-- bit i of the width-w mask is set exactly for i < w -/
theorem maskW_bit (w i : Nat) (hw : w < 32) : (maskW w).getLsbD i = (decide (i < 32) && decide (i < w)) := by
  have hp : 2 ^ w < 2 ^ 32 := Nat.pow_lt_pow_right (by decide) hw
  have hpos : 0 < 2 ^ w := Nat.pow_pos (by decide)
  have hm : maskW w = BitVec.ofNat 32 (2 ^ w - 1) := by
    apply BitVec.eq_of_toNat_eq
    simp only [maskW, BitVec.toNat_sub, BitVec.toNat_shiftLeft, BitVec.toNat_ofNat, Nat.shiftLeft_eq]
    omega
  rw [hm, BitVec.getLsbD_ofNat, Nat.testBit_two_pow_sub_one]

/-- V_BFE_I32 sign-extends: bits below `width` are those of the (arithmetically) shifted source,
    every bit from `width-1` upwards is a copy of bit `width-1` of the field. -/
theorem bfeI_meaning (a off wd : W) (i : Nat) (hi : i < 32) (hw : wd.toNat % 32 ≠ 0) :
    (bfeI a off wd).getLsbD i =
      (a.sshiftRight (off.toNat % 32)).getLsbD (min i (wd.toNat % 32 - 1)) := by
  have ho : (off &&& 31#32).toNat = off.toNat % 32 := by
    simp only [BitVec.toNat_and]
    exact Nat.and_two_pow_sub_one_eq_mod off.toNat 5
  have hwd : (wd &&& 31#32).toNat = wd.toNat % 32 := by
    simp only [BitVec.toNat_and]
    exact Nat.and_two_pow_sub_one_eq_mod wd.toNat 5
  have hlt : wd.toNat % 32 < 32 := Nat.mod_lt _ (by decide)
  generalize hwv : wd.toNat % 32 = w at *
  generalize hov : off.toNat % 32 = o at *
  simp only [bfeI, hwd, ho]
  have hne : (w == 0) = false := by simp [hw]
  simp only [hne]
  have hw1 : w - 1 < w := by omega
  by_cases hs : ((a.sshiftRight o) &&& maskW w).getLsbD (w - 1)
  · simp only [hs, if_true, Bool.false_eq_true, if_false]
    simp only [BitVec.getLsbD_or, BitVec.getLsbD_and, BitVec.getLsbD_not, maskW_bit _ _ hlt, hi, decide_true, Bool.true_and]
    simp only [BitVec.getLsbD_and, maskW_bit _ _ hlt] at hs
    by_cases hiw : i < w
    · have : min i (w - 1) = i := by omega
      simp [hiw, this]
    · have : min i (w - 1) = w - 1 := by omega
      simp [hiw, this]
      simp [hw1] at hs
      exact hs.1.symm ▸ rfl
  · simp only [hs, Bool.false_eq_true, if_false]
    simp only [BitVec.getLsbD_and, maskW_bit _ _ hlt, hi, decide_true, Bool.true_and]
    simp only [BitVec.getLsbD_and, maskW_bit _ _ hlt] at hs
    by_cases hiw : i < w
    · have : min i (w - 1) = i := by omega
      simp [hiw, this]
    · have : min i (w - 1) = w - 1 := by omega
      simp [hiw, this]
      simp [hw1] at hs
      have h32 : w - 1 < 32 := by omega
      have hb : (a.sshiftRight o).getLsbD (w - 1) = false := by
        cases hc : (a.sshiftRight o).getLsbD (w - 1)
        · rfl
        · exfalso
          have := hs (by simpa [BitVec.getLsbD_eq_getElem h32] using hc)
          omega
      simp [hb]
example : bfeI 0x80000000#32 4#32 31#32 = 0xF8000000#32 ∧ bfeI 0x00000F00#32 8#32 4#32 = 0xFFFFFFFF#32 := by decide

/-- V_BFI_B32: bitwise select — where the mask S0 has a 1 take S1's bit, else S2's bit. -/
theorem bfi_meaning (a b c : W) (i : Nat) :
    (bfi a b c).getLsbD i = if a.getLsbD i then b.getLsbD i else c.getLsbD i := by
  by_cases h : i < 32
  · simp only [bfi, BitVec.getLsbD_or, BitVec.getLsbD_and, BitVec.getLsbD_not, h, decide_true, Bool.true_and]
    cases a.getLsbD i <;> simp
  · have h' : 32 ≤ i := Nat.le_of_not_lt h
    simp [bfi, BitVec.getLsbD_of_ge _ _ h']

/-- V_ALIGNBIT_B32: the 64-bit value {S0,S1} shifted right by S2 mod 32, low dword. -/
theorem alignbit_meaning (a b c : W) :
    (alignbit a b c).toNat = ((a.toNat * 2 ^ 32 + b.toNat) / 2 ^ (c.toNat % 32)) % 2 ^ 32 := by
  have h : (c &&& 31#32).toNat = c.toNat % 32 := by
    simp only [BitVec.toNat_and]
    exact Nat.and_two_pow_sub_one_eq_mod c.toNat 5
  have hb := b.isLt
  simp only [alignbit, h, BitVec.toNat_setWidth, BitVec.toNat_ushiftRight, BitVec.toNat_append,
    Nat.shiftRight_eq_div_pow, Nat.shiftLeft_eq]
  rw [Nat.mul_comm a.toNat, ← Nat.two_pow_add_eq_or_of_lt hb]
example : alignbit 0x00000001#32 0x80000000#32 31#32 = 3#32 := by decide

/-- unsigned / signed minimum and maximum are the arithmetic ones -/
theorem minU_meaning (a b : W) : (minU a b).toNat = min a.toNat b.toNat := by
  simp only [minU, BitVec.ult]; split <;> rename_i h <;> simp at h <;> omega
theorem maxU_meaning (a b : W) : (maxU a b).toNat = max a.toNat b.toNat := by
  simp only [maxU, BitVec.ult]; split <;> rename_i h <;> simp at h <;> omega
theorem minI_meaning (a b : W) : (minI a b).toInt = min a.toInt b.toInt := by
  simp only [minI, BitVec.slt]; split <;> rename_i h <;> simp at h <;> omega
theorem maxI_meaning (a b : W) : (maxI a b).toInt = max a.toInt b.toInt := by
  simp only [maxI, BitVec.slt]; split <;> rename_i h <;> simp at h <;> omega

/-- V_MED3_U32 returns the middle element: together with min3 and max3 it accounts for the three
    operands (so it is the median also when operands are equal). -/
theorem med3U_meaning (a b c : W) :
    (med3U a b c).toNat + (min3U a b c).toNat + (max3U a b c).toNat = a.toNat + b.toNat + c.toNat := by
  simp only [med3U, min3U, max3U, maxU_meaning, minU_meaning]
  omega
theorem med3I_meaning (a b c : W) :
    (med3I a b c).toInt + (min3I a b c).toInt + (max3I a b c).toInt = a.toInt + b.toInt + c.toInt := by
  simp only [med3I, min3I, max3I, maxI_meaning, minI_meaning]
  omega
example : med3U 0x40#32 0x55555555#32 0x55555555#32 = 0x55555555#32 := by decide

/-- integer compares decide the arithmetic relation on the unsigned / signed values -/
theorem cmpU_lt_meaning {n : Nat} (a b : BitVec n) : cmpU 1 a b = decide (a.toNat < b.toNat) := by
  simp [cmpU, cmpOp, BitVec.ult]
theorem cmpU_ge_meaning {n : Nat} (a b : BitVec n) : cmpU 6 a b = decide (a.toNat ≥ b.toNat) := by
  simp only [cmpU, cmpOp, BitVec.ult]
  by_cases h : a.toNat < b.toNat <;> simp [h] <;> omega
theorem cmpI_lt_meaning {n : Nat} (a b : BitVec n) : cmpI 1 a b = decide (a.toInt < b.toInt) := by
  simp [cmpI, cmpOp, BitVec.slt]
theorem cmpI_le_meaning {n : Nat} (a b : BitVec n) : cmpI 3 a b = decide (a.toInt ≤ b.toInt) := by
  simp only [cmpI, cmpOp, BitVec.slt]
  apply Bool.eq_iff_iff.mpr
  simp only [Bool.or_eq_true, decide_eq_true_eq, beq_iff_eq]
  constructor
  · rintro (h | h)
    · omega
    · subst h; omega
  · intro h
    by_cases e : a = b
    · right; exact e
    · left
      have : a.toInt ≠ b.toInt := fun e' => e (BitVec.eq_of_toInt_eq e')
      omega
example : cmpI 1 0xFFFFFFFF#32 0#32 = true ∧ cmpU 1 0xFFFFFFFF#32 0#32 = false := by decide

/-- SDWA source selection BYTE_k / WORD_k without sign extension is the k-th byte / word. -/
theorem sdwaSrc_byte (x : W) (k : Nat) (hk : k < 4) :
    (sdwaSrc x k false).toNat = (x.toNat / 2 ^ (8 * k)) % 256 := by
  have : k = 0 ∨ k = 1 ∨ k = 2 ∨ k = 3 := by omega
  rcases this with h | h | h | h <;> subst h <;>
    simp [sdwaSrc, BitVec.toNat_setWidth, BitVec.toNat_ushiftRight, Nat.shiftRight_eq_div_pow] <;> omega
theorem sdwaSrc_word (x : W) (k : Nat) (hk : k < 2) :
    (sdwaSrc x (4 + k) false).toNat = (x.toNat / 2 ^ (16 * k)) % 65536 := by
  have : k = 0 ∨ k = 1 := by omega
  rcases this with h | h <;> subst h <;>
    simp [sdwaSrc, BitVec.toNat_setWidth, BitVec.toNat_ushiftRight, Nat.shiftRight_eq_div_pow] <;> omega
/-- SDWA DWORD destination selection writes the whole result. -/
theorem sdwaDst_dword (old new : W) : sdwaDst old new 6 0 = new := by
  have h : (4294967295#32 : W) = BitVec.allOnes 32 := by decide
  simp only [sdwaDst, sdwaMask, sdwaShift]
  simp only [BitVec.shiftLeft_zero]
  rw [h, BitVec.and_allOnes]
/-- SDWA UNUSED_PRESERVE keeps every bit of the old destination outside the selected field. -/
theorem sdwaDst_preserve (old new : W) (sel : Nat) :
    (sdwaDst old new sel 2) &&& ~~~ sdwaMask sel = old &&& ~~~ sdwaMask sel := by
  simp only [sdwaDst]
  ext i hi
  simp only [BitVec.getElem_and, BitVec.getElem_or, BitVec.getElem_not]
  cases (sdwaMask sel)[i] <;> simp
example : sdwaDst 0xDEB9A276#32 0#32 0 2 = 0xDEB9A200#32 := by decide

/-- sub-dword loads: zero extension keeps the value, sign extension adds 2^32 - 2^(8n) exactly
    when the top bit of the loaded field is set (two's complement of the n-byte value). -/
theorem extend_zero (n v : Nat) : extend n false v = v % 2 ^ (8 * n) := by
  simp [extend]
theorem extend_sign_byte (v : Nat) :
    (BitVec.ofNat 32 (extend 1 true v)).toInt = (BitVec.ofNat 8 v).toInt := by
  have h : v % 256 < 256 := Nat.mod_lt _ (by decide)
  simp only [extend]
  by_cases hs : v % 2 ^ (8 * 1) ≥ 2 ^ (8 * 1 - 1)
  · simp only [hs, Bool.true_and, decide_true, if_true]
    simp only [BitVec.toInt, BitVec.toNat_ofNat]
    simp at hs ⊢
    omega
  · simp only [hs, Bool.true_and, decide_false]
    simp only [BitVec.toInt, BitVec.toNat_ofNat]
    simp at hs ⊢
    omega
example : extend 1 true 0x80 = 0xFFFFFF80 ∧ extend 2 false 0x1FFFF = 0xFFFF := by decide

/-- DS two-offset forms scale each 8-bit offset by the element size (4 for b32, 8 for b64). -/
theorem ds2Addr_scaled (base off : Nat) :
    ds2Addr base off 4 = (base + 4 * off) % 2 ^ 32 ∧ ds2Addr base off 8 = (base + 8 * off) % 2 ^ 32 := by
  simp [ds2Addr, Nat.mul_comm]
example : ds2Addr 0x100 3 8 = 0x118 := by decide

/-- the 13-bit GLOBAL/SCRATCH instruction offset is a signed value congruent to the field -/
theorem sext13_meaning (o : Nat) :
    -4096 ≤ sext13 o ∧ sext13 o < 4096 ∧ (sext13 o - (o % 8192 : Int)) % 8192 = 0 := by
  simp only [sext13]
  split <;> omega
example : sext13 0x1FFC = -4 := by decide

end C03V
