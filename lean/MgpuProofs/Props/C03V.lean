import MgpuModel.C03V
namespace C03V
end C03V
