import MgpuModel.C11
import MgpuProofs.C11Copy
import MgpuProofs.C11AccStep
import MgpuProofs.Props.C11
import MgpuProofs.Props.C11Acc
import MgpuProofs.Props.C11Cp
/-! # C11 — the hypotheses of the property theorems: dropped, weakened, or shown necessary

For every C11 theorem that carries a hypothesis this file either proves the statement again without
it (primed names), or gives a kernel-checked witness that the statement is FALSE without it. Every
witness is replayed on the real code by `harness/c11_hyp.go` with a FIXED case line on exactly the
inputs used here (the correspondence check compares model and code on them), so "the code behaves
like the model at the point where the hypothesis matters" is part of every run.

Also here: the directed scenario "a freed frame is handed to a later allocation at another virtual
address" (`acc_freed_frame_reused`). -/
namespace C11

/-! ## 1–3. The flush test `memRangeOverlap` -/

/-- **`overlap_sound` needs a non-empty copy range** (`h2 : s2 < e2`): for the buffer `[0,10)` and
    the EMPTY copy `[5,5)` the test answers `true` although the ranges have no common element.
    Replayed: `c11 overlap s1=0 e1=10 s2=5 e2=5` on `driver.memRangeOverlap`. (A zero-length copy inside
    a dirty buffer is therefore preceded by a flush — harmless.) -/
theorem overlap_sound_needs_nonempty :
    memRangeOverlap 0 10 5 5 = true ∧ ¬ intersects 0 10 5 5 := by
  refine ⟨by decide, ?_⟩
  rintro ⟨x, _, _, h3, h4⟩
  omega

/-- **`overlap_complete_when_contained` with the weaker hypothesis** "the copy range is well formed
    (`s2 ≤ e2`: start + size) and one of the two ranges is non-empty": also a zero-length copy inside
    (or at either end of) a non-empty buffer is detected. -/
theorem overlap_complete_when_contained' (s1 e1 s2 e2 : Nat) (h2 : s2 ≤ e2) (h : s1 < e1 ∨ s2 < e2)
    (hs : s1 ≤ s2) (he : e2 ≤ e1) : memRangeOverlap s1 e1 s2 e2 = true := by
  simp only [memRangeOverlap, Bool.or_eq_true, Bool.and_eq_true, decide_eq_true_eq]
  omega

example : memRangeOverlap 0 10 5 5 = true ∧ memRangeOverlap 0 10 10 10 = true ∧
    memRangeOverlap 0 10 0 0 = true := by decide

/-- **… and that hypothesis cannot be dropped altogether, nor can `hs` / `he`:** with BOTH ranges
    empty the test answers `false` (first witness: `[3,3)` in `[3,3)`); a copy that starts before the
    buffer (second), ends after it (third — detected, the test is not symmetric: only the case "both
    sides" is missed) or strictly contains it on both sides (fourth: `[2,10)` over `[4,8)`, the
    `overlap_gap`) shows what `hs` and `he` are for. Replayed as `c11 overlap` lines. -/
theorem overlap_complete_needs_hypotheses :
    memRangeOverlap 3 3 3 3 = false ∧
    memRangeOverlap 4 8 2 6 = true ∧ memRangeOverlap 4 8 6 10 = true ∧
    (memRangeOverlap 4 8 2 10 = false ∧ intersects 4 8 2 10) :=
  ⟨by decide, by decide, by decide, by decide, 5, by omega, by omega, by omega, by omega⟩

/-- **`overlap_gap` without `h2`:** the copy range need not be assumed non-empty — a non-empty
    buffer suffices (an empty copy neither intersects anything nor strictly contains a non-empty
    buffer). -/
theorem overlap_gap' (s1 e1 s2 e2 : Nat) (h1 : s1 < e1) :
    (memRangeOverlap s1 e1 s2 e2 = false ∧ intersects s1 e1 s2 e2) ↔ (s2 < s1 ∧ e1 < e2) := by
  simp only [memRangeOverlap, Bool.or_eq_false_iff, Bool.and_eq_false_iff, decide_eq_false_iff_not]
  constructor
  · rintro ⟨⟨a, b⟩, x, hx1, hx2, hx3, hx4⟩
    omega
  · rintro ⟨a, b⟩
    exact ⟨⟨by omega, by omega⟩, s1, Nat.le_refl _, h1, by omega, by omega⟩

/-- **`overlap_gap` needs a non-empty buffer** (`h1`): for the empty buffer `[5,5)` and the copy
    `[0,10)` the right-hand side holds (`0 < 5`, `5 < 10`) but nothing intersects an empty range.
    (The driver never has an empty buffer: `Allocate` panics on 0 bytes — checked by the harness.) -/
theorem overlap_gap_needs_nonempty_buffer :
    (0 < 5 ∧ 5 < 10) ∧ memRangeOverlap 5 5 0 10 = false ∧ ¬ intersects 5 5 0 10 := by
  refine ⟨by omega, by decide, ?_⟩
  rintro ⟨x, h1, h2, _, _⟩
  omega

/-! ## 4. `pieces`: the fuel -/

/-- **`pieces_tile` needs `left ≤ fuel`, and fuel is a model artefact:** the Go loop
    (`for sizeLeft > 0`) has no bound; the Lean function needs one to be structurally recursive. With
    too little fuel the model returns a too-short list (here: 1 unit of fuel, 8 bytes, 3 pages — only
    the first piece of 2 bytes) — so the hypothesis is about how `pieces` is CALLED, see
    `pieces_callers_full_fuel`. -/
theorem pieces_tile_needs_fuel :
    pieces demoPt 1 18 0 8 = some [(110, 0, 2)] ∧ (([(110, 0, 2)] : List (Nat × Nat × Nat)).map (·.2.2)).sum ≠ 8 ∧
    pieces demoPt 8 18 0 8 = some [(110, 0, 2), (100, 2, 4), (104, 6, 2)] := by decide

/-- **Every caller starts the loop with fuel = number of bytes**, so `pieces_tile` applies to all of
    them: `h2d` and `d2h` (definitional), and the two accessor operations of the executable driver
    (`accLineOp`: `w` / `r` lines answer `fault:page_not_found` exactly when
    `pieces pt len addr 0 len = none`). The `c11 h2d` / `c11 d2h` branches of `handle` contain the same
    call `pieces pt l a 0 l` literally. -/
theorem pieces_callers_full_fuel (pt : List Page) (m : Mem) (addr : Nat) (data : List Nat) (len : Nat) :
    h2d pt m addr data = (pieces pt data.length addr 0 data.length).map (fun ps => foldW data ps m) ∧
    d2h pt m addr len = (pieces pt len addr 0 len).map
      (fun ps => ps.flatMap fun (p : Nat × Nat × Nat) => (List.range p.2.2).map fun i => m (p.1 + i)) :=
  ⟨rfl, rfl⟩

/-- the accessor lines of the executable driver (`c11 accrun … ; r addr len ; w addr len salt`) call the
    loop with fuel = `len`, too: they answer `fault:page_not_found` when `pieces pt len addr 0 len` fails
    and a write answers `ok` when it succeeds -/
theorem pieces_callers_full_fuel_accessor (frames : List Page) (s : AccImg) (a l salt : String) (x y z : Nat)
    (ha : Util.hexNat? a = some x) (hl : l.toNat? = some y) (hz : salt.toNat? = some z) :
    (pieces s.pt y x 0 y = none →
      (accLineOp frames s ["r", a, l]).out = "fault:page_not_found" :: s.out ∧
      (accLineOp frames s ["w", a, l, salt]).out = "fault:page_not_found" :: s.out) ∧
    (∀ ps, pieces s.pt y x 0 y = some ps → (accLineOp frames s ["w", a, l, salt]).out = "ok" :: s.out) := by
  refine ⟨fun hp => ?_, fun ps hp => ?_⟩ <;> simp [accLineOp, ha, hl, hz, hp]

/-! ## 5. `PtInj`: what fails on a table with two virtual pages on one frame, and what does not -/

/-- two virtual pages (16 and 20) on ONE frame (100): virtually disjoint, physically aliased -/
def aliasPt : List Page := [⟨16, 100, 4⟩, ⟨20, 100, 4⟩]

/-- two entries whose VIRTUAL ranges overlap (`[2,4)` inside `[0,4)`), on different frames -/
def overlapPt : List Page := [⟨2, 200, 2⟩, ⟨0, 100, 4⟩]

/-- pages pairwise disjoint VIRTUALLY — the half of `PtInj` that `vm.PageTable` guarantees by
    construction (one entry per page-aligned virtual address, `Find` aligns the address) -/
def PtVDisj (pt : List Page) : Prop :=
  pt.Pairwise fun p q => p.vaddr + p.size ≤ q.vaddr ∨ q.vaddr + q.size ≤ p.vaddr

instance (pt : List Page) : Decidable (PtVDisj pt) := by unfold PtVDisj; infer_instance

/-- `PtInj` is virtual disjointness plus physical disjointness -/
theorem PtInj.vdisj {pt : List Page} (h : PtInj pt) : PtVDisj pt :=
  List.Pairwise.imp (fun hd => hd.1) h

example : ¬ PtInj aliasPt ∧ PtVDisj aliasPt ∧ ¬ PtVDisj overlapPt := by decide

/-- under virtual disjointness every address of a page is found through that very page -/
theorem findPage_of_mem_v {pt : List Page} (hv : PtVDisj pt) {p : Page} (hp : p ∈ pt) {b : Nat}
    (h1 : p.vaddr ≤ b) (h2 : b < p.vaddr + p.size) : findPage pt b = some p := by
  obtain ⟨q, hq⟩ := findPage_isSome_of_mem hp h1 h2
  have ⟨hqm, hq1, hq2⟩ := findPage_some hq
  rcases pairwise_mem hv hp hqm with e | d | d
  · rw [hq, e]
  · omega
  · omega

/-- … so a whole piece inside the page found for its first byte translates linearly
    (`translate_in_piece` with `PtVDisj` instead of `PtInj`) -/
theorem translate_in_piece_v {pt : List Page} (hv : PtVDisj pt) {addr n i : Nat} {p : Page}
    (hp : findPage pt addr = some p) (hin : addr + n ≤ p.vaddr + p.size) (hi : i < n) :
    translate pt (addr + i) = some (p.paddr + (addr - p.vaddr) + i) := by
  have ⟨hm, h1, h2⟩ := findPage_some hp
  have := findPage_of_mem_v hv hm (b := addr + i) (by omega) (by omega)
  rw [(tr_of_findPage this).1]; congr 1; omega

/-- what the read loop returns, for every VIRTUALLY disjoint table (`read_spec` without the physical
    half of `PtInj`) -/
theorem read_spec_v {pt : List Page} (hv : PtVDisj pt) (m : Mem) :
    ∀ (fuel addr off left : Nat) (ps : List (Nat × Nat × Nat)),
    left ≤ fuel → pieces pt fuel addr off left = some ps →
    (ps.flatMap fun (p : Nat × Nat × Nat) => (List.range p.2.2).map fun i => m (p.1 + i)) =
      (List.range left).map fun i => m (tr pt (addr + i)) := by
  intro fuel
  induction fuel with
  | zero =>
    intro addr off left ps hle h
    simp [pieces] at h; subst h
    have : left = 0 := by omega
    subst this; rfl
  | succ fuel ih =>
    intro addr off left ps hle h
    by_cases hl : left = 0
    · simp [pieces, hl] at h; subst h; subst hl; rfl
    · obtain ⟨p, n, r, hp, hn, hnl, hin, _, hr, rfl⟩ := pieces_cons hl h
      have ihr := ih (addr + n) (off + n) (left - n) r (by omega) hr
      rw [List.flatMap_cons, ihr]
      conv => rhs; rw [show left = n + (left - n) by omega, List.range_add, List.map_append, List.map_map]
      congr 1
      · apply List.map_congr_left
        intro i hi
        have hi' : i < n := List.mem_range.1 hi
        have htr := translate_in_piece_v hv hp hin hi'
        simp [tr, htr]
      · apply List.map_congr_left
        intro i _
        simp [Nat.add_assoc]

/-- **A read needs only virtual disjointness.** `d2h` returns for byte `i` the content of the frame
    the table names for `a + i` — also when several virtual pages share a frame. (The read half of
    `h2d_d2h_roundtrip` / `d2h_reads_latest` with `PtInj` weakened to `PtVDisj`.) -/
theorem d2h_spec' (pt : List Page) (hv : PtVDisj pt) (m : Mem) (a len : Nat) (out : List Nat)
    (h : d2h pt m a len = some out) : out = (List.range len).map fun i => m (tr pt (a + i)) := by
  unfold d2h at h
  cases hp : pieces pt len a 0 len with
  | none => simp [hp] at h
  | some ps =>
    simp only [hp, Option.map_some, Option.some.injEq] at h
    rw [← h]; exact read_spec_v hv m len a 0 len ps (Nat.le_refl _) hp

example : d2h aliasPt (fun a => a % 7) 18 4 = some [4, 5, 2, 3] := by decide

/-- the frame half of `foldW_spec` under virtual disjointness only -/
theorem foldW_frame_v {pt : List Page} (hv : PtVDisj pt) (data : List Nat) :
    ∀ (fuel addr off left : Nat) (ps : List (Nat × Nat × Nat)) (m : Mem),
    left ≤ fuel → off + left ≤ data.length → pieces pt fuel addr off left = some ps →
    ∀ q, (∀ i, i < left → translate pt (addr + i) ≠ some q) → foldW data ps m q = m q := by
  intro fuel
  induction fuel with
  | zero =>
    intro addr off left ps m hle _ h
    simp [pieces] at h; subst h
    exact fun q _ => rfl
  | succ fuel ih =>
    intro addr off left ps m hle hlen h
    by_cases hl : left = 0
    · simp [pieces, hl] at h; subst h
      exact fun q _ => rfl
    · obtain ⟨p, n, r, hp, hn, hnl, hin, _, hr, rfl⟩ := pieces_cons hl h
      have ihfr := ih (addr + n) (off + n) (left - n) r
        (writePiece m (p.paddr + (addr - p.vaddr)) ((data.drop off).take n)) (by omega) (by omega) hr
      have hbl := take_drop_length data off n (by omega)
      intro q hq
      have hstep : foldW data ((p.paddr + (addr - p.vaddr), off, n) :: r) m =
          foldW data r (writePiece m (p.paddr + (addr - p.vaddr)) ((data.drop off).take n)) := rfl
      rw [hstep, ihfr q (fun i hi => by
        have := hq (n + i) (by omega); rwa [← Nat.add_assoc] at this)]
      unfold writePiece
      rw [hbl]
      split
      · rename_i hc
        exfalso
        have := translate_in_piece_v hv hp hin (n := n) (i := q - (p.paddr + (addr - p.vaddr))) (by omega)
        exact hq (q - (p.paddr + (addr - p.vaddr))) (by omega) (by rw [this]; congr 1; omega)
      · rfl

/-- **`h2d_frame` with `PtInj` weakened to `PtVDisj`:** also on a table with aliased frames a copy
    changes no physical byte other than the images of the bytes of its range. -/
theorem h2d_frame' (pt : List Page) (hv : PtVDisj pt) (m m' : Mem) (addr : Nat) (data : List Nat)
    (h : h2d pt m addr data = some m') (q : Nat)
    (hq : ∀ i, i < data.length → translate pt (addr + i) ≠ some q) : m' q = m q := by
  obtain ⟨ps, hp, rfl⟩ := h2d_some h
  exact foldW_frame_v hv data data.length addr 0 data.length ps m (Nat.le_refl _) (by omega) hp q hq

/-- **… and virtual disjointness cannot be dropped from `h2d_frame`:** on `overlapPt` the loop finds
    the 4-byte page at 0 for the first byte and writes 4 bytes to frame 100, although bytes 2 and 3
    translate to frame 200 — physical byte 102 changes without being the image of any byte of the
    range. (Not reproducible on the real page table: it cannot hold overlapping entries.) -/
theorem h2d_frame_needs_vdisj :
    ¬ PtVDisj overlapPt ∧ (∀ i, i < 4 → translate overlapPt (0 + i) ≠ some 102) ∧
    (h2d overlapPt (fun _ => 0) 0 [1, 2, 3, 4]).map (fun m' => m' 102) = some 3 := by decide

/-- **`h2d_bytes` needs `PtInj`:** on `aliasPt` the 8-byte copy at 16 covers both virtual pages; the
    second page's bytes overwrite the first's on the shared frame, so byte 0 of the data is NOT at the
    translation of `16 + 0` afterwards. -/
theorem h2d_bytes_needs_injective :
    ¬ PtInj aliasPt ∧ translate aliasPt (16 + 0) = some (tr aliasPt (16 + 0)) ∧
    (h2d aliasPt (fun _ => 0) 16 [1, 2, 3, 4, 5, 6, 7, 8]).map (fun m' => m' (tr aliasPt (16 + 0))) = some 5 ∧
    ([1, 2, 3, 4, 5, 6, 7, 8] : List Nat).getD 0 0 = 1 := by decide

/-- **The round trip needs `PtInj`:** on `aliasPt` (every byte of the range mapped, pages virtually
    disjoint) copying 8 bytes in and the same range out returns `[5,6,7,8,5,6,7,8]`, not the data.
    Replayed on the real accessor with two page-table entries inserted on one frame: the case line
    `c11 accrun … ; pt 1000:10000:4096,2000:10000:4096,… ; w … ; r …` (`hyp.alias`: a write through one
    page is read through the other, the later of two writes wins, a write across the boundary lands in
    two pieces 4092 bytes apart) and — because the payload of case lines has period 256, which makes the
    two halves of one 8192-byte copy equal — the literal round trip with an aperiodic payload as the
    oracle `hyp.alias-roundtrip` (the second half comes back twice). -/
theorem roundtrip_needs_injective :
    ¬ PtInj aliasPt ∧ (∀ i, i < 8 → translate aliasPt (16 + i) ≠ none) ∧
    ¬ ∃ m', h2d aliasPt (fun _ => 0) 16 [1, 2, 3, 4, 5, 6, 7, 8] = some m' ∧
        d2h aliasPt m' 16 8 = some [1, 2, 3, 4, 5, 6, 7, 8] := by
  refine ⟨by decide, by decide, ?_⟩
  have key : (h2d aliasPt (fun _ => 0) 16 [1, 2, 3, 4, 5, 6, 7, 8]).bind (fun m' => d2h aliasPt m' 16 8) =
      some [5, 6, 7, 8, 5, 6, 7, 8] := by decide
  rintro ⟨m', h1, h2⟩
  rw [h1] at key
  simp only [Option.bind_some] at key
  rw [h2] at key
  simp at key

/-- **The frame property in the virtual view needs `PtInj`** (`h2d_frame`'s reading "nothing in other
    pages, other buffers", `h2d_view`): on `aliasPt` a copy to the page at 16 changes what is read
    through the page at 20, which is outside the copied range. -/
theorem h2d_other_page_needs_injective :
    d2h aliasPt (fun _ => 0) 20 4 = some [0, 0, 0, 0] ∧
    (h2d aliasPt (fun _ => 0) 16 [9, 9, 9, 9]).bind (fun m' => d2h aliasPt m' 20 4) = some [9, 9, 9, 9] := by
  decide

/-- **`d2h_reads_latest` needs `PtInj`:** on `aliasPt`, after a copy of `[1,2,3,4]` to 16 (and an
    empty second copy) a read of `[20,24)` — covered by neither copy — returns the data of the first
    copy, not the original memory content `0`. -/
theorem d2h_reads_latest_needs_injective :
    ((h2d aliasPt (fun _ => 0) 16 [1, 2, 3, 4]).bind fun m1 => (h2d aliasPt m1 16 []).bind fun m2 =>
      d2h aliasPt m2 20 4) = some [1, 2, 3, 4] ∧
    ¬ (16 ≤ 20 + 0 ∧ 20 + 0 < 16 + 4) ∧ (fun _ => 0 : Mem) (tr aliasPt (20 + 0)) = 0 := by decide

/-- **The range must be mapped** (`hmap` of `h2d_d2h_roundtrip`; corollary of `h2d_defined_iff`): if
    one byte of the range has no page, the copy is not defined at all — the real code panics with
    "page not found". Replayed: a `c11 accrun` access to an unmapped page answers
    `fault:page_not_found` on both sides. -/
theorem roundtrip_needs_mapped (pt : List Page) (m : Mem) (addr : Nat) (data : List Nat) (i : Nat)
    (hi : i < data.length) (hun : translate pt (addr + i) = none) : h2d pt m addr data = none := by
  cases h : h2d pt m addr data with
  | none => rfl
  | some m' => exact absurd hun ((h2d_defined_iff pt m addr data).1 ⟨m', h⟩ i hi)

example : translate demoPt (24 + 4) = none ∧ (h2d demoPt (fun _ => 0) 24 [1, 2, 3, 4, 5]).isNone = true := by
  decide

/-! ## 6–7. The DMA engine: `parseFromCP`'s branch conditions, the honest memory side -/

/-- **The complement of `dma_subrequests_tile`** (whose hypotheses `hcp`, `hcap` are the two branch
    conditions of `parseFromCP`): with no copy request waiting, or with `maxRequestCount` copies in
    processing, `parseFromCP` changes nothing and reports no progress. Together the two theorems
    describe `parseFromCP` on every state. -/
theorem dma_parseFromCP_else_unchanged (s : Dma) (h : s.cpIn = [] ∨ s.maxReq ≤ s.processing.length) :
    s.parseFromCP = (s, false) := by
  unfold Dma.parseFromCP
  rcases h with h | h
  · split
    · rfl
    · rw [h]
  · rw [if_pos h]

example : ({ maxReq := 1, cpIn := [⟨1, .h2d, 0, 8⟩], processing := [⟨⟨0, .h2d, 64, 4⟩, [0], 1⟩] } : Dma).parseFromCP.2 = false ∧
    ({ maxReq := 2, cpIn := [⟨1, .h2d, 0, 8⟩], processing := [⟨⟨0, .h2d, 64, 4⟩, [0], 1⟩] } : Dma).parseFromCP.2 = true := by
  decide

/-- the scenario of the witness below, op by op what the harness replays on the real `cp.DMAEngine`
    (`c11 dma log2=2 max=4 ; h 6 7 ; d 17 3 ; t ; t ; t ; t ; t ; m 4 ; r 3 ; r 2`): two copies, four
    memory transactions handed to the memory side, two of them (ids 3 and 2) answered -/
def honestOps : List EnvOp :=
  [.copy .h2d 6 7, .copy .d2h 17 3, .tick, .tick, .tick, .tick, .tick, .take 4, .respond 3, .respond 2]

/-- **`dma_no_fault` needs an honest memory side** (`hops`: no `inject`): after the honest prefix
    `honestOps` (no fault, transaction 3 answered and no longer outstanding) ONE duplicate of the answer
    to transaction 3 makes the engine panic with "not found" (`removeReqFromPendingReqList`) in the tick
    that parses it. Replayed on the real engine with the scenario op `i 0` ("answer the first answered
    request a second time"): `… ; i 0 ; t ; t ; t` ends in `fault:not_found` on both sides. (When NO
    transaction at all is pending at that moment, the real function panics two lines earlier, in
    `make([]sim.Msg, 0, len(pendingReqs)-1)`; the model calls both panics `not_found` — checked as the
    oracle `hyp.dma-duplicate-empty-pending`, without a case line.) -/
theorem dma_no_fault_needs_honest_memory :
    (∀ op ∈ honestOps, op.isInject = false) ∧
    (reach 2 4 64 honestOps).s.fault = none ∧
    (reach 2 4 64 honestOps).s.memIn = [3, 2] ∧ (reach 2 4 64 honestOps).outstanding.map (·.id) = [0, 1] ∧
    (reach 2 4 64 (honestOps ++ [.inject 3, .tick, .tick])).s.fault = none ∧
    (reach 2 4 64 (honestOps ++ [.inject 3, .tick, .tick, .tick])).s.fault = some "not_found" := by
  decide +kernel

/-- **The scenario op `i j` of the executable driver is `Env.step (.inject id)`** for the id of the
    `j`-th transaction answered so far (`dma_env_is_driver` extended to the op that the real engine is
    now driven with, too): `dmaOp d ["i", j]` has the state effect of injecting that id (nothing
    happens when no transaction was answered yet or ToMem's incoming buffer is full), and `answered`
    grows only by the id of an outstanding transaction that an `r` op answers — so what `i` injects is
    always a DUPLICATE of an honest answer. -/
theorem dma_driver_inject_is_env_inject (d : DrvSt) (j : String) :
    (dmaOp d ["i", j]).env.core =
      (match d.answered[(j.toNat?.getD 0) % d.answered.length]? with
       | some id => if d.s.memIn.length ≥ d.s.memCap then d.env else d.env.step (.inject id)
       | none => d.env).core ∧
    (dmaOp d ["i", j]).answered = d.answered ∧
    ((dmaOp d ["r", j]).answered = d.answered ∨
      ∃ r ∈ d.outstanding, (dmaOp d ["r", j]).answered = d.answered ++ [r.id]) := by
  refine ⟨?_, ?_, ?_⟩
  · simp only [dmaOp, DrvSt.env, Env.core, Env.step]
    cases ha : d.answered with
    | nil => simp
    | cons q qs =>
      simp only
      cases (q :: qs)[j.toNat?.getD 0 % (q :: qs).length]? with
      | none => by_cases hfull : d.s.memIn.length ≥ d.s.memCap <;> simp [hfull]
      | some id => by_cases hfull : d.s.memIn.length ≥ d.s.memCap <;> simp [hfull]
  · simp only [dmaOp]
    cases ha : d.answered with
    | nil => simp
    | cons q qs =>
      simp only
      split
      · rfl
      · split <;> simp_all
  · simp only [dmaOp]
    cases ho : d.outstanding with
    | nil => left; simp
    | cons q qs =>
      simp only
      split
      · left; rfl
      · cases hr : (q :: qs)[j.toNat?.getD 0 % (q :: qs).length]? with
        | none => left; rfl
        | some r =>
          right
          exact ⟨r, by rw [← ho] at hr ⊢; exact List.mem_of_getElem? hr, rfl⟩

/-- a driver state in which transaction 3 was answered and its answer is still in the buffer: every
    `i` op puts a second answer to transaction 3 behind it -/
example (j : String) : ((dmaOp { s := { memIn := [3, 2] }, answered := [3] } ["i", j]).s.memIn) = [3, 2, 3] := by
  simp [dmaOp, Nat.mod_one]

/-! ## 8. The command processor: room in ToCaches -/

/-- **`cp_no_fault` needs `n ≤ ccache`:** three caches and a ToCaches buffer of two entries (`¬ 3 ≤ 2`):
    the first flush request makes `flushCache` panic on the third `Send` (`fault = cache_send`); with
    three entries the same run is fault-free. Replayed on the real `cp.CommandProcessor`:
    `c11 cpmw caches=3 cin=8 cdrv=8 cdma=8 ccache=2 ; f ; t`. -/
theorem cp_no_fault_needs_cache_room :
    ¬ (3 ≤ 2) ∧ (reachCp 3 8 8 8 2 [.req .flush, .tick]).s.fault = some "cache_send" ∧
    (reachCp 3 8 8 8 3 [.req .flush, .tick]).s.fault = none := by decide +kernel

/-! ## 9. The flush before a copy: containment -/

/-- **`d2h_sees_kernel_writes` with `0 < l` weakened** to "the copy or the buffer is non-empty": also
    a copy of 0 bytes inside a buffer that existed at a launch is preceded by a flush (the real
    allocator never creates an empty buffer — `Allocate` panics on 0 bytes —, so for the driver the
    length hypothesis disappears). -/
theorem d2h_sees_kernel_writes' (pre mid : List FOp) (s z a l : Nat)
    (halloc : ∃ b ∈ (frun [] pre).1, b.start = s ∧ b.size = z)
    (hl : 0 < l ∨ 0 < z) (hs : s ≤ a) (he : a + l ≤ s + z) :
    (fstep (frun [] (pre ++ [.launch] ++ mid)).1 (.copy a l)).2 = some true := by
  have hd : DirtyIn (frun [] (pre ++ [.launch] ++ mid)).1 s z := by
    rw [frun_bufs, List.foldl_append, List.foldl_append]
    apply foldl_keeps_dirty
    simp only [List.foldl]
    rw [← frun_bufs]
    exact launch_makes_dirty _ s z halloc
  obtain ⟨b, hb, h1, h2, h3⟩ := hd
  simp only [fstep, needFlushing, Option.some.injEq, List.any_eq_true, Bool.and_eq_true]
  refine ⟨b, hb, ?_, h3⟩
  rw [h1, h2]
  exact overlap_complete_when_contained' s (s + z) a (a + l) (by omega) (by omega) hs he

/-- **What `d2h_sees_kernel_writes` does not cover, and why each hypothesis is there** — the scenario
    the harness replays on the real `Driver` (two 100-byte buffers P, A on consecutive pages, a launch,
    then copies; `c11 flush ; a 1000 100 ; a 2000 100 ; k ; c 1ff0 132 ; c 2004 8 ; c 2004 0 ; a 3000 100 ;
    c 3000 8`):
    * `hs`, `he` (containment): the copy `[0x1ff0, 0x2074)` starts in the unused rest of P's page and
      STRICTLY CONTAINS the dirty buffer A on both sides — it intersects A, yet no flush is sent
      (`overlap_gap`); the copy inside A right after it IS flushed, so A was dirty. A copy that spans
      more than one buffer is outside the API contract (`MemCopyD2H(dst, ptr)` copies from ONE
      allocation), which is why this is recorded as the exact boundary of the theorem, not as a defect;
    * `hl` is only needed for empty buffers: the 0-byte copy inside A is flushed
      (`d2h_sees_kernel_writes'`); an empty copy in an empty buffer is not (second part);
    * `halloc` (the buffer existed at the launch): a buffer allocated AFTER the launch is clean — the
      copy inside it is sent without a flush. -/
theorem flush_needs_containment :
    (frun [] [.alloc 0x1000 100, .alloc 0x2000 100, .launch, .copy 0x1ff0 132, .copy 0x2004 8, .copy 0x2004 0,
              .alloc 0x3000 100, .copy 0x3000 8]).2 = [false, true, true, false] ∧
    (intersects 0x2000 (0x2000 + 100) 0x1ff0 (0x1ff0 + 132) ∧ 0x1ff0 < 0x2000 ∧ 0x2000 + 100 < 0x1ff0 + 132) ∧
    (frun [] [.alloc 0x1000 0, .launch, .copy 0x1000 0]).2 = [false] :=
  ⟨by decide, ⟨⟨0x2000, by omega, by omega, by omega, by omega⟩, by omega, by omega⟩, by decide⟩

/-! ## 10. The accessor across table changes: which injectivity is needed where -/

/-- **`acc_run_uses_current_table` needs both `hinj` and `hops`:** on `aliasPt` the page-wise model
    (and the real accessor: `hyp.alias`) lets the second page's bytes overwrite the first page's on the
    shared frame, while a per-byte specification has to pick one of the two bytes that claim a
    physical address (`physWrite` picks the first) — whether the run starts on that table (`hinj`) or a
    `setPt` installs it (`hops`). No per-byte specification can be met: see
    `h2d_bytes_needs_injective`. -/
theorem acc_run_needs_injective :
    (accRun ⟨aliasPt, fun _ => 0, []⟩ [.write 16 [1, 2, 3, 4, 5, 6, 7, 8], .read 16 8]).outs =
      [some [], some [5, 6, 7, 8, 5, 6, 7, 8]] ∧
    (accSpecRun ⟨aliasPt, fun _ => 0, []⟩ [.write 16 [1, 2, 3, 4, 5, 6, 7, 8], .read 16 8]).outs =
      [some [], some [1, 2, 3, 4, 1, 2, 3, 4]] ∧
    PtInj demoPt ∧
    (accRun ⟨demoPt, fun _ => 0, []⟩ [.setPt aliasPt, .write 16 [1, 2, 3, 4, 5, 6, 7, 8], .read 16 8]).outs ≠
      (accSpecRun ⟨demoPt, fun _ => 0, []⟩ [.setPt aliasPt, .write 16 [1, 2, 3, 4, 5, 6, 7, 8], .read 16 8]).outs := by
  decide

/-- **`acc_read_after_table_change` with `h2` weakened to virtual disjointness:** the table in force
    at the READ may alias frames (only the table in force at the write must be injective). -/
theorem acc_read_after_table_change' (pt1 pt2 : List Page) (h1 : PtInj pt1) (h2 : PtVDisj pt2) (m : Mem)
    (a : Nat) (d : List Nat) (a' l : Nat)
    (hm1 : mappedRange pt1 a d.length = true) (hm2 : mappedRange pt2 a' l = true) :
    (accRun ⟨pt1, m, []⟩ [.write a d, .setPt pt2, .read a' l]).outs =
      [some [], some ((List.range l).map fun i => physWrite pt1 a d m (tr pt2 (a' + i)))] := by
  have hw : accStep ⟨pt1, m, []⟩ (.write a d) = accSpecStep ⟨pt1, m, []⟩ (.write a d) :=
    accStep_eq_spec _ h1 _
  obtain ⟨ps, hp⟩ := pieces_some_of_mapped (off := 0) (Nat.le_refl l) (mappedRange_iff.1 hm2)
  have hr : d2h pt2 (physWrite pt1 a d m) a' l =
      some ((List.range l).map fun i => physWrite pt1 a d m (tr pt2 (a' + i))) := by
    have hs : ∃ out, d2h pt2 (physWrite pt1 a d m) a' l = some out := by
      unfold d2h; rw [hp]; exact ⟨_, rfl⟩
    obtain ⟨out, ho⟩ := hs
    rw [ho, d2h_spec' pt2 h2 _ a' l out ho]
  simp only [accRun, List.foldl]
  rw [hw]
  simp only [accSpecStep, hm1, if_true, accStep, hr, List.nil_append, List.cons_append]

example : (accRun ⟨demoPt, fun _ => 0, []⟩ [.write 16 [1, 2, 3, 4], .setPt aliasPt, .read 16 8]).outs =
    [some [], some [0, 0, 0, 0, 0, 0, 0, 0]] ∧ PtVDisj aliasPt ∧ ¬ PtInj aliasPt := by decide

/-- **… and what remains of the hypotheses is needed:** `h1` — written under `aliasPt`, read under an
    injective table: the frame holds the second page's bytes, the formula names the first's; `h2` —
    read under `overlapPt` (virtually overlapping entries; not constructible in the real page table):
    the loop reads 4 bytes from the page found for the first byte, the per-byte view goes to frame 200
    for bytes 2, 3; `hm1`, `hm2` — an unmapped byte makes the write resp. the read panic. -/
theorem acc_read_after_table_change_needs_hypotheses :
    (accRun ⟨aliasPt, fun _ => 0, []⟩ [.write 16 [1, 2, 3, 4, 5, 6, 7, 8], .setPt [⟨16, 100, 4⟩], .read 16 4]).outs =
      [some [], some [5, 6, 7, 8]] ∧
    ((List.range 4).map fun i => physWrite aliasPt 16 [1, 2, 3, 4, 5, 6, 7, 8] (fun _ => 0) (tr [⟨16, 100, 4⟩] (16 + i))) =
      [1, 2, 3, 4] ∧
    (accRun ⟨[⟨0, 100, 4⟩], fun _ => 0, []⟩ [.write 0 [1, 2, 3, 4], .setPt overlapPt, .read 0 4]).outs =
      [some [], some [1, 2, 3, 4]] ∧
    ((List.range 4).map fun i => physWrite [⟨0, 100, 4⟩] 0 [1, 2, 3, 4] (fun _ => 0) (tr overlapPt (0 + i))) =
      [1, 2, 0, 0] ∧ mappedRange overlapPt 0 4 = true ∧
    (accRun ⟨demoPt, fun _ => 0, []⟩ [.write 26 [1, 2, 3], .setPt demoPt, .read 16 1]).outs = [none, some [0]] ∧
    (accRun ⟨demoPt, fun _ => 0, []⟩ [.write 16 [1], .setPt demoPtMoved, .read 27 2]).outs = [some [], none] := by
  decide

/-! ## Task B. A freed frame is handed to a later allocation at another virtual address -/

/-- under virtual disjointness, an address inside a page of the table translates through it -/
theorem translate_of_mem {pt : List Page} (hv : PtVDisj pt) {p : Page} (hp : p ∈ pt) {b : Nat}
    (h1 : p.vaddr ≤ b) (h2 : b < p.vaddr + p.size) : translate pt b = some (p.paddr + (b - p.vaddr)) :=
  (tr_of_findPage (findPage_of_mem_v hv hp h1 h2)).1

/-- an address outside every page of the table is unmapped -/
theorem translate_none_of {pt : List Page} {b : Nat} (h : ∀ p ∈ pt, p.vaddr + p.size ≤ b ∨ b < p.vaddr) :
    translate pt b = none := by
  unfold translate
  cases hf : findPage pt b with
  | none => rfl
  | some p =>
    have ⟨hm, h1, h2⟩ := findPage_some hf
    have := h p hm
    omega

/-- the per-byte write specification at the image of byte `k` -/
theorem physWrite_hit {pt : List Page} (hinj : PtInj pt) {a : Nat} {d : List Nat} {m : Mem} {k q : Nat}
    (hk : k < d.length) (ht : translate pt (a + k) = some q) : physWrite pt a d m q = d.getD k 0 := by
  unfold physWrite
  cases hf : (List.range d.length).find? (fun j => translate pt (a + j) == some q) with
  | some j =>
    have hj := List.find?_some hf
    simp only [beq_iff_eq] at hj
    have : a + j = a + k := translate_inj hinj hj ht
    have : j = k := by omega
    rw [this]
  | none =>
    rw [List.find?_eq_none] at hf
    have := hf k (List.mem_range.2 hk)
    simp [ht] at this

/-- **A freed frame that is handed to a later allocation keeps its content, and the old virtual range
    is dead.** `pt1` (injective) maps page A = `[va, va+z)` to frame `F`; in `pt2` (injective) A's
    virtual range is unmapped (`FreeMemory`) and page B = `[vb, vb+z)` sits on the SAME frame `F` (the
    allocator handed the freed frame to a later allocation; virtual addresses are never reused). One
    accessor object: after a write of `d` through A under `pt1` and the change to `pt2`,
    * a read through B returns exactly the bytes written through A — the frame is not zeroed;
    * a write of `e` through B succeeds, is read back, and lands in frame `F` (second part);
    * every read or write that touches A's old range answers `none` — the "page not found" panic.
    Derived from `acc_run_uses_current_table`. Replayed by the directed scenario
    `accrun.frame-reused-directed` on the real driver + accessor. -/
theorem acc_freed_frame_reused (pt1 pt2 : List Page) (h1 : PtInj pt1) (h2 : PtInj pt2) (m : Mem)
    (va vb F z o : Nat) (d e : List Nat)
    (hA : (⟨va, F, z⟩ : Page) ∈ pt1) (hB : (⟨vb, F, z⟩ : Page) ∈ pt2)
    (hgone : ∀ p ∈ pt2, p.vaddr + p.size ≤ va ∨ va + z ≤ p.vaddr)
    (hd : o + d.length ≤ z) (he : o + e.length ≤ z)
    (k l : Nat) (hk : k < z) (hl : 0 < l) (w : List Nat) (hw : 0 < w.length) :
    let r := accRun ⟨pt1, m, []⟩ [.write (va + o) d, .setPt pt2, .read (vb + o) d.length, .write (vb + o) e,
      .read (vb + o) e.length, .read (va + k) l, .write (va + k) w]
    r.outs = [some [], some d, some [], some e, none, none] ∧
    ∀ i, i < e.length → r.m (F + o + i) = e.getD i 0 := by
  intro r
  have hrun : r = accSpecRun ⟨pt1, m, []⟩ [.write (va + o) d, .setPt pt2, .read (vb + o) d.length,
      .write (vb + o) e, .read (vb + o) e.length, .read (va + k) l, .write (va + k) w] :=
    acc_run_uses_current_table _ _ h1 (by
      intro pt hp
      simp only [List.mem_cons, AccOp.setPt.injEq, reduceCtorEq, List.not_mem_nil, or_false, false_or] at hp
      rw [hp]; exact h2)
  have tA : ∀ i, i < z → translate pt1 (va + i) = some (F + i) := fun i hi => by
    rw [translate_of_mem h1.vdisj hA (b := va + i) (by simp) (by simp; omega)]; simp
  have tB : ∀ i, i < z → translate pt2 (vb + i) = some (F + i) := fun i hi => by
    rw [translate_of_mem h2.vdisj hB (b := vb + i) (by simp) (by simp; omega)]; simp
  have tgone : ∀ i, i < z → translate pt2 (va + i) = none := fun i hi =>
    translate_none_of fun p hp => by have := hgone p hp; omega
  have mr1 : mappedRange pt1 (va + o) d.length = true :=
    mappedRange_iff.2 fun i hi => by rw [Nat.add_assoc, tA (o + i) (by omega)]; simp
  have mr2 : mappedRange pt2 (vb + o) d.length = true :=
    mappedRange_iff.2 fun i hi => by rw [Nat.add_assoc, tB (o + i) (by omega)]; simp
  have mr3 : mappedRange pt2 (vb + o) e.length = true :=
    mappedRange_iff.2 fun i hi => by rw [Nat.add_assoc, tB (o + i) (by omega)]; simp
  have mr4 : mappedRange pt2 (va + k) l = false := by
    rw [Bool.eq_false_iff]; intro h
    exact mappedRange_iff.1 h 0 hl (by rw [Nat.add_zero]; exact tgone k hk)
  have mr5 : mappedRange pt2 (va + k) w.length = false := by
    rw [Bool.eq_false_iff]; intro h
    exact mappedRange_iff.1 h 0 hw (by rw [Nat.add_zero]; exact tgone k hk)
  have trB : ∀ i, i < z → tr pt2 (vb + i) = F + i := fun i hi => by simp [tr, tB i hi]
  rw [hrun]
  simp only [accSpecRun, List.foldl, accSpecStep, mr1, mr2, mr3, mr4, mr5, if_true, Bool.false_eq_true, if_false,
    List.nil_append, List.cons_append]
  refine ⟨?_, ?_⟩
  · have e1 : ((List.range d.length).map fun i => physWrite pt1 (va + o) d m (tr pt2 (vb + o + i))) = d := by
      conv => rhs; rw [← map_getD_range d]
      apply List.map_congr_left
      intro i hi
      have hi' := List.mem_range.1 hi
      rw [Nat.add_assoc, trB (o + i) (by omega)]
      exact physWrite_hit h1 hi' (by rw [Nat.add_assoc, tA (o + i) (by omega)])
    have e2 : ((List.range e.length).map fun i =>
        physWrite pt2 (vb + o) e (physWrite pt1 (va + o) d m) (tr pt2 (vb + o + i))) = e := by
      conv => rhs; rw [← map_getD_range e]
      apply List.map_congr_left
      intro i hi
      have hi' := List.mem_range.1 hi
      rw [Nat.add_assoc, trB (o + i) (by omega)]
      exact physWrite_hit h2 hi' (by rw [Nat.add_assoc, tB (o + i) (by omega)])
    rw [e1, e2]
  · intro i hi
    rw [Nat.add_assoc]
    exact physWrite_hit h2 hi (by rw [Nat.add_assoc, tB (o + i) (by omega)])

/-- non-vacuity: `demoPt`'s page at 16 (frame 108) is freed, a new page at 32 receives frame 108;
    bytes written through 17.. are read through 33.., a write through 33 is read back, 16..19 is dead -/
example : (accRun ⟨demoPt, fun a => a % 7, []⟩ [.write 17 [1, 2, 3], .setPt [⟨20, 100, 4⟩, ⟨24, 104, 4⟩, ⟨32, 108, 4⟩],
      .read 33 3, .read 32 4, .write 33 [8, 9], .read 33 2, .read 19 2, .write 16 [5]]).outs =
    [some [], some [1, 2, 3], some [3, 1, 2, 3], some [], some [8, 9], none, none] ∧
    PtInj [⟨20, 100, 4⟩, ⟨24, 104, 4⟩, ⟨32, 108, 4⟩] := by decide

/-- the hypotheses of `acc_freed_frame_reused` are met by "`pt1` without A's page, plus B on A's frame"
    whenever both tables are injective and B's virtual range is disjoint from A's (virtual addresses
    are never handed out twice) -/
theorem freed_reused_tables (pre post : List Page) (va vb F z : Nat)
    (h1 : PtInj (pre ++ ⟨va, F, z⟩ :: post)) (hAB : vb + z ≤ va ∨ va + z ≤ vb) :
    (⟨va, F, z⟩ : Page) ∈ pre ++ ⟨va, F, z⟩ :: post ∧ (⟨vb, F, z⟩ : Page) ∈ pre ++ post ++ [⟨vb, F, z⟩] ∧
    ∀ p ∈ pre ++ post ++ [⟨vb, F, z⟩], p.vaddr + p.size ≤ va ∨ va + z ≤ p.vaddr := by
  refine ⟨by simp, by simp, ?_⟩
  unfold PtInj at h1
  rw [List.pairwise_append] at h1
  obtain ⟨_, h12, h13⟩ := h1
  rw [List.pairwise_cons] at h12
  intro p hp
  simp only [List.mem_append, List.mem_singleton] at hp
  rcases hp with (hp | hp) | rfl
  · have := (h13 p hp ⟨va, F, z⟩ (List.mem_cons_self ..)).1
    simpa using this
  · have := (h12.1 p hp).1
    simp only at this; omega
  · simp only; omega

end C11
