import MgpuProofs.Props.C17
import MgpuProofs.Props.C17Live
import MgpuModel.Gen.C17Dram
/-!
# C17 — the hand-written DRAM model is tied to expressions regenerated from the Go source

`lean/MgpuModel/Gen/C17Dram.lean` is rewritten by `translate/c17.go` from
`amd/timing/mem/simplebankedmemory/{comp,selector,builder}.go`, `amd/samples/runner/timingconfig/mi300a/builder.go` and
`amd/samples/runner/timingconfig/builder.go`: the phase order of `middleware.Tick`, `interleavedBankSelector.Select`, the
row-address block and every condition of `dispatchPending`, `bank.canAccept`, the decrement and the release test of
`tickDelayQueues`, the defaults / setters / checks / wiring of the builder, the constants of the MI300A builder chain.
Every theorem below states, for ALL arguments, that the model `MgpuModel/C17.lean` computes exactly the regenerated
expression, or that a generated table is the one the model (and the instances `mi300a`, `mi300aConv`, `mi300aL` the
theorems are exercised on) was written from. A changed constant or formula in the Go code changes the generated
definition and breaks the theorem that uses it; a changed statement shape makes the translator refuse.
Go `uint64` arithmetic is read on Nat (no wrap-around: addresses below 2^64, shifts below 64).
-/
namespace C17
open Gen

/-! ## the tick -/

/-- **Phase order.** `middleware.Tick` calls finalizeBanks, tickPipelines, tickDelayQueues, dispatchPending, drainTopPort
in this order, each exactly once (`madeProgress = m.X() || madeProgress`: the call is evaluated first, never skipped).
`C17.tickW` (and `C17.tick`) is `finalizeW` → `tickPipesW` → `tickDelaysW` → `dispatchW` → `drainTopW` in this order
(`tick_is_phases` below); a reordering in the Go source changes `tickPhases` and breaks this theorem. -/
theorem tie_tick_phases :
    C17Dram.tickPhases = ["finalizeBanks", "tickPipelines", "tickDelayQueues", "dispatchPending", "drainTopPort"] := by decide

/-- the model's tick is the composition of its five phase functions in the order of `tickPhases` (no panic in the tick) -/
theorem tick_is_phases (c : Cfg) (s : WState) (h1 : (finalizeW c s).fault = none)
    (h2 : convFault c (tickDelaysW c (tickPipesW c (finalizeW c s).st)).pending = false) :
    tickW c s = drainTopW (dispatchW c (tickDelaysW c (tickPipesW c (finalizeW c s).st))) := by
  simp [tickW, h1, h2]

/-- non-vacuity: a tick of the MI300A model that goes through all five phases (a delivered write moves from the Top port
into `pendingReqs`) -/
example : (tickW mi300a (deliverW mi300a (initW mi300a) .wr 0x40 4 [1, 2, 3, 4] none)).pending.length = 1 ∧
    (finalizeW mi300a (deliverW mi300a (initW mi300a) .wr 0x40 4 [1, 2, 3, 4] none)).fault = none := by decide +kernel

/-! ## bank and row of an address -/

/-- **Bank selection.** The model's `bankOf` is `interleavedBankSelector.Select` applied — as `dispatchPending` does
(`selectCall`) — to the converted address, with the component's `log2InterleaveSize` and `len(m.banks)`, for every
configuration with at least one bank and every address. (`numBanks == 0` returns 0 in Go while `x % 0 = x` in Lean; the
builder panics on `numBanks <= 0` — `tie_builder_positive` — and the model's `handle` rejects `banks = 0`.) -/
theorem tie_bankOf (c : Cfg) (a : Nat) (hb : 0 < c.banks) :
    bankOf c a = C17Dram.select (bankAddr c a) c.ilv c.banks := by
  have : c.banks ≠ 0 := Nat.pos_iff_ne_zero.1 hb
  simp [bankOf, C17Dram.select, this, Nat.one_shiftLeft]

/-- `dispatchPending` passes the converted address and the number of banks to `Select` -/
theorem tie_select_call : C17Dram.selectCall = ["m.bankSelector.Select", "addr", "len(m.banks)"] := by decide

/-- the panic guard of `Select` (`interleaveSize == 0`) is never taken (on Nat; in Go for every shift below 64) -/
theorem tie_select_no_panic (l : Nat) : C17Dram.selectPanic l = false := by
  simp [C17Dram.selectPanic, Nat.one_shiftLeft]

/-- non-vacuity: MI300A, address 0x1c0 is in bank 7; and the hypothesis `0 < banks` is needed -/
example : bankOf mi300a 0x1c0 = 7 ∧ C17Dram.select 0x1c0 6 16 = 7 := by decide
example : bankOf { mi300a with banks := 0 } 0x1c0 ≠ C17Dram.select 0x1c0 6 0 := by decide

/-- **Row address.** The model's `rowOf` is the straight-line block of `dispatchPending`
(`interleaveSize … rowAddr := bankLocalAddr >> m.rowBufferSizeLog2`) on the converted address, for every configuration
and address (`&` with `2^k - 1` is `% 2^k`, `>>` is division by a power of two). -/
theorem tie_rowOf (c : Cfg) (a : Nat) : rowOf c a = C17Dram.rowAddr (bankAddr c a) c.ilv c.banks c.row := by
  simp only [rowOf, C17Dram.rowAddr, Nat.one_shiftLeft, Nat.and_two_pow_sub_one_eq_mod, Nat.shiftRight_eq_div_pow]

/-- non-vacuity: MI300A DRAM[3], external address 0x80180 → internal 0x8000 → row 1 … -/
example : rowOf mi300aConv 0x80180 = 1 ∧ C17Dram.rowAddr 0x8000 6 16 11 = 1 ∧ bankAddr mi300aConv 0x80180 = 0x8000 := by decide
/-- … and a far address with a non-zero row: internal 0x123440 → row 36 -/
example : C17Dram.rowAddr 0x123440 6 16 11 = 36 ∧ rowOf mi300a 0x123440 = 36 := by decide

/-- **Which address.** `dispatchPending` converts the address with `BankAddressConverter` when installed (the model's
`bconv`), else with `AddressConverter` (not installed by any shipped user; not in the model, see notes). -/
theorem tie_addr_converters : C17Dram.addrConverters = ["BankAddressConverter", "AddressConverter"] := by decide

/-- **Row mode.** The model switches row-buffer timing on exactly when the code does. -/
theorem tie_rowMode (c : Cfg) : (c.row > 0 ∧ c.miss > 0) ↔ C17Dram.rowMode c.row c.miss = true := by
  simp [C17Dram.rowMode]

example : C17Dram.rowMode mi300a.row mi300a.miss = true ∧ C17Dram.rowMode 0 52 = false ∧ C17Dram.rowMode 11 0 = false := by decide

/-! ## acceptance, dispatch, delay queue -/

/-- **canAccept.** The model's `accW` succeeds exactly when `bank.canAccept()` holds: nothing set aside
(`numSetAside` = length of `early`) and the Akita pipeline accepts. -/
theorem tie_canAccept (c : Cfg) (it : Item) (b : WBank) :
    (accW c it b).isSome = C17Dram.canAccept b.early.length ((acceptLanes (it, c.lat - 1) b.lanes).isSome) := by
  unfold accW C17Dram.canAccept
  cases he : b.early with
  | nil => cases acceptLanes (it, c.lat - 1) b.lanes <;> simp
  | cons x xs => simp

example : (accW mi300a (fresh wr0) (emptyBankW mi300a)).isSome = true ∧
    (accW mi300a (fresh wr0) { emptyBankW mi300a with early := [fresh wr0] }).isSome = false := by decide

/-- **The whole decision of `dispatchPending` for one request**, written with the generated conditions: row mode
(`rowMode`), the row address (`rowAddr`), row hit (`rowHit` on `rowValid` = "a row is recorded" and `lastRowAddr`), parking
of a row hit (`parkCond` on the queue length and `canAccept`), the initial `cyclesLeft` of a parked hit
(`hitParkCycles`) and of a miss (`missCycles`) — for every configuration, request and bank state. -/
theorem tie_dispatchBankW (c : Cfg) (r : Req) (b : WBank) :
    dispatchBankW c r b =
      if C17Dram.rowMode c.row c.miss then
        let row := C17Dram.rowAddr (bankAddr c r.addr) c.ilv c.banks c.row
        if C17Dram.rowHit b.lastRow.isSome (b.lastRow.getD 0) row then
          if C17Dram.parkCond b.dq.length (accW c (fresh r) b).isSome then
            some { b with dq := b.dq ++ [(fresh r, C17Dram.hitParkCycles)], lastRow := some row }
          else (accW c (fresh r) b).map fun b' => { b' with lastRow := some row }
        else some { b with dq := b.dq ++ [(fresh r, C17Dram.missCycles c.miss)], lastRow := some row }
      else accW c (fresh r) b := by
  unfold dispatchBankW
  by_cases hm : c.row > 0 ∧ c.miss > 0
  · rw [if_pos hm, if_pos ((tie_rowMode c).1 hm)]
    simp only [← tie_rowOf, C17Dram.rowHit, C17Dram.parkCond, C17Dram.hitParkCycles, C17Dram.missCycles]
    cases hl : b.lastRow with
    | none => simp
    | some x =>
      by_cases hx : x = rowOf c r.addr
      · subst hx
        cases hq : b.dq with
        | nil => cases ha : accW c (fresh r) b <;> simp
        | cons q qs => simp
      · simp [hx]
  · rw [if_neg hm, if_neg (fun h => hm ((tie_rowMode c).2 h))]

/-- non-vacuity: MI300A, first request of a bank is a row miss (52 cycles), the next one to the same row a parked hit -/
example : (dispatchBankW mi300a wr0 (emptyBankW mi300a)).map (·.dq.map (·.2)) = some [52] ∧
    ((dispatchBankW mi300a wr0 (emptyBankW mi300a)).bind (dispatchBankW mi300a wr0)).map (·.dq.map (·.2)) = some [52, 0] := by
  decide

/-- **Release test of the delay queue.** `tickDelayQueues` decrements first (`cyclesLeftStep`) and releases when
`cyclesLeft <= 0 && len(remaining) == 0`; the model tests `n - 1 = 0 ∧ rem.isEmpty` on its Nat counter (Go's `int`
counter below zero ↔ Nat counter 0: both satisfy the test forever). -/
theorem tie_release (n : Nat) (rem : List (Item × Nat)) :
    (n - 1 = 0 ∧ rem.isEmpty) ↔ C17Dram.releaseCond (C17Dram.cyclesLeftStep n) rem.length = true := by
  simp [C17Dram.releaseCond, C17Dram.cyclesLeftStep, List.isEmpty_iff, List.length_eq_zero_iff]

/-- one step of the model's delay-queue loop, written with the generated decrement and release test -/
theorem tie_delayGoW (c : Cfg) (it : Item) (n : Nat) (rest rem : List (Item × Nat)) (b : WBank) :
    delayGoW c ((it, n) :: rest) b rem =
      if C17Dram.releaseCond (C17Dram.cyclesLeftStep n) rem.length then
        match accW c it b with
        | some b' => delayGoW c rest b' rem
        | none => delayGoW c rest b (rem ++ [(it, C17Dram.cyclesLeftStep n)])
      else delayGoW c rest b (rem ++ [(it, C17Dram.cyclesLeftStep n)]) := by
  rw [delayGoW]
  by_cases h : n - 1 = 0 ∧ rem.isEmpty
  · rw [if_pos h, if_pos ((tie_release n rem).1 h)]; rfl
  · rw [if_neg h, if_neg (fun h' => h ((tie_release n rem).2 h'))]; rfl

example : C17Dram.releaseCond (C17Dram.cyclesLeftStep 1) 0 = true ∧ C17Dram.releaseCond (C17Dram.cyclesLeftStep 0) 0 = true ∧
    C17Dram.releaseCond (C17Dram.cyclesLeftStep 2) 0 = false ∧ C17Dram.releaseCond (C17Dram.cyclesLeftStep 1) 1 = false := by decide

/-! ## the builder and the MI300A instance -/

/-- **What the builder enforces.** `configurationMustBeValid` panics unless these six fields are positive. Through
`buildWiring` they are the model's `banks`, `width`, `depth`, `lat`, `top`, `post`: the hypotheses `0 < c.banks`,
`0 < c.depth`, `0 < c.post` (and `c.width = 1`, positive) of the liveness theorems and of `tie_bankOf` are exactly what
every built component satisfies. -/
theorem tie_builder_positive :
    C17Dram.mustBePositive = ["numBanks", "bankPipelineWidth", "bankPipelineDepth", "stageLatency", "topPortBufferSize",
      "postPipelineBufSize"] := by decide

/-- the defaults of `simplebankedmemory.MakeBuilder` (every one of them is overridden by the MI300A chain except the
capacity, which the platform replaces by its global storage) and the default selector: `interleavedBankSelector` -/
theorem tie_builder_defaults :
    C17Dram.builderDefaults = [("numBanks", 4), ("bankPipelineWidth", 1), ("bankPipelineDepth", 1), ("stageLatency", 10),
      ("topPortBufferSize", 16), ("postPipelineBufSize", 1), ("log2InterleaveSize", 6), ("capacity", 4 * 2 ^ 30)] ∧
    C17Dram.defaultSelectorType ∈ C17Dram.interleavedSelectorTypes := by decide

/-- **Wiring.** `Build` hands the builder fields to the parts the model's configuration fields stand for: the Top port
gets one size for both directions (`top`), `Select` and the row-address block read the same `log2InterleaveSize` (`ilv`),
`len(m.banks)` is `numBanks` (`banks`). -/
theorem tie_build_wiring :
    C17Dram.buildWiring.lookup "NewPort.in" = C17Dram.buildWiring.lookup "NewPort.out" ∧
    C17Dram.buildWiring.lookup "Selector.Log2InterleaveSize" = C17Dram.buildWiring.lookup "Comp.log2InterleaveSize" ∧
    C17Dram.buildWiring.lookup "make.banks" = some "numBanks" ∧
    C17Dram.buildWiring.lookup "Comp.BankAddressConverter" = C17Dram.withSetters.lookup "WithBankAddressConverter" := by decide

/-- the builder state after the MI300A chain: the defaults, then every `WithX(v)` of `mi300aDram` in source order
stores v in the field `withSetters` gives for X (the first entry of a field is its current value) -/
def genFields : List (String × Nat) :=
  C17Dram.mi300aDram.foldl (fun acc p => match C17Dram.withSetters.lookup p.1 with
    | some f => (f, p.2) :: acc
    | none => acc) C17Dram.builderDefaults

/-- a builder field after the chain (Go's zero value when neither a default nor a call sets it) -/
def genField (f : String) : Nat := (genFields.lookup f).getD 0

/-- the value `Build` passes to the parameter `k` of `buildWiring` -/
def wired (k : String) : Nat := match C17Dram.buildWiring.lookup k with
  | some f => genField f
  | none => 0

/-- the configuration of MI300A `DRAM[idx]` read from the generated tables only: literal of the chain → setter → builder
field → parameter in `Build`; converter from `mi300aConvSize` / `mi300aConvElems`, index = loop variable, no offset -/
def cfgOfGen (idx : Nat) : Cfg :=
  ⟨wired "make.banks", wired "Comp.log2InterleaveSize", wired "WithPipelineWidth", wired "WithNumStage",
   wired "WithCyclePerStage", wired "Comp.rowBufferSizeLog2", wired "Comp.rowMissDelay", wired "NewBuffer", wired "NewPort.in",
   some ⟨C17Dram.mi300aConvSize, C17Dram.mi300aConvElems, idx, 0⟩, none⟩

/-- **The MI300A instances are the shipped constants.** `mi300aConv` (the instance `MemSemantics` and the refinement
theorems are exercised on) is DRAM[3] of `buildDRAMControllers`; `mi300a` is the same without the converter; `mi300aL`
(liveness) is DRAM[0] with a 4 GiB storage. Changing `WithRowMissDelay(52)`, a default of either `MakeBuilder`, a setter
or the wiring in `Build` breaks this theorem. -/
theorem tie_mi300a :
    mi300aConv = cfgOfGen 3 ∧ mi300a = { cfgOfGen 3 with bconv := none } ∧
    mi300aL = { cfgOfGen 0 with cap := some (4 * 2 ^ 30) } := by decide +kernel

/-- the converter literal sets size, element count and index (`i`, the loop variable, below `mi300aDramCount` = number
of elements) and no `Offset`; the runner does not override the defaults the two numbers are resolved from -/
theorem tie_mi300a_conv :
    C17Dram.mi300aConvFields = ["InterleavingSize", "TotalNumOfElements", "CurrentElementIndex"] ∧ C17Dram.mi300aConvIndex = "i" ∧
    C17Dram.mi300aConvSize = 1 <<< 7 ∧ C17Dram.mi300aConvElems = 16 ∧ C17Dram.mi300aDramCount = C17Dram.mi300aConvElems ∧
    C17Dram.mi300aDefaults = [("numMemoryBank", 16), ("log2MemoryBankInterleavingSize", 7), ("memAddrOffset", 0), ("dramSize", 4 * 2 ^ 30)] ∧
    C17Dram.mi300aRunnerChain = ["WithSimulation", "WithMMU", "WithLog2PageSize", "WithGlobalStorage"] := by decide

/-- the chain itself -/
theorem tie_mi300a_chain :
    C17Dram.mi300aDram = [("WithNumBanks", 16), ("WithBankPipelineWidth", 1), ("WithBankPipelineDepth", 5), ("WithStageLatency", 1),
      ("WithRowBufferSizeLog2", 11), ("WithRowMissDelay", 52), ("WithLog2InterleaveSize", 6), ("WithTopPortBufferSize", 1024),
      ("WithPostPipelineBufferSize", 128)] := by decide

/-- non-vacuity: the generated configuration satisfies what the builder enforces, and is in row mode -/
example : 0 < (cfgOfGen 3).banks ∧ (cfgOfGen 3).width = 1 ∧ 0 < (cfgOfGen 3).depth ∧ 0 < (cfgOfGen 3).post ∧
    C17Dram.rowMode (cfgOfGen 3).row (cfgOfGen 3).miss = true ∧ (cfgOfGen 3).miss = 52 := by decide +kernel

end C17
