import MgpuProofs.Props.C02WfStatic
import MgpuProofs.Props.C02
/-! # C02 — three timing paths singled out by review

(3) EXEC changes while a FLAT load is in flight; (4) coalesced stores with duplicate addresses in a
line; (5) VALU instructions with a scalar result under EXEC = 0. Each has generated cases in
`harness/c02_deep.go` (real compute unit vs real emulator) with its own oracle. -/
namespace C02.Wf

/-! ## (3) the lanes a returning load writes are the lanes active when the load executed -/

/-- **load_return_uses_issue_exec.** `handleVectorDataLoadReturn` writes the lane list the coalescer
    captured when the load executed (`r0`), whatever EXEC is when the data returns (`regs`): a cell of
    the destination VGPR is written iff its lane was active in `r0`, with the dword at the address
    captured in `r0` from the memory as it was when the access was performed; every other cell — also
    lanes that are active NOW but were not then — keeps its value. This is the emulator's semantics
    (`runFlatLoadDWORD` loops over the EXEC of the moment it runs). -/
theorem load_return_uses_issue_exec (d a : Nat) (r0 regs : RF) (m0 : Mem) (sv : Option Mem) (x : Nat) :
    retRegs ⟨compile (.fld d a), r0, sv⟩ m0 regs x =
      (match vlane r0 d x with
        | some l => le32 m0 (addr64 r0 a l)
        | none => regs x) := by
  have hload : (compile (.fld d a)).isLoad = true := rfl
  simp only [retRegs, hload, if_true, ovr]
  cases hv : vlane r0 d x with
  | some l =>
    obtain ⟨hl, hb, rfl⟩ := vlane_some r0 d x l hv
    have hmem : vreg d l ∈ (compile (.fld d a)).wrD r0 := by
      simp only [compile, List.mem_map]
      exact ⟨l, (mem_lanes _ _).mpr ⟨hl, hb⟩, rfl⟩
    rw [if_pos hmem]
    simp only [compile, hv]
  | none =>
    have hmem : x ∉ (compile (.fld d a)).wrD r0 := by
      simp only [compile, List.mem_map]
      rintro ⟨l, hl, rfl⟩
      obtain ⟨h1, h2⟩ := (mem_lanes _ _).mp hl
      rw [vlane_vreg r0 d l h1 h2] at hv
      cases hv
    rw [if_neg hmem]

/-- EXEC is narrowed to lane 0 while the load is in flight, the data returns under the narrow EXEC, EXEC
    is widened again, then the loaded register is used -/
def csLate : List CInst :=
  [.smov 4 0x200000, .smov 5 0, .vxor 2 4 0, .vmov 3 5, .fld 6 2, .sexec 1, .nop, .sexec 3, .wait 0 0,
   .vxor 7 4 6, .endp]
def PLate : Prog := cprog 0x1000 csLate noForeign
def evsLate : List Ev :=
  [.fetch, .fetchRet, .decode, .issue, .exec, .complete, .decode, .issue, .exec, .complete,
   .decode, .issue, .exec, .complete, .decode, .issue, .exec, .complete,
   .decode, .issue, .exec,                       -- the load executes with EXEC = 3
   .decode, .issue, .exec, .complete,            -- EXEC := 1
   .serveV 0, .retV,                             -- the data returns now
   .decode, .issue, .complete,                   -- s_nop
   .decode, .issue, .exec, .complete,            -- EXEC := 3
   .decode, .issue, .complete, .decode, .issue, .exec, .complete, .decode, .issue, .complete]

/-- both lanes of v6 get their data although only lane 0 was active when it returned; the program
    passes the hazard check (static and address-exact), so `wavefront_timing_equals_emulator` and
    `static_check_alone_suffices` apply to it -/
example :
    (trun PLate (fun _ _ => true) (tinit 0x1000 demoRegs demoMem) evsLate).map
      (fun T => (T.ph, T.regs (vreg 6 0), T.regs (vreg 6 1), T.regs (vreg 7 1))) =
      (erun PLate 11 (einit 0x1000 demoRegs demoMem)).map
      (fun E => (Phase.done, E.regs (vreg 6 0), E.regs (vreg 6 1), E.regs (vreg 7 1))) ∧
    (erun PLate 11 (einit 0x1000 demoRegs demoMem)).map (fun E => (E.done, E.regs (vreg 6 1))) =
      some (true, demoMem 0x200004 + 256 * demoMem 0x200005 + 65536 * demoMem 0x200006 + 16777216 * demoMem 0x200007) ∧
    hcheck (csLate.map compile) = true ∧
    hazardFreeRun PLate 11 (einit 0x1000 demoRegs demoMem, {}) = true := by
  refine ⟨?_, ?_, ?_, ?_⟩ <;> decide +kernel

/-! ## (5) VALU instructions with a scalar result run also under EXEC = 0 -/

/-- **valu_scalar_result_under_exec0.** The event machine, like the SIMD unit, hands EVERY issued ALU
    instruction to `alu.Run`, whatever EXEC is (`exec` is never refused, nor skipped, on account of
    EXEC); and the shared handlers give, under EXEC = 0: `v_cmp_lt_u32` writes VCC = 0 (a stale non-zero
    VCC does not survive), `v_readfirstlane_b32` reads lane 0. A following `s_cbranch_vccz/vccnz`
    therefore goes the same way in both simulators (covered by `wavefront_timing_equals_emulator`). -/
theorem valu_scalar_result_under_exec0 (P : Prog) (gate : TState → Inst → Bool) (s : TState) (i : Inst) (u : Nat)
    (hcur : s.cur = some i) (hph : s.ph = .issued) (hk : i.kind = .alu u) :
    (∃ s', tstep P gate s .exec = some s' ∧
      s'.regs = i.f (if u = 0 ∧ P.oldCU = false then pcAdd s.pc i.size else s.pc) s.regs) ∧
    (∀ (sa a d : Nat) (p : Nat) (r : RF), execOf r = 0 →
      (compile (.vcmp sa a)).f p r VCC = 0 ∧
      (compile (.vrfl d a)).f p r (sreg d) = r (vreg a 0) % M32) := by
  constructor
  · simp only [tstep, hcur, hph, if_true, hk]
    split
    · rename_i h; exact ⟨_, rfl, by simp⟩
    · rename_i h; exact ⟨_, rfl, by simp⟩
  · intro sa a d p r he
    have hl : lanes (execOf r) = [] := by
      rw [he]
      simp [lanes]
    constructor
    · simp [compile, hl, setR]
    · simp [compile, hl, setR]

/-- a stale VCC = 5, then EXEC := 0, `v_cmp` (VCC must become 0), `s_cbranch_vccnz` over an `s_mov`
    (not taken), `v_readfirstlane`, EXEC := 3 -/
def csVcc : List CInst :=
  [.svcc 5, .sexec 0, .vcmp 4 0, .cbrv 1 1, .smov 8 7, .vrfl 9 0, .sexec 3, .endp]
def PVcc : Prog := cprog 0x1000 csVcc noForeign
def evsVcc : List Ev :=
  [.fetch, .fetchRet, .decode, .issue, .exec, .complete, .decode, .issue, .exec, .complete,
   .decode, .issue, .exec, .complete,            -- v_cmp under EXEC = 0
   .decode, .issue, .exec, .complete,            -- s_cbranch_vccnz: not taken, buffer dropped
   .fetch, .fetchRet, .decode, .issue, .exec, .complete,   -- s_mov s8, 7 is executed
   .decode, .issue, .exec, .complete, .decode, .issue, .exec, .complete, .decode, .issue, .complete]

example :
    (trun PVcc (fun _ _ => true) (tinit 0x1000 demoRegs demoMem) evsVcc).map
      (fun T => (T.ph, T.regs VCC, T.regs (sreg 8), T.regs (sreg 9), T.trace)) =
      some (.done, 0, 7, 0, [0x1000, 0x1004, 0x1008, 0x100c, 0x1010, 0x1014, 0x1018, 0x101c]) ∧
    (erun PVcc 8 (einit 0x1000 demoRegs demoMem)).map
      (fun E => (E.done, E.regs VCC, E.regs (sreg 8), E.regs (sreg 9), E.trace)) =
      some (true, 0, 7, 0, [0x1000, 0x1004, 0x1008, 0x100c, 0x1010, 0x1014, 0x1018, 0x101c]) ∧
    hazardFreeRun PVcc 8 (einit 0x1000 demoRegs demoMem, {}) = true := by
  refine ⟨?_, ?_, ?_⟩ <;> decide +kernel

end C02.Wf

namespace C02

/-! ## (4) a coalesced write request is dirty exactly at the bytes some active lane addresses -/

/-- **coalesced_store_dirty_mask_exact.** For every store width, register count, EXEC mask and address
    vector (duplicates, overlaps, unaddressed dwords inside a line — anything): in the write request the
    coalescer builds for a line (`summ` of the byte writes merged into it = Data under DirtyMask)
    a byte is dirty ONLY IF some active lane's access covers it, every byte an active lane addresses is
    dirty in the request of its access's line, and a byte nobody addresses is left untouched by the whole
    store, whatever the order in which the memory applies the requests — also when the number of merged
    bytes adds up to the line size. -/
theorem coalesced_store_dirty_mask_exact (ls bw cnt exec : Nat) (addr : Nat → Nat) (data : Nat → Nat → Nat) :
    (∀ (ln : Nat) (c : Nat × Nat) (v : Nat),
      summ ((storeW ls bw cnt (active exec addr) data).filter fun w => w.key = ln) c = some v →
      ∃ x ∈ accesses (active exec addr) cnt, ∃ b, b < bw ∧ c = (0, x.addr + b) ∧ lineOf ls x.addr = ln) ∧
    (∀ x ∈ accesses (active exec addr) cnt, ∀ b, b < bw →
      (summ ((storeW ls bw cnt (active exec addr) data).filter fun w => w.key = lineOf ls x.addr)
        (0, x.addr + b)).isSome = true) ∧
    (∀ (ord : List Nat) (m : St) (c : Nat × Nat),
      (∀ x ∈ accesses (active exec addr) cnt, ∀ b, b < bw → c ≠ (0, x.addr + b)) →
      timingStore ls bw cnt (active exec addr) data ord m c = m c) := by
  refine ⟨?_, ?_, ?_⟩
  · intro ln c v h
    obtain ⟨w, hw, hc⟩ := lastW_some_mem _ c v h
    obtain ⟨hw1, hw2⟩ := List.mem_filter.mp hw
    obtain ⟨x, hx, b, hb, hk, hcell⟩ := mem_storeW hw1
    exact ⟨x, hx, b, hb, by rw [← hc, hcell], by rw [← hk]; simpa using hw2⟩
  · intro x hx b hb
    apply lastW_foldl_isSome
    refine Or.inr ⟨⟨lineOf ls x.addr, (0, x.addr + b), byteOf (data x.lane x.j) b⟩, ?_, rfl⟩
    apply List.mem_filter.mpr
    refine ⟨?_, by simp⟩
    simp only [storeW, List.mem_flatMap, List.mem_map, List.mem_range]
    exact ⟨x, hx, b, hb, rfl⟩
  · intro ord m c hc
    unfold timingStore
    apply grouped_untouched
    intro w hw hcell
    obtain ⟨x, hx, b, hb, _, hce⟩ := mem_storeW hw
    exact hc x hx b hb (by rw [← hcell, hce])

/-- lanes 0 and 1 store to the same dword (0), lane 2 to dword 8; dword 4 of the line is not addressed:
    bytes 4..7 are not dirty, byte 0 carries lane 1's data -/
example :
    let ws := storeW 64 4 1 (active 7 (fun i => if i = 2 then 8 else 0)) (fun l _ => 0x11 * (l + 1))
    summ (ws.filter fun w => w.key = 0) (0, 4) = none ∧ summ (ws.filter fun w => w.key = 0) (0, 0) = some 0x22 ∧
    summ (ws.filter fun w => w.key = 0) (0, 8) = some 0x33 := by decide

end C02
