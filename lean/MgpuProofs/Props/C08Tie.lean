import MgpuModel.C08
import MgpuModel.Gen.C08Geo
import MgpuProofs.C08Sgpr
/-! # C08 — the hand-written model uses the constants, layouts and formulas of the Go source

`Gen.C08Geo` is regenerated from the Go files on every run (translate/c08.go). Each theorem below
equates a piece of the hand-written model (`MgpuModel/C08_Base.lean`, `C08_Regs.lean`, `C08_Res.lean`,
C02's `initS`) with the corresponding generated definition, for all arguments: a changed constant,
struct field, cursor step or formula in the Go code breaks one of these proof obligations (not only
the sampled correspondence). Integer widths are the model's: the generated expressions are over
`Nat`; the widths the code computes in are the model's (`C02.wgCount`: ceiling division in 64 bits,
truncated to `uint32`), read from the conversions of the source text, which is pinned
(`wgCountSources`, `hiddenBCSource`). -/
namespace C08
open Gen.C08Geo

/-- **tie_counts.** `numWGInDim` (grid builder and driver), `wgPerCU`, the `int` product and the
    flattened work-group id of the filter closure are the model's `nwgI`, `wgPerCUI`, `Geo.totalI`
    (before wrapping) and `gpuFilterI`. -/
theorem tie_counts :
    (∀ g w, numWGInDimK g w = nwgI g w) ∧ (∀ g w, numWGInDimD g w = nwgI g w) ∧
    (∀ t s, Gen.C08Geo.wgPerCU t s = wgPerCUI t s) ∧
    (∀ g : Geo, g.totalI = totalWGCount (nwgI g.gx g.wx) (nwgI g.gy g.wy) (nwgI g.gz g.wz) % 18446744073709551616) ∧
    (∀ (g : Geo) (d : List Nat) (i : Nat) (c : Coord), gpuFilterI g d i c =
      (decide (d.getD i 0 ≤ flattenedID c.2.2 (nwgI g.gx g.wx) (nwgI g.gy g.wy) c.2.1 c.1) &&
       decide (flattenedID c.2.2 (nwgI g.gx g.wx) (nwgI g.gy g.wy) c.2.1 c.1 < d.getD (i + 1) 0))) ∧
    (∀ per c acc cs, wgDist per (c :: cs) acc = acc :: wgDist per cs (acc + wgToAllocate c per)) := by
  refine ⟨fun _ _ => rfl, fun _ _ => rfl, fun _ _ => rfl, fun g => ?_, fun _ _ _ _ => rfl, fun _ _ _ _ => rfl⟩
  unfold Geo.totalI totalWGCount
  rw [Nat.mul_mod (nwgI g.gx g.wx * nwgI g.gy g.wy % 18446744073709551616), Nat.mod_mod, ← Nat.mul_mod]

/-- **tie_cursor.** The `NextWG` cursor: work-items left along an axis and the stop condition
    (`left ≤ 0` in `int` ⇔ `grid ≤ id·wg`); the partition algorithm: partition size, `Skip` argument,
    rotation and pointer update are those of `pStart` / `pNext` / `pNextF`. -/
theorem tie_cursor :
    (∀ g x w : Nat, (xLeft g x w = 0 ↔ g ≤ x * w) ∧ (yLeft g x w = 0 ↔ g ≤ x * w) ∧ (zLeft g x w = 0 ↔ g ≤ x * w)) ∧
    nextWGStop = ["xLeft<=0||yLeft<=0||zLeft<=0"] ∧
    (∀ (l : List WG) (n c : Nat), (pStart l n c).per = numWGPerPartition n c) ∧
    (∀ (l : List WG) (n c : Nat) (i : Fin c), (pStart l n c).rem.getD i.val [] = l.drop (skipOf i.val (numWGPerPartition n c))) ∧
    (∀ idx nx n : Nat, rotation idx nx n = (idx + nx) % n) ∧ (∀ i, nextAfter i = i + 1) := by
  refine ⟨fun g x w => ?_, rfl, fun _ _ _ => rfl, fun l n c i => ?_, fun _ _ _ => rfl, fun _ => rfl⟩
  · unfold xLeft yLeft zLeft; omega
  · simp [pStart, skipOf, numWGPerPartition, Array.getD]

/-- **tie_wavefronts.** Wavefront formation: wavefront size, flattened in-group id, wavefront base,
    mask bit, the new-wavefront condition; lane ids of both modes, lane number, V5 packing. -/
theorem tie_wavefronts :
    wavefrontSize = 64 ∧
    (∀ wx wy (it : Coord), flatId wx wy it = inWGID it.2.2 wx wy it.2.1 it.1) ∧
    (∀ wx wy (it : Coord), formStep wx wy [] it =
      [⟨firstWi (flatId wx wy it) wavefrontSize, maskBit (flatId wx wy it) wavefrontSize, 1⟩]) ∧
    newWavefrontCond = ["wf==nil||inWGID/wavefrontSize!=wf.FirstWiFlatID/wavefrontSize"] ∧
    (∀ wx wy i, decodeId wx wy i = (emuLaneX i wx wy, emuLaneY i wx wy, emuLaneZ i wx wy)) ∧
    (∀ wx wy i, decodeId wx wy i = (timingLaneX i wx wy, timingLaneY i wx wy, timingLaneZ i wx wy)) ∧
    (∀ first l, emuLaneID (first + l) first = l ∧ timingLaneID (first + l) first = l) ∧
    emuLaneLoop = ["wf.FirstWiFlatID", "i<wf.FirstWiFlatID+64"] ∧ timingLaneLoop = emuLaneLoop ∧
    (∀ en (c : Coord), c.1 < 1024 → c.2.1 < 1024 → c.2.2 < 1024 →
      laneRegs true en c = (emuPacked c.1 c.2.1 c.2.2, 0, 0) ∧ laneRegs true en c = (timingPacked c.1 c.2.1 c.2.2, 0, 0)) ∧
    (emuShiftY = 10 ∧ emuShiftZ = 20 ∧ timingShiftY = 10 ∧ timingShiftZ = 20 ∧ 2 ^ emuShiftY = 1024 ∧ 2 ^ emuShiftZ = 1048576) := by
  refine ⟨rfl, fun _ _ _ => rfl, fun _ _ _ => rfl, rfl, fun _ _ _ => rfl, fun _ _ _ => rfl, fun f l => ?_, rfl, rfl,
    fun en c hx hy hz => ?_, by decide⟩
  · unfold emuLaneID timingLaneID; omega
  · have e1 : c.1 % 2 ^ 32 = c.1 := Nat.mod_eq_of_lt (by omega)
    have e2 : (c.2.1 <<< 10) % 2 ^ 32 = c.2.1 <<< 10 := by
      rw [Nat.shiftLeft_eq]; exact Nat.mod_eq_of_lt (by omega)
    have e3 : (c.2.2 <<< 20) % 2 ^ 32 = c.2.2 <<< 20 := by
      rw [Nat.shiftLeft_eq]; exact Nat.mod_eq_of_lt (by omega)
    simp only [laneRegs, if_true, emuPacked, timingPacked, e1, e2, e3, and_self]

/-- **tie_sgpr_steps.** The chain of `if co.Enable… { … SGPRPtr += n }` blocks of BOTH
    initialisation functions: same flags in the same order, cursor steps = 4·(ABI size of the field)
    for the first twelve fields (the last written field, work-group id Z, does not advance the cursor
    and nothing is written after it), the blocks that write a register are exactly the fields with a
    `Field.value`; and the table that `initS` is proved to be an instance of (`initS_is_gen`) carries
    exactly these steps. The work-group-count expression of both modes is `(grid + wg − 1) / wg`,
    computed in `uint64` and converted to `uint32` (source text pinned): for every typed packet that
    is the model's `C02.wgCount`, without wrap-around. -/
theorem tie_sgpr_steps :
    emuSgprSteps = timingSgprSteps ∧
    (emuSgprSteps.map (·.1)).take 13 =
      ["EnableSgprPrivateSegmentBuffer", "EnableSgprDispatchPtr", "EnableSgprQueuePtr", "EnableSgprKernargSegmentPtr",
       "EnableSgprDispatchID", "EnableSgprFlatScratchInit", "EnableSgprPrivateSegmentSize", "EnableSgprGridWorkgroupCountX",
       "EnableSgprGridWorkgroupCountY", "EnableSgprGridWorkgroupCountZ", "EnableSgprWorkGroupIDX", "EnableSgprWorkGroupIDY",
       "EnableSgprWorkGroupIDZ"] ∧
    (emuSgprSteps.map (·.2.1)).take 12 = (Field.order.map fun x => 4 * x.size).take 12 ∧
    (emuSgprSteps.drop 12).map (·.2.1) = [0, 0, 0] ∧
    (emuSgprSteps.map (·.2.2)).take 13 = Field.order.map (fun x => (x.value ⟨0, 0, 0, 0, 0, 0, 0, 0, 0, 0, 0⟩).isSome) ∧
    (emuSgprSteps.drop 13).map (·.2.2) = [false, false] ∧
    (∀ f a, (table f a).map (·.2.1) = Field.order.map fun x => 4 * x.size) ∧
    wgCountSources = ["uint32((uint64(pkt.GridSizeX)+uint64(pkt.WorkgroupSizeX)-1)/uint64(pkt.WorkgroupSizeX))",
                      "uint32((uint64(pkt.GridSizeX)+uint64(pkt.WorkgroupSizeX)-1)/uint64(pkt.WorkgroupSizeX))"] ∧
    (∀ g w, g < 4294967296 → w < 65536 → C02.wgCount g w = emuWgCount g w ∧ C02.wgCount g w = timingWgCount g w) := by
  refine ⟨by decide, by decide, by decide, by decide, by decide, by decide, fun _ _ => rfl, by decide, fun g w hg hw => ?_⟩
  rw [wgCount_typed g w hg hw]
  exact ⟨rfl, rfl⟩

/-- **tie_layouts.** The struct of the hidden kernel arguments and the dispatch packet, field by
    field with byte sizes, are the layouts the model serialises (`hidden_layout_is_abi`,
    `packet_layout_is_aql` then place them at the ABI offsets); block count and remainder formulas. -/
theorem tie_layouts :
    hiddenFields = hiddenLayout ∧ packetFields = packetLayout ∧
    hiddenBCSource = ["uint32((uint64(g)+uint64(l)-1)/uint64(l))"] ∧
    (∀ g l, g < 4294967296 → l < 65536 → C02.wgCount g l = hiddenBC g l) ∧ (∀ g l, hiddenRem g l = g % l) := by
  refine ⟨by decide, by decide, by decide, fun g l hg hl => ?_, fun _ _ => rfl⟩
  rw [wgCount_typed g l hg hl]
  rfl

/-- non-vacuity: the generated definitions evaluate -/
example : numWGInDimK 58 48 = 2 ∧ flattenedID 1 3 2 1 2 = 11 ∧ emuPacked 5 6 7 = 7346181 := by decide

end C08
