import MgpuModel.C13
namespace C13
theorem placeholder : isV2V3Header [] = false := by decide
end C13
