import MgpuProofs.C13
import MgpuProofs.C13Layout
/-!
# C13 — loading a kernel yields exactly its code and metadata

All statements are about `C13.loadKernel` & co. in `MgpuModel/C13.lean`, the
transcription of `amd/insts/hsaco.go` that the driver executes against the real
loader on every run (all shipped `.hsaco` files and synthetic ELF objects).
-/
namespace C13

/-- the byte range of the kernel symbol inside `.text` -/
def symRange (text : Section) (td : Bytes) (s : Symbol) : Bytes :=
  (td.drop (wrapSub s.value text.addr)).take s.size

/-- **bytes_exact.** A successful load by name returns the bytes of the kernel's symbol
range `text[sym.value − text.addr, +size)` — the first kernel symbol with that name —
and drops the first 256 bytes **iff** those bytes pass `isV2V3Header` and no usable
`<k>.kd` descriptor exists. Nothing else is ever removed or added. -/
theorem bytes_exact (v : View) (syms : List Symbol) (k : String) (r : Loaded)
    (hsy : v.symbols = some syms) (hk : k ≠ "")
    (hsz : ∀ s ∈ syms, s.size < U64 ∧ s.value < U64)
    (h : loadKernel v k = .ok r) :
    ∃ text td s, findSection v.sections ".text" = some text ∧ text.data = some td ∧
      (syms.filter (isKernelSym v.sections)).find? (·.name == k) = some s ∧ r.sym = some s ∧
      wrapSub s.value text.addr + s.size ≤ td.length ∧
      (r.data = (symRange text td s).drop 256 ↔
        (findV5 v.sections k syms = .none ∧ isV2V3Header (symRange text td s) = true)) ∧
      (r.data = symRange text td s ∨ r.data = (symRange text td s).drop 256) := by
  unfold loadKernel at h
  rw [hsy] at h
  cases ht : findSection v.sections ".text" with
  | none => simp [ht] at h
  | some text =>
    cases htd : text.data with
    | none => simp [ht, htd] at h
    | some td =>
      simp only [ht, htd, hk, if_false] at h
      unfold loadNamed at h
      cases hf : (syms.filter (isKernelSym v.sections)).find? (·.name == k) with
      | none => simp [hf] at h
      | some s =>
        have hsm : s ∈ syms := (List.mem_filter.mp (List.mem_of_find?_eq_some hf)).1
        have hkern : isKernelSym v.sections s = true := (List.mem_filter.mp (List.mem_of_find?_eq_some hf)).2
        have hpos : s.size > 0 := by
          unfold isKernelSym at hkern
          cases hs : v.sections[s.shndx]? <;> simp [hs] at hkern
          exact hkern.2.2
        simp only [hf] at h
        cases hsl : sliceU64 td (wrapSub s.value text.addr) s.size with
        | none => simp [hsl] at h
        | some kdata =>
          have ho : wrapSub s.value text.addr < U64 := wrapSub_lt (hsz s hsm).2
          obtain ⟨hle, hkd, hlen⟩ := sliceU64_some ho (hsz s hsm).1 hsl
          have hkd' : kdata = symRange text td s := hkd
          have hne : ∀ x : Bytes, x.length = s.size → x.drop 256 ≠ x := by
            intro x hx he
            have := congrArg List.length he
            simp only [List.length_drop] at this
            omega
          simp only [hsl] at h
          refine ⟨text, td, s, rfl, htd, rfl, ?_, hle, ?_, ?_⟩
          · cases hv : findV5 v.sections k syms <;> simp only [hv] at h
            · unfold fromEntireText at h
              split at h
              · split at h
                · cases h
                · simp only [withSym] at h; injection h with h; subst h; rfl
              · simp only [withSym] at h; injection h with h; subst h; rfl
            · cases h
            · injection h with h; subst h; rfl
          · rw [← hkd']
            cases hv : findV5 v.sections k syms <;> simp only [hv] at h
            · unfold fromEntireText at h
              split at h
              · rename_i hc
                split at h
                · cases h
                · simp only [withSym] at h; injection h with h; subst h
                  simp only [Bool.and_eq_true] at hc
                  simp [hc.2]
              · rename_i hc
                simp only [withSym] at h; injection h with h; subst h
                have hl : ¬ isV2V3Header kdata = true := by
                  intro hi
                  apply hc
                  have : 256 ≤ kdata.length := by
                    unfold isV2V3Header at hi
                    split at hi
                    · cases hi
                    · omega
                  simp [hi, this]
                constructor
                · intro he; exact absurd he.symm (hne kdata hlen)
                · intro hh; exact absurd hh.2 hl
            · cases h
            · injection h with h; subst h
              constructor
              · intro he; exact absurd he.symm (hne kdata hlen)
              · intro hh; cases hh.1
          · rw [← hkd']
            cases hv : findV5 v.sections k syms <;> simp only [hv] at h
            · unfold fromEntireText at h
              split at h
              · split at h
                · cases h
                · simp only [withSym] at h; injection h with h; subst h; exact Or.inr rfl
              · simp only [withSym] at h; injection h with h; subst h; exact Or.inl rfl
            · cases h
            · injection h with h; subst h; exact Or.inl rfl

/-- **v5_precedence.** When a descriptor is found for the name, the result is the whole
symbol range (never stripped, even if the bytes form a complete V2/V3 header), version 5,
and the metadata is the descriptor's, raised by the register-count symbols. -/
theorem v5_precedence (secs : List Section) (text : Section) (td : Bytes) (syms : List Symbol)
    (k : String) (s : Symbol) (m : Meta)
    (hs : (syms.filter (isKernelSym secs)).find? (·.name == k) = some s)
    (hin : wrapSub s.value text.addr + s.size ≤ td.length) (htl : td.length < U64)
    (hv : findV5 secs k syms = .found m) :
    loadNamed secs text td syms k =
      .ok { data := symRange text td s, md := overrideRegs k m syms, version := 5, sym := some s } := by
  unfold loadNamed
  simp only [hs, sliceU64_ok hin htl, hv]
  rfl

/-- the symbols the loader can look at when asked for kernel `k` -/
def relevant (k : String) (s : Symbol) : Bool :=
  s.name == k || s.name == k ++ ".kd" || s.name == k ++ ".numbered_sgpr" || s.name == k ++ ".num_vgpr"

/-- **order_and_neighbours_irrelevant.** Two symbol tables over the same sections whose
symbols named `k`, `k.kd`, `k.numbered_sgpr`, `k.num_vgpr` are the same up to order (and
carry unique names) give the same result for `k`: any permutation of the table and any
addition or removal of other symbols — other kernels, their descriptors, their register
symbols — changes nothing. (The register overrides are a maximum, see `overrideRegs_max`,
so even repeated `k.numbered_sgpr` symbols would be order-free; the *name lookups* are
first-match, which is why unique names are required.) -/
theorem order_and_neighbours_irrelevant (secs : List Section) (l1 l2 : List Symbol) (k : String)
    (hk : k ≠ "")
    (hp : (l1.filter (relevant k)).Perm (l2.filter (relevant k)))
    (hu : ((l1.filter (relevant k)).map (·.name)).Nodup) :
    loadKernel ⟨secs, some l1⟩ k = loadKernel ⟨secs, some l2⟩ k := by
  have e1 : (l1.filter (isKernelSym secs)).find? (·.name == k) = (l2.filter (isKernelSym secs)).find? (·.name == k) := by
    rw [kernel_find?_eq, kernel_find?_eq,
      filter_name_eq_of_perm (relevant k) k l1 l2 (by intro s h; simp [relevant, h]) hp hu]
  have e2 : l1.find? (fun s => s.name == k ++ ".kd" && s.size == 64) = l2.find? (fun s => s.name == k ++ ".kd" && s.size == 64) := by
    rw [find?_filter_name, find?_filter_name,
      filter_name_eq_of_perm (relevant k) (k ++ ".kd") l1 l2 (by intro s h; simp [relevant, h]) hp hu]
  have e3 : ∀ m, overrideRegs k m l1 = overrideRegs k m l2 := by
    intro m
    rw [overrideRegs_filter k l1, overrideRegs_filter k l2]
    apply overrideRegs_perm
    have hsub : ∀ l : List Symbol, l.filter (regRelevant k) = (l.filter (relevant k)).filter (regRelevant k) := by
      intro l
      rw [List.filter_filter]
      apply List.filter_congr
      intro s _
      unfold regRelevant relevant
      cases (s.name == k) <;> cases (s.name == k ++ ".kd") <;> cases (s.name == k ++ ".numbered_sgpr") <;>
        cases (s.name == k ++ ".num_vgpr") <;> rfl
    rw [hsub l1, hsub l2]
    exact hp.filter _
  have hN : ∀ text td, loadNamed secs text td l1 k = loadNamed secs text td l2 k := by
    intro text td
    unfold loadNamed findV5
    simp only [e1, e2, e3]
  unfold loadKernel
  simp only [hk, if_false, hN]

/-- the override really is "maximum wins", not "last wins" -/
theorem overrides_are_a_maximum (k : String) (syms : List Symbol) (m : Meta) :
    (overrideRegs k m syms).wfSgpr = syms.foldl (fun a s => max a (sgprContribution k s)) m.wfSgpr ∧
    (overrideRegs k m syms).wiVgpr = syms.foldl (fun a s => max a (vgprContribution k s)) m.wiVgpr := by
  rw [overrideRegs_max]; exact ⟨rfl, rfl⟩

/-- **no_oob_on_wellformed.** For a view whose symbols lie inside the sections they name
(and whose `.text` / `.rodata` are not repeated) no load ever slices out of range: the
outcome is a result or one of the explicit `log.Fatal` exits, never a bounds panic. Off
that domain the panic is an explicit outcome of the model (`Outcome.fault`: symbol range
leaving `.text`, descriptor starting less than 64 bytes below `.rodata`'s address). -/
theorem no_oob_on_wellformed (v : View) (k : String)
    (wf : ∀ syms, v.symbols = some syms → WellFormed v.sections syms) :
    loadKernel v k ≠ .fault := by
  unfold loadKernel
  cases ht : findSection v.sections ".text" with
  | none => simp
  | some text =>
    simp only
    cases htd : text.data with
    | none => simp
    | some td =>
      simp only
      cases hs : v.symbols with
      | none => exact fromEntireText_ne_fault td
      | some syms =>
        simp only
        have w := wf syms hs
        split
        · split
          · exact fromEntireText_ne_fault td
          · exact loadNamed_ne_fault _ _ _ _ _ ht htd w
          · simp
        · exact loadNamed_ne_fault _ _ _ _ _ ht htd w

/-- the explicit fault outcome off the well-formed domain: a kernel symbol reaching past `.text` -/
example :
    loadKernel ⟨[⟨"", 0, some []⟩, ⟨".text", 0x1000, some [1, 2, 3, 4]⟩], some [⟨"k", 0x1002, 4, 1⟩]⟩ "k" = .fault := by
  decide

/-- **header_roundtrip.** Parsing a rendered `amd_kernel_code_t` returns every field the
loader keeps, for all field values in range and whatever the skipped fields (prefetch,
scratch, upper flag bits, GDS, barrier count, bytes 88..255) and the code that follows
contain. Nothing is derived: the V2/V3 path copies. -/
theorem header_roundtrip (m : Meta) (s24 s32 s40 fhi gds bar : Nat) (tail : Bytes)
    (h : HdrInRange m) (hf : fhi < 4194304) :
    parseV2V3Header (renderHeader m s24 s32 s40 fhi gds bar tail) = m :=
  parse_renderHeader m s24 s32 s40 fhi gds bar tail h hf

/-- A rendered header is recognised exactly when its five signature fields have the values
`isV2V3Header` asks for (and 256 bytes are present). -/
theorem header_detect (m : Meta) (s24 s32 s40 fhi gds bar : Nat) (tail : Bytes)
    (h : HdrInRange m) (ht : 168 ≤ tail.length) :
    isV2V3Header (renderHeader m s24 s32 s40 fhi gds bar tail) = true ↔
      (m.cvMajor = 1 ∧ m.cvMinor ≤ 2 ∧ m.machineKind = 1 ∧ 7 ≤ m.mvMajor ∧ m.mvMajor ≤ 9 ∧ m.entry = 256) := by
  unfold isV2V3Header
  rw [renderHeader_length, hdr_u32_0 _ _ _ _ _ _ _ _ h, hdr_u32_4 _ _ _ _ _ _ _ _ h, hdr_u16_8 _ _ _ _ _ _ _ _ h,
    hdr_u16_10 _ _ _ _ _ _ _ _ h, hdr_u64_16 _ _ _ _ _ _ _ _ h]
  rw [if_neg (by omega)]
  by_cases h1 : m.cvMajor = 1 <;> by_cases h2 : m.cvMinor ≤ 2 <;> by_cases h3 : m.machineKind = 1 <;>
    by_cases h4 : 7 ≤ m.mvMajor <;> by_cases h5 : m.mvMajor ≤ 9 <;> by_cases h6 : m.entry = 256 <;>
    simp [h1, h2, h3, h4, h5, h6] <;> omega

/-- A genuine header followed by code loads as: the code, the header's fields, entry offset 0
(the header is gone), version 3. -/
theorem genuine_header_load (m : Meta) (s24 s32 s40 fhi gds bar : Nat) (pad code : Bytes)
    (h : HdrInRange m) (hf : fhi < 4194304) (hp : pad.length = 168)
    (hg : m.cvMajor = 1 ∧ m.cvMinor ≤ 2 ∧ m.machineKind = 1 ∧ 7 ≤ m.mvMajor ∧ m.mvMajor ≤ 9 ∧ m.entry = 256) :
    fromEntireText (renderHeader m s24 s32 s40 fhi gds bar (pad ++ code)) =
      .ok { data := code, md := { m with entry := 0 }, version := 3, sym := none } := by
  have hl : (pad ++ code).length ≥ 168 := by simp [hp]
  have hd := (header_detect m s24 s32 s40 fhi gds bar (pad ++ code) h hl).mpr hg
  have hlen := renderHeader_length m s24 s32 s40 fhi gds bar (pad ++ code)
  have hge : (renderHeader m s24 s32 s40 fhi gds bar (pad ++ code)).length ≥ 256 := by rw [hlen]; omega
  unfold fromEntireText parseV2V3Header?
  rw [if_pos (by simp [hd, hge]), if_neg (by omega)]
  simp only [parse_renderHeader m s24 s32 s40 fhi gds bar (pad ++ code) h hf,
    renderHeader_drop m s24 s32 s40 fhi gds bar pad code hp]

/-- **kd_roundtrip.** Parsing a descriptor laid out as the AMDGPU ABI lays it out returns LDS,
private and kernarg sizes, the entry offset and the three `compute_pgm_rsrc` words from their
ABI slots (rsrc3 @44, rsrc1 @48, rsrc2 @52; rsrc2 through the documented rewriting), the
register counts are the granules of rsrc1, the kernarg-pointer enable is `kernarg_size > 0`,
every other enable is false and `kernel_code_properties` is not read. For all field values
in range. (The name is kept from the time the loader read the words one slot early.) -/
theorem kd_roundtrip_partial (f : KdFields) (h : KdInRange f) :
    parseV5KernelDescriptor (renderKd f) = kdLoaded f ∧ (renderKd f).length = 64 :=
  ⟨parse_renderKd f h, renderKd_length f⟩

/-- The full statement for V5 metadata: the rsrc words come back as stored, up to the
documented rewriting of rsrc2. -/
def C13_full : Prop :=
  ∀ f : KdFields, KdInRange f →
    (parseV5KernelDescriptor (renderKd f)).rsrc1 = f.rsrc1 ∧
    (parseV5KernelDescriptor (renderKd f)).rsrc3 = f.rsrc3 ∧
    (parseV5KernelDescriptor (renderKd f)).rsrc2 = (fixRsrc2 (BitVec.ofNat 32 f.rsrc2) (decide (f.kernarg > 0))).toNat

/-- **C13_full_holds.** With the repaired offsets the full statement holds for every descriptor. -/
theorem C13_full_holds : C13_full := by
  intro f h
  rw [parse_renderKd f h]
  exact ⟨rfl, rfl, rfl⟩

/-- the same statement about the loader as it was before the repair -/
def C13_full_before_fix : Prop :=
  ∀ f : KdFields, KdInRange f →
    (parseV5KernelDescriptorOld (renderKd f)).rsrc1 = f.rsrc1 ∧
    (parseV5KernelDescriptorOld (renderKd f)).rsrc3 = f.rsrc3 ∧
    (parseV5KernelDescriptorOld (renderKd f)).rsrc2 = (fixRsrc2 (BitVec.ofNat 32 f.rsrc2) (decide (f.kernarg > 0))).toNat

/-- BitonicSort of amd/benchmarks/amdappsdk/bitonicsort/kernels_gfx942.hsaco -/
def bitonicKd : KdFields :=
  { lds := 0, priv := 0, kernarg := 280, reserved12 := 0, entry := 0, reserved24 := 0, reserved32 := 0,
    reserved40 := 0, rsrc3 := 2, rsrc1 := 0x00af0041, rsrc2 := 0x84, props := 8, preload := 0, reserved60 := 0 }

theorem bitonicKd_inRange : KdInRange bitonicKd := by
  constructor <;> decide

/-- It was false of the loader before the repair: for a shipped kernel's descriptor it returned
rsrc1 = 2 (the stored rsrc3) and rsrc2 = 0x00af09c4 (the stored rsrc1, rewritten). -/
theorem C13_full_before_fix_refuted : ¬ C13_full_before_fix := by
  intro h
  have := (h bitonicKd bitonicKd_inRange).1
  rw [parseOld_renderKd bitonicKd bitonicKd_inRange] at this
  revert this
  decide

/-- the shipped descriptor now loads with its stored words: rsrc1 0x00af0041, rsrc3 2, rsrc2 0x84 → 0x984 -/
example : ((parseV5KernelDescriptor (renderKd bitonicKd)).rsrc1, (parseV5KernelDescriptor (renderKd bitonicKd)).rsrc3,
    (parseV5KernelDescriptor (renderKd bitonicKd)).rsrc2) = (0x00af0041, 2, 0x984) := by decide +kernel

/-- The strict reading of the property — rsrc2 and the enable bits exactly as stored — fails
because of the deliberate rewriting: stored 0x84 becomes 0x984. -/
def C13_strict_full : Prop :=
  ∀ r : BitVec 32, ∀ b : Bool, fixRsrc2 r b = r

theorem C13_strict_full_refuted : ¬ C13_strict_full := by
  intro h
  have := h 0x84#32 true
  revert this
  decide

/-- which bits the rewriting forces and which it keeps, for all 2^32 values -/
theorem rsrc2_rewriting_spec (r : BitVec 32) (b : Bool) :
    (fixRsrc2 r b).getLsbD 0 = false ∧ (fixRsrc2 r b).getLsbD 7 = true ∧ (fixRsrc2 r b).getLsbD 8 = true ∧
    (fixRsrc2 r b).getLsbD 6 = r.getLsbD 6 ∧ (fixRsrc2 r b).getLsbD 9 = r.getLsbD 9 ∧
    (fixRsrc2 r b).getLsbD 10 = r.getLsbD 10 ∧ (fixRsrc2 r b).getLsbD 13 = r.getLsbD 13 ∧
    (fixRsrc2 r b).getLsbD 31 = r.getLsbD 31 := by
  have f := fixRsrc2_forced r b
  have p := fixRsrc2_preserved r b
  exact ⟨f.1, f.2.1, f.2.2, p.1, p.2.1, p.2.2.1, p.2.2.2.1, p.2.2.2.2.2.2.2.2.2.2.2.2.2.2.2.2.2.2.2.2.2⟩

/-! ## the hypotheses are met by concrete, non-trivial views -/

/-- a two-kernel object at a non-zero `.text` address: `b` has a descriptor **and** bytes that
would pass for a header; a neighbour kernel and foreign symbols surround it -/
def exText : Bytes := [0xaa, 0xbb, 0xcc, 0xdd] ++ renderHeader { cvMajor := 1, cvMinor := 1, machineKind := 1, mvMajor := 9, entry := 256 } 0 0 0 0 0 0 (List.replicate 168 0 ++ [0xde, 0xad, 0xbe, 0xef])
def exSecs : List Section := [⟨"", 0, some []⟩, ⟨".rodata", 0x600, some (renderKd bitonicKd)⟩, ⟨".text", 0x1000, some exText⟩]
def exSyms1 : List Symbol :=
  [⟨"a", 0x1000, 4, 2⟩, ⟨"b.kd", 0x600, 64, 1⟩, ⟨"b", 0x1004, 260, 2⟩, ⟨"b.numbered_sgpr", 30, 0, 0xfff1⟩, ⟨"", 0, 0, 2⟩]
def exSyms2 : List Symbol :=
  [⟨"b.numbered_sgpr", 30, 0, 0xfff1⟩, ⟨"zz", 0x1000, 8, 2⟩, ⟨"b", 0x1004, 260, 2⟩, ⟨"zz.kd", 0x600, 64, 1⟩, ⟨"b.kd", 0x600, 64, 1⟩]

/-- v5_precedence / bytes_exact on the example: 260 bytes come back although the first 256
pass `isV2V3Header`; without the `.kd` symbol the same bytes are stripped to 4. -/
example : (match loadKernel ⟨exSecs, some exSyms1⟩ "b" with | .ok r => (r.data.length, r.version, r.md.wfSgpr) | _ => (0, 0, 0)) = (260, 5, 32) := by decide +kernel
example : (match loadKernel ⟨exSecs, some (exSyms1.filter (·.name != "b.kd"))⟩ "b" with | .ok r => (r.data, r.version) | _ => ([], 0)) = ([0xde, 0xad, 0xbe, 0xef], 3) := by decide +kernel
example : isV2V3Header (symRange ⟨".text", 0x1000, some exText⟩ exText ⟨"b", 0x1004, 260, 2⟩) = true := by decide +kernel

/-- order_and_neighbours_irrelevant applies to the two example tables (different order,
kernel `a` removed, kernel `zz` with its descriptor added) -/
example : loadKernel ⟨exSecs, some exSyms1⟩ "b" = loadKernel ⟨exSecs, some exSyms2⟩ "b" :=
  order_and_neighbours_irrelevant exSecs exSyms1 exSyms2 "b" (by decide) (by decide +kernel) (by decide +kernel)

/-- a view that is well-formed in the sense of `no_oob_on_wellformed` -/
example : WellFormed [⟨"", 0, some []⟩, ⟨".text", 0x1000, some [1, 2, 3, 4, 5, 6, 7, 8]⟩] [⟨"k", 0x1004, 4, 1⟩] := by
  refine ⟨?_, ?_, ?_⟩
  · intro s hs sec d h1 h2
    simp only [List.mem_singleton] at hs
    subst hs
    simp only [List.getElem?_cons_succ, List.getElem?_cons_zero, Option.some.injEq] at h1
    subst h1
    simp only [Option.some.injEq] at h2
    subst h2
    decide
  · intro sec hs d hd
    simp only [List.mem_cons, List.not_mem_nil, or_false] at hs
    rcases hs with rfl | rfl <;> (simp only [Option.some.injEq] at hd; subst hd; decide)
  · intro a ha b hb hn ht
    simp only [List.mem_cons, List.not_mem_nil, or_false] at ha hb
    rcases ha with rfl | rfl <;> rcases hb with rfl | rfl <;> simp_all

/-- header_roundtrip's range hypothesis is met by a real header (stencil2d/kernels.hsaco shape) -/
def exHdr : Meta :=
  { cvMajor := 1, cvMinor := 0, machineKind := 1, mvMajor := 8, mvMinor := 0, mvStepping := 3, entry := 256,
    rsrc1 := 0x00ac0081, rsrc2 := 0x0000138c, enKernargPtr := true, kernarg := 56, wfSgpr := 18, wiVgpr := 7 }

example : HdrInRange exHdr := by
  constructor <;> decide

end C13
