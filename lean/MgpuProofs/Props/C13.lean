import MgpuProofs.C13
import MgpuProofs.C13Layout
/-!
# C13 — loading a kernel yields exactly its code and metadata

All statements are about `C13.loadKernel` & co. in `MgpuModel/C13.lean`, the
transcription of `amd/insts/hsaco.go` that the driver executes against the real
loader on every run (all shipped `.hsaco` files and synthetic ELF objects).
-/
namespace C13

/-- the byte range of the kernel symbol inside `.text` -/
def symRange (text : Section) (td : Bytes) (s : Symbol) : Bytes :=
  (td.drop (wrapSub s.value text.addr)).take s.size

/-- **bytes_exact.** A successful load by name returns the bytes of the kernel's symbol
range `text[sym.value − text.addr, +size)` — the first kernel symbol with that name —
and drops the first 256 bytes **iff** those bytes pass `isV2V3Header` and no usable
`<k>.kd` descriptor exists. Nothing else is ever removed or added. -/
theorem bytes_exact (v : View) (syms : List Symbol) (k : String) (r : Loaded)
    (hsy : v.symbols = some syms) (hk : k ≠ "")
    (hsz : ∀ s ∈ syms, s.size < U64 ∧ s.value < U64)
    (h : loadKernel v k = .ok r) :
    ∃ text td s, findSection v.sections ".text" = some text ∧ text.data = some td ∧
      (syms.filter (isKernelSym v.sections)).find? (·.name == k) = some s ∧ r.sym = some s ∧
      wrapSub s.value text.addr + s.size ≤ td.length ∧
      (r.data = (symRange text td s).drop 256 ↔
        (findV5 v.sections k syms = .none ∧ isV2V3Header (symRange text td s) = true)) ∧
      (r.data = symRange text td s ∨ r.data = (symRange text td s).drop 256) := by
  unfold loadKernel at h
  rw [hsy] at h
  cases ht : findSection v.sections ".text" with
  | none => simp [ht] at h
  | some text =>
    cases htd : text.data with
    | none => simp [ht, htd] at h
    | some td =>
      simp only [ht, htd, hk, if_false] at h
      unfold loadNamed at h
      cases hf : (syms.filter (isKernelSym v.sections)).find? (·.name == k) with
      | none => simp [hf] at h
      | some s =>
        have hsm : s ∈ syms := (List.mem_filter.mp (List.mem_of_find?_eq_some hf)).1
        have hkern : isKernelSym v.sections s = true := (List.mem_filter.mp (List.mem_of_find?_eq_some hf)).2
        have hpos : s.size > 0 := by
          unfold isKernelSym at hkern
          cases hs : v.sections[s.shndx]? <;> simp [hs] at hkern
          exact hkern.2.2
        simp only [hf] at h
        cases hsl : sliceU64 td (wrapSub s.value text.addr) s.size with
        | none => simp [hsl] at h
        | some kdata =>
          have ho : wrapSub s.value text.addr < U64 := wrapSub_lt (hsz s hsm).2
          obtain ⟨hle, hkd, hlen⟩ := sliceU64_some ho (hsz s hsm).1 hsl
          have hkd' : kdata = symRange text td s := hkd
          have hne : ∀ x : Bytes, x.length = s.size → x.drop 256 ≠ x := by
            intro x hx he
            have := congrArg List.length he
            simp only [List.length_drop] at this
            omega
          simp only [hsl] at h
          refine ⟨text, td, s, rfl, htd, rfl, ?_, hle, ?_, ?_⟩
          · cases hv : findV5 v.sections k syms <;> simp only [hv] at h
            · unfold fromEntireText at h
              split at h
              · split at h
                · cases h
                · simp only [withSym] at h; injection h with h; subst h; rfl
              · simp only [withSym] at h; injection h with h; subst h; rfl
            · cases h
            · injection h with h; subst h; rfl
          · rw [← hkd']
            cases hv : findV5 v.sections k syms <;> simp only [hv] at h
            · unfold fromEntireText at h
              split at h
              · rename_i hc
                split at h
                · cases h
                · simp only [withSym] at h; injection h with h; subst h
                  simp only [Bool.and_eq_true] at hc
                  simp [hc.2]
              · rename_i hc
                simp only [withSym] at h; injection h with h; subst h
                have hl : ¬ isV2V3Header kdata = true := by
                  intro hi
                  apply hc
                  have : 256 ≤ kdata.length := by
                    unfold isV2V3Header at hi
                    split at hi
                    · cases hi
                    · omega
                  simp [hi, this]
                constructor
                · intro he; exact absurd he.symm (hne kdata hlen)
                · intro hh; exact absurd hh.2 hl
            · cases h
            · injection h with h; subst h
              constructor
              · intro he; exact absurd he.symm (hne kdata hlen)
              · intro hh; cases hh.1
          · rw [← hkd']
            cases hv : findV5 v.sections k syms <;> simp only [hv] at h
            · unfold fromEntireText at h
              split at h
              · split at h
                · cases h
                · simp only [withSym] at h; injection h with h; subst h; exact Or.inr rfl
              · simp only [withSym] at h; injection h with h; subst h; exact Or.inl rfl
            · cases h
            · injection h with h; subst h; exact Or.inl rfl

/-- **v5_precedence.** When a descriptor is found for the name, the result is the whole
symbol range (never stripped, even if the bytes form a complete V2/V3 header), version 5,
and the metadata is the descriptor's, raised by the register-count symbols. -/
theorem v5_precedence (secs : List Section) (text : Section) (td : Bytes) (syms : List Symbol)
    (k : String) (s : Symbol) (m : Meta)
    (hs : (syms.filter (isKernelSym secs)).find? (·.name == k) = some s)
    (hin : wrapSub s.value text.addr + s.size ≤ td.length) (htl : td.length < U64)
    (hv : findV5 secs k syms = .found m) :
    loadNamed secs text td syms k =
      .ok { data := symRange text td s, md := overrideRegs k m syms, version := 5, sym := some s } := by
  unfold loadNamed
  simp only [hs, sliceU64_ok hin htl, hv]
  rfl

/-- the symbols the loader can look at when asked for kernel `k` -/
def relevant (k : String) (s : Symbol) : Bool :=
  s.name == k || s.name == k ++ ".kd" || s.name == k ++ ".numbered_sgpr" || s.name == k ++ ".num_vgpr"

/-- **order_and_neighbours_irrelevant.** Two symbol tables over the same sections whose
symbols named `k`, `k.kd`, `k.numbered_sgpr`, `k.num_vgpr` are the same up to order (and
carry unique names) give the same result for `k`: any permutation of the table and any
addition or removal of other symbols — other kernels, their descriptors, their register
symbols — changes nothing. (The register overrides are a maximum, see `overrideRegs_max`,
so even repeated `k.numbered_sgpr` symbols would be order-free; the *name lookups* are
first-match, which is why unique names are required.) -/
theorem order_and_neighbours_irrelevant (secs : List Section) (l1 l2 : List Symbol) (k : String)
    (hk : k ≠ "")
    (hp : (l1.filter (relevant k)).Perm (l2.filter (relevant k)))
    (hu : ((l1.filter (relevant k)).map (·.name)).Nodup) :
    loadKernel ⟨secs, some l1⟩ k = loadKernel ⟨secs, some l2⟩ k := by
  have e1 : (l1.filter (isKernelSym secs)).find? (·.name == k) = (l2.filter (isKernelSym secs)).find? (·.name == k) := by
    rw [kernel_find?_eq, kernel_find?_eq,
      filter_name_eq_of_perm (relevant k) k l1 l2 (by intro s h; simp [relevant, h]) hp hu]
  have e2 : l1.find? (fun s => s.name == k ++ ".kd" && s.size == 64) = l2.find? (fun s => s.name == k ++ ".kd" && s.size == 64) := by
    rw [find?_filter_name, find?_filter_name,
      filter_name_eq_of_perm (relevant k) (k ++ ".kd") l1 l2 (by intro s h; simp [relevant, h]) hp hu]
  have e3 : ∀ m, overrideRegs k m l1 = overrideRegs k m l2 := by
    intro m
    rw [overrideRegs_filter k l1, overrideRegs_filter k l2]
    apply overrideRegs_perm
    have hsub : ∀ l : List Symbol, l.filter (regRelevant k) = (l.filter (relevant k)).filter (regRelevant k) := by
      intro l
      rw [List.filter_filter]
      apply List.filter_congr
      intro s _
      unfold regRelevant relevant
      cases (s.name == k) <;> cases (s.name == k ++ ".kd") <;> cases (s.name == k ++ ".numbered_sgpr") <;>
        cases (s.name == k ++ ".num_vgpr") <;> rfl
    rw [hsub l1, hsub l2]
    exact hp.filter _
  have hN : ∀ text td, loadNamed secs text td l1 k = loadNamed secs text td l2 k := by
    intro text td
    unfold loadNamed findV5
    simp only [e1, e2, e3]
  unfold loadKernel
  simp only [hk, if_false, hN]

/-- the override really is "maximum wins", not "last wins" -/
theorem overrides_are_a_maximum (k : String) (syms : List Symbol) (m : Meta) :
    (overrideRegs k m syms).wfSgpr = syms.foldl (fun a s => max a (sgprContribution k s)) m.wfSgpr ∧
    (overrideRegs k m syms).wiVgpr = syms.foldl (fun a s => max a (vgprContribution k s)) m.wiVgpr := by
  rw [overrideRegs_max]; exact ⟨rfl, rfl⟩

end C13
