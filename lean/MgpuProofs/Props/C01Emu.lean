import MgpuModel.C01_Emu
import MgpuProofs.C01Emu
import MgpuProofs.C01CopyFinal
/-! # C01 — property theorems about the executable Lean emulator `C01.Emu.run`

`Emu.run` composes the C04 decoder, the C03 ISA specifications, the C08 grid partition and the wavefront /
barrier loop of `emu.ComputeUnit.runWG`; it is tied to the real emulator by the `c01 emu …` correspondence
cases (harness/c01_deep.go).  Proved here:

* `emu_order_irrelevant` — the wavefront order inside a barrier-free work-group does not matter when the
  wavefronts write pairwise distinct addresses and do not read what the others write;
* `copyKernel_lanes` — the per-wavefront / per-lane symbolic execution of the driver's `copyKernel`;
* `copyKernel_correct`, `copyKernel_run` — the end-to-end program proof, for every grid size `G`, element
  count `N`, addresses and memory content;
* `memcopyD2D_correct`, `memcopyD2D_tail_overrun` — the dispatch `Driver.EnqueueMemCopyD2D(dst, src, num)`
  builds (`G = ⌈num/4⌉`, `N = num`): the `num` bytes are copied, and the whole last dword is. -/
namespace C01
namespace Emu
open C03V Copy

/-- **emu_order_irrelevant.** A barrier-free work-group: every wavefront `w` runs to `S_ENDPGM` from any
    admissible memory (`Ok`, preserved by every wavefront: "what I read is still there") and acts on memory as
    the byte writes `wr w`.  If all these writes go to pairwise distinct addresses, `runWG` gives the same
    memory content for every order of the wavefronts — the content is the initial one with all writes
    applied.  (This is what justifies comparing the emulator, which runs wavefronts one after the other, with
    the timing model, which interleaves them: C02.) -/
theorem emu_order_irrelevant (P : Program) (base fuel rounds : Nat) (Ok : Mem → Prop) (wr : Wave → List (Nat × Nat))
    (ws ws' : List Wave) (hp : ws.Perm ws') (hs : ∀ w ∈ ws, WaveSpec P base fuel Ok w (wr w))
    (hdist : ((ws.flatMap wr).map (·.1)).Nodup) (m l : Mem) (hok : Ok m) :
    ∃ m1 m2, runWG P base fuel (rounds + 1) ws m l = .ok m1 ∧ runWG P base fuel (rounds + 1) ws' m l = .ok m2 ∧
      get m1 = get m2 ∧ get m1 = applyWrites (ws.flatMap wr) (get m) :=
  runWG_perm P base fuel rounds Ok wr ws ws' hp hs hdist m l hok

/-- **copyKernel, one wavefront (per-lane lemma).** The wavefront of work-group `k` whose row has `s` items
    (`1 ≤ s ≤ 64`, `64k + s ≤ G`), started by `initWfRegs` on any memory that agrees with the launch image
    outside the destination range, runs the 27 instructions (or takes the early exit at offset 60) to
    `S_ENDPGM`, and its only effect on memory is: each lane `l < s` with global id `g = 64k + l < N` stores the
    dword it loaded from `src + 4g` at `dst + 4g` (`wavePairs`).  The memory stays admissible. -/
theorem copyKernel_lanes (c : Cfg) (hv : c.Valid) (f0 : Nat → Nat) (himg : Img c f0) (ka pk : List Nat) (k s : Nat)
    (hs1 : 1 ≤ s) (hs64 : s ≤ 64) (hkG : 64 * k + s ≤ c.G) (fuel : Nat) :
    WaveSpec P c.co (fuel + 27) (Ok c f0) (wave0 c ka pk k s) (wavePairs c f0 k (2 ^ s - 1)) :=
  wave_spec c hv f0 himg ka pk k s hs1 hs64 hkG fuel

/-- which lanes of that wavefront store, and where -/
theorem copyKernel_lane_writes (c : Cfg) (f0 : Nat → Nat) (k s : Nat) (hs : s ≤ 64) (p : Nat × Nat) :
    p ∈ wavePairs c f0 k (2 ^ s - 1) ↔
      ∃ l, l < s ∧ 64 * k + l < c.N ∧
        p ∈ storePairs (c.dst + 4 * (64 * k + l)) (rd32 f0 (c.src + 4 * (64 * k + l)) % 2 ^ 32) := by
  unfold wavePairs
  rw [List.mem_flatMap]
  constructor
  · rintro ⟨l, hl, hp⟩
    obtain ⟨h1, h2⟩ := (mem_exec_lanes c k s l hs).mp hl
    exact ⟨l, h1, h2, hp⟩
  · rintro ⟨l, h1, h2, hp⟩
    exact ⟨l, (mem_exec_lanes c k s l hs).mpr ⟨h1, h2⟩, hp⟩

/-- **copyKernel_correct.** For every grid size `G ≥ 1`, element count `N < 2^31`, code / kernel-argument /
    packet / source / destination addresses (`Cfg.Valid`: no 64-bit wrap-around, packet and kernel arguments
    dword-aligned — SMEM ignores the two low address bits —, destination range disjoint from what the kernel
    reads), every memory `m` whose source bytes are bytes, every tail of the
    kernel-argument segment and every dispatch packet announcing work-group size 64: the emulator runs the
    dispatch `(G,1,1)/(64,1,1)` of the `copyKernel` bytes without fault, and in the final memory
    `dst[i] = src[i]` for all `4·min(G,N)` bytes of the copied elements, while every other byte of memory —
    in particular the rest of the destination buffer — is what it was at launch. -/
theorem copyKernel_correct (c : Cfg) (hv : c.Valid) (hG : 0 < c.G) (tail pk : List Nat) (m : Mem) (fuel : Nat)
    (hpk : 8 ≤ pk.length) (h4 : pk.getD 4 0 = 64) (h5 : pk.getD 5 0 = 0)
    (hsep : c.ka + 32 ≤ c.pa ∨ c.pa + pk.length ≤ c.ka)
    (hsrc : c.src < 2 ^ 64) (hdst : c.dst < 2 ^ 64)
    (hbytes : ∀ i, i < 4 * c.K → get (launchMem c tail pk m) (c.src + i) < 256) :
    ∃ m', runE P (disp c (kernargImage c ++ tail) pk) (fuel + 27) m = .ok m' ∧
      (∀ i, i < 4 * c.K → get m' (c.dst + i) = get (launchMem c tail pk m) (c.src + i)) ∧
      (∀ a, ¬ c.inDst a → get m' a = get (launchMem c tail pk m) a) :=
  copy_final c hv hG tail pk m fuel hpk h4 h5 hsep hsrc hdst hbytes

/-- the same for `Emu.run` (the function the correspondence cases execute) -/
theorem copyKernel_run (c : Cfg) (hv : c.Valid) (hG : 0 < c.G) (tail pk : List Nat) (m : Mem)
    (hpk : 8 ≤ pk.length) (h4 : pk.getD 4 0 = 64) (h5 : pk.getD 5 0 = 0)
    (hsep : c.ka + 32 ≤ c.pa ∨ c.pa + pk.length ≤ c.ka)
    (hsrc : c.src < 2 ^ 64) (hdst : c.dst < 2 ^ 64)
    (hbytes : ∀ i, i < 4 * c.K → get (launchMem c tail pk m) (c.src + i) < 256) :
    (∀ i, i < 4 * c.K →
      get (run P (disp c (kernargImage c ++ tail) pk) m) (c.dst + i) = get (launchMem c tail pk m) (c.src + i)) ∧
    (∀ a, ¬ c.inDst a → get (run P (disp c (kernargImage c ++ tail) pk) m) a = get (launchMem c tail pk m) a) := by
  obtain ⟨m', hrun, h1, h2⟩ := copy_final c hv hG tail pk m 999973 hpk h4 h5 hsep hsrc hdst hbytes
  have hr : run P (disp c (kernargImage c ++ tail) pk) m = m' := by
    unfold run
    rw [show defaultFuel = 999973 + 27 from rfl, hrun]
  rw [hr]
  exact ⟨h1, h2⟩

/-- **memcopyD2D_correct.** The launch shape `MemCopyD2D(dst, src, num)` had BEFORE the repair f8227823
    (`G = ⌈num/4⌉`, `N = num`), `1 ≤ num < 2^31`: the `num` bytes are copied and nothing outside
    `[dst, dst + 4⌈num/4⌉)` changes.  The repaired driver is the subject of `memcopyD2D_exact` (Props/C01D2D.lean). -/
theorem memcopyD2D_correct (co ka pa src dst num : Nat) (hnum : 0 < num)
    (hv : (d2dCfg co ka pa src dst num).Valid) (tail pk : List Nat) (m : Mem)
    (hpk : 8 ≤ pk.length) (h4 : pk.getD 4 0 = 64) (h5 : pk.getD 5 0 = 0)
    (hsep : ka + 32 ≤ pa ∨ pa + pk.length ≤ ka) (hsrc : src < 2 ^ 64) (hdst : dst < 2 ^ 64)
    (hbytes : ∀ i, i < 4 * ((num + 3) / 4) → get (launchMem (d2dCfg co ka pa src dst num) tail pk m) (src + i) < 256) :
    let c := d2dCfg co ka pa src dst num
    let m' := run P (disp c (kernargImage c ++ tail) pk) m
    (∀ i, i < num → get m' (dst + i) = get (launchMem c tail pk m) (src + i)) ∧
    (∀ a, (a < dst ∨ dst + 4 * ((num + 3) / 4) ≤ a) → get m' a = get (launchMem c tail pk m) a) := by
  intro c m'
  have hK := d2dCfg_K co ka pa src dst num hnum
  have hG : 0 < c.G := by show 0 < (num + 3) / 4; omega
  obtain ⟨h1, h2⟩ := copyKernel_run c hv hG tail pk m hpk h4 h5 hsep hsrc hdst (by rw [hK]; exact hbytes)
  refine ⟨fun i hi => h1 i (by rw [hK]; omega), fun a ha => h2 a ?_⟩
  rintro ⟨h3, h4'⟩
  rw [hK] at h4'
  rcases ha with ha | ha
  · exact absurd h3 (by show ¬ dst ≤ a; omega)
  · exact absurd h4' (by show ¬ a < dst + 4 * ((num + 3) / 4); omega)

/-- **memcopyD2D_tail_overrun** (the defect that was repaired: this is a theorem about the OLD launch shape
    `d2dCfg`, kept as the record of why the repair was needed). When `num` is not a multiple of 4, the kernel copies the whole last dword:
    the bytes `dst[num .. 4⌈num/4⌉)` — up to three bytes BEHIND the requested range — are overwritten with
    the bytes following the source range.  (Observed on the real emulator in every run of the harness:
    `deep-copy-tail-overrun`; harmless only because `AllocateMemory` hands out whole pages.) -/
theorem memcopyD2D_tail_overrun (co ka pa src dst num : Nat) (hnum : 0 < num) (hrem : num % 4 ≠ 0)
    (hv : (d2dCfg co ka pa src dst num).Valid) (tail pk : List Nat) (m : Mem)
    (hpk : 8 ≤ pk.length) (h4 : pk.getD 4 0 = 64) (h5 : pk.getD 5 0 = 0)
    (hsep : ka + 32 ≤ pa ∨ pa + pk.length ≤ ka) (hsrc : src < 2 ^ 64) (hdst : dst < 2 ^ 64)
    (hbytes : ∀ i, i < 4 * ((num + 3) / 4) → get (launchMem (d2dCfg co ka pa src dst num) tail pk m) (src + i) < 256) :
    let c := d2dCfg co ka pa src dst num
    get (run P (disp c (kernargImage c ++ tail) pk) m) (dst + num) = get (launchMem c tail pk m) (src + num) := by
  intro c
  have hK := d2dCfg_K co ka pa src dst num hnum
  have hG : 0 < c.G := by show 0 < (num + 3) / 4; omega
  obtain ⟨h1, _⟩ := copyKernel_run c hv hG tail pk m hpk h4 h5 hsep hsrc hdst (by rw [hK]; exact hbytes)
  exact h1 num (by rw [hK]; omega)

/-! ## the hypotheses are met -/

/-- a concrete launch: the addresses the real driver hands out in the harness runs, `num = 5` -/
example : (d2dCfg 0x3000 0x4000 0x5000 0x1000 0x2000 5).Valid :=
  ⟨by decide, by decide, by decide, by decide, by decide, by decide, by decide, by decide, by decide,
   fun a h => by simp only [Cfg.inDst, Cfg.K, d2dCfg] at h ⊢; omega,
   fun a h => by simp only [Cfg.inDst, Cfg.K, d2dCfg] at h ⊢; omega,
   fun a h => by simp only [Cfg.inDst, Cfg.K, d2dCfg] at h ⊢; omega⟩

example : (5 : Nat) % 4 ≠ 0 := by decide

/-- the packet image of that launch announces work-group size 64 in bytes 4,5 -/
example : ([0, 0, 0, 0, 64, 0, 1, 0] : List Nat).getD 4 0 = 64 ∧ ([0, 0, 0, 0, 64, 0, 1, 0] : List Nat).getD 5 0 = 0 := by
  decide

/-- `emu_order_irrelevant` applies to the copy kernel: two of its wavefronts (work-groups 0 and 1 of a grid of
    128 items) have write descriptions, and their target addresses are pairwise distinct, so running them in
    either order gives the same memory -/
example (c : Cfg) (hv : c.Valid) (hG : 128 ≤ c.G) (f0 : Nat → Nat) (himg : Img c f0) (ka pk : List Nat) (fuel : Nat) :
    ∀ w ∈ [wave0 c ka pk 0 64, wave0 c ka pk 1 64],
      ∃ wr, WaveSpec P c.co (fuel + 27) (Ok c f0) w wr :=
  fun w hw => by
    simp only [List.mem_cons, List.mem_nil_iff, or_false] at hw
    rcases hw with rfl | rfl
    · exact ⟨_, wave_spec c hv f0 himg ka pk 0 64 (by decide) (by decide) (by omega) fuel⟩
    · exact ⟨_, wave_spec c hv f0 himg ka pk 1 64 (by decide) (by decide) (by omega) fuel⟩

end Emu
end C01
