import MgpuModel.Gen.HsacoSkel
import MgpuModel.C13Drv
import MgpuModel.C13Core
/-!
# C13 — the control skeleton of the loader and of the driver's launch path, against the source

`Gen/HsacoSkel.lean` is regenerated from the Go sources on every run (`translate/c13skel.go`).
The theorems below are the proof obligations that connect it with the hand-written models: a
changed call into `debug/elf`, a changed or added `if`, a changed section name or suffix, a changed
allocation size, copy source, packet field, cache key type or start-PC expression makes one of them
fail by name (the correspondence then says where the behaviour differs).
-/
namespace C13

open Gen.HsacoSkel in
/-- **elf_api_surface_from_source.** Everything the loader asks of `debug/elf`: `Open` / `NewFile`
(`Elf.parse`), `Section(".text")`, `Section(".rodata")` (`findSection`: first section of that name),
`Data()` of those two (`Elf.secData`), `Symbols()` (`Elf.symbolsOf`), and of the values returned only
`Sections` (length and index), section `Name` / `Addr`, symbol `Name` / `Value` / `Size` / `Section`
— exactly the fields of `C13.Section` and `C13.Symbol`; `Info`, `Other`, section types, flags, program
headers and notes are never looked at. -/
theorem elf_api_surface_from_source :
    elfCalls = [
      "LoadKernelCodeObjectFromFS: elf.Open(filePath)",
      "LoadKernelCodeObjectFromFS: executable.Close()",
      "LoadKernelCodeObjectFromBytes: bytes.NewReader(data)",
      "LoadKernelCodeObjectFromBytes: elf.NewFile(reader)",
      "loadKernelCodeObjectFromELF: executable.Section(\".text\")",
      "loadKernelCodeObjectFromELF: textSection.Data()",
      "loadKernelCodeObjectFromELF: executable.Section(\".rodata\")",
      "loadKernelCodeObjectFromELF: rodataSection.Data()",
      "loadKernelCodeObjectFromELF: executable.Symbols()"] ∧
    elfFields = [
      "executable.Section", "textSection.Data", "rodataSection.Data", "executable.Symbols",
      "sym.Section", "executable.Sections", "sec.Name", "sym.Size", "sym.Name", "symbol.Name",
      "symbol.Value", "textSection.Addr", "symbol.Size", "sym.Value", "rodataSection.Addr"] := by
  constructor <;> rfl

open Gen.HsacoSkel in
/-- **loader_conditions_from_source.** The branch conditions of the three loader functions, in source
order, are the ones the model transcribes: `.text` missing → `fatal "notext"`; `Data()` error →
`fatal "textdata"`; `.rodata` optional; `Symbols()` error → whole `.text`; the kernel filter
(`isKernelSym`: defined, index in range, section named `.text`, size > 0); empty name → 0 / 1 / many
kernel symbols; first symbol with the name (`firstKernelSym`); descriptor first (`findV5`: `.rodata`
present with data, name `k.kd` and size 64, index in range, section named `.rodata`, the two
non-wrapping range checks); the header test of `fromEntireText`. -/
theorem loader_conditions_from_source :
    conds_loadKernelCodeObjectFromELF = [
      "textSection == nil",
      "err != nil",
      "rodataSection != nil",
      "err != nil",
      "sym.Section == elf.SHN_UNDEF",
      "int(sym.Section) >= len(executable.Sections)",
      "sec.Name == \".text\" && sym.Size > 0",
      "kernelName == \"\"",
      "len(kernelSymbols) == 0",
      "len(kernelSymbols) == 1",
      "symbol.Name == kernelName",
      "v5Meta := findV5KernelDescriptor(kernelName, symbols, executable, rodataSection, rodataSectionData); v5Meta != nil"] ∧
    conds_findV5KernelDescriptor = [
      "rodataSection == nil || rodataSectionData == nil",
      "sym.Name == kdSymbolName && sym.Size == 64",
      "int(sym.Section) < len(executable.Sections)",
      "sec.Name == \".rodata\"",
      "sym.Value >= rodataSection.Addr",
      "kdOffset <= dataLen && dataLen-kdOffset >= 64"] ∧
    conds_newKernelCodeObjectFromEntireTextSection = ["len(data) >= 256 && isV2V3Header(data)"] := by
  refine ⟨?_, ?_, ?_⟩ <;> rfl

open Gen.HsacoSkel in
/-- **loader_strings_from_source.** Section names, the three symbol-name suffixes and the fatal
messages (which the harness classifies into `notext` / `multiple` / `notfound`). -/
theorem loader_strings_from_source :
    loaderStrings = [
      "\".text\"", "\".text section not found in ELF file\"", "\".rodata\"", "\".text\"", "\"\"",
      "\"multiple kernels found in ELF file, specify kernel name. Available: %v\"",
      "\"kernel '%s' not found in ELF file\"", "\".kd\"", "\".rodata\"", "\".numbered_sgpr\"", "\".num_vgpr\""] := by
  rfl

namespace Drv

/-! ## the launch plan, interpreted -/

/-- the values the plan's names stand for in one call of `EnqueueLaunchKernel` -/
structure PlanEnv where
  cached : Bool
  ko : Nat
  ka : Nat
  dp : Nat
  co : Co
  pid : Nat
  gpu : Nat

def PlanEnv.addr (e : PlanEnv) (n : String) : Option Nat :=
  if n == "dCoData" then some e.ko
  else if n == "dKernArgData" then some e.ka
  else if n == "dPacket" then some e.dp
  else none

/-- the size expressions of the source -/
def PlanEnv.size (e : PlanEnv) (x : String) : Option Nat :=
  if x == "uint64(len(co.Data))" then some e.co.len
  else if x == "co.KernargSegmentByteSize" then some e.co.kernarg
  else if x == "uint64(binary.Size(packet))" then some Gen.HsacoSkel.packetSize
  else none

/-- the guards of the ordinary-GPU branch -/
def PlanEnv.guard (e : PlanEnv) (g : String) : Bool :=
  if g == "!(dev.Type == internal.DeviceTypeUnifiedGPU)" then true
  else if g == "!(dev.Type == internal.DeviceTypeUnifiedGPU) && !cached" then !e.cached
  else if g == "" || g == "range dev.UnifiedGPUIDs" then true
  else false

abbrev Row := String × String × String × String

def planAllocs (e : PlanEnv) (rows : List Row) : List Alloc :=
  rows.filterMap (fun r =>
    if r.1 == "alloc" && e.guard r.2.2.2 then
      match e.addr r.2.1, e.size r.2.2.1 with
      | some a, some z => some ⟨e.pid, e.gpu, a, z⟩
      | _, _ => none
    else none)

/-- the packet row names what `KernelObject` and `KernargAddress` are set to (`createAQLPacket`) -/
def planPacket (e : PlanEnv) (rows : List Row) : Option (Nat × Nat) :=
  match rows.find? (fun r => r.1 == "packet") with
  | none => none
  | some r =>
    if r.2.2.1 == "dCoData,dKernArgData" then some (e.ko, e.ka) else none

def planCmds (e : PlanEnv) (rows : List Row) : List Cmd :=
  rows.filterMap (fun r =>
    if !e.guard r.2.2.2 then none
    else if r.1 == "copy" then
      match e.addr r.2.1 with
      | none => none
      | some d =>
        if r.2.2.1 == "co.Data" then some (.copyCode d e.co.id e.co.len)
        else if r.2.2.1 == "newKernelArgs" then some (.copyArgs d e.co.kernarg)
        else if r.2.2.1 == "aqlPacket" || r.2.2.1 == "packet" then some (.copyPacket d)
        else none
    else if r.1 == "launch" then
      match planPacket e rows with
      | some (ko, ka) => some (.launch e.co.id e.co.len ko ka e.dp)
      | none => none
    else none)

def planCache (e : PlanEnv) (rows : List Row) (c : List (Nat × Nat)) : List (Nat × Nat) :=
  if rows.any (fun r => r.1 == "cache-put" && r.2.1 == "key" && r.2.2.1 == "dCoData" && e.guard r.2.2.2) then c ++ [(e.co.id, e.ko)] else c

/-- **launch_step_from_source.** For every driver state, queue, object and allocator answers, the model's
`step` for an ordinary launch is the interpretation of the plan regenerated from `EnqueueLaunchKernel`:
same allocations (target, size expression, guard), same copies (destination, source), same cache update,
and the launch command carries the `KernelObject` / `KernargAddress` that `createAQLPacket` was given. -/
theorem launch_step_from_source (s : State) (q gpu : Nat) (co : Co) (addrs : List Nat) :
    let e : PlanEnv :=
      match lookup s.cache co.id with
      | some ko => ⟨true, ko, addrs.getD 0 0, addrs.getD 1 0, co, pidOf s.queues q, gpu⟩
      | none => ⟨false, addrs.getD 0 0, addrs.getD 1 0, addrs.getD 2 0, co, pidOf s.queues q, gpu⟩
    step s (.launch q gpu co addrs) =
      { cache := planCache e Gen.HsacoSkel.launchPlan s.cache
        allocs := s.allocs ++ planAllocs e Gen.HsacoSkel.launchPlan
        queues := pushCmds s.queues q (planCmds e Gen.HsacoSkel.launchPlan) } := by
  cases h : lookup s.cache co.id with
  | some ko =>
    simp [step, h, planCache, planAllocs, planCmds, planPacket, Gen.HsacoSkel.launchPlan, PlanEnv.guard, PlanEnv.addr,
      PlanEnv.size, Gen.HsacoSkel.packetSize, packetSize]
  | none =>
    simp [step, h, planCache, planAllocs, planCmds, planPacket, Gen.HsacoSkel.launchPlan, PlanEnv.guard, PlanEnv.addr,
      PlanEnv.size, Gen.HsacoSkel.packetSize, packetSize]

/-- the per-GPU body of the unified launch, interpreted from `unifiedPlan` + `alloc3Plan` -/
def unifiedBody (pid : Nat) (co : Co) (g ko ka dp : Nat) : List Alloc × List Cmd :=
  let e : PlanEnv := ⟨false, ko, ka, dp, co, pid, g⟩
  (planAllocs e Gen.HsacoSkel.alloc3Plan, planCmds e Gen.HsacoSkel.unifiedPlan)

/-- **unified_step_from_source.** Each member GPU of a unified device gets the three allocations of
`allocateGPUMemory` and the three copies of `enqueueLaunchUnifiedKernel` — its own upload of the code,
no cache — as the regenerated plans say. -/
theorem unified_step_from_source (pid : Nat) (co : Co) (g : Nat) (gs addrs : List Nat) :
    unifiedParts pid co (g :: gs) addrs =
      let b := unifiedBody pid co g (addrs.getD 0 0) (addrs.getD 1 0) (addrs.getD 2 0)
      let r := unifiedParts pid co gs (addrs.drop 3)
      (b.1 ++ r.1, b.2 ++ r.2.1, (addrs.getD 0 0, addrs.getD 1 0, addrs.getD 2 0) :: r.2.2) := by
  simp [unifiedParts, unifiedBody, planAllocs, planCmds, planPacket, Gen.HsacoSkel.unifiedPlan, Gen.HsacoSkel.alloc3Plan,
    PlanEnv.guard, PlanEnv.addr, PlanEnv.size, Gen.HsacoSkel.packetSize, packetSize]

open Gen.HsacoSkel in
/-- **driver_constants_from_source.** The AQL packet has 64 bytes; the packet's `KernelObject` is the
code buffer and `KernargAddress` the argument buffer; the cache is keyed by the struct `codeObjKey` = (process of
the launching context, object pointer) — the tag `ckey (pidOf queues q) co.id` that `keyOp` gives the code object
(`cache_key_from_source`; before the repair the key was the pointer alone, the root of
`code_address_same_process_before_fix_refuted`); both compute units start a
wavefront at `KernelObject + KernelCodeEntryByteOffset` (`entryPC`). -/
theorem driver_constants_from_source :
    packetSize = Drv.packetSize ∧
    "packet.KernelObject = uint64(dCoData)" ∈ packetFields ∧
    "packet.KernargAddress = uint64(dKernArgData)" ∈ packetFields ∧
    cacheType = "map[codeObjKey]Ptr" ∧
    startPC = [
      "amd/emu/computeunit.go: pkt.KernelObject + co.KernelCodeEntryByteOffset",
      "amd/timing/cu/wfdispatcher.go: wf.Packet.KernelObject + wf.CodeObject.KernelCodeEntryByteOffset"] ∧
    (∀ ko co, entryPC ko co = ko + co.entry) := by
  refine ⟨rfl, by decide, by decide, rfl, rfl, fun _ _ => rfl⟩

open Gen.HsacoSkel in
/-- **cache_key_from_source.** The key both cache accesses of `EnqueueLaunchKernel` use is built, in the ordinary-GPU
branch and before the lookup, from `queue.Context.pid` and the code object pointer, and the key struct has exactly
these two fields — what `keyOp` / `ckey` transcribe (a key without the process, or with further fields, breaks this
obligation). -/
theorem cache_key_from_source :
    cacheKeyFields = ["pid vm.PID", "co *insts.KernelCodeObject"] ∧
    launchPlan.take 2 =
      [("unified", "co", "", "dev.Type == internal.DeviceTypeUnifiedGPU"),
       ("key", "key", "codeObjKey{pid: queue.Context.pid, co: co}", "!(dev.Type == internal.DeviceTypeUnifiedGPU)")] ∧
    (launchPlan.filter (fun r => r.1 == "cache-get" || r.1 == "cache-put")).map (fun r => (r.1, r.2.1, r.2.2.1)) =
      [("cache-get", "dCoData,cached", "key"), ("cache-put", "key", "dCoData")] ∧
    (∀ qs q gpu co addrs, keyOp qs (.launch q gpu co addrs) = .launch q gpu { co with id := ckey (pidOf qs q) co.id } addrs) := by
  refine ⟨by decide, by decide, by decide, fun _ _ _ _ _ => rfl⟩

/-- the interpretation on a concrete call: a first launch uploads, a second launch of the same object does not -/
example :
    planCmds ⟨false, 4096, 8192, 12288, ⟨7, 64, 16, 0⟩, 1, 1⟩ Gen.HsacoSkel.launchPlan =
      [.copyCode 4096 7 64, .copyArgs 8192 16, .copyPacket 12288, .launch 7 64 4096 8192 12288] ∧
    planCmds ⟨true, 4096, 16384, 20480, ⟨7, 64, 16, 0⟩, 1, 1⟩ Gen.HsacoSkel.launchPlan =
      [.copyArgs 16384 16, .copyPacket 20480, .launch 7 64 4096 16384 20480] := by
  constructor <;> decide

end Drv
end C13
