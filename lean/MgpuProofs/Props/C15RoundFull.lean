import MgpuProofs.C15RoundFull
import MgpuProofs.Props.C15Round
/-! # C15 ∘ C14 — the WHOLE flush / restart round of the composition completes: one decreasing measure
over the composed state, no hypothesis on the IDs the responses name

The round as the command processor runs it (`cp/ctrlMiddleware.go`): flush request to the compute unit
→ the unit executes the flush, acknowledges → `DiscardTransactions` to the ROB → acknowledgement →
`Restart` to the ROB → acknowledgement → restart request to the compute unit → its answer. `fullMu`
counts what is still to come, read off the composed state: the command processor's state towards the
compute unit (`cp`), the unit's debt (`cuStage`: requests waiting in its `ToCP` port, acknowledgement
not yet on the port), the phase towards the ROB (`robPh`) and the ROB's Control port (`roundMu`).
The compute unit's side uses only the ID-independent part of C14's invariant (`Lite`,
`MgpuProofs/C15CuFree.lean`), so the theorems hold for EVERY legal composed run. -/
namespace C15.Cu
open C14.Flush

/-- **No legal event pushes the whole round back**: for every legal composed run state and every
    legal event, `fullMu` does not grow — except that the command processor may open a new round
    when none is open (`cp = idle`, measure 0). No `SentNames`. -/
theorem full_round_never_increases (c : Cfg) (hcap : 0 < c.cu.capCP) (σ : Comp) (e : CEv)
    (hl : legalB c σ e = true) (h : Lite σ.cu) :
    fullMu (cstep c σ e) ≤ fullMu σ ∨ σ.cu.cp = .idle := by
  have hL' : Lite (cstep c σ e).cu := cstep_Lite c hcap σ e hl h
  rcases cstep_stage_cases c hcap σ e hl h with ⟨hcp, hst⟩ | hidle | ⟨h1, h2⟩ | ⟨h1, h2, h3⟩ | ⟨h1, h2⟩
  · rcases hc : σ.cu.cp with _ | _ | _ | _
    · right; rfl
    · left; unfold fullMu; rw [hcp, hc]; simp only; omega
    · left
      unfold fullMu; rw [hcp, hc]; simp only
      have hr := round_measure_never_increases c σ e hl
      by_cases h0 : σ.robPh = 0
      · rw [if_pos h0]
        have := roundMu_le_six (cstep c σ e)
        split <;> omega
      · rw [if_neg h0]
        have hne : (cstep c σ e).robPh ≠ 0 := by
          intro hz
          rcases robPh_step c σ e with hs | ⟨h0', _⟩ | ⟨_, hs⟩ | ⟨_, hs⟩ | ⟨_, hs⟩ | ⟨_, _, he, hroom⟩
          · rw [hs] at hz; exact h0 hz
          · exact h0 h0'
          · rw [hs] at hz; cases hz
          · rw [hs] at hz; cases hz
          · rw [hs] at hz; cases hz
          · subst he
            have : (cstep c σ (.cu .cpRestart)).cu.cp = .restartSent := by
              have hf : σ.cu.fault = false := h.1.1.2.1
              simp [cstep, isLink, C14.Flush.step, hf, hroom, hc]
            rw [hcp, hc] at this; cases this
        rw [if_neg hne]
        rcases hr with hr | ⟨hz, _⟩
        · omega
        · exact absurd hz h0
    · left; unfold fullMu; rw [hcp, hc]; simp only; omega
  · exact Or.inr hidle
  · left; unfold fullMu; rw [h1, h2]; simp only
    have := roundMu_le_six (cstep c σ e)
    split <;> omega
  · left; unfold fullMu; rw [h1, h2]; simp only
    by_cases h0 : σ.robPh = 0
    · rw [if_pos h0]; omega
    · rw [if_neg h0]; have := roundMu_pos h0; omega
  · left; unfold fullMu; rw [h2]; exact Nat.zero_le _

example : (List.range 21).map (fun k => fullMu (crun demoCfg ((roundEvs ++ [CEv.cu (.take .c 1)]).take k))) =
    [0, 0, 0, 0, 0, 13, 12, 11, 10, 9, 8, 7, 6, 5, 4, 3, 1, 1, 0, 0, 0] := by decide

/-- **The due event of the whole round pays** (it is legal and `fullMu` strictly decreases): a tick
    of the compute unit while a flush / restart request waits in its port or the acknowledgement can
    go out; the command processor taking the unit's acknowledgement / answer; its
    `DiscardTransactions` to the ROB after the unit's acknowledgement; then the due events of the
    ROB's handshake (`round_helpful_decreases`) including the restart request to the compute unit. -/
theorem full_round_helpful_decreases (c : Cfg) (hcap : 0 < c.cu.capCP) (hout : 0 < c.rob.ctlOutCap)
    (σ : Comp) (e : CEv) (hl : legalB c σ e = true) (h : Lite σ.cu) (hp : Proto σ)
    (hh : helpfulF c σ e = true) : fullMu (cstep c σ e) < fullMu σ := by
  have hf : σ.cu.fault = false := h.1.1.2.1
  have hL' : Lite (cstep c σ e).cu := cstep_Lite c hcap σ e hl h
  obtain ⟨_, _, _, _, p5⟩ := h.1.1
  -- the events of the ROB's handshake, command processor acked
  have hrob : σ.cu.cp = .acked → helpfulR c σ e = true → fullMu (cstep c σ e) < fullMu σ := by
    intro hc hr
    have hdec := (round_helpful_decreases c hout σ e hp hr).2
    have hph : σ.robPh ≠ 0 := by
      intro hz; have := roundMu_of_zero hz; omega
    rcases cstep_stage_cases c hcap σ e hl h with ⟨hcp, _⟩ | hidle | ⟨h1, _⟩ | ⟨_, h2, h3⟩ | ⟨h1, _⟩
    · unfold fullMu; rw [hcp, hc]; simp only
      rw [if_neg hph]
      split
      · rename_i hz
        -- the round towards the ROB closed although the compute unit was not restarted: impossible
        rcases robPh_step c σ e with hs | ⟨h0', _⟩ | ⟨_, hs⟩ | ⟨_, hs⟩ | ⟨_, hs⟩ | ⟨_, _, he, hroom⟩
        · rw [hs] at hz; exact absurd hz hph
        · exact absurd h0' hph
        · rw [hs] at hz; cases hz
        · rw [hs] at hz; cases hz
        · rw [hs] at hz; cases hz
        · subst he
          have : (cstep c σ (.cu .cpRestart)).cu.cp = .restartSent := by
            simp [cstep, isLink, C14.Flush.step, hf, hroom, hc]
          rw [hcp, hc] at this; cases this
      · omega
    · rw [hc] at hidle; cases hidle
    · rw [hc] at h1; cases h1
    · unfold fullMu; rw [h2, hc]; simp only
      rw [if_neg hph]; have := roundMu_pos hph; omega
    · rw [hc] at h1; cases h1
  cases e with
  | xfer => simp only [helpfulF, helpfulR, Bool.and_false, Bool.false_eq_true] at hh
  | back => simp only [helpfulF, helpfulR, Bool.and_false, Bool.false_eq_true] at hh
  | rob e' =>
    cases e' with
    | ctl m =>
      simp only [helpfulF, Bool.and_eq_true, Bool.or_eq_true, beq_iff_eq, decide_eq_true_eq,
        Bool.not_eq_true'] at hh
      obtain ⟨hc, hh⟩ := hh
      rcases hh with ⟨⟨⟨h0, hd⟩, hr⟩, hroom⟩ | hr
      · -- `DiscardTransactions` opens the ROB's handshake
        have hcu : (cstep c σ (.rob (.ctl m))).cu = σ.cu := rfl
        have hph : (cstep c σ (.rob (.ctl m))).robPh = 1 := by simp [cstep, robPhStep, hroom, hd, h0]
        have hin : (cstep c σ (.rob (.ctl m))).sys.rob.ctlIn = σ.sys.rob.ctlIn ++ [m] := by
          simp [cstep, sysStep, C15.step, hroom]
        unfold fullMu
        rw [hcu, hc]; simp only
        rw [if_pos h0, if_neg (by rw [hph]; decide)]
        have := roundMu_le_six (cstep c σ (.rob (.ctl m)))
        have h6 : roundMu (cstep c σ (.rob (.ctl m))) = 6 := by simp [roundMu, hph, hin]
        omega
      · exact hrob hc hr
    | tick => simp only [helpfulF, Bool.and_eq_true, beq_iff_eq] at hh; exact hrob hh.1 hh.2
    | takeAck => simp only [helpfulF, Bool.and_eq_true, beq_iff_eq] at hh; exact hrob hh.1 hh.2
    | arrive q => simp [helpfulF, helpfulR] at hh
    | takeRsp => simp [helpfulF, helpfulR] at hh
    | memTake => simp [helpfulF, helpfulR] at hh
    | memAnswer j p => simp [helpfulF, helpfulR] at hh
  | cu o =>
    by_cases ht : o = .tick
    · subst ht
      simp only [helpfulF, Bool.and_eq_true, Bool.or_eq_true, beq_iff_eq, Bool.not_eq_true',
        decide_eq_true_eq] at hh
      obtain ⟨hc, hwork⟩ := hh
      have hcu : (cstep c σ (.cu .tick)).cu = C14.Flush.tick c.cu σ.cu := by
        simp [cstep, isLink, C14.Flush.step, hf]
      have hlt : cuStage (C14.Flush.tick c.cu σ.cu) < cuStage σ.cu := by
        rcases hwork with hne | ⟨ha, hroom⟩
        · refine (tick_stage c.cu σ.cu h.2).2.1 ?_
          intro hnil; rw [hnil] at hne; simp at hne
        · exact (tick_stage c.cu σ.cu h.2).2.2 ha hroom
      unfold fullMu
      rw [hcu, tick_cp]
      rcases hc with hc | hc <;> rw [hc] <;> simp only <;> omega
    · by_cases hk : ∃ n, o = .take .c n
      · obtain ⟨n, rfl⟩ := hk
        simp only [helpfulF, Bool.and_eq_true, Bool.or_eq_true, beq_iff_eq, Bool.not_eq_true',
          decide_eq_true_eq] at hh
        obtain ⟨⟨hc, hn⟩, hne⟩ := hh
        have hcu : (cstep c σ (.cu (.take .c n))).cu =
            { σ.cu with cpOut := σ.cu.cpOut.drop n, cp := cpRecvAll σ.cu.cp (σ.cu.cpOut.take n) } := by
          simp [cstep, isLink, C14.Flush.step, hf]
        obtain ⟨k, rfl⟩ : ∃ k, n = k + 1 := ⟨n - 1, by omega⟩
        unfold fullMu
        rw [hcu]
        rcases p5 with h5 | h5 | h5 | h5 | h5 | h5 | h5 | h5 <;> obtain ⟨q1, _, q3, _⟩ := h5
        all_goals first
          | (rw [q3] at hne; simp at hne; done)
          | (rcases hc with hc | hc <;> rw [q1] at hc <;> cases hc; done)
          | skip
        · -- the acknowledgement is taken
          simp only [q1, q3, List.take_succ_cons, List.take_nil, cpRecvAll, List.foldl_cons, List.foldl_nil, cpRecv]
          split <;> (try have := roundMu_le_six (cstep c σ (.cu (.take .c (k + 1))))) <;> omega
        · -- the restart answer is taken
          simp only [q1, q3, List.take_succ_cons, List.take_nil, cpRecvAll, List.foldl_cons, List.foldl_nil, cpRecv]
          omega
      · -- the restart request to the compute unit (the only other due event)
        have hc : σ.cu.cp = .acked ∧ helpfulR c σ (.cu o) = true := by
          cases o with
          | tick => exact absurd rfl ht
          | take k n =>
            cases k with
            | c => exact absurd ⟨n, rfl⟩ hk
            | _ => simp [helpfulF, helpfulR] at hh
          | cpRestart => simpa [helpfulF] using hh
          | _ => simp [helpfulF, helpfulR] at hh
        exact hrob hc.1 hc.2

example : helpfulCountF demoCfg (crun demoCfg (roundEvs.take 5)) ((roundEvs ++ [CEv.cu (.take .c 1)]).drop 5) = 12 := by
  decide

/-- **The whole flush / restart round of the composition completes — bounded liveness over every
    legal schedule, no hypothesis on response IDs.** From any reachable state, along any legal
    continuation (issue is blocked while paused; everything else — ticks of both components,
    connection traffic, memory answers under any IDs — may be interleaved arbitrarily): either the
    command processor is back in its idle state at some point (the compute unit has answered the
    restart request: it is re-sending or has re-sent its shadow list, the ROB is empty and serving),
    or `fullMu` has dropped by at least the number of due events that happened. In particular the
    round is over at the latest when `fullMu ≤ 13` due events have happened. -/
theorem full_round_completes_within (c : Cfg) (hcap : 0 < c.cu.capCP) (hout : 0 < c.rob.ctlOutCap)
    (evs0 evs : List CEv) (hl : legalRunB c {} (evs0 ++ evs) = true) :
    let σ := crun c evs0
    ((∃ k, k ≤ evs.length ∧ (crun c (evs0 ++ evs.take k)).cu.cp = .idle) ∨
      fullMu (crun c (evs0 ++ evs)) + helpfulCountF c σ evs ≤ fullMu σ) ∧
    (fullMu σ ≤ helpfulCountF c σ evs → ∃ k, k ≤ evs.length ∧ (crun c (evs0 ++ evs.take k)).cu.cp = .idle) := by
  intro σ
  obtain ⟨hl0, hl1⟩ := legalRunB_append c evs0 evs {} hl
  have hp : Proto σ := comp_proto c evs0 hl0
  have hL : Lite σ.cu := crun_Lite c hcap evs0 hl0
  have hrun : ∀ l : List CEv, crun c (evs0 ++ l) = l.foldl (cstep c) σ := by
    intro l; simp [σ, crun, List.foldl_append]
  have fold : ∀ (es : List CEv) (σ : Comp), Proto σ → Lite σ.cu → legalRunB c σ es = true →
      (∃ k, k ≤ es.length ∧ ((es.take k).foldl (cstep c) σ).cu.cp = .idle) ∨
      fullMu (es.foldl (cstep c) σ) + helpfulCountF c σ es ≤ fullMu σ := by
    intro es
    induction es with
    | nil => intro σ _ _ _; right; simp [helpfulCountF]
    | cons e es ih =>
      intro σ hp hL hl
      simp only [legalRunB, Bool.and_eq_true] at hl
      by_cases h0 : σ.cu.cp = .idle
      · left; exact ⟨0, Nat.zero_le _, h0⟩
      · have hp' := cstep_Proto c σ e hl.1 hp
        have hL' := cstep_Lite c hcap σ e hl.1 hL
        rcases ih (cstep c σ e) hp' hL' hl.2 with ⟨k, hk, hz⟩ | hle
        · left; exact ⟨k + 1, by simp; omega, by simpa using hz⟩
        · right
          simp only [List.foldl_cons, helpfulCountF]
          by_cases hh : helpfulF c σ e = true
          · have := full_round_helpful_decreases c hcap hout σ e hl.1 hL hp hh
            simp only [hh, if_true]; omega
          · rcases full_round_never_increases c hcap σ e hl.1 hL with hle' | hz
            · simp only [hh, Bool.false_eq_true, if_false]; omega
            · exact absurd hz h0
  have key := fold evs σ hp hL hl1
  constructor
  · rcases key with ⟨k, hk, hz⟩ | hle
    · left; exact ⟨k, hk, by rw [hrun]; exact hz⟩
    · right; rw [hrun]; exact hle
  · intro hn
    rcases key with ⟨k, hk, hz⟩ | hle
    · exact ⟨k, hk, by rw [hrun]; exact hz⟩
    · refine ⟨evs.length, Nat.le_refl _, ?_⟩
      rw [List.take_length, hrun]
      exact fullMu_zero (by omega)

example : fullMu (crun demoCfg (roundEvs.take 5)) = 13 ∧
    (crun demoCfg (roundEvs ++ [CEv.cu (.take .c 1)])).cu.cp = .idle ∧
    (crun demoCfg (roundEvs ++ [CEv.cu (.take .c 1)])).cu.s.sent = [(0, 0), (0, 1)] := by decide

/-- **No deadlock in the whole round**: while a round is open a due event exists, unless a port
    of the command processor's side is what blocks (the ROB's Control port cannot take a message,
    the ROB is faulted, or the compute unit's `ToCP` port cannot take the restart request — none of
    which happens with the shipped capacities). -/
theorem full_round_no_deadlock (c : Cfg) (hcap : 0 < c.cu.capCP) (hin : 0 < c.rob.ctlInCap) (σ : Comp)
    (h : Lite σ.cu) (hp : Proto σ) (hopen : σ.cu.cp ≠ .idle) (hf : σ.sys.rob.fault = none) :
    (∃ e, helpfulF c σ e = true) ∨ (σ.robPh = 4 ∧ ¬ σ.cu.cpIn.length < c.cu.capCP) := by
  obtain ⟨_, pf, _, _, p5⟩ := h.1.1
  have hnf := h.2
  rcases p5 with h5 | h5 | h5 | h5 | h5 | h5 | h5 | h5 <;> obtain ⟨q1, q2, q3, q4, q5, _⟩ := h5
  · exact absurd q1 hopen
  · left; exact ⟨.cu .tick, by simp [helpfulF, q1, q2]⟩
  · rw [hnf] at q5; cases q5
  · left; exact ⟨.cu .tick, by simp [helpfulF, q1, q2, q3, q4, hcap]⟩
  · left; exact ⟨.cu (.take .c 1), by simp [helpfulF, q1, q3]⟩
  · by_cases h0 : σ.robPh = 0
    · left
      have hci : σ.sys.rob.ctlIn = [] := by
        unfold Proto ProtoV at hp
        rcases hp with hp | ⟨_, hp | hp | hp | hp | hp | hp⟩ <;> obtain ⟨r1, r2, _⟩ := hp <;>
          first | exact r2 | omega
      exact ⟨.rob (.ctl ⟨true, false⟩), by simp [helpfulF, q1, h0, hci, hin]⟩
    · rcases round_no_deadlock c hin σ hp h0 hf with ⟨e, he⟩ | ⟨h4, hb⟩
      · left
        refine ⟨e, ?_⟩
        cases e with
        | xfer => simp [helpfulR] at he
        | back => simp [helpfulR] at he
        | rob e' =>
          cases e' <;> simp_all [helpfulF]
        | cu o =>
          cases o <;> simp_all [helpfulF, helpfulR]
      · right
        refine ⟨h4, ?_⟩
        rcases hb with hb | hb
        · rw [pf] at hb; cases hb
        · exact hb
  · left; exact ⟨.cu .tick, by simp [helpfulF, q1, q2]⟩
  · left; exact ⟨.cu (.take .c 1), by simp [helpfulF, q1, q3]⟩

/-- after the flush request and one tick of the compute unit: the flush is executed, the
    acknowledgement is owed — the due event is the compute unit's next tick -/
example : Lite (crun demoCfg (roundEvs.take 6)).cu ∧ (crun demoCfg (roundEvs.take 6)).cu.cp = .flushSent ∧
    helpfulF demoCfg (crun demoCfg (roundEvs.take 6)) (.cu .tick) = true :=
  ⟨crun_Lite _ (by decide) _ (by decide), by decide, by decide⟩

end C15.Cu
