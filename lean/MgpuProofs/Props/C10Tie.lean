import MgpuModel.Gen.C10Alloc
import MgpuModel.C10
import MgpuProofs.C10Run
/-!
# C10 — the hand-written models are tied to expressions regenerated from the Go source

`lean/MgpuModel/Gen/C10Alloc.lean` is rewritten on every `./check C10` by `translate/c10.go` from the Go files
(constant blocks, straight-line arithmetic, loop headers, call arguments of the allocator, the buddy allocator,
`Distribute`, `preparePageForMigration`). Every theorem below states, for ALL arguments, that the model computes
exactly the regenerated expression. A changed constant or formula in the code changes the generated definition
and breaks the theorem that uses it — a proof obligation, not only the sampled correspondence.
Go `uint64` subtraction is read as truncated subtraction (wrap-around is outside the model, see notes).
-/
namespace C10
open Gen.C10Alloc

theorem one_shl (l : Nat) : 1 <<< l = 2 ^ l := by rw [Nat.shiftLeft_eq, Nat.one_mul]

/-- The device kinds / allocator kinds the model distinguishes are the code's constant blocks, and the model of
`step`/`run` is the allocator the code selects by default. -/
theorem tie_tables :
    deviceTypes = [("DeviceTypeInvalid", 0), ("DeviceTypeCPU", 1), ("DeviceTypeGPU", 2), ("DeviceTypeUnifiedGPU", 3)] ∧
    allocatorTypes = [("AllocatorTypeDefault", 0), ("AllocatorTypeBuddy", 1)] ∧
    defaultAllocatorType = "AllocatorTypeDefault" := by decide

/-- `NewMemoryAllocator` starts the physical space one page up, a new process starts one page up, and every page
size in the allocator and the FIFO memory state is `1 << log2PageSize` — the model's `ps`. -/
theorem tie_page_size (l : Nat) :
    newAllocTotal l = 2 ^ l ∧ firstVAddr l = 2 ^ l ∧ allocatePageSize l = 2 ^ l ∧
    allocateUnifiedPageSize l = 2 ^ l ∧ fifoPageSize l = 2 ^ l :=
  ⟨one_shl l, one_shl l, one_shl l, one_shl l, one_shl l⟩

/-- the CPU (first device) starts at `totalStorageByteSize` of a new allocator; the first pointer of a process is
`firstVAddr` -/
theorem tie_first_addresses (l cpu : Nat) :
    (initState (2 ^ l) cpu []).devs.map (·.base) = [newAllocTotal l] ∧
    (∀ pid, cursorOf (initState (2 ^ l) cpu []) pid = firstVAddr l) := by
  refine ⟨?_, fun pid => ?_⟩
  · simp [initState, registerDevice, newAllocTotal, one_shl]
  · simp [initState, registerDevice, cursorOf, lookup, firstVAddr, one_shl]

example : (initState (2 ^ 12) 8192 []).devs.map (·.base) = [4096] := by decide

/-- `Allocate` = zero check, page-count formula, `allocatePages(numPages, pid, deviceID, false)` -/
theorem tie_allocate (s : State) (pid bytes d : Nat) :
    allocate s pid bytes d =
      (if allocateZeroCheck bytes then .error .zeroBytes else allocatePages s (allocateNumPages bytes s.ps) pid d false) ∧
    allocateCall = ["int(numPages)", "pid", "deviceID", "false"] := by
  refine ⟨?_, by decide⟩
  simp [allocate, allocateZeroCheck, allocateNumPages, numPagesOf]

/-- `AllocateUnified` = the same on device 1 with the Unified flag -/
theorem tie_allocateUnified (s : State) (pid bytes : Nat) :
    allocateUnified s pid bytes =
      (if allocateUnifiedZeroCheck bytes then .error .zeroBytes
       else allocatePages s (allocateUnifiedNumPages bytes s.ps) pid 1 true) ∧
    allocateUnifiedCall = ["int(numPages)", "pid", "1", "true"] := by
  refine ⟨?_, by decide⟩
  simp [allocateUnified, allocateUnifiedZeroCheck, allocateUnifiedNumPages, numPagesOf]

example : (allocate (initState 4096 4096 [8192]) 1 0 1).toOption = none := by decide

/-- `allocatePages`: page `i` gets `nextVAddr + i*pageSize`; the cursor advances by `pageSize*numPages`; the page
count recorded is `numPages`; the inserted page carries pid, vaddr, paddr, the unified flag and the device that
owns the physical page -/
theorem tie_allocatePages {s s' : State} {n π d v : Nat} {u : Bool} (hM : MirrorWeak s.mirror s.pt)
    (h : allocatePages s n π d u = .ok (v, s')) :
    s'.pt.map key = s.pt.map key ++ (List.range n).map (fun i => (π, allocPagesVAddr v i s.ps)) ∧
    s'.cursors = (π, v + allocPagesAdvance s.ps n) :: s.cursors ∧ s'.npages = (v, n) :: s.npages ∧
    allocPagesRecord = ["numPages"] ∧
    allocPagesPageFields = ["pid", "vAddr", "pAddr", "unified", "uint64(a.deviceIDByPAddr(pAddr))"] := by
  obtain ⟨_, _, _, _, _, _, _, e8, e9, e10⟩ := allocatePages_ext hM h
  exact ⟨e10, e8, e9, by decide, by decide⟩

/-- `Free(ptr)` removes `ptr`, then the pages `ptr + i*pageSize` for `i` from 1 while `i < numPages` -/
theorem tie_free (s : State) (ptr : Nat) :
    freeVAddrs s ptr = ptr :: (List.range ((lookup s.npages ptr).getD 0 - freeLoopStart)).map
      (fun i => freePageAddr ptr (i + freeLoopStart) s.ps) ∧
    (∀ i n, freeLoopCond (i + freeLoopStart) n = true ↔ i < n - freeLoopStart) ∧ freeFirst = ["ptr"] := by
  refine ⟨rfl, ?_, by decide⟩
  intro i n
  have e : freeLoopCond (i + freeLoopStart) n = decide (i + 1 < n) := rfl
  have e1 : freeLoopStart = 1 := rfl
  rw [e, e1, decide_eq_true_eq]
  omega

/-- the list `addr, addr+ps, …` of `⌈bytes/ps⌉` elements is exactly the trace of a Go loop
`for a := addr; a < addr+bytes; a += ps` -/
theorem loop_trace {ps : Nat} (hps : 0 < ps) (addr bytes : Nat) :
    (∀ i, i < (remapVAddrs ps addr bytes).length → addr + i * ps < addr + bytes) ∧
    ¬ (addr + (remapVAddrs ps addr bytes).length * ps < addr + bytes) := by
  have hlen : (remapVAddrs ps addr bytes).length = (bytes + ps - 1) / ps := by simp [remapVAddrs]
  rw [hlen]
  have h1 := Nat.div_add_mod (bytes + ps - 1) ps
  have h2 := Nat.mod_lt (bytes + ps - 1) hps
  generalize (bytes + ps - 1) / ps = n at *
  generalize (bytes + ps - 1) % ps = r at *
  refine ⟨?_, ?_⟩
  · intro i hi
    have : (i + 1) * ps ≤ n * ps := Nat.mul_le_mul_right _ hi
    rw [Nat.add_mul, Nat.one_mul] at this
    rw [Nat.mul_comm ps n] at h1
    omega
  · rw [Nat.mul_comm ps n] at h1
    omega

/-- `Remap`: the virtual pages re-homed are exactly the values the loop variable of `Remap` takes
(`addr := pageVAddr; for addr < pageVAddr+byteSize { …; addr += pageSize }`), and they are passed on with
`(pid, deviceID, vAddrs, false)`. -/
theorem tie_remap {ps : Nat} (hps : 0 < ps) (addr bytes : Nat) :
    (∀ i, i < (remapVAddrs ps addr bytes).length →
      (remapVAddrs ps addr bytes)[i]? = some (remapStart addr + i * remapStep ps) ∧
      remapCond (remapStart addr + i * remapStep ps) addr bytes = true) ∧
    remapCond (remapStart addr + (remapVAddrs ps addr bytes).length * remapStep ps) addr bytes = false ∧
    remapCall = ["pid", "deviceID", "vAddrs", "false"] := by
  obtain ⟨h1, h2⟩ := loop_trace hps addr bytes
  refine ⟨?_, ?_, by decide⟩
  · intro i hi
    refine ⟨?_, ?_⟩
    · have hi' : i < (bytes + ps - 1) / ps := by simpa [remapVAddrs] using hi
      simp [remapVAddrs, remapStart, remapStep, hi']
    · simpa [remapCond, remapStart, remapStep] using h1 i hi
  · simpa [remapCond, remapStart, remapStep] using h2

example : remapVAddrs 4096 0x1000 8191 = [0x1000, 0x2000] := by decide

/-- The repaired loop body of `allocateMultiplePagesWithGivenVAddrs`: the allocator's record of the virtual address
is read before it is overwritten, the pages are taken from the device first, the page table is updated, and only
then — when the record exists and belongs to the calling process — the recorded physical page is handed to
`addSinglePAddr` of the device that owns it (`deviceIDByPAddr`). The model's `releaseReplaced` does exactly that:
the record of the caller's own process goes to the free list of `devOf`, anything else changes no free list. -/
theorem tie_remap_release (s : State) (π : Nat) :
    remapRelease = ["a.vAddrToPageMapping[page.VAddr]", "found&&replaced.PID==pid",
      "a.devices[a.deviceIDByPAddr(replaced.PAddr)]", "replaced.PAddr"] ∧
    remapLoopOrder = ["device.allocateMultiplePages", "a.pageTable.Update", "owner.MemState.addSinglePAddr"] ∧
    (∀ old d, old.pid = π → devOf s.devs old.paddr = some d →
      releaseReplaced s π (some old) =
        .ok { s with pool := { s.pool with frees := s.pool.frees.modify d (· ++ [old.paddr]) } }) ∧
    (∀ old, old.pid = π → devOf s.devs old.paddr = none → releaseReplaced s π (some old) = .error .noDevice) ∧
    (∀ old, old.pid ≠ π → releaseReplaced s π (some old) = .ok { s with leaked := s.leaked + 1 }) ∧
    releaseReplaced s π none = .ok { s with leaked := s.leaked + 1 } := by
  refine ⟨by decide, by decide, ?_, ?_, ?_, rfl⟩
  · intro old d hp hd
    simp [releaseReplaced, hp, hd]
  · intro old hp hd
    simp [releaseReplaced, hp, hd]
  · intro old hp
    simp [releaseReplaced, hp]

/-- **`ReleasePhysicalPage` (the repair of finding `C10-migration-keeps-replaced-page`).** The page is handed to
`addSinglePAddr` of the device whose range holds it (`deviceIDByPAddr`, which panics when no device does): the
model's `releasePage` appends it to the free list of `devOf` (ghost `leaked` − 1) and faults with `noDevice`
otherwise. The driver calls it from `processPageMigrationRspFromCP` with the frame it remembered when the migrate
command was sent (C19: `old_frame_released_full`). -/
theorem tie_release_physical_page (s : State) (p : Nat) :
    releasePhysicalPage = ["a.devices[a.deviceIDByPAddr(pAddr)]", "pAddr"] ∧
    (∀ d, devOf s.devs p = some d →
      releasePage s p = .ok { s with pool := { s.pool with frees := s.pool.frees.modify d (· ++ [p]) },
                                      leaked := s.leaked - 1 }) ∧
    (devOf s.devs p = none → releasePage s p = .error .noDevice) := by
  refine ⟨by decide, ?_, ?_⟩
  · intro d hd; simp [releasePage, hd]
  · intro hd; simp [releasePage, hd]

/-- one iteration of the model's loop reads the record with `lookup s.mirror v` BEFORE pushing the new record -/
theorem tie_remap_iteration (π : Nat) (u : Bool) (v p dev : Nat) (vs ps : List Nat) (s : State) (pt' : List Page)
    (hd : devOf s.devs p = some dev)
    (hu : ptUpdate s.pt (mkPg π v p dev u) = .ok pt') :
    remapLoop π u (v :: vs) (p :: ps) s =
      (match releaseReplaced { s with pt := pt', mirror := (v, mkPg π v p dev u) :: s.mirror } π (lookup s.mirror v) with
       | .error e => .error e
       | .ok s1 => remapLoop π u vs ps s1) := by
  simp only [remapLoop, hd, hu]
  rfl

/-- `RegisterDevice` + `deviceMemoryStateImpl.setInitialAddress`: the device starts at `totalStorageByteSize`, the
free list queued is exactly the trace of `for addr := initialAddress; addr < initialAddress+storageSize;
addr += pageSize { addSinglePAddr(addr) }`, and the total advances by the storage size. -/
theorem tie_registerDevice (s : State) (hps : 0 < s.ps) (kind : Kind) (size : Nat) (actual : List Nat) :
    (registerDevice s kind size actual).pool.frees = s.pool.frees ++ [remapVAddrs s.ps s.total size] ∧
    (∀ i, i < (remapVAddrs s.ps s.total size).length →
      fifoLoopCond (fifoLoopStart s.total + i * s.ps) (fifoEndAddr s.total size) = true) ∧
    fifoLoopCond (fifoLoopStart s.total + (remapVAddrs s.ps s.total size).length * s.ps) (fifoEndAddr s.total size) = false ∧
    (registerDevice s kind size actual).total = s.total + size ∧
    Gen.C10Alloc.registerDevice = ["a.totalStorageByteSize", "state.getStorageSize()"] ∧
    fifoLoopBody = ["dms.addSinglePAddr(addr)"] ∧
    fifoPop = ["dms.availablePAddrs[0]", "dms.availablePAddrs[1:]"] ∧ fifoPush = ["append(dms.availablePAddrs,addr)"] := by
  obtain ⟨h1, h2⟩ := loop_trace hps s.total size
  refine ⟨rfl, ?_, ?_, rfl, by decide, by decide, by decide, by decide⟩
  · intro i hi
    simpa [fifoLoopCond, fifoLoopStart, fifoEndAddr] using h1 i hi
  · simpa [fifoLoopCond, fifoLoopStart, fifoEndAddr] using h2

/-- `deviceIDByPAddr` tests `isPAddrOnDevice` -/
theorem tie_inRange (d : Dev) (p : Nat) : inRange d p = isPAddrOnDevice p d.base d.size := rfl

/-- unified devices: the GPU tried in iteration `i` and the cursor update of both allocation paths -/
theorem tie_unified (frees : List (List Nat)) (actual : List Nat) (nx : Nat) :
    selectGPU frees actual nx = (List.range actual.length).foldl (fun sel i =>
      let j := actual.getD (unifiedDevIndex nx i actual.length) 0
      if hasFree frees j then some j else sel) none ∧
    (∀ len, unifiedNextSingle nx len = (nx + 1) % len ∧ unifiedNextMulti nx len = (nx + 1) % len) ∧
    unifiedMultiDevice = ["d.ActualGPUs[d.nextActualGPUIndex]"] :=
  ⟨rfl, fun _ => ⟨rfl, rfl⟩, by decide⟩

/-- the cursor of a unified device after `allocatePage` / `allocateMultiplePages` is the regenerated expression -/
theorem tie_unified_cursor {devs : List Dev} {pool pool' : Pool} {d p : Nat} {dv : Dev}
    (hd : devs[d]? = some dv) (hk : dv.kind = .unified) (h : allocPage devs pool d = .ok (p, pool')) :
    pool'.nexts = pool.nexts.set d (unifiedNextSingle (pool.nexts.getD d 0) dv.actual.length) := by
  unfold allocPage at h
  rw [hd] at h
  simp only [hk, if_true] at h
  split at h
  · simp at h
  · split at h
    · simp at h
    · injection h with h
      obtain ⟨_, rfl⟩ := Prod.mk.inj h
      rfl

/-- `Init` / `InitWithExistingPID` select GPU 1; `SelectGPU` panics exactly when the id is not a device -/
theorem tie_contexts (s : State) :
    step s .init = .ok (.ok, { s with npid := s.npid + 1, ctxs := s.ctxs ++ [{ pid := s.npid + 1, gpu := initGPU, bufs := [] }] }) ∧
    (∀ c cx, s.ctxs[c]? = some cx →
      step s (.initpid c) = .ok (.ok, { s with ctxs := s.ctxs ++ [{ pid := cx.pid, gpu := initPidGPU, bufs := [] }] })) ∧
    (∀ c cx g, s.ctxs[c]? = some cx →
      step s (.sel c g) = if selectGPUPanic g s.devs.length then .error .selRange else .ok (.ok, setCtx s c { cx with gpu := g })) := by
  refine ⟨rfl, ?_, ?_⟩
  · intro c cx hc
    simp [step, hc, initPidGPU]
  · intro c cx g hc
    simp [step, hc, selectGPUPanic]

/-- `Driver.Distribute` + `distributorImpl.Distribute`: the single-GPU shortcut, the alignment panic and the whole
plan of `Remap` calls are the regenerated arithmetic: `numPages`, `numPagesPerGPU`, `numGPUsToUse` (computed only
when a GPU gets at least one page, capped by the number of GPUs), `remainingPages`; loop 1 re-homes
`numPagesPerGPU*pageSize` bytes at `addr + i*numPagesPerGPU*pageSize` on `gpuIDs[i]`, loop 2 one page at
`addr + (numPagesPerGPU*numGPUsToUse+i)*pageSize` on the last GPU used. -/
theorem tie_distPlan (ps addr bytes n : Nat) :
    let pages := distNumPages bytes ps
    let per := distPerGPU pages (distNumGPUs n)
    let use0 := if distUseGuard per then distUseThen pages per else distUseInit
    let use := if distCapGuard use0 (distNumGPUs n) then distUseCap (distNumGPUs n) else use0
    let rem := distRemaining pages (distNumGPUs n)
    distPlan ps addr bytes n =
      ((List.range use).map fun i => (distLoop1Addr addr i per ps, distLoop1Size per ps, i)) ++
      ((List.range rem).map fun i => (distLoop2Addr addr per use i ps, distLoop2Size ps, use - 1)) := by
  simp only [distPlan, distNumPages, distPerGPU, distNumGPUs, distUseGuard, distUseThen, distUseInit, distCapGuard,
    distUseCap, distRemaining, distLoop1Addr, distLoop1Size, distLoop2Addr, distLoop2Size, numPagesOf]
  have hmin : ∀ a b : Nat, (if decide (a > b) = true then b else a) = min a b := by
    intro a b
    by_cases h : a > b
    · simp [h, Nat.min_eq_right (Nat.le_of_lt h)]
    · simp [h, Nat.min_eq_left (Nat.le_of_not_gt h)]
  by_cases hper : ((bytes - 1) / ps + 1) / n > 0
  · simp only [hper, decide_true, if_true, hmin]
  · simp only [hper, decide_false, if_false, hmin]
    simp

theorem tie_distribute (s : State) (pid addr bytes : Nat) (ids : List Nat) :
    distribute s pid addr bytes ids =
      (if distShortcut ids.length then .ok ([bytes], s)
       else if distAlignPanic addr s.ps then .error .unaligned
       else if ids.length = 0 then .error .divzero
       else match remapAll pid ids (distPlan s.ps addr bytes ids.length) s with
         | .error e => .error e
         | .ok s' => .ok (distBytes s.ps bytes ids.length, s')) ∧
    distLoop1PidDev = ["ctx.pid", "gpuIDs[i]"] ∧ distLoop2PidDev = ["ctx.pid", "gpuIDs[lastAllocatedGPU]"] ∧
    distLast = ["i"] ∧ Gen.C10Alloc.distBytes = ["numPagesPerGPU*pageSize", "pageSize"] ∧
    distLoop1Start = 0 ∧ distLoop2Start = 0 ∧
    (∀ i k, distLoop1Cond i k = decide (i < k)) ∧ (∀ i k, distLoop2Cond i k = decide (i < k)) := by
  refine ⟨?_, by decide, by decide, by decide, by decide, rfl, rfl, fun _ _ => rfl, fun _ _ => rfl⟩
  unfold distribute
  by_cases h1 : ids.length = 1
  · simp [h1, distShortcut]
  · by_cases h2 : addr % s.ps = 0
    · simp only [h1, h2, distShortcut, distAlignPanic, decide_false, if_false, ne_eq,
        not_true_eq_false, Bool.false_eq_true]
      by_cases h3 : ids.length = 0
      · simp [h3]
      · simp only [h3, if_false]
        cases remapAll pid ids (distPlan s.ps addr bytes ids.length) s <;> rfl
    · simp [h1, h2, distShortcut, distAlignPanic]

example : distPlan 4096 0x1000 (5 * 4096) 2 = [(0x1000, 8192, 0), (0x3000, 8192, 1), (0x5000, 4096, 1)] := by decide

/-- `preparePageForMigration` allocates on device `gpuID+1` with the Unified flag and writes `gpuID+1` as the
device of the migrating page -/
theorem tie_migration {s s' : State} {pid v g : Nat} {r : Nat × Nat} (h : prepareMigration s pid v g = .ok (r, s')) :
    (∃ pg s1, allocGiven s pid (migDeviceID g) v true = .ok (pg, s1) ∧
      ptUpdate s1.pt { pg with dev := migDeviceID g, migrating := true } = .ok s'.pt) ∧
    migCall = ["context.pid", "int(gpuID+1)", "vAddr", "true"] := by
  refine ⟨?_, by decide⟩
  unfold prepareMigration at h
  split at h
  · simp at h
  · split at h
    · simp at h
    · rename_i pg s1 hg
      dsimp only at h
      split at h
      · simp at h
      · rename_i pt' hu
        injection h with h
        obtain ⟨_, rfl⟩ := Prod.mk.inj h
        exact ⟨pg, s1, hg, hu⟩

namespace Buddy

/-- the buddy allocator's hard-coded numbers: it works in 4 KiB pages whatever the driver's page size is -/
theorem tie_buddy_literals :
    buddyLiterals = ["0", "1", "12", "4096"] ∧ buddyAllocOrderStart = 12 ∧ buddyPageStep = 4096 ∧
    2 ^ buddyAllocOrderStart = buddyPageStep ∧ buddySizeOrderStart 12 = 12 ∧ buddySizeOrderSub 12 = 12 := by decide

/-- both order loops stop at the model's `ordOf`: `(1 << (12+k)) < bytes` is the negation of the model's test
`bytes ≤ 4096 * 2^k` -/
theorem tie_order_loops (k n size : Nat) :
    (buddyAllocOrderCond (buddyAllocOrderStart + k) n = true ↔ ¬ (n * 4096 ≤ 4096 * 2 ^ k)) ∧
    (buddySizeOrderCond (buddySizeOrderStart 12 + k) size = true ↔ ¬ (size ≤ 4096 * 2 ^ k)) := by
  have e : 1 <<< (12 + k) = 4096 * 2 ^ k := by rw [one_shl, Nat.pow_add]
  simp only [buddyAllocOrderCond, buddyAllocOrderStart, buddySizeOrderCond, buddySizeOrderStart, e, decide_eq_true_eq]
  omega

/-- `setStorageSize`: `order+1` free lists and two bit fields of `(1<<order)/64 + 1` words -/
theorem tie_buddy_init (base size : Nat) :
    (init base size).free.length = buddyNumLists (ordOf size) ∧
    (init base size).nbits = 64 * bitFieldWords (buddyBitFieldSize (ordOf size)) := by
  simp [init, buddyNumLists, bitFieldWords, buddyBitFieldSize, one_shl]

/-- bit `index` lives in word `index/64`, so an index is in range exactly below `64 * words` -/
theorem tie_bitfield (index words : Nat) :
    updateBitWord index = index / 64 ∧ checkBitWord index = index / 64 ∧ updateBitBit index = index % 64 ∧
    checkBitBit index = index % 64 ∧ (updateBitWord index < words ↔ index < 64 * words) := by
  refine ⟨rfl, rfl, rfl, rfl, ?_⟩
  simp only [updateBitWord]
  omega

/-- `allocateMultiplePages`: the level searched first and the merge-bit guard -/
theorem tie_alloc_level (len ord i : Nat) :
    buddyAllocLevel (buddyFreeListLen len) (buddyAllocOrderStart + ord) = len - 1 - ord ∧
    (buddyTakeMergeGuard i = true ↔ 0 < i) ∧ buddyTakeMergeArg = ["bms.indexOfBlock(block,i-1)"] ∧
    buddyLevelStart len = len - 1 := by
  refine ⟨?_, by simp [buddyTakeMergeGuard], by decide, rfl⟩
  simp only [buddyAllocLevel, buddyFreeListLen, buddyAllocOrderStart]
  omega

/-- `allocateMultiplePages`: the zero-page guard of the repaired code (`if numPages <= 0 { return nil }`) is the
guard of the model — a request for no page changes nothing, every other request runs the body -/
theorem tie_alloc_zero_guard (s : State) (n : Nat) :
    (buddyZeroGuard n = true ↔ n = 0) ∧
    allocMulti s n = (if buddyZeroGuard n then .ok ([], s) else allocMultiPos s n) := by
  refine ⟨by simp [buddyZeroGuard], ?_⟩
  by_cases h : n = 0
  · subst h; rfl
  · have : buddyZeroGuard n = false := by simp [buddyZeroGuard]; omega
    rw [this]
    simp [allocMulti, h]

/-- `sizeOfLevel`, `indexInLevelOf`, `indexOfBlock`, `buddyOf` (addresses at or above the device base; the buddy
below exists when the block is not the first of its level) -/
theorem tie_buddy_index (base size p l : Nat) (hp : base ≤ p) :
    szl size l = buddySizeOfLevel size l ∧
    idxIn base size p l = buddyIndexInLevel p base (buddySizeOfLevel size l) ∧
    indexOfBlock base size p l = buddyIndexOfBlock l (idxIn base size p l) ∧
    buddyOf base size p l = (if buddyOfCond (idxIn base size p l) then buddyOfUp p (szl size l)
      else if szl size l ≤ p then buddyOfDown p (szl size l) else usub p (szl size l)) ∧
    buddySplitIndex = ["bms.indexOfBlock(ptr,level)"] ∧ buddyMergeIndex = ["bms.indexOfBlock(ptr,level-1)"] := by
  have e1 : szl size l = buddySizeOfLevel size l := by simp [szl, buddySizeOfLevel, one_shl]
  have e2 : usub p base = p - base := by simp [usub, hp]
  refine ⟨e1, ?_, ?_, ?_, by decide, by decide⟩
  · simp [idxIn, buddyIndexInLevel, e2, e1]
  · simp [indexOfBlock, buddyIndexOfBlock, one_shl]
  · simp only [buddyOf, buddyOfCond, buddyOfUp, buddyOfDown, decide_eq_true_eq]
    split
    · rfl
    · split
      · rename_i h; simp [usub, h]
      · rfl

/-- `blockTracker.removePage`: the block is released exactly when the last page comes back -/
theorem tie_tracker (num : Nat) (h : 1 ≤ num) : trackerDone (num - 1) = true ↔ num = 1 := by
  simp only [trackerDone, decide_eq_true_eq]
  omega

/-- **Both initialisation orders give the same device**: `setStorageSize` then `setInitialAddress` (what
`RegisterGPU` does) and `setInitialAddress` then `setStorageSize` (the `initFlag` path) both yield the model's
`init base size` — one whole-device block at level 0, empty bit fields, no tracker. -/
theorem init_order (base size : Nat) : initFwd base size = init base size ∧ initRev base size = init base size := by
  constructor
  · simp [initFwd, init, setInitialAddress, setStorageSize, raw0, Raw.toState, setLvl, lvl, List.replicate_succ]
  · simp [initRev, init, setInitialAddress, setStorageSize, raw0, Raw.toState, setLvl, lvl, List.replicate_succ]

example : (initRev 0x5000 (4096 * 8)).free = [[0x5000], [], [], []] := by decide

end Buddy
end C10
