import MgpuModel.C08
/-! # C08 — object identity: every work-group / wavefront object is handed out once

`nextObj` / `objRun` (`MgpuModel/C08_Obj.lean`) model `NextWG()` on any number of grid builders that
share the global ID generator: one UID per call for the work-group (also when the call returns nil)
and one per wavefront. The case lines `c08 obj` compare the UIDs with the real ones; the harness
checks pointer identity, back pointers and carried launch fields on the real objects. -/
namespace C08

/-- one call: the generator moves forward, the UIDs of the produced object are the consecutive
    numbers in between, the group's own UID first -/
theorem nextObj_uids (b : Bld) (c : Nat) :
    c < (nextObj b c).2.2 ∧
    ∀ o, (nextObj b c).1 = some o →
      o.uid = c ∧ o.uids = List.range' c ((nextObj b c).2.2 - c) := by
  unfold nextObj
  split
  · exact ⟨Nat.lt_succ_self c, fun o h => by simp at h⟩
  · rename_i wg cur' _
    refine ⟨by simp only; omega, ?_⟩
    intro o h
    simp only [Option.some.injEq] at h
    subst h
    refine ⟨rfl, ?_⟩
    simp only [ObjWG.uids]
    generalize (formWfs b.g.wx b.g.wy (spawn wg.sz)).length = n
    have e : c + 1 + n - c = n + 1 := by omega
    rw [e, List.range'_succ]
    congr 1
    rw [List.range_eq_range', List.map_add_range']

theorem mem_range'_iff (c n u : Nat) : u ∈ List.range' c n ↔ c ≤ u ∧ u < c + n := by
  simp [List.mem_range'_1]

/-- all UIDs handed out from generator position `c` on lie in `[c, c')` and are pairwise different -/
theorem objRun_fresh : ∀ (calls : List Nat) (bs : Array Bld) (c : Nat),
    c ≤ (objRun calls bs c).2.2 ∧
    (∀ o ∈ (objRun calls bs c).1.filterMap id, ∀ u ∈ o.uids, c ≤ u ∧ u < (objRun calls bs c).2.2) ∧
    (((objRun calls bs c).1.filterMap id).flatMap ObjWG.uids).Nodup := by
  intro calls
  induction calls with
  | nil => intro bs c; simp [objRun]
  | cons i is ih =>
    intro bs c
    unfold objRun
    split
    · exact ih bs c
    · rename_i b _
      obtain ⟨hlt, hu⟩ := nextObj_uids b c
      obtain ⟨h1, h2, h3⟩ := ih (bs.setIfInBounds i (nextObj b c).2.1) (nextObj b c).2.2
      simp only
      refine ⟨by omega, ?_, ?_⟩
      · intro o ho u hu'
        cases hobj : (nextObj b c).1 with
        | none =>
          rw [hobj] at ho
          simp only [List.filterMap_cons, id_eq] at ho
          have := h2 o ho u hu'
          omega
        | some o0 =>
          rw [hobj] at ho
          simp only [List.filterMap_cons, id_eq, List.mem_cons] at ho
          rcases ho with rfl | ho
          · rw [(hu _ hobj).2, mem_range'_iff] at hu'
            omega
          · have := h2 o ho u hu'
            omega
      · cases hobj : (nextObj b c).1 with
        | none => simp only [List.filterMap_cons, id_eq]; exact h3
        | some o0 =>
          simp only [List.filterMap_cons, id_eq, List.flatMap_cons]
          rw [List.nodup_append]
          refine ⟨?_, h3, ?_⟩
          · rw [(hu _ hobj).2]; exact List.nodup_range'
          · intro u hu1 v hv2 e
            subst e
            rw [(hu _ hobj).2, mem_range'_iff] at hu1
            obtain ⟨o, ho, huo⟩ := List.mem_flatMap.mp hv2
            have := h2 o ho u huo
            omega

/-- **objects_fresh.** For any number of grid builders on any geometries / filters sharing the ID
    generator, and any interleaving of `NextWG()` calls on them (this is what the partition
    algorithm, the round-robin algorithm and several dispatchers do): the UIDs of all work-groups
    and wavefronts handed out are pairwise different — no object is handed out twice, two groups
    with the same coordinates from different builders are different objects, and no wavefront
    belongs to two groups. -/
theorem objects_fresh (calls : List Nat) (bs : Array Bld) (c : Nat) :
    (((objRun calls bs c).1.filterMap id).flatMap ObjWG.uids).Nodup :=
  (objRun_fresh calls bs c).2.2

/-- **object_is_its_group.** A produced object carries exactly the work-group the cursor model
    yields, one wavefront UID per wavefront of `formWavefronts`, and (for wavefronts) UIDs directly
    after the group's own. -/
theorem object_is_its_group (b : Bld) (c : Nat) (o : ObjWG) (h : (nextObj b c).1 = some o) :
    (∃ cur', nextWGf b.g b.p (b.g.total + 1) b.cur = some (o.wg, cur') ∧ (nextObj b c).2.1.cur = cur') ∧
    o.wfs.length = (formWfs b.g.wx b.g.wy (spawn o.wg.sz)).length ∧ o.uid = c := by
  unfold nextObj at h ⊢
  split at h
  · simp at h
  · rename_i wg cur' heq
    simp only [Option.some.injEq] at h
    subst h
    rw [heq]
    exact ⟨⟨cur', rfl, rfl⟩, by simp, rfl⟩

/-- a `nil` call still draws a UID (the work-group object is allocated before the loop) -/
theorem nil_call_draws_uid (b : Bld) (c : Nat) (h : (nextObj b c).1 = none) :
    (nextObj b c).2.2 = c + 1 ∧ (nextObj b c).2.1.cur = b.cur := by
  unfold nextObj at h ⊢
  split
  · exact ⟨rfl, rfl⟩
  · rename_i heq; rw [heq] at h; simp at h

/-- non-vacuity: two builders on a 10-item grid with 4-item groups, interleaved -/
example : let bs : Array Bld := #[⟨⟨10, 1, 1, 4, 1, 1⟩, fun _ => true, ⟨0, 0, 0⟩⟩, ⟨⟨10, 1, 1, 4, 1, 1⟩, fun _ => true, ⟨0, 0, 0⟩⟩]
    ((objRun [0, 1, 1, 0] bs 0).1.filterMap id).map (fun o => (o.wg.id.1, o.uid, o.wfs)) =
      [(0, 0, [1]), (0, 2, [3]), (1, 4, [5]), (1, 6, [7])] := by decide +kernel

end C08
