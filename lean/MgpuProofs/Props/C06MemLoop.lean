import MgpuProofs.C06MemLoop
import MgpuProofs.Props.C06Mem
/-! # C06 — the DS / FLAT handlers AS GO RUNS THEM are instances of the lane skeleton

`goMemRun` (`MgpuModel/C06_Deep.lean`) is the Go loop of a DS / FLAT handler: lanes in order on one mutable
register file / memory / access log, the staging array `var buf [N]byte` declared OUTSIDE the loop and carried
from lane to lane, the real loop variable handed to the body, a `log.Panicf` of a body aborting the loop.
`vexec h.toHandler` is the generic skeleton instance every C06 theorem (`seq_eq_par`, `inactive_lanes_*`,
`lane_independent`, …) talks about; it gives every body a zeroed staging array and lane index 0. The theorems
here close that gap for every translated handler (`Gen.Lane.memHandlers`), using `memory_bodies_uniform`. -/
namespace C06
open Gen.Lane

private def exOps : MemOps :=
  { addrReg := 0, addrN := 1, dataReg := 1, data1Reg := 2, dstReg := 3, uni := ⟨0#32, 1#32, false, 0#64, 64#64⟩ }

/-- lane `l` addresses LDS byte `8 * l` -/
private def exSt : VState :=
  { vgpr := fun l r => if r = 0 then 8 * l else 7, cin := fun _ => false, mout := fun _ => false, mem := fun _ => 1, log := [] }

/-- **A DS / FLAT handler that does not panic IS the skeleton instance**: the register file, the memory / LDS
    and the access log the Go loop leaves — lanes in order on one mutable state, one staging array reused by
    every lane, whatever it held on entry — are those of `vexec h.toHandler`. Hence everything proved about
    `vexec` ("vector lanes are independent and obey EXEC": `seq_eq_par`, `inactive_lanes_unchanged`,
    `inactive_lanes_no_access`, `lane_independent`) holds of the loop as written, for every translated handler. -/
theorem mem_handler_is_vexec (h : MemHandler) (hm : h ∈ Gen.Lane.memHandlers) (ops : MemOps) (exec : BitVec 64)
    (s : VState) (stage0 : Bytes) (hlen : stage0.length = h.stageLen)
    (hnf : (goMemRun h ops exec s stage0).fault = false) :
    (goMemRun h ops exec s stage0).vgpr = (vexec h.toHandler ops exec s).vgpr ∧
    (goMemRun h ops exec s stage0).mem = (vexec h.toHandler ops exec s).mem ∧
    (goMemRun h ops exec s stage0).log = (vexec h.toHandler ops exec s).log :=
  (goMemLoop_sim h (memory_bodies_uniform h hm) ops exec s stage0 hlen 64 (Nat.le_refl _)).2 hnf

example : mh_gcn3_runDSWRITEB32 ∈ Gen.Lane.memHandlers ∧
    ([] : Bytes).length = mh_gcn3_runDSWRITEB32.stageLen ∧
    (goMemRun mh_gcn3_runDSWRITEB32 exOps 0x5#64 exSt []).fault = false ∧
    (goMemRun mh_gcn3_runDSWRITEB32 exOps 0x5#64 exSt []).mem 16 = 7 ∧
    (goMemRun mh_gcn3_runDSWRITEB32 exOps 0x5#64 exSt []).mem 8 = 1 := by
  refine ⟨by simp [Gen.Lane.memHandlers], rfl, by decide +kernel, by decide +kernel, by decide +kernel⟩

/-- a handler WITH a staging array (8 bytes), entered with garbage in it -/
example : mh_cdna3_runDSREAD2B32 ∈ Gen.Lane.memHandlers ∧
    (List.replicate 8 0xff#8).length = mh_cdna3_runDSREAD2B32.stageLen ∧
    (goMemRun mh_cdna3_runDSREAD2B32 exOps 0x5#64 exSt (List.replicate 8 0xff#8)).fault = false := by
  refine ⟨by simp [Gen.Lane.memHandlers], rfl, by decide +kernel⟩

/-- **An aborted instruction is the instruction restricted to the lanes below the aborting one**: when a
    lane body panics (CDNA3 LDS bounds checks), there is an ACTIVE lane `k` such that what the Go loop leaves
    is exactly `vexec` under `EXEC & ((1<<k)-1)` (`execBelow exec k`). The lanes below `k` ran independently and
    obeying EXEC, lane `k` and the lanes above it did nothing — no half-executed lane, no effect of the
    panicking body, no access by an inactive lane. -/
theorem mem_abort_is_prefix (h : MemHandler) (hm : h ∈ Gen.Lane.memHandlers) (ops : MemOps) (exec : BitVec 64)
    (s : VState) (stage0 : Bytes) (hlen : stage0.length = h.stageLen)
    (hf : (goMemRun h ops exec s stage0).fault = true) :
    ∃ k, k < 64 ∧ exec.getLsbD k = true ∧
      (goMemRun h ops exec s stage0).vgpr = (vexec h.toHandler ops (execBelow exec k) s).vgpr ∧
      (goMemRun h ops exec s stage0).mem = (vexec h.toHandler ops (execBelow exec k) s).mem ∧
      (goMemRun h ops exec s stage0).log = (vexec h.toHandler ops (execBelow exec k) s).log := by
  obtain ⟨k, hk, hek, _, hv, hmm, hl, _, h6, h7, h8⟩ :=
    goMemLoop_fault_prefix h (memory_bodies_uniform h hm) ops exec s stage0 hlen 64 (Nat.le_refl _) hf
  refine ⟨k, hk, hek, ?_, ?_, ?_⟩
  · rw [vexec_execBelow _ _ _ _ (by omega), prologue_toHandler]; exact h6.trans hv
  · rw [vexec_execBelow _ _ _ _ (by omega), prologue_toHandler]; exact h7.trans hmm
  · rw [vexec_execBelow _ _ _ _ (by omega), prologue_toHandler]; exact h8.trans hl

/-- the aborting lane, the panicking body and the state it panicked on, spelled out (what `mem_abort_is_prefix`
    is derived from): lane `k` is active, the loop had not faulted before it, its body faults on the state the
    skeleton reaches after `k` lanes, and the final state is that state -/
theorem mem_abort_witness (h : MemHandler) (hm : h ∈ Gen.Lane.memHandlers) (ops : MemOps) (exec : BitVec 64)
    (s : VState) (stage0 : Bytes) (hlen : stage0.length = h.stageLen)
    (hf : (goMemRun h ops exec s stage0).fault = true) :
    ∃ k, k < 64 ∧ exec.getLsbD k = true ∧
      (goMemLoop h ops exec k ⟨s.vgpr, s.mem, s.log, stage0, false⟩).fault = false ∧
      (h.raw ops.uni ((goMemLoop h ops exec k ⟨s.vgpr, s.mem, s.log, stage0, false⟩).rawIn ops k)).fault = true ∧
      (goMemRun h ops exec s stage0).vgpr = (seqLoop h.toHandler ops (fun i => exec.getLsbD i) k s).vgpr ∧
      (goMemRun h ops exec s stage0).mem = (seqLoop h.toHandler ops (fun i => exec.getLsbD i) k s).mem ∧
      (goMemRun h ops exec s stage0).log = (seqLoop h.toHandler ops (fun i => exec.getLsbD i) k s).log := by
  obtain ⟨k, hk, hek, h1, hv, hmm, hl, h5, h6, h7, h8⟩ :=
    goMemLoop_fault_prefix h (memory_bodies_uniform h hm) ops exec s stage0 hlen 64 (Nat.le_refl _) hf
  exact ⟨k, hk, hek, h1, h5, h6.trans hv, h7.trans hmm, h8.trans hl⟩

/-- `len(lds) = 16`: lanes 0 and 1 (LDS bytes 0..7, 8..15 with offset1 = 1 → second dword at +4) fit, lane 2
    does not — the loop aborts -/
private def exOpsSmall : MemOps := { exOps with uni := ⟨0#32, 1#32, false, 0#64, 16#64⟩ }

example : mh_cdna3_runDSREAD2B32 ∈ Gen.Lane.memHandlers ∧
    (List.replicate 8 0#8).length = mh_cdna3_runDSREAD2B32.stageLen ∧
    (goMemRun mh_cdna3_runDSREAD2B32 exOpsSmall 0x7#64 exSt (List.replicate 8 0#8)).fault = true ∧
    execBelow 0x7#64 2 = 0x3#64 ∧
    (goMemRun mh_cdna3_runDSREAD2B32 exOpsSmall 0x7#64 exSt (List.replicate 8 0#8)).vgpr 1 3 = 0x01010101 ∧
    (goMemRun mh_cdna3_runDSREAD2B32 exOpsSmall 0x7#64 exSt (List.replicate 8 0#8)).vgpr 2 3 = 7 := by
  refine ⟨by simp [Gen.Lane.memHandlers], rfl, by decide +kernel, by decide +kernel, by decide +kernel, by decide +kernel⟩

/-- **Lanes whose EXEC bit is clear keep all their vector registers — in the Go loop as written** (corollary
    of `mem_handler_is_vexec` and `inactive_lanes_unchanged`). -/
theorem go_mem_inactive_lanes (h : MemHandler) (hm : h ∈ Gen.Lane.memHandlers) (ops : MemOps) (exec : BitVec 64)
    (s : VState) (stage0 : Bytes) (hlen : stage0.length = h.stageLen)
    (hnf : (goMemRun h ops exec s stage0).fault = false) (l : Nat) (hl : exec.getLsbD l = false) :
    (goMemRun h ops exec s stage0).vgpr l = s.vgpr l := by
  rw [(mem_handler_is_vexec h hm ops exec s stage0 hlen hnf).1]
  exact (inactive_lanes_unchanged h.toHandler ops exec s (memory_handlers_instantiate h hm) l hl).1

example : (0x5#64).getLsbD 1 = false ∧
    (goMemRun mh_cdna3_runDSREAD2B32 exOps 0x5#64 exSt (List.replicate 8 0xff#8)).vgpr 1 3 = 7 ∧
    (goMemRun mh_cdna3_runDSREAD2B32 exOps 0x5#64 exSt (List.replicate 8 0xff#8)).vgpr 2 3 = 0x01010101 := by
  refine ⟨by decide +kernel, by decide +kernel, by decide +kernel⟩

/-- **Every access the Go loop logs is made by a lane below 64 whose EXEC bit is set** — the log only grows,
    and inactive lanes touch neither LDS nor memory (corollary of `mem_handler_is_vexec` and
    `memory_inactive_lanes_no_access`). -/
theorem go_mem_accesses_by_active_lanes (h : MemHandler) (hm : h ∈ Gen.Lane.memHandlers) (ops : MemOps)
    (exec : BitVec 64) (s : VState) (stage0 : Bytes) (hlen : stage0.length = h.stageLen)
    (hnf : (goMemRun h ops exec s stage0).fault = false) :
    ∃ new, (goMemRun h ops exec s stage0).log = s.log ++ new ∧ ∀ a ∈ new, a.lane < 64 ∧ exec.getLsbD a.lane = true := by
  obtain ⟨new, h1, h2, _⟩ := memory_inactive_lanes_no_access h hm ops exec s
  exact ⟨new, (mem_handler_is_vexec h hm ops exec s stage0 hlen hnf).2.2.trans h1, h2⟩

example : (goMemRun mh_cdna3_runDSREAD2B32 exOps 0x5#64 exSt (List.replicate 8 0xff#8)).log.map
      (fun a => (a.lane, a.isWrite, a.addr, a.len))
    = [(0, false, 0, 4), (0, false, 4, 4), (2, false, 16, 4), (2, false, 20, 4)] := by decide +kernel

/-- the same for an ABORTED instruction: the accesses logged before the panic are made by active lanes (below
    the aborting one) -/
theorem go_mem_abort_accesses_by_active_lanes (h : MemHandler) (hm : h ∈ Gen.Lane.memHandlers) (ops : MemOps)
    (exec : BitVec 64) (s : VState) (stage0 : Bytes) (hlen : stage0.length = h.stageLen)
    (hf : (goMemRun h ops exec s stage0).fault = true) :
    ∃ k, k < 64 ∧ exec.getLsbD k = true ∧ ∃ new, (goMemRun h ops exec s stage0).log = s.log ++ new ∧
      ∀ a ∈ new, a.lane < k ∧ exec.getLsbD a.lane = true := by
  obtain ⟨k, hk, hek, _, _, hl⟩ := mem_abort_is_prefix h hm ops exec s stage0 hlen hf
  obtain ⟨new, h1, h2, _⟩ := memory_inactive_lanes_no_access h hm ops (execBelow exec k) s
  refine ⟨k, hk, hek, new, hl.trans h1, ?_⟩
  intro a ha
  have := (h2 a ha).2
  rw [execBelow_getLsbD exec k (by omega)] at this
  simpa using this

/-- **What the staging array holds on entry is invisible**: two runs of the Go loop that differ only in the
    initial contents of `var buf [N]byte` (what an earlier instruction — or, lane by lane, an earlier lane —
    left there) panic or not alike and leave the same registers, memory and access log. So the one array shared
    by all 64 lanes is not a channel between lanes. -/
theorem go_mem_stage_independent (h : MemHandler) (hm : h ∈ Gen.Lane.memHandlers) (ops : MemOps) (exec : BitVec 64)
    (s : VState) (st1 st2 : Bytes) (h1 : st1.length = h.stageLen) (h2 : st2.length = h.stageLen) :
    (goMemRun h ops exec s st1).fault = (goMemRun h ops exec s st2).fault ∧
    (goMemRun h ops exec s st1).vgpr = (goMemRun h ops exec s st2).vgpr ∧
    (goMemRun h ops exec s st1).mem = (goMemRun h ops exec s st2).mem ∧
    (goMemRun h ops exec s st1).log = (goMemRun h ops exec s st2).log := by
  unfold goMemRun
  exact goMemLoop_stage_indep h (memory_bodies_uniform h hm) ops exec
    ⟨s.vgpr, s.mem, s.log, st1, false⟩ ⟨s.vgpr, s.mem, s.log, st2, false⟩ h1 h2 rfl rfl rfl rfl 64

example : (List.replicate 8 0xff#8).length = mh_cdna3_runDSREAD2B32.stageLen ∧
    (List.replicate 8 0#8).length = mh_cdna3_runDSREAD2B32.stageLen ∧
    (goMemRun mh_cdna3_runDSREAD2B32 exOps 0x5#64 exSt (List.replicate 8 0xff#8)).stage
      ≠ List.replicate 8 0xff#8 := by
  refine ⟨rfl, rfl, by decide +kernel⟩

end C06
