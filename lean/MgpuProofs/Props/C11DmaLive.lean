import MgpuProofs.Props.C11
import MgpuProofs.C11DmaLive
/-! # C11 — the DMA engine: liveness (property theorems)

`Props/C11.lean` proves safety of the tick-exact model of `DMAEngine.Tick` (`MgpuModel/C11Core.lean`:
`Dma.sendCP / sendMem / parseFromMem / parseFromCP`, environment `Env`, `EnvOp`). This file is about
liveness: is every copy request the engine received eventually completed, and its completion collected
by the command processor, under EVERY fair schedule of the environment (`DmaFair`: the engine ticks,
the memory side takes transactions from ToMem and answers outstanding ones — any one, in any order —,
the CP side drains ToCP; each again and again, in any interleaving)?

The statement at full strength (`dma_all_complete_full`) is FALSE, in the model and in the code: a copy
request of 0 bytes is cut into no transaction, its collection starts with `count = 0`, and since a
collection is finished only by the response that brings its count to 0, it is never finished — and it
occupies one of the `maxRequestCount` slots for ever (`dma_all_complete_full_refuted`,
`dma_zero_length_copies_leak_slots`). For states all of whose received copies are non-empty the
statement holds (`dma_fair_all_complete`). The argument is a measure (`dmaMeasure`: a queued copy
`5·pieces + 4`, a transaction 5 → 4 → 3 → 2 → 0 on its way toSendToMem → ToMem → memory → answer →
parsed, a collection 3, a completion 2 → 1 → 0) that every move either leaves alone — and then the move
changed NOTHING — or decreases, plus absence of deadlock. -/
namespace C11

/-- two copies waiting in the CP port (H2D of 7 bytes at 6 → 3 transactions of ≤ 4 bytes, D2H of 3 bytes) -/
def dmaDemo : Env := reach 2 2 4 [.copy .h2d 6 7, .copy .d2h 17 3]

/-- back-pressure everywhere: one copy in processing at a time, ToMem holds one transaction -/
def dmaTight : Env := reach 2 1 1 [.copy .h2d 6 7, .copy .d2h 17 3, .copy .h2d 0 9]

/-- a zero-length copy, parsed: its collection waits for a response that will never come -/
def dmaZero : Env := reach 2 2 4 [.copy .h2d 6 0, .tick]

/-- two zero-length copies parsed (`maxRequestCount = 2`), a non-empty copy behind them -/
def dmaLeak : Env := reach 2 2 4 [.copy .h2d 6 0, .copy .d2h 9 0, .copy .d2h 17 3, .tick, .tick, .tick]

/-! ## the statement at full strength is false -/

/-- **Liveness at full strength:** from every state reachable without injected responses, with room
    for at least one copy in processing and one transaction in ToMem, under every fair schedule,
    eventually the engine is quiet and every received copy has been completed and collected. -/
def dma_all_complete_full : Prop :=
  ∀ (log2 maxReq memCap : Nat) (ops : List EnvOp), (∀ op ∈ ops, op.isInject = false) → 1 ≤ maxReq → 1 ≤ memCap →
  ∀ σ : Nat → EnvOp, DmaFair σ →
    ∃ N, ∀ M ≥ N,
      let e := dmaRunSched (reach log2 maxReq memCap ops) σ M
      e.quiet ∧ ∀ r ∈ e.cps, r.id ∈ e.drained

/-- **A zero-length copy never completes.** Once `parseFromCP` has taken a copy request of 0 bytes
    (`dmaZero`), under every fair schedule the state stays exactly as it is: the collection (no
    sub-requests, `count = 0`) stays in `processing`, the copy's id is never emitted. In the code:
    `parseMemCopyH2D/D2H` create no request for `len = 0`, and `removeReqFromCollection` — the only place
    that finishes a collection — is never called for it. -/
theorem dma_zero_length_copy_never_completes (σ : Nat → EnvOp) (hσ : DmaFair σ) (M : Nat) :
    dmaRunSched dmaZero σ M = dmaZero ∧ ¬ (dmaRunSched dmaZero σ M).quiet ∧
    0 ∉ (dmaRunSched dmaZero σ M).drained := by
  have h := dmaRunSched_stuck (e := dmaZero) (by decide +kernel) (by decide +kernel) (by decide +kernel)
    (by decide +kernel) hσ.1 M
  rw [h]
  exact ⟨rfl, by decide +kernel, by decide +kernel⟩

example : dmaZero.s.processing = [⟨⟨0, .h2d, 6, 0⟩, [], 0⟩] ∧ dmaZero.cps = [⟨0, .h2d, 6, 0⟩] ∧
    dmaZero.s.fault = none ∧ dmaRunSched dmaZero dmaRoundRobin 40 = dmaZero := by decide +kernel

/-- **Refuted:** the full statement fails for the reachable state `dmaZero` and the round-robin schedule. -/
theorem dma_all_complete_full_refuted : ¬ dma_all_complete_full := by
  intro h
  obtain ⟨N, hN⟩ := h 2 2 4 [.copy .h2d 6 0, .tick] (by decide) (by decide) (by decide) dmaRoundRobin
    dmaRoundRobin_fair
  exact (dma_zero_length_copy_never_completes dmaRoundRobin dmaRoundRobin_fair N).2.1 (hN N (Nat.le_refl _)).1

/-- **Zero-length copies leak `maxRequestCount` slots:** with `maxRequestCount = 2` and two zero-length
    copies parsed, a later NON-empty copy (id 2, D2H of 3 bytes) waits in the CP port for ever — under
    every fair schedule the state stays as it is (`parseFromCP`: `len(processing) ≥ maxRequestCount`). -/
theorem dma_zero_length_copies_leak_slots (σ : Nat → EnvOp) (hσ : DmaFair σ) (M : Nat) :
    dmaRunSched dmaLeak σ M = dmaLeak ∧ (dmaRunSched dmaLeak σ M).s.cpIn = [⟨2, .d2h, 17, 3⟩] ∧
    (dmaRunSched dmaLeak σ M).s.processing.length = 2 ∧ 2 ∉ (dmaRunSched dmaLeak σ M).drained := by
  have h := dmaRunSched_stuck (e := dmaLeak) (by decide +kernel) (by decide +kernel) (by decide +kernel)
    (by decide +kernel) hσ.1 M
  rw [h]
  exact ⟨rfl, by decide +kernel, by decide +kernel, by decide +kernel⟩

example : dmaLeak.s.processing.map (·.count) = [0, 0] ∧ dmaLeak.s.maxReq = 2 ∧
    dmaRunSched dmaLeak dmaRoundRobin 40 = dmaLeak := by decide +kernel

/-! ## measure, productive moves, deadlock -/

/-- **Every move other than a new copy request / an injected response leaves the state untouched or
    decreases the measure** — for EVERY state of the engine and its environment (reachable or not,
    faulted or not): a tick (`sendToCP`, `sendToMem`, `parseFromMem`, `parseFromCP`), the memory side
    taking `k` transactions, answering the `j`-th outstanding one, the CP side draining. Either the whole
    state is exactly as before, or `dmaMeasure` is strictly smaller: the engine cannot spin. -/
theorem dma_measure_decreases (e : Env) (op : EnvOp) (hop : op.isInput = false) :
    e.step op = e ∨ dmaMeasure (e.step op) < dmaMeasure e :=
  dstep_prog e op hop

/-- the measure along the first round-robin moves of `dmaDemo`: the first tick parses the first copy
    (19 → 3·5 + 3); take / respond / drain find nothing yet (no-ops); the next tick sends a transaction and
    parses the second copy -/
example : (List.range 7).map (fun i => dmaMeasure (dmaRunSched dmaDemo dmaRoundRobin i)) =
      [28, 27, 27, 27, 27, 25, 24] ∧
    (dmaRunSched dmaDemo dmaRoundRobin 1).step (.take 1) = dmaRunSched dmaDemo dmaRoundRobin 1 := by
  decide +kernel

/-- **The number of productive moves is bounded:** in any finite run of moves that feed nothing new into
    the engine, from ANY state, at most `dmaMeasure` of the start moves change the state. -/
theorem dma_productive_moves_bounded (e : Env) (l : List EnvOp) (hl : ∀ op ∈ l, op.isInput = false) :
    dmaProductive e l ≤ dmaMeasure e :=
  dma_productive_le l hl e

example : dmaProductive dmaDemo ((List.range 60).map dmaRoundRobin) = 17 ∧ dmaMeasure dmaDemo = 28 ∧
    dmaProductive dmaTight ((List.range 150).map dmaRoundRobin) = 29 ∧ dmaMeasure dmaTight = 47 := by
  decide +kernel

/-- **No deadlock** (non-empty copies). At most `maxReq ≥ 1` copies in processing, ToMem's buffers hold
    `memCap ≥ 1` messages, no injected response, and every copy received so far has `0 < len`. If in such
    a reachable state none of the four kinds of move changes anything — a tick, the memory side trying to
    take a transaction, trying to answer one, the CP side draining — then the engine is quiet, has not
    faulted, and the completions collected are a permutation of the ids of the copies received: every
    copy completed exactly once. A collection in processing still waits for a transaction
    (`count > 0`), that transaction is pending, and a pending transaction is in flight somewhere
    (toSendToMem, ToMem, memory, answer), so some move would change the state. -/
theorem dma_no_deadlock (log2 maxReq memCap : Nat) (ops : List EnvOp) (hops : ∀ op ∈ ops, op.isInject = false)
    (h1 : 1 ≤ maxReq) (h2 : 1 ≤ memCap) :
    let e := reach log2 maxReq memCap ops
    (∀ r ∈ e.cps, 0 < r.len) →
    e.step .tick = e → e.step (.take 1) = e → e.step (.respond 0) = e → e.step .drain = e →
    e.quiet ∧ e.s.fault = none ∧ e.drained.Perm (e.cps.map (·.id)) := by
  intro e hlen n1 n2 n3 n4
  have hl : e.Live := init_run_live log2 maxReq memCap ops hops
  have hc := init_run_cfg log2 maxReq memCap ops
  have hq := dma_no_deadlock_live hl hlen (by rw [show e.s.maxReq = maxReq from hc.1]; exact h1)
    (by rw [show e.s.memCap = memCap from hc.2]; exact h2) n1 n2 n3 n4
  exact ⟨hq, hl.flow.nofault, hl.quiet_perm hq⟩

/-- the four no-op hypotheses hold together in a state with history (28 round-robin moves after `dmaDemo`),
    and fail in `dmaDemo` itself; in `dmaZero` they hold although the state is not quiet — the hypothesis
    `0 < len` cannot be dropped -/
example :
    let e := dmaRunSched dmaDemo dmaRoundRobin 28
    (e.step .tick = e ∧ e.step (.take 1) = e ∧ e.step (.respond 0) = e ∧ e.step .drain = e) ∧
    e.cps.length = 2 ∧ dmaDemo.step .tick ≠ dmaDemo ∧
    (dmaZero.step .tick = dmaZero ∧ dmaZero.step (.take 1) = dmaZero ∧ dmaZero.step (.respond 0) = dmaZero ∧
      dmaZero.step .drain = dmaZero ∧ ¬ dmaZero.quiet) := by decide +kernel

/-- **A quiet state stays quiet** while nothing new is fed into the engine. -/
theorem dma_quiet_stays_quiet (e : Env) (hq : e.quiet) (op : EnvOp) (hop : op.isInput = false) : e.step op = e :=
  quiet_dstep hq op hop

example : (dmaRunSched dmaDemo dmaRoundRobin 28).quiet ∧ ¬ (dmaRunSched dmaDemo dmaRoundRobin 27).quiet := by
  decide +kernel

/-- the round-robin schedule (tick, take 1, answer the oldest, drain, …) is fair: `DmaFair` is satisfiable -/
theorem dma_round_robin_fair : DmaFair dmaRoundRobin := dmaRoundRobin_fair

example : (List.range 5).map (fun i => (dmaRoundRobin i).isInput) = [false, false, false, false, false] ∧
    dmaProductive dmaDemo [dmaRoundRobin 0, dmaRoundRobin 1, dmaRoundRobin 2, dmaRoundRobin 3, dmaRoundRobin 4] = 2 := by
  decide +kernel

/-! ## liveness for non-empty copies -/

/-- **Liveness: every non-empty copy eventually completes, under every fair schedule.** The engine can
    process at least one copy at a time and ToMem's buffers hold at least one message. Start in ANY state
    reachable without injected responses (any history `ops`: copies queued, half answered, answers waiting
    in ToMem, completions waiting for the CP side, …) in which every copy received so far is non-empty,
    and let the environment follow ANY fair schedule `σ` that feeds nothing new. Then from some point `N`
    on, for ever: nothing is queued, in processing, in flight or waiting to be collected (`quiet`), the
    engine has not faulted, no copy was added, and the completions the CP side has collected are a
    permutation of the ids of the copies received — every copy completed and was collected exactly once.
    The hypothesis `0 < len` is what `dma_all_complete_full` lacks; inside the closed copy system it holds,
    because the driver cuts a copy into page pieces that are never empty (`pieces_piece` in
    `MgpuProofs/C11SysArith.lean`: `0 < p.2.2`). -/
theorem dma_fair_all_complete (log2 maxReq memCap : Nat) (ops : List EnvOp) (hops : ∀ op ∈ ops, op.isInject = false)
    (h1 : 1 ≤ maxReq) (h2 : 1 ≤ memCap) (hlen : ∀ r ∈ (reach log2 maxReq memCap ops).cps, 0 < r.len)
    (σ : Nat → EnvOp) (hσ : DmaFair σ) :
    ∃ N, ∀ M ≥ N,
      let e := dmaRunSched (reach log2 maxReq memCap ops) σ M
      e.quiet ∧ e.s.fault = none ∧ e.cps = (reach log2 maxReq memCap ops).cps ∧
      e.drained.Perm (e.cps.map (·.id)) := by
  have hl : (reach log2 maxReq memCap ops).Live := init_run_live log2 maxReq memCap ops hops
  have hc := init_run_cfg log2 maxReq memCap ops
  obtain ⟨N, hN⟩ := dma_live_fair_complete hσ hl hlen
    (by rw [show (reach log2 maxReq memCap ops).s.maxReq = maxReq from hc.1]; exact h1)
    (by rw [show (reach log2 maxReq memCap ops).s.memCap = memCap from hc.2]; exact h2)
  refine ⟨N, fun M hM => ?_⟩
  obtain ⟨a, b, c, d⟩ := hN M hM
  exact ⟨a, b, c, by rw [c]; exact d⟩

/-- the round-robin schedule from `dmaDemo`: quiet for the first time after 28 moves, both completions
    collected; under back-pressure (`dmaTight`: one copy at a time, one-entry ToMem buffers, three copies)
    after 48 moves -/
example : (dmaRunSched dmaDemo dmaRoundRobin 28).quiet ∧ (dmaRunSched dmaDemo dmaRoundRobin 28).drained = [0, 1] ∧
    (∀ r ∈ dmaDemo.cps, 0 < r.len) ∧
    (dmaRunSched dmaTight dmaRoundRobin 48).quiet ∧ ¬ (dmaRunSched dmaTight dmaRoundRobin 47).quiet ∧
    (dmaRunSched dmaTight dmaRoundRobin 48).drained = [0, 1, 2] ∧
    (dmaRunSched dmaTight dmaRoundRobin 48).s.fault = none := by decide +kernel

/-! ## the capacity hypotheses cannot be dropped -/

/-- **`1 ≤ maxReq` is needed:** with `maxRequestCount = 0` no copy is ever parsed — a (non-empty) copy
    waits in the CP port for ever, under every fair schedule. -/
theorem dma_live_needs_maxReq (σ : Nat → EnvOp) (hσ : DmaFair σ) (M : Nat) :
    dmaRunSched (reach 2 0 4 [.copy .h2d 6 7]) σ M = reach 2 0 4 [.copy .h2d 6 7] ∧
    ¬ (dmaRunSched (reach 2 0 4 [.copy .h2d 6 7]) σ M).quiet := by
  have h := dmaRunSched_stuck (e := reach 2 0 4 [.copy .h2d 6 7]) (by decide +kernel) (by decide +kernel)
    (by decide +kernel) (by decide +kernel) hσ.1 M
  rw [h]
  exact ⟨rfl, by decide +kernel⟩

example : (reach 2 0 4 [.copy .h2d 6 7]).s.cpIn = [⟨0, .h2d, 6, 7⟩] ∧
    dmaRunSched (reach 2 0 4 [.copy .h2d 6 7]) dmaRoundRobin 40 = reach 2 0 4 [.copy .h2d 6 7] := by decide +kernel

/-- **`1 ≤ memCap` is needed:** with a ToMem buffer without room the transactions of a parsed copy wait
    in `toSendToMem` for ever, under every fair schedule. -/
theorem dma_live_needs_memCap (σ : Nat → EnvOp) (hσ : DmaFair σ) (M : Nat) :
    dmaRunSched (reach 2 2 0 [.copy .h2d 6 7, .tick]) σ M = reach 2 2 0 [.copy .h2d 6 7, .tick] ∧
    ¬ (dmaRunSched (reach 2 2 0 [.copy .h2d 6 7, .tick]) σ M).quiet := by
  have h := dmaRunSched_stuck (e := reach 2 2 0 [.copy .h2d 6 7, .tick]) (by decide +kernel) (by decide +kernel)
    (by decide +kernel) (by decide +kernel) hσ.1 M
  rw [h]
  exact ⟨rfl, by decide +kernel⟩

example : (reach 2 2 0 [.copy .h2d 6 7, .tick]).s.toMem.length = 3 ∧
    (reach 2 2 0 [.copy .h2d 6 7, .tick]).s.processing.length = 1 := by decide +kernel

end C11
