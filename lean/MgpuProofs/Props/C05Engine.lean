import MgpuModel.C05_Engine
import MgpuModel.C05_Sched
import MgpuProofs.C05Heap
import MgpuProofs.C05EngineInv
/-! # C05 — the serial event engine: the order of events is a function of the Schedule calls

The property's first state anchor is the order in which (same-time) events are processed by
Akita's serial engine. `MgpuModel/C05_Engine.lean` transcribes `sim.eventHeap` + `container/heap`
and `SerialEngine.Schedule / nextEvent / Run`; the real queue and engine are compared with it on
every run (`c05 evq`, `c05 eng`, diffs = 0). Proved here for EVERY script of handlers, every
sequence of `Schedule` calls and loop iterations (invariant `Eng.EInv`, `MgpuProofs/C05EngineInv.lean`;
heap correctness `MgpuProofs/C05Heap.lean`):

* the heap under any sequence of `Push`/`Pop` is a min-heap on times: `Pop` returns an earliest
  event, loses and invents nothing (`event_queue_pops_earliest`, `event_queue_reachable_is_heap`);
* events are handled in non-decreasing time order (`engine_handles_events_in_time_order`), the
  handled one is a minimum of everything queued and a secondary event is handled only when every
  queued primary event is strictly later (`engine_picks_minimum_primary_first`);
* the panic "cannot run event in the past" of `Run` is dead code (`engine_never_runs_event_in_past`);
* every accepted event is handled exactly once: at every moment `scheduled = handled + queued` as
  multisets, and when `Run` returns `handled` is a permutation of `scheduled`
  (`engine_each_event_exactly_once`, `engine_rest_all_handled`); with handlers that schedule nothing
  `Run` returns after `queued` iterations (`engine_drains`, liveness by the queue length);
* same-time events are NOT handled first-in-first-out, and one extra same-time event changes the
  relative order of two others (`same_time_events_not_fifo`, `extra_event_reorders_same_time_events`,
  kernel-checked, replayed on the real queue): a schedule-dependent spurious tick of the driver (open
  finding) can therefore permute other components' events of that cycle.

**Tie strength**: every comparison operator of these functions and the index formulas of
`container/heap` are regenerated from the Go sources (`translate/c05.go` → `Gen.C05Engine`); the
model applies the generated operators and the theorems below pin them
(`engine_operators_are_the_modelled_ones`, `heap_formulas_are_the_modelled_ones`,
`tickLater_matches_source`); the source of every hand-transcribed function is hash-pinned
(`modelled_functions_unchanged`).
-/
namespace C05
namespace Eng

/-! ## the event queue -/

/-- heaps reachable from the empty queue by `Push` and `Pop` -/
inductive HeapReach : Heap → Prop
  | nil : HeapReach []
  | push {h : Heap} (x : Ev) : HeapReach h → HeapReach (push h x)
  | pop {h h' : Heap} {x : Ev} : HeapReach h → pop h = some (x, h') → HeapReach h'

/-- **Every reachable event queue is a min-heap on event times.** -/
theorem event_queue_reachable_is_heap {h : Heap} (hr : HeapReach h) : HeapInv h := by
  induction hr with
  | nil => exact heapInv_nil
  | push x _ ih => exact push_inv _ x ih
  | pop _ hp ih => exact pop_inv ih hp

/-- **`Pop` returns an earliest event and conserves the content**, for every reachable queue:
    the popped event is not later than any queued one, the queue before is the popped event plus
    the queue after (as multisets); `Push` adds exactly the pushed event. -/
theorem event_queue_pops_earliest {h h' : Heap} {x : Ev} (hr : HeapReach h) (hp : pop h = some (x, h')) :
    (∀ y ∈ h, x.time ≤ y.time) ∧ h.Perm (x :: h') ∧ ∀ z, (push h z).Perm (z :: h) :=
  ⟨pop_min (event_queue_reachable_is_heap hr) hp, pop_perm hp, fun z => push_perm h z⟩

/-- non-vacuity: a reachable queue of three events with a tie -/
example : HeapReach (push (push (push [] ⟨2, 1, false⟩) ⟨1, 2, false⟩) ⟨1, 3, false⟩) :=
  .push _ (.push _ (.push _ .nil))
example : popIds 3 (push (push (push [] ⟨2, 1, false⟩) ⟨1, 2, false⟩) ⟨1, 3, false⟩) = [2, 3, 1] := by
  simp [popIds, pop, push, up, down, swap, nth, less, cmp, child, Gen.C05Engine.eventHeapLess]

/-- **Same-time events are not handled first-in-first-out**: pushed in the order 1, 2, 3 with one
    time stamp, they are popped 1, 3, 2 (`Less` compares times only; the sift leaves this order). -/
theorem same_time_events_not_fifo :
    popIds 3 (push (push (push [] ⟨1, 1, false⟩) ⟨1, 2, false⟩) ⟨1, 3, false⟩) = [1, 3, 2] := by
  simp [popIds, pop, push, up, down, swap, nth, less, cmp, child, Gen.C05Engine.eventHeapLess]

/-- **One more same-time event changes the relative order of two others**: events 1 and 2 pushed
    in this order are popped 1, 2 — and 2, 1 when a third event of the same time was pushed before
    them. An extra tick event of the driver in some cycle (its time depends on the host schedule:
    `completion_times_refuted`) can thus permute the other events of that cycle. -/
theorem extra_event_reorders_same_time_events :
    popIds 2 (push (push [] ⟨1, 1, false⟩) ⟨1, 2, false⟩) = [1, 2] ∧
    popIds 3 (push (push (push [] ⟨1, 9, false⟩) ⟨1, 1, false⟩) ⟨1, 2, false⟩) = [9, 2, 1] := by
  constructor <;>
    simp [popIds, pop, push, up, down, swap, nth, less, cmp, child, Gen.C05Engine.eventHeapLess]

/-! ## the engine -/

/-- **Events are handled in non-decreasing simulated-time order**, for every script of handlers and
    every sequence of `Schedule` calls and loop iterations; none is handled after `now`. -/
theorem engine_handles_events_in_time_order {prog : Prog} {s : St} (h : Reach prog s) :
    (s.handled.map (·.time)).Pairwise (· ≤ ·) ∧ ∀ e ∈ s.handled, e.time ≤ s.now :=
  ⟨(einv_reach h).mono, (einv_reach h).last⟩

/-- **The engine handles a minimum of everything queued; primary events first at equal times.**
    In every reachable state with an event queued, `nextEvent` returns an event that is not later
    than any queued event, removes exactly that event, and returns a secondary event only when
    every queued primary event is strictly later. -/
theorem engine_picks_minimum_primary_first {prog : Prog} {s : St} (h : Reach prog s) (hne : noMoreEvent s = false) :
    ∃ e s1, nextEvent s = some (e, s1) ∧ (s.q ++ s.sq).Perm (e :: (s1.q ++ s1.sq)) ∧
      (∀ y ∈ s.q ++ s.sq, e.time ≤ y.time) ∧ (e.sec = true → ∀ p ∈ s.q, e.time < p.time) := by
  obtain ⟨e, s1, h1, _, _, _, h5, _, _, _, _, h10, h11⟩ := nextEvent_spec (einv_reach h) hne
  exact ⟨e, s1, h1, h5, h10, h11⟩

/-- **`Run` never meets an event in the past**: the guard `evt.Time() < now → log.Panicf` is dead
    code in every reachable state (`Schedule` refuses such events and the queues are min-heaps). -/
theorem engine_never_runs_event_in_past {prog : Prog} {s : St} (h : Reach prog s) (hne : noMoreEvent s = false) :
    ∃ e s1, nextEvent s = some (e, s1) ∧ cmp Gen.C05Engine.runReject e.time s1.now = false :=
  run_guard_dead (einv_reach h) hne

/-- **Every accepted event is handled exactly once** (conservation at every moment): what
    `Schedule` accepted is, as a multiset, what has been handled plus what is still queued; no
    queued event lies in the past. -/
theorem engine_each_event_exactly_once {prog : Prog} {s : St} (h : Reach prog s) :
    s.sched.Perm (s.handled ++ (s.q ++ s.sq)) ∧ ∀ e ∈ s.q ++ s.sq, s.now ≤ e.time :=
  ⟨(einv_reach h).cons, (einv_reach h).ge⟩

/-- **When `Run` returns, everything accepted has been handled, once, in time order** (run level,
    any fuel): if the run from a reachable state ends `.ok`, both queues are empty, the handled
    events are a permutation of the accepted ones and their times are non-decreasing. -/
theorem engine_rest_all_handled (prog : Prog) (n : Nat) (s s' : St) (h : Reach prog s)
    (hr : run prog n s = (s', .ok)) :
    noMoreEvent s' = true ∧ s'.handled.Perm s'.sched ∧ (s'.handled.map (·.time)).Pairwise (· ≤ ·) := by
  have hi := einv_run prog n s s' .ok (einv_reach h) hr (by decide)
  have hrest := run_ok_rest prog n s s' hr
  refine ⟨hrest, ?_, hi.mono⟩
  have hq : s'.q = [] ∧ s'.sq = [] := by
    simp only [noMoreEvent, Bool.and_eq_true, List.isEmpty_iff] at hrest
    exact hrest
  have := hi.cons
  rw [hq.1, hq.2] at this
  simpa using this.symm

/-- **Liveness for handlers that schedule nothing** (decreasing measure = number of queued events):
    from every reachable state `Run` returns after at most that many iterations, having handled
    exactly what was queued. -/
theorem engine_drains {prog : Prog} {s : St} (h : Reach prog s) :
    ∃ s', run [] (s.q.length + s.sq.length) s = (s', .ok) ∧ s'.handled.Perm (s.handled ++ (s.q ++ s.sq)) :=
  run_drains s (einv_reach h)

/-- non-vacuity: a reachable state with a tie between a primary and a secondary event, and a run -/
example : ∃ s, Reach [] s ∧ noMoreEvent s = false := by
  have h1 : schedule {} ⟨1, 1, false⟩ = some { q := push [] ⟨1, 1, false⟩, sched := [⟨1, 1, false⟩] } := by
    simp [schedule, cmp, Gen.C05Engine.scheduleReject]
  exact ⟨_, Reach.sched _ Reach.init h1, by simp [noMoreEvent, push, up]⟩

example : Reach [] (({} : St)) := Reach.init

/-! ## tie: the regenerated operators, formulas and function sources -/

/-- **The comparison operators are the ones the model and the theorems are about** (regenerated
    from the Go sources on every run): `eventHeap.Less` is `<`; `Schedule` and `Run` reject
    `evt.Time() < now`; `nextEvent` takes the primary queue when `primary <= secondary`;
    `TickLater`/`TickNow` keep an already scheduled tick when `nextTickTime >= time`; the parallel
    engine's round rule (`<=`, `==`, `<`, `<`); the loop exits of `container/heap.up/down`. -/
theorem engine_operators_are_the_modelled_ones :
    Gen.C05Engine.eventHeapLess = "<" ∧ Gen.C05Engine.scheduleReject = "<" ∧ Gen.C05Engine.runReject = "<" ∧
    Gen.C05Engine.nextEventPrimaryFirst = "<=" ∧ Gen.C05Engine.tickLaterKeep = ">=" ∧ Gen.C05Engine.tickNowKeep = ">=" ∧
    Gen.C05Engine.parPrimaryFirst = "<=" ∧ Gen.C05Engine.parInRound = "==" ∧ Gen.C05Engine.parPast = "<" ∧
    Gen.C05Engine.parEarliest = "<" ∧ Gen.C05Engine.heapUpStop = "==" ∧ Gen.C05Engine.heapDownStop = ">=" ∧
    Gen.C05Engine.heapRightExists = "<" := by
  refine ⟨rfl, rfl, rfl, rfl, rfl, rfl, rfl, rfl, rfl, rfl, rfl, rfl, rfl⟩

/-- **The index arithmetic of `container/heap` is the one `Eng.up` / `Eng.down` / `Eng.pop` use**:
    parent `(j-1)/2` (and `i == j` exactly at the root), children `2i+1`, `2i+2`, last index `len-1`. -/
theorem heap_formulas_are_the_modelled_ones :
    (∀ j, Gen.C05Engine.heapParent j = (j - 1) / 2) ∧ (∀ j, Gen.C05Engine.heapParent j = j ↔ j = 0) ∧
    (∀ i, Gen.C05Engine.heapLeft i = 2 * i + 1) ∧ (∀ i, Gen.C05Engine.heapRight (Gen.C05Engine.heapLeft i) = 2 * i + 2) ∧
    (∀ l, Gen.C05Engine.heapLast l = l - 1) := by
  refine ⟨fun _ => rfl, fun j => ?_, fun _ => rfl, fun _ => rfl, fun _ => rfl⟩
  unfold Gen.C05Engine.heapParent
  omega

/-- **`T.tickLater` (timed hand-off model) is `TickScheduler.TickLater` with the generated guard**:
    `time := NextTick(now) = now + 1; if nextTickTime >= time { return }; nextTickTime = time`. -/
theorem tickLater_matches_source (now next : Nat) :
    T.tickLater now next = if cmp Gen.C05Engine.tickLaterKeep next (now + 1) then next else now + 1 := by
  simp [T.tickLater, cmp, Gen.C05Engine.tickLaterKeep]

/-- the sources the models were transcribed from (hash of the normalised text per function) -/
def auditedFuncs : List (String × String × String) := [
  ("akita/sim/eventqueue.go", "EventQueueImpl.Push", "d45443a9c198fd84"),
  ("akita/sim/eventqueue.go", "EventQueueImpl.Pop", "369e4d03de76af6c"),
  ("akita/sim/eventqueue.go", "EventQueueImpl.Len", "1c8c918478b96d62"),
  ("akita/sim/eventqueue.go", "EventQueueImpl.Peek", "432671dd3fd09eba"),
  ("akita/sim/eventqueue.go", "eventHeap.Len", "cf1225e80e16347f"),
  ("akita/sim/eventqueue.go", "eventHeap.Less", "7d5d12b7595dcc95"),
  ("akita/sim/eventqueue.go", "eventHeap.Swap", "4223eb0d40eabd5b"),
  ("akita/sim/eventqueue.go", "eventHeap.Push", "11e7c5edd7ca19fd"),
  ("akita/sim/eventqueue.go", "eventHeap.Pop", "53b2c5a0f8f6da3a"),
  ("container/heap/heap.go", "Push", "818c22805921ad47"),
  ("container/heap/heap.go", "Pop", "77951db1b80bf0c7"),
  ("container/heap/heap.go", "up", "d0846c330bb6d747"),
  ("container/heap/heap.go", "down", "72d12068d1fff7ec"),
  ("akita/sim/serialengine.go", "SerialEngine.Schedule", "ad01b4f0d9526b83"),
  ("akita/sim/serialengine.go", "SerialEngine.Run", "61c58332432fdb2d"),
  ("akita/sim/serialengine.go", "SerialEngine.noMoreEvent", "6e22d87e520aeb85"),
  ("akita/sim/serialengine.go", "SerialEngine.nextEvent", "50092f61e605b270"),
  ("akita/sim/serialengine.go", "SerialEngine.Pause", "c41a17468147cc3a"),
  ("akita/sim/serialengine.go", "SerialEngine.Continue", "a8ceb1b55c00137a"),
  ("akita/sim/serialengine.go", "SerialEngine.CurrentTime", "69dede30fb5fa38e"),
  ("akita/sim/ticker.go", "TickScheduler.TickLater", "5cb852ff4db47ed5"),
  ("akita/sim/ticker.go", "TickScheduler.TickNow", "cf0ad56cfe1ba49b"),
  ("akita/sim/ticker.go", "TickingComponent.Handle", "294f13e43e2f279d"),
  ("akita/sim/ticker.go", "TickingComponent.NotifyRecv", "a1bc172b84479ace"),
  ("akita/sim/ticker.go", "TickingComponent.NotifyPortFree", "b4b9adc93ea26a9a"),
  ("akita/sim/parallelengine.go", "ParallelEngine.Schedule", "43276bc112562111"),
  ("akita/sim/parallelengine.go", "ParallelEngine.Run", "a700ded7de713514"),
  ("akita/sim/parallelengine.go", "ParallelEngine.determineWhatToRun", "c7a9b971ecb27208"),
  ("akita/sim/parallelengine.go", "ParallelEngine.earliestTimeInQueueGroup", "b9732436255f297f"),
  ("akita/sim/parallelengine.go", "ParallelEngine.runRound", "251030388efb2f27"),
  ("akita/sim/parallelengine.go", "ParallelEngine.emptyQueueChan", "5b8bf6b338395c1a"),
  ("akita/sim/parallelengine.go", "ParallelEngine.hasMoreEvents", "422994d85624d7b2"),
  ("akita/sim/parallelengine.go", "ParallelEngine.runEventsUntilConflict", "31ad49c74c662ac6"),
  ("akita/sim/parallelengine.go", "ParallelEngine.runEventWithTempWorker", "5c15bb8a2b81bcea"),
  ("akita/sim/parallelengine.go", "ParallelEngine.tempWorkerRun", "076e620a6a6cf334"),
  ("amd/driver/driver.go", "Driver.Run", "de6bb2c33b4509be"),
  ("amd/driver/driver.go", "Driver.Terminate", "c8a3748b80af0c37"),
  ("amd/driver/driver.go", "Driver.runAsync", "82932dae6f39f3ca"),
  ("amd/driver/driver.go", "Driver.runEngine", "6e43cb58b6479fa7"),
  ("amd/driver/api.go", "Driver.DrainCommandQueue", "e53fe1028a4450c7"),
  ("amd/driver/commandqueue.go", "CommandQueue.Subscribe", "8d0409ce3e3e17f1"),
  ("amd/driver/commandqueue.go", "CommandQueue.Unsubscribe", "9b69d1a50d90e5bf"),
  ("amd/driver/commandqueue.go", "CommandQueue.NotifyAllSubscribers", "9358fb19aaf64076"),
  ("amd/driver/commandqueue.go", "CommandQueue.Enqueue", "2c85573a654c1e44"),
  ("amd/driver/commandqueue.go", "CommandQueue.Dequeue", "06452cd4cb5be948"),
  ("amd/driver/commandqueue.go", "CommandQueue.Peek", "839e05a6530cadc9"),
  ("amd/driver/commandqueue.go", "CommandQueue.NumCommand", "596eaa4429ee644f"),
  ("amd/driver/commandqueue.go", "Driver.Enqueue", "a0cda66c6e95f72d"),
  ("amd/driver/commandqueue.go", "CommandQueueStatusListener.Notify", "0fc6c720e370ae9c"),
  ("amd/driver/commandqueue.go", "CommandQueueStatusListener.Wait", "41ca56b97ef50abe"),
  ("amd/driver/commandqueue.go", "CommandQueueStatusListener.Close", "60161239c8609685")]

/-- **The hand-transcribed functions are unchanged**: the source of every function that
    `C05.Eng`, `C05.Par` and `C05.T` (through `C12.step`) transcribe has the hash it had when the
    model was written; an edit of any of them breaks this obligation and names the function
    (`changedFuncs`). -/
theorem modelled_functions_unchanged : Gen.C05Engine.modelledFuncs = auditedFuncs := by decide

/-- the functions whose source differs from the audited one (empty on the audited tree) -/
def changedFuncs : List (String × String) :=
  (Gen.C05Engine.modelledFuncs.filter fun f => !auditedFuncs.contains f).map fun f => (f.1, f.2.1)

end Eng
end C05
