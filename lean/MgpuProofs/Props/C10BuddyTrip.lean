import MgpuProofs.C10BuddyTrip3
/-!
# C10 (extension) — the buddy allocator `deviceBuddyMemoryState`: round trips, no crash on free, conservation

Model: `MgpuModel/C10Buddy.lean` (the repaired `allocateMultiplePages`: merge bit toggled whenever a block leaves a
free list; a request for no page returns at once — `runLiveNoGuard` is the code before that second repair). A device of `4096 * 2^F` bytes at any address
`base`; histories of `Device.allocatePage` bursts (`pop k`), `Device.allocateMultiplePages(n)` (`am n`) and frees
(`add ps` = `addSinglePAddr` of each page), run by `runLive` (which also keeps the list of live pages and stops at the
first fault or at the first `add` of a page that is not live).

Proof machinery: `MgpuProofs/C10BuddyTrip1..6.lean` on top of the tree invariant `FInv` of `C10BuddyFull*.lean`:
no two free siblings under a split block (`NInv`), every allocated block holds a tracked page (`EAll`), one
`blockTracking` entry per page and the page count of a tracker EQUALS the number of pages mapped to it
(`Keys`, `CntEq`), the tracked pages are exactly the live pages, bit-field size (`NB`) and valid bits (`BV`).
-/
namespace C10.Buddy

/-! ## 1. fragmentation freedom -/

/-- **Round trip / no fragmentation.** On a device of `4096 * 2^F` bytes at `base` (any `F`, any `base`), after ANY
history of single-page bursts, multi-page requests (for ANY number of pages, zero included) and frees of live pages, if every
page handed out has been given back (`live = []`) then the allocator is back in its fresh state: ONE free block —
the whole device — at level 0 and nothing else on any free list, no split bit and no merge bit left set, and an
empty `blockTracking` map. However the pages were interleaved, buddies always re-merge completely.
(The hypothesis `legal` is not used by the proof: `runLive` stops before an illegal `add`.) -/
theorem buddy_round_trip (F base : Nat) (ops : List Op)
    (_hlegal : (runLive (init base (4096 * 2 ^ F)) [] ops).legal = true)
    (hlive : (runLive (init base (4096 * 2 ^ F)) [] ops).live = []) :
    (runLive (init base (4096 * 2 ^ F)) [] ops).st.free = [base] :: List.replicate F [] ∧
    (runLive (init base (4096 * 2 ^ F)) [] ops).st.split = [] ∧
    (runLive (init base (4096 * 2 ^ F)) [] ops).st.merge = [] ∧
    (runLive (init base (4096 * 2 ^ F)) [] ops).st.track = [] := by
  obtain ⟨c, T, -⟩ := core_runLive ops _ [] (core_init F base) (by simp [Tracked, init]) List.nodup_nil
  apply core_collapse c
  intro p hp
  have := (T p).mp hp
  rw [hlive] at this
  cases this

/-- after a round trip every retired tracker counts zero pages (`numOfPages` reached 0 exactly when its last page
was returned: the count of a tracker always EQUALS the number of pages mapped to it) -/
theorem buddy_round_trip_trackers (F base : Nat) (ops : List Op)
    (hlive : (runLive (init base (4096 * 2 ^ F)) [] ops).live = []) (id ia num : Nat)
    (e : (runLive (init base (4096 * 2 ^ F)) [] ops).st.trk[id]? = some (ia, num)) : num = 0 := by
  obtain ⟨c, T, -⟩ := core_runLive ops _ [] (core_init F base) (by simp [Tracked, init]) List.nodup_nil
  have ht : (runLive (init base (4096 * 2 ^ F)) [] ops).st.track = [] := by
    refine (core_collapse c ?_).2.2.2
    intro p hp
    have := (T p).mp hp
    rw [hlive] at this
    cases this
  have := c.cnt id ia num e
  rw [ht] at this
  simpa using this.symm

/-- non-vacuity: the history of `Props/C10Buddy.lean` (two single pages, a 2-page block given back page by page,
one more page, everything returned in another order) ends with the fresh 8-page device -/
example :
    (runLive (init 0x5000 (4096 * 2 ^ 3)) []
      [.pop 1, .pop 1, .am 2, .add [0x7000], .pop 1, .add [0x5000, 0x6000], .add [0x8000, 0x9000]]).legal = true ∧
    (runLive (init 0x5000 (4096 * 2 ^ 3)) []
      [.pop 1, .pop 1, .am 2, .add [0x7000], .pop 1, .add [0x5000, 0x6000], .add [0x8000, 0x9000]]).live = [] ∧
    (runLive (init 0x5000 (4096 * 2 ^ 3)) []
      [.pop 1, .pop 1, .am 2, .add [0x7000], .pop 1, .add [0x5000, 0x6000], .add [0x8000, 0x9000]]).st.free =
        [[0x5000], [], [], []] ∧
    (∀ op ∈ [Op.pop 1, .pop 1, .am 2, .add [0x7000], .pop 1, .add [0x5000, 0x6000], .add [0x8000, 0x9000]],
      AmPos op) := by
  refine ⟨by decide +kernel, by decide +kernel, by decide +kernel, ?_⟩
  intro op hop
  simp only [List.mem_cons, List.not_mem_nil, or_false] at hop
  rcases hop with rfl | rfl | rfl | rfl | rfl | rfl | rfl <;> simp [AmPos]

/-- The round trip for EVERY history — no restriction to requests of at least one page. -/
def buddy_round_trip_full : Prop :=
  ∀ (F base : Nat) (ops : List Op),
    (runLive (init base (4096 * 2 ^ F)) [] ops).legal = true →
    (runLive (init base (4096 * 2 ^ F)) [] ops).live = [] →
    (runLive (init base (4096 * 2 ^ F)) [] ops).st.free = [base] :: List.replicate F []

/-- **It holds for the repaired code**: `allocateMultiplePages(0)` (a `Remap` of 0 bytes) returns at once, so a
request for no page neither takes a block nor records a tracker. -/
theorem buddy_round_trip_full_holds : buddy_round_trip_full :=
  fun F base ops hl hlive => (buddy_round_trip F base ops hl hlive).1

/-- the same statement about the code BEFORE the repair (`runLiveNoGuard`: `allocateMultiplePages` without its
zero-page guard) -/
def buddy_round_trip_full_before_fix : Prop :=
  ∀ (F base : Nat) (ops : List Op),
    (runLiveNoGuard (init base (4096 * 2 ^ F)) [] ops).legal = true →
    (runLiveNoGuard (init base (4096 * 2 ^ F)) [] ops).live = [] →
    (runLiveNoGuard (init base (4096 * 2 ^ F)) [] ops).st.free = [base] :: List.replicate F []

/-- Witness (old code): `allocateMultiplePages(0)` on a 2-page device takes a one-page block off the free lists
(splitting the device), records a tracker with 0 pages and returns NO page — nothing is live, yet the block can
never be freed: the device has leaked a page for good. -/
theorem buddy_round_trip_full_before_fix_refuted : ¬ buddy_round_trip_full_before_fix := by
  intro h
  have := h 1 0x5000 [.am 0]
  revert this
  decide +kernel

/-- the leaked state of the old code: nothing live, one page missing from the free lists, the split bit of the
root set; the repaired code leaves the fresh device -/
example : (runLiveNoGuard (init 0x5000 (4096 * 2 ^ 1)) [] [.am 0]).live = [] ∧
    (runLiveNoGuard (init 0x5000 (4096 * 2 ^ 1)) [] [.am 0]).st.free = [[], [0x6000]] ∧
    (runLiveNoGuard (init 0x5000 (4096 * 2 ^ 1)) [] [.am 0]).st.split = [0] ∧
    (runLive (init 0x5000 (4096 * 2 ^ 1)) [] [.am 0]).st.free = [[0x5000], []] ∧
    (runLive (init 0x5000 (4096 * 2 ^ 1)) [] [.am 0]).st.split = [] ∧
    (runLive (init 0x5000 (4096 * 2 ^ 1)) [] [.am 0]).st.trk = [] := by
  decide +kernel

/-- the driver-level scenario of the recorded finding on the repaired code: a page, a `Remap` of 0 bytes, the page
given back — the whole 2-page device is one free block again -/
example : (runLive (init 0x2000 (4096 * 2 ^ 1)) [] [.pop 1, .am 0, .add [0x2000]]).legal = true ∧
    (runLive (init 0x2000 (4096 * 2 ^ 1)) [] [.pop 1, .am 0, .add [0x2000]]).live = [] ∧
    (runLive (init 0x2000 (4096 * 2 ^ 1)) [] [.pop 1, .am 0, .add [0x2000]]).st.free = [[0x2000], []] ∧
    (runLiveNoGuard (init 0x2000 (4096 * 2 ^ 1)) [] [.pop 1, .am 0, .add [0x2000]]).st.free = [[], [0x2000]] := by
  decide +kernel

/-- **The live pages are exactly the pages of the tracker map, each once.** After any history: a page is live iff it has a `blockTracking` entry, and no page is live twice — a page that is
handed out and not yet given back is never handed out again, frees included. -/
theorem buddy_live_exact (F base : Nat) (ops : List Op) :
    (∀ p, Tracked (runLive (init base (4096 * 2 ^ F)) [] ops).st p ↔ p ∈ (runLive (init base (4096 * 2 ^ F)) [] ops).live) ∧
    (runLive (init base (4096 * 2 ^ F)) [] ops).live.Nodup := by
  obtain ⟨-, T, N⟩ := core_runLive ops _ [] (core_init F base) (by simp [Tracked, init]) List.nodup_nil
  exact ⟨T, N⟩

example : (runLive (init 0x5000 (4096 * 2 ^ 3)) [] [.pop 1, .am 2, .add [0x5000], .pop 2]).live =
    [0x7000, 0x8000, 0x5000, 0x6000] := by decide +kernel

/-! ## 2. frees never crash; whatever the history, everything can be given back -/

/-- **Only out-of-memory.** On a device of `4096 * 2^F` bytes every fault of ANY history — frees included, legal or
not (`addSinglePAddr` of a page without a `blockTracking` entry returns at once) — is the out-of-memory panic of an
allocation request: `levelOfBlock`, `freeBlock` and the split loop never index a bit field out of range
(all indices are `< 2^F < nbits`) and every page handed out belongs to the device. -/
theorem buddy_only_oom (F base : Nat) (ops : List Op) (e : Fault)
    (he : runFault (init base (4096 * 2 ^ F)) ops = some e) : e = .oom :=
  runFault_only_oom ops _ (finv_init F base) (nb_init F base) e he

/-- the instance for legal histories (the form asked for) -/
theorem buddy_legal_only_oom (F base : Nat) (ops : List Op)
    (_hlegal : (runLive (init base (4096 * 2 ^ F)) [] ops).legal = true) :
    ∀ e, runFault (init base (4096 * 2 ^ F)) ops = some e → e = .oom :=
  fun e he => buddy_only_oom F base ops e he

/-- non-vacuity: a history with frees that ends in out-of-memory -/
example : runFault (init 0x5000 (4096 * 2 ^ 2)) [.pop 3, .add [0x6000], .am 2] = some .oom ∧
    (runLive (init 0x5000 (4096 * 2 ^ 2)) [] [.pop 3, .add [0x6000], .am 2]).legal = true := by decide +kernel

/-- **Free never crashes.** In the state reached by any history, `Free`/`RemovePage` of ANY list of pages
(`addSinglePAddr` of each) completes without a panic. -/
theorem buddy_free_no_crash (F base : Nat) (ops : List Op) (ps : List Nat) :
    ∃ s', step (runLive (init base (4096 * 2 ^ F)) [] ops).st (.add ps) = .ok ([], s') := by
  obtain ⟨f, -⟩ := finv_runLive ops (init base (4096 * 2 ^ F)) [] (finv_init F base) (by simp)
  exact add_step_ok ps f (nb_runLive ops _ [] (finv_init F base) (nb_init F base))

/-- a single tracked page: `addSinglePAddr` succeeds (and keeps the size of the bit fields) -/
theorem buddy_addSingle_total {F : Nat} {s : State} (p : Nat) (h : FInv F s)
    (hnb : s.nbits = 64 * (2 ^ F / 64 + 1)) : ∃ s', addSingle s p = .ok s' :=
  (addSingle_total (p := p) h hnb).imp fun _ hh => hh.1

/-- **Whatever the history, returning everything restores the fresh device.** After ANY history, giving back all live pages in one `Free` succeeds and leaves one whole-device free block, no bit
set, an empty tracker map. -/
theorem buddy_give_back_all (F base : Nat) (ops : List Op) :
    ∃ s', step (runLive (init base (4096 * 2 ^ F)) [] ops).st (.add (runLive (init base (4096 * 2 ^ F)) [] ops).live)
        = .ok ([], s') ∧
      s'.free = [base] :: List.replicate F [] ∧ s'.split = [] ∧ s'.merge = [] ∧ s'.track = [] := by
  obtain ⟨c, T, -⟩ := core_runLive ops _ [] (core_init F base) (by simp [Tracked, init]) List.nodup_nil
  obtain ⟨s', e, r⟩ := core_give_back c T
  refine ⟨s', ?_, r⟩
  simp only [step, e]

example : (runLive (init 0x5000 (4096 * 2 ^ 3)) [] [.pop 1, .am 2, .add [0x5000], .pop 2]).st.free =
      [[], [0x9000], [], []] ∧
    (runLive (init 0x5000 (4096 * 2 ^ 3)) []
      [.pop 1, .am 2, .add [0x5000], .pop 2, .add [0x7000, 0x8000, 0x5000, 0x6000]]).st.free = [[0x5000], [], [], []] := by
  decide +kernel

/-! ## 3. conservation -/

/-- **Conservation: free blocks and allocated blocks partition the device at every step.** After any history, every page `base + 4096*j` (`j < 2^F`) of the device lies EITHER inside a block of a
free list OR inside the block of a live page — the block `freeBlock` itself would release for that page's tracker
(`levelOfBlock` of the tracker's address), whose tracker still counts pages — and never both. No page of the device
is lost, none is accounted twice. -/
theorem buddy_conservation (F base : Nat) (ops : List Op) (j : Nat) (hj : j < 2 ^ F) :
    (InFreeBlock (runLive (init base (4096 * 2 ^ F)) [] ops).st (base + 4096 * j) ∨
      Accounted (runLive (init base (4096 * 2 ^ F)) [] ops).st (runLive (init base (4096 * 2 ^ F)) [] ops).live
        (base + 4096 * j)) ∧
    ¬ (InFreeBlock (runLive (init base (4096 * 2 ^ F)) [] ops).st (base + 4096 * j) ∧
      Accounted (runLive (init base (4096 * 2 ^ F)) [] ops).st (runLive (init base (4096 * 2 ^ F)) [] ops).live
        (base + 4096 * j)) := by
  obtain ⟨c, T, -⟩ := core_runLive ops _ [] (core_init F base) (by simp [Tracked, init]) List.nodup_nil
  exact core_conservation c T j hj

/-- non-vacuity: 8-page device, page 0x5000 and the 2-page block 0x7000 allocated, 0x7000 given back (the block
stays allocated because 0x8000 is live): page 0x7000 is accounted to the live page 0x8000, page 0x6000 is free -/
example :
    Accounted (runLive (init 0x5000 (4096 * 2 ^ 3)) [] [.pop 1, .am 2, .add [0x7000]]).st
      (runLive (init 0x5000 (4096 * 2 ^ 3)) [] [.pop 1, .am 2, .add [0x7000]]).live 0x7000 ∧
    InFreeBlock (runLive (init 0x5000 (4096 * 2 ^ 3)) [] [.pop 1, .am 2, .add [0x7000]]).st 0x6000 ∧
    (runLive (init 0x5000 (4096 * 2 ^ 3)) [] [.pop 1, .am 2, .add [0x7000]]).live = [0x5000, 0x8000] := by
  refine ⟨⟨0x8000, by decide +kernel, 1, 0x7000, 1, 2, by decide +kernel, by decide +kernel, by decide,
    by rfl, by decide +kernel, by decide +kernel⟩, ⟨3, 0x6000, by decide +kernel, by decide +kernel⟩,
    by decide +kernel⟩

end C10.Buddy
