import MgpuProofs.C09Res
import MgpuProofs.C09Pool
import MgpuProofs.C09Once2
import MgpuProofs.C09Live
import MgpuProofs.C09Fair
import MgpuProofs.C09Part
/-! # C09 — work-groups are dispatched exactly once within compute-unit resources

Statements about the models in `MgpuModel/C09_Res.lean` (resource masks and one CU's
`ReserveResourceForWG` / `FreeResourcesForWG`) and `MgpuModel/C09_Disp.lean` (dispatchers sharing
one pool inside the command processor), for **every** sequence of calls / environment moves and
**every** CU shape (numbers of SIMDs, wavefront slots, register-file and LDS sizes, unlimited
masks) and demand. The models are tied to the real code by the per-run correspondence check. -/
namespace C09

/-- a small CU: 2 SIMDs × 2 slots, 64 SGPRs (4 units), 512 VGPRs per SIMD (2 units), 1 KiB LDS -/
def demoCU : CU := (mkCU [2, 2] (some 64) [some 512, some 512] (some 1024)).getD default

/-- one group admitted (it fills the SGPR file), one refused, the first freed, another admitted -/
def demoROps : List ROp :=
  [.reserve 1 ⟨2, 17, 5, 300⟩, .reserve 2 ⟨2, 16, 8, 512⟩, .free 1, .reserve 4 ⟨1, 16, 4, 256⟩]

/-- **A freshly registered CU satisfies the invariant**, for any wavefront-pool sizes and any
    register/LDS counts that are multiples of the granularity (or unlimited). -/
theorem registered_cu_inv (wf : List Nat) (s : Option Nat) (v : List (Option Nat)) (l : Option Nat)
    (cu : CU) (h : mkCU wf s v l = some cu) (hlen : wf.length = v.length) (hpos : 0 < wf.length) :
    Inv wf cu := mkCU_inv wf s v l cu h hlen hpos

example : mkCU [2, 2] (some 64) [some 512, some 512] (some 1024) = some demoCU := by decide

/-- **`reserve_inv`.** After every sequence of `ReserveResourceForWG` / `FreeResourcesForWG` calls
    with arbitrary demands (each group having at least one wavefront, which every group of a grid
    has — C08), on a CU that satisfied the invariant: the regions recorded for resident
    work-groups are pairwise disjoint per resource (SGPR, LDS, each SIMD's VGPR file) and lie
    inside the mask; a mask cell is `Reserved` iff it lies in a recorded region and no `ToReserve`
    cell survives a call; free wavefront slots + resident wavefronts = pool size on every SIMD;
    work-group keys are distinct. (`Inv`, `MgpuProofs/C09Res2.lean`.) -/
theorem reserve_inv' (cap : List Nat) (cu0 : CU) (hinv : Inv cap cu0) (hcap : 0 < cap.length)
    (ops : List ROp) (hops : ∀ op ∈ ops, ∀ k d, op = .reserve k d → 1 ≤ d.nwf)
    (cu' : CU) (h : runR cu0 ops = some cu') : Inv cap cu' :=
  reserve_inv cap cu0 hinv hcap ops hops cu' h

example : ((runR demoCU demoROps).map fun cu => (cu.wfFree, cu.resident.map (·.1), cu.nextSIMD))
    = some ([1, 2], [4], 1) := by decide

/-- **A zero-wavefront group would leak its LDS region** (the free loop runs once per wavefront):
    the hypothesis `1 ≤ nwf` of `reserve_inv'` is necessary. No grid produces such a group. -/
theorem zero_wavefront_group_leaks_lds :
    ((mkCU [10] (some 32) [some 256] (some 512)).bind fun cu0 =>
        runR cu0 [.reserve 7 ⟨0, 0, 0, 256⟩, .free 7]).map (fun c => (c.resident, c.lmask))
      = some ([], .lim [2, 0]) :=
  nwf_zero_leaks_lds

/-- **Reserve succeeds only on free resources.** When `ReserveResourceForWG` answers ok, it hands
    out one location per wavefront; every SGPR / LDS / VGPR cell of every region handed out was
    `Free` before the call, and each SIMD had at least as many free wavefront slots as it
    received wavefronts. -/
theorem reserve_ok_only_if_free (cap : List Nat) (cu : CU) (key : Nat) (d : Dem) (locs : List Loc)
    (cu' : CU) (hinv : Inv cap cu) (h : reserve cu key d = (.ok locs, cu')) :
    locs.length = d.nwf ∧
    (∀ l ∈ locs, ∀ i, inR (l.soff / 64, units d.s sGran) i → ∀ m, cu.smask = .lim m → m[i]? = some 0) ∧
    (∀ l ∈ locs, ∀ i, inR (l.loff / 256, units d.l lGran) i → ∀ m, cu.lmask = .lim m → m[i]? = some 0) ∧
    (∀ l ∈ locs, ∀ i, inR (l.voff / 16, units d.v vGran) i →
        ∀ m, cu.vmasks[l.simd]? = some (.lim m) → m[i]? = some 0) ∧
    (∀ k, (locs.filter (·.simd = k)).length ≤ cu.wfFree.getD k 0) :=
  reserve_ok_regions_were_free cap cu key d locs cu' hinv h

example : (reserve demoCU 1 ⟨3, 16, 4, 256⟩).1 = .ok [⟨0, 0, 0, 0⟩, ⟨1, 0, 64, 0⟩, ⟨0, 16, 128, 0⟩] := by decide

/-- **A refused or granted reservation leaves a consistent CU**: on `ok` the group is appended to
    the resident list; on refusal the resident list and the free-slot counters are unchanged and
    every `ToReserve` mark is cleared (part of `Inv`). -/
theorem reserve_step (cap : List Nat) (cu : CU) (key : Nat) (d : Dem) (res : RRes) (cu' : CU)
    (hinv : Inv cap cu) (h : reserve cu key d = (res, cu')) :
    (∀ locs, res = .ok locs → 1 ≤ d.nwf → Inv cap cu' ∧ cu'.resident = cu.resident ++ [(key, d, locs)]) ∧
    (res = .no → Inv cap cu' ∧ cu'.resident = cu.resident ∧ cu'.wfFree = cu.wfFree) :=
  reserve_preserves cap cu key d res cu' hinv h

example : (reserve demoCU 1 ⟨5, 0, 0, 0⟩).1 = .no := by decide

/-- **`free_all_restores_initial`.** When every resident group has been freed, all wavefront
    slots are free again and every limited mask is all-`Free` — whatever happened in between
    (only the `nextSIMD` cursor and the bump counters of unlimited masks may differ from the
    freshly registered CU). -/
theorem free_all_restores_initial' (cap : List Nat) (cu : CU) (hinv : Inv cap cu) (hres : cu.resident = []) :
    cu.wfFree = cap ∧ (∀ m, cu.smask = .lim m → m = List.replicate m.length 0) ∧
    (∀ m, cu.lmask = .lim m → m = List.replicate m.length 0) ∧
    (∀ k (h : k < cu.vmasks.length) m, cu.vmasks[k] = .lim m → m = List.replicate m.length 0) :=
  free_all_restores_initial cap cu hinv hres

example : ((runR demoCU (demoROps ++ [.free 4])).map fun cu => (cu.wfFree, cu.smask, cu.lmask))
    = some ([2, 2], .lim [0, 0, 0, 0], .lim [0, 0, 0, 0]) := by decide

/-- **`byte_offsets_disjoint`.** How unit offsets become the byte offsets in `MapWGReq`
    (`SGPROffset = unit·64`, `VGPROffset = unit·16` per lane with a 1024-byte lane stride,
    `LDSOffset = unit·256`): a wavefront's `4·s` SGPR bytes / `4·v` VGPR bytes per lane / `l` LDS
    bytes fit the units reserved for it; ranges of disjoint unit regions are disjoint; a region
    inside the mask gives bytes inside the register file (`64·200 = 3200·4` scalar bytes,
    `64 lanes · 1024 = 16384·4` vector bytes per SIMD, `256·256` LDS bytes — the sizes
    `cu.MakeBuilder` allocates, compared with the real CU by the `c09 const` case). Together with
    `reserve_inv'` (regions pairwise disjoint and inside the mask) this is the non-aliasing
    hypothesis C07 consumes. -/
theorem byte_offsets_disjoint' :
    (∀ s, 4 * s ≤ 64 * units s sGran) ∧
    (∀ s ua ub, ua + units s sGran ≤ ub → ua * 64 + 4 * s ≤ ub * 64) ∧
    (∀ s u, u + units s sGran ≤ shippedSRegs / sGran → u * 64 + 4 * s ≤ shippedSRegs * 4) ∧
    (∀ v, 4 * v ≤ 16 * units v vGran) ∧
    (∀ v u ℓ, ℓ < 64 → u + units v vGran ≤ 16384 / vGran / 64 →
      ℓ * 1024 + u * 16 + 4 * v ≤ (ℓ + 1) * 1024 ∧ ℓ * 1024 + u * 16 + 4 * v ≤ 16384 * 4) ∧
    (∀ v ua ub ℓa ℓb, ℓa < ℓb → ua + units v vGran ≤ 64 →
      ℓa * 1024 + ua * 16 + 4 * v ≤ ℓb * 1024 + ub * 16) ∧
    (∀ v ua ub ℓ, ua + units v vGran ≤ ub → ℓ * 1024 + ua * 16 + 4 * v ≤ ℓ * 1024 + ub * 16) ∧
    (∀ l, l ≤ 256 * units l lGran) ∧
    (∀ l ua ub, ua + units l lGran ≤ ub → ua * 256 + l ≤ ub * 256) ∧
    (∀ l u, u + units l lGran ≤ shippedLDS / lGran → u * 256 + l ≤ shippedLDS) := by
  have h := byte_offsets_disjoint sGran 64 vGran 16 1024 64 65536 lGran rfl rfl rfl rfl rfl rfl rfl rfl
  obtain ⟨h1, h2, h3, h4, h5, h6, h7, h8, h9, h10⟩ := h
  refine ⟨h1, h2, ?_, h4, ?_, h6, h7, h8, h9, ?_⟩
  · intro s u hu
    have := h3 s u (shippedSRegs / sGran) hu
    simpa [shippedSRegs, sGran] using this
  · intro v u ℓ hl hu
    have := h5 v u ℓ hl (by simpa [vGran] using hu)
    simpa using this
  · intro l u hu
    have := h10 l u (shippedLDS / lGran) hu
    simpa [shippedLDS, lGran] using this

example : units 102 sGran = 7 ∧ units 0 vGran = 0 ∧ units 257 lGran = 2 := by decide

/-! ## the command processor: N dispatchers on one pool -/

/-- a pool of two small CUs and a scenario with two overlapping kernels (3 + 1 work-groups),
    back-pressure on the CU-facing port, completions out of order and one batched completion
    message `[3, 0]` that mixes work-groups of both dispatchers -/
def demoPool : List CU := [demoCU, demoCU]

def demoOps : List Op :=
  [.launch ⟨0, 160, 64, 16, 4, 256⟩, .launch ⟨1, 64, 64, 32, 8, 512⟩, .tick, .cuRoom 1, .tick, .tick,
   .cuRoom 4096, .tick, .complete [1], .tick, .complete [3, 0], .tick, .tick, .complete [2], .tick, .tick,
   .tick, .tick, .tick]

def demoCfg : Cfg := { greedy := false, klo := 0, ko := 1, sklo := 0, thr := 0 }

/-- **Every work-group of a well-formed grid has a wavefront** (what `reserve_inv'` asks for). -/
theorem every_group_has_a_wavefront (k : Kern) (i : Nat) (hk : KernOK k) (hi : i < k.numWG) :
    1 ≤ k.nwfOf i := nwf_pos k i hk hi

example : KernOK ⟨0, 160, 64, 16, 4, 256⟩ ∧ (⟨0, 160, 64, 16, 4, 256⟩ : Kern).numWG = 3 ∧
    (⟨0, 160, 64, 16, 4, 256⟩ : Kern).nwfOf 2 = 1 := ⟨⟨by decide, by decide⟩, by decide, by decide⟩

/-- **`multi_dispatcher_safe`.** For any number of dispatchers sharing one pool (round-robin or
    greedy placement), any overheads, and **any** interleaving of ticks, launch requests,
    completion messages (single, batched, mixing dispatchers, unknown ids, any order and delay)
    and port back-pressure: every CU of the pool keeps the resource invariant `Inv` — resident
    regions pairwise disjoint and inside capacity, masks agree with them, wavefront slots add
    up — and no work-group is ever reserved twice (the Go `panic("reserving a work-group
    twice")` is unreachable). Pool initially without residents; launches with non-empty grid and
    work-group size. -/
theorem multi_dispatcher_safe' (caps : List (List Nat)) (cfg : Cfg) (nd : Nat) (pool : List CU)
    (ops : List Op) (hempty : ∀ cu ∈ pool, cu.resident = []) (hp : PoolInv caps pool)
    (hops : ∀ k, .launch k ∈ ops → KernOK k) :
    let cp := run (mkCP cfg nd pool) ops
    PoolInv caps cp.pool ∧ cp.fault ≠ some "twice" :=
  multi_dispatcher_safe caps cfg nd pool ops hempty hp hops

example : let cp := run (mkCP demoCfg 8 demoPool) demoOps
    cp.fault = none ∧ cp.pool.map (·.resident.length) = [0, 0] ∧
    cp.log.reverse.map (fun e => match e with | .map r c l i _ => (r, c, l, i) | .rsp l => (99, 99, l, 99)) =
      [(0, 0, 0, 0), (1, 1, 0, 1), (2, 0, 0, 2), (3, 0, 1, 0), (99, 99, 1, 99), (99, 99, 0, 99)] := by
  decide

/-- **A MapWGReq is only sent for reserved resources.** Whenever the placement algorithm of a
    dispatcher returns a location, the work-group is resident on that CU of the shared pool with
    exactly the wavefront locations the MapWGReq will carry (and by `reserve_ok_only_if_free`
    those regions were free and a wavefront slot was available). `dispatchNextWG` sends the
    location stored in `currWG`, which only `algNext` writes. -/
theorem mapped_only_when_admitted (b : Bool) (caps : List (List Nat)) (cp : CP) (i : Nat) (cp' : CP)
    (dl : DLoc) (h : CPInv b caps cp) (hft : cp.fault ≠ some "twice")
    (hn : (cp.disp i).alg.hasNext = true) (ha : algNext cp i = (cp', some dl)) :
    ∃ d, (dl.key, d, dl.locs) ∈ (cp'.pool.getD dl.cu default).resident :=
  mapped_is_resident b caps cp i cp' dl h hft hn ha

example : ((algNext ((run (mkCP demoCfg 8 demoPool) [.launch ⟨0, 160, 64, 16, 4, 256⟩, .tick])) 0).2.map
    fun dl => (dl.cu, dl.idx, dl.locs)) = some (0, 0, [⟨0, 0, 0, 0⟩]) := by decide

/-! ## exactly once -/

/-- **The accounting invariant `DCI` holds after every op sequence** (no side condition: any
    number of dispatchers, any pool, greedy or round-robin, any completion messages — foreign,
    duplicated, batched —, any back-pressure, faults included). Per dispatcher: idle ⇒ nothing
    placed or in flight; busy with `k` ⇒ `dispatched + [a placed, unsent group] = placed ≤ NumWG`,
    `completed + in flight = dispatched`, the placed group is work-group number `dispatched` of
    launch `k`, in-flight request ids are distinct and below the id counter. -/
theorem accounting_inv (cfg : Cfg) (nd : Nat) (pool : List CU) (ops : List Op) :
    DCI (run (mkCP cfg nd pool) ops) := dci_run cfg nd pool ops

example : DCI (run (mkCP demoCfg 8 demoPool) demoOps) := accounting_inv _ _ _ _

/-- **`exactly_once` (maps, trace form).** With pairwise distinct launch request ids (the
    driver's ids are unique), along every op sequence no work-group index of any launch occurs in
    two `MapWGReq`s of the whole trace. -/
theorem exactly_once_maps (cfg : Cfg) (nd : Nat) (pool : List CU) (ops : List Op)
    (hids : (launchIds ops).Nodup) (l : Nat) : (mapsOf (run (mkCP cfg nd pool) ops).log l).Nodup :=
  map_exactly_once cfg nd pool ops hids l

example : mapsOf (run (mkCP demoCfg 8 demoPool) demoOps).log 0 = [0, 1, 2] ∧
    mapsOf (run (mkCP demoCfg 8 demoPool) demoOps).log 1 = [0] := by decide

/-- **`exactly_once` (maps, step form).** Whenever a dispatcher busy with launch `k` sends a
    `MapWGReq`, it is for launch `k`, for work-group index = the number it has mapped so far,
    which is inside the grid (`< NumWG`), with a fresh request id, and the counter moves by one;
    a failed attempt emits nothing. Hence the indices of one kernel execution are mapped in grid
    order, each once, never outside the grid. -/
theorem maps_in_grid_order (cp : CP) (i : Nat) (k : Kern) (h : DCI cp) (hi : i < cp.disps.length)
    (hk : (cp.disp i).kern = some k) :
    ((dispatchNextWG cp i).2 = true → ∃ cu locs,
      (dispatchNextWG cp i).1.log = .map cp.nextReq cu k.id (cp.disp i).nd locs :: cp.log ∧
      (cp.disp i).nd < k.numWG ∧ ((dispatchNextWG cp i).1.disp i).nd = (cp.disp i).nd + 1 ∧
      (dispatchNextWG cp i).1.nextReq = cp.nextReq + 1) ∧
    ((dispatchNextWG cp i).2 = false → (dispatchNextWG cp i).1.log = cp.log) :=
  map_in_grid_order cp i k h hi hk

/-- **`LaunchKernelRsp` at most once per launch** along every op sequence (distinct launch ids). -/
theorem response_at_most_once (cfg : Cfg) (nd : Nat) (pool : List CU) (ops : List Op)
    (hids : (launchIds ops).Nodup) (l : Nat) : rspCount (run (mkCP cfg nd pool) ops).log l ≤ 1 :=
  rsp_at_most_once cfg nd pool ops hids l

example : rspCount (run (mkCP demoCfg 8 demoPool) demoOps).log 0 = 1 ∧
    rspCount (run (mkCP demoCfg 8 demoPool) demoOps).log 1 = 1 := by decide

/-- **… and only when completed = dispatched = NumWG.** In every reachable state (`DCI`), the
    condition under which `Tick` calls `completeKernel` implies that every work-group of the grid
    has been dispatched and completed and nothing is placed or in flight; `completeKernel` is the
    only place a response is emitted: it emits exactly `LaunchKernelRsp` for the dispatcher's
    launch and makes the dispatcher idle, or (driver-facing port full) changes nothing. -/
theorem response_only_when_complete (cp : CP) (i : Nat) (k : Kern) (h : DCI cp)
    (hi : i < cp.disps.length) (hk : (cp.disp i).kern = some k) :
    (kernelCompleted (cp.disp i) = true →
      (cp.disp i).nd = k.numWG ∧ (cp.disp i).nc = k.numWG ∧ (cp.disp i).inflight = [] ∧
      (cp.disp i).currWG = none) ∧
    (∀ cp', completeKernel cp i = (cp', true) → cp'.log = .rsp k.id :: cp.log ∧ (cp'.disp i).kern = none) ∧
    (∀ cp', completeKernel cp i = (cp', false) → cp' = cp) :=
  ⟨fun hkc => rsp_only_when_complete cp i k h hk hkc,
   fun cp' hc => completeKernel_log cp i k cp' hi hk hc,
   fun cp' hc => completeKernel_false cp i cp' hc⟩

/-- **A completion is counted once.** Processing a request id that is in flight at this
    dispatcher raises `completed` by exactly one and removes exactly that entry; an id that is not
    in flight here (foreign, duplicate, unknown) changes nothing. -/
theorem completion_counted_once' (cp : CP) (i id : Nat) (h : DCI cp) (hi : i < cp.disps.length) :
    ((cp.disp i).inflight.find? (·.1 = id) = none → completeOne cp i id = cp) ∧
    (∀ e, (cp.disp i).inflight.find? (·.1 = id) = some e →
      ((completeOne cp i id).disp i).nc = (cp.disp i).nc + 1 ∧
      ((completeOne cp i id).disp i).inflight.length + 1 = (cp.disp i).inflight.length ∧
      (∀ e' ∈ ((completeOne cp i id).disp i).inflight, e'.1 ≠ id) ∧
      DCI (completeOne cp i id)) :=
  completion_counted_once cp i id h hi

/-- **A response is sent only after the whole grid was mapped, in order.** In any run with distinct
    launch ids (`DCI` and the trace invariant `GI` hold in every reachable state: `accounting_inv`,
    `run_GI`), at the moment `completeKernel` emits the response of launch `k`, the `MapWGReq`s of
    that launch in the trace are exactly work-groups `0 … NumWG−1`, once each, and this is its
    first response. -/
theorem response_only_after_grid_mapped (cp : CP) (i : Nat) (k : Kern) (p : List Nat) (cp' : CP)
    (hdc : DCI cp) (hg : GI cp p) (hk : (cp.disp i).kern = some k)
    (hkc : kernelCompleted (cp.disp i) = true) (h : completeKernel cp i = (cp', true)) :
    mapsOf cp'.log k.id = List.range k.numWG ∧ rspCount cp'.log k.id = 1 :=
  rsp_only_after_grid_mapped_step cp i k p cp' hdc hg hk hkc h

/-! ## progress: every enabled action fires, and a fruitless tick is a wait -/

/-- **Overhead counters run down**: a dispatcher with `cycleLeft = c+1` only decrements it and
    reports progress (so it is ticked again). -/
theorem overhead_counts_down' (cp : CP) (i c : Nat) (h : (cp.disp i).cycleLeft = c + 1) :
    dispTick cp i = (cp.setDisp i { cp.disp i with cycleLeft := c }, true) :=
  overhead_counts_down cp i c h

/-- **A completed kernel is answered** by the next tick of its dispatcher as soon as the
    driver-facing port has room. -/
theorem completed_kernel_is_answered' (cp : CP) (i : Nat) (k : Kern) (hc : (cp.disp i).cycleLeft = 0)
    (hk : (cp.disp i).kern = some k) (hkc : kernelCompleted (cp.disp i) = true) (hr : 0 < cp.drvRoom) :
    (dispTick cp i).2 = true ∧ (dispTick cp i).1.log = .rsp k.id :: cp.log :=
  completed_kernel_is_answered cp i k hc hk hkc hr

/-- **A placed group is sent** as soon as the CU-facing port has room (the `currWG` retry), and
    **an admitted group is sent** in the same call when the port has room. -/
theorem placed_or_admitted_group_is_sent (cp : CP) (i : Nat) (hr : 0 < cp.cuRoom) :
    (∀ dl, cp.fault = none → (cp.disp i).currWG = some dl →
      (dispatchNextWG cp i).2 = true ∧
      (dispatchNextWG cp i).1.log = .map cp.nextReq dl.cu dl.launch dl.idx dl.locs :: cp.log) ∧
    (∀ cp1 dl, (cp.disp i).currWG = none → (cp.disp i).alg.hasNext = true →
      algNext cp i = (cp1, some dl) → cp1.fault = none →
      (dispatchNextWG cp i).2 = true ∧
      (dispatchNextWG cp i).1.log = .map cp.nextReq dl.cu dl.launch dl.idx dl.locs :: cp.log) :=
  ⟨fun dl hf hcw => placed_group_is_sent cp i dl hf hcw hr,
   fun cp1 dl hcw hn ha hf => admitted_group_is_sent cp i cp1 dl hcw hn ha hf hr⟩

/-- **The owner consumes the head completion message**: if the message at the head of the CU-facing
    port names a request in flight at dispatcher `i`, its `processMessagesFromCU` reports progress
    and afterwards none of the message's ids is in flight at `i` any more (ids of other dispatchers
    stay at the head for their owners — the repaired behaviour). -/
theorem own_completion_is_consumed' (cp : CP) (i n : Nat) (ids : List Nat) (rest : List (List Nat))
    (hdc : DCI cp) (hi : i < cp.disps.length) (hcu : cp.cuIn = ids :: rest)
    (hmine : ∃ id ∈ ids, (cp.disp i).inflight.any (·.1 = id) = true) :
    (procMsgs i (n + 1) cp).2 = true ∧
    ∀ id ∈ ids, ¬ ((procMsgs i (n + 1) cp).1.disp i).inflight.any (·.1 = id) = true :=
  own_completion_is_consumed cp i n ids rest hdc hi hcu hmine

/-- **`quiescent_is_waiting`.** A dispatcher tick that reports no progress emits nothing and means:
    no overhead is pending, and the dispatcher is idle, or its answer waits for room in the
    driver-facing port (state unchanged), or it is not complete and either nothing is placed (no CU
    admitted the next group, or all groups are mapped and completions are awaited), or the placed
    group waits for room in the CU-facing port, or a fault stopped it; and the completion message at
    the head of the port (if any) names none of its in-flight requests. Each disjunct is resolved by
    an event that wakes an Akita ticking component (port free, message delivered) or by another
    dispatcher's progress. -/
theorem quiescent_is_waiting' (cp : CP) (i : Nat) (cp' : CP) (hdc : DCI cp)
    (h : dispTick cp i = (cp', false)) :
    (cp.disp i).cycleLeft = 0 ∧ cp'.log = cp.log ∧
    ((cp.disp i).kern = none ∨ ∃ k, (cp.disp i).kern = some k ∧
      ((kernelCompleted (cp.disp i) = true ∧ cp.drvRoom = 0 ∧ cp' = cp) ∨
       (kernelCompleted (cp.disp i) = false ∧
         ((cp'.disp i).currWG = none ∨ cp'.fault.isSome = true ∨ cp'.cuRoom = 0)))) ∧
    (cp'.fault.isSome = false → cp'.cuIn = [] ∨ ∃ ids rest, cp'.cuIn = ids :: rest ∧
      ∀ id ∈ ids, ¬ (cp'.disp i).inflight.any (·.1 = id) = true) :=
  quiescent_is_waiting cp i cp' hdc h

example : (dispTick (run (mkCP demoCfg 8 demoPool) (demoOps.take 8)) 0).2 = false := by decide

/-! ## run level: answered ⇒ the whole grid, exactly once, completed -/

/-- the state after the demo scenario: both launches answered, everything quiet -/
def demoEnd : CP := run (mkCP demoCfg 8 demoPool) demoOps

/-- **`launch_rsp_implies_whole_grid`** (trace invariant, every run). Along every op sequence — any
    number of dispatchers and CUs, overlapping launches (distinct ids), completions in any order, batched,
    foreign or duplicated, any back-pressure — as soon as the trace holds a `LaunchKernelRsp` for a
    launch `k` that was delivered: the `MapWGReq`s of `k` in the trace are exactly work-groups
    `0 … NumWG−1`, each once (in grid order); every one of those requests has completed — its id is in the
    ghost list `done`, which `completeOne` extends only when the owner consumes a completion message
    naming a request in flight at it — and is in flight at no dispatcher any more; no completion is ever
    counted twice (`done` has no duplicates) and the request ids of the trace are `0, 1, 2, …` (so a
    request id identifies one `MapWGReq`). Proved as an invariant (`WI`, `MgpuProofs/C09Grid.lean`) of
    the five atomic steps every tick decomposes into (`cpTick_steps`). -/
theorem launch_rsp_implies_whole_grid (cfg : Cfg) (nd : Nat) (pool : List CU) (ops : List Op)
    (hids : (launchIds ops).Nodup) (k : Kern) (hk : Op.launch k ∈ ops)
    (hr : 1 ≤ rspCount (run (mkCP cfg nd pool) ops).log k.id) :
    mapsOf (run (mkCP cfg nd pool) ops).log k.id = List.range k.numWG ∧
    (∀ r c idx locs, Ev.map r c k.id idx locs ∈ (run (mkCP cfg nd pool) ops).log →
      r ∈ (run (mkCP cfg nd pool) ops).done ∧
      ∀ j, ∀ e ∈ ((run (mkCP cfg nd pool) ops).disp j).inflight, e.1 ≠ r) ∧
    (run (mkCP cfg nd pool) ops).done.Nodup ∧
    reqsOf (run (mkCP cfg nd pool) ops).log = List.range (run (mkCP cfg nd pool) ops).nextReq :=
  rsp_implies_whole_grid cfg nd pool ops hids k hk hr

example : (launchIds demoOps).Nodup ∧ Op.launch ⟨0, 160, 64, 16, 4, 256⟩ ∈ demoOps ∧
    rspCount demoEnd.log 0 = 1 ∧ mapsOf demoEnd.log 0 = [0, 1, 2] ∧ demoEnd.done = [2, 3, 0, 1] ∧
    reqsOf demoEnd.log = [0, 1, 2, 3] := by decide

/-- **Every tick is a sequence of five kinds of atomic accounting steps** (`VStep`: an overhead cycle
    passes; a `MapWGReq` for the next index with a fresh id; the owner consumes the completion of an
    in-flight request; the response of a fully mapped and completed kernel; an idle dispatcher takes
    the head launch) on the accounting view of the state — and the sequence is empty exactly when the
    tick reports no progress. All run-level invariants and the measure below are proved on these five
    steps. -/
theorem tick_is_atomic_steps (cfg : Cfg) (nd : Nat) (pool : List CU) (ops : List Op) :
    Steps (cpTick (run (mkCP cfg nd pool) ops)).2 (run (mkCP cfg nd pool) ops).view
      (cpTick (run (mkCP cfg nd pool) ops)).1.view :=
  cpTick_steps _ (dci_run cfg nd pool ops)

example : (cpTick (run (mkCP demoCfg 8 demoPool) (demoOps.take 2))).2 = true := by decide

/-! ## progress measure, `no_stuck`, liveness under a fair environment -/

/-- **`dispatch_progress`.** The lexicographic measure `(U, F, C)` of the accounting view —
    `U` = Σ over queued launches of `NumWG + 2` + Σ over dispatching kernels of `NumWG − mapped + 1`
    (work-groups not yet mapped, plus one for taking the launch and one for answering it), `F` =
    requests in flight, `C` = overhead cycles left — strictly decreases on **every** tick that reports
    progress, in every reachable state; a tick that reports no progress leaves the accounting view
    unchanged (it may only move placement cursors or fetch / place one work-group). The order is
    well-founded, so between two environment moves only finitely many ticks make progress. (Unread
    completion messages need no component: a message leaves the port only together with at least one
    in-flight request, which lowers `F`.) -/
theorem dispatch_progress (cfg : Cfg) (nd : Nat) (pool : List CU) (ops : List Op) :
    ((cpTick (run (mkCP cfg nd pool) ops)).2 = true →
      lt3 (cpTick (run (mkCP cfg nd pool) ops)).1.view.mu (run (mkCP cfg nd pool) ops).view.mu) ∧
    ((cpTick (run (mkCP cfg nd pool) ops)).2 = false →
      (cpTick (run (mkCP cfg nd pool) ops)).1.view = (run (mkCP cfg nd pool) ops).view) ∧
    WellFounded lt3 :=
  ⟨(cpTick_mu _ (dci_run cfg nd pool ops)).1, (cpTick_mu _ (dci_run cfg nd pool ops)).2, lt3_wf⟩

example : ((List.range 12).map fun n => (run (mkCP demoCfg 8 demoPool) (demoOps.take (n + 2))).view.mu) =
    [(8, 0, 0), (6, 0, 0), (6, 0, 0), (5, 1, 0), (5, 1, 0), (5, 1, 0), (2, 4, 0), (2, 4, 0), (2, 3, 0),
     (2, 3, 0), (2, 1, 1), (2, 1, 0)] := by decide

/-- what the environment may still owe the command processor -/
def EnvOwes (cp : CP) : Prop :=
  cp.cuRoom = 0 ∨ cp.drvRoom = 0 ∨
  (∃ j r, (cp.disp j).inFl r ∧ ∀ m ∈ cp.cuIn, r ∉ m) ∨
  (∃ ids rest, cp.cuIn = ids :: rest ∧ ∀ r ∈ ids, ∀ j, ¬ (cp.disp j).inFl r)

/-- **`no_stuck`.** In every reachable state with at least one dispatcher, while some launch is
    unanswered (queued or being dispatched): a tick makes progress, or ends in a fault, or the command
    processor waits for something the environment owes — room in the CU-facing or the driver-facing
    port, the completion of an in-flight request that has not been delivered yet, or the removal of a
    message at the head of the port that names no in-flight request (a bogus completion, which the Go
    code leaves in the port for ever) — or nothing at all is in flight and every CU refused the next
    work-group of a dispatcher in this very tick (`RefusedIdle`; since the repair 91eb1bb3 a launch whose
    first work-group fits no empty CU is rejected with a fault when it is taken, so this alternative
    needs an initial pool that is not empty, see the examples below; `Props/C09Fit.lean` and
    `Props/C09Held.lean` discharge it for a pool without residents). -/
theorem no_stuck (cfg : Cfg) (nd : Nat) (pool : List CU) (ops : List Op) (hnd : 0 < nd)
    (hun : ¬ AllAnswered (run (mkCP cfg nd pool) ops)) :
    (cpTick (run (mkCP cfg nd pool) ops)).2 = true ∨
    (cpTick (run (mkCP cfg nd pool) ops)).1.fault ≠ none ∨
    EnvOwes (run (mkCP cfg nd pool) ops) ∨ RefusedIdle (run (mkCP cfg nd pool) ops) := by
  have hdc := dci_run cfg nd pool ops
  have hlen : 0 < (run (mkCP cfg nd pool) ops).disps.length := by
    have := fair_len cfg nd pool ops
    omega
  by_cases hb : (cpTick (run (mkCP cfg nd pool) ops)).2 = true
  · exact Or.inl hb
  · by_cases hf : (cpTick (run (mkCP cfg nd pool) ops)).1.fault = none
    · right; right
      by_cases henv : EnvReady (run (mkCP cfg nd pool) ops)
      · right
        have hb' : (cpTick (run (mkCP cfg nd pool) ops)).2 = false := by
          cases hx : (cpTick (run (mkCP cfg nd pool) ops)).2 with
          | true => exact absurd hx hb
          | false => rfl
        exact (no_stuck_core _ hdc hlen hb' hf henv).resolve_left hun
      · left
        unfold EnvReady at henv
        unfold EnvOwes
        by_cases h1 : (run (mkCP cfg nd pool) ops).cuRoom = 0
        · exact Or.inl h1
        by_cases h2 : (run (mkCP cfg nd pool) ops).drvRoom = 0
        · exact Or.inr (Or.inl h2)
        by_cases h3 : ∃ j r, ((run (mkCP cfg nd pool) ops).disp j).inFl r ∧
            ∀ m ∈ (run (mkCP cfg nd pool) ops).cuIn, r ∉ m
        · exact Or.inr (Or.inr (Or.inl h3))
        by_cases h4 : ∃ ids rest, (run (mkCP cfg nd pool) ops).cuIn = ids :: rest ∧
            ∀ r ∈ ids, ∀ j, ¬ ((run (mkCP cfg nd pool) ops).disp j).inFl r
        · exact Or.inr (Or.inr (Or.inr h4))
        exfalso
        apply henv
        refine ⟨by omega, by omega, ?_, ?_⟩
        · intro j r hin
          apply Classical.byContradiction
          intro hno
          exact h3 ⟨j, r, hin, fun m hm hr => hno ⟨m, hm, hr⟩⟩
        · intro ids rest hcu
          apply Classical.byContradiction
          intro hno
          exact h4 ⟨ids, rest, hcu, fun r hr j hin => hno ⟨r, hr, j, hin⟩⟩
    · exact Or.inr (Or.inl hf)

/-- a work-group asking for 200 SGPRs never fits the 64-SGPR demo CUs. Before the repair (91eb1bb3,
    `runOld` / `cpTickOld`): nothing is in flight, the ports have room, nothing is owed — and the tick
    makes no progress, for ever. The repaired `StartDispatching` rejects the launch in the tick that
    takes it (`fault:oversize`; `Props/C09Fit.lean`: `oversize_group_is_rejected`). -/
def tooBigOps : List Op := [.launch ⟨0, 64, 64, 200, 4, 256⟩, .tick, .tick]

example : ¬ AllAnswered (runOld (mkCP demoCfg 2 demoPool) tooBigOps) ∧
    (cpTickOld (runOld (mkCP demoCfg 2 demoPool) tooBigOps)).2 = false ∧
    (cpTickOld (runOld (mkCP demoCfg 2 demoPool) tooBigOps)).1.fault = none ∧
    (runOld (mkCP demoCfg 2 demoPool) tooBigOps).cuRoom = 4096 ∧
    (runOld (mkCP demoCfg 2 demoPool) tooBigOps).cuIn = [] ∧
    (runOld (mkCP demoCfg 2 demoPool) tooBigOps).disps.map (·.inflight) = [[], []] ∧
    (run (mkCP demoCfg 2 demoPool) tooBigOps).fault = some "oversize" :=
  ⟨fun h => absurd (h.2 0) (by decide), by decide, by decide, by decide, by decide, by decide, by decide⟩

/-- `no_stuck` is stated for an arbitrary initial pool; its alternative `RefusedIdle` remains reachable
    when the pool handed to `mkCP` already holds a resident work-group that no dispatcher holds (here
    it fills the CU): the launch passes the fit check — the check looks at the *empty* CU — but is
    refused at every tick. From a pool without residents this cannot happen (`Props/C09Fit.lean`,
    `Props/C09Held.lean`). -/
def foreignCU : CU := (reserve demoCU 99 ⟨4, 16, 4, 1024⟩).2
def foreignOps : List Op := [.launch ⟨0, 64, 64, 16, 4, 256⟩, .tick, .tick]

example : ¬ AllAnswered (run (mkCP demoCfg 2 [foreignCU]) foreignOps) ∧
    (cpTick (run (mkCP demoCfg 2 [foreignCU]) foreignOps)).2 = false ∧
    (cpTick (run (mkCP demoCfg 2 [foreignCU]) foreignOps)).1.fault = none ∧
    (run (mkCP demoCfg 2 [foreignCU]) foreignOps).cuRoom = 4096 ∧
    (run (mkCP demoCfg 2 [foreignCU]) foreignOps).cuIn = [] ∧
    (run (mkCP demoCfg 2 [foreignCU]) foreignOps).disps.map (·.inflight) = [[], []] ∧
    (cpTick (run (mkCP demoCfg 2 [foreignCU]) foreignOps)).1 = run (mkCP demoCfg 2 [foreignCU]) foreignOps :=
  ⟨fun h => absurd (h.2 0) (by decide), by decide, by decide, by decide, by decide, by decide, by decide⟩

/-- **`fair_environment_answers_every_launch`** (temporal liveness). Let any finite op sequence `ops0`
    (it contains all the launches, ids distinct) be followed by an infinite launch-free schedule of
    ticks, completion messages and port-room changes. If no fault occurs and the environment is fair —
    again and again a tick happens at a moment when it owes nothing (`EnvReady`: both ports have room,
    the completion of every in-flight request has been delivered, the head message names an in-flight
    request) — then after finitely many moves every launch of `ops0` has exactly one
    `LaunchKernelRsp` and its whole grid `0 … NumWG−1` mapped exactly once, **or** a tick is reached
    in which nothing is in flight anywhere and every CU refuses the next work-group of a dispatcher (a
    group that does not fit an idle pool; the Go dispatcher hangs there as well). Proof: after the last
    launch the measure of `dispatch_progress` never increases, so from some point on no tick makes
    progress; the next fair tick then falls under `no_stuck`. -/
theorem fair_environment_answers_every_launch (cfg : Cfg) (nd : Nat) (pool : List CU) (ops0 : List Op)
    (sched : Nat → Op) (hnd : 0 < nd) (hids : (launchIds ops0).Nodup)
    (hnl : ∀ n k, sched n ≠ .launch k)
    (hfault : ∀ n, (run (mkCP cfg nd pool) (ops0 ++ prefixOf sched n)).fault = none)
    (hfair : ∀ n, ∃ m, n ≤ m ∧ sched m = .tick ∧
      EnvReady (run (mkCP cfg nd pool) (ops0 ++ prefixOf sched m))) :
    ∃ N, (∀ k, Op.launch k ∈ ops0 →
            rspCount (run (mkCP cfg nd pool) (ops0 ++ prefixOf sched N)).log k.id = 1 ∧
            mapsOf (run (mkCP cfg nd pool) (ops0 ++ prefixOf sched N)).log k.id = List.range k.numWG) ∨
         RefusedIdle (run (mkCP cfg nd pool) (ops0 ++ prefixOf sched N)) := by
  obtain ⟨N, hN⟩ := fair_run_answers cfg nd pool ops0 sched hnd hnl hfault hfair
  refine ⟨N, ?_⟩
  rcases hN with hN | hN
  · left
    intro k hk
    have hids' : (launchIds (ops0 ++ prefixOf sched N)).Nodup := by
      rw [launchIds_prefix ops0 sched hnl N]; exact hids
    have hk' : Op.launch k ∈ ops0 ++ prefixOf sched N := List.mem_append_left _ hk
    have h1 := all_answered_rsp cfg nd pool _ hids' hN k hk'
    exact ⟨h1, (rsp_implies_whole_grid cfg nd pool _ hids' k hk' (by omega)).1⟩
  · exact Or.inr hN

/-- the hypotheses of `fair_environment_answers_every_launch` are met by the demo scenario followed by
    ticks for ever (no fault, nothing in flight, no unread message, both ports have room) -/
example : ∃ N, (∀ k, Op.launch k ∈ demoOps →
      rspCount (run (mkCP demoCfg 8 demoPool) (demoOps ++ prefixOf (fun _ => Op.tick) N)).log k.id = 1 ∧
      mapsOf (run (mkCP demoCfg 8 demoPool) (demoOps ++ prefixOf (fun _ => Op.tick) N)).log k.id
        = List.range k.numWG) ∨
    RefusedIdle (run (mkCP demoCfg 8 demoPool) (demoOps ++ prefixOf (fun _ => Op.tick) N)) := by
  -- the end state is a fixed point of the tick
  have demo_forever : ∀ n, run (mkCP demoCfg 8 demoPool) (demoOps ++ prefixOf (fun _ => Op.tick) n) = demoEnd := by
    intro n
    induction n with
    | zero => simp [prefixOf, demoEnd]
    | succ n ih =>
      rw [run_prefix_succ, ih]
      show (cpTick demoEnd).1 = demoEnd
      decide
  refine fair_environment_answers_every_launch demoCfg 8 demoPool demoOps (fun _ => Op.tick) (by decide)
    (by decide) (fun n k h => by cases h) (fun n => by rw [demo_forever]; decide) ?_
  intro n
  refine ⟨n, Nat.le_refl _, rfl, ?_⟩
  rw [demo_forever]
  have hnone : ∀ j r, ¬ (demoEnd.disp j).inFl r := by
    intro j r
    have := disp_forall demoEnd (fun d => d.inflight = []) rfl (by decide) j
    simp [Disp.inFl, this]
  refine ⟨by decide, by decide, fun j r h => absurd h (hnone j r), ?_⟩
  intro ids rest h
  have : demoEnd.cuIn = [] := by decide
  rw [this] at h; cases h

/-! ## the partition placement algorithm -/

/-- **`partition_conserves`.** Model `MgpuModel/C09_Part.lean` of `partitionAlgorithm` (per-CU
    partitions whose builders skipped `i·⌈n/numCU⌉` groups, pending work-groups, work stealing by a CU
    whose partition is used up), driven like a dispatcher (`for HasNext { Next }`, at most `fuel`
    calls), with **any** pattern of CU refusals (`fails`), any grid size and any positive number of CUs:
    no work-group is offered twice, none outside the grid, every placement names an existing CU; and when
    the loop ends because `HasNext` is false, the offered work-groups are a permutation of
    `0 … numWG−1` — each exactly once. -/
theorem partition_conserves (numWG n fuel : Nat) (fails : List Bool) (hn : 0 < n) :
    (wgsOf (Part.run fuel (Part.start numWG n) fails []).1).Nodup ∧
    (∀ w ∈ wgsOf (Part.run fuel (Part.start numWG n) fails []).1, w < numWG) ∧
    (∀ c w, some (c, w) ∈ (Part.run fuel (Part.start numWG n) fails []).1 → c < n) ∧
    ((Part.run fuel (Part.start numWG n) fails []).2 = false →
      (wgsOf (Part.run fuel (Part.start numWG n) fails []).1).Perm (List.range numWG)) :=
  part_conserves numWG n fuel fails hn

/-- **`partition_offers_every_group`** (the loop does not get stuck). When the CUs refuse only finitely
    often (`countT fails` refusals, in any positions), `numWG + countT fails` calls of `Next` suffice:
    every call places a work-group or uses up a refusal (while groups are left, some partition can
    offer one to its own CU and the loop of `Next` visits every partition). The loop therefore ends
    with `HasNext = false`, and the work-groups offered are exactly `0 … numWG−1`, each once. -/
theorem partition_offers_every_group (numWG n fuel : Nat) (fails : List Bool) (hn : 0 < n)
    (hfuel : numWG + countT fails ≤ fuel) :
    (Part.run fuel (Part.start numWG n) fails []).2 = false ∧
    (wgsOf (Part.run fuel (Part.start numWG n) fails []).1).Perm (List.range numWG) :=
  ⟨part_never_stuck numWG n fuel fails hn hfuel,
   (part_conserves numWG n fuel fails hn).2.2.2 (part_never_stuck numWG n fuel fails hn hfuel)⟩

example : countT [true, true, false, true] = 3 ∧
    wgsOf (Part.run 8 (Part.start 5 4) [true, true, false, true] []).1 = [4, 2, 0, 3, 1] := by decide

/-- 5 work-groups on 4 CUs, the first, second and fourth reservation refused: CU 2 is served first, CU 1
    takes work-group 2 in the second round, nothing is lost -/
example : Part.run 40 (Part.start 5 4) [true, true, false, true] [] =
    ([some (2, 4), some (1, 2), some (0, 0), some (1, 3), some (0, 1)], false) := by decide

end C09
