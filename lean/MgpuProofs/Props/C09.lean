import MgpuProofs.C09Res
import MgpuModel.C09_Disp
/-! # C09 — work-groups are dispatched exactly once within compute-unit resources

Statements about the models in `MgpuModel/C09_Res.lean` (resource masks and one CU's
`ReserveResourceForWG` / `FreeResourcesForWG`) and `MgpuModel/C09_Disp.lean` (dispatchers sharing
one pool inside the command processor), for **every** sequence of calls / environment moves and
**every** CU shape (numbers of SIMDs, wavefront slots, register-file and LDS sizes, unlimited
masks) and demand. The models are tied to the real code by the per-run correspondence check. -/
namespace C09

/-- a small CU: 2 SIMDs × 2 slots, 64 SGPRs (4 units), 512 VGPRs per SIMD (2 units), 1 KiB LDS -/
def demoCU : CU := (mkCU [2, 2] (some 64) [some 512, some 512] (some 1024)).getD default

/-- one group admitted (it fills the SGPR file), one refused, the first freed, another admitted -/
def demoROps : List ROp :=
  [.reserve 1 ⟨2, 17, 5, 300⟩, .reserve 2 ⟨2, 16, 8, 512⟩, .free 1, .reserve 4 ⟨1, 16, 4, 256⟩]

/-- **A freshly registered CU satisfies the invariant**, for any wavefront-pool sizes and any
    register/LDS counts that are multiples of the granularity (or unlimited). -/
theorem registered_cu_inv (wf : List Nat) (s : Option Nat) (v : List (Option Nat)) (l : Option Nat)
    (cu : CU) (h : mkCU wf s v l = some cu) (hlen : wf.length = v.length) (hpos : 0 < wf.length) :
    Inv wf cu := mkCU_inv wf s v l cu h hlen hpos

example : mkCU [2, 2] (some 64) [some 512, some 512] (some 1024) = some demoCU := by decide

/-- **`reserve_inv`.** After every sequence of `ReserveResourceForWG` / `FreeResourcesForWG` calls
    with arbitrary demands (each group having at least one wavefront, which every group of a grid
    has — C08), on a CU that satisfied the invariant: the regions recorded for resident
    work-groups are pairwise disjoint per resource (SGPR, LDS, each SIMD's VGPR file) and lie
    inside the mask; a mask cell is `Reserved` iff it lies in a recorded region and no `ToReserve`
    cell survives a call; free wavefront slots + resident wavefronts = pool size on every SIMD;
    work-group keys are distinct. (`Inv`, `MgpuProofs/C09Res2.lean`.) -/
theorem reserve_inv' (cap : List Nat) (cu0 : CU) (hinv : Inv cap cu0) (hcap : 0 < cap.length)
    (ops : List ROp) (hops : ∀ op ∈ ops, ∀ k d, op = .reserve k d → 1 ≤ d.nwf)
    (cu' : CU) (h : runR cu0 ops = some cu') : Inv cap cu' :=
  reserve_inv cap cu0 hinv hcap ops hops cu' h

example : ((runR demoCU demoROps).map fun cu => (cu.wfFree, cu.resident.map (·.1), cu.nextSIMD))
    = some ([1, 2], [4], 1) := by decide

/-- **A zero-wavefront group would leak its LDS region** (the free loop runs once per wavefront):
    the hypothesis `1 ≤ nwf` of `reserve_inv'` is necessary. No grid produces such a group. -/
theorem zero_wavefront_group_leaks_lds :
    ((mkCU [10] (some 32) [some 256] (some 512)).bind fun cu0 =>
        runR cu0 [.reserve 7 ⟨0, 0, 0, 256⟩, .free 7]).map (fun c => (c.resident, c.lmask))
      = some ([], .lim [2, 0]) :=
  nwf_zero_leaks_lds

/-- **Reserve succeeds only on free resources.** When `ReserveResourceForWG` answers ok, it hands
    out one location per wavefront; every SGPR / LDS / VGPR cell of every region handed out was
    `Free` before the call, and each SIMD had at least as many free wavefront slots as it
    received wavefronts. -/
theorem reserve_ok_only_if_free (cap : List Nat) (cu : CU) (key : Nat) (d : Dem) (locs : List Loc)
    (cu' : CU) (hinv : Inv cap cu) (h : reserve cu key d = (.ok locs, cu')) :
    locs.length = d.nwf ∧
    (∀ l ∈ locs, ∀ i, inR (l.soff / 64, units d.s sGran) i → ∀ m, cu.smask = .lim m → m[i]? = some 0) ∧
    (∀ l ∈ locs, ∀ i, inR (l.loff / 256, units d.l lGran) i → ∀ m, cu.lmask = .lim m → m[i]? = some 0) ∧
    (∀ l ∈ locs, ∀ i, inR (l.voff / 16, units d.v vGran) i →
        ∀ m, cu.vmasks[l.simd]? = some (.lim m) → m[i]? = some 0) ∧
    (∀ k, (locs.filter (·.simd = k)).length ≤ cu.wfFree.getD k 0) :=
  reserve_ok_regions_were_free cap cu key d locs cu' hinv h

example : (reserve demoCU 1 ⟨3, 16, 4, 256⟩).1 = .ok [⟨0, 0, 0, 0⟩, ⟨1, 0, 64, 0⟩, ⟨0, 16, 128, 0⟩] := by decide

/-- **A refused or granted reservation leaves a consistent CU**: on `ok` the group is appended to
    the resident list; on refusal the resident list and the free-slot counters are unchanged and
    every `ToReserve` mark is cleared (part of `Inv`). -/
theorem reserve_step (cap : List Nat) (cu : CU) (key : Nat) (d : Dem) (res : RRes) (cu' : CU)
    (hinv : Inv cap cu) (h : reserve cu key d = (res, cu')) :
    (∀ locs, res = .ok locs → 1 ≤ d.nwf → Inv cap cu' ∧ cu'.resident = cu.resident ++ [(key, d, locs)]) ∧
    (res = .no → Inv cap cu' ∧ cu'.resident = cu.resident ∧ cu'.wfFree = cu.wfFree) :=
  reserve_preserves cap cu key d res cu' hinv h

example : (reserve demoCU 1 ⟨5, 0, 0, 0⟩).1 = .no := by decide

/-- **`free_all_restores_initial`.** When every resident group has been freed, all wavefront
    slots are free again and every limited mask is all-`Free` — whatever happened in between
    (only the `nextSIMD` cursor and the bump counters of unlimited masks may differ from the
    freshly registered CU). -/
theorem free_all_restores_initial' (cap : List Nat) (cu : CU) (hinv : Inv cap cu) (hres : cu.resident = []) :
    cu.wfFree = cap ∧ (∀ m, cu.smask = .lim m → m = List.replicate m.length 0) ∧
    (∀ m, cu.lmask = .lim m → m = List.replicate m.length 0) ∧
    (∀ k (h : k < cu.vmasks.length) m, cu.vmasks[k] = .lim m → m = List.replicate m.length 0) :=
  free_all_restores_initial cap cu hinv hres

example : ((runR demoCU (demoROps ++ [.free 4])).map fun cu => (cu.wfFree, cu.smask, cu.lmask))
    = some ([2, 2], .lim [0, 0, 0, 0], .lim [0, 0, 0, 0]) := by decide

/-- **`byte_offsets_disjoint`.** How unit offsets become the byte offsets in `MapWGReq`
    (`SGPROffset = unit·64`, `VGPROffset = unit·16` per lane with a 1024-byte lane stride,
    `LDSOffset = unit·256`): a wavefront's `4·s` SGPR bytes / `4·v` VGPR bytes per lane / `l` LDS
    bytes fit the units reserved for it; ranges of disjoint unit regions are disjoint; a region
    inside the mask gives bytes inside the register file (`64·200 = 3200·4` scalar bytes,
    `64 lanes · 1024 = 16384·4` vector bytes per SIMD, `256·256` LDS bytes — the sizes
    `cu.MakeBuilder` allocates, compared with the real CU by the `c09 const` case). Together with
    `reserve_inv'` (regions pairwise disjoint and inside the mask) this is the non-aliasing
    hypothesis C07 consumes. -/
theorem byte_offsets_disjoint' :
    (∀ s, 4 * s ≤ 64 * units s sGran) ∧
    (∀ s ua ub, ua + units s sGran ≤ ub → ua * 64 + 4 * s ≤ ub * 64) ∧
    (∀ s u, u + units s sGran ≤ shippedSRegs / sGran → u * 64 + 4 * s ≤ shippedSRegs * 4) ∧
    (∀ v, 4 * v ≤ 16 * units v vGran) ∧
    (∀ v u ℓ, ℓ < 64 → u + units v vGran ≤ 16384 / vGran / 64 →
      ℓ * 1024 + u * 16 + 4 * v ≤ (ℓ + 1) * 1024 ∧ ℓ * 1024 + u * 16 + 4 * v ≤ 16384 * 4) ∧
    (∀ v ua ub ℓa ℓb, ℓa < ℓb → ua + units v vGran ≤ 64 →
      ℓa * 1024 + ua * 16 + 4 * v ≤ ℓb * 1024 + ub * 16) ∧
    (∀ v ua ub ℓ, ua + units v vGran ≤ ub → ℓ * 1024 + ua * 16 + 4 * v ≤ ℓ * 1024 + ub * 16) ∧
    (∀ l, l ≤ 256 * units l lGran) ∧
    (∀ l ua ub, ua + units l lGran ≤ ub → ua * 256 + l ≤ ub * 256) ∧
    (∀ l u, u + units l lGran ≤ shippedLDS / lGran → u * 256 + l ≤ shippedLDS) := by
  have h := byte_offsets_disjoint sGran 64 vGran 16 1024 64 65536 lGran rfl rfl rfl rfl rfl rfl rfl rfl
  obtain ⟨h1, h2, h3, h4, h5, h6, h7, h8, h9, h10⟩ := h
  refine ⟨h1, h2, ?_, h4, ?_, h6, h7, h8, h9, ?_⟩
  · intro s u hu
    have := h3 s u (shippedSRegs / sGran) hu
    simpa [shippedSRegs, sGran] using this
  · intro v u ℓ hl hu
    have := h5 v u ℓ hl (by simpa [vGran] using hu)
    simpa using this
  · intro l u hu
    have := h10 l u (shippedLDS / lGran) hu
    simpa [shippedLDS, lGran] using this

example : units 102 sGran = 7 ∧ units 0 vGran = 0 ∧ units 257 lGran = 2 := by decide

end C09
