import MgpuProofs.C09Res
import MgpuProofs.C09Pool
import MgpuProofs.C09Once2
import MgpuProofs.C09Live
/-! # C09 — work-groups are dispatched exactly once within compute-unit resources

Statements about the models in `MgpuModel/C09_Res.lean` (resource masks and one CU's
`ReserveResourceForWG` / `FreeResourcesForWG`) and `MgpuModel/C09_Disp.lean` (dispatchers sharing
one pool inside the command processor), for **every** sequence of calls / environment moves and
**every** CU shape (numbers of SIMDs, wavefront slots, register-file and LDS sizes, unlimited
masks) and demand. The models are tied to the real code by the per-run correspondence check. -/
namespace C09

/-- a small CU: 2 SIMDs × 2 slots, 64 SGPRs (4 units), 512 VGPRs per SIMD (2 units), 1 KiB LDS -/
def demoCU : CU := (mkCU [2, 2] (some 64) [some 512, some 512] (some 1024)).getD default

/-- one group admitted (it fills the SGPR file), one refused, the first freed, another admitted -/
def demoROps : List ROp :=
  [.reserve 1 ⟨2, 17, 5, 300⟩, .reserve 2 ⟨2, 16, 8, 512⟩, .free 1, .reserve 4 ⟨1, 16, 4, 256⟩]

/-- **A freshly registered CU satisfies the invariant**, for any wavefront-pool sizes and any
    register/LDS counts that are multiples of the granularity (or unlimited). -/
theorem registered_cu_inv (wf : List Nat) (s : Option Nat) (v : List (Option Nat)) (l : Option Nat)
    (cu : CU) (h : mkCU wf s v l = some cu) (hlen : wf.length = v.length) (hpos : 0 < wf.length) :
    Inv wf cu := mkCU_inv wf s v l cu h hlen hpos

example : mkCU [2, 2] (some 64) [some 512, some 512] (some 1024) = some demoCU := by decide

/-- **`reserve_inv`.** After every sequence of `ReserveResourceForWG` / `FreeResourcesForWG` calls
    with arbitrary demands (each group having at least one wavefront, which every group of a grid
    has — C08), on a CU that satisfied the invariant: the regions recorded for resident
    work-groups are pairwise disjoint per resource (SGPR, LDS, each SIMD's VGPR file) and lie
    inside the mask; a mask cell is `Reserved` iff it lies in a recorded region and no `ToReserve`
    cell survives a call; free wavefront slots + resident wavefronts = pool size on every SIMD;
    work-group keys are distinct. (`Inv`, `MgpuProofs/C09Res2.lean`.) -/
theorem reserve_inv' (cap : List Nat) (cu0 : CU) (hinv : Inv cap cu0) (hcap : 0 < cap.length)
    (ops : List ROp) (hops : ∀ op ∈ ops, ∀ k d, op = .reserve k d → 1 ≤ d.nwf)
    (cu' : CU) (h : runR cu0 ops = some cu') : Inv cap cu' :=
  reserve_inv cap cu0 hinv hcap ops hops cu' h

example : ((runR demoCU demoROps).map fun cu => (cu.wfFree, cu.resident.map (·.1), cu.nextSIMD))
    = some ([1, 2], [4], 1) := by decide

/-- **A zero-wavefront group would leak its LDS region** (the free loop runs once per wavefront):
    the hypothesis `1 ≤ nwf` of `reserve_inv'` is necessary. No grid produces such a group. -/
theorem zero_wavefront_group_leaks_lds :
    ((mkCU [10] (some 32) [some 256] (some 512)).bind fun cu0 =>
        runR cu0 [.reserve 7 ⟨0, 0, 0, 256⟩, .free 7]).map (fun c => (c.resident, c.lmask))
      = some ([], .lim [2, 0]) :=
  nwf_zero_leaks_lds

/-- **Reserve succeeds only on free resources.** When `ReserveResourceForWG` answers ok, it hands
    out one location per wavefront; every SGPR / LDS / VGPR cell of every region handed out was
    `Free` before the call, and each SIMD had at least as many free wavefront slots as it
    received wavefronts. -/
theorem reserve_ok_only_if_free (cap : List Nat) (cu : CU) (key : Nat) (d : Dem) (locs : List Loc)
    (cu' : CU) (hinv : Inv cap cu) (h : reserve cu key d = (.ok locs, cu')) :
    locs.length = d.nwf ∧
    (∀ l ∈ locs, ∀ i, inR (l.soff / 64, units d.s sGran) i → ∀ m, cu.smask = .lim m → m[i]? = some 0) ∧
    (∀ l ∈ locs, ∀ i, inR (l.loff / 256, units d.l lGran) i → ∀ m, cu.lmask = .lim m → m[i]? = some 0) ∧
    (∀ l ∈ locs, ∀ i, inR (l.voff / 16, units d.v vGran) i →
        ∀ m, cu.vmasks[l.simd]? = some (.lim m) → m[i]? = some 0) ∧
    (∀ k, (locs.filter (·.simd = k)).length ≤ cu.wfFree.getD k 0) :=
  reserve_ok_regions_were_free cap cu key d locs cu' hinv h

example : (reserve demoCU 1 ⟨3, 16, 4, 256⟩).1 = .ok [⟨0, 0, 0, 0⟩, ⟨1, 0, 64, 0⟩, ⟨0, 16, 128, 0⟩] := by decide

/-- **A refused or granted reservation leaves a consistent CU**: on `ok` the group is appended to
    the resident list; on refusal the resident list and the free-slot counters are unchanged and
    every `ToReserve` mark is cleared (part of `Inv`). -/
theorem reserve_step (cap : List Nat) (cu : CU) (key : Nat) (d : Dem) (res : RRes) (cu' : CU)
    (hinv : Inv cap cu) (h : reserve cu key d = (res, cu')) :
    (∀ locs, res = .ok locs → 1 ≤ d.nwf → Inv cap cu' ∧ cu'.resident = cu.resident ++ [(key, d, locs)]) ∧
    (res = .no → Inv cap cu' ∧ cu'.resident = cu.resident ∧ cu'.wfFree = cu.wfFree) :=
  reserve_preserves cap cu key d res cu' hinv h

example : (reserve demoCU 1 ⟨5, 0, 0, 0⟩).1 = .no := by decide

/-- **`free_all_restores_initial`.** When every resident group has been freed, all wavefront
    slots are free again and every limited mask is all-`Free` — whatever happened in between
    (only the `nextSIMD` cursor and the bump counters of unlimited masks may differ from the
    freshly registered CU). -/
theorem free_all_restores_initial' (cap : List Nat) (cu : CU) (hinv : Inv cap cu) (hres : cu.resident = []) :
    cu.wfFree = cap ∧ (∀ m, cu.smask = .lim m → m = List.replicate m.length 0) ∧
    (∀ m, cu.lmask = .lim m → m = List.replicate m.length 0) ∧
    (∀ k (h : k < cu.vmasks.length) m, cu.vmasks[k] = .lim m → m = List.replicate m.length 0) :=
  free_all_restores_initial cap cu hinv hres

example : ((runR demoCU (demoROps ++ [.free 4])).map fun cu => (cu.wfFree, cu.smask, cu.lmask))
    = some ([2, 2], .lim [0, 0, 0, 0], .lim [0, 0, 0, 0]) := by decide

/-- **`byte_offsets_disjoint`.** How unit offsets become the byte offsets in `MapWGReq`
    (`SGPROffset = unit·64`, `VGPROffset = unit·16` per lane with a 1024-byte lane stride,
    `LDSOffset = unit·256`): a wavefront's `4·s` SGPR bytes / `4·v` VGPR bytes per lane / `l` LDS
    bytes fit the units reserved for it; ranges of disjoint unit regions are disjoint; a region
    inside the mask gives bytes inside the register file (`64·200 = 3200·4` scalar bytes,
    `64 lanes · 1024 = 16384·4` vector bytes per SIMD, `256·256` LDS bytes — the sizes
    `cu.MakeBuilder` allocates, compared with the real CU by the `c09 const` case). Together with
    `reserve_inv'` (regions pairwise disjoint and inside the mask) this is the non-aliasing
    hypothesis C07 consumes. -/
theorem byte_offsets_disjoint' :
    (∀ s, 4 * s ≤ 64 * units s sGran) ∧
    (∀ s ua ub, ua + units s sGran ≤ ub → ua * 64 + 4 * s ≤ ub * 64) ∧
    (∀ s u, u + units s sGran ≤ shippedSRegs / sGran → u * 64 + 4 * s ≤ shippedSRegs * 4) ∧
    (∀ v, 4 * v ≤ 16 * units v vGran) ∧
    (∀ v u ℓ, ℓ < 64 → u + units v vGran ≤ 16384 / vGran / 64 →
      ℓ * 1024 + u * 16 + 4 * v ≤ (ℓ + 1) * 1024 ∧ ℓ * 1024 + u * 16 + 4 * v ≤ 16384 * 4) ∧
    (∀ v ua ub ℓa ℓb, ℓa < ℓb → ua + units v vGran ≤ 64 →
      ℓa * 1024 + ua * 16 + 4 * v ≤ ℓb * 1024 + ub * 16) ∧
    (∀ v ua ub ℓ, ua + units v vGran ≤ ub → ℓ * 1024 + ua * 16 + 4 * v ≤ ℓ * 1024 + ub * 16) ∧
    (∀ l, l ≤ 256 * units l lGran) ∧
    (∀ l ua ub, ua + units l lGran ≤ ub → ua * 256 + l ≤ ub * 256) ∧
    (∀ l u, u + units l lGran ≤ shippedLDS / lGran → u * 256 + l ≤ shippedLDS) := by
  have h := byte_offsets_disjoint sGran 64 vGran 16 1024 64 65536 lGran rfl rfl rfl rfl rfl rfl rfl rfl
  obtain ⟨h1, h2, h3, h4, h5, h6, h7, h8, h9, h10⟩ := h
  refine ⟨h1, h2, ?_, h4, ?_, h6, h7, h8, h9, ?_⟩
  · intro s u hu
    have := h3 s u (shippedSRegs / sGran) hu
    simpa [shippedSRegs, sGran] using this
  · intro v u ℓ hl hu
    have := h5 v u ℓ hl (by simpa [vGran] using hu)
    simpa using this
  · intro l u hu
    have := h10 l u (shippedLDS / lGran) hu
    simpa [shippedLDS, lGran] using this

example : units 102 sGran = 7 ∧ units 0 vGran = 0 ∧ units 257 lGran = 2 := by decide

/-! ## the command processor: N dispatchers on one pool -/

/-- a pool of two small CUs and a scenario with two overlapping kernels (3 + 1 work-groups),
    back-pressure on the CU-facing port, completions out of order and one batched completion
    message `[3, 0]` that mixes work-groups of both dispatchers -/
def demoPool : List CU := [demoCU, demoCU]

def demoOps : List Op :=
  [.launch ⟨0, 160, 64, 16, 4, 256⟩, .launch ⟨1, 64, 64, 32, 8, 512⟩, .tick, .cuRoom 1, .tick, .tick,
   .cuRoom 4096, .tick, .complete [1], .tick, .complete [3, 0], .tick, .tick, .complete [2], .tick, .tick,
   .tick, .tick, .tick]

def demoCfg : Cfg := { greedy := false, klo := 0, ko := 1, sklo := 0, thr := 0 }

/-- **Every work-group of a well-formed grid has a wavefront** (what `reserve_inv'` asks for). -/
theorem every_group_has_a_wavefront (k : Kern) (i : Nat) (hk : KernOK k) (hi : i < k.numWG) :
    1 ≤ k.nwfOf i := nwf_pos k i hk hi

example : KernOK ⟨0, 160, 64, 16, 4, 256⟩ ∧ (⟨0, 160, 64, 16, 4, 256⟩ : Kern).numWG = 3 ∧
    (⟨0, 160, 64, 16, 4, 256⟩ : Kern).nwfOf 2 = 1 := ⟨⟨by decide, by decide⟩, by decide, by decide⟩

/-- **`multi_dispatcher_safe`.** For any number of dispatchers sharing one pool (round-robin or
    greedy placement), any overheads, and **any** interleaving of ticks, launch requests,
    completion messages (single, batched, mixing dispatchers, unknown ids, any order and delay)
    and port back-pressure: every CU of the pool keeps the resource invariant `Inv` — resident
    regions pairwise disjoint and inside capacity, masks agree with them, wavefront slots add
    up — and no work-group is ever reserved twice (the Go `panic("reserving a work-group
    twice")` is unreachable). Pool initially without residents; launches with non-empty grid and
    work-group size. -/
theorem multi_dispatcher_safe' (caps : List (List Nat)) (cfg : Cfg) (nd : Nat) (pool : List CU)
    (ops : List Op) (hempty : ∀ cu ∈ pool, cu.resident = []) (hp : PoolInv caps pool)
    (hops : ∀ k, .launch k ∈ ops → KernOK k) :
    let cp := run (mkCP cfg nd pool) ops
    PoolInv caps cp.pool ∧ cp.fault ≠ some "twice" :=
  multi_dispatcher_safe caps cfg nd pool ops hempty hp hops

example : let cp := run (mkCP demoCfg 8 demoPool) demoOps
    cp.fault = none ∧ cp.pool.map (·.resident.length) = [0, 0] ∧
    cp.log.reverse.map (fun e => match e with | .map r c l i _ => (r, c, l, i) | .rsp l => (99, 99, l, 99)) =
      [(0, 0, 0, 0), (1, 1, 0, 1), (2, 0, 0, 2), (3, 0, 1, 0), (99, 99, 1, 99), (99, 99, 0, 99)] := by
  decide

/-- **A MapWGReq is only sent for reserved resources.** Whenever the placement algorithm of a
    dispatcher returns a location, the work-group is resident on that CU of the shared pool with
    exactly the wavefront locations the MapWGReq will carry (and by `reserve_ok_only_if_free`
    those regions were free and a wavefront slot was available). `dispatchNextWG` sends the
    location stored in `currWG`, which only `algNext` writes. -/
theorem mapped_only_when_admitted (b : Bool) (caps : List (List Nat)) (cp : CP) (i : Nat) (cp' : CP)
    (dl : DLoc) (h : CPInv b caps cp) (hft : cp.fault ≠ some "twice")
    (hn : (cp.disp i).alg.hasNext = true) (ha : algNext cp i = (cp', some dl)) :
    ∃ d, (dl.key, d, dl.locs) ∈ (cp'.pool.getD dl.cu default).resident :=
  mapped_is_resident b caps cp i cp' dl h hft hn ha

example : ((algNext ((run (mkCP demoCfg 8 demoPool) [.launch ⟨0, 160, 64, 16, 4, 256⟩, .tick])) 0).2.map
    fun dl => (dl.cu, dl.idx, dl.locs)) = some (0, 0, [⟨0, 0, 0, 0⟩]) := by decide

/-! ## exactly once -/

/-- **The accounting invariant `DCI` holds after every op sequence** (no side condition: any
    number of dispatchers, any pool, greedy or round-robin, any completion messages — foreign,
    duplicated, batched —, any back-pressure, faults included). Per dispatcher: idle ⇒ nothing
    placed or in flight; busy with `k` ⇒ `dispatched + [a placed, unsent group] = placed ≤ NumWG`,
    `completed + in flight = dispatched`, the placed group is work-group number `dispatched` of
    launch `k`, in-flight request ids are distinct and below the id counter. -/
theorem accounting_inv (cfg : Cfg) (nd : Nat) (pool : List CU) (ops : List Op) :
    DCI (run (mkCP cfg nd pool) ops) := dci_run cfg nd pool ops

example : DCI (run (mkCP demoCfg 8 demoPool) demoOps) := accounting_inv _ _ _ _

/-- **`exactly_once` (maps, trace form).** With pairwise distinct launch request ids (the
    driver's ids are unique), along every op sequence no work-group index of any launch occurs in
    two `MapWGReq`s of the whole trace. -/
theorem exactly_once_maps (cfg : Cfg) (nd : Nat) (pool : List CU) (ops : List Op)
    (hids : (launchIds ops).Nodup) (l : Nat) : (mapsOf (run (mkCP cfg nd pool) ops).log l).Nodup :=
  map_exactly_once cfg nd pool ops hids l

example : mapsOf (run (mkCP demoCfg 8 demoPool) demoOps).log 0 = [0, 1, 2] ∧
    mapsOf (run (mkCP demoCfg 8 demoPool) demoOps).log 1 = [0] := by decide

/-- **`exactly_once` (maps, step form).** Whenever a dispatcher busy with launch `k` sends a
    `MapWGReq`, it is for launch `k`, for work-group index = the number it has mapped so far,
    which is inside the grid (`< NumWG`), with a fresh request id, and the counter moves by one;
    a failed attempt emits nothing. Hence the indices of one kernel execution are mapped in grid
    order, each once, never outside the grid. -/
theorem maps_in_grid_order (cp : CP) (i : Nat) (k : Kern) (h : DCI cp) (hi : i < cp.disps.length)
    (hk : (cp.disp i).kern = some k) :
    ((dispatchNextWG cp i).2 = true → ∃ cu locs,
      (dispatchNextWG cp i).1.log = .map cp.nextReq cu k.id (cp.disp i).nd locs :: cp.log ∧
      (cp.disp i).nd < k.numWG ∧ ((dispatchNextWG cp i).1.disp i).nd = (cp.disp i).nd + 1 ∧
      (dispatchNextWG cp i).1.nextReq = cp.nextReq + 1) ∧
    ((dispatchNextWG cp i).2 = false → (dispatchNextWG cp i).1.log = cp.log) :=
  map_in_grid_order cp i k h hi hk

/-- **`LaunchKernelRsp` at most once per launch** along every op sequence (distinct launch ids). -/
theorem response_at_most_once (cfg : Cfg) (nd : Nat) (pool : List CU) (ops : List Op)
    (hids : (launchIds ops).Nodup) (l : Nat) : rspCount (run (mkCP cfg nd pool) ops).log l ≤ 1 :=
  rsp_at_most_once cfg nd pool ops hids l

example : rspCount (run (mkCP demoCfg 8 demoPool) demoOps).log 0 = 1 ∧
    rspCount (run (mkCP demoCfg 8 demoPool) demoOps).log 1 = 1 := by decide

/-- **… and only when completed = dispatched = NumWG.** In every reachable state (`DCI`), the
    condition under which `Tick` calls `completeKernel` implies that every work-group of the grid
    has been dispatched and completed and nothing is placed or in flight; `completeKernel` is the
    only place a response is emitted: it emits exactly `LaunchKernelRsp` for the dispatcher's
    launch and makes the dispatcher idle, or (driver-facing port full) changes nothing. -/
theorem response_only_when_complete (cp : CP) (i : Nat) (k : Kern) (h : DCI cp)
    (hi : i < cp.disps.length) (hk : (cp.disp i).kern = some k) :
    (kernelCompleted (cp.disp i) = true →
      (cp.disp i).nd = k.numWG ∧ (cp.disp i).nc = k.numWG ∧ (cp.disp i).inflight = [] ∧
      (cp.disp i).currWG = none) ∧
    (∀ cp', completeKernel cp i = (cp', true) → cp'.log = .rsp k.id :: cp.log ∧ (cp'.disp i).kern = none) ∧
    (∀ cp', completeKernel cp i = (cp', false) → cp' = cp) :=
  ⟨fun hkc => rsp_only_when_complete cp i k h hk hkc,
   fun cp' hc => completeKernel_log cp i k cp' hi hk hc,
   fun cp' hc => completeKernel_false cp i cp' hc⟩

/-- **A completion is counted once.** Processing a request id that is in flight at this
    dispatcher raises `completed` by exactly one and removes exactly that entry; an id that is not
    in flight here (foreign, duplicate, unknown) changes nothing. -/
theorem completion_counted_once' (cp : CP) (i id : Nat) (h : DCI cp) (hi : i < cp.disps.length) :
    ((cp.disp i).inflight.find? (·.1 = id) = none → completeOne cp i id = cp) ∧
    (∀ e, (cp.disp i).inflight.find? (·.1 = id) = some e →
      ((completeOne cp i id).disp i).nc = (cp.disp i).nc + 1 ∧
      ((completeOne cp i id).disp i).inflight.length + 1 = (cp.disp i).inflight.length ∧
      (∀ e' ∈ ((completeOne cp i id).disp i).inflight, e'.1 ≠ id) ∧
      DCI (completeOne cp i id)) :=
  completion_counted_once cp i id h hi

/-- **A response is sent only after the whole grid was mapped, in order.** In any run with distinct
    launch ids (`DCI` and the trace invariant `GI` hold in every reachable state: `accounting_inv`,
    `run_GI`), at the moment `completeKernel` emits the response of launch `k`, the `MapWGReq`s of
    that launch in the trace are exactly work-groups `0 … NumWG−1`, once each, and this is its
    first response. -/
theorem response_only_after_grid_mapped (cp : CP) (i : Nat) (k : Kern) (p : List Nat) (cp' : CP)
    (hdc : DCI cp) (hg : GI cp p) (hk : (cp.disp i).kern = some k)
    (hkc : kernelCompleted (cp.disp i) = true) (h : completeKernel cp i = (cp', true)) :
    mapsOf cp'.log k.id = List.range k.numWG ∧ rspCount cp'.log k.id = 1 :=
  rsp_only_after_grid_mapped_step cp i k p cp' hdc hg hk hkc h

/-! ## progress: every enabled action fires, and a fruitless tick is a wait -/

/-- **Overhead counters run down**: a dispatcher with `cycleLeft = c+1` only decrements it and
    reports progress (so it is ticked again). -/
theorem overhead_counts_down' (cp : CP) (i c : Nat) (h : (cp.disp i).cycleLeft = c + 1) :
    dispTick cp i = (cp.setDisp i { cp.disp i with cycleLeft := c }, true) :=
  overhead_counts_down cp i c h

/-- **A completed kernel is answered** by the next tick of its dispatcher as soon as the
    driver-facing port has room. -/
theorem completed_kernel_is_answered' (cp : CP) (i : Nat) (k : Kern) (hc : (cp.disp i).cycleLeft = 0)
    (hk : (cp.disp i).kern = some k) (hkc : kernelCompleted (cp.disp i) = true) (hr : 0 < cp.drvRoom) :
    (dispTick cp i).2 = true ∧ (dispTick cp i).1.log = .rsp k.id :: cp.log :=
  completed_kernel_is_answered cp i k hc hk hkc hr

/-- **A placed group is sent** as soon as the CU-facing port has room (the `currWG` retry), and
    **an admitted group is sent** in the same call when the port has room. -/
theorem placed_or_admitted_group_is_sent (cp : CP) (i : Nat) (hr : 0 < cp.cuRoom) :
    (∀ dl, cp.fault = none → (cp.disp i).currWG = some dl →
      (dispatchNextWG cp i).2 = true ∧
      (dispatchNextWG cp i).1.log = .map cp.nextReq dl.cu dl.launch dl.idx dl.locs :: cp.log) ∧
    (∀ cp1 dl, (cp.disp i).currWG = none → (cp.disp i).alg.hasNext = true →
      algNext cp i = (cp1, some dl) → cp1.fault = none →
      (dispatchNextWG cp i).2 = true ∧
      (dispatchNextWG cp i).1.log = .map cp.nextReq dl.cu dl.launch dl.idx dl.locs :: cp.log) :=
  ⟨fun dl hf hcw => placed_group_is_sent cp i dl hf hcw hr,
   fun cp1 dl hcw hn ha hf => admitted_group_is_sent cp i cp1 dl hcw hn ha hf hr⟩

/-- **The owner consumes the head completion message**: if the message at the head of the CU-facing
    port names a request in flight at dispatcher `i`, its `processMessagesFromCU` reports progress
    and afterwards none of the message's ids is in flight at `i` any more (ids of other dispatchers
    stay at the head for their owners — the repaired behaviour). -/
theorem own_completion_is_consumed' (cp : CP) (i n : Nat) (ids : List Nat) (rest : List (List Nat))
    (hdc : DCI cp) (hi : i < cp.disps.length) (hcu : cp.cuIn = ids :: rest)
    (hmine : ∃ id ∈ ids, (cp.disp i).inflight.any (·.1 = id) = true) :
    (procMsgs i (n + 1) cp).2 = true ∧
    ∀ id ∈ ids, ¬ ((procMsgs i (n + 1) cp).1.disp i).inflight.any (·.1 = id) = true :=
  own_completion_is_consumed cp i n ids rest hdc hi hcu hmine

/-- **`quiescent_is_waiting`.** A dispatcher tick that reports no progress emits nothing and means:
    no overhead is pending, and the dispatcher is idle, or its answer waits for room in the
    driver-facing port (state unchanged), or it is not complete and either nothing is placed (no CU
    admitted the next group, or all groups are mapped and completions are awaited), or the placed
    group waits for room in the CU-facing port, or a fault stopped it; and the completion message at
    the head of the port (if any) names none of its in-flight requests. Each disjunct is resolved by
    an event that wakes an Akita ticking component (port free, message delivered) or by another
    dispatcher's progress. -/
theorem quiescent_is_waiting' (cp : CP) (i : Nat) (cp' : CP) (hdc : DCI cp)
    (h : dispTick cp i = (cp', false)) :
    (cp.disp i).cycleLeft = 0 ∧ cp'.log = cp.log ∧
    ((cp.disp i).kern = none ∨ ∃ k, (cp.disp i).kern = some k ∧
      ((kernelCompleted (cp.disp i) = true ∧ cp.drvRoom = 0 ∧ cp' = cp) ∨
       (kernelCompleted (cp.disp i) = false ∧
         ((cp'.disp i).currWG = none ∨ cp'.fault.isSome = true ∨ cp'.cuRoom = 0)))) ∧
    (cp'.fault.isSome = false → cp'.cuIn = [] ∨ ∃ ids rest, cp'.cuIn = ids :: rest ∧
      ∀ id ∈ ids, ¬ (cp'.disp i).inflight.any (·.1 = id) = true) :=
  quiescent_is_waiting cp i cp' hdc h

example : (dispTick (run (mkCP demoCfg 8 demoPool) (demoOps.take 8)) 0).2 = false := by decide

end C09
