import MgpuProofs.C01KernImg2
import MgpuProofs.C01Float
import MgpuProofs.Props.C01Kern
/-! # C01 — a third shipped kernel, and the relu kernels against the host reference on every bit pattern

* `reluFwdKernel_correct` / `_run` — `reluForward` of amd/benchmarks/dnn/gputensor/operator.hsaco
  (`GPUOperator.ReluForward`; 28 instructions) with the argument image `reluForwardKernelArgs{in, out, count, 0, lo, 0, 0}`.
* `relu_meaning` — the bit function both relu kernels compute, `reluBits x = v_max_f32 (0, v_mul_f32 (1.0, x))` in the
  exact-IEEE reference arithmetic of C03V, IS the host reference `x > 0 ? x : 0` on EVERY 32-bit pattern (NaN → 0,
  negative numbers / −0 / −∞ → +0, everything else unchanged, denormals kept).
* `reluKernel_host_reference`, `reluFwdKernel_host_reference` — hence the memory after the dispatch holds, byte for
  byte, the host reference of the input array on the elements the launch covers. -/
set_option linter.unusedVariables false
namespace C01
namespace Emu
open C03V

/-- **relu_meaning.** For every 32-bit pattern `x`: `reluBits x = reluRef x`, where `reluRef x` is `0` for a NaN, `x`
    when the sign bit is clear, `0` otherwise — the C expression `in > 0 ? in : 0` of relu/main.go `Verify`,
    kernels.cl and operator.cl evaluated on bit patterns.  (`FloatAux`: `mul_one_id` — multiplying by 1.0 rounds back
    to the same pattern for ±0, denormals, normals and ±∞ — and `fmax_zero`.) -/
theorem relu_meaning' (x : Nat) (hx : x < 4294967296) : Relu.reluBits x = reluRef x := relu_meaning x hx

theorem rd32_mod_lt (f : Nat → Nat) (a : Nat) : rd32 f a % 2 ^ 32 < 4294967296 := Nat.mod_lt _ (by decide)

/-- **reluKernel_host_reference.** `reluKernel_run` with the value spelled as the host reference. -/
theorem reluKernel_host_reference (c : Map.Cfg) (src : Nat) (hv : Relu.Valid c src) (hG : 0 < c.G) (hG31 : c.lo + c.G + 63 ≤ 2 ^ 31)
    (hsrc : src < 2 ^ 64) (hdst : c.dst < 2 ^ 64) (tail pk : List Nat) (m : Mem)
    (hpk : 8 ≤ pk.length) (h4 : pk.getD 4 0 = 64) (h5 : pk.getD 5 0 = 0)
    (hsep : c.ka + 48 ≤ c.pa ∨ c.pa + pk.length ≤ c.ka) :
    ∀ e, c.lo ≤ e → e < c.lo + c.K → ∀ j, j < 4 →
      get (run Relu.P (Map.disp c (reluArgs c.lim src c.dst c.lo ++ tail) pk) m) (c.dst + 4 * e + j) =
        Map.byteOf (reluRef (rd32 (get (install c.pa pk (install c.ka (reluArgs c.lim src c.dst c.lo ++ tail) m)))
          (src + 4 * e) % 2 ^ 32)) j := by
  intro e h1 h2 j hj
  rw [(reluKernel_run c src hv hG hG31 hsrc hdst tail pk m hpk h4 h5 hsep).1 e h1 h2 j hj, relu_meaning _ (rd32_mod_lt _ _)]

theorem relufwd_stable (c : Map.Cfg) (src : Nat) (hv : Relu.Valid c src) (f m : Nat → Nat) (h : Map.Agree c f m) (e : Nat)
    (h1 : c.lo ≤ e) (h2 : e < c.lo + c.K) : Relu.reluVal src m e = Relu.reluVal src f e :=
  relu_stable c src hv f m h e h1 h2

/-- **reluFwdKernel_correct.** `reluForward` (operator.hsaco) under the same conditions as `reluKernel_correct`
    (`Relu.Valid`; the code is 4 bytes longer but the branch target still lies within `co + 140`), argument image
    `reluForwardKernelArgs{in, out, count, 0, lo, 0, 0}`: no fault, `out[e] = reluBits (in[e])` on
    `lo ≤ e < lo + min G (count − lo)`, every other byte of memory unchanged. -/
theorem reluFwdKernel_correct (c : Map.Cfg) (src : Nat) (hv : Relu.Valid c src) (hG : 0 < c.G) (hG31 : c.lo + c.G + 63 ≤ 2 ^ 31)
    (hsrc : src < 2 ^ 64) (hdst : c.dst < 2 ^ 64) (tail pk : List Nat) (m : Mem) (fuel : Nat)
    (hpk : 8 ≤ pk.length) (h4 : pk.getD 4 0 = 64) (h5 : pk.getD 5 0 = 0)
    (hsep : c.ka + 48 ≤ c.pa ∨ c.pa + pk.length ≤ c.ka) :
    ∃ m', runE ReluFwd.P (Map.disp c (reluFwdArgs src c.dst c.lim c.lo ++ tail) pk) (fuel + 28) m = .ok m' ∧
      (∀ e, c.lo ≤ e → e < c.lo + c.K → ∀ j, j < 4 → get m' (c.dst + 4 * e + j) =
        Map.byteOf (Relu.reluBits (rd32 (get (install c.pa pk (install c.ka (reluFwdArgs src c.dst c.lim c.lo ++ tail) m)))
          (src + 4 * e) % 2 ^ 32)) j) ∧
      (∀ a, ¬ c.inDst a → get m' a = get (install c.pa pk (install c.ka (reluFwdArgs src c.dst c.lim c.lo ++ tail) m)) a) :=
  Map.map_final ReluFwd.P 28 (Relu.reluVal src) c (ReluFwd.Img c src) (ReluFwd.wave_run c src hv) (relu_stable c src hv) hG hG31
    (by have := hv.paEnd; omega) (by have := hv.kaEnd; omega) _ pk m fuel
    (ReluFwd.relufwd_img c src (by have := hv.lim31; omega) (by omega) hsrc hdst tail pk m hpk h4 h5 hsep)

theorem reluFwdKernel_run (c : Map.Cfg) (src : Nat) (hv : Relu.Valid c src) (hG : 0 < c.G) (hG31 : c.lo + c.G + 63 ≤ 2 ^ 31)
    (hsrc : src < 2 ^ 64) (hdst : c.dst < 2 ^ 64) (tail pk : List Nat) (m : Mem)
    (hpk : 8 ≤ pk.length) (h4 : pk.getD 4 0 = 64) (h5 : pk.getD 5 0 = 0)
    (hsep : c.ka + 48 ≤ c.pa ∨ c.pa + pk.length ≤ c.ka) :
    (∀ e, c.lo ≤ e → e < c.lo + c.K → ∀ j, j < 4 →
      get (run ReluFwd.P (Map.disp c (reluFwdArgs src c.dst c.lim c.lo ++ tail) pk) m) (c.dst + 4 * e + j) =
        Map.byteOf (Relu.reluBits (rd32 (get (install c.pa pk (install c.ka (reluFwdArgs src c.dst c.lim c.lo ++ tail) m)))
          (src + 4 * e) % 2 ^ 32)) j) ∧
    (∀ a, ¬ c.inDst a → get (run ReluFwd.P (Map.disp c (reluFwdArgs src c.dst c.lim c.lo ++ tail) pk) m) a =
      get (install c.pa pk (install c.ka (reluFwdArgs src c.dst c.lim c.lo ++ tail) m)) a) :=
  Map.map_run ReluFwd.P 28 (Relu.reluVal src) c (ReluFwd.Img c src) (ReluFwd.wave_run c src hv) (relu_stable c src hv) hG hG31
    (by have := hv.paEnd; omega) (by have := hv.kaEnd; omega) (by decide) _ pk m
    (ReluFwd.relufwd_img c src (by have := hv.lim31; omega) (by omega) hsrc hdst tail pk m hpk h4 h5 hsep)

/-- **reluFwdKernel_host_reference.** -/
theorem reluFwdKernel_host_reference (c : Map.Cfg) (src : Nat) (hv : Relu.Valid c src) (hG : 0 < c.G) (hG31 : c.lo + c.G + 63 ≤ 2 ^ 31)
    (hsrc : src < 2 ^ 64) (hdst : c.dst < 2 ^ 64) (tail pk : List Nat) (m : Mem)
    (hpk : 8 ≤ pk.length) (h4 : pk.getD 4 0 = 64) (h5 : pk.getD 5 0 = 0)
    (hsep : c.ka + 48 ≤ c.pa ∨ c.pa + pk.length ≤ c.ka) :
    ∀ e, c.lo ≤ e → e < c.lo + c.K → ∀ j, j < 4 →
      get (run ReluFwd.P (Map.disp c (reluFwdArgs src c.dst c.lim c.lo ++ tail) pk) m) (c.dst + 4 * e + j) =
        Map.byteOf (reluRef (rd32 (get (install c.pa pk (install c.ka (reluFwdArgs src c.dst c.lim c.lo ++ tail) m)))
          (src + 4 * e) % 2 ^ 32)) j := by
  intro e h1 h2 j hj
  rw [(reluFwdKernel_run c src hv hG hG31 hsrc hdst tail pk m hpk h4 h5 hsep).1 e h1 h2 j hj, relu_meaning _ (rd32_mod_lt _ _)]

/-! ## non-vacuity -/

/-- the host reference on the classes of bit patterns -/
example : reluRef 0x40490fdb = 0x40490fdb ∧ reluRef 0xc0490fdb = 0 ∧ reluRef 0x80000000 = 0 ∧ reluRef 0x7fc00001 = 0 ∧
    reluRef 1 = 1 ∧ reluRef 0x7f800000 = 0x7f800000 ∧ reluRef 0xff800000 = 0 := by decide

/-- `GPUOperator.ReluForward` on a 100-element tensor -/
example : Relu.Valid ⟨0x3000, 0x4000, 0x5000, 0x2000, 0, 100, 100⟩ 0x1000 :=
  ⟨by decide, by decide, by decide, by decide, by decide, by decide, by decide, by decide,
   fun a h => by simp only [Map.Cfg.inDst, Map.Cfg.K] at h ⊢; omega,
   fun a h => by simp only [Map.Cfg.inDst, Map.Cfg.K] at h ⊢; omega,
   fun a h => by simp only [Map.Cfg.inDst, Map.Cfg.K] at h ⊢; omega⟩

end Emu
end C01
