import MgpuProofs.C16Prog
/-! # C16 — property theorems (address translation forwards every access faithfully, exactly once)

All statements are about `run c ops`: the tick-exact model of the address translator started from
the empty state and driven by an *arbitrary* sequence of environment moves and ticks (`Op`): the
requester delivers accesses, the translation service and the memory deliver any replies in any
order with any content, each outgoing buffer is drained or left full at will, flush/restart
commands arrive at any point; `c` is any configuration (per-cycle width = buffer sizes, page size).
Helper lemmas are in `MgpuProofs/C16*.lean`. -/
namespace C16

/-- **Forwarded at most once, faithfully, under its own translation.** For every history:
no access id is forwarded twice, no bottom-request id is used twice, and every forwarded request
`l` stems from an access that was received, carries that access's size/data/mask unchanged, and its
physical address is `page.PAddr + (vaddr mod 2^log2PageSize)` for a page that the translation
service returned in reply to a lookup sent for *that access's own PID and virtual page*.
Whatever sits in the bottom port's outgoing buffer is such a logged request. -/
theorem at_forward_once (c : Cfg) (ops : List Op) :
    let s := run c ops
    (s.forwarded.map (·.top.id)).Nodup ∧ (s.forwarded.map (·.breq.bid)).Nodup ∧
    (∀ l ∈ s.forwarded,
      (l.top, l.epoch) ∈ s.received ∧ l.breq.pl = l.top.pl ∧
      ∃ q ∈ s.asked, q.pid = l.top.pid ∧ q.vpage = pageId c.lg l.top.vaddr ∧
        ∃ r ∈ s.tdel, r.rspTo = q.tid ∧ l.breq.paddr = r.paddr + l.top.vaddr % 2 ^ c.lg) ∧
    (∀ b ∈ s.botOut, ∃ l ∈ s.forwarded, l.breq = b) := by
  intro s
  have hc := run_cinv c ops
  have hm := run_minv c ops
  refine ⟨?_, ?_, hm.fwd, hm.botOut⟩
  · rw [List.nodup_iff_count]
    intro i
    have h1 := hc.a i; have h2 := hc.b i
    show List.count i (List.map (fun x => x.top.id) (run c ops).forwarded) ≤ 1
    omega
  · rw [List.nodup_iff_count]
    exact hc.d

/-- Corollary: with a truthful translation service (every reply to a lookup `(pid, vpage)` carries
the page-table entry `pt pid vpage`), every forwarded request goes to
`pt (its own PID) (its own page) + page offset` — never to another process's page. -/
theorem at_forward_own_page (c : Cfg) (ops : List Op) (pt : Nat → Nat → Nat)
    (htruth : ∀ q ∈ (run c ops).asked, ∀ r ∈ (run c ops).tdel, r.rspTo = q.tid → r.paddr = pt q.pid q.vpage) :
    ∀ l ∈ (run c ops).forwarded,
      l.breq.paddr = pt l.top.pid (pageId c.lg l.top.vaddr) + l.top.vaddr % 2 ^ c.lg ∧ l.breq.pl = l.top.pl := by
  intro l hl
  obtain ⟨_, h2, q, hq, h3, h4, r, hr, h5, h6⟩ := (run_minv c ops).fwd l hl
  have := htruth q hq r hr h5
  rw [h6, this, h3, h4]
  exact ⟨rfl, h2⟩

/-- **Answered at most once, to the original request, with the returned data.** For every history:
no access is answered twice, no bottom-request id is answered twice; every response sent through
the top port carries the original request's ID, belongs to an access that was forwarded under the
bottom id `x.bid`, and carries exactly the data of a memory response delivered for that bottom id.
Whatever sits in the top port's outgoing buffer is such a logged response. -/
theorem at_respond_once (c : Cfg) (ops : List Op) :
    let s := run c ops
    (s.answered.map (·.top.id)).Nodup ∧
    (∀ x ∈ s.answered, ∀ y ∈ s.answered, x.bid = y.bid → x.top.id = y.top.id) ∧
    (∀ x ∈ s.answered,
      x.rsp.rspTo = x.top.id ∧
      (∃ l ∈ s.forwarded, l.top = x.top ∧ l.breq.bid = x.bid ∧ l.epoch = x.epoch) ∧
      ∃ m ∈ s.mdel, m.rspTo = x.bid ∧ m.data = x.rsp.data) ∧
    (∀ u ∈ s.topOut, ∃ x ∈ s.answered, x.rsp = u) := by
  intro s
  have hc := run_cinv c ops
  have hm := run_minv c ops
  refine ⟨?_, ?_, fun x hx => (hm.ans x hx).2, hm.topOut⟩
  · rw [List.nodup_iff_count]
    intro i
    have h1 := hc.a i; have h2 := hc.b i; have h3 := hc.c i
    show List.count i (List.map (fun x => x.top.id) (run c ops).answered) ≤ 1
    omega
  · intro x hx y hy hxy
    obtain ⟨_, _, ⟨lx, hlx, k1, k2, _⟩, _⟩ := hm.ans x hx
    obtain ⟨_, _, ⟨ly, hly, m1, m2, _⟩, _⟩ := hm.ans y hy
    have : lx = ly := eq_of_count_le_one (fun l : FwdLog => l.breq.bid) _ hc.d lx hlx ly hly (by
      show lx.breq.bid = ly.breq.bid
      omega)
    rw [← k1, ← m1, this]

/-- **Flush.** `epoch` counts the flushes the translator has performed. Every access is forwarded
and answered only in the epoch in which it was accepted: nothing accepted before a flush is
forwarded or answered after it (late translation replies and memory responses are dropped). -/
theorem at_flush (c : Cfg) (ops : List Op) :
    let s := run c ops
    (∀ l ∈ s.forwarded, ∀ r ∈ s.received, r.1.id = l.top.id → r.2 = l.epoch) ∧
    (∀ x ∈ s.answered, ∀ r ∈ s.received, r.1.id = x.top.id → r.2 = x.epoch) ∧
    (∀ t ∈ s.txs, ∀ a ∈ t.reqs, (a, s.epoch) ∈ s.received) ∧
    (∀ f ∈ s.infl, (f.top, s.epoch) ∈ s.received) := by
  intro s
  have hc := run_cinv c ops
  have hm := run_minv c ops
  have huniq : ∀ x ∈ s.received, ∀ y ∈ s.received, x.1.id = y.1.id → x = y :=
    eq_of_count_le_one (fun x : Acc × Nat => x.1.id) _ (by
      intro i; have := hc.a i
      show List.count i (List.map (fun x => x.1.id) (run c ops).received) ≤ 1
      omega)
  refine ⟨?_, ?_, fun t ht a ha => ((hm.tx t ht).2.2.2.1 a ha).2.2, fun f hf => (hm.infl f hf).1⟩
  · intro l hl r hr he
    have := huniq r hr _ (hm.fwd l hl).1 he
    rw [this]
  · intro x hx r hr he
    have := huniq r hr _ (hm.ans x hx).1 he
    rw [this]

/-- The statements above are not vacuous: a concrete history (two PIDs on the same virtual page, a
reply that arrives while the bottom port is full, a flush in the middle) in which accesses are
received, forwarded to *different* physical pages, answered, and one is discarded by the flush. -/
def demoOps : List Op :=
  [.access 1 0x1004 ⟨false, 4, [], []⟩, .tick, .drainTr, .access 2 0x1008 ⟨false, 4, [], []⟩, .tick,
   .drainTr, .trsp ⟨0, 0x11000⟩, .tick, .trsp ⟨1, 0x12000⟩, .tick, .drainBot, .tick, .tick,
   .brsp ⟨0, some [1, 2, 3, 4]⟩, .tick, .access 1 0x2000 ⟨true, 2, [7, 8], [true, false]⟩, .tick,
   .ctl .flush, .tick, .drainBot, .brsp ⟨1, some [5, 6, 7, 8]⟩, .tick]

example :
    let s := run ⟨1, 12⟩ demoOps
    s.received.map (·.1.id) = [2, 1, 0] ∧
    s.forwarded.map (fun l => (l.top.id, l.breq.paddr, l.epoch)) = [(1, 0x12008, 0), (0, 0x11004, 0)] ∧
    s.answered.map (fun x => (x.top.id, x.rsp.data, x.epoch)) = [(0, some [1, 2, 3, 4], 0)] ∧
    s.epoch = 1 ∧ s.flushing = true ∧ s.txs.length = 0 ∧ s.botIn.length = 1 := by
  decide

/-- what a completed flush does: all pending translations and in-flight records are discarded and
the epoch advances, so by `at_flush` nothing accepted earlier can be forwarded or answered later -/
theorem at_flush_step (s : St) (rest : List Ctl) (h1 : s.ctlIn = .flush :: rest) (h2 : s.ctlOut < 1) :
    (handleCtrl s).1.txs = [] ∧ (handleCtrl s).1.infl = [] ∧ (handleCtrl s).1.flushing = true ∧
    (handleCtrl s).1.epoch = s.epoch + 1 := by
  simp [handleCtrl, h1, h2]

/-- **No loss (progress under a decreasing measure).** `mu` weighs the work the translator holds
(9 per access waiting at the top port, 5 per access waiting in a transaction, 3/1 per message in an
outgoing/incoming buffer, 1 per in-flight record). In every reachable state, for every configuration:
1. with no control message pending, a tick never increases `mu`, and strictly decreases it whenever it
   reports progress (so the component cannot spin without getting closer to completion);
2. if the translator is not flushing, the environment has left room in the three outgoing buffers
   and the translator holds anything it can act on (a memory response, a translation reply, an access at
   the top port, or a completed transaction still holding requests), the tick *does* report progress
   and `mu` strictly decreases — including the case where a reply arrived while the bottom port was
   full (the transaction is already marked done; it is drained first, the stale reply is then dropped);
3. draining a non-empty outgoing buffer strictly decreases `mu`;
so as long as the environment keeps draining and answering, every accepted access moves on until
nothing is held. When none of the cases of (2) applies, all that is left are transactions waiting for
a translation reply and in-flight records waiting for a memory response, i.e. the environment's turn. -/
theorem at_no_loss (c : Cfg) (ops : List Op) :
    let s := run c ops
    (s.ctlIn = [] → mu (tick c s).1 ≤ mu s ∧ ((tick c s).2 = true → mu (tick c s).1 < mu s)) ∧
    (s.flushing = false → s.ctlIn = [] → 0 < c.width →
      s.topOut.length < c.width → s.botOut.length < c.width → s.trOut.length < c.width →
      (s.botIn ≠ [] ∨ s.trIn ≠ [] ∨ s.topIn ≠ [] ∨ ∃ t ∈ s.txs, t.done = true) →
      (tick c s).2 = true ∧ mu (tick c s).1 < mu s) ∧
    (s.topOut ≠ [] → mu (step c s .drainTop) < mu s) ∧
    (s.botOut ≠ [] → mu (step c s .drainBot) < mu s) ∧
    (s.trOut ≠ [] → mu (step c s .drainTr) < mu s) := by
  intro s
  have hd : DInv s := run_dinv c ops
  have hne : ∀ t ∈ s.txs, t.reqs ≠ [] := fun t ht => ((run_minv c ops).tx t ht).1
  refine ⟨tick_dec c s, ?_, ?_, ?_, ?_⟩
  · intro hfl hctl hw h1 h2 h3 hact
    have hflag : (tick c s).2 = true := by
      obtain ⟨n, hn⟩ : ∃ n, c.width = n + 1 := ⟨c.width - 1, by omega⟩
      have hpipe : (runPipeline c s).2 = true := by
        simp only [runPipeline, Bool.or_eq_true]
        by_cases hb : s.botIn = []
        · have ha : iter (respond c) c.width s = (s, false) := iter_idle s (respond_idle c s hb) _
          rw [ha]
          by_cases hp : s.trIn ≠ [] ∨ ∃ t ∈ s.txs, t.done = true
          · left; right
            rw [hn]; exact iter_first n s (parse_enabled c s hd hne h2 hp)
          · have hp1 : s.trIn = [] := by
              cases h : s.trIn with
              | nil => rfl
              | cons a l => exact absurd (Or.inl (by simp [h])) hp
            have hp2 : ∀ t ∈ s.txs, t.done = false := by
              intro t ht
              cases h : t.done with
              | false => rfl
              | true => exact absurd (Or.inr ⟨t, ht, h⟩) hp
            have hbb : iter (parseTranslation c) c.width s = (s, false) :=
              iter_idle s (parse_idle c s hp1 hp2) _
            rw [hbb]
            right
            have htop : s.topIn ≠ [] := by
              rcases hact with h | h | h | ⟨t, ht, h⟩
              · exact absurd hb h
              · exact absurd hp1 h
              · exact h
              · have := hp2 t ht; simp [h] at this
            rw [hn]; exact iter_first n s (translate_enabled c s htop h3)
        · left; left
          rw [hn]; exact iter_first n s (respond_enabled c s hb h1)
      simp only [tick, hfl, Bool.false_eq_true, if_false, Bool.or_eq_true]
      exact Or.inr hpipe
    exact ⟨hflag, (tick_dec c s hctl).2 hflag⟩
  · intro h
    cases hq : s.topOut with
    | nil => exact absurd hq h
    | cons a l => simp [step, mu, hq]
  · intro h
    cases hq : s.botOut with
    | nil => exact absurd hq h
    | cons a l => simp [step, mu, hq]
  · intro h
    cases hq : s.trOut with
    | nil => exact absurd hq h
    | cons a l => simp [step, mu, hq]

/-- (2) of `at_no_loss` is met by a reachable state that holds a reply which arrived while the bottom
port was full: the transaction is done, the reply still sits at the port head, the bottom buffer has
been drained meanwhile. -/
example :
    let s := run ⟨1, 12⟩ (demoOps.take 11)
    s.flushing = false ∧ s.ctlIn = [] ∧ s.botOut.length < 1 ∧ s.trIn.length = 1 ∧
    (∃ t ∈ s.txs, t.done = true) ∧ mu s = 7 ∧ mu (tick ⟨1, 12⟩ s).1 = 6 := by
  decide

end C16
