import MgpuModel.C16
namespace C16
theorem wip : True := trivial
end C16
