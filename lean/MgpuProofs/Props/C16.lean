import MgpuProofs.C16Mem
/-! # C16 — property theorems (address translation forwards every access faithfully, exactly once)

All statements are about `run c ops`: the tick-exact model of the address translator started from
the empty state and driven by an *arbitrary* sequence of environment moves and ticks (`Op`): the
requester delivers accesses, the translation service and the memory deliver any replies in any
order with any content, each outgoing buffer is drained or left full at will, flush/restart
commands arrive at any point; `c` is any configuration (per-cycle width = buffer sizes, page size).
Helper lemmas are in `MgpuProofs/C16*.lean`. -/
namespace C16

/-- **Forwarded at most once, faithfully, under its own translation.** For every history:
no access id is forwarded twice, no bottom-request id is used twice, and every forwarded request
`l` stems from an access that was received, carries that access's size/data/mask unchanged, and its
physical address is `page.PAddr + (vaddr mod 2^log2PageSize)` for a page that the translation
service returned in reply to a lookup sent for *that access's own PID and virtual page*.
Whatever sits in the bottom port's outgoing buffer is such a logged request. -/
theorem at_forward_once (c : Cfg) (ops : List Op) :
    let s := run c ops
    (s.forwarded.map (·.top.id)).Nodup ∧ (s.forwarded.map (·.breq.bid)).Nodup ∧
    (∀ l ∈ s.forwarded,
      (l.top, l.epoch) ∈ s.received ∧ l.breq.pl = l.top.pl ∧
      ∃ q ∈ s.asked, q.pid = l.top.pid ∧ q.vpage = pageId c.lg l.top.vaddr ∧
        ∃ r ∈ s.tdel, r.rspTo = q.tid ∧ l.breq.paddr = r.paddr + l.top.vaddr % 2 ^ c.lg) ∧
    (∀ b ∈ s.botOut, ∃ l ∈ s.forwarded, l.breq = b) := by
  intro s
  have hc := run_cinv c ops
  have hm := run_minv c ops
  refine ⟨?_, ?_, hm.fwd, hm.botOut⟩
  · rw [List.nodup_iff_count]
    intro i
    have h1 := hc.a i; have h2 := hc.b i
    show List.count i (List.map (fun x => x.top.id) (run c ops).forwarded) ≤ 1
    omega
  · rw [List.nodup_iff_count]
    exact hc.d

/-- Corollary: with a truthful translation service (every reply to a lookup `(pid, vpage)` carries
the page-table entry `pt pid vpage`), every forwarded request goes to
`pt (its own PID) (its own page) + page offset` — never to another process's page. -/
theorem at_forward_own_page (c : Cfg) (ops : List Op) (pt : Nat → Nat → Nat)
    (htruth : ∀ q ∈ (run c ops).asked, ∀ r ∈ (run c ops).tdel, r.rspTo = q.tid → r.paddr = pt q.pid q.vpage) :
    ∀ l ∈ (run c ops).forwarded,
      l.breq.paddr = pt l.top.pid (pageId c.lg l.top.vaddr) + l.top.vaddr % 2 ^ c.lg ∧ l.breq.pl = l.top.pl := by
  intro l hl
  obtain ⟨_, h2, q, hq, h3, h4, r, hr, h5, h6⟩ := (run_minv c ops).fwd l hl
  have := htruth q hq r hr h5
  rw [h6, this, h3, h4]
  exact ⟨rfl, h2⟩

/-- **Answered at most once, to the original request, with the returned data.** For every history:
no access is answered twice, no bottom-request id is answered twice; every response sent through
the top port carries the original request's ID, belongs to an access that was forwarded under the
bottom id `x.bid`, and carries exactly the data of a memory response delivered for that bottom id.
Whatever sits in the top port's outgoing buffer is such a logged response. -/
theorem at_respond_once (c : Cfg) (ops : List Op) :
    let s := run c ops
    (s.answered.map (·.top.id)).Nodup ∧
    (∀ x ∈ s.answered, ∀ y ∈ s.answered, x.bid = y.bid → x.top.id = y.top.id) ∧
    (∀ x ∈ s.answered,
      x.rsp.rspTo = x.top.id ∧
      (∃ l ∈ s.forwarded, l.top = x.top ∧ l.breq.bid = x.bid ∧ l.epoch = x.epoch) ∧
      ∃ m ∈ s.mdel, m.rspTo = x.bid ∧ m.data = x.rsp.data) ∧
    (∀ u ∈ s.topOut, ∃ x ∈ s.answered, x.rsp = u) := by
  intro s
  have hc := run_cinv c ops
  have hm := run_minv c ops
  refine ⟨?_, ?_, fun x hx => (hm.ans x hx).2, hm.topOut⟩
  · rw [List.nodup_iff_count]
    intro i
    have h1 := hc.a i; have h2 := hc.b i; have h3 := hc.c i
    show List.count i (List.map (fun x => x.top.id) (run c ops).answered) ≤ 1
    omega
  · intro x hx y hy hxy
    obtain ⟨_, _, ⟨lx, hlx, k1, k2, _⟩, _⟩ := hm.ans x hx
    obtain ⟨_, _, ⟨ly, hly, m1, m2, _⟩, _⟩ := hm.ans y hy
    have : lx = ly := eq_of_count_le_one (fun l : FwdLog => l.breq.bid) _ hc.d lx hlx ly hly (by
      show lx.breq.bid = ly.breq.bid
      omega)
    rw [← k1, ← m1, this]

/-- **Flush.** `epoch` counts the flushes the translator has performed. Every access is forwarded
and answered only in the epoch in which it was accepted: nothing accepted before a flush is
forwarded or answered after it (late translation replies and memory responses are dropped). -/
theorem at_flush (c : Cfg) (ops : List Op) :
    let s := run c ops
    (∀ l ∈ s.forwarded, ∀ r ∈ s.received, r.1.id = l.top.id → r.2 = l.epoch) ∧
    (∀ x ∈ s.answered, ∀ r ∈ s.received, r.1.id = x.top.id → r.2 = x.epoch) ∧
    (∀ t ∈ s.txs, ∀ a ∈ t.reqs, (a, s.epoch) ∈ s.received) ∧
    (∀ f ∈ s.infl, (f.top, s.epoch) ∈ s.received) := by
  intro s
  have hc := run_cinv c ops
  have hm := run_minv c ops
  have huniq : ∀ x ∈ s.received, ∀ y ∈ s.received, x.1.id = y.1.id → x = y :=
    eq_of_count_le_one (fun x : Acc × Nat => x.1.id) _ (by
      intro i; have := hc.a i
      show List.count i (List.map (fun x => x.1.id) (run c ops).received) ≤ 1
      omega)
  refine ⟨?_, ?_, fun t ht a ha => ((hm.tx t ht).2.2.2.1 a ha).2.2, fun f hf => (hm.infl f hf).1⟩
  · intro l hl r hr he
    have := huniq r hr _ (hm.fwd l hl).1 he
    rw [this]
  · intro x hx r hr he
    have := huniq r hr _ (hm.ans x hx).1 he
    rw [this]

/-- The statements above are not vacuous: a concrete history (two PIDs on the same virtual page, a
reply that arrives while the bottom port is full, a flush in the middle) in which accesses are
received, forwarded to *different* physical pages, answered, and one is discarded by the flush. -/
def demoOps : List Op :=
  [.access 1 0x1004 ⟨false, 4, [], []⟩, .tick, .drainTr, .access 2 0x1008 ⟨false, 4, [], []⟩, .tick,
   .drainTr, .trsp ⟨0, 0x11000⟩, .tick, .trsp ⟨1, 0x12000⟩, .tick, .drainBot, .tick, .tick,
   .brsp ⟨0, some [1, 2, 3, 4]⟩, .tick, .access 1 0x2000 ⟨true, 2, [7, 8], [true, false]⟩, .tick,
   .ctl .flush, .tick, .drainBot, .brsp ⟨1, some [5, 6, 7, 8]⟩, .tick]

example :
    let s := run ⟨1, 12⟩ demoOps
    s.received.map (·.1.id) = [2, 1, 0] ∧
    s.forwarded.map (fun l => (l.top.id, l.breq.paddr, l.epoch)) = [(1, 0x12008, 0), (0, 0x11004, 0)] ∧
    s.answered.map (fun x => (x.top.id, x.rsp.data, x.epoch)) = [(0, some [1, 2, 3, 4], 0)] ∧
    s.epoch = 1 ∧ s.flushing = true ∧ s.txs.length = 0 ∧ s.botIn.length = 1 := by
  decide

/-- what a completed flush does: all pending translations and in-flight records are discarded and
the epoch advances, so by `at_flush` nothing accepted earlier can be forwarded or answered later -/
theorem at_flush_step (s : St) (rest : List Ctl) (h1 : s.ctlIn = .flush :: rest) (h2 : s.ctlOut < 1) :
    (handleCtrl s).1.txs = [] ∧ (handleCtrl s).1.infl = [] ∧ (handleCtrl s).1.flushing = true ∧
    (handleCtrl s).1.epoch = s.epoch + 1 := by
  simp [handleCtrl, h1, h2]

end C16
