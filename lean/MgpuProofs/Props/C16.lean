import MgpuProofs.C16Fair
/-! # C16 — property theorems (address translation forwards every access faithfully, exactly once)

All statements are about `run c ops`: the tick-exact model of the address translator started from
the empty state and driven by an *arbitrary* sequence of environment moves and ticks (`Op`): the
requester delivers accesses, the translation service and the memory deliver any replies in any
order with any content, each outgoing buffer is drained or left full at will, flush/restart
commands arrive at any point; `c` is any configuration (per-cycle width = buffer sizes, page size).
Helper lemmas are in `MgpuProofs/C16*.lean`. -/
namespace C16

/-- **Forwarded at most once, faithfully, under its own translation.** For every history:
no access id is forwarded twice, no bottom-request id is used twice, and every forwarded request
`l` stems from an access that was received, carries that access's size/data/mask unchanged, and its
physical address is `page.PAddr + (vaddr mod 2^log2PageSize)` for a page that the translation
service returned in reply to a lookup sent for *that access's own PID and virtual page*.
Whatever sits in the bottom port's outgoing buffer is such a logged request. -/
theorem at_forward_once (c : Cfg) (ops : List Op) :
    let s := run c ops
    (s.forwarded.map (·.top.id)).Nodup ∧ (s.forwarded.map (·.breq.bid)).Nodup ∧
    (∀ l ∈ s.forwarded,
      (l.top, l.epoch) ∈ s.received ∧ l.breq.pl = l.top.pl ∧
      ∃ q ∈ s.asked, q.pid = l.top.pid ∧ q.vpage = pageId c.lg l.top.vaddr ∧
        ∃ r ∈ s.tdel, r.rspTo = q.tid ∧ l.breq.paddr = r.paddr + l.top.vaddr % 2 ^ c.lg) ∧
    (∀ b ∈ s.botOut, ∃ l ∈ s.forwarded, l.breq = b) := by
  intro s
  have hc := run_cinv c ops
  have hm := run_minv c ops
  refine ⟨?_, ?_, hm.fwd, hm.botOut⟩
  · rw [List.nodup_iff_count]
    intro i
    have h1 := hc.a i; have h2 := hc.b i
    show List.count i (List.map (fun x => x.top.id) (run c ops).forwarded) ≤ 1
    omega
  · rw [List.nodup_iff_count]
    exact hc.d

/-- Corollary: with a truthful translation service (every reply to a lookup `(pid, vpage)` carries
the page-table entry `pt pid vpage`), every forwarded request goes to
`pt (its own PID) (its own page) + page offset` — never to another process's page. -/
theorem at_forward_own_page (c : Cfg) (ops : List Op) (pt : Nat → Nat → Nat)
    (htruth : ∀ q ∈ (run c ops).asked, ∀ r ∈ (run c ops).tdel, r.rspTo = q.tid → r.paddr = pt q.pid q.vpage) :
    ∀ l ∈ (run c ops).forwarded,
      l.breq.paddr = pt l.top.pid (pageId c.lg l.top.vaddr) + l.top.vaddr % 2 ^ c.lg ∧ l.breq.pl = l.top.pl := by
  intro l hl
  obtain ⟨_, h2, q, hq, h3, h4, r, hr, h5, h6⟩ := (run_minv c ops).fwd l hl
  have := htruth q hq r hr h5
  rw [h6, this, h3, h4]
  exact ⟨rfl, h2⟩

/-- **Answered at most once, to the original request, with the returned data.** For every history:
no access is answered twice, no bottom-request id is answered twice; every response sent through
the top port carries the original request's ID, belongs to an access that was forwarded under the
bottom id `x.bid`, and carries exactly the data of a memory response delivered for that bottom id.
Whatever sits in the top port's outgoing buffer is such a logged response. -/
theorem at_respond_once (c : Cfg) (ops : List Op) :
    let s := run c ops
    (s.answered.map (·.top.id)).Nodup ∧
    (∀ x ∈ s.answered, ∀ y ∈ s.answered, x.bid = y.bid → x.top.id = y.top.id) ∧
    (∀ x ∈ s.answered,
      x.rsp.rspTo = x.top.id ∧
      (∃ l ∈ s.forwarded, l.top = x.top ∧ l.breq.bid = x.bid ∧ l.epoch = x.epoch) ∧
      ∃ m ∈ s.mdel, m.rspTo = x.bid ∧ m.data = x.rsp.data) ∧
    (∀ u ∈ s.topOut, ∃ x ∈ s.answered, x.rsp = u) := by
  intro s
  have hc := run_cinv c ops
  have hm := run_minv c ops
  refine ⟨?_, ?_, fun x hx => (hm.ans x hx).2, hm.topOut⟩
  · rw [List.nodup_iff_count]
    intro i
    have h1 := hc.a i; have h2 := hc.b i; have h3 := hc.c i
    show List.count i (List.map (fun x => x.top.id) (run c ops).answered) ≤ 1
    omega
  · intro x hx y hy hxy
    obtain ⟨_, _, ⟨lx, hlx, k1, k2, _⟩, _⟩ := hm.ans x hx
    obtain ⟨_, _, ⟨ly, hly, m1, m2, _⟩, _⟩ := hm.ans y hy
    have : lx = ly := eq_of_count_le_one (fun l : FwdLog => l.breq.bid) _ hc.d lx hlx ly hly (by
      show lx.breq.bid = ly.breq.bid
      omega)
    rw [← k1, ← m1, this]

/-- **Flush.** `epoch` counts the flushes the translator has performed. Every access is forwarded
and answered only in the epoch in which it was accepted: nothing accepted before a flush is
forwarded or answered after it (late translation replies and memory responses are dropped). -/
theorem at_flush (c : Cfg) (ops : List Op) :
    let s := run c ops
    (∀ l ∈ s.forwarded, ∀ r ∈ s.received, r.1.id = l.top.id → r.2 = l.epoch) ∧
    (∀ x ∈ s.answered, ∀ r ∈ s.received, r.1.id = x.top.id → r.2 = x.epoch) ∧
    (∀ t ∈ s.txs, ∀ a ∈ t.reqs, (a, s.epoch) ∈ s.received) ∧
    (∀ f ∈ s.infl, (f.top, s.epoch) ∈ s.received) := by
  intro s
  have hc := run_cinv c ops
  have hm := run_minv c ops
  have huniq : ∀ x ∈ s.received, ∀ y ∈ s.received, x.1.id = y.1.id → x = y :=
    eq_of_count_le_one (fun x : Acc × Nat => x.1.id) _ (by
      intro i; have := hc.a i
      show List.count i (List.map (fun x => x.1.id) (run c ops).received) ≤ 1
      omega)
  refine ⟨?_, ?_, fun t ht a ha => ((hm.tx t ht).2.2.2.1 a ha).2.2, fun f hf => (hm.infl f hf).1⟩
  · intro l hl r hr he
    have := huniq r hr _ (hm.fwd l hl).1 he
    rw [this]
  · intro x hx r hr he
    have := huniq r hr _ (hm.ans x hx).1 he
    rw [this]

/-- The statements above are not vacuous: a concrete history (two PIDs on the same virtual page, a
reply that arrives while the bottom port is full, a flush in the middle) in which accesses are
received, forwarded to *different* physical pages, answered, and one is discarded by the flush. -/
def demoOps : List Op :=
  [.access 1 0x1004 ⟨false, 4, [], [], false⟩, .tick, .drainTr, .access 2 0x1008 ⟨false, 4, [], [], false⟩, .tick,
   .drainTr, .trsp ⟨0, 0x11000⟩, .tick, .trsp ⟨1, 0x12000⟩, .tick, .drainBot, .tick, .tick,
   .brsp ⟨0, some [1, 2, 3, 4]⟩, .tick, .access 1 0x2000 ⟨true, 2, [7, 8], [true, false], false⟩, .tick,
   .ctl .flush, .tick, .drainBot, .brsp ⟨1, some [5, 6, 7, 8]⟩, .tick]

example :
    let s := run ⟨1, 12⟩ demoOps
    s.received.map (·.1.id) = [2, 1, 0] ∧
    s.forwarded.map (fun l => (l.top.id, l.breq.paddr, l.epoch)) = [(1, 0x12008, 0), (0, 0x11004, 0)] ∧
    s.answered.map (fun x => (x.top.id, x.rsp.data, x.epoch)) = [(0, some [1, 2, 3, 4], 0)] ∧
    s.epoch = 1 ∧ s.flushing = true ∧ s.txs.length = 0 ∧ s.botIn.length = 1 := by
  decide

/-- what a completed flush does: all pending translations and in-flight records are discarded and
the epoch advances, so by `at_flush` nothing accepted earlier can be forwarded or answered later -/
theorem at_flush_step (s : St) (rest : List Ctl) (h1 : s.ctlIn = .flush :: rest) (h2 : s.ctlOut < 1) :
    (handleCtrl s).1.txs = [] ∧ (handleCtrl s).1.infl = [] ∧ (handleCtrl s).1.flushing = true ∧
    (handleCtrl s).1.epoch = s.epoch + 1 := by
  simp [handleCtrl, h1, h2]

/-- **No loss (progress under a decreasing measure).** `mu` weighs the work the translator holds
(9 per access waiting at the top port, 5 per access waiting in a transaction, 3/1 per message in an
outgoing/incoming buffer, 1 per in-flight record). In every reachable state, for every configuration:
1. with no control message pending, a tick never increases `mu`, and strictly decreases it whenever it
   reports progress (so the component cannot spin without getting closer to completion);
2. if the translator is not flushing, the environment has left room in the three outgoing buffers
   and the translator holds anything it can act on (a memory response, a translation reply, an access at
   the top port, or a completed transaction still holding requests), the tick *does* report progress
   and `mu` strictly decreases — including the case where a reply arrived while the bottom port was
   full (the transaction is already marked done; it is drained first, the stale reply is then dropped);
3. draining a non-empty outgoing buffer strictly decreases `mu`;
so as long as the environment keeps draining and answering, every accepted access moves on until
nothing is held. When none of the cases of (2) applies, all that is left are transactions waiting for
a translation reply and in-flight records waiting for a memory response, i.e. the environment's turn. -/
theorem at_no_loss (c : Cfg) (ops : List Op) :
    let s := run c ops
    (s.ctlIn = [] → mu (tick c s).1 ≤ mu s ∧ ((tick c s).2 = true → mu (tick c s).1 < mu s)) ∧
    (s.flushing = false → s.ctlIn = [] →
      s.topOut.length < c.width → s.botOut.length < c.width → s.trOut.length < c.width →
      (s.botIn ≠ [] ∨ s.trIn ≠ [] ∨ s.topIn ≠ [] ∨ ∃ t ∈ s.txs, t.done = true) →
      (tick c s).2 = true ∧ mu (tick c s).1 < mu s) ∧
    (s.topOut ≠ [] → mu (step c s .drainTop) < mu s) ∧
    (s.botOut ≠ [] → mu (step c s .drainBot) < mu s) ∧
    (s.trOut ≠ [] → mu (step c s .drainTr) < mu s) := by
  intro s
  have hd : DInv s := run_dinv c ops
  have hne : ∀ t ∈ s.txs, t.reqs ≠ [] := fun t ht => ((run_minv c ops).tx t ht).1
  refine ⟨tick_dec c s, ?_, ?_, ?_, ?_⟩
  · intro hfl hctl h1 h2 h3 hact
    have hw : 0 < c.width := by omega
    have hflag : (tick c s).2 = true := by
      obtain ⟨n, hn⟩ : ∃ n, c.width = n + 1 := ⟨c.width - 1, by omega⟩
      have hpipe : (runPipeline c s).2 = true := by
        simp only [runPipeline, Bool.or_eq_true]
        by_cases hb : s.botIn = []
        · have ha : iter (respond c) c.width s = (s, false) := iter_idle s (respond_idle c s hb) _
          rw [ha]
          by_cases hp : s.trIn ≠ [] ∨ ∃ t ∈ s.txs, t.done = true
          · left; right
            rw [hn]; exact iter_first n s (parse_enabled c s hd hne h2 hp)
          · have hp1 : s.trIn = [] := by
              cases h : s.trIn with
              | nil => rfl
              | cons a l => exact absurd (Or.inl (by simp [h])) hp
            have hp2 : ∀ t ∈ s.txs, t.done = false := by
              intro t ht
              cases h : t.done with
              | false => rfl
              | true => exact absurd (Or.inr ⟨t, ht, h⟩) hp
            have hbb : iter (parseTranslation c) c.width s = (s, false) :=
              iter_idle s (parse_idle c s hp1 hp2) _
            rw [hbb]
            right
            have htop : s.topIn ≠ [] := by
              rcases hact with h | h | h | ⟨t, ht, h⟩
              · exact absurd hb h
              · exact absurd hp1 h
              · exact h
              · have := hp2 t ht; simp [h] at this
            rw [hn]; exact iter_first n s (translate_enabled c s htop h3)
        · left; left
          rw [hn]; exact iter_first n s (respond_enabled c s hb h1)
      simp only [tick, hfl, Bool.false_eq_true, if_false, Bool.or_eq_true]
      exact Or.inr hpipe
    exact ⟨hflag, (tick_dec c s hctl).2 hflag⟩
  · intro h
    cases hq : s.topOut with
    | nil => exact absurd hq h
    | cons a l => simp [step, mu, hq]
  · intro h
    cases hq : s.botOut with
    | nil => exact absurd hq h
    | cons a l => simp [step, mu, hq]
  · intro h
    cases hq : s.trOut with
    | nil => exact absurd hq h
    | cons a l => simp [step, mu, hq]

/-- (2) of `at_no_loss` is met by a reachable state that holds a reply which arrived while the bottom
port was full: the transaction is done, the reply still sits at the port head, the bottom buffer has
been drained meanwhile. -/
example :
    let s := run ⟨1, 12⟩ (demoOps.take 11)
    s.flushing = false ∧ s.ctlIn = [] ∧ s.botOut.length < 1 ∧ s.trIn.length = 1 ∧
    (∃ t ∈ s.txs, t.done = true) ∧ mu s = 7 ∧ mu (tick ⟨1, 12⟩ s).1 = 6 := by
  decide

/-! ## The closed world: translator + honest translation service + honest memory + wake rule

`Reach c e w`: `w` is reachable from the empty world by any sequence of `HOp`s (`MgpuModel/C16_World.lean`):
accesses arrive at any time; the translation service takes lookups from the translation port and
answers each one once, in any order, after any delay, with the page table `e.pt`; the memory does
the same with `e.md`; every buffer is bounded; flush at any time, restart only while flushing; the
component is ticked only while Akita's scheduler has a tick event for it (`awake`). Every move is
the same `step`/`tick` the driver runs (`hstep_core`), so `at_forward_once` … `at_no_loss` hold in
every reachable world. `wmu` = `mu` + 2 per message held by a neighbour + the control port. -/

/-- **End-to-end faithfulness in the closed world.** In every reachable world no access is answered
twice, and every answer `x` carries the original request's ID and the data the memory holds for a
request with the access's own payload at `pt (its own PID) (its own page) + page offset`. -/
theorem at_world_faithful (c : Cfg) (e : Env) (w : CW) (hr : Reach c e w) :
    (w.s.answered.map (·.top.id)).Nodup ∧
    ∀ x ∈ w.s.answered,
      x.rsp.rspTo = x.top.id ∧ (x.top, x.epoch) ∈ w.s.received ∧
      ∃ l ∈ w.s.forwarded, l.top = x.top ∧ l.breq.bid = x.bid ∧ l.breq.pl = x.top.pl ∧
        l.breq.paddr = e.pt x.top.pid (pageId c.lg x.top.vaddr) + x.top.vaddr % 2 ^ c.lg ∧
        x.rsp.data = e.md l.breq := by
  obtain ⟨ops, hops⟩ := reach_run hr
  have hw := reach_winv hr
  have hu : UInv w.s := hops ▸ run_uinv c ops
  have hc : CInv w.s := hops ▸ run_cinv c ops
  have hm : MInv c w.s := hops ▸ run_minv c ops
  have hresp := at_respond_once c ops
  rw [← hops] at hresp
  have htruth : ∀ q ∈ w.s.asked, ∀ r ∈ w.s.tdel, r.rspTo = q.tid → r.paddr = e.pt q.pid q.vpage := by
    intro q hq r hrr he
    obtain ⟨q', hq', rfl⟩ := hw.tT r hrr
    have : q' = q := eq_of_nodup_map (·.tid) _ hu.and_ q' hq' q hq he
    rw [this]
  have hown := at_forward_own_page c ops e.pt (by rw [← hops]; exact htruth)
  rw [← hops] at hown
  refine ⟨hresp.1, ?_⟩
  intro x hx
  obtain ⟨k1, ⟨l, hl, k2, k3, _⟩, m, hm', k4, k5⟩ := hresp.2.2.1 x hx
  obtain ⟨l', hl', rfl⟩ := hw.tM m hm'
  have hll : l' = l := eq_of_count_le_one (fun l : FwdLog => l.breq.bid) _ hc.d l' hl' l hl (by
    show l'.breq.bid = l.breq.bid
    rw [k3]; exact k4)
  subst hll
  obtain ⟨p1, p2⟩ := hown l' hl'
  refine ⟨k1, (hm.ans x hx).1, l', hl', k2, k3, ?_, ?_, k5.symm⟩
  · rw [p2, k2]
  · rw [p1, k2]

/-- **Never stuck with work pending.** In every reachable world (any interleaving, any delays,
flushes anywhere) either every access accepted since the last flush has been answered — and,
unless a flush is still waiting for its restart, nothing at all is left anywhere (`wmu w = 0`) —
or some move of the translator or of an honest neighbour is enabled that strictly decreases the
world measure: a tick *for which the component is awake*, the service answering a lookup, the
memory answering a request, or a neighbour taking a message from an outgoing buffer. -/
theorem at_every_access_answered (c : Cfg) (e : Env) (w : CW) (hr : Reach c e w) :
    ((∀ p ∈ w.s.received, p.2 = w.s.epoch → ∃ x ∈ w.s.answered, x.top = p.1) ∧
      (w.s.flushing = false → wmu w = 0)) ∨
    ∃ o, o.internal = true ∧ wmu (hstep c e w o) < wmu w := by
  rcases stuck_free' hr with h | h
  · exact Or.inl h.1
  · exact Or.inr h

/-- **Termination of every fair run.** From any reachable world: a run of productive moves has at
most `wmu w` steps; when no productive move is left the world is settled (`Settled`: all accepted
accesses answered, nothing left unless flushing); and such a run exists. So any schedule that keeps
making enabled productive moves ends, after at most `wmu w` of them, with every accepted access
answered. -/
theorem at_world_terminates (c : Cfg) (e : Env) (w : CW) (hr : Reach c e w) :
    (∀ os, ProdSeq c e w os → os.length ≤ wmu w) ∧
    (∀ os, ProdSeq c e w os → (¬ ∃ o, Productive c e (hrun c e w os) o) → Settled (hrun c e w os)) ∧
    (∃ os, ProdSeq c e w os ∧ Settled (hrun c e w os)) := by
  refine ⟨?_, ?_, ?_⟩
  · intro os h
    have := prodseq_len c e os w h
    omega
  · intro os _ hno
    rcases stuck_free' (reach_hrun hr os) with h | h
    · exact h.1
    · exact absurd h hno
  · obtain ⟨os, h1, h2⟩ := prodseq_exists' _ w hr (Nat.le_refl _)
    exact ⟨os, h1, h2.1⟩

/-- **Nothing regresses in a closed run.** Whatever the component and its honest neighbours do, in
whatever order — idle ticks, refused deliveries and empty retrievals included — the world measure
never increases. Hence an arbitrary closed run (no new access, no new control command) contains at
most `wmu w` productive moves, and by `at_every_access_answered` one more is enabled as long as an
accepted access is unanswered: every fair closed run ends with all accepted accesses answered. -/
theorem at_world_monotone (c : Cfg) (e : Env) (w : CW) (os : List HOp) (h : ∀ o ∈ os, o.internal = true) :
    wmu (hrun c e w os) ≤ wmu w :=
  wmu_monotone_run c e os w h

/-- **The property, end to end.** From any reachable world the honest neighbours and the awake
component can complete the work, and then every access accepted since the last flush has exactly
one answer; it carries the access's own ID and the memory's data for a request with the access's
own payload at the page-table entry of the access's OWN (PID, page) plus its page offset. -/
theorem at_end_to_end (c : Cfg) (e : Env) (w : CW) (hr : Reach c e w) :
    ∃ os, ProdSeq c e w os ∧
      ∀ p ∈ (hrun c e w os).s.received, p.2 = (hrun c e w os).s.epoch →
        ∃ x ∈ (hrun c e w os).s.answered, x.top = p.1 ∧ x.rsp.rspTo = p.1.id ∧
          (∀ y ∈ (hrun c e w os).s.answered, y.top.id = p.1.id → y = x) ∧
          ∃ b : BReq, b.pl = p.1.pl ∧
            b.paddr = e.pt p.1.pid (pageId c.lg p.1.vaddr) + p.1.vaddr % 2 ^ c.lg ∧
            x.rsp.data = e.md b := by
  obtain ⟨os, h1, h2⟩ := prodseq_exists' _ w hr (Nat.le_refl _)
  refine ⟨os, h1, ?_⟩
  intro p hp he
  obtain ⟨x, hx, hxp⟩ := h2.1.1 p hp he
  obtain ⟨hnd, hall⟩ := at_world_faithful c e _ (reach_hrun hr os)
  obtain ⟨k1, _, l, _, _, _, k4, k5, k6⟩ := hall x hx
  refine ⟨x, hx, hxp, by rw [k1, hxp], ?_, l.breq, by rw [k4, hxp], by rw [k5, hxp], k6⟩
  intro y hy hye
  exact eq_of_nodup_map (fun z : AnsLog => z.top.id) _ hnd y hy x hx (by
    show y.top.id = x.top.id
    rw [hye, hxp])

/-- **No lost wake-up.** Akita ticks the translator only while a tick event is scheduled: `Handle`
re-schedules iff `Tick` returned `true`; a delivery into an empty incoming buffer and a retrieval
from a full outgoing buffer schedule one. In every reachable world, whenever the component is
asleep every pipeline stage and the control handler are blocked (`Quiet`) and a tick would change
nothing at all — so no work is ever left waiting for a tick that is not coming. This holds
*without exception*, also after the tick that records a reply while the bottom port is full
(state changed, `false` returned): see `reply_while_full_wakes`. -/
theorem no_lost_wakeup (c : Cfg) (e : Env) (w : CW) (hr : Reach c e w)
    (ha : w.awake = false) : Quiet c w.s ∧ tick c w.s = (w.s, false) :=
  ⟨reach_quiet' hr ha, quiet_tick c w.s (reach_winv hr).noBad (reach_quiet' hr ha)⟩

/-- The generic lemma "a tick that reports no progress leaves the state unchanged" (DESIGN §1.3),
restricted to the `done` flags of the transactions. -/
def tick_idle_unchanged_full : Prop :=
  ∀ (c : Cfg) (ops : List Op), (tick c (run c ops)).2 = false →
    (tick c (run c ops)).1.txs.map (·.done) = (run c ops).txs.map (·.done)

/-- It is false for the translator: the reply-while-bottom-full tick marks a transaction done and
returns `false`. -/
theorem tick_idle_unchanged_refuted : ¬ tick_idle_unchanged_full := by
  intro h
  have := h ⟨1, 12⟩ (demoOps.take 9) (by decide)
  revert this
  decide

/-- What does hold: when the awake component's tick reports no progress, the *next* tick would be a
no-op (`tick_idle_unchanged_partial`), i.e. going to sleep loses nothing. -/
theorem tick_idle_unchanged_partial (c : Cfg) (e : Env) (w : CW) (hr : Reach c e w)
    (hf : (tick c w.s).2 = false) :
    tick c (tick c w.s).1 = ((tick c w.s).1, false) := by
  cases ha : w.awake with
  | true =>
    have hr' := Reach.step w .tick hr
    have := (no_lost_wakeup c e _ hr' (by simp [hstep, ha, hf])).2
    simpa [hstep, ha] using this
  | false =>
    -- asleep: the tick is already a no-op (`no_lost_wakeup`)
    have h := (no_lost_wakeup c e w hr ha).2
    rw [h]; exact h

/-- **The reply-while-bottom-full case decided.** If the component is asleep while a completed
transaction still holds requests (the state that tick leaves behind), then the bottom port's
outgoing buffer is exactly full; the next retrieval from it wakes the component
(`NotifyPortFree`), and the tick that follows makes progress. So the component can not stay asleep
with that work pending once the memory side takes a request. -/
theorem reply_while_full_wakes (c : Cfg) (e : Env) (w : CW) (hr : Reach c e w)
    (ha : w.awake = false) (t : Tx) (ht : t ∈ w.s.txs) (hdone : t.done = true) :
    w.s.botOut.length = c.width ∧ (hstep c e w .drainBot).awake = true ∧
    (tick c (hstep c e w .drainBot).s).2 = true := by
  have hwid : 0 < c.width := by
    cases hc : c.width with
    | zero => have := (reach_w0 hc hr).txs; rw [this] at ht; simp at ht
    | succ n => omega
  obtain ⟨ops, hops⟩ := reach_run hr
  have hm : MInv c w.s := hops ▸ run_minv c ops
  have hb : BInv c w.s := hops ▸ run_binv c ops
  have hn : NInv w.s := hops ▸ run_ninv c ops
  have hq := (reach_quiet' hr ha).p
  have hfull : w.s.botOut.length = c.width := by
    unfold parseQ at hq
    have hsome := popFirst_some_of_mem isDrainable _ t ht (by
      cases hr' : t.reqs with
      | nil => exact absurd hr' (hm.tx t ht).1
      | cons a rs => simp [isDrainable, hdone, hr'])
    cases hp : popFirst isDrainable w.s.txs with
    | none => rw [hp] at hsome; simp at hsome
    | some y =>
      rw [hp] at hq
      have h1 : c.width ≤ w.s.botOut.length := hq
      have := hb.bot
      omega
  have hfl : w.s.flushing = false := by
    cases h : w.s.flushing with
    | false => rfl
    | true => have := (hn.fl h).1; rw [this] at ht; simp at ht
  have hne : w.s.botOut ≠ [] := by
    intro h0; rw [h0] at hfull; simp at hfull; omega
  obtain ⟨b, bs, hbo⟩ := List.exists_cons_of_ne_nil hne
  have hr' := Reach.step w .drainBot hr
  obtain ⟨ops', hops'⟩ := reach_run hr'
  have hd' : DInv (hstep c e w .drainBot).s := hops' ▸ run_dinv c ops'
  have hm' : MInv c (hstep c e w .drainBot).s := hops' ▸ run_minv c ops'
  have hs' : (hstep c e w .drainBot).s = step c w.s .drainBot := by simp [hstep, hbo]
  refine ⟨hfull, by simp [hstep, hbo, ← hfull], ?_⟩
  apply tick_enabled_done c _ hd' (fun t ht => (hm'.tx t ht).1) _ hwid
  · rw [hs']
    show w.s.botOut.tail.length < c.width
    rw [← hfull, hbo]
    simp
  · rw [hs']; exact ⟨t, ht, hdone⟩
  · rw [hs']; exact hfl

/-- **Flush in the closed world.** `askedAt` / `forwarded` tag every lookup sent and every request
forwarded with the flush epoch in which that happened. In every reachable world — in particular
after flush + restart, with replies to discarded lookups and responses to discarded requests still
on their way, arriving in any order and after any delay — (1, 2) no pending transaction and no
in-flight record carries the id of a lookup / request of an *earlier* epoch, so a late message can
never be taken for a current one; (3, 4) a late reply (late memory response) that reaches the head
of its port is dropped: the stage returns exactly the old state minus that message (plus its trace
event) — transactions, in-flight records, logs, all other buffers and the id counters are
untouched; (5) every lookup ever sent has such a tag. Together with `at_every_access_answered` /
`at_end_to_end`, which hold in these worlds too, later traffic is answered exactly as specified,
late messages or not. -/
theorem at_flush_world (c : Cfg) (e : Env) (w : CW) (hr : Reach c e w) :
    (∀ t ∈ w.s.txs, ∀ p ∈ w.s.askedAt, p.2 < w.s.epoch → p.1 ≠ t.treq.tid) ∧
    (∀ f ∈ w.s.infl, ∀ l ∈ w.s.forwarded, l.epoch < w.s.epoch → l.breq.bid ≠ f.breq.bid) ∧
    (∀ p ∈ w.s.askedAt, p.2 < w.s.epoch → ∀ r rest, w.s.trIn = r :: rest → r.rspTo = p.1 →
      popFirst isDrainable w.s.txs = none →
      parseTranslation c w.s = ({ w.s with trIn := rest, ev := s!"X{r.rspTo}" :: w.s.ev }, true)) ∧
    (∀ l ∈ w.s.forwarded, l.epoch < w.s.epoch → ∀ r rest, w.s.botIn = r :: rest → r.rspTo = l.breq.bid →
      respond c w.s = ({ w.s with botIn := rest, ev := s!"Y{r.rspTo}" :: w.s.ev }, true)) ∧
    (∀ q ∈ w.s.asked, ∃ ep, (q.tid, ep) ∈ w.s.askedAt ∧ ep ≤ w.s.epoch) := by
  have hw := reach_winv hr
  have he := reach_einv hr
  have h1 : ∀ t ∈ w.s.txs, ∀ p ∈ w.s.askedAt, p.2 < w.s.epoch → p.1 ≠ t.treq.tid := by
    intro t ht p hp hlt
    obtain ⟨q, hq, hqe⟩ := he.as_ p hp hlt
    rw [← hqe]; exact hw.t.fT t ht q hq
  have h2 : ∀ f ∈ w.s.infl, ∀ l ∈ w.s.forwarded, l.epoch < w.s.epoch → l.breq.bid ≠ f.breq.bid :=
    fun f hf l hl hlt => hw.t.fM f hf l (he.fs l hl hlt)
  refine ⟨h1, h2, ?_, ?_, ?_⟩
  · intro p hp hlt r rest htr hre hpo
    exact parse_drops c w.s r rest htr hpo (fun t ht h => h1 t ht p hp hlt (hre ▸ h.symm))
  · intro l hl hlt r rest hb hre
    exact respond_drops c w.s r rest hb (fun f hf h => h2 f hf l hl hlt (hre ▸ h.symm))
  · intro q hq
    obtain ⟨ep, hep⟩ := he.aa q hq
    exact ⟨ep, hep, he.ae _ hep⟩

/-- the flushing tick takes the snapshots: afterwards everything sent so far is stale and nothing is held -/
theorem at_flush_world_step (c : Cfg) (e : Env) (w : CW) (ha : w.awake = true)
    (hf : (tick c w.s).1.epoch ≠ w.s.epoch) :
    (hstep c e w .tick).staleT = (hstep c e w .tick).s.asked ∧
    (hstep c e w .tick).staleM = (hstep c e w .tick).s.forwarded := by
  simp [hstep, ha, hf]

/-! ### Non-vacuity: a concrete closed world -/

def demoEnv : Env := ⟨fun pid vp => 0x100000 * pid + vp, fun b => if b.pl.isWrite then none else some [b.paddr % 256]⟩

/-- two PIDs on the same virtual page; the second reply arrives while the bottom port is full and
the component goes to sleep on it -/
def demoH1 : List HOp :=
  [.access 1 0x1004 ⟨false, 4, [], [], false⟩, .tick, .drainTr, .ansT 0, .tick,
   .access 2 0x1008 ⟨false, 4, [], [], false⟩, .tick, .drainTr, .ansT 0, .tick, .tick]

/-- … the memory takes the first request (wake-up), the first access completes; then flush, restart, a
new access, and only then the memory answers the request forwarded before the flush -/
def demoH2 : List HOp :=
  demoH1 ++ [.drainBot, .tick, .ansM 0, .tick, .drainTop, .drainBot, .flush, .tick, .drainCtl,
    .restart, .tick, .drainCtl, .access 1 0x2010 ⟨false, 4, [], [], false⟩, .tick, .ansM 0]

/-- every world of the demo runs below is reachable, so the closed-world theorems apply to them -/
theorem demo_reach (os : List HOp) : Reach ⟨1, 12⟩ demoEnv (hrun ⟨1, 12⟩ demoEnv {} os) :=
  reach_hrun Reach.init os

/-- the world after `demoH1`: asleep with a completed transaction pending and the bottom port full
(hypotheses of `no_lost_wakeup` and `reply_while_full_wakes`), not settled, productive move exists -/
example :
    let w := hrun ⟨1, 12⟩ demoEnv {} demoH1
    w.awake = false ∧ w.s.txs.map (·.done) = [true] ∧ w.s.botOut.length = 1 ∧ w.s.trIn.length = 1 ∧
    wmu w = 10 ∧ wmu (hstep ⟨1, 12⟩ demoEnv w .drainBot) = 9 ∧
    (hstep ⟨1, 12⟩ demoEnv w .drainBot).awake = true := by
  decide

/-- the world after `demoH2`: the late memory response (bottom id 1, forwarded before the flush) sits
at the head of the bottom port and is stale, while the access accepted after the restart waits for
its translation under a fresh lookup id (hypotheses of `at_flush_world` (4)) -/
example :
    let w := hrun ⟨1, 12⟩ demoEnv {} demoH2
    w.s.epoch = 1 ∧ w.s.flushing = false ∧ w.staleM.map (·.breq.bid) = [1, 0] ∧
    w.s.botIn.map (·.rspTo) = [1] ∧ w.s.txs.map (·.treq.tid) = [2] ∧ w.staleT.map (·.tid) = [1, 0] ∧
    w.s.askedAt = [(2, 1), (1, 0), (0, 0)] ∧
    w.s.forwarded.map (fun l => (l.breq.bid, l.epoch)) = [(1, 0), (0, 0)] ∧
    w.s.received.map (fun p => (p.1.id, p.2)) = [(2, 1), (1, 0), (0, 0)] := by
  decide

/-- … and completing the run answers the new access with the translation of its own (PID, page):
`Settled`, one answer in epoch 1 with data `md` at `pt 1 0x2000 + 0x10` -/
example :
    let w := hrun ⟨1, 12⟩ demoEnv {}
      (demoH2 ++ [.tick, .drainTr, .ansT 0, .tick, .drainBot, .ansM 0, .tick, .drainTop])
    wmu w = 0 ∧ w.s.answered.map (fun x => (x.top.id, x.epoch, x.rsp.data)) =
      [(2, 1, some [(0x100000 + 0x2000 + 0x10) % 256]), (0, 0, some [(0x100000 + 0x1000 + 4) % 256])] ∧
    w.s.forwarded.map (fun l => (l.top.id, l.breq.bid, l.breq.paddr)) =
      [(2, 2, 0x100000 + 0x2000 + 0x10), (1, 1, 0x200000 + 0x1000 + 8), (0, 0, 0x100000 + 0x1000 + 4)] := by
  decide

/-- the hypotheses of the closed-world theorems are met by these worlds: after `demoH1` the component
is asleep (`no_lost_wakeup`) with a completed transaction pending (`reply_while_full_wakes`), the world is
not settled, so `at_every_access_answered` yields a productive move -/
example : ∃ o, o.internal = true ∧
    wmu (hstep ⟨1, 12⟩ demoEnv (hrun ⟨1, 12⟩ demoEnv {} demoH1) o) < wmu (hrun ⟨1, 12⟩ demoEnv {} demoH1) := by
  rcases at_every_access_answered ⟨1, 12⟩ demoEnv _ (demo_reach demoH1) with h | h
  · exact absurd (h.2 (by decide)) (by decide)
  · exact h

example := no_lost_wakeup ⟨1, 12⟩ demoEnv _ (demo_reach demoH1) (by decide)

example : ∃ t ∈ (hrun ⟨1, 12⟩ demoEnv {} demoH1).s.txs, t.done = true := by decide

/-- the tick before the component fell asleep: awake, reports no progress, yet marks the transaction done -/
example := tick_idle_unchanged_partial ⟨1, 12⟩ demoEnv _ (demo_reach (demoH1.take 9)) (by decide)

/-- the flushing tick of `demoH2` (op 19): awake, epoch changes -/
example := at_flush_world_step ⟨1, 12⟩ demoEnv (hrun ⟨1, 12⟩ demoEnv {} (demoH2.take 18)) (by decide) (by decide)

example := at_end_to_end ⟨1, 12⟩ demoEnv _ (demo_reach demoH2)

end C16
