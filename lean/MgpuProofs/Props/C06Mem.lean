import Lean
import MgpuProofs.C06MemBody
import MgpuProofs.Props.C06
import MgpuModel.C06
/-! # C06 — memory / LDS handlers: `LoadOrStore` is a decided property of every implemented DS / FLAT
handler, and what an atomic would need

`seq_eq_par` and the theorems derived from it assume `LoadOrStore h`. Here
* `memory_handlers_load_or_store` decides, over the access facts regenerated from the Go source
  (`Gen.Lane.memFacts`: every `lds[…]` / `u.storageAccessor.Read/Write` with its direction), that EVERY
  DS / FLAT opcode-switch entry of both ALUs runs a handler that only loads or only stores, inside its
  guarded lane loop, and hands `state` only to helpers that touch no memory;
* `seq_eq_par_race_free` weakens the hypothesis to `RaceFree` (no active lane reads an address another
  active lane stores to), which `LoadOrStore` implies (`load_or_store_is_race_free`) — this is what an
  atomic / read-modify-write DS or FLAT op would have to meet;
* `memory_bodies_uniform`, `memory_bodies_load_or_store`, `memory_handlers_instantiate`: the DS / FLAT lane
  bodies are translated too (`translate/lanemem.go`, byte slices as lists); each is proved independent of the
  loop variable and of what an earlier lane left in the staging array declared outside the loop, and proved
  load-only or store-only — so `LoadOrStore` of the skeleton instance is a theorem about the translated code,
  tied to the real ALUs by the `c06 mbody` correspondence;
* `atomic_needs_race_freedom` shows the hypothesis cannot be dropped: `ds_add_rtn_u32` with two lanes on
  one address returns in lane 1 what lane 0 stored; `atomic_race_free_of_distinct` shows pairwise distinct
  addresses are enough. -/
namespace C06

/-- the record of the handler a DS / FLAT opcode-switch entry runs -/
def memFactOf (d : C06Facts.Dispatch) : Option MemFact :=
  Gen.Lane.memFacts.find? fun f => f.arch == d.arch && f.name == d.handler

def isMemFormat (f : String) : Bool := f == "ds" || f == "flat"

#eval show IO Unit from do
  let bad := Gen.Lane.memFacts.filter (fun f => !memFactOK Gen.Lane.memFacts f)
  unless bad.isEmpty do
    throw (IO.userError s!"C06: DS/FLAT handlers that both load and store, access memory outside the lane loop, or call a helper that accesses memory: {bad.map fun f => (f.arch, f.name, f.accesses.map fun a => (a.line, a.isWrite, a.inLoop))}")

/-- **Every implemented DS / FLAT instruction only loads or only stores** (regenerated, decided): its
    handler's LDS / memory accesses all have one direction, all sit inside the guarded lane loop, and the
    helpers it passes `state` to (`flatAddrWithScalar`, `flatPrecomputeScalarBase`) access nothing. So the
    `LoadOrStore` hypothesis of `seq_eq_par` is met by every memory instruction either ALU implements —
    there is no read-modify-write (atomic) handler at this tree. -/
theorem memory_handlers_load_or_store :
    ((Gen.dispatch.filter (fun d => isMemFormat d.format)).all fun d =>
      match memFactOf d with
      | some f => memFactOK Gen.Lane.memFacts f && (memClass f == .loadOnly || memClass f == .storeOnly)
      | none => false) = true ∧
    (Gen.Lane.memFacts.all (memFactOK Gen.Lane.memFacts)) = true := by
  constructor <;> decide +kernel

example : (Gen.dispatch.filter (fun d => isMemFormat d.format)).length ≥ 30 ∧
    (Gen.Lane.memFacts.filter (fun f => memClass f == .loadOnly)).length ≥ 15 ∧
    (Gen.Lane.memFacts.filter (fun f => memClass f == .storeOnly)).length ≥ 15 := by decide +kernel

/-- the memory-fact table and the coverage table talk about the same handlers: a coverage row is
    `memory` or `helper` exactly when the handler has a memory-fact record -/
theorem mem_facts_cover_memory_rows :
    (Gen.Lane.coverage.all fun r =>
      (r.cov == .memory || r.cov == .helper) == Gen.Lane.memFacts.any (fun f => f.arch == r.arch && f.name == r.name)) = true := by
  decide +kernel

example : (Gen.Lane.coverage.filter (fun r => r.cov == .memory || r.cov == .helper)).length ≥ 40 := by decide +kernel

/-- **`seq_eq_par` under race freedom**: the sequential lane loop equals the parallel per-lane map as soon
    as no active lane's body can observe an address another active lane stores to. -/
theorem seq_eq_par_race_free {υ} (h : Handler υ) (u : υ) (exec : BitVec 64) (s : VState)
    (hrf : RaceFree h u (fun i => exec.getLsbD i) (prologue h s)) :
    vexec h u exec s = parMap h u (fun i => exec.getLsbD i) 64 (prologue h s) := by
  simp only [vexec, vexecB]
  exact seqLoop_eq_parMap_of h u _ 64 _ (fun k hk he => laneOut_parMap_rf h u _ _ hrf k hk he)

/-- `LoadOrStore` (every implemented DS / FLAT handler) implies race freedom on every state and EXEC -/
theorem load_or_store_is_race_free {υ} (h : Handler υ) (u : υ) (exec : Nat → Bool) (s : VState)
    (hls : LoadOrStore h) : RaceFree h u exec s := raceFree_of_loadOrStore h u exec s hls

example : LoadOrStore hDsRead ∧ LoadOrStore hDsWrite :=
  ⟨Or.inl (fun _ _ => rfl), Or.inr (fun _ _ _ => rfl)⟩

private def exAtomS (a0 a1 : Nat) : VState :=
  { vgpr := fun l r => if r = 0 then (if l = 0 then a0 else if l = 1 then a1 else 100 + l) else if r = 1 then 5 else 0
    cin := fun _ => false, mout := fun _ => false, mem := fun _ => 1, log := [] }

/-- **The hypothesis is needed for atomics**: `ds_add_rtn_u32` with lanes 0 and 1 on the same address —
    the Go-style sequential loop returns to lane 1 the value lane 0 stored (6), the parallel map the
    original value (1). A read-modify-write handler is NOT `LoadOrStore`, and not race free on this state. -/
theorem atomic_needs_race_freedom :
    (vexec hDsAddRtn () 0x3#64 (exAtomS 7 7)).vgpr 1 2 = 6 ∧
    (parMap hDsAddRtn () (fun i => (0x3#64).getLsbD i) 64 (prologue hDsAddRtn (exAtomS 7 7))).vgpr 1 2 = 1 ∧
    ¬ LoadOrStore hDsAddRtn ∧
    ¬ RaceFree hDsAddRtn () (fun i => (0x3#64).getLsbD i) (exAtomS 7 7) := by
  refine ⟨by decide, by decide, ?_, ?_⟩
  · intro h
    rcases h with h | h
    · have := h () ⟨fun _ => 0, false, fun _ => 0⟩
      simp [hDsAddRtn] at this
    · have := h () ⟨fun _ => 0, false, fun _ => 0⟩ (fun _ => 1)
      simp [hDsAddRtn] at this
  · intro hrf
    have := hrf 1 (by omega) (by decide) (fun a => if a = 7 then 6 else 1) (by
      intro a ha
      by_cases h7 : a = 7
      · subst h7
        exfalso; apply ha
        decide
      · simp [h7, exAtomS])
    have h2 := congrArg (fun o => o.writes) this
    simp [hDsAddRtn, laneIn, exAtomS] at h2

/-- pairwise distinct addresses of the active lanes make the atomic race free (and then `seq_eq_par_race_free`
    applies): each lane reads and writes only its own address -/
theorem atomic_race_free_of_distinct (exec : Nat → Bool) (s : VState)
    (hd : ∀ l k, l < 64 → k < 64 → exec l = true → exec k = true → l ≠ k → s.vgpr l 0 ≠ s.vgpr k 0) :
    RaceFree hDsAddRtn () exec s := by
  intro l hl he m' hm
  have hown : m' (s.vgpr l 0) = s.mem (s.vgpr l 0) := by
    apply hm
    simp only [otherStoreAddrs, List.mem_flatMap, List.mem_range, not_exists, not_and]
    intro k hk
    split
    · rename_i hc
      simp only [laneOut, hDsAddRtn, laneIn, List.map_cons, List.map_nil, List.mem_singleton]
      exact hd l k hl hk he hc.2 (Ne.symm hc.1)
    · simp
  simp [hDsAddRtn, laneIn, hown]

example : ∀ l k, l < 64 → k < 64 → (fun i => decide (i < 2)) l = true → (fun i => decide (i < 2)) k = true →
    l ≠ k → (exAtomS 7 9).vgpr l 0 ≠ (exAtomS 7 9).vgpr k 0 := by
  intro l k _ _ h1 h2 hne
  simp only [decide_eq_true_eq] at h1 h2
  have hl2 : l = 0 ∨ l = 1 := by omega
  have hk2 : k = 0 ∨ k = 1 := by omega
  rcases hl2 with rfl | rfl <;> rcases hk2 with rfl | rfl <;> simp_all [exAtomS]

/-! ## The DS / FLAT lane bodies themselves, translated (`Gen.Lane.memHandlers`, `translate/lanemem.go`) -/

open Gen.Lane
set_option linter.unusedSimpArgs false
set_option maxRecDepth 4000

macro "mem_uniform" "[" ds:Lean.Parser.Tactic.simpLemma,* "]" : tactic =>
  `(tactic| (
    intro u r
    dsimp only [$ds,*]
    intro g
    simp [add_sub_self32, GoB.copyInto, GoB.readMem, GoB.setByte, GoB.getByte, GoB.le32, GoB.le64, List.ofFn_succ, List.range_succ,
      List.replicate, mro_dst_ite, mro_loads_ite, mro_stores_ite, mro_fault_ite, mro_stage_ite, length_ite]))

macro "mem_load_or_store" "[" ds:Lean.Parser.Tactic.simpLemma,* "]" : tactic =>
  `(tactic| first
    | (left; intro u r; simp [$ds,*, mro_stores_ite]; done)
    | (right; intro u r m; exact ⟨by simp [$ds,*, mro_loads_ite], rfl⟩))

open Lean Elab Tactic Meta in
/-- goal `∀ h ∈ [mh_a, mh_b, …], P h`: peel the list and run `tac [mh_x, mraw_x]` on each element; a
    failure names the handler -/
def peelMemHandlers (what : String) (run : Ident → Ident → TacticM Unit) : TacticM Unit := do
  let mut fuel := 10000
  while fuel > 0 do
    fuel := fuel - 1
    let g ← getMainGoal
    let t ← instantiateMVars (← g.getType)
    let .forallE _ _ body _ := t | throwError "peelMemHandlers: unexpected goal {t}"
    let .forallE _ memTy _ _ := body | throwError "peelMemHandlers: unexpected goal {t}"
    let L ← whnfCore memTy.appFn!.appArg!
    if L.isAppOf ``List.nil then
      evalTactic (← `(tactic| exact List.forall_mem_nil _))
      return
    unless L.isAppOf ``List.cons do throwError "peelMemHandlers: not a list literal: {L}"
    let some n := L.appFn!.appArg!.constName? | throwError "peelMemHandlers: not a generated constant"
    let s := n.getString!
    unless s.startsWith "mh_" do throwError "peelMemHandlers: unexpected constant {n}"
    let rawN := n.getPrefix.str ("mraw_" ++ s.drop 3)
    evalTactic (← `(tactic| refine List.forall_mem_cons.mpr ⟨?_, ?_⟩))
    let gs ← getGoals
    setGoals [gs.head!]
    try
      run (mkIdent n) (mkIdent rawN)
    catch e =>
      throwError "C06: memory body {n}: {what} FAILED ({e.toMessageData})"
    unless (← getGoals).isEmpty do
      throwError "C06: memory body {n}: {what} FAILED"
    setGoals gs.tail

open Lean Elab Tactic in
elab "mem_uniform_all" : tactic =>
  peelMemHandlers "does not depend on the loop variable / on what an earlier lane left in the staging array"
    (fun a b => do evalTactic (← `(tactic| mem_uniform [$a:ident, $b:ident])))

open Lean Elab Tactic in
elab "mem_load_or_store_all" : tactic =>
  peelMemHandlers "only loads or only stores"
    (fun a b => do evalTactic (← `(tactic| mem_load_or_store [$a:ident, $b:ident])))

/-- **Every translated DS / FLAT lane body is lane-uniform**: what iteration `i` writes, loads and stores
    does not depend on `i`, nor on the bytes an earlier lane left in the staging array declared outside
    the loop (`var buf [N]byte`) — every handler overwrites all of it before using it. -/
theorem memory_bodies_uniform : ∀ h ∈ Gen.Lane.memHandlers, MemLaneUniform h := by
  unfold Gen.Lane.memHandlers
  mem_uniform_all

example : mh_cdna3_runDSREAD2B32.stageLen = 8 ∧
    (mraw_cdna3_runDSREAD2B32 ⟨1#32, 2#32, false, 0#64, 65536#64⟩
      ⟨3, 16#64, [], [], fun k => BitVec.ofNat 8 k, List.replicate 8 0xff#8⟩).dst
      = some [20#8, 21#8, 22#8, 23#8, 24#8, 25#8, 26#8, 27#8] := by decide

/-- **`LoadOrStore`, proved about the translated bodies**: each DS / FLAT body performs no store on any
    input, or performs no load and returns the same result on every memory. -/
theorem memory_bodies_load_or_store : ∀ h ∈ Gen.Lane.memHandlers, MemLoadOrStore h := by
  unfold Gen.Lane.memHandlers
  mem_load_or_store_all

/-- hence the skeleton instance of every translated memory handler meets the hypothesis of `seq_eq_par`,
    `inactive_lanes_unchanged`, `inactive_lanes_no_access`, `lane_independent`, `perm_equivariant*` -/
theorem memory_handlers_instantiate (h : MemHandler) (hm : h ∈ Gen.Lane.memHandlers) : LoadOrStore h.toHandler :=
  loadOrStore_of_mem h (memory_bodies_load_or_store h hm)

example : (Gen.Lane.memHandlers.any fun h => h.arch == "gcn3" && h.name == "runFlatStoreDWordX4") = true := by decide +kernel

/-- inactive lanes of a translated DS / FLAT handler perform no access and change no memory (instance of
    the generic theorem; no hypothesis left) -/
theorem memory_inactive_lanes_no_access (h : MemHandler) (hm : h ∈ Gen.Lane.memHandlers) (ops : MemOps)
    (exec : BitVec 64) (s : VState) :
    ∃ new, (vexec h.toHandler ops exec s).log = s.log ++ new ∧
      (∀ a ∈ new, a.lane < 64 ∧ exec.getLsbD a.lane = true) ∧
      (vexec h.toHandler ops exec s).mem
        = applyStores s.mem (activeStores h.toHandler ops (fun i => exec.getLsbD i) 64 (prologue h.toHandler s)) :=
  inactive_lanes_no_access h.toHandler ops exec s (memory_handlers_instantiate h hm)

/-- every DS / FLAT opcode-switch entry runs a handler whose body is translated, with the direction the
    access facts say (load-only ⇔ the body never stores) -/
theorem memory_dispatch_translated :
    ((Gen.dispatch.filter (fun d => isMemFormat d.format)).all fun d =>
      Gen.Lane.memHandlers.any fun h => h.arch == d.arch && h.name == d.handler) = true ∧
    (Gen.Lane.memHandlers.all fun h => Gen.Lane.memFacts.any fun f =>
      f.arch == h.arch && f.name == h.name && (memClass f == .loadOnly || memClass f == .storeOnly) &&
      (f.accesses.all (·.isLds) == h.isLds)) = true := by
  constructor <;> decide +kernel

example : Gen.Lane.memHandlers.length ≥ 30 := by decide +kernel

/-- every vector handler record of the `memory` / `helper` coverage class has its lane body translated
    (`Gen.Lane.memHandlers`) — except the address helpers, which have no lane loop and touch no memory:
    `flatPrecomputeScalarBase` (reads the SADDR pair once, before the loop; its two results are inputs
    `hasSAddr`, `scalarBase` of the bodies), `flatAddr`, `flatAddrWithScalar` (translated as the pure function
    `fnm_<arch>_flatAddrWithScalar` of the lane's address operand) -/
theorem memory_rows_translated :
    (Gen.Lane.coverage.all fun r =>
      !(r.cov == .memory || r.cov == .helper) ||
      Gen.Lane.memHandlers.any (fun h => h.arch == r.arch && h.name == r.name) ||
      (["flatPrecomputeScalarBase", "flatAddr", "flatAddrWithScalar"].contains r.name &&
        Gen.Lane.memFacts.any (fun f => f.arch == r.arch && f.name == r.name && memClass f == .noAccess))) = true := by
  decide +kernel

example : (Gen.Lane.coverage.filter fun r => r.cov == .memory && Gen.Lane.memHandlers.any (fun h => h.arch == r.arch && h.name == r.name)).length ≥ 30 := by
  decide +kernel

end C06
