import MgpuModel.C15
namespace C15

/-- placeholder -/
theorem dup_preserves (n : Nat) (r : Req) :
    (dupReq n r).addr = r.addr ∧ (dupReq n r).pid = r.pid ∧ (dupReq n r).write = r.write := by
  unfold dupReq; split <;> simp_all

end C15
