import MgpuProofs.C15Inv
import MgpuProofs.C15Live
/-! # C15 — the reorder buffer returns responses in request order, exactly once

All statements are about `C15.run c ops`: the state of the tick-exact model of
`rob.ReorderBuffer` after an **arbitrary** sequence of environment moves `ops : List Op`
(ticks, request arrivals, lower-level responses with any id in any order, duplicated or never
requested, flush / restart control messages at any point, draining — or not draining — of any
port) for an **arbitrary** configuration `c : Cfg` (capacity, per-cycle width, the six port-buffer
sizes; no side condition at all, so in particular for all capacities, widths, sizes ≥ 1).
-/
namespace C15

/-- an out-of-order scenario with a flush in the middle, used by the `example`s:
    cap 2, width 1, port buffers 2; requests 0,1 accepted, answered in reverse order, both
    delivered; requests 2,3 accepted, 3 answered, flush, restart, late answer for 2, request 4
    accepted and served. -/
def demoCfg : Cfg :=
  { cap := 2, width := 1, topInCap := 2, topOutCap := 2, botInCap := 2, botOutCap := 2,
    ctlInCap := 1, ctlOutCap := 1, bottomUnit := true }

def demoReq (a : Nat) (w : Bool) : ReqIn :=
  { write := w, addr := a, size := 4, data := if w then [1, 2, 3, 4] else [], mask := [], pid := 1,
    cwc := true, src := 2 }

def demoOps : List Op :=
  [.top (demoReq 0 false), .top (demoReq 64 true), .tick, .tick, .drainBot, .drainBot,
   .bot 1 .done, .bot 0 (.data [9, 9, 9, 9]), .tick, .tick, .tick, .drainTop,
   .top (demoReq 128 false), .top (demoReq 192 false), .tick, .tick, .drainBot, .drainBot,
   .bot 3 (.data [7]), .tick,
   .ctl ⟨true, false⟩, .tick, .drainCtl, .ctl ⟨false, true⟩, .tick, .bot 2 (.data [5]),
   .top (demoReq 256 false), .tick, .tick, .bot 4 (.data [6]), .tick, .tick]

/-- **The invariant** (`Inv`, 16 clauses, see `MgpuProofs/C15Inv.lean`) holds after every op
    sequence, flush and restart included. Everything below is read off from it. -/
theorem rob_inv (c : Cfg) (ops : List Op) : Inv c (run c ops) := run_inv c ops

example : (run demoCfg demoOps).accepted = [0, 1, 2, 3, 4] ∧ (run demoCfg demoOps).discarded = [2, 3] ∧
    (run demoCfg demoOps).delivered.map (·.rspTo) = [0, 1, 4] := by decide

/-- **In order.** The ids answered so far, followed by the ids still pending, are exactly the
    accepted ids that were not discarded, in acceptance order; hence the answered ids are a
    prefix of that list and a subsequence of the acceptance order — whatever order, timing and
    duplication the lower level answered with and whichever ports were blocked. -/
theorem responses_in_acceptance_order (c : Cfg) (ops : List Op) :
    let s := run c ops
    s.delivered.map (·.rspTo) ++ s.txs.map (·.req.id) = s.live ∧
    s.delivered.map (·.rspTo) <+: s.live ∧
    (s.delivered.map (·.rspTo)).Sublist s.accepted := by
  intro s
  have h := (rob_inv c ops).order
  refine ⟨h, ⟨_, h⟩, ?_⟩
  have h1 : (s.delivered.map (·.rspTo)).Sublist s.live := h ▸ List.sublist_append_left _ _
  exact h1.trans List.filter_sublist

example : (run demoCfg demoOps).delivered.map (·.rspTo) ++ (run demoCfg demoOps).txs.map (·.req.id)
    = [0, 1, 4] := by decide

/-- **Exactly once (safety half).** Requester ids are pairwise distinct, no id is answered twice,
    only accepted ids are answered, and no id is simultaneously answered and pending. -/
theorem each_response_once (c : Cfg) (ops : List Op) :
    let s := run c ops
    s.accepted.Nodup ∧ (s.delivered.map (·.rspTo) ++ s.txs.map (·.req.id)).Nodup ∧
    (s.delivered.map (·.rspTo)).Nodup ∧ ∀ a ∈ s.delivered.map (·.rspTo), a ∈ s.accepted := by
  intro s
  have h := rob_inv c ops
  have hn : (s.delivered.map (·.rspTo) ++ s.txs.map (·.req.id)).Nodup := by
    rw [h.order]; exact h.acceptedNodup.filter _
  refine ⟨h.acceptedNodup, hn, (List.nodup_append.1 hn).1, ?_⟩
  intro a ha
  have : a ∈ s.live := by rw [← h.order]; exact List.mem_append_left _ ha
  exact (List.mem_filter.1 this).1

/-- **Original id, requester and lower-level payload.** Every response the ROB sent up carries
    the id and the source port of an accepted request `r` and, as payload, a response the lower
    level really gave for the duplicate `b` the ROB had forwarded for `r`. -/
theorem response_carries_id_and_payload (c : Cfg) (ops : List Op) :
    ∀ d ∈ (run c ops).delivered, ∃ r b, (r, b) ∈ (run c ops).fwd ∧ b = dupReq b.id r ∧
      d.rspTo = r.id ∧ d.dst = r.src ∧ (b.id, d.payload) ∈ (run c ops).answered := by
  intro d hd
  obtain ⟨r, b, h1, h2, h3, h4⟩ := (rob_inv c ops).delOk d hd
  exact ⟨r, b, h1, (rob_inv c ops).fwdDup _ h1, h2, h3, h4⟩

example : (run demoCfg demoOps).delivered =
    [⟨0, 2, .data [9, 9, 9, 9]⟩, ⟨1, 2, .done⟩, ⟨4, 2, .data [6]⟩] := by decide

example : (run demoCfg demoOps).accepted.length = 5 ∧
    ((run demoCfg demoOps).delivered.map (·.rspTo)).length = 3 := by decide

/-- what is still in the Top port's outgoing buffer is the tail of the delivered log: the log
    is exactly the traffic that left through the Top port -/
theorem delivered_is_top_port_traffic (c : Cfg) (ops : List Op) :
    ∃ drained, (run c ops).delivered = drained ++ (run c ops).topOut := (rob_inv c ops).topOutDel

example : (run demoCfg (demoOps.take 11)).topOut.length = 1 ∧
    (run demoCfg (demoOps.take 11)).delivered.length = 1 := by decide

/-- **Capacity and lookup table.** Never more than `bufferSize` transactions; the table's keys
    are exactly the bottom ids of the pending transactions, without repetition, all older than
    the id counter. -/
theorem capacity_and_table (c : Cfg) (ops : List Op) :
    let s := run c ops
    s.txs.length ≤ c.cap ∧ s.table = s.txs.map (·.botId) ∧ s.table.Nodup ∧
    ∀ b ∈ s.table, b < s.nextBot := by
  intro s
  have h := rob_inv c ops
  exact ⟨h.cap, h.table, pairwise_lt_nodup h.botSorted, h.botFresh⟩

example : (run demoCfg (demoOps.take 16)).txs.length = demoCfg.cap ∧
    (run demoCfg (demoOps.take 16)).table = [2, 3] := by decide

/-- **Duplication preserves the request** (`duplicateReadReq` / `duplicateWriteReq`): kind,
    address and PID always; the access size of a read; data and dirty mask (hence byte size) of
    a write; the id is the fresh one. -/
theorem dup_preserves (n : Nat) (r : Req) :
    (dupReq n r).id = n ∧ (dupReq n r).write = r.write ∧ (dupReq n r).addr = r.addr ∧
    (dupReq n r).pid = r.pid ∧ (r.write = false → (dupReq n r).size = r.size) ∧
    (r.write = true → (dupReq n r).data = r.data ∧ (dupReq n r).mask = r.mask ∧
      (dupReq n r).size = r.data.length) := by
  unfold dupReq; split <;> simp_all

example : dupReq 7 ((demoReq 64 true).toReq 1) =
    { id := 7, write := true, addr := 64, size := 4, data := [1, 2, 3, 4], mask := [], pid := 1,
      cwc := false } := by decide

/-- every request that ever left through the Bottom port is the `dupReq` of an accepted
    request, one per accepted request in acceptance order, with pairwise distinct fresh ids -/
theorem forwarded_are_duplicates (c : Cfg) (ops : List Op) :
    let s := run c ops
    (∀ rb ∈ s.fwd, rb.2 = dupReq rb.2.id rb.1) ∧ s.fwd.map (·.1.id) = s.accepted ∧
    (∀ b ∈ s.botOut, ∃ r, (r, b) ∈ s.fwd) := by
  intro s
  exact ⟨(rob_inv c ops).fwdDup, rfl, (rob_inv c ops).botOutFwd⟩

example : (run demoCfg (demoOps.take 4)).fwd.map (·.2.id) = [0, 1] ∧
    (run demoCfg (demoOps.take 4)).botOut.length = 2 := by decide

/-- **Flush.** Whatever was discarded at some point is never answered in any continuation, and
    a late lower-level response for a discarded transaction never finds a table entry again
    (`parseBottom` drops it). -/
theorem flush_discards (c : Cfg) (ops later : List Op) :
    (∀ a ∈ (run c ops).discarded, a ∉ (run c (ops ++ later)).delivered.map (·.rspTo)) ∧
    (∀ b ∈ (run c ops).discardedBot, b ∉ (run c (ops ++ later)).table) := by
  have hext : LogExt (run c ops) (run c (ops ++ later)) := by
    rw [run_append]; exact foldl_log c later _
  have h := rob_inv c (ops ++ later)
  constructor
  · intro a ha hd
    have : a ∈ (run c (ops ++ later)).live := by rw [← h.order]; exact List.mem_append_left _ hd
    have := (List.mem_filter.1 this).2
    simp at this
    exact this (hext.1 a ha)
  · intro b hb
    exact h.discBotGone b (hext.2 b hb)

example : (run demoCfg (demoOps.take 22)).discarded = [2, 3] ∧
    (run demoCfg (demoOps.take 22)).discardedBot = [2, 3] ∧
    (run demoCfg demoOps).delivered.map (·.rspTo) = [0, 1, 4] := by decide

/-- a processed flush or restart empties the transaction list and the table and logs every
    pending transaction as discarded; restart also re-enables the pipeline -/
theorem flush_empties (c : Cfg) (s : St) (m : Ctl) (rest : List Ctl)
    (hc : s.ctlIn = m :: rest) (hm : m.discard = true ∨ m.restart = true)
    (hroom : s.ctlOut < c.ctlOutCap) :
    let s' := (processCtl c s).1
    s'.txs = [] ∧ s'.table = [] ∧ s'.ctlOut = s.ctlOut + 1 ∧ s'.ctlIn = rest ∧
    (∀ t ∈ s.txs, t.req.id ∈ s'.discarded ∧ t.botId ∈ s'.discardedBot) ∧
    s'.flushing = m.discard := by
  have hnr : ¬ (s.ctlOut ≥ c.ctlOutCap) := by omega
  have hmem : ∀ t ∈ s.txs, t.req.id ∈ s.discarded ++ s.txs.map (·.req.id) ∧
      t.botId ∈ s.discardedBot ++ s.txs.map (·.botId) := fun t ht =>
    ⟨List.mem_append_right _ (List.mem_map.2 ⟨t, ht, rfl⟩),
     List.mem_append_right _ (List.mem_map.2 ⟨t, ht, rfl⟩)⟩
  intro s'
  have e : s' = (processCtl c s).1 := rfl
  unfold processCtl at e
  rw [hc] at e
  by_cases hd : m.discard = true
  · simp [hd, hnr] at e
    rw [e]
    exact ⟨rfl, rfl, rfl, rfl, hmem, hd.symm⟩
  · have hr : m.restart = true := hm.resolve_left hd
    simp [hd, hr, hnr] at e
    rw [e]
    exact ⟨rfl, rfl, rfl, rfl, hmem, by simp [hd]⟩

example : (processCtl demoCfg (run demoCfg (demoOps.take 21))).1.txs = [] ∧
    (run demoCfg (demoOps.take 21)).txs.length = 2 := by decide

/-- **No undelivered message of a discarded transaction survives a flush** (repair 7c2f5a70). After a
    tick that leaves the ROB flushing, nothing waits in the outgoing buffers of the Top and Bottom
    ports any more, so nothing the ROB forwarded before the flush can still reach the unit below
    (or the requester) after that unit has been restarted. -/
theorem flushing_tick_empties_outgoing (c : Cfg) (s : St)
    (hf : (tick c s).1.fault = none) (hfl : (tick c s).1.flushing = true) :
    (tick c s).1.topOut = [] ∧ (tick c s).1.botOut = [] := by
  revert hf hfl
  unfold tick
  split
  · rename_i h; intro hf _; rw [hf] at h; simp at h
  · simp only
    split
    · rename_i h; intro hf _; simp only at hf; rw [hf] at h; simp at h
    · split
      · intro _ _; exact ⟨rfl, rfl⟩
      · rename_i hnf hnfl
        intro hf hfl
        exfalso
        have hk : ∀ (f : St → St × Bool), (∀ x, (f x).1.flushing = x.flushing) →
            ∀ n (sb : St × Bool), (iterP f n sb).1.flushing = sb.1.flushing := by
          intro f hfx n
          induction n with
          | zero => intro sb; rfl
          | succ n ih => intro sb; simp only [iterP]; rw [ih]; exact hfx _
        have h1 : ∀ x, (bottomUp c x).1.flushing = x.flushing := by
          intro x; unfold bottomUp; (repeat' split) <;> rfl
        have h2 : ∀ x, (parseBottom x).1.flushing = x.flushing := by
          intro x; unfold parseBottom; (repeat' split) <;> rfl
        have h3 : ∀ x, (topDown c x).1.flushing = x.flushing := by
          intro x; unfold topDown; (repeat' split) <;> rfl
        unfold runPipeline at hfl
        rw [hk _ h3, hk _ h2, hk _ h1] at hfl
        exact hnfl hfl

example : (run demoCfg [.top (demoReq 0 false), .tick, .ctl ⟨true, false⟩]).botOut.length = 1 ∧
    (tick demoCfg (run demoCfg [.top (demoReq 0 false), .tick, .ctl ⟨true, false⟩])).1.flushing = true ∧
    (tick demoCfg (run demoCfg [.top (demoReq 0 false), .tick, .ctl ⟨true, false⟩])).1.botOut = [] := by
  decide

/-- before the repair (`tickOld`) they did survive: the duplicate of a request accepted just before
    the flush is still in the Bottom port's outgoing buffer after the flush was processed -/
theorem flushing_tick_empties_outgoing_before_fix_refuted :
    ¬ (∀ (c : Cfg) (s : St), (tickOld c s).1.fault = none → (tickOld c s).1.flushing = true →
        (tickOld c s).1.topOut = [] ∧ (tickOld c s).1.botOut = []) := by
  intro h
  have := h demoCfg (run demoCfg [.top (demoReq 0 false), .tick, .ctl ⟨true, false⟩])
    (by decide) (by decide)
  revert this
  decide

/-- **No lost wake-up.** A tick that reports no progress (after which Akita stops ticking the
    component) changes nothing but the id counter, and every piece of pending work waits for an
    event that does wake the component under Akita's rules: a control message waits only for the
    Control port's outgoing buffer to leave the *full* state; when not flushing, the Bottom port's
    incoming buffer is *empty* (so the next response is a delivery into an empty buffer), the head
    transaction has no response yet or the Top port's outgoing buffer is full, and the head request
    of the Top port waits for a retirement or for the Bottom port's outgoing buffer to leave the
    full state; when flushing, only a restart message (delivered into the empty control buffer, or
    waiting for the full control outgoing buffer) can be pending. -/
theorem quiescent_is_waiting (c : Cfg) (s : St) (hw : 1 ≤ c.width)
    (hq : (tick c s).2 = false) (hf : (tick c s).1.fault = none) :
    forget (tick c s).1 = forget s ∧ WaitCtl c s ∧
    (s.flushing = false → s.botIn = [] ∧ WaitBottomUp c s ∧ WaitTopDown c s) := by
  revert hq hf
  unfold tick
  split
  · rename_i h; intro _ hf; rw [hf] at h; simp at h
  · simp only
    split
    · rename_i h; intro _ hf; simp only at hf; rw [hf] at h; simp at h
    · rename_i hnf
      have hnf' : (processCtl c s).1.fault = none := by simpa using hnf
      split
      · rename_i hfl
        intro hq _
        simp only [Bool.or_eq_false_iff] at hq
        obtain ⟨e, hc⟩ := processCtl_quiet c s hq.1 hnf'
        rw [e] at hfl hq ⊢
        have hd : (dropOut s).1 = s := by
          have h2 := hq.2
          unfold dropOut at h2 ⊢
          simp only [Bool.or_eq_false_iff, Bool.not_eq_false', List.isEmpty_iff] at h2
          cases s; simp_all
        exact ⟨by rw [hd], hc, fun h => by simp [h] at hfl⟩
      · intro hq hf
        simp only [Bool.or_eq_false_iff] at hq
        obtain ⟨e, hc⟩ := processCtl_quiet c s hq.1 hnf'
        rw [e] at hq hf ⊢
        have hq2 := hq.2
        unfold runPipeline at hq2 hf ⊢
        obtain ⟨a1, a2, a3, a4⟩ := iterP_quiet (topDown_fault_back c) (topDown_quiet c) _ _ hq2 hf
        obtain ⟨b1, b2, b3, b4⟩ := iterP_quiet parseBottom_fault_back parseBottom_quiet _ _ a1 a2
        obtain ⟨_, _, d3, d4⟩ := iterP_quiet (bottomUp_fault_back c) (bottomUp_quiet c) _ _ b1 b2
        have eB := b3.trans d3
        refine ⟨(a3.trans eB), hc, fun _ => ⟨?_, d4 hw, ?_⟩⟩
        · have := b4 hw
          have e1 := congrArg St.botIn d3
          simp only [forget] at e1
          rw [← e1]; exact this
        · have e1 := congrArg St.topIn eB
          have e2 := congrArg St.txs eB
          have e3 := congrArg St.botOut eB
          simp only [forget] at e1 e2 e3
          have := a4 hw
          unfold WaitTopDown at this ⊢
          rw [← e1, ← e2, ← e3]; exact this

example : (tick demoCfg (run demoCfg (demoOps.take 16))).2 = false ∧
    (run demoCfg (demoOps.take 16)).txs.length = 2 := by decide

/-- **Progress of retirement** (the liveness half of "one response per request", together with
    `quiescent_is_waiting`): when the ROB is not flushing, no control message is waiting, the head
    transaction has its response and the Top port has room, the very next tick sends exactly
    that response (requester's id, requester's port, stored payload) before anything else. -/
theorem tick_retires_head (c : Cfg) (s : St) (t : Tx) (rest : List Tx) (p : Rsp)
    (hw : 1 ≤ c.width) (hnf : s.fault = none) (hfl : s.flushing = false) (hctl : s.ctlIn = [])
    (htx : s.txs = t :: rest) (hrsp : t.rsp = some p) (hsrc : t.req.src ≠ 0)
    (hroom : s.topOut.length < c.topOutCap) :
    ∃ more, (tick c s).1.delivered = s.delivered ++ ⟨t.req.id, t.req.src, p⟩ :: more := by
  obtain ⟨n, hn⟩ : ∃ n, c.width = n + 1 := ⟨c.width - 1, by omega⟩
  have hp : processCtl c s = (s, false) := by unfold processCtl; rw [hctl]
  have hb : (bottomUp c s).1.delivered = s.delivered ++ [⟨t.req.id, t.req.src, p⟩] := by
    unfold bottomUp
    simp [hnf, htx, hrsp, hsrc, hroom]
  have ht : (tick c s).1 = (runPipeline c s).1 := by
    unfold tick
    simp [hnf, hp, hfl]
  obtain ⟨more, hm⟩ := runPipeline_from c s n hn
  exact ⟨more, by rw [ht, hm, hb, List.append_assoc]; rfl⟩

example : (run demoCfg (demoOps.take 31)).txs.map (·.rsp) = [some (.data [6])] ∧
    (tick demoCfg (run demoCfg (demoOps.take 31))).1.delivered.map (·.rspTo) = [0, 1, 4] := by decide

/-- **Progress of acceptance.** With room in the buffer and in the Bottom port, `topDown`
    accepts the head request of the Top port: it is logged as accepted, its duplicate (same
    address/size/data/mask/PID, fresh id) is what enters the Bottom port, and a transaction
    without response is appended — i.e. the waiting conditions of `quiescent_is_waiting` are the
    only reasons not to accept. -/
theorem topDown_accepts (c : Cfg) (s : St) (r : Req) (rest : List Req)
    (hnf : s.fault = none) (hbu : c.bottomUnit = true) (htop : s.topIn = r :: rest)
    (hcap : s.txs.length < c.cap) (hroom : s.botOut.length < c.botOutCap) :
    let s' := (topDown c s).1
    (topDown c s).2 = true ∧ s'.accepted = s.accepted ++ [r.id] ∧ s'.topIn = rest ∧
    s'.botOut = s.botOut ++ [dupReq s.nextBot r] ∧ s'.txs = s.txs ++ [⟨r, s.nextBot, none⟩] ∧
    s'.table = s.table ++ [s.nextBot] := by
  have h1 : ¬ (s.txs.length ≥ c.cap) := by omega
  have h2 : ¬ (s.botOut.length ≥ c.botOutCap) := by omega
  intro s'
  have e : s' = (topDown c s).1 := rfl
  unfold topDown at e ⊢
  simp [hnf, htop, h1, h2, hbu] at e ⊢
  rw [e]
  simp [St.accepted]

example : (run demoCfg (demoOps.take 2)).topIn.length = 2 ∧ (run demoCfg (demoOps.take 2)).fault = none ∧
    (run demoCfg (demoOps.take 2)).txs.length < demoCfg.cap ∧
    (run demoCfg (demoOps.take 2)).botOut.length < demoCfg.botOutCap ∧
    (topDown demoCfg (run demoCfg (demoOps.take 2))).1.accepted = [0] := by decide

end C15
