import MgpuProofs.C13Elf
/-!
# C13 — from the bytes of the `.hsaco` file to the bytes the loader returns

`Props/C13.lean` states the loader's contract over the ELF *view* (`bytes_exact`, …) under range
hypotheses on the view.  This file (A) carries the contract down to the **file bytes** through the
model of `debug/elf` in `MgpuModel/C13Elf.lean`, where those hypotheses are consequences of the
file format, and (B) audits the hypotheses that remain in the view-level theorems: each one is
either removed or shown necessary by a kernel-checked witness.
-/
namespace C13

/-! ## A. the ELF layer -/

/-- **secData_is_file_range.** What `Section.Data()` returns is a range of the file: for a section
that is not `SHT_NOBITS` and has bytes, the range `[sh_offset, +sh_size)` lies inside the file and
is the data; a `SHT_NOBITS` section has data only when its size is 0, and then it is empty; in every
case the data is `file[sh_offset:][:sh_size]` and has exactly `sh_size` bytes. -/
theorem secData_is_file_range (f : Bytes) (sh : Elf.Shdr) (d : Bytes) (h : Elf.secData f sh = some d) :
    (sh.type ≠ Elf.SHT_NOBITS → sh.size > 0 →
      sh.off + sh.size ≤ f.length ∧ d = (f.drop sh.off).take sh.size ∧ d.length = sh.size) ∧
    (sh.type = Elf.SHT_NOBITS → sh.size = 0 ∧ d = []) ∧
    d = (f.drop sh.off).take sh.size ∧ d.length = sh.size := by
  obtain ⟨hl, hr⟩ := Elf.secData_some h
  refine ⟨fun _ hpos => ?_, fun ht => Elf.secData_nobits h ht, Elf.secData_eq h, hl⟩
  have hne : d ≠ [] := by
    intro he; subst he; simp only [List.length_nil] at hl; omega
  exact ⟨(hr hne).2.1, (hr hne).2.2, hl⟩

/-- `Section.Data()` fails exactly for a `SHT_NOBITS` section of non-zero size and for a section
whose non-empty range leaves the file. -/
theorem secData_fails_iff (f : Bytes) (sh : Elf.Shdr) :
    Elf.secData f sh = none ↔
      sh.size ≠ 0 ∧ (sh.type = Elf.SHT_NOBITS ∨ f.length < sh.off + sh.size) := by
  unfold Elf.secData Elf.readAt
  by_cases ht : sh.type = Elf.SHT_NOBITS <;> by_cases h0 : sh.size = 0 <;>
    by_cases hl : sh.off + sh.size ≤ f.length <;> simp [ht, h0, hl] <;> omega

/-- **read_bounds.** The little-endian reads return values of their Go types (`uint8`, `uint16`,
`uint32`, `uint64`), at any offset of any buffer (reads past the end see zero bytes; the callers
never do that, see `parseV2V3Header?` / `readAt`). -/
theorem read_bounds (d : Bytes) (o : Nat) :
    byteAt d o < 256 ∧ u16 d o < 65536 ∧ u32 d o < 4294967296 ∧ u64 d o < U64 :=
  ⟨byteAt_ltE d o, u16_ltE d o, u32_ltE d o, u64_ltE d o⟩

/-- **symbolsOf_values_fit.** Every symbol `File.Symbols()` returns has a `uint64` value, a `uint64`
size and a `uint16` section index — whatever the bytes of the file. -/
theorem symbolsOf_values_fit (f : Bytes) (secs : List Elf.ESection) (l : List Symbol)
    (h : Elf.symbolsOf f secs = .ok l) : ∀ s ∈ l, s.value < U64 ∧ s.size < U64 ∧ s.shndx < 65536 := by
  obtain ⟨d, strs, n, rfl⟩ := Elf.symbolsOf_ok h
  intro s hs
  obtain ⟨i, _, rfl⟩ := List.mem_map.mp hs
  exact ⟨u64_ltE _ _, u64_ltE _ _, u16_ltE _ _⟩

/-- **parse_addrs_fit.** Every section of a file `elf.NewFile` accepts has a `uint64` address and an
offset and size that are non-negative as `int64` (the `any … ≥ 2^63 → error` branch of the
section-header loop). -/
theorem parse_addrs_fit (f : Bytes) (secs : List Elf.ESection) (h : Elf.parse f = .ok secs) :
    ∀ s ∈ secs, s.sh.addr < U64 ∧ s.sh.off < Elf.I63 ∧ s.sh.size < Elf.I63 := by
  obtain ⟨shs, n, hh, hm⟩ := Elf.parse_ok h
  intro s hs
  apply Elf.shdr_fits hh
  rw [← hm]
  exact List.mem_map_of_mem hs

/-- **range_hypotheses_discharged_for_files.** The range hypothesis `hsz` of `bytes_exact` (and the
`syms` clause of `SelFits`) holds for every symbol table that comes out of a file: for views of
files it is not a hypothesis. (The file need not even be one `elf.NewFile` accepts.) -/
theorem range_hypotheses_discharged_for_files (f : Bytes) (secs : List Elf.ESection) (syms : List Symbol)
    (hs : Elf.symbolsOf f secs = .ok syms) : ∀ s ∈ syms, s.size < U64 ∧ s.value < U64 :=
  fun s hm => ⟨(symbolsOf_values_fit f secs syms hs s hm).2.1, (symbolsOf_values_fit f secs syms hs s hm).1⟩

/-- For the view of a file, `SelFits` (hypothesis of `selectKernel_spec`, `selection_total`, …) is
its first clause alone: the `.text` section ends below 2^64. -/
theorem selFits_for_files (f : Bytes) (secs : List Elf.ESection) (syms : List Symbol) (t : Elf.Shdr) (td : Bytes)
    (hs : Elf.symbolsOf f secs = .ok syms) (htd : Elf.secData f t = some td) (hnw : t.addr + t.size < U64) :
    SelFits t.addr td syms := by
  refine ⟨?_, fun s hm => ?_⟩
  · rw [(Elf.secData_some htd).1]; exact hnw
  · exact ⟨(symbolsOf_values_fit f secs syms hs s hm).1, (symbolsOf_values_fit f secs syms hs s hm).2.1⟩

/-- **elf_bytes_exact_wrap.** End to end, on FILE bytes, with no range hypothesis at all: a successful
load by name from a file `elf.NewFile` accepts and whose symbol table reads returns the `s.size`
bytes of the file at offset `t.off + (s.value − t.addr  mod 2^64)`, `t` the header of the first
section named `.text` and `s` the first kernel symbol with the name; the range lies inside the
section's file range; the first 256 bytes are dropped **iff** there is no usable descriptor and
they pass `isV2V3Header`; nothing else is removed or added. -/
theorem elf_bytes_exact_wrap (f : Bytes) (secs : List Elf.ESection) (syms : List Symbol) (k : String) (r : Loaded)
    (hp : Elf.parse f = .ok secs) (hs : Elf.symbolsOf f secs = .ok syms) (hk : k ≠ "")
    (h : Elf.loadBytes f k = some (.ok r)) :
    ∃ t s, Elf.textShdr secs = some t ∧ firstKernelSym (Elf.sectionsOf f secs) syms k = some s ∧ r.sym = some s ∧
      wrapSub s.value t.addr + s.size ≤ t.size ∧ t.off + t.size ≤ f.length ∧
      (r.data = ((f.drop (t.off + wrapSub s.value t.addr)).take s.size).drop 256 ↔
        (findV5 (Elf.sectionsOf f secs) k syms = .none ∧
          isV2V3Header ((f.drop (t.off + wrapSub s.value t.addr)).take s.size) = true)) ∧
      (r.data = (f.drop (t.off + wrapSub s.value t.addr)).take s.size ∨
        r.data = ((f.drop (t.off + wrapSub s.value t.addr)).take s.size).drop 256) := by
  have hview : loadKernel (Elf.viewOf f secs (some syms)) k = .ok r := by
    unfold Elf.loadBytes at h
    rw [hp] at h
    simp only [hs] at h
    injection h
  obtain ⟨text, td, s, hft, htd, hfind, hsym, hle, hiff, hor⟩ :=
    bytes_exact (Elf.viewOf f secs (some syms)) syms k r rfl hk
      (range_hypotheses_discharged_for_files f secs syms hs) hview
  change findSection (Elf.sectionsOf f secs) ".text" = some text at hft
  change (syms.filter (isKernelSym (Elf.sectionsOf f secs))).find? (·.name == k) = some s at hfind
  change _ ↔ (findV5 (Elf.sectionsOf f secs) k syms = .none ∧ _) at hiff
  rw [Elf.findSection_sectionsOf] at hft
  cases hes : secs.find? (fun s => s.name == ".text") with
  | none => rw [hes] at hft; cases hft
  | some es =>
    rw [hes] at hft
    simp only [Option.map_some] at hft
    injection hft with hft
    subst hft
    have htd' : Elf.secData f es.sh = some td := htd
    have hpos : s.size > 0 :=
      ((isKernelSym_iff _ s).mp (List.mem_filter.mp (List.mem_of_find?_eq_some hfind)).2).2.1
    obtain ⟨hlen, hr⟩ := Elf.secData_some htd'
    have hne : td ≠ [] := by
      intro he; subst he; simp only [List.length_nil] at hle; omega
    obtain ⟨_, hin, hdata⟩ := hr hne
    have hrange : symRange (Elf.toSection f es) td s =
        (f.drop (es.sh.off + wrapSub s.value es.sh.addr)).take s.size := by
      unfold symRange
      rw [hdata]
      exact Elf.drop_take_drop_take f _ _ _ _ (by rw [← hlen]; exact hle)
    rw [hrange] at hiff hor
    refine ⟨es.sh, s, ?_, hfind, hsym, by rw [← hlen]; exact hle, hin, hiff, hor⟩
    unfold Elf.textShdr
    rw [hes]
    rfl

/-- **elf_bytes_exact.** The same with the offset in plain arithmetic — `fileOffsetOf t s =
t.off + (s.value − t.addr)` — for every file whose `.text` section does not run past the end of the
64-bit address space (`t.addr + t.size ≤ 2^64`; `elf_bytes_exact_needs_nowrap` shows that this one
hypothesis cannot be dropped). Then the symbol lies inside the section (`t.addr ≤ s.value`,
`s.value + s.size ≤ t.addr + t.size`), the byte range lies inside the file, and the returned data
is that file range, minus its first 256 bytes iff no usable descriptor exists and they pass
`isV2V3Header`. -/
theorem elf_bytes_exact (f : Bytes) (secs : List Elf.ESection) (syms : List Symbol) (k : String) (r : Loaded)
    (hp : Elf.parse f = .ok secs) (hs : Elf.symbolsOf f secs = .ok syms) (hk : k ≠ "")
    (hnw : ∀ t, Elf.textShdr secs = some t → t.addr + t.size ≤ U64)
    (h : Elf.loadBytes f k = some (.ok r)) :
    ∃ t s, Elf.textShdr secs = some t ∧ firstKernelSym (Elf.sectionsOf f secs) syms k = some s ∧ r.sym = some s ∧
      t.addr ≤ s.value ∧ s.value + s.size ≤ t.addr + t.size ∧
      Elf.fileOffsetOf t s + s.size ≤ f.length ∧
      (r.data = ((f.drop (Elf.fileOffsetOf t s)).take s.size).drop 256 ↔
        (findV5 (Elf.sectionsOf f secs) k syms = .none ∧
          isV2V3Header ((f.drop (Elf.fileOffsetOf t s)).take s.size) = true)) ∧
      (r.data = (f.drop (Elf.fileOffsetOf t s)).take s.size ∨
        r.data = ((f.drop (Elf.fileOffsetOf t s)).take s.size).drop 256) := by
  obtain ⟨t, s, ht, hf, hsym, hle, hin, hiff, hor⟩ := elf_bytes_exact_wrap f secs syms k r hp hs hk h
  have hpos : s.size > 0 := ((isKernelSym_iff _ s).mp (firstKernelSym_mem hf).2.1).2.1
  obtain ⟨hav, hw⟩ := Elf.nowrap_arith t.addr t.size s.value s.size (hnw t ht) hpos hle
  rw [hw] at hle hiff hor
  refine ⟨t, s, ht, hf, hsym, hav, by omega, ?_, hiff, hor⟩
  unfold Elf.fileOffsetOf
  omega

/-- **elf_whole_text.** When `File.Symbols()` returns an error (no `SHT_SYMTAB` section, unreadable
or malformed table) a successful load — by any name — returns the file range of the first `.text`
section, without its first 256 bytes exactly when the range passes `isV2V3Header`, and attaches no
symbol. -/
theorem elf_whole_text (f : Bytes) (secs : List Elf.ESection) (k : String) (r : Loaded)
    (hp : Elf.parse f = .ok secs) (hs : Elf.symbolsOf f secs = .err)
    (h : Elf.loadBytes f k = some (.ok r)) :
    ∃ t, Elf.textShdr secs = some t ∧ r.sym = none ∧ (t.size > 0 → t.off + t.size ≤ f.length) ∧
      r.data = if isV2V3Header ((f.drop t.off).take t.size) = true
               then ((f.drop t.off).take t.size).drop 256 else (f.drop t.off).take t.size := by
  have hview : loadKernel (Elf.viewOf f secs none) k = .ok r := by
    unfold Elf.loadBytes at h
    rw [hp] at h
    simp only [hs] at h
    injection h
  unfold loadKernel at hview
  change (match findSection (Elf.sectionsOf f secs) ".text" with
    | none => Outcome.fatal "notext"
    | some text => match text.data with
      | none => Outcome.fatal "textdata"
      | some td => fromEntireText td) = .ok r at hview
  rw [Elf.findSection_sectionsOf] at hview
  cases hes : secs.find? (fun s => s.name == ".text") with
  | none => rw [hes] at hview; cases hview
  | some es =>
    rw [hes] at hview
    simp only [Option.map_some] at hview
    cases htd : Elf.secData f es.sh with
    | none =>
      have : (Elf.toSection f es).data = none := htd
      rw [this] at hview; cases hview
    | some td =>
      have : (Elf.toSection f es).data = some td := htd
      rw [this] at hview
      simp only at hview
      obtain ⟨h1, h2⟩ := fromEntireText_ok hview
      rw [Elf.secData_eq htd] at h2
      refine ⟨es.sh, ?_, h1, fun hpos => ?_, h2⟩
      · unfold Elf.textShdr; rw [hes]; rfl
      · have hl := (Elf.secData_some htd).1
        have hne : td ≠ [] := by
          intro he; subst he; simp only [List.length_nil] at hl; omega
        exact ((Elf.secData_some htd).2 hne).2.1

/-- an empty `SHT_SYMTAB` section makes `File.Symbols()` panic: such a file never loads, by any name
(`log.Fatal` if `.text` is missing or unreadable — the loader asks for it first — a panic otherwise) -/
theorem symbols_panic_never_loads (f : Bytes) (secs : List Elf.ESection) (k : String)
    (hp : Elf.parse f = .ok secs) (hs : Elf.symbolsOf f secs = .panic) :
    Elf.loadBytes f k = some .fault ∨ Elf.loadBytes f k = some (.fatal "notext") ∨
      Elf.loadBytes f k = some (.fatal "textdata") := by
  unfold Elf.loadBytes
  rw [hp]
  simp only [hs]
  split
  · exact Or.inr (Or.inl rfl)
  · split
    · exact Or.inr (Or.inr rfl)
    · exact Or.inl rfl

/-- **loadBytes_reject_iff.** The loader ends in `log.Fatal(err)` of `elf.NewFile` exactly when
`elf.NewFile` returns an error: no other path of `LoadKernelCodeObjectFromBytes` produces that exit. -/
theorem loadBytes_reject_iff (f : Bytes) (k : String) :
    Elf.loadBytes f k = some (.fatal "elf") ↔ Elf.parse f = .reject := by
  unfold Elf.loadBytes
  cases hp : Elf.parse f with
  | reject => simp
  | unmodelled => simp
  | ok secs =>
    simp only [reduceCtorEq, iff_false]
    cases hs : Elf.symbolsOf f secs with
    | err => simp only [Option.some.injEq]; exact loadKernel_ne_elf _ _
    | ok l => simp only [Option.some.injEq]; exact loadKernel_ne_elf _ _
    | unmodelled => simp
    | panic =>
      simp only
      split
      · simp only [Option.some.injEq, Outcome.fatal.injEq]; decide
      · split
        · simp only [Option.some.injEq, Outcome.fatal.injEq]; decide
        · simp

/-- every `log.Fatal` exit of a load from bytes is one of five: the ELF parser's error, no `.text`,
unreadable `.text`, kernel not found, several kernels for the empty name -/
theorem loadBytes_fatal_kinds (f : Bytes) (k x : String) (h : Elf.loadBytes f k = some (.fatal x)) :
    x = "elf" ∨ x = "notext" ∨ x = "textdata" ∨ x = "notfound" ∨ x = "multiple" := by
  unfold Elf.loadBytes at h
  split at h
  · cases h
  · injection h with h; injection h with h; exact Or.inl h.symm
  · split at h
    · cases h
    · injection h with h; exact Or.inr (loadKernel_fatal h)
    · injection h with h; exact Or.inr (loadKernel_fatal h)
    · split at h
      · injection h with h; injection h with h; exact Or.inr (Or.inl h.symm)
      · split at h
        · injection h with h; injection h with h; exact Or.inr (Or.inr (Or.inl h.symm))
        · injection h with h; cases h

/-! ## B. hypothesis audit of the view-level theorems -/

/-- **empty_name_load.** The empty-name path on every view with a symbol table, once `.text` and its
data are found (`ks` = the symbols passing the kernel filter): no kernel symbol — the whole `.text`
is the kernel; exactly one — the load **is** the named part of the loader run on that symbol's name,
which selects that symbol, and it equals `loadKernel … s.name` when the name is not empty (when it
is empty `loadNamed … ""` runs directly: the same lookup, not a second auto-detection); two or
more — `log.Fatal`. -/
theorem empty_name_load (secs : List Section) (syms : List Symbol) (text : Section) (td : Bytes)
    (ht : findSection secs ".text" = some text) (htd : text.data = some td) :
    (syms.filter (isKernelSym secs) = [] → loadKernel ⟨secs, some syms⟩ "" = fromEntireText td) ∧
    (∀ s, syms.filter (isKernelSym secs) = [s] →
      loadKernel ⟨secs, some syms⟩ "" = loadNamed secs text td syms s.name ∧
      firstKernelSym secs syms s.name = some s ∧
      (s.name ≠ "" → loadKernel ⟨secs, some syms⟩ "" = loadKernel ⟨secs, some syms⟩ s.name)) ∧
    ((syms.filter (isKernelSym secs)).length ≥ 2 → loadKernel ⟨secs, some syms⟩ "" = .fatal "multiple") := by
  unfold loadKernel
  simp only [ht, htd, if_true]
  refine ⟨fun h => by rw [h], fun s h => ⟨by rw [h], auto_detect_selects_the_only secs syms s h, fun hn => ?_⟩, fun h => ?_⟩
  · rw [h, if_neg hn]
  · match hm : syms.filter (isKernelSym secs), h with
    | a :: b :: c, _ => rfl

/-- before the symbols are looked at: without a `.text` section, or with `.text` data that cannot be
read, every load — empty name or not — ends in the corresponding `log.Fatal` -/
theorem load_without_text (v : View) (k : String) :
    (findSection v.sections ".text" = none → loadKernel v k = .fatal "notext") ∧
    (∀ text, findSection v.sections ".text" = some text → text.data = none → loadKernel v k = .fatal "textdata") := by
  unfold loadKernel
  refine ⟨fun h => by rw [h], fun text h hd => ?_⟩
  rw [h]
  simp only [hd]

/-- **bytes_exact_empty_name.** `bytes_exact` has the hypothesis `k ≠ ""`. It is not needed: for the
empty name a successful load either found no kernel symbol and is `fromEntireText` of the whole
`.text` (no symbol attached), or found exactly one, `s`, and then the conclusion of `bytes_exact`
holds with `k` replaced by `s.name` — whether or not that name is empty. -/
theorem bytes_exact_empty_name (v : View) (syms : List Symbol) (r : Loaded)
    (hsy : v.symbols = some syms)
    (hsz : ∀ s ∈ syms, s.size < U64 ∧ s.value < U64)
    (h : loadKernel v "" = .ok r) :
    ∃ text td, findSection v.sections ".text" = some text ∧ text.data = some td ∧
      ((syms.filter (isKernelSym v.sections) = [] ∧ fromEntireText td = .ok r ∧ r.sym = none) ∨
       (∃ s, syms.filter (isKernelSym v.sections) = [s] ∧ r.sym = some s ∧
          wrapSub s.value text.addr + s.size ≤ td.length ∧
          (r.data = (symRange text td s).drop 256 ↔
            (findV5 v.sections s.name syms = .none ∧ isV2V3Header (symRange text td s) = true)) ∧
          (r.data = symRange text td s ∨ r.data = (symRange text td s).drop 256))) := by
  obtain ⟨secs, sy⟩ := v
  simp only at hsy
  subst hsy
  cases ht : findSection secs ".text" with
  | none => rw [(load_without_text ⟨secs, some syms⟩ "").1 ht] at h; cases h
  | some text =>
    cases htd : text.data with
    | none => rw [(load_without_text ⟨secs, some syms⟩ "").2 text ht htd] at h; cases h
    | some td =>
      obtain ⟨e0, e1, e2⟩ := empty_name_load secs syms text td ht htd
      refine ⟨text, td, rfl, htd, ?_⟩
      match hm : syms.filter (isKernelSym secs) with
      | [] =>
        rw [e0 hm] at h
        refine Or.inl ⟨rfl, h, ?_⟩
        unfold fromEntireText at h
        split at h
        · split at h
          · cases h
          · injection h with h; subst h; rfl
        · injection h with h; subst h; rfl
      | [s] =>
        rw [(e1 s hm).1] at h
        obtain ⟨s', hf, hsym, hle, hiff, hor⟩ := loadNamed_bytes_exact secs text td syms s.name r hsz h
        have : s' = s := by
          have := (e1 s hm).2.1
          unfold firstKernelSym at this
          rw [this] at hf
          injection hf with hf
          exact hf.symm
        subst this
        exact Or.inr ⟨s', rfl, hsym, hle, hiff, hor⟩
      | a :: b :: c =>
        rw [e2 (by rw [hm]; simp)] at h
        cases h

/-! ### witnesses: the hypotheses that stay are necessary -/

def dupSecs : List Section := [⟨"", 0, some []⟩, ⟨".text", 0x1000, some [1, 2, 3, 4]⟩]
def dupSyms1 : List Symbol := [⟨"k", 0x1000, 2, 1⟩, ⟨"k", 0x1002, 2, 1⟩]
def dupSyms2 : List Symbol := [⟨"k", 0x1002, 2, 1⟩, ⟨"k", 0x1000, 2, 1⟩]

/-- **unique_names_needed.** Hypothesis `hu` of `order_and_neighbours_irrelevant` (unique relevant
names) cannot be dropped: two tables that are permutations of each other, with two kernel symbols
both named `k`, load to different bytes — the name lookup is first-match. -/
theorem unique_names_needed :
    dupSyms1.Perm dupSyms2 ∧ (dupSyms1.filter (relevant "k")).Perm (dupSyms2.filter (relevant "k")) ∧
    ¬ ((dupSyms1.filter (relevant "k")).map (·.name)).Nodup ∧
    loadKernel ⟨dupSecs, some dupSyms1⟩ "k" =
      .ok { data := [1, 2], md := {}, version := 5, sym := some ⟨"k", 0x1000, 2, 1⟩ } ∧
    loadKernel ⟨dupSecs, some dupSyms2⟩ "k" =
      .ok { data := [3, 4], md := {}, version := 5, sym := some ⟨"k", 0x1002, 2, 1⟩ } := by
  refine ⟨List.Perm.swap _ _ _, by decide +kernel, by decide +kernel, by decide +kernel, by decide +kernel⟩

def wrapSecs : List Section := [⟨"", 0, some []⟩, ⟨".text", U64 - 4, some [1, 2, 3, 4, 5, 6, 7, 8]⟩]
def wrapSyms : List Symbol := [⟨"k", 2, 2, 1⟩]

/-- **fits_needed.** Clause `sect` of `SelFits` (`textAddr + len < 2^64`) cannot be dropped from
`selectKernel_spec` / `selection_total`, although every other size is in range: with `.text` at
address 2^64 − 4 holding 8 bytes and a kernel symbol `value = 2, size = 2`, the loader's wrapping
subtraction gives offset 6 and it returns bytes 6..7, while the symbol does not lie inside the
section in plain arithmetic — the closed form would answer "lo > hi". -/
theorem fits_needed :
    (∀ s ∈ wrapSyms, s.value < U64 ∧ s.size < U64) ∧ U64 - 4 < U64 ∧
    ¬ SelFits (U64 - 4) [1, 2, 3, 4, 5, 6, 7, 8] wrapSyms ∧
    selectKernel wrapSecs (U64 - 4) [1, 2, 3, 4, 5, 6, 7, 8] wrapSyms "k" = .ok ⟨"k", 2, 2, 1⟩ [7, 8] ∧
    symInside (U64 - 4) 8 ⟨"k", 2, 2, 1⟩ = false ∧
    selectKernel wrapSecs (U64 - 4) [1, 2, 3, 4, 5, 6, 7, 8] wrapSyms "k" ≠
      (match firstKernelSym wrapSecs wrapSyms "k" with
       | none => .err .notFound
       | some s =>
         if symInside (U64 - 4) 8 s then .ok s ((([1, 2, 3, 4, 5, 6, 7, 8] : Bytes).drop (s.value - (U64 - 4))).take s.size)
         else .err (if (wrapSub s.value (U64 - 4) + s.size) % U64 > 8 then .hiPastCap else .loPastHi)) := by
  refine ⟨by decide +kernel, by decide +kernel, fun h => absurd h.sect (by decide +kernel), by decide +kernel,
    by decide +kernel, by decide +kernel⟩

/-! ## the theorems apply: one concrete ELF64 file (476 bytes) -/

/-- `.text` at 0x1000 with 8 bytes (file offset 64), one kernel symbol `k` = 0x1002, 4 bytes -/
def elfFile : Bytes := Elf.mkElf 0x1000 [1, 2, 3, 4, 5, 6, 7, 8] [(1, 0x1002, 4)] [0, 107, 0]
def elfText : Elf.Shdr := { nameIdx := 1, type := 1, flags := 0, addr := 0x1000, off := 64, size := 8, link := 0 }
def elfSecs : List Elf.ESection :=
  [⟨"", ⟨0, 0, 0, 0, 0, 0, 0⟩⟩, ⟨".text", elfText⟩, ⟨".symtab", ⟨7, 2, 0, 0, 72, 48, 3⟩⟩,
   ⟨".strtab", ⟨15, 3, 0, 0, 120, 3, 0⟩⟩, ⟨".shstrtab", ⟨23, 3, 0, 0, 123, 33, 0⟩⟩]
def elfSyms : List Symbol := [⟨"k", 0x1002, 4, 1⟩]
def elfLoaded : Loaded := { data := [3, 4, 5, 6], md := {}, version := 5, sym := some ⟨"k", 0x1002, 4, 1⟩ }

example : elfFile.length = 476 := by decide +kernel
theorem elfFile_parse : Elf.parse elfFile = .ok elfSecs := by decide +kernel
theorem elfFile_syms : Elf.symbolsOf elfFile elfSecs = .ok elfSyms := by decide +kernel
theorem elfFile_text : Elf.textShdr elfSecs = some elfText := by decide +kernel
theorem elfFile_load : Elf.loadBytes elfFile "k" = some (.ok elfLoaded) := by decide +kernel

/-- `elf_bytes_exact` instantiated: every hypothesis is met by the file -/
example : ∃ t s, Elf.textShdr elfSecs = some t ∧ firstKernelSym (Elf.sectionsOf elfFile elfSecs) elfSyms "k" = some s ∧
    elfLoaded.sym = some s ∧ t.addr ≤ s.value ∧ Elf.fileOffsetOf t s + s.size ≤ elfFile.length ∧
    (elfLoaded.data = (elfFile.drop (Elf.fileOffsetOf t s)).take s.size ∨
     elfLoaded.data = ((elfFile.drop (Elf.fileOffsetOf t s)).take s.size).drop 256) := by
  obtain ⟨t, s, h1, h2, h3, h4, _, h5, _, h6⟩ :=
    elf_bytes_exact elfFile elfSecs elfSyms "k" elfLoaded elfFile_parse elfFile_syms (by decide)
      (by intro t ht; rw [elfFile_text] at ht; injection ht with ht; subst ht; decide +kernel) elfFile_load
  exact ⟨t, s, h1, h2, h3, h4, h5, h6⟩

/-- and what it says there: the four bytes at file offset 66 -/
example : Elf.fileOffsetOf elfText ⟨"k", 0x1002, 4, 1⟩ = 66 ∧
    (elfFile.drop 66).take 4 = [3, 4, 5, 6] := by decide +kernel

/-- `secData_is_file_range` on the `.text` header of the file -/
example : Elf.secData elfFile elfText = some [1, 2, 3, 4, 5, 6, 7, 8] := by decide +kernel

/-- `parse_addrs_fit`, `symbolsOf_values_fit`, `selFits_for_files` on the file -/
example : ∀ s ∈ elfSecs, s.sh.addr < U64 ∧ s.sh.off < Elf.I63 ∧ s.sh.size < Elf.I63 := parse_addrs_fit _ _ elfFile_parse
example : ∀ s ∈ elfSyms, s.value < U64 ∧ s.size < U64 ∧ s.shndx < 65536 := symbolsOf_values_fit _ _ _ elfFile_syms
example : SelFits elfText.addr [1, 2, 3, 4, 5, 6, 7, 8] elfSyms :=
  selFits_for_files elfFile elfSecs elfSyms elfText _ elfFile_syms (by decide +kernel) (by decide +kernel)

/-- `loadBytes_reject_iff`: a file cut inside its header is rejected by `elf.NewFile`, and only then
does the loader exit with that error -/
example : Elf.loadBytes (elfFile.take 40) "k" = some (.fatal "elf") :=
  (loadBytes_reject_iff _ _).mpr (by decide +kernel)
example : Elf.loadBytes elfFile "nope" = some (.fatal "notfound") := by decide +kernel

/-- the empty-name path on the file: one kernel symbol, so `""` loads `k` (`empty_name_load`) -/
example : Elf.loadBytes elfFile "" = Elf.loadBytes elfFile "k" := by decide +kernel
example : (elfSyms.filter (isKernelSym (Elf.sectionsOf elfFile elfSecs))) = [⟨"k", 0x1002, 4, 1⟩] := by decide +kernel

/-- `elf_whole_text`: the same file with the type of `.symtab` changed to `SHT_PROGBITS` has no
symbol table; the load returns the whole `.text` file range -/
def elfFileNoSyms : Bytes := elfFile.set (156 + 2 * 64 + 4) 1
example : Elf.symbolsOf elfFileNoSyms (match Elf.parse elfFileNoSyms with | .ok s => s | _ => []) = .err ∧
    Elf.loadBytes elfFileNoSyms "k" =
      some (.ok { data := [1, 2, 3, 4, 5, 6, 7, 8], md := {}, version := 5, sym := none }) := by
  constructor <;> decide +kernel

/-- `symbols_panic_never_loads`: the same file with `.symtab`'s `sh_size` set to 0 -/
def elfFileEmptySyms : Bytes := elfFile.set (156 + 2 * 64 + 32) 0
example : Elf.symbolsOf elfFileEmptySyms (match Elf.parse elfFileEmptySyms with | .ok s => s | _ => []) = .panic ∧
    Elf.loadBytes elfFileEmptySyms "k" = some .fault := by
  constructor <;> decide +kernel

/-! ### the no-wrap hypothesis of `elf_bytes_exact` is necessary -/

/-- the same file with `.text` at address 2^64 − 4 and the kernel symbol at value 2, size 2 -/
def wrapFile : Bytes := Elf.mkElf (U64 - 4) [1, 2, 3, 4, 5, 6, 7, 8] [(1, 2, 2)] [0, 107, 0]
def wrapText : Elf.Shdr := { nameIdx := 1, type := 1, flags := 0, addr := U64 - 4, off := 64, size := 8, link := 0 }
def wrapESecs : List Elf.ESection :=
  [⟨"", ⟨0, 0, 0, 0, 0, 0, 0⟩⟩, ⟨".text", wrapText⟩, ⟨".symtab", ⟨7, 2, 0, 0, 72, 48, 3⟩⟩,
   ⟨".strtab", ⟨15, 3, 0, 0, 120, 3, 0⟩⟩, ⟨".shstrtab", ⟨23, 3, 0, 0, 123, 33, 0⟩⟩]

/-- **elf_bytes_exact_needs_nowrap.** The statement of `elf_bytes_exact` without the hypothesis
`t.addr + t.size ≤ 2^64` is false of the loader: `elf.NewFile` accepts a file whose `.text` section
sits at address 2^64 − 4 with 8 bytes; for the kernel symbol `value = 2, size = 2` the loader
computes the offset `2 − (2^64 − 4) = 6` in `uint64` and returns file bytes 70..71, while
`t.addr ≤ s.value` is false and `fileOffsetOf` (plain subtraction) names bytes 64..65.
`elf_bytes_exact_wrap` is the statement that holds for every file. -/
theorem elf_bytes_exact_needs_nowrap :
    Elf.parse wrapFile = .ok wrapESecs ∧ Elf.symbolsOf wrapFile wrapESecs = .ok [⟨"k", 2, 2, 1⟩] ∧
    Elf.textShdr wrapESecs = some wrapText ∧
    firstKernelSym (Elf.sectionsOf wrapFile wrapESecs) [⟨"k", 2, 2, 1⟩] "k" = some ⟨"k", 2, 2, 1⟩ ∧
    Elf.loadBytes wrapFile "k" = some (.ok { data := [7, 8], md := {}, version := 5, sym := some ⟨"k", 2, 2, 1⟩ }) ∧
    ¬ wrapText.addr ≤ 2 ∧ ¬ wrapText.addr + wrapText.size ≤ U64 ∧
    (wrapFile.drop (Elf.fileOffsetOf wrapText ⟨"k", 2, 2, 1⟩)).take 2 = [1, 2] ∧
    (wrapFile.drop (wrapText.off + wrapSub 2 wrapText.addr)).take 2 = [7, 8] := by
  refine ⟨by decide +kernel, by decide +kernel, by decide +kernel, by decide +kernel, by decide +kernel,
    by decide +kernel, by decide +kernel, by decide +kernel, by decide +kernel⟩

end C13
