import MgpuProofs.Props.C17
import MgpuProofs.Props.C17Live
import MgpuProofs.C17Pay
/-! # C17 — what the response messages carry; the straddling precondition

`mem_semantics_partial` (Props/C17.lean) speaks about the storage at commit points. Here the statement is lifted to the
messages on the Top port (`State.resp`, the ghost list of everything `finalizeRead/Write` sent), at run level. -/
namespace C17

/-- **Every response belongs to exactly one commit and carries what lay below it.** For every response ever sent:
its request occurs in the commit log, exactly once (the log is duplicate-free); a read response carries the bytes of the
storage made of exactly the commits *before* its own (`older`), a write-done carries no data and corresponds to that one
committed write. Width 1, every other parameter, every op sequence (no interleave-block assumption). -/
theorem response_payload_committed (c : Cfg) (hw : c.width = 1) (ops : List Op) :
    (run c ops).log.Nodup ∧
    ∀ x ∈ (run c ops).resp, ∃ newer older, (run c ops).log = newer ++ x.req :: older ∧
      (x.req.kind = .rd → x.data = readRange older x.req.addr x.req.len) ∧ (x.req.kind = .wr → x.data = []) :=
  ⟨log_nodup c _ (run_inv c hw ops), (run_pay c hw ops).rsp⟩

/-- **Read responses carry flat arrival-order memory.** Width 1, requests inside one interleave block: the data of every
read response ever sent equals, byte for byte, a flat byte array to which exactly the requests that **arrived before the
read** were applied in arrival order (zero where nothing was written) — the property's statement on the messages. -/
theorem read_response_payload (c : Cfg) (hw : c.width = 1) (hc : ConvOk c) (ops : List Op)
    (hops : ∀ op ∈ ops, opFits c op) :
    ∀ x ∈ (run c ops).resp, x.req.kind = .rd →
      x.data = readRange ((run c ops).arrived.take x.req.id).reverse x.req.addr x.req.len := by
  intro x hx hk
  have hinv := run_inv c hw ops
  have hfit := run_fits c ops hops
  obtain ⟨newer, older, hlog, hrd, _⟩ := (run_pay c hw ops).rsp x hx
  rw [hrd hk]
  unfold readRange
  apply List.map_congr_left
  intro i hi
  have hi' : i < x.req.len := List.mem_range.1 hi
  have hxa : x.req ∈ (run c ops).arrived := log_sub_arrived c _ hinv _ (by rw [hlog]; simp)
  have ht : touches (x.req.addr + i) x.req = true := by
    simp only [touches, Req.size, hk, decide_eq_true_eq]; omega
  apply carried_byte_flat c _ hinv x.req newer older hlog
  intro r' hr' ht'
  rw [bank_of_touch c hc r' _ (hfit r' hr') ht', bank_of_touch c hc x.req _ (hfit _ hxa) ht]

/-- the same without the width restriction and the block assumption would be the full statement -/
def read_payload_full : Prop := ∀ (c : Cfg), c.width = 1 → 0 < c.banks → 0 < c.depth → ConvOk c → ∀ ops : List Op,
  ∀ x ∈ (run c ops).resp, x.req.kind = .rd →
    x.data = readRange ((run c ops).arrived.take x.req.id).reverse x.req.addr x.req.len

def strad : Cfg := ⟨2, 6, 1, 1, 1, 0, 0, 1, 4, none, none⟩
/-- write 0x0 (bank 0), write `aa bb cc dd` at 0x3e — bank 0 by its start address, but bytes 0x40, 0x41 belong to
bank 1's block — then a read of 0x40 (bank 1) -/
def stradOps : List Op := [.deliver .wr 0 1 [0x11] none, .deliver .wr 0x3e 4 [0xaa, 0xbb, 0xcc, 0xdd] none,
  .deliver .rd 0x40 1 [] none, .tick, .tick, .tick, .tick, .out 4, .tick, .tick, .out 4]

/-- **The precondition is needed (kernel-checked witness).** Width 1, 2 banks: a write that straddles an interleave
block is queued in the bank of its *start* address behind an earlier write; the later read of the straddled byte goes to
the other bank and is answered with `00` although the write of `cc` arrived before it. This is exactly the class the
generator's 5 % straddling scenarios exercise (correspondence only; the order oracle skips them). -/
theorem read_payload_full_refuted : ¬ read_payload_full := by
  intro h
  have := h strad rfl (by decide) (by decide) (by decide) stradOps ⟨⟨2, .rd, 0x40, 1, [], none⟩, [0]⟩ (by decide +kernel) rfl
  revert this
  decide +kernel

/-- the straddling request of the witness is rejected by the decidable precondition, the others pass -/
example : ¬ (∀ op ∈ stradOps, opFits strad op) ∧ opFits strad (.deliver .rd 0x40 1 [] none) := by decide

/-- **The weaker guarantee that survives straddling** (no block assumption at all): in every reachable state, the
request `r` next to commit in bank `k` sees flat arrival-order memory on every byte `x` *all of whose accessors were
routed to bank `k`* — for straddling requests: on the bytes of the block their start address lies in, unless another
request reached those bytes through a different bank. `mem_semantics_partial` is the special case where every request
fits its block (then every byte has one bank). -/
theorem mem_semantics_routed (c : Cfg) (hw : c.width = 1) (ops : List Op) (k : Nat) (r : Req) (rest : List Req)
    (hh : unc (chain c (run c ops) k) = r :: rest) (x : Nat)
    (hroute : ∀ r' ∈ (run c ops).arrived, touches x r' = true → bankOf c r'.addr = k) :
    readByte (run c ops).log x = readByte ((run c ops).arrived.take r.id).reverse x :=
  head_sees_flat_routed c _ (run_inv c hw ops) k r rest hh x hroute

/-- … and on the responses: a read response is flat on every byte whose accessors all went to the read's bank -/
theorem read_response_payload_routed (c : Cfg) (hw : c.width = 1) (ops : List Op) :
    ∀ x ∈ (run c ops).resp, x.req.kind = .rd → ∀ i, i < x.req.len →
      (∀ r' ∈ (run c ops).arrived, touches (x.req.addr + i) r' = true → bankOf c r'.addr = bankOf c x.req.addr) →
      x.data.getD i 0 = readByte ((run c ops).arrived.take x.req.id).reverse (x.req.addr + i) := by
  intro x hx hk i hi hroute
  obtain ⟨newer, older, hlog, hrd, _⟩ := (run_pay c hw ops).rsp x hx
  rw [hrd hk, ← carried_byte_flat c _ (run_inv c hw ops) x.req newer older hlog _ hroute]
  simp [readRange, List.getD_eq_getElem?_getD, hi]

/-- **The bank address converter keeps interleave blocks together** when its interleaving size and offset are multiples
of the interleave block (`ConvOk`; MI300A: 128-byte chunks, offset 0, 64-byte blocks): two addresses of one block are
converted into one block, hence select the same bank and — in row-buffer mode — the same row. -/
theorem converter_keeps_blocks (c : Cfg) (hc : ConvOk c) (a b : Nat) (h : a / 2 ^ c.ilv = b / 2 ^ c.ilv) :
    bankOf c a = bankOf c b ∧ bankAddr c a / 2 ^ c.ilv = bankAddr c b / 2 ^ c.ilv := by
  have := bankAddr_block c hc a b h
  exact ⟨by unfold bankOf; rw [this], this⟩

/-- `footprint_one_bank` for every converter would be the full statement -/
def footprint_any_converter : Prop := ∀ (c : Cfg) (r : Req) (x : Nat), 0 < c.banks → fits c r → touches x r = true →
  bankOf c r.addr = bankOf c x

/-- **Refuted without `ConvOk`**: `InterleavingConverter` computes `(addr−offset)/round·size + external % size` — with an
offset that is not a multiple of the block (here 32, blocks of 64, one element) the bytes 0x40 and 0x64 of one block are
converted to 0x0 and 0x64: different banks. -/
theorem footprint_any_converter_refuted : ¬ footprint_any_converter := by
  intro h
  have := h ⟨2, 6, 1, 1, 1, 0, 0, 1, 1, some ⟨64, 1, 0, 32⟩, none⟩ ⟨0, .rd, 0x40, 64, [], none⟩ 0x64 (by decide)
    (by unfold fits; decide) (by decide)
  revert this
  decide

/-- the request lies inside one aligned line of `2^b` bytes (what a cache with `2^b`-byte lines sends downstream) -/
def inLine (b : Nat) (r : Req) : Prop := r.addr % 2 ^ b + r.size ≤ 2 ^ b

instance (b : Nat) (r : Req) : Decidable (inLine b r) := by unfold inLine; infer_instance

/-- **Where the precondition comes from:** requests that stay inside an aligned line no larger than the interleave
block stay inside one interleave block. (MI300A: the L2 write-back caches in front of the DRAM model have 64-byte lines,
`log2InterleaveSize = 6`.) -/
theorem fits_of_line (c : Cfg) (b : Nat) (hb : b ≤ c.ilv) (r : Req) (h : inLine b r) : fits c r := by
  unfold fits
  unfold inLine at h
  obtain ⟨d, hd⟩ : ∃ d, c.ilv = b + d := ⟨c.ilv - b, by omega⟩
  rw [hd, Nat.pow_add, Nat.mod_mul]
  have hq : r.addr / 2 ^ b % 2 ^ d < 2 ^ d := Nat.mod_lt _ (Nat.pow_pos (by decide))
  have h1 : 2 ^ b * (r.addr / 2 ^ b % 2 ^ d) + 2 ^ b ≤ 2 ^ b * 2 ^ d := by
    have : 2 ^ b * (r.addr / 2 ^ b % 2 ^ d + 1) ≤ 2 ^ b * 2 ^ d := Nat.mul_le_mul_left _ hq
    rw [Nat.mul_add, Nat.mul_one] at this
    exact this
  omega

example : inLine 6 ⟨0, .rd, 0x1c0, 64, [], none⟩ ∧ ¬ inLine 6 ⟨0, .wr, 0x3e, 4, [1, 2, 3, 4], none⟩ := by decide

/-- **At most one response per request, carrying the request's identity**: in every reachable state the number of
responses for an accepted request `r` is 0 or 1, and any response bearing `r`'s id is a response to `r` itself. -/
theorem at_most_one_response (c : Cfg) (hw : c.width = 1) (ops : List Op) (r : Req) (hr : r ∈ (run c ops).arrived) :
    ((run c ops).resp.map (·.req)).count r ≤ 1 ∧ ∀ x ∈ (run c ops).resp, x.req.id = r.id → x.req = r := by
  obtain ⟨hnd, hsub, _⟩ := one_response_each c hw ops
  refine ⟨List.nodup_iff_count.1 hnd r, ?_⟩
  intro x hx hid
  have hinv := run_inv c hw ops
  have hxa := hsub x hx
  obtain ⟨i, hi, hxi⟩ := List.getElem_of_mem hxa
  obtain ⟨j, hj, hrj⟩ := List.getElem_of_mem hr
  have e1 : ((run c ops).arrived.map (·.id))[i]'(by simpa using hi) = i := by simp only [hinv.ids]; simp
  have e2 : ((run c ops).arrived.map (·.id))[j]'(by simpa using hj) = j := by simp only [hinv.ids]; simp
  simp only [List.getElem_map, hxi, hrj] at e1 e2
  have : i = j := by omega
  subst this
  rw [← hxi, ← hrj]

/-- **Exactly one response per request** once the liveness bound has elapsed: after `remaining` ticks in which the port
accepted, there is exactly one response for `r` (never more, whatever else is interleaved). -/
theorem exactly_one_response (c : Cfg) (hw : c.width = 1) (hd : 0 < c.depth) (hp : 0 < c.post) (hb : 0 < c.banks)
    (ops1 ops2 : List Op) (hok : ∀ op ∈ ops1 ++ ops2, opOk c op) (r : Req) (hr : r ∈ (run c ops1).arrived)
    (hn : remaining c (run c ops1) r ≤ acceptingTicks c (bankOf c r.addr) (run c ops1) ops2) :
    ((run c (ops1 ++ ops2)).resp.map (·.req)).count r = 1 := by
  have hm := liveness_bounded c hw hd hp hb ops1 ops2 hok r hr hn
  obtain ⟨hnd, _, _⟩ := one_response_each c hw (ops1 ++ ops2)
  rw [hnd.count, if_pos hm]

/-! ### non-vacuity -/

/-- MI300A witness: the read of 0x40 is answered with the bytes written before it -/
example : ∀ x ∈ (run mi300a ([.deliver .wr 0x40 4 [1, 2, 3, 4] none, .tick, .tick, .deliver .rd 0x40 4 [] none]
      ++ List.replicate 62 .tick)).resp, x.req.kind = .rd →
    x.data = readRange ((run mi300a ([.deliver .wr 0x40 4 [1, 2, 3, 4] none, .tick, .tick, .deliver .rd 0x40 4 [] none]
      ++ List.replicate 62 .tick)).arrived.take x.req.id).reverse x.req.addr x.req.len :=
  read_response_payload mi300a rfl trivial _ (by decide +kernel)

end C17
