import MgpuProofs.C15Resend
import MgpuProofs.Props.C15RoundFull
import MgpuProofs.Props.C15Cu
import MgpuProofs.Props.C15Arr
import MgpuProofs.Props.C15Fair
/-! # C15 ∘ C14 — after the round: the re-send of the shadow lists ends in the composition

Second stage of the liveness across a flush / restart round (the first is the round itself,
`Props/C15RoundFull.lean`): once the compute unit handles the restart request it re-sends its saved
records, one per path and cycle while the port has room, and resumes when nothing is left.
`resendMu` (1 + saved records while re-sending) is a decreasing measure over the composed state under
arbitrary interleaving; room on the scalar port is made by the connection (`xfer`), i.e. by the
restarted ROB accepting requests (`eventually_accepted`). No hypothesis on response IDs. -/
namespace C15.Cu
open C14.Flush

/-- the tick of a re-sending compute unit that can make progress: nothing left (it resumes) or a
    path with a saved record has room on its port -/
def helpfulS (c : Cfg) (σ : Comp) : CEv → Bool
  | .cu .tick =>
    σ.cu.isSending && σ.cu.cpIn.isEmpty &&
    (decide (shTotal σ.cu = 0) ||
     (!σ.cu.s.sh.isEmpty && decide (σ.cu.s.out.length < c.cu.capS)) ||
     (!σ.cu.f.sh.isEmpty && decide (σ.cu.f.out.length < c.cu.capF)) ||
     (!σ.cu.v.sh.isEmpty && decide (σ.cu.v.out.length < c.cu.capV)))
  | _ => false

def helpfulCountS (c : Cfg) : Comp → List CEv → Nat
  | _, [] => 0
  | σ, e :: es => (if helpfulS c σ e then 1 else 0) + helpfulCountS c (cstep c σ e) es

/-- **While the compute unit is re-sending and no new request of the command processor waits, no
    legal composed event adds to what is left to re-send**, and the compute unit's tick pays whenever
    a path with a saved record has room on its port or nothing is left (then it resumes). -/
theorem resend_measure (c : Cfg) (σ : Comp) (e : CEv) (hl : legalB c σ e = true)
    (h : Lite σ.cu) (hs : σ.cu.isSending = true) (hin : σ.cu.cpIn = []) :
    resendMu (cstep c σ e).cu ≤ resendMu σ.cu ∧
    (helpfulS c σ e = true → resendMu (cstep c σ e).cu < resendMu σ.cu) := by
  have hf : σ.cu.fault = false := h.1.1.2.1
  have hcu := cstep_cu c σ e
  have hnot : ∀ o, cuOp c σ e = some o → o ≠ .tick → helpfulS c σ e = false := by
    intro o ho hne
    cases e with
    | cu o' =>
      cases o' <;> first | rfl | skip
      simp only [cuOp, isLink, Bool.false_eq_true, if_false, Option.some.injEq] at ho
      exact absurd ho.symm hne
    | xfer => rfl
    | back => rfl
    | rob e' => rfl
  rcases ho : cuOp c σ e with _ | o
  · rw [ho] at hcu; simp only at hcu; rw [hcu]
    refine ⟨Nat.le_refl _, fun hh => ?_⟩
    cases e with
    | cu o' =>
      cases o' <;> first | (simp [helpfulS] at hh; done) | skip
      simp [cuOp, isLink] at ho
    | xfer => simp [helpfulS] at hh
    | back => simp [helpfulS] at hh
    | rob e' => simp [helpfulS] at hh
  · rw [ho] at hcu; simp only at hcu; rw [hcu]
    by_cases ht : o = .tick
    · subst ht
      have e' : C14.Flush.step c.cu σ.cu .tick = C14.Flush.tick c.cu σ.cu := by
        unfold C14.Flush.step; rw [if_neg (by rw [hf]; decide)]
      rw [e']
      obtain ⟨t1, t2⟩ := tick_resend c.cu h hs hin
      refine ⟨t1, fun hh => t2 ?_⟩
      cases e with
      | cu o' =>
        cases o' <;> first | (simp [helpfulS] at hh; done) | skip
        simp only [helpfulS, Bool.and_eq_true, Bool.or_eq_true, decide_eq_true_eq, Bool.not_eq_true',
          List.isEmpty_eq_false_iff] at hh
        obtain ⟨_, hw⟩ := hh
        rcases hw with ((hw | hw) | hw) | hw
        · exact Or.inl hw
        · exact Or.inr (Or.inl hw)
        · exact Or.inr (Or.inr (Or.inl hw))
        · exact Or.inr (Or.inr (Or.inr hw))
      | xfer => simp [helpfulS] at hh
      | back => simp [helpfulS] at hh
      | rob e'' => simp [helpfulS] at hh
    · have := resendMu_congr (step_sh_other c.cu σ.cu o hf ht)
      rw [this]
      refine ⟨Nat.le_refl _, fun hh => ?_⟩
      rw [hnot o ho ht] at hh; cases hh

example : helpfulS demoCfg (crun demoCfg (roundEvs.take 16)) (.cu .tick) = true ∧
    resendMu (crun demoCfg (roundEvs.take 16)).cu = 1 ∧ resendMu (crun demoCfg (roundEvs.take 17)).cu = 0 := by decide

/-- **The re-send ends — bounded liveness of the second stage over every legal schedule.** From any
    reachable state, along any legal continuation: either at some point the compute unit is no
    longer re-sending (it has re-sent everything and resumed — `nothing_left_in_shadow_when_running` —
    or a new flush interrupted it: then `rob_discards_only_what_the_cu_saved_always` applies again) or a
    new request of the command processor waits in its port; or what is left to re-send has dropped by
    at least the number of ticks that could make progress. In particular after `resendMu` such ticks
    the re-send is over. -/
theorem resend_completes_within (c : Cfg) (hcap : 0 < c.cu.capCP) (evs0 evs : List CEv)
    (hl : legalRunB c {} (evs0 ++ evs) = true) :
    let σ := crun c evs0
    ((∃ k, k ≤ evs.length ∧ ((crun c (evs0 ++ evs.take k)).cu.isSending = false ∨
        (crun c (evs0 ++ evs.take k)).cu.cpIn ≠ [])) ∨
      resendMu (crun c (evs0 ++ evs)).cu + helpfulCountS c σ evs ≤ resendMu σ.cu) ∧
    (resendMu σ.cu ≤ helpfulCountS c σ evs →
      ∃ k, k ≤ evs.length ∧ ((crun c (evs0 ++ evs.take k)).cu.isSending = false ∨
        (crun c (evs0 ++ evs.take k)).cu.cpIn ≠ [])) := by
  intro σ
  obtain ⟨hl0, hl1⟩ := legalRunB_append c evs0 evs {} hl
  have hL : Lite σ.cu := crun_Lite c hcap evs0 hl0
  have hrun : ∀ l : List CEv, crun c (evs0 ++ l) = l.foldl (cstep c) σ := by
    intro l; simp [σ, crun, List.foldl_append]
  have fold : ∀ (es : List CEv) (σ : Comp), Lite σ.cu →
      legalRunB c σ es = true →
      (∃ k, k ≤ es.length ∧ (((es.take k).foldl (cstep c) σ).cu.isSending = false ∨
          ((es.take k).foldl (cstep c) σ).cu.cpIn ≠ [])) ∨
      resendMu (es.foldl (cstep c) σ).cu + helpfulCountS c σ es ≤ resendMu σ.cu := by
    intro es
    induction es with
    | nil => intro σ _ _; right; simp [helpfulCountS]
    | cons e es ih =>
      intro σ hL hl
      simp only [legalRunB, Bool.and_eq_true] at hl
      by_cases h0 : σ.cu.isSending = true ∧ σ.cu.cpIn = []
      · have hL' := cstep_Lite c hcap σ e hl.1 hL
        rcases ih (cstep c σ e) hL' hl.2 with ⟨k, hk, hz⟩ | hle
        · left; exact ⟨k + 1, by simp; omega, by simpa using hz⟩
        · right
          obtain ⟨m1, m2⟩ := resend_measure c σ e hl.1 hL h0.1 h0.2
          simp only [List.foldl_cons, helpfulCountS]
          by_cases hh : helpfulS c σ e = true
          · have := m2 hh; simp only [hh, if_true]; omega
          · simp only [hh, Bool.false_eq_true, if_false]; omega
      · left
        refine ⟨0, Nat.zero_le _, ?_⟩
        simp only [List.take_zero, List.foldl_nil]
        by_cases hs : σ.cu.isSending = true
        · right; intro hin; exact h0 ⟨hs, hin⟩
        · left; simpa using hs
  have key := fold evs σ hL hl1
  constructor
  · rcases key with ⟨k, hk, hz⟩ | hle
    · left; exact ⟨k, hk, by rw [hrun]; exact hz⟩
    · right; rw [hrun]; exact hle
  · intro hn
    rcases key with ⟨k, hk, hz⟩ | hle
    · exact ⟨k, hk, by rw [hrun]; exact hz⟩
    · refine ⟨evs.length, Nat.le_refl _, ?_⟩
      rw [List.take_length, hrun]
      left
      have h0 : resendMu (evs.foldl (cstep c) σ).cu = 0 := by omega
      unfold resendMu at h0
      split at h0
      · omega
      · rename_i hs; simpa using hs

/-- the round of `roundEvs`: in the tick that takes the restart request the unit already re-sends its
    one saved record; the next tick finds nothing left and resumes -/
example : (crun demoCfg (roundEvs.take 16)).cu.isSending = true ∧
    resendMu (crun demoCfg (roundEvs.take 16)).cu = 1 ∧
    helpfulCountS demoCfg (crun demoCfg (roundEvs.take 16)) (roundEvs.drop 16) = 1 ∧
    (crun demoCfg roundEvs).cu.isSending = false ∧ (crun demoCfg roundEvs).cu.isPaused = false := by decide

/-- the run of `unsent_name_witness` (scalar port of ONE message, two saved records): the first re-send
    is refused by the full port — the tick cannot make progress; after the connection has moved the old
    request into the ROB it can, and the measure drops -/
example : resendMu (crun witCfg (witEvs.take 15)).cu = 3 ∧
    helpfulS witCfg (crun witCfg (witEvs.take 15)) (.cu .tick) = false ∧
    helpfulS witCfg (crun witCfg (witEvs.take 16)) (.cu .tick) = true ∧
    resendMu (crun witCfg (witEvs.take 23)).cu = 2 := by decide

/-! ## third stage: the ROB's own liveness measures apply to the composition

The ROB part of a composed run is a `sysRun` (`composition_is_two_runs`), and a continuation of the
composed run projects to a continuation of that `sysRun`: the bounded-liveness theorems of the ROB
(`accepted_within_measure` from arrival, `answered_within_measure` from acceptance) hold of the
requests the connection has moved into the restarted ROB — in particular of the re-sent ones — with
the helpful events counted on the projected schedule (ROB ticks, the memory, `back` as the requester
taking a response). -/

/-- **A request waiting in the Top port of the ROB of the composition is accepted within `muIn`
    helpful events of the projected schedule** (`accepted_within_measure` through the projection):
    for the request number `a` the ROB gave a (re-)sent request of the compute unit, inside the
    window (ROB not flushing, no control message — i.e. after the round, `protocol_round`), along any
    composed continuation that brings no control message to the ROB. -/
theorem resent_request_accepted_in_composition (c : Cfg) (evs0 evs : List CEv) (a : Nat) (hw : 1 ≤ c.rob.width)
    (hwin : WinIn c.rob a (crun c evs0).sys.rob)
    (hn : ∀ e ∈ robEvs c (crun c evs0) evs, isCtl e = false) :
    let σ := crun c evs0
    let σ' := crun c (evs0 ++ evs)
    (a ∈ σ'.sys.rob.accepted ∨
      (WinIn c.rob a σ'.sys.rob ∧
        σ'.sys.muIn c.rob a + helpfulInCount c.rob σ.sys (robEvs c σ evs) ≤ σ.sys.muIn c.rob a)) ∧
    (σ.sys.muIn c.rob a ≤ helpfulInCount c.rob σ.sys (robEvs c σ evs) → a ∈ σ'.sys.rob.accepted) := by
  intro σ σ'
  have h0 : σ.sys = sysRun c.rob (robEvs c {} evs0) := comp_rob_is_sysRun c evs0
  have h1 : σ'.sys = sysRun c.rob (robEvs c {} evs0 ++ robEvs c σ evs) := by
    show (crun c (evs0 ++ evs)).sys = _
    rw [comp_rob_is_sysRun, robEvs_append]; rfl
  have key := accepted_within_measure c.rob (robEvs c {} evs0) (robEvs c σ evs) a hw (by rw [← h0]; exact hwin) hn
  simp only at key
  rw [← h0, ← h1] at key
  exact key

example : helpfulInCount demoCfg.rob (crun demoCfg (roundEvs ++ [.xfer])).sys
      (robEvs demoCfg (crun demoCfg (roundEvs ++ [.xfer])) [.rob .tick]) = 1 ∧
    1 ∈ (crun demoCfg (roundEvs ++ [.xfer, .rob .tick])).sys.rob.accepted := by decide

/-- **… and once accepted it is answered (its response enters the Top port) within `mu − 1` helpful
    events** (`answered_within_measure` through the projection). -/
theorem resent_request_answered_in_composition (c : Cfg) (evs0 evs : List CEv) (a : Nat) (hw : 1 ≤ c.rob.width)
    (hwin : Window c.rob a (crun c evs0).sys.rob)
    (hn : ∀ e ∈ robEvs c (crun c evs0) evs, isCtl e = false) :
    let σ := crun c evs0
    let σ' := crun c (evs0 ++ evs)
    (a ∈ σ'.sys.rob.delivered.map (·.rspTo) ∨
      (Window c.rob a σ'.sys.rob ∧
        σ'.sys.mu c.rob a + helpfulCount c.rob a σ.sys (robEvs c σ evs) ≤ σ.sys.mu c.rob a)) ∧
    (σ.sys.mu c.rob a ≤ helpfulCount c.rob a σ.sys (robEvs c σ evs) + 1 →
      a ∈ σ'.sys.rob.delivered.map (·.rspTo)) := by
  intro σ σ'
  have h0 : σ.sys = sysRun c.rob (robEvs c {} evs0) := comp_rob_is_sysRun c evs0
  have h1 : σ'.sys = sysRun c.rob (robEvs c {} evs0 ++ robEvs c σ evs) := by
    show (crun c (evs0 ++ evs)).sys = _
    rw [comp_rob_is_sysRun, robEvs_append]; rfl
  have key := answered_within_measure c.rob (robEvs c {} evs0) (robEvs c σ evs) a hw (by rw [← h0]; exact hwin) hn
  simp only at key
  rw [← h0, ← h1] at key
  exact key

/-- after the round of `roundEvs` the re-sent request (the ROB's number 1) is moved into the ROB: it
    waits in the window; tick (accept), the memory takes and answers, tick (consume), tick (retire) -/
example : WinIn demoCfg.rob 1 (crun demoCfg (roundEvs ++ [.xfer])).sys.rob ∧
    (crun demoCfg (roundEvs ++ [.xfer])).sys.muIn demoCfg.rob 1 = 9 ∧
    (crun demoCfg answeredEvs).sys.rob.delivered.map (·.rspTo) = [1] ∧
    (crun demoCfg answeredEvs).cu.s.applied = [0] := by
  refine ⟨by decide, by decide, by decide, by decide⟩

end C15.Cu
