import MgpuProofs.Props.C15Deep
import MgpuProofs.C15Fair
/-! # C15 — liveness: every accepted request is answered, under fairness, within a measure

Closed system `sysRun` / `sysAt` (ROB ∥ at-most-once lower memory ∥ requester). For a pending
request `a` the *window* is: no fault, not flushing, no control message waiting or arriving (a
flush legitimately discards `a`), the requests up to `a` name a requester, `BottomUnit` is set.
`Sys.mu c a σ` (`MgpuProofs/C15Fair.lean`) measures the work left for `a`; `helpful c a σ e` says
that event `e`, happening in state `σ`, is one of: the memory takes a forwarded copy while one of
the copies up to `a` waits in the Bottom port; the memory's answer to one of these copies is
accepted by the Bottom port; the requester takes a response from the Top port; a tick while the
head can be retired or one of these answers waits in the Bottom port.
-/
namespace C15

/-- request 0 accepted, its copy taken by the memory, nothing answered yet -/
def liveEvs : List Ev := [.arrive (demoReq 0 false), .tick, .memTake]

example : Window demoCfg 0 (sysRun demoCfg liveEvs).rob ∧ (sysRun demoCfg liveEvs).mu demoCfg 0 = 5 := by
  refine ⟨⟨by decide, by decide, by decide, by decide, by decide, by decide⟩, by decide⟩

/-- **Bounded response (finite runs).** From any reachable state inside the window of a pending
    request `a`, along any event list without control messages: either `a`'s response has entered
    the Top port, or the window still holds and the measure has dropped by at least the number of
    helpful events that happened — every helpful event pays one unit, no event ever adds one. In
    particular `a` is answered at the latest when `mu − 1` helpful events have happened. -/
theorem answered_within_measure (c : Cfg) (evs0 evs : List Ev) (a : Nat) (hw : 1 ≤ c.width)
    (hwin : Window c a (sysRun c evs0).rob) (hn : ∀ e ∈ evs, isCtl e = false) :
    let σ := sysRun c evs0
    let σ' := sysRun c (evs0 ++ evs)
    (a ∈ σ'.rob.delivered.map (·.rspTo) ∨
      (Window c a σ'.rob ∧ σ'.mu c a + helpfulCount c a σ evs ≤ σ.mu c a)) ∧
    (σ.mu c a ≤ helpfulCount c a σ evs + 1 → a ∈ σ'.rob.delivered.map (·.rspTo)) := by
  intro σ σ'
  have hrun : σ' = evs.foldl (sysStep c) σ := by simp [σ, σ', sysRun, List.foldl_append]
  have key := fold_mu c a hw evs σ (Win.of (sysRun_ok c evs0) hwin) hn
  rw [← hrun] at key
  constructor
  · rcases key with d | ⟨w, le⟩
    · exact Or.inl d
    · exact Or.inr ⟨w.window, le⟩
  · intro hle
    rcases key with d | ⟨w, le⟩
    · exact d
    · have := win_mu_pos w
      unfold Sys.mu at *
      omega

example : helpfulCount demoCfg 0 (sysRun demoCfg liveEvs) [.memAnswer 0 (.data [1]), .tick, .tick] = 3 ∧
    (sysRun demoCfg (liveEvs ++ [.memAnswer 0 (.data [1]), .tick, .tick])).rob.delivered.map (·.rspTo) = [0] := by
  decide

/-- **Liveness under fairness.** Take any infinite schedule without control messages, started in
    a reachable state inside the window of request `a`. If, as long as `a` is pending, a helpful
    event keeps happening eventually (the lower level eventually takes and answers every forwarded
    request, the Top port's peer eventually takes responses, the component is eventually ticked),
    then `a`'s response enters the Top port after finitely many events. The proof is the
    decreasing measure `Sys.mu`. -/
theorem eventually_answered (c : Cfg) (evs0 : List Ev) (sched : Nat → Ev) (a : Nat) (hw : 1 ≤ c.width)
    (hwin : Window c a (sysRun c evs0).rob) (hn : ∀ n, isCtl (sched n) = false)
    (hfair : ∀ n, a ∈ (sysAt c (sysRun c evs0) sched n).rob.txs.map (·.req.id) →
      ∃ j, n ≤ j ∧ helpful c a (sysAt c (sysRun c evs0) sched j) (sched j) = true) :
    ∃ n, a ∈ (sysAt c (sysRun c evs0) sched n).rob.delivered.map (·.rspTo) :=
  eventually_done c a (sysRun c evs0) sched hw hn hfair _ 0 (Win.of (sysRun_ok c evs0) hwin) (Nat.le_refl _)

/-- **From the Top port to the requester.** While `a`'s response waits in the Top port's
    outgoing buffer (`0 < nu`) and no step of the event list ends with the ROB in the flushing
    state, no event removes or overtakes it: either the requester has taken it, or it still
    waits there and its position has dropped by the number of `takeRsp` events — so it is handed
    over at the latest with the `topOutCap`-th response the requester takes. (Restart without
    flush and all other events are harmless; a *flush* is the exception since repair 7c2f5a70 —
    see `flush_drops_waiting_response`.) -/
theorem response_reaches_requester (c : Cfg) (evs0 evs : List Ev) (a : Nat)
    (hwait : 0 < (sysRun c evs0).nu a) (hnf : NoFlushAlong c (sysRun c evs0) evs) :
    let σ := sysRun c evs0
    let σ' := sysRun c (evs0 ++ evs)
    (a ∈ σ'.out.map (·.rspTo) ∨ (0 < σ'.nu a ∧ σ'.nu a + takeCount evs ≤ σ.nu a)) ∧
    (c.topOutCap ≤ takeCount evs → a ∈ σ'.out.map (·.rspTo)) := by
  intro σ σ'
  have hrun : σ' = evs.foldl (sysStep c) σ := by simp [σ, σ', sysRun, List.foldl_append]
  have ok := sysRun_ok c evs0
  have key := taken_fold c a evs σ ok hwait hnf
  rw [← hrun] at key
  refine ⟨key, fun hcap => ?_⟩
  rcases key with h | ⟨hpos, le⟩
  · exact h
  · exfalso
    have h1 : σ.nu a ≤ σ.rob.topOut.length := by
      unfold Sys.nu
      have := lastPos_le [a] (σ.rob.topOut.map (·.rspTo))
      simpa using this
    have h2 : σ.rob.topOut.length ≤ c.topOutCap := SInv.topOutLe ok
    omega

example : (sysRun demoCfg (residueEvs.take 6)).nu 0 = 1 ∧
    NoFlushAlong demoCfg (sysRun demoCfg (residueEvs.take 6)) [.ctl ⟨false, true⟩, .tick, .takeRsp] ∧
    (sysRun demoCfg (residueEvs.take 6 ++ [.ctl ⟨false, true⟩, .tick, .takeRsp])).out.map (·.rspTo) = [0] := by
  refine ⟨by decide, ⟨by decide, by decide, by decide, trivial⟩, by decide⟩

/-- **The flush exception.** A response that waits in the Top port when the ROB enters the
    flushing state is removed with the port's outgoing buffer and is never handed to the
    requester, in any continuation (it answers a request accepted before the flush:
    `flush_silences_top`). -/
theorem flush_drops_waiting_response (c : Cfg) (evs more : List Ev) (a : Nat)
    (hacc : a ∈ (sysRun c evs).rob.accepted) (hnot : a ∉ (sysRun c evs).out.map (·.rspTo))
    (hf : (sysRun c evs).rob.flushing = true) :
    a ∉ (sysRun c (evs ++ more)).out.map (·.rspTo) := by
  intro hm
  obtain ⟨t, ht⟩ := sysFold_out c more (sysRun c evs)
  have hrun : sysRun c (evs ++ more) = more.foldl (sysStep c) (sysRun c evs) := by
    simp [sysRun, List.foldl_append]
  rw [← hrun] at ht
  rw [ht, List.map_append] at hm
  rcases List.mem_append.1 hm with hm | hm
  · exact hnot hm
  · obtain ⟨d, hd, rfl⟩ := List.mem_map.1 hm
    exact flush_silences_top c evs more hf d (by rw [ht, List.drop_left]; exact hd) hacc

example : 0 ∈ (sysRun demoCfg residueEvs).rob.accepted ∧ (sysRun demoCfg (residueEvs.take 7)).nu 0 = 1 ∧
    (sysRun demoCfg residueEvs).rob.flushing = true ∧
    (sysRun demoCfg (residueEvs ++ [.takeAck, .ctl ⟨false, true⟩, .tick, .takeRsp])).out = [] := by decide

/-- a fair schedule for the demo: answer, then tick forever -/
def fairSched : Nat → Ev
  | 0 => .memAnswer 0 (.data [1])
  | _ => .tick

example : (sysAt demoCfg (sysRun demoCfg liveEvs) fairSched 3).rob.delivered.map (·.rspTo) = [0] ∧
    helpful demoCfg 0 (sysAt demoCfg (sysRun demoCfg liveEvs) fairSched 0) (fairSched 0) = true ∧
    helpful demoCfg 0 (sysAt demoCfg (sysRun demoCfg liveEvs) fairSched 1) (fairSched 1) = true ∧
    helpful demoCfg 0 (sysAt demoCfg (sysRun demoCfg liveEvs) fairSched 2) (fairSched 2) = true := by decide

/-- **The fairness hypothesis can be met: no deadlock inside the window.** While `a` is pending
    (Top port capacity ≥ 1) some helpful event is enabled — or the only obstacle is the full
    incoming buffer of the Bottom port in front of the memory's answer to one of the copies up to
    `a`, and then every tick of the ROB (width ≥ 1) shortens that buffer or answers `a`. -/
theorem no_deadlock_in_window (c : Cfg) (evs0 : List Ev) (a : Nat) (hw : 1 ≤ c.width) (hto : 1 ≤ c.topOutCap)
    (hwin : Window c a (sysRun c evs0).rob) :
    let σ := sysRun c evs0
    ((∃ e, isCtl e = false ∧ helpful c a σ e = true) ∨
     (c.botInCap ≤ σ.rob.botIn.length ∧ ∃ (j : Nat) (b : BReq), σ.mem[j]? = some b ∧ b.id ∈ pids a σ.rob)) ∧
    (σ.rob.botIn ≠ [] → a ∈ (sysStep c σ .tick).rob.delivered.map (·.rspTo) ∨
      (sysStep c σ .tick).rob.botIn.length < σ.rob.botIn.length) := by
  intro σ
  have w := Win.of (sysRun_ok c evs0) hwin
  refine ⟨helpful_or_backpressure c a σ w hto, ?_⟩
  intro hne
  rcases tick_mu c a σ.rob σ.mem σ.out w hw with d | ⟨_, _, _, hb⟩
  · exact Or.inl d
  · exact Or.inr (hb hne)

example : helpful demoCfg 0 (sysRun demoCfg liveEvs) (.memAnswer 0 .done) = true := by decide

/-- liveness without any assumption on the environment -/
def liveness_without_fairness_full : Prop :=
  ∀ (c : Cfg) (evs0 : List Ev) (sched : Nat → Ev) (a : Nat), 1 ≤ c.width →
    Window c a (sysRun c evs0).rob → (∀ n, isCtl (sched n) = false) →
    ∃ n, a ∈ (sysAt c (sysRun c evs0) sched n).rob.delivered.map (·.rspTo)

/-- It fails without the hypothesis: a lower level that never answers (the schedule only ticks)
    keeps request 0 pending forever — the ticks change nothing at all. -/
theorem liveness_without_fairness_refuted : ¬ liveness_without_fairness_full := by
  intro h
  obtain ⟨n, hn⟩ := h demoCfg liveEvs (fun _ => .tick) 0 (by decide)
    ⟨by decide, by decide, by decide, by decide, by decide, by decide⟩ (fun _ => rfl)
  have fix : sysStep demoCfg (sysRun demoCfg liveEvs) .tick = sysRun demoCfg liveEvs := by
    have := tick_idle' demoCfg (sysRun demoCfg liveEvs).rob (by decide) (by decide) (by decide) (by decide)
      (by decide) (by decide)
    simp only [sysStep, step, this]
  have all : ∀ k, sysAt demoCfg (sysRun demoCfg liveEvs) (fun _ => .tick) k = sysRun demoCfg liveEvs := by
    intro k
    induction k with
    | zero => rfl
    | succ k ih => simp only [sysAt, ih]; exact fix
  rw [all n] at hn
  revert hn
  decide

/-- a requester that never takes its responses: Top port of capacity 1 holds the response to
    request 0, request 1 has its answer and cannot be retired -/
def blockedCfg : Cfg := { demoCfg with topOutCap := 1 }

def blockedEvs : List Ev :=
  [.arrive (demoReq 0 false), .arrive (demoReq 64 false), .tick, .tick, .memTake, .memTake,
   .memAnswer 0 (.data [1]), .memAnswer 0 (.data [2]), .tick, .tick, .tick, .tick]

/-- …and a Top port that never accepts starves the next request in the same way. -/
theorem liveness_needs_top_port : Window blockedCfg 1 (sysRun blockedCfg blockedEvs).rob ∧
    ∀ n, 1 ∉ (sysAt blockedCfg (sysRun blockedCfg blockedEvs) (fun _ => .tick) n).rob.delivered.map (·.rspTo) := by
  refine ⟨⟨by decide, by decide, by decide, by decide, by decide, by decide⟩, ?_⟩
  have fix : sysStep blockedCfg (sysRun blockedCfg blockedEvs) .tick = sysRun blockedCfg blockedEvs := by
    have := tick_idle' blockedCfg (sysRun blockedCfg blockedEvs).rob (by decide) (by decide) (by decide) (by decide)
      (by decide) (by decide)
    simp only [sysStep, step, this]
  have all : ∀ k, sysAt blockedCfg (sysRun blockedCfg blockedEvs) (fun _ => .tick) k = sysRun blockedCfg blockedEvs := by
    intro k
    induction k with
    | zero => rfl
    | succ k ih => simp only [sysAt, ih]; exact fix
  intro n
  rw [all n]
  decide

example : (sysRun blockedCfg blockedEvs).rob.topOut.length = 1 ∧
    (sysRun blockedCfg blockedEvs).rob.txs.map (·.rsp) = [some (.data [2])] := by decide

end C15
