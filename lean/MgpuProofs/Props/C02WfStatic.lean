import MgpuProofs.Props.C02Wf
import MgpuProofs.C02WfStatic
import MgpuProofs.C02WfDemo
import MgpuProofs.Props.C02WfWit
/-! # C02 — the hazard hypothesis as a decidable predicate on the program -/
namespace C02.Wf

/-- **static_check_sound.** For a straight-line program (instruction list `is` laid out at `pc`, no
    branch, ending in `s_endpgm`, all memory accesses in one alias class) the STATIC check
    `hcheck is` — a decidable predicate on the instruction list alone: walk the list, keep the list of
    memory instructions that `s_waitcnt` has not yet retired (`vmcnt(n)` retires all but the youngest n
    vector accesses, `lgkmcnt(0)` everything), refuse an instruction that reads or writes a destination
    register of a load still in that list, refuse a memory access while a store is in the list and a
    store while anything is — implies the address-exact check next to the emulator (on the repaired
    compute unit; accesses inside owned memory: `accRun`). Before the repair of the vector memory unit
    this needed "no FLAT instruction is executed with EXEC = 0" (`vmcnt_skips_empty_access_before_fix`). -/
theorem static_check_sound (P : Prog) (hfix : P.oldCU = false) (is : List Inst) (pc : Nat) (regs : RF) (mem : Mem)
    (hsl : StraightLine P pc is) (hreg : ∀ i ∈ is, ∀ j ∈ is, i.region = j.region)
    (hc : hcheck is = true) (hne : accRun P is.length (einit pc regs mem) = true) :
    hazardFreeRun P is.length (einit pc regs mem, {}) = true :=
  static_sound_aux hfix is hreg is (einit pc regs mem) {} {} (fun _ h => h) (by intro q hq; simp at hq)
    ⟨List.suffix_refl _, rfl⟩ rfl hsl hc hne

/-- non-vacuity: the load / wait / xor / store kernel `csGood` at 0x1000 meets every hypothesis -/
example : StraightLine PGood 0x1000 (csGood.map compile) :=
  cprog_straightLine 0x1000 csGood noForeign (by decide) (by decide +kernel)
    (by intro c hc; simp only [csGood, List.mem_cons, List.not_mem_nil, or_false] at hc
        rcases hc with rfl | rfl | rfl | rfl | rfl | rfl | rfl | rfl | rfl <;> simp [compile])
    ⟨.endp, by decide, rfl⟩
example : ∀ i ∈ csGood.map compile, ∀ j ∈ csGood.map compile, i.region = j.region := by
  intro i hi j hj
  simp only [List.mem_map] at hi hj
  obtain ⟨c, _, rfl⟩ := hi
  obtain ⟨c', _, rfl⟩ := hj
  cases c <;> cases c' <;> rfl
example : hcheck (csGood.map compile) = true := by decide +kernel
example : accRun PGood (csGood.map compile).length (einit 0x1000 demoRegs demoMem) = true := by decide +kernel

/-- **straightline_program_static_check.** The simulation theorem with the hazard hypothesis in its
    static form: a straight-line kernel that passes `hcheck` gives, on every schedule of the timing
    compute unit that completes, the emulator's final registers, owned memory and executed-instruction
    sequence. -/
theorem straightline_program_static_check (P : Prog) (hP : P.WF) (gate : TState → Inst → Bool)
    (is : List Inst) (pc : Nat) (regs : RF) (mem : Mem)
    (hsl : StraightLine P pc is) (hreg : ∀ i ∈ is, ∀ j ∈ is, i.region = j.region)
    (hc : hcheck is = true) (hne : accRun P is.length (einit pc regs mem) = true)
    (evs : List Ev) (T : TState) (hrun : trun P gate (tinit pc regs mem) evs = some T)
    (hdone : T.ph = .done) :
    ∃ n E, erun P n (einit pc regs mem) = some E ∧ E.done = true ∧ T.regs = E.regs ∧
      (∀ a, P.own a = true → T.mem a = E.mem a) ∧ T.trace = E.trace :=
  wavefront_timing_equals_emulator P hP gate pc regs mem is.length
    (static_check_sound P hP.fixed is pc regs mem hsl hreg hc hne) evs T hrun hdone

theorem accRun_all (P : Prog) (ho : ∀ a, P.own a = true) (hw : ∀ a, P.wown a = true) :
    ∀ (n : Nat) (E : EState), accRun P n E = true := by
  intro n
  induction n with
  | zero => intro E; rfl
  | succ n ih =>
    intro E
    simp only [accRun]
    split
    · rfl
    · split
      · rename_i i E' _ _
        have : accOK P i E.regs = true := by
          simp [accOK, List.all_eq_true, ho, hw]
        simp [this, ih]
      · rfl

theorem compile_region (c : CInst) : (compile c).region = 0 := by cases c <;> rfl

/-- **static_check_alone_suffices.** The full statement for the repaired compute unit, on the sample
    instruction set: a straight-line kernel (no branch, ending in `s_endpgm`; `s_getpc_b64`, EXEC changes
    and FLAT instructions under EXEC = 0 allowed) that passes the static check `hcheck` — a decidable
    predicate on the instruction list — ends, on EVERY schedule of the timing compute unit that
    completes and for every input, with the emulator's registers, memory and executed-instruction
    sequence. (Refuted for the unit before the repairs: `static_check_alone_suffices_before_fix_refuted`.) -/
theorem static_check_alone_suffices (base : Nat) (cs : List CInst) (gate : TState → Inst → Bool)
    (regs : RF) (mem : Mem) (evs : List Ev) (T : TState)
    (hlen : cs.length ≤ 65536) (hsz : base + 8 * cs.length < PCM)
    (hnb : ∀ c ∈ cs, (compile c).kind ≠ .branch)
    (hend : ∃ c, cs.getLast? = some c ∧ (compile c).kind = .endpgm)
    (hc : hcheck (cs.map compile) = true)
    (hrun : trun (cprog base cs noForeign) gate (tinit base regs mem) evs = some T) (hdone : T.ph = .done) :
    ∃ n E, erun (cprog base cs noForeign) n (einit base regs mem) = some E ∧ E.done = true ∧
      T.regs = E.regs ∧ (∀ a, T.mem a = E.mem a) ∧ T.trace = E.trace := by
  obtain ⟨n, E, h1, h2, h3, h4, h5⟩ := straightline_program_static_check (cprog base cs noForeign)
    (cprog_wf _ _ _) gate (cs.map compile) base regs mem
    (cprog_straightLine base cs noForeign hlen hsz hnb hend)
    (by
      intro i hi j hj
      simp only [List.mem_map] at hi hj
      obtain ⟨c, _, rfl⟩ := hi
      obtain ⟨c', _, rfl⟩ := hj
      rw [compile_region, compile_region])
    hc (accRun_all _ (fun _ => rfl) (fun _ => rfl) _ _) evs T hrun hdone
  exact ⟨n, E, h1, h2, h3, fun a => h4 a rfl, h5⟩

/-- non-vacuity: the program that exposed the defect (`csEmpty`: a FLAT load under EXEC = 0 followed by
    `s_waitcnt vmcnt(1)`) meets the hypotheses -/
example : hcheck (csEmpty.map compile) = true ∧ (∀ c ∈ csEmpty, (compile c).kind ≠ .branch) ∧
    (∃ c, csEmpty.getLast? = some c ∧ (compile c).kind = .endpgm) := by
  refine ⟨by decide +kernel, ?_, ⟨.endp, by decide, rfl⟩⟩
  intro c hc
  simp only [csEmpty, List.mem_cons, List.not_mem_nil, or_false] at hc
  rcases hc with rfl | rfl | rfl | rfl | rfl | rfl | rfl | rfl | rfl | rfl | rfl | rfl <;> simp [compile]

end C02.Wf
