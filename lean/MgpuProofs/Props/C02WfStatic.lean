import MgpuProofs.Props.C02Wf
import MgpuProofs.C02WfStatic
import MgpuProofs.C02WfDemo
/-! # C02 — the hazard hypothesis as a decidable predicate on the program -/
namespace C02.Wf

/-- **static_check_sound.** For a straight-line program (instruction list `is` laid out at `pc`, no
    branch, ending in `s_endpgm`, all memory accesses in one alias class) the STATIC check
    `hcheck is` — a decidable predicate on the instruction list alone: walk the list, keep the list of
    memory instructions that `s_waitcnt` has not yet retired (`vmcnt(n)` retires all but the youngest n
    vector accesses, `lgkmcnt(0)` everything), refuse an instruction that reads or writes a destination
    register of a load still in that list, refuse a memory access while a store is in the list and a
    store while anything is — implies the address-exact check next to the emulator, provided no FLAT
    instruction is executed with EXEC = 0 (`noEmptyRun`; see `vmcnt_skips_empty_access`). -/
theorem static_check_sound (P : Prog) (is : List Inst) (pc : Nat) (regs : RF) (mem : Mem)
    (hsl : StraightLine P pc is) (hreg : ∀ i ∈ is, ∀ j ∈ is, i.region = j.region)
    (hc : hcheck is = true) (hne : noEmptyRun P is.length (einit pc regs mem) = true) :
    hazardFreeRun P is.length (einit pc regs mem, {}) = true :=
  static_sound_aux is hreg is (einit pc regs mem) {} {} (fun _ h => h) (by intro q hq; simp at hq)
    ⟨rfl, rfl⟩ rfl hsl hc hne

/-- non-vacuity: the load / wait / xor / store kernel `csGood` at 0x1000 meets every hypothesis -/
example : StraightLine PGood 0x1000 (csGood.map compile) :=
  cprog_straightLine 0x1000 csGood noForeign (by decide) (by decide +kernel)
    (by intro c hc; simp only [csGood, List.mem_cons, List.not_mem_nil, or_false] at hc
        rcases hc with rfl | rfl | rfl | rfl | rfl | rfl | rfl | rfl | rfl <;> simp [compile])
    ⟨.endp, by decide, rfl⟩
example : ∀ i ∈ csGood.map compile, ∀ j ∈ csGood.map compile, i.region = j.region := by
  intro i hi j hj
  simp only [List.mem_map] at hi hj
  obtain ⟨c, _, rfl⟩ := hi
  obtain ⟨c', _, rfl⟩ := hj
  cases c <;> cases c' <;> rfl
example : hcheck (csGood.map compile) = true := by decide +kernel
example : noEmptyRun PGood (csGood.map compile).length (einit 0x1000 demoRegs demoMem) = true := by decide +kernel

/-- **straightline_program_static_check.** The simulation theorem with the hazard hypothesis in its
    static form: a straight-line kernel that passes `hcheck` and never issues a FLAT instruction with
    EXEC = 0 gives, on every schedule of the timing compute unit that completes, the emulator's final
    registers, owned memory and executed-instruction sequence. -/
theorem straightline_program_static_check (P : Prog) (hP : P.WF) (gate : TState → Inst → Bool)
    (is : List Inst) (pc : Nat) (regs : RF) (mem : Mem)
    (hsl : StraightLine P pc is) (hreg : ∀ i ∈ is, ∀ j ∈ is, i.region = j.region)
    (hc : hcheck is = true) (hne : noEmptyRun P is.length (einit pc regs mem) = true)
    (evs : List Ev) (T : TState) (hrun : trun P gate (tinit pc regs mem) evs = some T)
    (hdone : T.ph = .done) :
    ∃ n E, erun P n (einit pc regs mem) = some E ∧ E.done = true ∧ T.regs = E.regs ∧
      (∀ a, P.own a = true → T.mem a = E.mem a) ∧ T.trace = E.trace :=
  wavefront_timing_equals_emulator P hP gate pc regs mem is.length
    (static_check_sound P is pc regs mem hsl hreg hc hne) evs T hrun hdone

end C02.Wf
