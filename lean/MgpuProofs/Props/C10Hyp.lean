import MgpuProofs.Props.C10Run
import MgpuProofs.C10BuddyAny
/-!
# C10 — every remaining hypothesis is either removed or shown necessary by a kernel-checked witness

* `Cfg` (device sizes are page multiples): necessary — `inv_init_any_size_full_refuted` (replayed: `c10 reg`).
* `MigsOK`: necessary — `mig_any_target_full_refuted` (Props/C10Run.lean, replayed).
* `SingleProc`: necessary for mirror agreement / Free — `free_no_crash_full_refuted`, `mirror_agrees_full_refuted`,
  `freed_buffers_unmapped_full_refuted` (replayed); NOT needed for no-aliasing, conservation, buffer disjointness.
* `Disciplined`: necessary for "live buffers are mapped" and "Free of a live buffer cannot panic" —
  `live_buffers_mapped_full_refuted`, `free_live_full_refuted` below (replayed); NOT needed for
  `freed_buffers_unmapped` (Props/C10Freed.lean).
* buddy: `legal` — REMOVED (`buddy_disjoint_any_history`); device size `4096 * 2^F` — necessary
  (`buddy_aligned_any_size_full_refuted`, replayed); `AmPos` (requests of at least one page) — was necessary for the code before the zero-page repair (`buddy_round_trip_full_before_fix_refuted`) and is REMOVED for the repaired code (`buddy_round_trip_full_holds`).
-/
namespace C10

/-- the invariant after Build + RegisterGPU for ANY sizes (only a positive page size) — FALSE -/
def inv_init_any_size_full : Prop := ∀ (ps cpu : Nat) (gpus : List Nat), 0 < ps → Inv (initState ps cpu gpus)

/-- Witness: a GPU of 6000 bytes with 4 KiB pages. `setInitialAddress` queues the page 0x3000, which ends at 0x4000,
beyond the device [0x2000, 0x3770); the next device starts at 0x3770, inside that page. -/
theorem inv_init_any_size_full_refuted : ¬ inv_init_any_size_full := by
  intro h
  have hI := h 4096 4096 [6000, 4096] (by decide)
  obtain ⟨_, d, hd, _, hle⟩ := hI.phys.freeInDev 1 [0x2000, 0x3000] (by decide) 0x3000 (by decide)
  have hd' : d = { kind := .gpu, base := 0x2000, size := 6000, actual := [] } := by
    have : (some d : Option Dev) = some { kind := .gpu, base := 0x2000, size := 6000, actual := [] } := by
      rw [← hd]; rfl
    injection this
  subst hd'
  revert hle
  decide

/-- the overlapping pages of the witness: 0x3000 (device 1) and 0x3770 (device 2) share bytes -/
example : (initState 4096 4096 [6000, 4096]).pool.frees = [[0x1000], [0x2000, 0x3000], [0x3770]] ∧
    (0x3770 : Nat) < 0x3000 + 4096 := by decide

/-- "every live buffer is mapped" for a single process but WITHOUT caller discipline — FALSE -/
def live_buffers_mapped_full : Prop :=
  ∀ (ops : List Op) (s : State), Valid 1 ops → run (initState 4096 4096 [8192]) ops = .ok s →
    ∀ c ∈ s.ctxs, ∀ b ∈ c.bufs, b.freed = false → ∀ v ∈ bufPages s.ps b, ∃ e ∈ s.pt, e.pid = c.pid ∧ e.vaddr = v

/-- two contexts of one process; the second frees the buffer of the first -/
def otherCtxFreeOps : List Op := [.init, .initpid 0, .alloc 0 100, .free 1 4096]

theorem otherCtxFree_valid : Valid 1 otherCtxFreeOps := by
  constructor
  · intro op hop
    simp [otherCtxFreeOps] at hop
    rcases hop with rfl | rfl | rfl | rfl <;> simp [MigOK]
  · unfold SingleProc; decide

def otherCtxState : State :=
  match run (initState 4096 4096 [8192]) otherCtxFreeOps with
  | .ok s => s
  | .error _ => initBase 0

theorem otherCtx_run : run (initState 4096 4096 [8192]) otherCtxFreeOps = .ok otherCtxState := rfl

/-- Witness: `FreeMemory(ctx1, ptr)` with the pointer of a buffer of `ctx0` (same process) succeeds and unmaps the
page; the buffer is still listed as live in `ctx0`. (A misuse of the API, not a defect: the discipline hypothesis
is what excludes it.) -/
theorem live_buffers_mapped_full_refuted : ¬ live_buffers_mapped_full := by
  intro h
  have hc : otherCtxState.ctxs[0]? = some { pid := 1, gpu := 1, bufs := [⟨4096, 100, false⟩] } := rfl
  obtain ⟨e, he, _, _⟩ := h otherCtxFreeOps _ otherCtxFree_valid otherCtx_run
    { pid := 1, gpu := 1, bufs := [⟨4096, 100, false⟩] } (List.mem_of_getElem? hc) ⟨4096, 100, false⟩
    (List.mem_singleton.mpr rfl) rfl 4096 (by decide)
  have hpt : otherCtxState.pt = [] := by decide
  rw [hpt] at he
  cases he

/-- "Free of a live buffer of the calling context cannot panic" for a single process WITHOUT discipline of the
earlier history — FALSE: after the witness above `FreeMemory(ctx0, ptr)` panics `page does not exist`. -/
def free_live_full : Prop :=
  ∀ (ops : List Op) (s : State), Valid 1 ops → run (initState 4096 4096 [8192]) ops = .ok s →
    ∀ c cx b, s.ctxs[c]? = some cx → b ∈ cx.bufs → b.freed = false → ∃ r s', step s (.free c b.vaddr) = .ok (r, s')

theorem free_live_full_refuted : ¬ free_live_full := by
  intro h
  obtain ⟨r, s', hs⟩ := h otherCtxFreeOps _ otherCtxFree_valid otherCtx_run 0
    { pid := 1, gpu := 1, bufs := [⟨4096, 100, false⟩] } ⟨4096, 100, false⟩ rfl (List.mem_singleton.mpr rfl) rfl
  have hfalse : (match step otherCtxState (.free 0 4096) with | .ok _ => true | .error _ => false) = false := by
    decide
  rw [hs] at hfalse
  simp at hfalse

/-- the discipline hypothesis is violated exactly at the last op of the witness -/
example : disciplinedB (initState 4096 4096 [8192]) otherCtxFreeOps = false ∧
    disciplinedB (initState 4096 4096 [8192]) (otherCtxFreeOps.take 3) = true := by decide

namespace Buddy

/-- **The safety statement holds for ALL histories — the hypothesis `legal` is not needed.** On a device of
`4096 * 2^F` bytes, after ANY sequence of allocation bursts, multi-page requests and frees of ARBITRARY pages
(never handed out, already returned, returned twice, outside the device: `addSinglePAddr` ignores a page without
a tracker entry), up to the first fault: no page that was handed out and not named by a later free lies inside
a free block, and the free blocks are pairwise disjoint and listed once. -/
theorem buddy_disjoint_any_history (F base : Nat) (ops : List Op) :
    NoLiveInFree (runAny (init base (4096 * 2 ^ F)) [] ops).2 (runAny (init base (4096 * 2 ^ F)) [] ops).1 ∧
    FreeDisjoint (runAny (init base (4096 * 2 ^ F)) [] ops).2 :=
  runAny_safe F base ops

/-- non-vacuity: a history that frees a page twice, a page never handed out and a page outside the device, and
goes on allocating — `runLive` would have stopped at the first of them -/
example :
    (runLive (init 0x5000 (4096 * 2 ^ 2)) [] [.pop 2, .add [0x5000], .add [0x5000, 0x8000, 0x99000], .pop 1]).legal = false ∧
    (runAny (init 0x5000 (4096 * 2 ^ 2)) [] [.pop 2, .add [0x5000], .add [0x5000, 0x8000, 0x99000], .pop 1]).1 = [0x6000, 0x5000] ∧
    (runAny (init 0x5000 (4096 * 2 ^ 2)) [] [.pop 2, .add [0x5000], .add [0x5000, 0x8000, 0x99000], .pop 1]).2.free =
      [[], [0x7000], []] := by
  decide +kernel

/-- "pages handed out by allocation-only histories are 4096 bytes apart" for ANY device size — FALSE -/
def buddy_aligned_any_size_full : Prop :=
  ∀ (size base : Nat) (ops : List Op), ops.all Op.isAlloc = true →
    ∀ p ∈ (runOut (init base size) ops).1, ∀ q ∈ (runOut (init base size) ops).1, p ≠ q → p + 4096 ≤ q ∨ q + 4096 ≤ p

/-- Witness: a device of 3 pages. `sizeOfLevel` is `12288 / 4 = 3072`, so three single-page requests return
0x5000, 0x5c00 and 0x6800 — unaligned "pages" that overlap each other (the model agrees with the real code on
such sizes: counted by the harness as `buddy.nonpow2.*`; the buddy allocator is selectable only through an internal
variable, with the power-of-two sizes the platforms configure). -/
theorem buddy_aligned_any_size_full_refuted : ¬ buddy_aligned_any_size_full := by
  intro h
  have := h (3 * 4096) 0x5000 [.pop 1, .pop 1, .pop 1] (by decide) 0x5000 (by decide +kernel) 0x5c00 (by decide +kernel)
    (by decide)
  revert this
  decide

example : (runOut (init 0x5000 (3 * 4096)) [.pop 1, .pop 1, .pop 1]).1 = [0x5000, 0x5c00, 0x6800] := by decide +kernel

end Buddy
end C10
