import MgpuProofs.C18Emu
import MgpuProofs.Props.C18Mem
import MgpuProofs.Props.C01Emu
/-! # C18 — a kernel run does not depend on how its data are spread over GPUs

The workload half of "results do not depend on how data are spread over GPUs", for the executable
emulator of C01. `MgpuModel/C18_Emu.lean` runs the emulator's own instruction step on the multi-GPU
memory of `C18_Mem.lean`: any page table into global physical pages, one DRAM per GPU, every byte an
instruction (or the driver's launch copy) writes routed through `locate` from the GPU that executes the
work-group. Proved here, for every platform (page size, bank size, GPU count), every placement that is
injective on frames with all frame bytes in GPU banks (`GoodPlacement`), every program, dispatch, fuel
and every assignment of work-groups to GPUs:

* `emu_step_reads_placed` — the invariant: the view an instruction reads is what the owner GPUs' DRAMs
  hold (a load from any GPU returns the view's bytes), and every instruction preserves this;
* `emu_placed_sim` — a placed run ends exactly like the flat run (same memory, same fault) or stops at an
  unmapped page; nothing else can happen (no `bounds` / `cpu` / `loop` routing fault, no other result);
* `workload_placement_invariant` — two platforms, two placements, two work distributions: same final
  memory, byte for byte; `workload_placement_total` — and the placed run does end well whenever the flat
  one does and everything it writes is mapped;
* `emu_run_placed` — the same for `Emu.run`, the function the `c01 emu` correspondence cases execute;
* `memcopy_kernel_placed` — instance: the driver's `copyKernel` (program proof of C01) on placed memory. -/
namespace C18
open C01.Emu (Mem Program Dispatch Wave)

/-! ## The invariant of a placed run -/

/-- **emu_step_reads_placed.** In a placed state whose DRAMs agree with the emulator's view (`Agree`: the
byte of every mapped virtual address is in the DRAM of the owner bank of its physical address) under a good
placement: (a) a load of `n` mapped bytes at `v` issued by *any* GPU `g'` — routed byte by byte through
`locate` — returns exactly the bytes the instruction reads from its view `st.mem`; (b) one instruction of
the placed machine that ends well is the flat emulator's instruction (same registers, same control
outcome) and leaves DRAMs that agree with the new view. So "what every instruction reads from its view is
what the owner GPU's DRAM holds" is an invariant of every placed run, not an assumption. -/
theorem emu_step_reads_placed (c : MemCfg) (pt : PageTable) (g : Nat) (hP : 0 < c.P) (hS : 0 < c.S)
    (hg : GoodPlacement c pt) (P : Program) (base : Nat) (st : WSt) (d : DRAM) (ha : Agree c pt st.mem d) :
    (∀ g' v n, (∀ i, i < n → (pt.lookup ((v + i) / c.P)).isSome = true) →
      loadBytes c pt g' d v n = .ok ((List.range n).map fun i => C03V.lookup st.mem (v + i))) ∧
    (∀ st' ctl d', stepP c pt g P base st d = .ok (st', ctl, d') →
      C01.Emu.step P base st = .ok (st', ctl) ∧ Agree c pt st'.mem d') := by
  refine ⟨fun g' v n hm => agree_loads c pt hP hS hg st.mem d ha g' v n hm, ?_⟩
  intro st' ctl d' h
  have hs := stepP_sim c pt g hP hS hg P base st d ha
  rw [h] at hs
  exact hs

/-- **emu_step_placed_cases.** One placed instruction, all outcomes: it is the flat instruction with
agreeing DRAMs, or the flat emulator faults with the same reason, or a written byte lies in an unmapped
page. A good placement never produces a `bounds`, `cpu` or `loop` routing fault. -/
theorem emu_step_placed_cases (c : MemCfg) (pt : PageTable) (g : Nat) (hP : 0 < c.P) (hS : 0 < c.S)
    (hg : GoodPlacement c pt) (P : Program) (base : Nat) (st : WSt) (d : DRAM) (ha : Agree c pt st.mem d) :
    match stepP c pt g P base st d with
    | .ok (st', ctl, d') => C01.Emu.step P base st = .ok (st', ctl) ∧ Agree c pt st'.mem d'
    | .error (.emu e) => C01.Emu.step P base st = .error e
    | .error (.mem f) => f = .page :=
  stepP_sim c pt g hP hS hg P base st d ha

/-- **emu_step_only_prepends.** The fact the construction rests on: an instruction of the emulator changes
its memory only by prepending bindings, so `newWrites` recovers exactly the bytes the instruction wrote. -/
theorem emu_step_only_prepends (P : Program) (base : Nat) (st st' : WSt) (ctl : ECtl)
    (h : C01.Emu.step P base st = .ok (st', ctl)) :
    ∃ W, st'.mem = W ++ st.mem ∧ newWrites st.mem st'.mem = W := by
  obtain ⟨W, hW⟩ := step_mem_grows P base st st' ctl h
  exact ⟨W, hW, by rw [hW]; exact newWrites_append W st.mem⟩

/-- **commit_keeps_agreement.** Committing a list of byte writes from any GPU `g` under a good placement
keeps the DRAMs in agreement with the view extended by these writes; it can only fail on an unmapped page,
and does not fail when all written pages are mapped. -/
theorem commit_keeps_agreement (c : MemCfg) (pt : PageTable) (g : Nat) (hP : 0 < c.P) (hS : 0 < c.S)
    (hg : GoodPlacement c pt) (W m : Mem) (d : DRAM) (ha : Agree c pt m d) :
    (∀ d', commit c pt g W d = .ok d' → Agree c pt (W ++ m) d') ∧
    (∀ f, commit c pt g W d = .error f → f = .page) ∧
    ((∀ w ∈ W, (pt.lookup (w.1 / c.P)).isSome = true) → ∃ d', commit c pt g W d = .ok d') :=
  ⟨fun d' h => commit_agree c pt g hP hS hg W m d d' ha h, fun f h => commit_error_page c pt g hP hS hg W d f h,
    fun h => commit_ok_of_mapped c pt g hP hS hg W d h⟩

/-! ## A whole kernel run -/

/-- **emu_placed_sim.** A kernel run on placed memory — whatever the (good) placement, whichever GPU's
DMA engine performs the launch copies and whichever GPU runs each work-group — either computes exactly the
flat emulator's final memory, held by the owners' DRAMs (`Agree`), or faults exactly like the flat
emulator (same reason), or stops at an unmapped page; nothing else. -/
theorem emu_placed_sim (c : MemCfg) (pt : PageTable) (g0 : Nat) (gOf : Nat → Nat) (P : Program) (D : Dispatch)
    (fuel : Nat) (m : Mem) (d : DRAM) (hP : 0 < c.P) (hS : 0 < c.S) (hg : GoodPlacement c pt)
    (ha : Agree c pt m d) :
    match runEP c pt g0 gOf P D fuel m d with
    | .ok (m', d') => C01.Emu.runE P D fuel m = .ok m' ∧ Agree c pt m' d'
    | .error (.emu e) => C01.Emu.runE P D fuel m = .error e
    | .error (.mem f) => f = .page :=
  runEP_sim c pt g0 gOf hP hS hg P D fuel m d ha

/-- **workload_placement_invariant.** Two platforms, two good placements, two assignments of the launch
copies and of the work-groups to GPUs, DRAMs that hold the same initial virtual memory `m`: if both placed
runs end well, their final virtual memories are equal, equal to the flat (single-memory, single-GPU)
emulator's result, and every virtual byte mapped under both placements has the same value in the DRAM of
its owner on either platform. The result of the workload does not depend on how its data are spread over
GPUs nor on where its work-groups run. -/
theorem workload_placement_invariant (c1 c2 : MemCfg) (pt1 pt2 : PageTable) (g01 g02 : Nat) (gOf1 gOf2 : Nat → Nat)
    (P : Program) (D : Dispatch) (fuel : Nat) (m : Mem) (d1 d2 d1' d2' : DRAM) (m1' m2' : Mem)
    (hP1 : 0 < c1.P) (hS1 : 0 < c1.S) (hP2 : 0 < c2.P) (hS2 : 0 < c2.S)
    (hg1 : GoodPlacement c1 pt1) (hg2 : GoodPlacement c2 pt2)
    (ha1 : Agree c1 pt1 m d1) (ha2 : Agree c2 pt2 m d2)
    (h1 : runEP c1 pt1 g01 gOf1 P D fuel m d1 = .ok (m1', d1'))
    (h2 : runEP c2 pt2 g02 gOf2 P D fuel m d2 = .ok (m2', d2')) :
    m1' = m2' ∧ C01.Emu.runE P D fuel m = .ok m1' ∧
    ∀ v pa1 pa2, translate c1 pt1 v = some pa1 → translate c2 pt2 v = some pa2 →
      d1' (bank c1.S pa1) pa1 = d2' (bank c2.S pa2) pa2 := by
  have s1 := runEP_sim c1 pt1 g01 gOf1 hP1 hS1 hg1 P D fuel m d1 ha1
  have s2 := runEP_sim c2 pt2 g02 gOf2 hP2 hS2 hg2 P D fuel m d2 ha2
  rw [h1] at s1
  rw [h2] at s2
  obtain ⟨r1, a1⟩ := s1
  obtain ⟨r2, a2⟩ := s2
  have e : m1' = m2' := by
    rw [r1] at r2
    injection r2
  subst e
  exact ⟨rfl, r1, fun v pa1 pa2 t1 t2 => by rw [a1 v pa1 t1, a2 v pa2 t2]⟩

/-- **workload_placement_total.** The converse direction: if the flat emulator ends well with memory `m'`
and every address it wrote (the bindings `m'` has in front of `m`: launch copies and stores) lies in a
mapped page, then the placed run — under any good placement and any assignment of work to GPUs — ends
well too, with the same memory, held by the owners' DRAMs. Together with `emu_placed_sim`: on mapped
data the placed machine and the flat emulator are the same function. -/
theorem workload_placement_total (c : MemCfg) (pt : PageTable) (g0 : Nat) (gOf : Nat → Nat) (P : Program)
    (D : Dispatch) (fuel : Nat) (m m' : Mem) (d : DRAM) (hP : 0 < c.P) (hS : 0 < c.S) (hg : GoodPlacement c pt)
    (ha : Agree c pt m d) (h : C01.Emu.runE P D fuel m = .ok m')
    (hm : ∀ a ∈ (newWrites m m').map (·.1), (pt.lookup (a / c.P)).isSome = true) :
    ∃ d', runEP c pt g0 gOf P D fuel m d = .ok (m', d') ∧ Agree c pt m' d' := by
  have hm' : WritesMapped c pt m m' := fun w hw => hm w.1 (List.mem_map.mpr ⟨w, hw, rfl⟩)
  obtain ⟨d', hd'⟩ := runEP_total c pt g0 gOf hP hS hg P D fuel m m' d h hm'
  have s := runEP_sim c pt g0 gOf hP hS hg P D fuel m d ha
  rw [hd'] at s
  exact ⟨d', hd', s.2⟩

/-- **emu_run_grows.** What "every address it wrote" means in `workload_placement_total`: a flat run that
ends well returns its initial memory with bindings prepended, and `newWrites` is exactly that prefix. -/
theorem emu_run_grows (P : Program) (D : Dispatch) (fuel : Nat) (m m' : Mem)
    (h : C01.Emu.runE P D fuel m = .ok m') : ∃ W, m' = W ++ m ∧ newWrites m m' = W := by
  obtain ⟨W, hW⟩ := runE_grows P D fuel m m' h
  exact ⟨W, hW, by rw [hW]; exact newWrites_append W m⟩

/-- **emu_run_placed.** The same for `C01.Emu.run` (the function the `c01 emu` correspondence cases
execute against the real emulator): when the placed run with `run`'s fuel ends well, its memory is
`Emu.run`'s result and the owners' DRAMs hold it. -/
theorem emu_run_placed (c : MemCfg) (pt : PageTable) (g0 : Nat) (gOf : Nat → Nat) (P : Program) (D : Dispatch)
    (m m' : Mem) (d d' : DRAM) (hP : 0 < c.P) (hS : 0 < c.S) (hg : GoodPlacement c pt) (ha : Agree c pt m d)
    (h : runEP c pt g0 gOf P D C01.Emu.defaultFuel m d = .ok (m', d')) :
    C01.Emu.run P D m = m' ∧ Agree c pt m' d' := by
  have s := runEP_sim c pt g0 gOf hP hS hg P D C01.Emu.defaultFuel m d ha
  rw [h] at s
  refine ⟨?_, s.2⟩
  unfold C01.Emu.run
  rw [s.1]

/-- **emu_run_placement_invariant.** `Emu.run`'s result read back from two different platforms /
placements / work distributions: every virtual byte mapped under both has the same value, namely
`Emu.run`'s. -/
theorem emu_run_placement_invariant (c1 c2 : MemCfg) (pt1 pt2 : PageTable) (g01 g02 : Nat) (gOf1 gOf2 : Nat → Nat)
    (P : Program) (D : Dispatch) (m : Mem) (d1 d2 d1' d2' : DRAM) (m1' m2' : Mem)
    (hP1 : 0 < c1.P) (hS1 : 0 < c1.S) (hP2 : 0 < c2.P) (hS2 : 0 < c2.S)
    (hg1 : GoodPlacement c1 pt1) (hg2 : GoodPlacement c2 pt2)
    (ha1 : Agree c1 pt1 m d1) (ha2 : Agree c2 pt2 m d2)
    (h1 : runEP c1 pt1 g01 gOf1 P D C01.Emu.defaultFuel m d1 = .ok (m1', d1'))
    (h2 : runEP c2 pt2 g02 gOf2 P D C01.Emu.defaultFuel m d2 = .ok (m2', d2')) :
    ∀ v pa1 pa2, translate c1 pt1 v = some pa1 → translate c2 pt2 v = some pa2 →
      d1' (bank c1.S pa1) pa1 = C03V.lookup (C01.Emu.run P D m) v ∧
      d2' (bank c2.S pa2) pa2 = C03V.lookup (C01.Emu.run P D m) v := by
  obtain ⟨r1, a1⟩ := emu_run_placed c1 pt1 g01 gOf1 P D m m1' d1 d1' hP1 hS1 hg1 ha1 h1
  obtain ⟨r2, a2⟩ := emu_run_placed c2 pt2 g02 gOf2 P D m m2' d2 d2' hP2 hS2 hg2 ha2 h2
  intro v pa1 pa2 t1 t2
  exact ⟨by rw [a1 v pa1 t1, r1], by rw [a2 v pa2 t2, r2]⟩

/-! ## Instance: the driver's copy kernel on placed memory -/

/-- **memcopy_kernel_placed.** The driver's `copyKernel` (the 27 GCN3 instructions of `memcopy.hsaco`, whose
program proof is `C01.Emu.copyKernel_correct`) launched on placed memory, for every valid launch
configuration `k`, every good placement and every assignment of its work-groups to GPUs: the placed run
cannot end in an emulator fault; if it ends well its memory is the flat result, and each of the `4·K`
copied destination bytes that is mapped sits in the DRAM of the owner of its physical address and equals
the source byte of the launch memory — wherever source and destination pages were placed. -/
theorem memcopy_kernel_placed (c : MemCfg) (pt : PageTable) (g0 : Nat) (gOf : Nat → Nat)
    (hP : 0 < c.P) (hS : 0 < c.S) (hg : GoodPlacement c pt)
    (k : C01.Emu.Copy.Cfg) (hv : k.Valid) (hG : 0 < k.G) (tail pk : List Nat) (m : Mem) (fuel : Nat)
    (hpk : 8 ≤ pk.length) (h4 : pk.getD 4 0 = 64) (h5 : pk.getD 5 0 = 0)
    (hsep : k.ka + 32 ≤ k.pa ∨ k.pa + pk.length ≤ k.ka) (hsrc : k.src < 2 ^ 64) (hdst : k.dst < 2 ^ 64)
    (hbytes : ∀ i, i < 4 * k.K → C01.Emu.get (C01.Emu.Copy.launchMem k tail pk m) (k.src + i) < 256)
    (d : DRAM) (ha : Agree c pt m d) :
    (∀ e, runEP c pt g0 gOf C01.Emu.Copy.P (C01.Emu.Copy.disp k (C01.Emu.Copy.kernargImage k ++ tail) pk)
        (fuel + 27) m d ≠ .error (.emu e)) ∧
    (∀ m'' d', runEP c pt g0 gOf C01.Emu.Copy.P (C01.Emu.Copy.disp k (C01.Emu.Copy.kernargImage k ++ tail) pk)
        (fuel + 27) m d = .ok (m'', d') →
      Agree c pt m'' d' ∧
      ∀ i, i < 4 * k.K → ∀ pa, translate c pt (k.dst + i) = some pa →
        d' (bank c.S pa) pa = C01.Emu.get (C01.Emu.Copy.launchMem k tail pk m) (k.src + i)) := by
  obtain ⟨m', hrun, hcopy, _⟩ := C01.Emu.copyKernel_correct k hv hG tail pk m fuel hpk h4 h5 hsep hsrc hdst hbytes
  have s := runEP_sim c pt g0 gOf hP hS hg C01.Emu.Copy.P
    (C01.Emu.Copy.disp k (C01.Emu.Copy.kernargImage k ++ tail) pk) (fuel + 27) m d ha
  constructor
  · intro e he
    rw [he] at s
    dsimp only at s
    rw [hrun] at s
    cases s
  · intro m'' d' hok
    rw [hok] at s
    obtain ⟨r, a⟩ := s
    rw [hrun] at r
    injection r with r
    subst r
    refine ⟨a, fun i hi pa hpa => ?_⟩
    rw [a _ pa hpa]
    exact hcopy i hi

/-- **memcopy_kernel_placed_total.** And it does end well when everything the launch and the kernel write
(kernel arguments, packet, destination dwords) is mapped: the placed copy kernel terminates with the
destination bytes equal to the source bytes in the owners' DRAMs. -/
theorem memcopy_kernel_placed_total (c : MemCfg) (pt : PageTable) (g0 : Nat) (gOf : Nat → Nat)
    (hP : 0 < c.P) (hS : 0 < c.S) (hg : GoodPlacement c pt)
    (k : C01.Emu.Copy.Cfg) (hv : k.Valid) (hG : 0 < k.G) (tail pk : List Nat) (m : Mem) (fuel : Nat)
    (hpk : 8 ≤ pk.length) (h4 : pk.getD 4 0 = 64) (h5 : pk.getD 5 0 = 0)
    (hsep : k.ka + 32 ≤ k.pa ∨ k.pa + pk.length ≤ k.ka) (hsrc : k.src < 2 ^ 64) (hdst : k.dst < 2 ^ 64)
    (hbytes : ∀ i, i < 4 * k.K → C01.Emu.get (C01.Emu.Copy.launchMem k tail pk m) (k.src + i) < 256)
    (d : DRAM) (ha : Agree c pt m d)
    (hm : ∀ m', C01.Emu.runE C01.Emu.Copy.P (C01.Emu.Copy.disp k (C01.Emu.Copy.kernargImage k ++ tail) pk)
        (fuel + 27) m = .ok m' → ∀ a ∈ (newWrites m m').map (·.1), (pt.lookup (a / c.P)).isSome = true) :
    ∃ m'' d', runEP c pt g0 gOf C01.Emu.Copy.P (C01.Emu.Copy.disp k (C01.Emu.Copy.kernargImage k ++ tail) pk)
        (fuel + 27) m d = .ok (m'', d') ∧ Agree c pt m'' d' ∧
      ∀ i, i < 4 * k.K → ∀ pa, translate c pt (k.dst + i) = some pa →
        d' (bank c.S pa) pa = C01.Emu.get (C01.Emu.Copy.launchMem k tail pk m) (k.src + i) := by
  obtain ⟨m', hrun, hcopy, _⟩ := C01.Emu.copyKernel_correct k hv hG tail pk m fuel hpk h4 h5 hsep hsrc hdst hbytes
  obtain ⟨d', hd', a⟩ := workload_placement_total c pt g0 gOf _ _ _ m m' d hP hS hg ha hrun (hm m' hrun)
  refine ⟨m', d', hd', a, fun i hi pa hpa => ?_⟩
  rw [a _ pa hpa]
  exact hcopy i hi

/-! ## The hypotheses are met, the conclusions are not trivial -/

/-- 2 GPUs × 64 bytes, 16-byte pages spread over both GPUs in "wrong" order: the placement is good and
    the empty view agrees with zeroed DRAMs -/
example : GoodPlacement ⟨16, 64, 2⟩ [(0, 7), (1, 8), (2, 5)] ∧
    Agree ⟨16, 64, 2⟩ [(0, 7), (1, 8), (2, 5)] [] (fun _ _ => 0) :=
  ⟨goodPlacement_of_list _ _ (by decide) (by decide), fun _ _ _ => rfl⟩

/-- committing three byte writes (newest first) from GPU 1: virtual 12, 13 are in page 0 → frame 7 →
    physical 124, 125 in GPU 1's bank (local); virtual 17 is in page 1 → frame 8 → physical 129 in GPU 2's
    bank — GPU 1 sends it through the RDMA table and GPU 2's DRAM gets it, GPU 1's does not -/
example : ∃ d', commit ⟨16, 64, 2⟩ [(0, 7), (1, 8), (2, 5)] 1 [(17, 9), (13, 7), (12, 5)] (fun _ _ => 0) = .ok d' ∧
    d' 1 124 = 5 ∧ d' 1 125 = 7 ∧ d' 2 129 = 9 ∧ d' 1 129 = 0 ∧ d' 2 124 = 0 :=
  ⟨_, rfl, by decide⟩

/-- a later write to the same address wins (the list is newest first), as in the emulator's view -/
example : ∃ d', commit ⟨16, 64, 2⟩ [(0, 7), (1, 8), (2, 5)] 2 [(12, 6), (12, 5)] (fun _ _ => 0) = .ok d' ∧
    d' 1 124 = 6 ∧ C03V.lookup [(12, 6), (12, 5)] 12 = 6 :=
  ⟨_, rfl, by decide⟩

/-- the third outcome of `emu_placed_sim` exists: virtual 48 is in the unmapped page 3 -/
example : commit ⟨16, 64, 2⟩ [(0, 7), (1, 8), (2, 5)] 1 [(48, 9), (13, 7)] (fun _ _ => 0) = .error .page := rfl

/-- `newWrites` recovers a prepended prefix -/
example : newWrites [(1, 1)] [(3, 3), (2, 2), (1, 1)] = [(3, 3), (2, 2)] := by decide

/-- the one-instruction program `s_endpgm` (GCN3), grid 64 / work-group 64, kernel arguments `[1,2,3]` at
    virtual 0 (page 0, GPU 1's bank) and packet `[4,5]` at virtual 16 (page 1, GPU 2's bank) -/
def exDispatch : Dispatch :=
  { geo := ⟨64, 1, 1, 64, 1, 1⟩, kernelObject := 0x100, entry := 0, kernargAddr := 0, kernarg := [1, 2, 3],
    packetAddr := 16, packet := [4, 5],
    privSegBuf := false, dispatchPtr := false, queuePtr := false, kernargPtr := false, dispatchID := false,
    flatScratch := false, privSegSize := false, wgCountX := false, wgCountY := false, wgCountZ := false,
    wgIDX := false, wgIDY := false, wgIDZ := false, v5 := false, vgprWI := 0 }

def exProgram : Program := ⟨[0x00, 0x00, 0x81, 0xbf], false⟩

/-- a whole concrete placed run (launch copies by GPU 1, the work-group on GPU 2) evaluated by the kernel:
    it ends well, the view is the launch memory, the packet bytes are in GPU 2's DRAM, the kernel
    arguments in GPU 1's, nothing else is written -/
example :
    (match runEP ⟨16, 64, 2⟩ [(0, 7), (1, 8), (2, 5)] 1 (fun _ => 2) exProgram exDispatch 2 [] (fun _ _ => 0) with
     | .ok (m', d') => m' == [(16, 4), (17, 5), (0, 1), (1, 2), (2, 3)] && d' 2 128 == 4 && d' 2 129 == 5 &&
         d' 1 112 == 1 && d' 1 113 == 2 && d' 1 114 == 3 && d' 1 128 == 0 && d' 2 112 == 0
     | .error _ => false) = true := by
  decide +kernel

set_option maxRecDepth 100000 in
/-- the flat emulator on the same dispatch: the same memory (the first case of `emu_placed_sim`) -/
example : C01.Emu.runE exProgram exDispatch 2 [] = .ok [(16, 4), (17, 5), (0, 1), (1, 2), (2, 3)] := rfl

set_option maxRecDepth 100000 in
/-- the placed run in the form of `emu_placed_sim`'s first case: it is `.ok` with the flat memory, and the
    DRAM cells of the owners hold the bytes -/
example : ∃ d', runEP ⟨16, 64, 2⟩ [(0, 7), (1, 8), (2, 5)] 1 (fun _ => 2) exProgram exDispatch 2 [] (fun _ _ => 0) =
      .ok ([(16, 4), (17, 5), (0, 1), (1, 2), (2, 3)], d') ∧
    d' 2 128 = 4 ∧ d' 2 129 = 5 ∧ d' 1 112 = 1 ∧ d' 1 113 = 2 ∧ d' 1 114 = 3 ∧ d' 1 128 = 0 :=
  ⟨_, rfl, by decide⟩

/-- the same run on another platform (3 GPUs × 32 bytes, 8-byte pages, other frames) with the launch
    copies by GPU 3 and the work-group on GPU 1: same view; the bytes are in other DRAMs -/
example :
    (match runEP ⟨8, 32, 3⟩ [(0, 13), (1, 4), (2, 9)] 3 (fun _ => 1) exProgram exDispatch 2 [] (fun _ _ => 0) with
     | .ok (m', d') => m' == [(16, 4), (17, 5), (0, 1), (1, 2), (2, 3)] && d' 2 72 == 4 && d' 2 73 == 5 &&
         d' 3 104 == 1 && d' 3 106 == 3
     | .error _ => false) = true := by
  decide +kernel

set_option maxRecDepth 100000 in
/-- all hypotheses of `workload_placement_invariant` hold together on the two platforms above (good
    placements, agreeing initial DRAMs, both placed runs end well), and those of `workload_placement_total`
    (the flat run ends well and all it wrote — five launch bytes — is mapped) -/
example : ∃ m' d1' d2',
    GoodPlacement ⟨16, 64, 2⟩ [(0, 7), (1, 8), (2, 5)] ∧ GoodPlacement ⟨8, 32, 3⟩ [(0, 13), (1, 4), (2, 9)] ∧
    Agree ⟨16, 64, 2⟩ [(0, 7), (1, 8), (2, 5)] [] (fun _ _ => 0) ∧
    Agree ⟨8, 32, 3⟩ [(0, 13), (1, 4), (2, 9)] [] (fun _ _ => 0) ∧
    runEP ⟨16, 64, 2⟩ [(0, 7), (1, 8), (2, 5)] 1 (fun _ => 2) exProgram exDispatch 2 [] (fun _ _ => 0) = .ok (m', d1') ∧
    runEP ⟨8, 32, 3⟩ [(0, 13), (1, 4), (2, 9)] 3 (fun _ => 1) exProgram exDispatch 2 [] (fun _ _ => 0) = .ok (m', d2') ∧
    C01.Emu.runE exProgram exDispatch 2 [] = .ok m' ∧
    (∀ a ∈ (newWrites [] m').map (·.1), (List.lookup (a / 16) [(0, 7), (1, 8), (2, 5)]).isSome = true) ∧
    d1' 2 128 = 4 ∧ d2' 2 72 = 4 :=
  ⟨[(16, 4), (17, 5), (0, 1), (1, 2), (2, 3)], _, _,
    goodPlacement_of_list _ _ (by decide) (by decide), goodPlacement_of_list _ _ (by decide) (by decide),
    fun _ _ _ => rfl, fun _ _ _ => rfl, rfl, rfl, rfl, by decide, by decide, by decide⟩

set_option maxRecDepth 100000 in
/-- both faulting outcomes of `emu_placed_sim` on concrete runs: with the packet at an unmapped address
    the placed run stops with `page`; with one instruction of fuel too few both machines stop with the
    emulator's reason -/
example :
    runEP ⟨16, 64, 2⟩ [(0, 7)] 1 (fun _ => 2) exProgram exDispatch 2 [] (fun _ _ => 0) = .error (.mem .page) ∧
    runEP ⟨16, 64, 2⟩ [(0, 7), (1, 8), (2, 5)] 1 (fun _ => 2) exProgram exDispatch 0 [] (fun _ _ => 0) =
      .error (.emu "rounds") ∧
    C01.Emu.runE exProgram exDispatch 0 [] = .error "rounds" :=
  ⟨rfl, rfl, rfl⟩

/-- `memcopy_kernel_placed` has instances: the launch configuration of C01's harness runs is valid -/
example : (C01.Emu.Copy.d2dCfg 0x3000 0x4000 0x5000 0x1000 0x2000 5).Valid :=
  ⟨by decide, by decide, by decide, by decide, by decide, by decide, by decide, by decide, by decide,
   fun a h => by simp only [C01.Emu.Copy.Cfg.inDst, C01.Emu.Copy.Cfg.K, C01.Emu.Copy.d2dCfg] at h ⊢; omega,
   fun a h => by simp only [C01.Emu.Copy.Cfg.inDst, C01.Emu.Copy.Cfg.K, C01.Emu.Copy.d2dCfg] at h ⊢; omega,
   fun a h => by simp only [C01.Emu.Copy.Cfg.inDst, C01.Emu.Copy.Cfg.K, C01.Emu.Copy.d2dCfg] at h ⊢; omega⟩

end C18
