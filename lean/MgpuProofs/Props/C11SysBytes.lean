import MgpuProofs.Props.C11Sys
import MgpuProofs.C11SysTx
import MgpuProofs.C11SysRound
/-! # C11 — the closed copy system, byte by byte

What the memory transactions of the closed system (`MgpuModel/C11Sys.lean`) mean for the bytes of a
copy, through the page table: soundness and frame of every write, coverage for a completed
host-to-device copy, provenance of every byte a device-to-host copy returns. `PtInj c.pt` (pages
pairwise disjoint virtually and physically) is C10's allocator invariant; `roundtrip_needs_injective`
(`Props/C11Hyp.lean`) shows it cannot be dropped. -/
namespace C11

/-- **Every write the copy path performs is a byte of a host-to-device copy at the physical image
    of its place in the range — nothing else is ever written (frame).** In every reachable state of
    the closed system, every write transaction the memory has performed belongs to a host-to-device
    copy command `cmd`; it stores exactly `t.len` bytes; and byte `j` of it goes to the physical
    address `t.addr + j` which is the page-table image of virtual address `cmd.addr + i` for an
    `i < cmd.len`, and IS byte `i` of the command's host data. So no device byte outside the image of
    a copied range is ever changed by the DMA copy path, whatever the interleaving of queues, flushes
    and concurrent copies. -/
theorem sys_writes_only_copy_bytes (c : SysCfg) (hinj : PtInj c.pt) (ops : List SysOp) :
    let s := reachSys c ops
    ∀ t ∈ s.mlog, t.write = true → ∃ (rq : MqReq) (p : Piece), s.reqOfDma t.owner = some rq ∧
      s.pieceOf rq = some p ∧ p.cmd ∈ s.cmds ∧ p.cmd.kind = .h2d ∧ t.bytes.length = t.len ∧
      ∀ j, j < t.len → ∃ i, i < p.cmd.len ∧ translate c.pt (p.cmd.addr + i) = some (t.addr + j) ∧
        t.bytes[j]? = p.cmd.data[i]? := by
  intro s t ht hw
  have h := reachSys_all c ops
  obtain ⟨rq, p, x⟩ := h.tx_ctx hinj ht
  obtain ⟨rq', p', a1, a2, a3, _⟩ := h.data.data t ht
  have hp : p' = p := by
    have : rq' = rq := Option.some.inj (a1.symm.trans x.req)
    subst this
    exact Option.some.inj (a2.symm.trans x.piece)
  subst hp
  have hkind : p'.cmd.kind = .h2d := by
    have hd := x.dir
    rw [hw] at hd
    rcases h.wf.kind p'.cmd x.cmd_mem with hk | hk
    · exact hk
    · rw [hk] at hd; simp [mqKindToDma] at hd
  have hdl := h.wf.data p'.cmd x.cmd_mem hkind
  have hlo := x.lo
  have hhi := x.hi
  have hin := x.inside
  have hbytes := a3 hw
  have hoff : p'.off + (t.addr - p'.pa) + t.len ≤ p'.cmd.data.length := by omega
  refine ⟨rq', p', a1, a2, x.cmd_mem, hkind, by rw [hbytes]; exact take_drop_len _ _ _ hoff, ?_⟩
  intro j hj
  refine ⟨p'.off + (t.addr - p'.pa) + j, by omega, ?_, ?_⟩
  · have := x.tr ((t.addr - p'.pa) + j) (by omega)
    rw [h.pt] at this
    have e1 : p'.cmd.addr + (p'.off + (t.addr - p'.pa) + j) = p'.cmd.addr + p'.off + ((t.addr - p'.pa) + j) := by omega
    have e2 : p'.pa + ((t.addr - p'.pa) + j) = t.addr + j := by omega
    rw [e1, this, e2]
  · rw [hbytes]; exact take_drop_getElem? _ _ _ _ hj hoff

/-- **A completed host-to-device copy has stored EVERY byte of its data** at the physical image of
    its place — coverage, the counterpart of `sys_writes_only_copy_bytes`. In every reachable state of
    the closed system, for every completed H2D command and every `i < len`: virtual address
    `addr + i` is mapped, and the memory has performed a write transaction covering its physical
    image `pa` whose byte at `pa` is byte `i` of the command's host data. (The command completes once,
    `mq_complete_exactly_once`; the transaction was performed once,
    `sys_copy_transactions_end_to_end`.) -/
theorem sys_h2d_complete_all_bytes_written (c : SysCfg) (hinj : PtInj c.pt) (ops : List SysOp) :
    let s := reachSys c ops
    ∀ q seq cmd, (q, seq) ∈ s.mq.s.completed → s.cmdOf q seq = some cmd → cmd.kind = .h2d →
      ∀ i, i < cmd.len → ∃ pa, translate c.pt (cmd.addr + i) = some pa ∧
        ∃ t ∈ s.mlog, t.write = true ∧ t.addr ≤ pa ∧ pa < t.addr + t.len ∧
          t.bytes[pa - t.addr]? = cmd.data[i]? := by
  intro s q seq cmd hcomp hc hkind i hi
  have h := reachSys_all c ops
  have hcm : cmd ∈ s.cmds := by
    unfold Sys.cmdOf at hc
    exact (List.mem_filter.1 (List.mem_of_getElem? hc)).1
  have hpcs := h.wf.pcs cmd hcm
  rw [h.pt] at hpcs
  -- the page piece that holds byte `i`
  obtain ⟨k, pc, hk, ho1, ho2⟩ := pieces_cover c.pt cmd.addr cmd.len cmd.pcs hpcs i hi
  obtain ⟨d1, d2, d3⟩ := pieces_piece c.pt hinj cmd.addr cmd.len cmd.pcs hpcs pc (List.mem_of_getElem? hk)
  -- its driver request and DMA copy
  obtain ⟨r, d, hd, hdr, hpiece⟩ := h.piece_copy (sys_completed_command_end_to_end c ops) hcomp hc hk
  obtain ⟨cl, rq, p, e1, e2, e3, etile, eperf, _⟩ := sys_copy_transactions_end_to_end c ops d hd
  have hrq : rq = r := by
    have : s.reqOfDma d = some rq := by unfold Sys.reqOfDma Sys.reqOfCp; rw [e1]; exact e2
    exact Option.some.inj (this.symm.trans hdr)
  subst hrq
  have hp : p = { cmd := cmd, seq := seq, pa := pc.1, off := pc.2.1, len := pc.2.2 } :=
    Option.some.inj (e3.symm.trans hpiece)
  subst hp
  simp only at etile
  -- the transaction that covers the physical image of byte `i`
  have hx1 : pc.1 ≤ pc.1 + (i - pc.2.1) := Nat.le_add_right _ _
  have hx2 : pc.1 + (i - pc.2.1) < pc.1 + pc.2.2 := by omega
  obtain ⟨sp, hsp, hs1, hs2⟩ := splitBy_cover (2 ^ s.dma.s.log2) (Nat.pow_pos (by decide)) pc.1 pc.2.2 _ hx1 hx2
  have hmem : (sp.1, sp.2, mqKindToDma cmd.kind == Kind.h2d) ∈
      (s.dma.seen.filter (fun q => q.owner == d)).map (fun q => (q.addr, q.len, q.write)) := by
    rw [etile]; exact List.mem_map.2 ⟨sp, hsp, rfl⟩
  obtain ⟨qq, hqq, heq⟩ := List.mem_map.1 hmem
  simp only [Prod.mk.injEq] at heq
  obtain ⟨ha, hl, hw⟩ := heq
  obtain ⟨hqs, hqo⟩ := List.mem_filter.1 hqq
  obtain ⟨t, ht, _, hta, htw, hto, htl⟩ := eperf qq hqs (by simpa using hqo)
  refine ⟨pc.1 + (i - pc.2.1), ?_, t, ht, ?_, by rw [hta, ha]; exact hs1, by rw [hta, ha, htl, hl]; exact hs2, ?_⟩
  · have := d3 (i - pc.2.1) (by omega)
    have e : cmd.addr + pc.2.1 + (i - pc.2.1) = cmd.addr + i := by omega
    rw [e] at this; exact this
  · rw [htw, hw, hkind]; rfl
  · -- the byte it stored there
    obtain ⟨rq', p', a1, a2, a3, _⟩ := h.data.data t ht
    have hrq' : rq' = rq := by rw [hto] at a1; exact Option.some.inj (a1.symm.trans hdr)
    subst hrq'
    have hp' : p' = { cmd := cmd, seq := seq, pa := pc.1, off := pc.2.1, len := pc.2.2 } :=
      Option.some.inj (a2.symm.trans hpiece)
    subst hp'
    have htw' : t.write = true := by rw [htw, hw, hkind]; rfl
    rw [a3 htw']
    simp only
    have hdl := h.wf.data cmd hcm hkind
    have hta' : t.addr = sp.1 := by rw [hta, ha]
    have htl' : t.len = sp.2 := by rw [htl, hl]
    obtain ⟨r1, r2, _⟩ := splitBy_mem_range _ _ _ _ _ hsp
    have hj : pc.1 + (i - pc.2.1) - t.addr < t.len := by omega
    have hoff : pc.2.1 + (t.addr - pc.1) + t.len ≤ cmd.data.length := by omega
    rw [take_drop_getElem? _ _ _ _ hj hoff]
    congr 1; omega

/-- **Every byte a completed device-to-host copy returns is the content of the physical image of
    its place in the range, as the memory held it when one of the copy's own read transactions was
    performed.** In every reachable state of the closed system, for every completed D2H command
    and every `i < len`: virtual address `addr + i` is mapped to some `pa`, and byte `i` of the host
    buffer (`Sys.d2hResult`) equals `(histMem (hist.take k)).get pa` — the memory as left by the events
    (write transactions of other copies, cache write-backs) that preceded the `k`-th event of the
    memory's history, which is a read transaction. With `cp_no_copy_during_flush` (inside the system:
    `sys_components_reachable`) that read happened after every cache acknowledged the flush the
    driver sent first. -/
theorem sys_d2h_complete_bytes_observed (c : SysCfg) (hinj : PtInj c.pt) (ops : List SysOp) :
    let s := reachSys c ops
    ∀ q seq cmd, (q, seq) ∈ s.mq.s.completed → s.cmdOf q seq = some cmd → cmd.kind = .d2h →
      ∀ i, i < cmd.len → ∃ pa, translate c.pt (cmd.addr + i) = some pa ∧
        ∃ (k : Nat) (u : MemTx) (rq : MqReq) (p : Piece), s.hist[k]? = some (.tx u) ∧ u.write = false ∧
          s.reqOfDma u.owner = some rq ∧ s.pieceOf rq = some p ∧ p.cmd = cmd ∧ p.seq = seq ∧
          u.addr ≤ pa ∧ pa < u.addr + u.len ∧
          (s.d2hResult q seq cmd.len)[i]? = some ((histMem (s.hist.take k)).get pa) := by
  intro s q seq cmd hcomp hc hkind i hi
  have h := reachSys_all c ops
  have hcm : cmd ∈ s.cmds ∧ cmd.q = q := by
    unfold Sys.cmdOf at hc
    obtain ⟨a, b⟩ := List.mem_filter.1 (List.mem_of_getElem? hc)
    exact ⟨a, by simpa using b⟩
  have hpcs := h.wf.pcs cmd hcm.1
  rw [h.pt] at hpcs
  obtain ⟨k0, pc, hk0, ho1, ho2⟩ := pieces_cover c.pt cmd.addr cmd.len cmd.pcs hpcs i hi
  obtain ⟨d1, d2, d3⟩ := pieces_piece c.pt hinj cmd.addr cmd.len cmd.pcs hpcs pc (List.mem_of_getElem? hk0)
  have htr : translate c.pt (cmd.addr + i) = some (pc.1 + (i - pc.2.1)) := by
    have := d3 (i - pc.2.1) (by omega)
    have e : cmd.addr + pc.2.1 + (i - pc.2.1) = cmd.addr + i := by omega
    rw [e] at this; exact this
  refine ⟨pc.1 + (i - pc.2.1), htr, ?_⟩
  -- (a) some read of the command delivered a byte for offset `i`
  have hex : ∃ e ∈ s.host, e.1 = q ∧ e.2.1 = seq ∧ e.2.2.1 = i := by
    obtain ⟨r, d, hd, hdr, hpiece⟩ := h.piece_copy (sys_completed_command_end_to_end c ops) hcomp hc hk0
    obtain ⟨cl, rq, p, e1, e2, e3, etile, eperf, _⟩ := sys_copy_transactions_end_to_end c ops d hd
    have hrq : rq = r := by
      have : s.reqOfDma d = some rq := by unfold Sys.reqOfDma Sys.reqOfCp; rw [e1]; exact e2
      exact Option.some.inj (this.symm.trans hdr)
    subst hrq
    have hp : p = { cmd := cmd, seq := seq, pa := pc.1, off := pc.2.1, len := pc.2.2 } :=
      Option.some.inj (e3.symm.trans hpiece)
    subst hp
    simp only at etile
    have hx1 : pc.1 ≤ pc.1 + (i - pc.2.1) := Nat.le_add_right _ _
    have hx2 : pc.1 + (i - pc.2.1) < pc.1 + pc.2.2 := by omega
    obtain ⟨sp, hsp, hs1, hs2⟩ := splitBy_cover (2 ^ s.dma.s.log2) (Nat.pow_pos (by decide)) pc.1 pc.2.2 _ hx1 hx2
    have hmem : (sp.1, sp.2, mqKindToDma cmd.kind == Kind.h2d) ∈
        (s.dma.seen.filter (fun q => q.owner == d)).map (fun q => (q.addr, q.len, q.write)) := by
      rw [etile]; exact List.mem_map.2 ⟨sp, hsp, rfl⟩
    obtain ⟨qq, hqq, heq⟩ := List.mem_map.1 hmem
    simp only [Prod.mk.injEq] at heq
    obtain ⟨ha, hl, hw⟩ := heq
    obtain ⟨hqs, hqo⟩ := List.mem_filter.1 hqq
    obtain ⟨t, ht, _, hta, htw, hto, htl⟩ := eperf qq hqs (by simpa using hqo)
    obtain ⟨rq', p', a1, a2, _, a4⟩ := h.data.data t ht
    have hrq' : rq' = rq := by rw [hto] at a1; exact Option.some.inj (a1.symm.trans hdr)
    subst hrq'
    have hp' : p' = { cmd := cmd, seq := seq, pa := pc.1, off := pc.2.1, len := pc.2.2 } :=
      Option.some.inj (a2.symm.trans hpiece)
    subst hp'
    have htw' : t.write = false := by rw [htw, hw, hkind]; rfl
    obtain ⟨qc, hqc, g1, _, _, _, g5, g6⟩ := h.mem.cont t ht
    have hlen : t.bytes.length = t.len := by rw [g5 htw', g6]
    have hj : pc.1 + (i - pc.2.1) - t.addr < t.bytes.length := by rw [hlen, hta, ha, htl, hl]; omega
    have := a4 htw' (pc.1 + (i - pc.2.1) - t.addr) _ (List.getElem?_eq_getElem hj)
    refine ⟨_, this, hcm.2, rfl, ?_⟩
    simp only
    obtain ⟨r1, _, _⟩ := splitBy_mem_range _ _ _ _ _ hsp
    have : t.addr = sp.1 := by rw [hta, ha]
    omega
  -- (b) whichever entry the host buffer holds for offset `i` was observed by a read at that place
  obtain ⟨e0, he0, hq0, hs0, hi0⟩ := hex
  have hfind : ∃ e, s.host.find? (fun e => e.1 == q && e.2.1 == seq && e.2.2.1 == i) = some e := by
    cases hf : s.host.find? (fun e => e.1 == q && e.2.1 == seq && e.2.2.1 == i) with
    | some e => exact ⟨e, rfl⟩
    | none =>
      rw [List.find?_eq_none] at hf
      exact absurd (by simp [hq0, hs0, hi0]) (hf e0 he0)
  obtain ⟨e, hfe⟩ := hfind
  have hem : e ∈ s.host := List.mem_of_find?_eq_some hfe
  have hkey := List.find?_some hfe
  simp only [Bool.and_eq_true, beq_iff_eq] at hkey
  obtain ⟨⟨hkq, hks⟩, hki⟩ := hkey
  obtain ⟨k, u, j, rq, p, b1, b2, b3, b4, b5, b6, b7, b8⟩ := h.host.src e hem
  have hum : u ∈ s.mlog := by
    rw [← h.hist.log]
    exact List.mem_filterMap.2 ⟨.tx u, List.mem_of_getElem? b1, rfl⟩
  obtain ⟨rq2, p2, x⟩ := h.tx_ctx hinj hum
  have hrq2 : rq2 = rq := Option.some.inj (x.req.symm.trans b4)
  subst hrq2
  have hp2 : p2 = p := Option.some.inj (x.piece.symm.trans b5)
  subst hp2
  obtain ⟨c1, c2, c3, c4, _, _⟩ := Sys.pieceOf_spec b5
  have hcmd : p2.cmd = cmd := by
    rw [← c4, ← c3] at c2
    rw [← b6, hkq, ← b7, hks] at c2
    exact Option.some.inj (c2.symm.trans hc)
  -- the byte was read at `u.addr + j`, the image of `addr + i`
  have hrd := h.hist.reads k u b1 b2
  rw [hrd] at b3
  obtain ⟨hjl, hx⟩ := SMem.read_getElem? _ _ _ _ _ b3
  have hpa : u.addr + j = pc.1 + (i - pc.2.1) := by
    have := x.tr ((u.addr - p2.pa) + j) (by have := x.hi; have := x.lo; omega)
    rw [h.pt, hcmd] at this
    have e1 : cmd.addr + p2.off + ((u.addr - p2.pa) + j) = cmd.addr + i := by rw [← hki, b8]; omega
    rw [e1, htr] at this
    have := Option.some.inj this
    have := x.lo
    omega
  refine ⟨k, u, rq2, p2, b1, b2, b4, b5, hcmd, by rw [← b7, hks], by omega, by omega, ?_⟩
  have hres : (s.d2hResult q seq cmd.len)[i]? = some e.2.2.2 := by
    unfold Sys.d2hResult
    rw [List.getElem?_map, List.getElem?_range hi]
    simp only [Option.map_some, hfe]
  rw [hres, hx, hpa]

/-- during the whole history of `s`, the only events that write into the physical image of
    `[addr, addr + len)` are memory transactions of the copy command `(q1, seq1)` -/
def Sys.OnlyWriter (s : Sys) (pt : List Page) (addr len q1 seq1 : Nat) : Prop :=
  ∀ ev ∈ s.hist, ∀ i, i < len → ∀ pa, translate pt (addr + i) = some pa → (ev.writesAt pa).isSome = true →
    ∃ (t : MemTx) (rq : MqReq) (p : Piece), ev = .tx t ∧ s.reqOfDma t.owner = some rq ∧ s.pieceOf rq = some p ∧
      p.cmd.q = q1 ∧ p.seq = seq1

/-- **Round trip on the closed system (DMA copy path): D2H(H2D(x)) = x.** Take any schedule `ops1` after
    which the host-to-device copy `(q1, seq1)` of data `x` to `[addr, addr + len)` has completed, and
    any continuation `ops2` in which a device-to-host copy `(q2, seq2)` of the same range — enqueued
    only after `ops1`, on any queue — completes. If no other writer touched the physical image of the
    range during the run (`OnlyWriter`: no concurrent copy to it, no cache write-back into it), the
    host buffer of the second copy holds exactly `x`: for any offset and length, any number of pages
    in any physical order, any split into DMA transactions, any order in which the memory performs
    and answers them, any interleaving with other queues, flushes and ticks. -/
theorem sys_h2d_then_d2h_roundtrip (c : SysCfg) (hinj : PtInj c.pt) (ops1 ops2 : List SysOp)
    (q1 seq1 q2 seq2 : Nat) (cmd1 cmd2 : SysCmd) :
    let s1 := reachSys c ops1
    let s := reachSys c (ops1 ++ ops2)
    (q1, seq1) ∈ s1.mq.s.completed → s1.cmdOf q1 seq1 = some cmd1 → cmd1.kind = .h2d →
    s1.cmdOf q2 seq2 = none → s.cmdOf q2 seq2 = some cmd2 → cmd2.kind = .d2h →
    cmd2.addr = cmd1.addr → cmd2.len = cmd1.len → (q2, seq2) ∈ s.mq.s.completed →
    s.OnlyWriter c.pt cmd1.addr cmd1.len q1 seq1 →
    s.d2hResult q2 seq2 cmd2.len = cmd1.data := by
  intro s1 s hc1 hcmd1 hk1 hnone hcmd2 hk2 haddr hlen hc2 honly
  have h1 := reachSys_all c ops1
  have h := reachSys_all c (ops1 ++ ops2)
  have hgrow : s1.Grows s := by
    show (reachSys c ops1).Grows (reachSys c (ops1 ++ ops2))
    unfold reachSys; rw [Sys.run_append]; exact Sys.run_grows ops2 _
  have hcm1 : cmd1 ∈ s1.cmds := by
    unfold Sys.cmdOf at hcmd1
    exact (List.mem_filter.1 (List.mem_of_getElem? hcmd1)).1
  have hdl : cmd1.data.length = cmd1.len := h1.wf.data cmd1 hcm1 hk1
  have hcmd1s : s.cmdOf q1 seq1 = some cmd1 := hgrow.cmdOf hcmd1
  have hq2 : cmd2.q = q2 := by
    unfold Sys.cmdOf at hcmd2
    simpa using (List.mem_filter.1 (List.mem_of_getElem? hcmd2)).2
  obtain ⟨lh, hlh⟩ := hgrow.hist
  apply List.ext_getElem?
  intro i
  by_cases hi : i < cmd1.len
  · -- byte `i`
    obtain ⟨pa, htr, k, u, rq, p, b1, b2, b3, b4, b5, b6, _, _, hres⟩ :=
      sys_d2h_complete_bytes_observed c hinj (ops1 ++ ops2) q2 seq2 cmd2 hc2 hcmd2 hk2 i (hlen ▸ hi)
    rw [haddr] at htr
    rw [hres, List.getElem?_eq_getElem (by rw [hdl]; exact hi)]
    congr 1
    -- the read is later than everything that happened before the second copy was enqueued
    have hk : s1.hist.length ≤ k := by
      apply Decidable.byContradiction; intro hn
      have hlt : k < s1.hist.length := by omega
      have hu1 : s1.hist[k]? = some (.tx u) := by
        have : s.hist[k]? = some (.tx u) := b1
        rw [hlh, List.getElem?_append_left hlt] at this; exact this
      have hum : u ∈ s1.mlog := by
        rw [← h1.hist.log]
        exact List.mem_filterMap.2 ⟨.tx u, List.mem_of_getElem? hu1, rfl⟩
      obtain ⟨rq1, p1, a1, a2, _, _⟩ := h1.data.data u hum
      have hrq : rq1 = rq := Option.some.inj ((hgrow.reqOfDma a1).symm.trans b3)
      subst hrq
      have hp : p1 = p := Option.some.inj ((hgrow.pieceOf a2).symm.trans b4)
      subst hp
      obtain ⟨_, c2, c3, c4, _, _⟩ := Sys.pieceOf_spec a2
      rw [← c4, ← c3, b5, hq2, b6] at c2
      rw [hnone] at c2; cases c2
    -- the first copy stored byte `i` at `pa` before that
    obtain ⟨pa', htr', t, ht, htw, hlo, hhi, hbyte⟩ :=
      sys_h2d_complete_all_bytes_written c hinj ops1 q1 seq1 cmd1 hc1 hcmd1 hk1 i hi
    have hpa : pa' = pa := Option.some.inj (htr'.symm.trans htr)
    subst hpa
    obtain ⟨_, _, _, _, _, _, htl, _⟩ := sys_writes_only_copy_bytes c hinj ops1 t ht htw
    have hth : MemEv.tx t ∈ s1.hist := by
      have : t ∈ s1.hist.filterMap MemEv.tx? := by rw [h1.hist.log]; exact ht
      obtain ⟨ev, hev, he⟩ := List.mem_filterMap.1 this
      cases ev with
      | tx t' => simp only [MemEv.tx?, Option.some.injEq] at he; subst he; exact hev
      | wb _ _ _ => simp [MemEv.tx?] at he
    have htake : s.hist.take k = s1.hist ++ lh.take (k - s1.hist.length) := by
      rw [hlh, List.take_append]
      rw [List.take_of_length_le hk]
    apply histMem_get_of_all
    · -- every writer of `pa` wrote byte `i` of the data
      intro ev hev x hx
      have hevs : ev ∈ s.hist := List.mem_of_mem_take hev
      obtain ⟨t', rq', p', rfl, e1, e2, e3, e4⟩ := honly ev hevs i hi pa' htr (by rw [hx]; rfl)
      have ht'm : t' ∈ s.mlog := by
        rw [← h.hist.log]; exact List.mem_filterMap.2 ⟨.tx t', hevs, rfl⟩
      simp only [MemEv.writesAt] at hx
      split at hx
      · rename_i hcond
        obtain ⟨hw', hlo', hhi'⟩ := hcond
        obtain ⟨rq'', p'', f1, f2, _, _, fl, fall⟩ := sys_writes_only_copy_bytes c hinj (ops1 ++ ops2) t' ht'm hw'
        have hrq : rq'' = rq' := Option.some.inj (f1.symm.trans e1)
        subst hrq
        have hp : p'' = p' := Option.some.inj (f2.symm.trans e2)
        subst hp
        obtain ⟨_, c2, c3, c4, _, _⟩ := Sys.pieceOf_spec e2
        have hcmd : p''.cmd = cmd1 := by
          rw [← c4, ← c3, e3, e4] at c2
          exact Option.some.inj (c2.symm.trans hcmd1s)
        obtain ⟨i', hi', htr2, hb⟩ := fall (pa' - t'.addr) (by rw [← fl]; omega)
        rw [hcmd] at hi' htr2 hb
        have e : t'.addr + (pa' - t'.addr) = pa' := by omega
        rw [e] at htr2
        have : cmd1.addr + i' = cmd1.addr + i := translate_inj hinj htr2 htr
        have hii : i' = i := by omega
        subst hii
        simp only [Option.some.injEq] at hx
        rw [← hx, List.getD_eq_getElem?_getD, hb, List.getElem?_eq_getElem (by rw [hdl]; exact hi')]
        rfl
      · cases hx
    · refine ⟨.tx t, by rw [htake]; exact List.mem_append_left _ hth, ?_⟩
      simp only [MemEv.writesAt]
      rw [if_pos ⟨htw, hlo, by rw [htl]; exact hhi⟩]; rfl
  · have hl1 : (s.d2hResult q2 seq2 cmd2.len).length = cmd2.len := by simp [Sys.d2hResult]
    rw [List.getElem?_eq_none (by rw [hl1, hlen]; omega), List.getElem?_eq_none (by rw [hdl]; omega)]

/-- after the demo's H2D copy (`demoSysOps`): a D2H copy of the same 40 bytes, driven to completion -/
def demoBackOps : List SysOp :=
  [.enq 0 false 4140 40 0, .drvTick, .drvTick, .toCp, .cpTick, .cacheTake 1, .cacheAck 0, .cpTick, .toDrv,
   .drvTick, .drvTick, .toCp, .toCp, .cpTick, .cpTick, .toDma, .toDma, .dmaTick, .dmaTick, .dmaTick, .dmaTick, .dmaTick,
   .memTake 9, .memDo 2, .memDo 0, .memDo 1, .memDo 0, .dmaTick, .dmaTick, .dmaTick, .dmaTick, .dmaTick, .dmaTick,
   .dmaOut, .toCpRsp, .toCpRsp, .cpTick, .cpTick, .toDrv, .toDrv, .drvTick, .drvTick]

/-- non-vacuity of the byte-level theorems and of the round trip: both copies complete, every write
    the memory performed is a write of the first copy, the read transactions of the second copy are
    served out of order, and the host buffer of the second copy holds the 40 bytes of the first;
    the second copy did not exist when the first had completed -/
example :
    (reachSys demoSysCfg (demoSysOps ++ demoBackOps)).mq.s.completed = [(0, 0), (0, 1)] ∧
    (reachSys demoSysCfg demoSysOps).cmdOf 0 1 = none ∧
    ((reachSys demoSysCfg (demoSysOps ++ demoBackOps)).cmdOf 0 0).map (fun c => (c.kind, c.addr, c.len)) =
      some (.h2d, 4140, 40) ∧
    ((reachSys demoSysCfg (demoSysOps ++ demoBackOps)).cmdOf 0 1).map (fun c => (c.kind, c.addr, c.len)) =
      some (.d2h, 4140, 40) ∧
    (reachSys demoSysCfg (demoSysOps ++ demoBackOps)).d2hResult 0 1 40 = (List.range 40).map (h2dByte 4143) ∧
    (reachSys demoSysCfg (demoSysOps ++ demoBackOps)).mlog.map (fun t => (t.write, t.owner, t.addr, t.len)) =
      [(true, 1, 131088, 4), (true, 0, 65580, 4), (true, 1, 131072, 16), (true, 0, 65584, 16),
       (false, 3, 131072, 16), (false, 2, 65580, 4), (false, 3, 131088, 4), (false, 2, 65584, 16)] := by
  decide +kernel

/-- the demo configuration with two queues -/
def demoSysCfgQ2 : SysCfg := { demoSysCfg with nQueues := 2 }

/-- **The `OnlyWriter` hypothesis of the round trip cannot be dropped**: if another queue copies
    different data to the same range between the two copies, the second copy returns THAT data — all
    other hypotheses hold (the first copy had completed before the D2H was enqueued, the D2H completes).
    Two queues writing one range concurrently is a race of the application, not of the copy path. -/
theorem sys_roundtrip_needs_only_writer :
    let ops1 := demoSysOps ++ (SysOp.enq 1 true 4140 40 9 :: demoSysOps.tail)
    let s1 := reachSys demoSysCfgQ2 ops1
    let s := reachSys demoSysCfgQ2 (ops1 ++ demoBackOps)
    (0, 0) ∈ s1.mq.s.completed ∧ (s1.cmdOf 0 0).map (fun c => (c.kind, c.addr, c.len)) = some (.h2d, 4140, 40) ∧
    s1.cmdOf 0 1 = none ∧ (s.cmdOf 0 1).map (fun c => (c.kind, c.addr, c.len)) = some (.d2h, 4140, 40) ∧
    (0, 1) ∈ s.mq.s.completed ∧
    s.d2hResult 0 1 40 = (List.range 40).map (h2dByte 4149) ∧
    (s1.cmdOf 0 0).map (·.data) = some ((List.range 40).map (h2dByte 4143)) ∧
    (List.range 40).map (h2dByte 4149) ≠ (List.range 40).map (h2dByte 4143) := by
  decide +kernel

end C11
