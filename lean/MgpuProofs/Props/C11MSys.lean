import MgpuProofs.C11MSysR
import MgpuProofs.Props.C11Sys
import MgpuProofs.Props.C11Mq
/-! # C11 — the closed copy system with several GPUs (`MgpuModel/C11MSys.lean`)

One driver (`MqEnv`, `nGpus = N`), per GPU a lane = command processor + DMA engine + that GPU's memory +
caches (a `Sys` whose moves are `Sys.step`), requests routed to the GPU that owns the physical address of
their page piece. All statements: every configuration, every owner function, every schedule. -/
namespace C11

/-- **Every component of the several-GPU system is in a reachable state of its own model**: the ONE
    driver of the model with `nGpus = N` (so every `mq_*` theorem holds for it: nothing lost, each
    command completes exactly once after all its requests, on every queue), each GPU's command
    processor and DMA engine of theirs (every `cp_*` / `dma_*` theorem holds per GPU; the memory side
    never injects a bogus answer). -/
theorem msys_components_reachable (c : MCfg) (ops : List MOp) :
    let s := reachMSys c ops
    (∃ mo, s.mq = reachMq c.nGpus c.sys.cycH2D c.sys.cycD2H c.sys.nQueues c.sys.warm mo) ∧
    s.lanes.length = c.nGpus ∧
    ∀ l ∈ s.lanes, (∃ co, l.cp = reachCp c.sys.nCaches c.sys.cin c.sys.cdrv c.sys.cdma c.sys.ccache co) ∧
      (∃ dops, l.dma = reach c.sys.log2 c.sys.maxReq c.sys.memCap dops ∧ ∀ o ∈ dops, o.isInject = false) := by
  intro s
  have h := reachMSys_inv c ops
  exact ⟨h.mq, h.n, fun l hl => ⟨(h.lanes l hl).cp, (h.lanes l hl).dma⟩⟩

/-- two GPUs; the page at 4096 lives in GPU 0's memory (frame 65536), the page at 4160 in GPU 1's (frame 131072) -/
def demoMCfg : MCfg := { sys := demoSysCfg, nGpus := 2, own := fun a => if a < 131072 then 0 else 1 }

def demoLaneFlush (g : Nat) : List MOp :=
  [.gpu g .cpTick, .gpu g (.cacheTake 4), .gpu g (.cacheAck 0), .gpu g .cpTick, .toDrv g]

def demoLaneCopy (g : Nat) : List MOp :=
  [.gpu g .cpTick, .gpu g .cpTick, .gpu g .toDma, .gpu g .dmaTick, .gpu g .dmaTick, .gpu g .dmaTick, .gpu g (.memTake 9),
   .gpu g (.memDo 1), .gpu g (.memDo 0), .gpu g .dmaTick, .gpu g .dmaTick, .gpu g .dmaTick, .gpu g .dmaTick,
   .gpu g .dmaOut, .gpu g .toCpRsp, .gpu g .cpTick, .gpu g .cpTick, .toDrv g]

/-- an H2D copy of 40 bytes at 4140 — 20 bytes in GPU 0's memory, 20 in GPU 1's; both GPUs are flushed
    first — driven to completion -/
def demoMOps : List MOp :=
  [.enq 0 true 4140 40 3, .drvTick, .drvTick, .drvTick, .toCp, .toCp] ++ demoLaneFlush 1 ++ demoLaneFlush 0 ++
  [.drvTick, .drvTick, .drvTick, .drvTick, .toCp, .toCp] ++ demoLaneCopy 1 ++ demoLaneCopy 0 ++
  [.drvTick, .drvTick, .drvTick]

/-- the demo: the command completes; GPU 0 was sent flush 0 and piece 0, GPU 1 flush 1 and piece 1; each
    memory performed the two 16-byte-unit transactions of ITS piece -/
example : (reachMSys demoMCfg demoMOps).mq.s.completed = [(0, 0)] ∧
    (reachMSys demoMCfg demoMOps).lanes.map (fun l => l.mq.seen.map (fun r => (r.id, r.kind, r.idx))) =
      [[(0, .flush, 0), (2, .h2d, 0)], [(1, .flush, 1), (3, .h2d, 1)]] ∧
    (reachMSys demoMCfg demoMOps).lanes.map (fun l => l.mlog.map (fun t => (t.addr, t.bytes.length, t.write))) =
      [[(65584, 16, true), (65580, 4, true)], [(131088, 4, true), (131072, 16, true)]] := by
  decide +kernel

/-- **The right bytes arrive at the right place, on every GPU** (`sys_bytes_arrive` for ranges spanning
    the memories of several GPUs). Every transaction the memory of ANY GPU has performed belongs to a
    copy request `rq` of the one driver (found through the clone that GPU's command processor made and
    the request it was made from) carrying page piece `p` of a copy command; a WRITE stored exactly the
    bytes of the command's host buffer at offset `p.off + (t.addr − p.pa)`; the bytes a READ observed
    have been delivered into the host buffer of ITS command at that offset. -/
theorem msys_bytes_arrive (c : MCfg) (ops : List MOp) :
    let s := reachMSys c ops
    ∀ l ∈ s.lanes, ∀ t ∈ l.mlog, ∃ (rq : MqReq) (p : Piece), l.reqOfDma t.owner = some rq ∧ l.pieceOf rq = some p ∧
      (t.write = true → t.bytes = (p.cmd.data.drop (p.off + (t.addr - p.pa))).take t.len) ∧
      (t.write = false → ∀ i x, t.bytes[i]? = some x →
        (p.cmd.q, p.seq, p.off + (t.addr - p.pa) + i, x) ∈ l.host) :=
  fun l hl => ((reachMSys_inv c ops).lanes l hl).data.data

/-- the demo: after the run GPU 0's memory holds the first 20 payload bytes at the end of frame 65536,
    GPU 1's memory the other 20 at the start of frame 131072; the bytes around them are untouched -/
example : (List.range 22).map (fun i => (reachMSys demoMCfg demoMOps).memGet (65579 + i)) =
      memByte 65579 :: (List.range 20).map (h2dByte 4143) ++ [memByte 65600] ∧
    (List.range 21).map (fun i => (reachMSys demoMCfg demoMOps).memGet (131072 + i)) =
      (List.range 20).map (fun i => h2dByte 4143 (20 + i)) ++ [memByte 131092] := by
  decide +kernel

/-- **Every transaction of every GPU lies inside the page piece it belongs to, has that copy's direction,
    and the piece is the page-table image of its part of the command's range** (`TxCtx`, per lane): with
    `msys_bytes_arrive`, byte `i` of an H2D command can only ever be stored at `translate pt (addr + i)`. -/
theorem msys_transaction_in_piece (c : MCfg) (hinj : PtInj c.sys.pt) (ops : List MOp) :
    let s := reachMSys c ops
    ∀ l ∈ s.lanes, ∀ t ∈ l.mlog, ∃ (rq : MqReq) (p : Piece), TxCtx l t rq p :=
  fun l hl _ ht => ((reachMSys_inv c ops).lanes l hl).tx_ctx hinj ht

example : ∃ l ∈ (reachMSys demoMCfg demoMOps).lanes, l.mlog ≠ [] := by decide +kernel

/-- **End to end, per copy request, on every GPU: the bytes arrive exactly once, and before the completion
    is reported** (`sys_copy_transactions_end_to_end` for every lane). Whenever the command processor of a
    GPU has received its DMA engine's completion for copy request `d`: `d` is the `d`-th clone that
    command processor forwarded, made from request `rq` of the one driver (routed to this GPU), which
    carries page piece `p`; the transactions this GPU's memory was handed for `d` are, in order, EXACTLY
    the `2^log2`-unit pieces of `[p.pa, p.pa + p.len)`; every one of them has been performed by this
    GPU's memory; and no transaction is ever performed twice. -/
theorem msys_copy_transactions_end_to_end (c0 : MCfg) (ops : List MOp) :
    let s0 := reachMSys c0 ops
    ∀ s ∈ s0.lanes, ∀ d ∈ s.cp.answered,
      ∃ (cl : CpClone) (rq : MqReq) (p : Piece),
        s.cp.dmaSeen[d]? = some cl ∧ s.mq.seen[cl.orig]? = some rq ∧ s.pieceOf rq = some p ∧
        (s.dma.seen.filter (fun q => q.owner == d)).map (fun q => (q.addr, q.len, q.write)) =
          (splitBy (2 ^ s.dma.s.log2) (Nat.pow_pos (by decide)) p.pa p.len).map
            (fun x => (x.1, x.2, mqKindToDma p.cmd.kind == Kind.h2d)) ∧
        (∀ q ∈ s.dma.seen, q.owner = d →
          ∃ t ∈ s.mlog, t.id = q.id ∧ t.addr = q.addr ∧ t.write = q.write ∧ t.owner = d ∧ t.len = q.len) ∧
        (s.mlog.map (·.id)).Nodup := by
  intro s0 s hs d hd
  have hL := (reachMSys_inv c0 ops).lanes s hs
  generalize c0.sys = c at hL
  obtain ⟨dops, hdma, hnoinj⟩ := hL.dma
  have hl : s.LinkInv := hL.link
  have hm : s.MemInv := hL.mem
  have hdma' : s.dma = reach c.log2 c.maxReq c.memCap dops := hdma
  obtain ⟨_, E2, E3, _⟩ := dma_exactly_once c.log2 c.maxReq c.memCap dops
  have hinv := dma_inv c.log2 c.maxReq c.memCap dops
  have htile := dma_transactions_tile c.log2 c.maxReq c.memCap dops
  have hcomp := dma_completed_copy_transactions c.log2 c.maxReq c.memCap dops hnoinj
  have htx : (reach c.log2 c.maxReq c.memCap dops).TxInv := Env.run_tx (Env.init_tx c.log2 c.maxReq c.memCap) dops
  rw [← show s.dma = reach c.log2 c.maxReq c.memCap dops from hdma'] at E2 E3 hinv htile hcomp htx
  have hids := htx.ids
  -- the completion reached the command processor, so the DMA engine had completed `d`
  have hdr : d ∈ s.dma.drained := by rw [← hl.wire]; exact List.mem_append_left _ hd
  have hdc : d ∈ s.dma.s.completed := by
    rw [E2]; exact List.mem_append_left _ (List.mem_append_left _ hdr)
  obtain ⟨⟨r, hr, hrid⟩, _, hnotin⟩ := E3 d hdc
  -- `r` is the `d`-th copy request
  have hrd : s.dma.cps[d]? = some r := by
    obtain ⟨i, hi⟩ := List.mem_iff_getElem?.1 hr
    have h1 : (s.dma.cps.map (·.id))[i]? = some d := by rw [List.getElem?_map, hi]; simp [hrid]
    rw [hinv.cps_ids] at h1
    have hlt : i < s.dma.nextCp := by
      apply Decidable.byContradiction; intro hn
      rw [List.getElem?_eq_none (by simp; omega)] at h1; cases h1
    rw [List.getElem?_range hlt] at h1
    cases h1; exact hi
  obtain ⟨cl, rq, p, h1, h2, h3, h4⟩ := hl.pay d r hrd
  have hseen_nd : (s.dma.seen.map (·.id)).Nodup := by
    have : (s.dma.issued.map (·.id)).Nodup := by rw [hids]; exact List.nodup_range
    unfold Env.issued at this
    rw [List.map_append, List.map_append, List.append_assoc] at this
    exact (List.nodup_append.1 this).1
  refine ⟨cl, rq, p, h1, h2, h3, ?_, ?_, ?_⟩
  · have ht := htile r hr (hrid ▸ hnotin)
    rw [h4] at ht
    simp only at ht
    rw [← ht]
    congr 1
    unfold Env.issued
    rw [List.filter_append, List.filter_append]
    have e1 : s.dma.s.memOut.filter (fun q => q.owner == d) = [] := by
      rw [List.filter_eq_nil_iff]
      intro q hq ho
      have hiss : q ∈ s.dma.issued := by unfold Env.issued; simp [hq]
      exact (hcomp d hdc q hiss (by simpa using ho)).2.2.2.2.1 hq
    have e2 : s.dma.s.toMem.filter (fun q => q.owner == d) = [] := by
      rw [List.filter_eq_nil_iff]
      intro q hq ho
      have hiss : q ∈ s.dma.issued := by unfold Env.issued; simp [hq]
      exact (hcomp d hdc q hiss (by simpa using ho)).2.2.2.2.2 hq
    rw [e1, e2]; simp
  · intro q hq hown
    have hiss : q ∈ s.dma.issued := by unfold Env.issued; simp [hq]
    have hno := (hcomp d hdc q hiss hown).2.1
    have hidno : q.id ∉ s.dma.outstanding.map (·.id) := by
      intro hin
      obtain ⟨q', hq', he⟩ := List.mem_map.1 hin
      have : q' = q := nodup_map_inj hseen_nd (hm.outs q' hq') hq he
      exact hno (this ▸ hq')
    have hin : q.id ∈ s.mlog.map (·.id) ++ s.dma.outstanding.map (·.id) :=
      hm.perm.mem_iff.2 (List.mem_map_of_mem hq)
    rcases List.mem_append.1 hin with hin | hin
    · obtain ⟨t, ht, hte⟩ := List.mem_map.1 hin
      obtain ⟨q', hq', g1, g2, g3, g4, _, g6⟩ := hm.cont t ht
      have : q' = q := nodup_map_inj hseen_nd hq' hq (g1.trans hte)
      subst this
      exact ⟨t, ht, hte, g2.symm, g3.symm, by rw [← g4, hown], g6.symm⟩
    · exact absurd hin hidno
  · have := hm.perm.nodup_iff.2 hseen_nd
    exact (List.nodup_append.1 this).1


example : (reachMSys demoMCfg demoMOps).lanes.map (fun l => (l.cp.answered,
      (l.dma.seen.filter (fun q => q.owner == 0)).map (fun q => (q.addr, q.len, q.write)))) =
    [([0], [(65580, 4, true), (65584, 16, true)]), ([0], [(131072, 16, true), (131088, 4, true)])] := by
  decide +kernel


/-- **End to end, per command, several GPUs: a copy command completes only after, for EVERY one of its
    page pieces, the command processor of the GPU the piece was sent to has received its DMA engine's
    completion.** In every reachable state of the several-GPU system, for every completed command
    `(q, seq)` of the one driver and every copy request `r` the driver created for it (one per page
    piece, wherever its frame lives): there is a GPU `l` and a DMA copy request `d` of that GPU — the
    `d`-th clone its command processor forwarded — that was made from `r` itself and whose completion
    that command processor has received. With `msys_copy_transactions_end_to_end` (that GPU's memory
    performed exactly the unit pieces of the page piece, each once, before that completion),
    `msys_bytes_arrive` and `mq_complete_exactly_once` (which holds for the driver by
    `msys_components_reachable`): each copy completes exactly once and only after all of its memory
    transactions — in the memories of ALL the GPUs its range spans — completed. -/
theorem msys_completed_command_end_to_end (c : MCfg) (ops : List MOp) :
    let s := reachMSys c ops
    ∀ q seq, (q, seq) ∈ s.mq.s.completed → ∀ r ∈ s.mq.reqsOf q seq, r.kind ≠ .flush →
      ∃ l ∈ s.lanes, ∃ d ∈ l.cp.answered, l.reqOfDma d = some r := by
  intro s q seq hcomp r hr hk
  have hI : s.Inv c := reachMSys_inv c ops
  have hX : s.XInv := MSys.XInv.run ops (MSys.XInv.init c)
  obtain ⟨mo, hmq⟩ := hI.mq
  have hans : r.id ∈ s.mq.s.answered := by
    have := mq_completed_reqs_answered c.nGpus c.sys.cycH2D c.sys.cycD2H c.sys.nQueues c.sys.warm mo q seq
    rw [← hmq] at this
    exact this hcomp r hr
  obtain ⟨l, hl, hxl⟩ := hX.fed r.id (List.mem_append_left _ hans)
  have hL := hI.lanes l hl
  obtain ⟨m, hm, rq, hseen, hid⟩ := hL.cmd.fed r.id hxl
  have hrq : rq = r := by
    have h1 := mq_seen_created c.nGpus c.sys.cycH2D c.sys.cycD2H c.sys.nQueues c.sys.warm mo
    have h2 := mq_created_ids_nodup c.nGpus c.sys.cycH2D c.sys.cycD2H c.sys.nQueues c.sys.warm mo
    rw [← hmq] at h1 h2
    have hrc : r ∈ s.mq.s.created := (List.mem_filter.1 hr).1
    exact nodup_map_inj h2 (h1 rq (hX.sub l hl rq (List.mem_of_getElem? hseen))) hrc hid
  subst hrq
  obtain ⟨co, hcp⟩ := hL.cp
  have hreq := cp_answers_are_requests c.sys.nCaches c.sys.cin c.sys.cdrv c.sys.cdma c.sys.ccache co
  have hclone := cp_answer_has_clone c.sys.nCaches c.sys.cin c.sys.cdrv c.sys.cdma c.sys.ccache co
  rw [← hcp] at hreq hclone
  have hm' : m ∈ l.cp.drained ++ l.cp.s.drvOut := List.mem_append_left _ hm
  have hsent := hL.cmd.sent m.id rq hseen
  rw [hreq m hm'] at hsent
  have hkind : m.kind = mqKindToCp rq.kind := by
    have := Option.some.inj hsent
    rw [this]
  have hnf : m.kind ≠ .flush := by
    rw [hkind]; intro h
    cases hkk : rq.kind <;> simp [hkk, mqKindToCp] at h
    exact hk hkk
  obtain ⟨d, hd, hds⟩ := hclone m hm' hnf
  refine ⟨l, hl, d, hd, ?_⟩
  unfold Sys.reqOfDma Sys.reqOfCp
  rw [hds]
  exact hseen

/-- the demo: the command's two copy requests (ids 2 and 3) went to different GPUs; each GPU's command
    processor received the completion of its clone 0, made from that very request -/
example : (reachMSys demoMCfg demoMOps).mq.s.completed = [(0, 0)] ∧
    ((reachMSys demoMCfg demoMOps).mq.reqsOf 0 0).map (fun r => (r.id, r.kind, r.idx)) =
      [(0, .flush, 0), (1, .flush, 1), (2, .h2d, 0), (3, .h2d, 1)] ∧
    (reachMSys demoMCfg demoMOps).lanes.map (fun l => (l.cp.answered, (l.reqOfDma 0).map (·.id))) =
      [([0], some 2), ([0], some 3)] := by decide +kernel


/-- **Every page piece is handled by the GPU that owns its frame.** For every owner function, every
    schedule: a transaction performed by the memory of GPU `g` belongs to a request `rq` of the one
    driver whose page piece `p` has `own p.pa = g`; with `msys_transaction_in_piece` the transaction lies
    inside `[p.pa, p.pa + p.len)`, a part of ONE page (`pieces_tile`) — so a copy whose range spans the
    memories of several GPUs is cut at the page boundaries and every part is read / written in the
    memory of the GPU holding that page, and nowhere else. Also: a flush request reaches the GPU it
    names, and all lanes agree with the driver on the command list. -/
theorem msys_routed_to_owner (c : MCfg) (ops : List MOp) :
    let s := reachMSys c ops
    ∀ g l, s.lanes[g]? = some l →
      (∀ t ∈ l.mlog, ∃ (rq : MqReq) (p : Piece), l.reqOfDma t.owner = some rq ∧ l.pieceOf rq = some p ∧
        s.pieceOf rq = some p ∧ s.own p.pa = g) ∧
      (∀ rq ∈ l.mq.seen, rq.kind = .flush → rq.idx = g) ∧ l.cmds = s.cmds := by
  intro s g l hl
  have hR : s.RInv := MSys.RInv.run ops (MSys.RInv.init c)
  have hI : s.Inv c := reachMSys_inv c ops
  have hlm : l ∈ s.lanes := List.mem_of_getElem? hl
  have hcm : l.cmds = s.cmds := (hR.same l hlm).1
  have hpc : ∀ r, s.pieceOf r = l.pieceOf r := fun r =>
    Sys.pieceOf_congr (s := l) (s' := { cmds := s.cmds }) hcm.symm r
  refine ⟨?_, ?_, hcm⟩
  · intro t ht
    obtain ⟨rq, p, a1, a2, _, _⟩ := (hI.lanes l hlm).data.data t ht
    have hseen : rq ∈ l.mq.seen := by
      unfold Sys.reqOfDma at a1
      split at a1
      · cases a1
      · exact List.mem_of_getElem? a1
    have hroute := hR.route g l hl rq hseen
    have hnf : rq.kind ≠ .flush := by
      intro hk; unfold Sys.pieceOf at a2; rw [if_pos hk] at a2; cases a2
    unfold MSys.route at hroute
    rw [if_neg hnf, hpc, a2] at hroute
    exact ⟨rq, p, a1, a2, (hpc rq).trans a2, hroute⟩
  · intro rq hrq hk
    have hroute := hR.route g l hl rq hrq
    unfold MSys.route at hroute
    rw [if_pos hk] at hroute
    exact hroute

/-- the demo: GPU 0's memory performed transactions only inside frame 65536 (which it owns), GPU 1's only
    inside frame 131072 -/
example : (reachMSys demoMCfg demoMOps).lanes.map (fun l => l.mlog.map (fun t => demoMCfg.own t.addr)) =
    [[0, 0], [1, 1]] := by decide +kernel

/-- **Frame, on every GPU: every write the copy path performs in ANY GPU's memory is a byte of a
    host-to-device copy at the physical image of its place in the range — nothing else is ever written**
    (`sys_writes_only_copy_bytes` for every lane): no device byte outside the image of a copied range
    is changed in any memory, whatever the interleaving of queues, flushes, GPUs and concurrent copies. -/
theorem msys_writes_only_copy_bytes (c0 : MCfg) (hinj : PtInj c0.sys.pt) (ops : List MOp) :
    let s0 := reachMSys c0 ops
    ∀ s ∈ s0.lanes, ∀ t ∈ s.mlog, t.write = true → ∃ (rq : MqReq) (p : Piece), s.reqOfDma t.owner = some rq ∧
      s.pieceOf rq = some p ∧ p.cmd ∈ s.cmds ∧ p.cmd.kind = .h2d ∧ t.bytes.length = t.len ∧
      ∀ j, j < t.len → ∃ i, i < p.cmd.len ∧ translate c0.sys.pt (p.cmd.addr + i) = some (t.addr + j) ∧
        t.bytes[j]? = p.cmd.data[i]? := by
  intro s0 s hs t ht hw
  have h := (reachMSys_inv c0 ops).lanes s hs
  generalize c0.sys = c at h hinj ⊢
  obtain ⟨rq, p, x⟩ := h.tx_ctx hinj ht
  obtain ⟨rq', p', a1, a2, a3, _⟩ := h.data.data t ht
  have hp : p' = p := by
    have : rq' = rq := Option.some.inj (a1.symm.trans x.req)
    subst this
    exact Option.some.inj (a2.symm.trans x.piece)
  subst hp
  have hkind : p'.cmd.kind = .h2d := by
    have hd := x.dir
    rw [hw] at hd
    rcases h.wf.kind p'.cmd x.cmd_mem with hk | hk
    · exact hk
    · rw [hk] at hd; simp [mqKindToDma] at hd
  have hdl := h.wf.data p'.cmd x.cmd_mem hkind
  have hlo := x.lo
  have hhi := x.hi
  have hin := x.inside
  have hbytes := a3 hw
  have hoff : p'.off + (t.addr - p'.pa) + t.len ≤ p'.cmd.data.length := by omega
  refine ⟨rq', p', a1, a2, x.cmd_mem, hkind, by rw [hbytes]; exact take_drop_len _ _ _ hoff, ?_⟩
  intro j hj
  refine ⟨p'.off + (t.addr - p'.pa) + j, by omega, ?_, ?_⟩
  · have := x.tr ((t.addr - p'.pa) + j) (by omega)
    rw [h.pt] at this
    have e1 : p'.cmd.addr + (p'.off + (t.addr - p'.pa) + j) = p'.cmd.addr + p'.off + ((t.addr - p'.pa) + j) := by omega
    have e2 : p'.pa + ((t.addr - p'.pa) + j) = t.addr + j := by omega
    rw [e1, this, e2]
  · rw [hbytes]; exact take_drop_getElem? _ _ _ _ hj hoff


example : ∃ l ∈ (reachMSys demoMCfg demoMOps).lanes, ∃ t ∈ l.mlog, t.write = true := by decide +kernel

/-- the moves of the one-GPU system as moves of the several-GPU system with one GPU -/
def MOp.ofSys : SysOp → MOp
  | .enq q h a l x => .enq q h a l x
  | .drvTick => .drvTick
  | .toCp => .toCp
  | .toDrv => .toDrv 0
  | op => .gpu 0 op

/-- the several-GPU system `m` (one lane) and the one-GPU system `s` are in the same state: same driver
    state (completions, requests created, answered, taken), same transactions in the same order, same
    memory, same command-processor and DMA-engine logs -/
def OneGpuAgrees (m : MSys) (s : Sys) : Prop :=
  m.mq.s.completed = s.mq.s.completed ∧ m.mq.s.created = s.mq.s.created ∧ m.mq.s.answered = s.mq.s.answered ∧
  m.mq.seen = s.mq.seen ∧
  m.lanes.map (fun l => l.mlog.map (fun t => (t.id, t.addr, t.bytes))) = [s.mlog.map (fun t => (t.id, t.addr, t.bytes))] ∧
  m.lanes.map (fun l => l.mlog.map (fun t => (t.write, t.len, t.owner))) = [s.mlog.map (fun t => (t.write, t.len, t.owner))] ∧
  m.lanes.map (fun l => (l.mem.map (fun e => (e.1, e.2)), l.cp.answered, l.dma.drained, l.mq.seen)) =
    [(s.mem.map (fun e => (e.1, e.2)), s.cp.answered, s.dma.drained, s.mq.seen)]

instance (m : MSys) (s : Sys) : Decidable (OneGpuAgrees m s) := by unfold OneGpuAgrees; infer_instance

/-- **With one GPU the several-GPU system replays the one-GPU system `Sys`** (the model the `c11 sys` lines
    compare with the real driver + command processor + DMA engine) — kernel-checked on the one-GPU demo run. -/
theorem msys_one_gpu_replays_sys_demo :
    OneGpuAgrees (reachMSys { sys := demoSysCfg, nGpus := 1, own := fun _ => 0 } (demoSysOps.map MOp.ofSys))
      (reachSys demoSysCfg demoSysOps) := by
  decide +kernel

example : (reachSys demoSysCfg demoSysOps).mlog.length = 4 := by decide +kernel

/-- **Each copy command of the several-GPU system completes exactly once**, in queue order; a completed
    command had `mqWant N c` requests — one flush request per GPU if it needs flushing plus one per page
    piece — and all of them were answered (`mq_complete_exactly_once` for the one driver of `MSys`). -/
theorem msys_complete_exactly_once (c : MCfg) (ops : List MOp) :
    let s := reachMSys c ops
    s.mq.s.completed.Nodup ∧
    (∀ qi q, s.mq.s.queues[qi]? = some q → (s.mq.s.completed.filter (·.1 = qi)).map (·.2) = List.range q.done) ∧
    (∀ qi seq, (qi, seq) ∈ s.mq.s.completed → (∀ r ∈ s.mq.reqsOf qi seq, r.id ∈ s.mq.s.answered) ∧
      ∃ cm, (s.mq.enqOf qi)[seq]? = some cm ∧ (s.mq.reqsOf qi seq).length = mqWant c.nGpus cm) := by
  intro s
  obtain ⟨mo, hmq⟩ := (reachMSys_inv c ops).mq
  obtain ⟨h1, h2, h3⟩ := mq_complete_exactly_once c.nGpus c.sys.cycH2D c.sys.cycD2H c.sys.nQueues c.sys.warm mo
  rw [← hmq] at h1 h2 h3
  exact ⟨h1, fun qi q hq => (h2 qi q hq).1, h3⟩

/-- the demo: one completion; the command had 2 flush requests (two GPUs) + 2 page pieces -/
example : (reachMSys demoMCfg demoMOps).mq.s.completed = [(0, 0)] ∧
    ((reachMSys demoMCfg demoMOps).mq.reqsOf 0 0).length = 4 := by decide +kernel

end C11
