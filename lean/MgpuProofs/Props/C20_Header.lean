import MgpuProofs.C20_HeaderLemmas
/-! # C20 — property theorems for the trace header, `kernelslist.g` and the benchmark builder

"Parsing a serialised trace returns exactly the structure that was serialised; the work handed to the
driver is the work in the trace files."  Model: `MgpuModel/C20_Header.lean` (tied to
`readTraceHeader` / `updateTraceHeaderParam`, `generateExcutions` / `BuildExecFromText`,
`BenchmarkBuilder.Build` / `generateKernelTrace` by `harness/c20_header.go`). -/
namespace C20

/-! ## witnesses -/

/-- the header of the shipped sample trace -/
def sampleHeader : KernelFileHeader :=
  { kernelName := "_Z9vectorAddPKfS0_Pfi".toList
    kernelID := 1
    gridDim := (196, 1, 1)
    blockDim := (256, 1, 1)
    shmem := 0
    nregs := 12
    binaryVersion := 80
    cudaStreamID := 0
    shmemBaseAddr := 0x7fb139000000
    localMemBaseAddr := 0x7fb137000000
    nvbitVersion := "1.7".toList
    accelsimTracerVersion := "5".toList
    enableLineinfo := false }

theorem sampleHeader_ranges : sampleHeader.Ranges := by
  constructor <;> first | decide | (unfold DimOK; decide)

theorem sampleHeader_WF : sampleHeader.WF :=
  ⟨sampleHeader_ranges, by unfold StrOK; decide, by unfold StrOK; decide, by unfold StrOK; decide⟩

/-- a header whose kernel name contains `=` (a demangled name with a default template argument) -/
def eqHeader : KernelFileHeader := { sampleHeader with kernelName := "k<a=1>".toList }

theorem eqHeader_ranges : eqHeader.Ranges := by
  constructor <;> first | decide | (unfold DimOK; decide)

/-- a header whose kernel name has blanks at both ends -/
def blankHeader : KernelFileHeader := { sampleHeader with kernelName := " padded name ".toList }

/-! ## header -/

/-- **Header round trip (full strength for the values the format can carry).**  For every header whose
    numeric fields are in the ranges of their Go types (`int32`; the two base addresses non-negative
    `int64`, printed `0x%016x`) and whose three strings have no white space at either end (they may contain `=`:
    the repaired reader splits a line at its first `=` only),
    `readTraceHeader` applied to the rendered block followed by `rest` (nothing, or lines starting with a
    non-empty line that does not begin with `-`) returns exactly the header — whatever the header
    structure held before — and leaves exactly `rest` to the thread-block parser. -/
theorem header_parse_render (h0 h : KernelFileHeader) (wf : h.WF) (rest : List (List Char)) (hr : RestHdr rest) :
    readHeader h0 (renderHeader h ++ rest) = .ok (h, rest) :=
  readHeader_render h0 h wf rest hr

/-- non-vacuity: the sample header is well-formed, its rendering is the text of the shipped file, and a
    body may follow -/
example : sampleHeader.WF ∧ RestHdr (renderBody opText []) ∧
    (renderHeader sampleHeader).take 3 =
      ["-kernel name = _Z9vectorAddPKfS0_Pfi".toList, "-kernel id = 1".toList, "-grid dim = (196,1,1)".toList] ∧
    (renderHeader sampleHeader)[8]? = some "-shmem base_addr = 0x00007fb139000000".toList :=
  ⟨sampleHeader_WF, renderBody_restHdr _ _, by decide +kernel, by decide +kernel⟩

/-- the kernel name `k<a=1>` (finding `C20-header-value-cut-at-equals`, repaired) is a value the format carries: the
    header is well-formed and comes back -/
theorem eqHeader_WF : eqHeader.WF :=
  ⟨eqHeader_ranges, by unfold StrOK; decide, by unfold StrOK; decide, by unfold StrOK; decide⟩

theorem header_value_with_equals_kept (h0 : KernelFileHeader) :
    readHeader h0 (renderHeader eqHeader) = .ok (eqHeader, []) := by
  have := header_parse_render h0 eqHeader eqHeader_WF [] (Or.inl rfl)
  simpa using this

/-- before the repair the reader cut that value at its first `=`: the rendered line `-kernel name = k<a=1>` reached
    `updateTraceHeaderParam` with the value `k<a` -/
theorem header_value_cut_before_fix (h : KernelFileHeader) :
    headerLineOld h (renderKV "kernel name" "k<a=1>".toList) = .ok { h with kernelName := "k<a".toList } ∧
    headerLine h (renderKV "kernel name" "k<a=1>".toList) = .ok { h with kernelName := "k<a=1>".toList } := by
  constructor
  · rw [headerLineOld_renderKV h "kernel name" _ (by decide) (by decide)]
    rfl
  · rw [headerLine_renderKV h "kernel name" _ (by decide) (by decide)]
    rfl

/-- the statement without the condition on the strings: every header with in-range numbers comes back -/
def header_parse_render_full : Prop :=
  ∀ (h0 h : KernelFileHeader) (rest : List (List Char)), h.Ranges → RestHdr rest →
    readHeader h0 (renderHeader h ++ rest) = .ok (h, rest)

/-- **Strongest statement that holds without conditions on the strings**: the numbers always come back;
    each string comes back trimmed (`strings.TrimSpace`). -/
theorem header_parse_render_partial (h0 h : KernelFileHeader) (rg : h.Ranges) (rest : List (List Char))
    (hr : RestHdr rest) : readHeader h0 (renderHeader h ++ rest) = .ok (h.kept, rest) :=
  readHeader_render_kept h0 h rg rest hr

theorem blankHeader_ranges : blankHeader.Ranges := by
  constructor <;> first | decide | (unfold DimOK; decide)

example : blankHeader.Ranges ∧ blankHeader.kept ≠ blankHeader ∧ eqHeader.kept = eqHeader :=
  ⟨blankHeader_ranges, by decide, by decide⟩

/-- **The full statement is false — of the FORMAT, not of the reader**: a `-key = value` line cannot carry blanks at
    the ends of a value (the writer puts one blank behind the `=`, the reader trims): the kernel name
    ` padded name ` is read back as `padded name`. (The other witness this refutation used to have — a value with
    `=` — was a defect of the reader and is repaired: `header_value_with_equals_kept`.) -/
theorem header_parse_render_full_refuted : ¬ header_parse_render_full := by
  intro hfull
  have h1 := hfull {} blankHeader [] blankHeader_ranges (Or.inl rfl)
  rw [header_parse_render_partial {} blankHeader blankHeader_ranges [] (Or.inl rfl)] at h1
  have h2 : blankHeader.kept = blankHeader := by
    injection h1 with h1
    exact (Prod.mk.inj h1).1
  exact absurd h2 (by decide)

/-- what the reader makes of the two witnesses (evaluated by the kernel on the model the harness ties to
    the code): the name with `=` comes back whole, the padded one trimmed -/
theorem header_witnesses_read :
    (readHeader {} (renderHeader eqHeader)).toOption = some (eqHeader, []) ∧
    (readHeader {} (renderHeader blankHeader)).toOption =
      some ({ blankHeader with kernelName := "padded name".toList }, []) := by
  constructor <;> decide +kernel

/-! ## header + body -/

/-- a one-block trace: one warp with one instruction, one warp with `insts = 0` -/
def sampleTBs : List TBT :=
  [{ id := (3, 0, 1), warps := [{ id := 0, count := 1, insts := [{ legacyWitness with op := some "LDG.E.64".toList }] }, { id := 7 }] }]

theorem sampleTBs_WF : ∀ t ∈ sampleTBs, t.WF true := by
  intro t ht
  simp only [sampleTBs, List.mem_singleton] at ht
  subst ht
  refine ⟨by decide, by decide, by decide, by decide, by decide, by decide, ?_⟩
  intro w hw
  simp only [List.mem_cons, List.mem_nil_iff, or_false] at hw
  rcases hw with rfl | rfl
  · refine ⟨by decide, by decide, by decide, by decide, ?_⟩
    intro i hi
    simp only [List.mem_singleton] at hi
    subst hi
    constructor <;> simp [legacyWitness, OpWF]
  · exact ⟨by decide, by decide, by decide, by decide, by intro i hi; cases hi⟩

/-- **Whole-file round trip.**  `ReadTrace` applied to the serialisation of a well-formed header followed
    by the serialisation of well-formed thread blocks (all of `parse_render`: registers, the three address
    compression forms, `insts = 0` warps, any opcode text) returns exactly the header and the thread
    blocks: the line that ends the header is seen again by the thread-block parser, nothing is skipped. -/
theorem parse_render_file (h : KernelFileHeader) (wf : h.WF) (ts : List TBT) (hwf : ∀ t ∈ ts, t.WF true) :
    parseFile (renderHeader h ++ renderBody opText ts) = .ok (h, ts) :=
  parseFile_render h wf ts hwf

example : sampleHeader.WF ∧ (∀ t ∈ sampleTBs, t.WF true) ∧
    (renderHeader sampleHeader ++ renderBody opText sampleTBs).length = 29 :=
  ⟨sampleHeader_WF, sampleTBs_WF, by decide +kernel⟩

/-! ## kernelslist.g -/

/-- the shipped sample list plus a device-to-host copy -/
def sampleList : List Exec :=
  [.memcpy h2d 0x7fb0fc400000 200000, .memcpy h2d 0x7fb0fc430e00 200000, .kernel "kernel-1.traceg".toList,
   .memcpy d2h 18446744073709551615 0]

theorem sampleList_WF : ∀ e ∈ sampleList, e.WF := by
  intro e he
  simp only [sampleList, List.mem_cons, List.mem_nil_iff, or_false] at he
  rcases he with rfl | rfl | rfl | rfl
  · exact ⟨Or.inl rfl, by decide, by decide⟩
  · exact ⟨Or.inl rfl, by decide, by decide⟩
  · show hasPrefix "kernel" _ = true
    decide
  · exact ⟨Or.inr rfl, by decide, by decide⟩

/-- **`kernelslist.g` round trip.**  For every list of entries — kernel entries whose file name starts with
    `kernel`, memcpy entries with direction `MemcpyHtoD` or `MemcpyDtoH` and `uint64` address and length
    (`klist_parse_render_full_holds` drops the condition on the direction) —
    `generateExcutions` applied to the rendered lines (`MemcpyHtoD,0x%016x,%d` / the file name) returns
    exactly the entries, in order. -/
theorem klist_parse_render (es : List Exec) (hwf : ∀ e ∈ es, e.WF) :
    readKernelsList (renderKernelsList es) = .ok es := by
  have hk : es.map Exec.kept = es := by
    have : es.map Exec.kept = es.map id := List.map_congr_left (fun e he => (hwf e he).kept)
    rw [this, List.map_id]
  rw [readKernelsList_render es (fun e he => (hwf e he).ranges), hk]

example : (∀ e ∈ sampleList, e.WF) ∧
    renderKernelsList sampleList = ["MemcpyHtoD,0x00007fb0fc400000,200000".toList,
      "MemcpyHtoD,0x00007fb0fc430e00,200000".toList, "kernel-1.traceg".toList,
      "MemcpyDtoH,0xffffffffffffffff,0".toList] :=
  ⟨sampleList_WF, by decide +kernel⟩

/-- the statement for every direction text the reader accepts (`Memcpy…` without a comma) -/
def klist_parse_render_full : Prop :=
  ∀ es : List Exec, (∀ e ∈ es, e.Ranges) → readKernelsList (renderKernelsList es) = .ok es

/-- **It holds since the repair** (finding `C20-memcpy-direction-dropped`): addresses, lengths, file names, the order
    AND the direction of every accepted memcpy line come back, whatever the direction text is. -/
theorem klist_parse_render_full_holds : klist_parse_render_full := by
  intro es h
  have hk : es.map Exec.kept = es := by
    have : es.map Exec.kept = es.map id := List.map_congr_left (fun e _ => by cases e <;> rfl)
    rw [this, List.map_id]
  rw [readKernelsList_render es h, hk]

/-- a device-to-device copy -/
def d2dList : List Exec := [.memcpy "MemcpyDtoD".toList 0x1000 64]

theorem d2dList_ranges : ∀ e ∈ d2dList, e.Ranges := by
  intro e he
  simp only [d2dList, List.mem_singleton] at he
  subst he
  exact ⟨by decide, by decide, by decide, by decide⟩

example : renderKernelsList d2dList = ["MemcpyDtoD,0x0000000000001000,64".toList] ∧
    (readKernelsList (renderKernelsList d2dList)).toOption = some d2dList := by
  constructor <;> decide +kernel

/-- **before the repair** `BuildExecFromText` (`buildExecOld`) accepted `MemcpyDtoD,0x0000000000001000,64` and returned
    it with `Direction = ""` (it copied the direction for `MemcpyHtoD` / `MemcpyDtoH` only); the repaired one keeps it -/
theorem klist_direction_dropped_before_fix :
    (buildExecOld "MemcpyDtoD,0x0000000000001000,64".toList).toOption = some (.memcpy [] 4096 64) ∧
    (buildExec "MemcpyDtoD,0x0000000000001000,64".toList).toOption = some (.memcpy "MemcpyDtoD".toList 4096 64) ∧
    (buildExecOld "MemcpyHtoD,0x0000000000001000,64".toList).toOption = some (.memcpy h2d 4096 64) := by
  refine ⟨by decide +kernel, by decide +kernel, by decide +kernel⟩

/-! ## benchmark builder -/

/-- **Work handed to the driver = work in the trace file.**  For a well-formed serialised trace, the
    `nvidiaconfig.Kernel` that `generateKernelTrace` builds from the parsed file has exactly the shape of
    the serialised structure — one block per thread block, one warp per warp, `InstructionsCount` = the
    number of instruction lines of that warp — so the instruction total (`instsOfKernel`, what
    `conservation` counts) equals the number of instruction lines in the file, and the warp total the
    number of serialised warps. -/
theorem bench_counts (h : KernelFileHeader) (wf : h.WF) (ts : List TBT) (hwf : ∀ t ∈ ts, t.WF true) :
    (parseFile (renderHeader h ++ renderBody opText ts)).map (fun p => kernelOf p.2) =
      .ok (ts.map (fun t => t.warps.map (fun w => w.insts.length))) ∧
    instsOfKernel (kernelOf ts) = ((renderHeader h ++ renderBody opText ts).filter isInstLine).length ∧
    warpsOfKernel (kernelOf ts) = sum (ts.map (fun t => t.warps.length)) := by
  refine ⟨?_, (count_file h opText ts).symm, warps_kernelOf ts⟩
  rw [parse_render_file h wf ts hwf]
  rfl

example : kernelOf sampleTBs = [[1, 0]] ∧
    ((renderHeader sampleHeader ++ renderBody opText sampleTBs).filter isInstLine) =
      ["0010 00000001 0 LDG.E.64 0 4 0 0x1000 7".toList] := by
  constructor <;> decide +kernel

/-- **Whole trace directory.**  For a well-formed `kernelslist.g` and trace files that are serialisations
    of well-formed traces (`files f` = the lines of file `f`), `BenchmarkBuilder.Build` succeeds and
    produces one exec per list entry in list order — memcpy entries unchanged, kernel entries with the
    shape of their file — and running the execs hands the driver exactly the kernels of the kernel
    entries, in list order; memcpy entries add no kernel. -/
theorem bench_build (files : List Char → List (List Char)) (hdr : List Char → KernelFileHeader)
    (src : List Char → List TBT) (es : List Exec) (hes : ∀ e ∈ es, e.WF)
    (hf : ∀ f, Exec.kernel f ∈ es → files f = renderHeader (hdr f) ++ renderBody opText (src f) ∧
      (hdr f).WF ∧ ∀ t ∈ src f, t.WF true) :
    buildBench files (renderKernelsList es) = .ok (es.map (benchOf src)) ∧
    driverKernels (es.map (benchOf src)) =
      es.filterMap (fun e => match e with | .kernel f => some (kernelOf (src f)) | .memcpy _ _ _ => none) :=
  ⟨buildBench_render files hdr src es hes hf, driverKernels_benchOf src es⟩

/-- non-vacuity: the sample directory (two copies, one kernel, one copy back) with the sample trace as the
    kernel file; the driver receives the one kernel `[[1, 0]]` -/
example :
    let files := fun (_ : List Char) => renderHeader sampleHeader ++ renderBody opText sampleTBs
    buildBench files (renderKernelsList sampleList) =
      .ok [.memcpy h2d 0x7fb0fc400000 200000, .memcpy h2d 0x7fb0fc430e00 200000, .kernel [[1, 0]],
           .memcpy d2h 18446744073709551615 0] ∧
    driverKernels (sampleList.map (benchOf (fun _ => sampleTBs))) = [[[1, 0]]] := by
  intro files
  have h := bench_build files (fun _ => sampleHeader) (fun _ => sampleTBs) sampleList sampleList_WF
    (fun _ _ => ⟨rfl, sampleHeader_WF, sampleTBs_WF⟩)
  exact ⟨h.1, by decide +kernel⟩

end C20
