import MgpuModel.C01_Kernels3
import MgpuProofs.C01BarEx
import MgpuProofs.C01Tile
import MgpuProofs.C01TTCode
import MgpuProofs.C01TileGrid
import MgpuProofs.C01TileInit
import MgpuProofs.C01TileDesc
import MgpuProofs.C01BarEx2
import MgpuProofs.C01LdsFrame
import MgpuProofs.C01ViewL
import MgpuProofs.C01ViewL4
/-! # C01 — an LDS + barrier kernel class: the barrier rounds of `runWG`, and one tile of `matrixTranspose`

Third deepening.  The shipped kernel is `matrixTranspose` of amd/benchmarks/amdappsdk/matrixtranspose/kernels.hsaco
(literal `transposeKernelCode`, tied to the loader by the case `c01 ttcode` of harness/c01_tt.go, which also checks
the real emulator's result against the transposed input and the frame; the Lean emulator does NOT run this kernel:
its `v_rcp_iflag_f32` is outside the C03V specification).

* `runWG_one_barrier` — the loop of `emu.ComputeUnit.runWG` on a work-group with ONE `S_BARRIER`: phase-1
  descriptions (to the barrier: LDS writes) and phase-2 descriptions (from the barrier: global writes that may read
  the LDS content ALL wavefronts produced) compose to the effect of the work-group.  For every program, every number
  of wavefronts, every memory.
* `transpose_lds_after_phase1`, `transpose_tile_algebra`, `transposeTile_correct` — the per-work-group statement of
  the kernel's algorithm (native/MatrixTranspose_Kernels.cl) at the level of these descriptions: a 16x16 work-group
  whose four wavefronts move the bytes the kernel source says leaves float (C, R) of the 64x64 input tile at float
  (R, C) of the output tile, byte for byte, and no other byte of memory changed; every tile position, matrix size,
  address and memory content.
* `transposeKernel_lds_insts` — the LDS / barrier / memory instructions of the SHIPPED code bytes: the C04 decoder
  (evaluated by the kernel) finds four `flat_load_dwordx4`, four `ds_write2_b64 … offset1:1`, the `s_barrier` at byte
  516, four `ds_read2_b64 … offset1:1`, four `flat_store_dwordx4`, `s_endpgm` at byte 752, and the C03V specification
  gives the eight DS instructions the meaning "16 bytes per active lane at `VGPR[addr]`" (two adjacent 8-byte halves).

* `transposeGrid_workgroups`, `transposeGrid_algebra`, `transposeGrid_from_wave_descriptions` — the lifting over
  the grid: for every `nb ≥ 1` (matrix of `64 nb` floats per side) the `nb²` work-groups the grid builder produces,
  each through the two rounds of `runWG`, leave the transposed MATRIX in the output buffer and change nothing else —
  conditional on the per-wavefront descriptions (`TT.WGDesc`).

What is NOT proved (see notes/C01.md): that the 146 instructions of the shipped code realise the phase descriptions
(`TT.WGDesc`: `Phase1 … lwWave`, `Phase2 … wrWave` for the four wavefronts of every work-group) — the per-wavefront
symbolic execution, which includes the per-lane unsigned division sequence for `(gix + giy) % num_of_blocks_x`
(`v_rcp_iflag_f32`, not in C03V). -/
set_option linter.unusedVariables false
set_option maxRecDepth 100000
namespace C01
namespace Emu
open C03V

/-- **runWG_one_barrier.** A work-group (any non-empty list of wavefronts) in which every wavefront `w` has a
    phase-1 description (`Phase1`: from any admissible memory and ANY LDS content it runs to `S_BARRIER`; memory
    content unchanged; LDS content changed by the byte writes `lw w`; the parked wavefront satisfies `Q w`) and every
    parked wavefront, once released, a phase-2 description (`Phase2`: with the LDS content
    `applyWrites (ws.flatMap lw) L0` — the writes of ALL wavefronts, in wavefront order, on the initial content — it
    runs to `S_ENDPGM`, LDS unchanged, memory changed by `wr w`): `runWG` returns without fault after two passes, the
    memory content is the initial one with the phase-2 writes of all wavefronts applied, and stays admissible. -/
theorem runWG_one_barrier (P : Program) (base fuel rounds : Nat) (Ok : Mem → Prop) (L0 : Nat → Nat)
    (lw wr : Wave → List (Nat × Nat)) (Q : Wave → Wave → Prop) (ws : List Wave) (hne : ws ≠ [])
    (h1 : ∀ w ∈ ws, Phase1 P base fuel Ok w (lw w) (Q w))
    (h2 : ∀ w ∈ ws, ∀ w1, Q w w1 → w1.completed = false →
      Phase2 P base fuel Ok (applyWrites (ws.flatMap lw) L0) { w1 with atBarrier := false } (wr w))
    (m l : Mem) (hok : Ok m) (hl : get l = L0) :
    ∃ m', runWG P base fuel (rounds + 2) ws m l = .ok m' ∧
      get m' = applyWrites (ws.flatMap wr) (get m) ∧ Ok m' :=
  runWG_barrier_round P base fuel rounds Ok L0 lw wr Q ws hne h1 h2 m l hok hl

/-- **transpose_lds_after_phase1.** After the phase-1 writes of the four wavefronts of a 16x16 work-group
    (`block[liy*64 + lix + 16 r] = input[index_in + r*wiWidth]`), whatever the LDS held before: byte `j` of LDS float4
    `16 ρ + q` is byte `j` of float4 column `q` in row `ρ` of the 64x64-float input tile. -/
theorem transpose_lds_after_phase1 (T : TT.Tile) (f0 L0 : Nat → Nat) (ρ q j : Nat) (hρ : ρ < 64) (hq : q < 16) (hj : j < 16) :
    applyWrites (TT.lwAll T f0) L0 (16 * (16 * ρ + q) + j) = f0 (T.inF4 ρ q + j) :=
  TT.lds_content T f0 L0 ρ q j hρ hq hj

/-- **transpose_tile_algebra.** The phase-2 writes (`v_r = block[lix*64 + liy + 16 r]`,
    `output[index_out + c*wiHeight] = (v_0[c], v_1[c], v_2[c], v_3[c])`) reading that LDS content, applied to any
    memory content `g`: byte `b` of float (R, C) of the output tile = byte `b` of float (C, R) of the input tile, and
    every address outside the output tile keeps its content. -/
theorem transpose_tile_algebra (T : TT.Tile) (hT : T.Fits) (f0 L0 g : Nat → Nat) :
    let g' := applyWrites (TT.wrAll T (applyWrites (TT.lwAll T f0) L0)) g
    (∀ R C b, R < 64 → C < 64 → b < 4 → g' (T.outAddr R C + b) = f0 (T.inAddr C R + b)) ∧
    (∀ a, (∀ R C b, R < 64 → C < 64 → b < 4 → a ≠ T.outAddr R C + b) → g' a = g a) :=
  TT.tile_algebra T hT f0 L0 g

/-- **transposeTile_correct** (per-work-group lemma: one tile transposed through LDS with the barrier).  A work-group
    whose wavefronts have phase descriptions that concatenate to the kernel's data movement (`lwAll`: the input tile
    into LDS; `wrAll`: LDS columns gathered into output rows) runs through `runWG` — two passes, `resolveBarrier` in
    between — without fault, leaves the TRANSPOSED tile in the output matrix, byte for byte (`f0` = the input
    content the phase-1 descriptions were taken on), and every other byte of memory unchanged. -/
theorem transposeTile_correct (T : TT.Tile) (hT : T.Fits) (f0 L0 : Nat → Nat)
    (P : Program) (base fuel rounds : Nat) (Ok : Mem → Prop)
    (lw wr : Wave → List (Nat × Nat)) (Q : Wave → Wave → Prop) (ws : List Wave) (hne : ws ≠ [])
    (hlw : ws.flatMap lw = TT.lwAll T f0)
    (hwr : ws.flatMap wr = TT.wrAll T (applyWrites (TT.lwAll T f0) L0))
    (h1 : ∀ w ∈ ws, Phase1 P base fuel Ok w (lw w) (Q w))
    (h2 : ∀ w ∈ ws, ∀ w1, Q w w1 → w1.completed = false →
      Phase2 P base fuel Ok (applyWrites (TT.lwAll T f0) L0) { w1 with atBarrier := false } (wr w))
    (m l : Mem) (hok : Ok m) (hl : get l = L0) :
    ∃ m', runWG P base fuel (rounds + 2) ws m l = .ok m' ∧ Ok m' ∧
      (∀ R C b, R < 64 → C < 64 → b < 4 → get m' (T.outAddr R C + b) = f0 (T.inAddr C R + b)) ∧
      (∀ a, (∀ R C b, R < 64 → C < 64 → b < 4 → a ≠ T.outAddr R C + b) → get m' a = get m a) :=
  TT.tile_transposed T hT f0 L0 P base fuel rounds Ok lw wr Q ws hne hlw hwr h1 h2 m l hok hl


/-! ## the whole launch -/

/-- **transposeGrid_workgroups.** The launch of the benchmark on a square matrix with `nb` blocks of 64 floats per
    side — grid `(16 nb, 16 nb, 1)`, work-groups `(16, 16, 1)` — makes the grid builder produce exactly `nb²`
    full-size work-groups, the `n`-th with id `(n % nb, n / nb, 0)` (C08 `wgs_enumerate`). -/
theorem transposeGrid_workgroups (nb : Nat) (h : 0 < nb) :
    wgList (TT.geoT nb) = (List.range (nb * nb)).map (TT.wgT nb) :=
  TT.wgList_geoT nb h

/-- **transposeGrid_algebra.** The phase-2 writes of all `nb²` work-groups (work-group `(a, b)` moves input block
    (row `a`, column `(a + b) % nb`) — the kernel's `gix = (gix_t + giy_t) % num_of_blocks_x`, `giy = gix_t`), each
    reading the LDS content its own phase 1 left, applied to any memory content: float (Rg, Cg) of the output matrix
    holds float (Cg, Rg) of the input matrix, byte for byte, for ALL `Rg, Cg < 64 nb`; nothing outside the output
    matrix changes.  Every `nb ≥ 1` (= every admissible size: width a multiple of 64), every address. -/
theorem transposeGrid_algebra (inp out nb : Nat) (hnb : 0 < nb) (f0 L0 g : Nat → Nat) :
    let g' := applyWrites (TT.gridWrites inp out nb f0 L0) g
    (∀ Rg Cg b, Rg < 64 * nb → Cg < 64 * nb → b < 4 →
      g' (out + 4 * (64 * nb * Rg + Cg) + b) = f0 (inp + 4 * (64 * nb * Cg + Rg) + b)) ∧
    (∀ a, (a < out ∨ out + 4 * (64 * nb * (64 * nb)) ≤ a) → g' a = g a) :=
  TT.grid_algebra inp out nb hnb f0 L0 g

/-- **transposeGrid_from_wave_descriptions** (the grid-level statement, CONDITIONAL on the per-wavefront
    descriptions).  For every program `P` and dispatch `D` with the benchmark's geometry: if the wavefronts of every
    work-group have phase descriptions (`TT.WGDesc`: `Phase1` to the barrier with LDS writes concatenating to `lwAll`
    of the group's tile, `Phase2` from the barrier with memory writes concatenating to `wrAll`, both stable under an
    admissibility predicate `Ok` of the user's choice), then `Emu.runE` — install packet and kernel arguments, then
    work-group after work-group through the two rounds of `runWG` on a fresh LDS — returns without fault a memory
    that holds the TRANSPOSED matrix (float (Rg, Cg) of the output = float (Cg, Rg) of `f0`, byte for byte, all
    `Rg, Cg < 64 nb`) and equals the launch memory at every address outside the output matrix.
    What this leaves open for the SHIPPED kernel is exactly `TT.WGDesc` for `⟨transposeKernelCode, false⟩`: the
    symbolic execution of its 146 instructions per wavefront. -/
theorem transposeGrid_from_wave_descriptions (P : Program) (D : Dispatch) (nb : Nat) (hnb : 0 < nb)
    (hgeo : D.geo = TT.geoT nb) (inp out r : Nat) (f0 : Nat → Nat) (Ok : Mem → Prop)
    (hwg : ∀ n, n < nb * nb → TT.WGDesc P D (r + 2) Ok inp out nb f0 n)
    (m : Mem) (hok : Ok (install D.packetAddr D.packet (install D.kernargAddr D.kernarg m))) :
    ∃ m', runE P D (r + 2) m = .ok m' ∧ Ok m' ∧
      (∀ Rg Cg b, Rg < 64 * nb → Cg < 64 * nb → b < 4 →
        get m' (out + 4 * (64 * nb * Rg + Cg) + b) = f0 (inp + 4 * (64 * nb * Cg + Rg) + b)) ∧
      (∀ a, (a < out ∨ out + 4 * (64 * nb * (64 * nb)) ≤ a) →
        get m' a = get (install D.packetAddr D.packet (install D.kernargAddr D.kernarg m)) a) :=
  TT.runE_transpose P D nb hnb hgeo inp out r f0 Ok hwg m hok

/-- **transpose_wave_init.** Where the per-wavefront symbolic execution has to start: `initWfs` / `initWfRegs` on the
    `n`-th work-group of the launch (code object V3, work-item-id enable 1 — the shipped kernel's flags, reported by
    the harness) form exactly four wavefronts, all 64 lanes enabled, not completed, and lane `l` of wavefront `k`
    holds `lix = (64 k + l) % 16` in v0 and `liy = (64 k + l) / 16` in v1 — the indices of `lwWave` / `wrWave`. -/
theorem transpose_wave_init (D : Dispatch) (nb n : Nat) (hgeo : D.geo = TT.geoT nb) (hv5 : D.v5 = false)
    (hwi : D.vgprWI = 1) :
    wavesOf D (TT.wgT nb n) = (List.range 4).map (fun k => initWave D (TT.wgT nb n) ⟨64 * k, TT.fullMask, 64⟩) ∧
    ∀ k lane, k < 4 → lane < 64 →
      (initWave D (TT.wgT nb n) ⟨64 * k, TT.fullMask, 64⟩).st.rv 0 lane = (64 * k + lane) % 16 ∧
      (initWave D (TT.wgT nb n) ⟨64 * k, TT.fullMask, 64⟩).st.rv 1 lane = (64 * k + lane) / 16 ∧
      (initWave D (TT.wgT nb n) ⟨64 * k, TT.fullMask, 64⟩).st.exec = TT.fullMask ∧
      (initWave D (TT.wgT nb n) ⟨64 * k, TT.fullMask, 64⟩).completed = false :=
  ⟨TT.wavesOf_geoT D nb n hgeo, fun k lane hk hl => TT.initWave_ids D nb hgeo hv5 hwi _ k lane hk hl⟩

/-- **transposeGrid_from_wave_phases** (the same grid statement with the hypothesis cut down to what a
    per-wavefront symbolic execution delivers).  The four wavefronts of a work-group are recognised by their lane-0
    local id (`TT.waveIdx`), so the write-list functions of `TT.WGDesc` exist canonically; what remains is, for every
    work-group `n < nb²` and wavefront `k < 4` (`TT.waveT D nb n k` = what `initWfs` builds, `transpose_wave_init`):
    `Phase1 … (lwWave tile f0 k)` to the barrier and `Phase2 … (wrWave tile L k)` from it. -/
theorem transposeGrid_from_wave_phases (P : Program) (D : Dispatch) (nb : Nat) (hnb : 0 < nb) (hgeo : D.geo = TT.geoT nb)
    (hv5 : D.v5 = false) (hwi : D.vgprWI = 1) (inp out r : Nat) (f0 : Nat → Nat) (Ok : Mem → Prop)
    (Q : Nat → Nat → Wave → Prop)
    (h1 : ∀ n k, n < nb * nb → k < 4 →
      Phase1 P D.kernelObject (r + 2) Ok (TT.waveT D nb n k) (TT.lwWave (TT.gridTile inp out nb n) f0 k) (Q n k))
    (h2 : ∀ n k, n < nb * nb → k < 4 → ∀ w1, Q n k w1 → w1.completed = false →
      Phase2 P D.kernelObject (r + 2) Ok (applyWrites (TT.lwAll (TT.gridTile inp out nb n) f0) (fun _ => 0))
        { w1 with atBarrier := false }
        (TT.wrWave (TT.gridTile inp out nb n) (applyWrites (TT.lwAll (TT.gridTile inp out nb n) f0) (fun _ => 0)) k))
    (m : Mem) (hok : Ok (install D.packetAddr D.packet (install D.kernargAddr D.kernarg m))) :
    ∃ m', runE P D (r + 2) m = .ok m' ∧ Ok m' ∧
      (∀ Rg Cg b, Rg < 64 * nb → Cg < 64 * nb → b < 4 →
        get m' (out + 4 * (64 * nb * Rg + Cg) + b) = f0 (inp + 4 * (64 * nb * Cg + Rg) + b)) ∧
      (∀ a, (a < out ∨ out + 4 * (64 * nb * (64 * nb)) ≤ a) →
        get m' a = get (install D.packetAddr D.packet (install D.kernargAddr D.kernarg m)) a) :=
  TT.runE_transpose_of_phases P D nb hnb hgeo hv5 hwi inp out r f0 Ok Q h1 h2 m hok

/-! ## LDS in the symbolic-execution view -/

/-- **only_ds_touches_lds.** The frame fact that makes every existing per-class step lemma (`C01Insts`: they describe
    the state after a step through `View`, which has no LDS component) usable in LDS-aware symbolic execution: a step
    of the emulator on a decoded instruction whose encoding is not DS (bits 31..26 ≠ 0x36) — scalar ALU, SMEM, FLAT,
    EVERY VALU form of the C03V specification, `S_BARRIER`, `S_ENDPGM` — leaves the LDS association list as it was. -/
theorem only_ds_touches_lds (P : Program) (hP : P.cdna3 = false) (base k : Nat) (st st' : St) (c : Ctl)
    (hpc : st.pc = base + k) (ft op sz : Nat) (hd : DecV ((P.code.drop k).take 8) ft op sz)
    (hnd : field (leWord (((P.code.drop k).take 8).take sz) 0) 26 31 ≠ 0x36)
    (h : step P base st = .ok (st', c)) : st'.lds = st.lds :=
  step_lds_frame P hP base k st st' c hpc ft op sz hd hnd h

/-- **ds_writes_no_global_memory.** Conversely a DS instruction (any of the 22 the C03V specification knows) writes
    VGPR and LDS cells only: committing its write list leaves the global-memory list untouched. -/
theorem ds_writes_no_global_memory (st : St) (w0 w1 : Nat) (name : String) (ws : List Wr)
    (h : execDS st w0 w1 = some (name, ws)) : (applyWrs st ws).mem = st.mem :=
  mem_applyWrs_noMem st ws (execDS_noMem st w0 w1 name ws h)

/-- **view_lift_non_ds.** `SeesL st V L` = the state is described by the `View` `V` and its LDS content by `L`.  Any
    existing per-class step lemma (its conclusion is the hypothesis `hstep`) on a decoded non-DS instruction yields the
    same view transformer on `SeesL`, with `L` kept. -/
theorem view_lift_non_ds {st : St} {V V' : View} {L : Nat → Nat} (h : SeesL st V L) (P : Program) (hP : P.cdna3 = false)
    (base k : Nat) (hpc : V.pc = base + k) (ft op sz : Nat) (hd : DecV ((P.code.drop k).take 8) ft op sz)
    (hnd : field (leWord (((P.code.drop k).take 8).take sz) 0) 26 31 ≠ 0x36) (c : Ctl)
    (hstep : ∃ st', step P base st = .ok (st', c) ∧ Sees st' V') :
    ∃ st', step P base st = .ok (st', c) ∧ SeesL st' V' L :=
  h.lift P hP base k hpc ft op sz hd hnd c hstep

/-- **step_lds_write16.** `ds_write2_b64 vA, v[D:D+1], v[E:E+1] offset1:1` (the LDS write form of the shipped kernel)
    as a view transformer: PC + 8, registers and memory unchanged, LDS content changed by the 16 bytes per active lane
    at `(VGPR[A] + 0) mod 2^32` and `(VGPR[A] + 8) mod 2^32` that the VIEW's registers give (`viewPairs16`). -/
theorem step_lds_write16 (P : Program) (hP : P.cdna3 = false) (base k A D E : Nat) (hA : A < 256) (hD : D + 1 < 256)
    (hE : E + 1 < 256) (hd : DecV ((P.code.drop k).take 8) 12 78 8) (name : String)
    (hex : ∀ st, exec false st (((P.code.drop k).take 8).take 8) = some (name, dsWrite16 st A D E))
    (st : St) (V : View) (L : Nat → Nat) (h : SeesL st V L) (hpc : V.pc = base + k) :
    ∃ st', step P base st = .ok (st', .next) ∧
      SeesL st' { V with pc := base + k + 8 } (applyWrites (viewPairs16 V A D E) L) :=
  step_ds_write16 P hP base k A D E hA hD hE hd name hex st V L h hpc

/-- **step_lds_read16.** `ds_read2_b64 v[D:D+3], vA offset1:1` (the LDS read form of the shipped kernel) as a view
    transformer: PC + 8; in every active lane the destination VGPRs receive the little-endian dwords of the 16 LDS bytes
    at `VGPR[A]` (`readCells16`: the cells and their values, read off the view and `L`; the address register may be
    among the destinations, as in `ds_read2_b64 v[15:18], v15`); inactive lanes, SGPRs, VCC, EXEC, memory and the LDS
    content unchanged. -/
theorem step_lds_read16 (P : Program) (hP : P.cdna3 = false) (base k A D : Nat) (hA : A < 256)
    (hd : DecV ((P.code.drop k).take 8) 12 119 8) (name : String)
    (hex : ∀ st, exec false st (((P.code.drop k).take 8).take 8) = some (name, dsRead16 st A D))
    (st : St) (V : View) (L : Nat → Nat) (h : SeesL st V L) (hpc : V.pc = base + k) :
    ∃ st', step P base st = .ok (st', .next) ∧
      SeesL st'
        { V with pc := base + k + 8,
                 rv := fun r l => if V.exec.testBit l = true then sel (isV (r * 64 + l)) (readCells16 V L A D l) (V.rv r l)
                                  else V.rv r l } L :=
  step_ds_read16 P hP base k A D hA hd name hex st V L h hpc

/-- **step_barrier_lds.** `S_BARRIER` as a view transformer: the wavefront stops (`Ctl.barrier`) with PC + 4 and
    everything else, the LDS content included, unchanged. -/
theorem step_barrier_lds (P : Program) (hP : P.cdna3 = false) (base k : Nat)
    (hd : DecV ((P.code.drop k).take 8) 4 10 4) (st : St) (V : View) (L : Nat → Nat) (h : SeesL st V L)
    (hpc : V.pc = base + k) :
    ∃ st', step P base st = .ok (st', .barrier) ∧ SeesL st' { V with pc := base + k + 4 } L :=
  step_barrier_view P hP base k hd st V L h hpc

/-- **step_flat_load16_lds.** `flat_load_dwordx4 v[D:D+3], v[A:A+1]` (the 16-byte load of the shipped kernel) as a
    view transformer with LDS component: in every active lane the four destination VGPRs receive the little-endian
    dwords of the 16 memory bytes at the lane's 64-bit address (`loadCells16`); everything else unchanged. -/
theorem step_flat_load16_lds (P : Program) (hP : P.cdna3 = false) (base k A D : Nat) (hA : A + 1 < 256)
    (hd : DecV ((P.code.drop k).take 8) 17 23 8) (name : String)
    (hex : ∀ st, exec false st (((P.code.drop k).take 8).take 8) =
      some (name, (activeLanes st).flatMap fun l => wrVN D l (16 / 4) (st.memRead (gAddr st A l) 16)))
    (st : St) (V : View) (L : Nat → Nat) (h : SeesL st V L) (hpc : V.pc = base + k) :
    ∃ st', step P base st = .ok (st', .next) ∧
      SeesL st'
        { V with pc := base + k + 8,
                 rv := fun r l => if V.exec.testBit l = true then sel (isV (r * 64 + l)) (loadCells16 V A D l) (V.rv r l)
                                  else V.rv r l } L :=
  step_flat_load16 P hP base k A D hA hd name hex st V L h hpc

/-- **step_flat_store16_lds.** `flat_store_dwordx4 v[A:A+1], v[S:S+3]` as a view transformer with LDS component: the
    view's memory changed by the 16 bytes per active lane (`storePairs16`: the four source VGPRs, little-endian, at the
    lane's 64-bit address with wrap), registers and LDS unchanged. -/
theorem step_flat_store16_lds (P : Program) (hP : P.cdna3 = false) (base k A S : Nat) (hA : A + 1 < 256) (hS : S + 3 < 256)
    (hd : DecV ((P.code.drop k).take 8) 17 31 8) (name : String)
    (hex : ∀ st, exec false st (((P.code.drop k).take 8).take 8) =
      some (name, (activeLanes st).flatMap fun l => wrMemBytes (gAddr st A l) 16 (st.rvN S l ((16 + 3) / 4))))
    (st : St) (V : View) (L : Nat → Nat) (h : SeesL st V L) (hpc : V.pc = base + k) :
    ∃ st', step P base st = .ok (st', .next) ∧
      SeesL st' { V with pc := base + k + 8, mem := applyWrites (storePairs16 V A S) V.mem } L :=
  step_flat_store16 P hP base k A S hA hS hd name hex st V L h hpc

/-! ## the shipped code bytes -/

/-- **transposeKernel_lds_insts.** The memory / LDS / barrier skeleton of the shipped code bytes, by evaluating the
    C04 decoder and the C03V specification: loads at 320/444/464/484, LDS writes at 436/456/476/504 (addresses
    v12, v13, v15, v16), `s_barrier` at 516, LDS reads at 540/552/560/568 (addresses v10, v17, v18, v15), stores at
    608/672/704/744, `s_endpgm` at 752. -/
theorem transposeKernel_lds_insts :
    (∀ k ∈ [320, 444, 464, 484], DecV (ttWin k) 17 23 8) ∧
    (∀ k ∈ [436, 456, 476, 504], DecV (ttWin k) 12 78 8) ∧
    DecV (ttWin transposeBarrierAt) 4 10 4 ∧
    (∀ k ∈ [540, 552, 560, 568], DecV (ttWin k) 12 119 8) ∧
    (∀ k ∈ [608, 672, 704, 744], DecV (ttWin k) 17 31 8) ∧
    DecV (ttWin 752) 4 1 4 ∧
    (∀ st, exec false st (ttWin 436) = some ("ds_write2_b64", dsWrite16 st 12 2 4)) ∧
    (∀ st, exec false st (ttWin 456) = some ("ds_write2_b64", dsWrite16 st 13 1 3)) ∧
    (∀ st, exec false st (ttWin 476) = some ("ds_write2_b64", dsWrite16 st 15 1 3)) ∧
    (∀ st, exec false st (ttWin 504) = some ("ds_write2_b64", dsWrite16 st 16 1 3)) ∧
    (∀ st, exec false st (ttWin 540) = some ("ds_read2_b64", dsRead16 st 10 11)) ∧
    (∀ st, exec false st (ttWin 552) = some ("ds_read2_b64", dsRead16 st 17 0)) ∧
    (∀ st, exec false st (ttWin 560) = some ("ds_read2_b64", dsRead16 st 18 4)) ∧
    (∀ st, exec false st (ttWin 568) = some ("ds_read2_b64", dsRead16 st 15 15)) := by
  refine ⟨?_, ?_, DecV_of_ok (by decide +kernel), ?_, ?_, DecV_of_ok (by decide +kernel),
    fun st => by rw [ttw436]; exact ttx436 st, fun st => by rw [ttw456]; exact ttx456 st,
    fun st => by rw [ttw476]; exact ttx476 st, fun st => by rw [ttw504]; exact ttx504 st,
    fun st => by rw [ttw540]; exact ttx540 st, fun st => by rw [ttw552]; exact ttx552 st,
    fun st => by rw [ttw560]; exact ttx560 st, fun st => by rw [ttw568]; exact ttx568 st⟩
  all_goals
    intro k hk
    simp only [List.mem_cons, List.mem_nil_iff, or_false] at hk
    rcases hk with rfl | rfl | rfl | rfl <;> exact DecV_of_ok (by decide +kernel)

/-! ## the hypotheses are met -/

/-- `runWG_one_barrier` on a real program: ANY two wavefronts standing at the entry of `s_barrier; s_endpgm` have
    phase-1 and phase-2 descriptions, the work-group runs through the barrier round and memory is unchanged -/
example (base fuel rounds : Nat) (wa wb : Wave) (ha : wa.completed = false) (hb : wb.completed = false)
    (hpa : wa.st.pc = base) (hpb : wb.st.pc = base) (m l : Mem) :
    ∃ m', runWG BarEx.barProg base (fuel + 1) (rounds + 2) [wa, wb] m l = .ok m' ∧ get m' = get m := by
  obtain ⟨m', hr, hg, _⟩ := runWG_one_barrier BarEx.barProg base (fuel + 1) rounds (fun _ => True) (get l)
    (fun _ => []) (fun _ => []) (BarEx.Mid base) [wa, wb] (by simp)
    (by
      intro w hw
      simp only [List.mem_cons, List.mem_nil_iff, or_false] at hw
      rcases hw with rfl | rfl
      · exact BarEx.phase1 base fuel _ ha hpa
      · exact BarEx.phase1 base fuel _ hb hpb)
    (fun w _ w1 hq hc => BarEx.phase2 base fuel _ w w1 hq hc) m l trivial rfl
  exact ⟨m', hr, by rw [hg]; rfl⟩

/-- the tile of the benchmark's smallest admissible size (width 64: `wiWidth = wiHeight = 16`, one work-group) and
    an inner tile of width 256 fit -/
example : (TT.Tile.mk 0x1000 0x5000 16 16 0 0).Fits := ⟨by decide, by decide⟩
example : (TT.Tile.mk 0x1000 0x41000 64 64 3 2).Fits := ⟨by decide, by decide⟩

/-- the descriptions are not empty: a 16x16 work-group writes 16 KiB of LDS and 16 KiB of output -/
example : (TT.lwAll (TT.Tile.mk 0x1000 0x5000 16 16 0 0) (fun a => a % 251)).length = 16384 ∧
    (TT.wrAll (TT.Tile.mk 0x1000 0x5000 16 16 0 0) (fun a => a % 251)).length = 16384 := by decide +kernel

/-- transposition seen on one element: float (R, C) = (5, 9) of the output tile of width 64 receives the bytes of
    input float (9, 5) = address inp + 4 * (9 * 64 + 5) -/
example : (TT.Tile.mk 0x1000 0x5000 16 16 0 0).outAddr 5 9 = 0x5000 + 4 * (5 * 64 + 9) ∧
    (TT.Tile.mk 0x1000 0x5000 16 16 0 0).inAddr 9 5 = 0x1000 + 4 * (9 * 64 + 5) := by decide

/-- the geometry of the launch `c01 emu` replays for width 64 / 128 is `geoT 1` / `geoT 2`; a 16x16 work-group
    forms four wavefronts (so `wavesOf` is not empty), and `nb = 2` gives four work-groups whose tiles fit -/
example : TT.geoT 1 = ⟨16, 16, 1, 16, 16, 1⟩ ∧ TT.geoT 2 = ⟨32, 32, 1, 16, 16, 1⟩ := ⟨rfl, rfl⟩
example : (C08.formWfs 16 16 (C08.spawn (16, 16, 1))).length = 4 := by decide +kernel
example : ∀ n, n < 2 * 2 → (TT.gridTile 0x1000 0x11000 2 n).Fits := fun n _ => TT.gridTile_fits _ _ 2 n (by decide)
/-- work-group (1, 1) of a 128-wide launch moves input block (row 1, column 0) to output block (row 0, column 1) -/
example : TT.gridTile 0x1000 0x11000 2 3 = ⟨0x1000, 0x11000, 32, 32, 0, 1⟩ := rfl

/-- the dispatch the harness reports for width 64 (flags 1101000000110, V3, work-item-id enable 1): the hypotheses
    of `transpose_wave_init` hold, so its work-group has four wavefronts -/
def ttDispatch : Dispatch :=
  { geo := TT.geoT 1, kernelObject := 0xa000, entry := 0, kernargAddr := 0xb000, kernarg := [], packetAddr := 0xc000,
    packet := [], privSegBuf := true, dispatchPtr := true, queuePtr := false, kernargPtr := true, dispatchID := false,
    flatScratch := false, privSegSize := false, wgCountX := false, wgCountY := false, wgCountZ := false,
    wgIDX := true, wgIDY := true, wgIDZ := false, v5 := false, vgprWI := 1 }
example : (wavesOf ttDispatch (TT.wgT 1 0)).length = 4 := by
  rw [(transpose_wave_init ttDispatch 1 0 rfl rfl rfl).1]
  rfl

/-- `runWG_one_barrier` with REAL LDS writes, at instruction level: the shipped kernel's first LDS write
    (`ds_write2_b64 v12, v[2:3], v[4:5] offset1:1`, bytes 436..443 of `transposeKernelCode`), `s_barrier`, `s_endpgm`.
    ANY two wavefronts at its entry have `Phase1` descriptions with the write lists `ldsPairs16` (16 bytes per active
    lane at LDS address v12, obtained through `step`, the C03V meaning `ttx436` and `step_barrier`) -/
example (base fuel rounds : Nat) (wa wb : Wave) (ha : wa.completed = false) (hb : wb.completed = false)
    (hpa : wa.st.pc = base) (hpb : wb.st.pc = base) (m l : Mem) :
    ∃ m', runWG BarEx2.ldsProg base (fuel + 2) (rounds + 2) [wa, wb] m l = .ok m' ∧ get m' = get m := by
  obtain ⟨m', hr, hg, _⟩ := runWG_one_barrier BarEx2.ldsProg base (fuel + 2) rounds (fun _ => True) (get l)
    (fun w => ldsPairs16 w.st 12 2 4) (fun _ => []) (BarEx2.Mid base) [wa, wb] (by simp)
    (by
      intro w hw
      simp only [List.mem_cons, List.mem_nil_iff, or_false] at hw
      rcases hw with rfl | rfl
      · exact BarEx2.phase1 base fuel _ ha hpa
      · exact BarEx2.phase1 base fuel _ hb hpb)
    (fun w _ w1 hq hc => BarEx2.phase2 base fuel _ w w1 hq hc) m l trivial rfl
  exact ⟨m', hr, by rw [hg]; rfl⟩

/-- `only_ds_touches_lds` on the shipped bytes: `v_mov_b32 v20, 0` at byte 36 decodes, is not DS, and the emulator
    does step over it (C03V knows it), so the hypotheses are met -/
example : DecV (ttWin 36) 7 1 4 ∧ field (leWord ((ttWin 36).take 4) 0) 26 31 ≠ 0x36 ∧
    ∀ st : St, ∃ name ws, exec false st ((ttWin 36).take 4) = some (name, ws) :=
  ⟨DecV_of_ok (by decide +kernel), by decide +kernel,
   fun st => by
     have e : (ttWin 36).take 4 = [0x80, 0x02, 0x28, 0x7e] := by decide +kernel
     rw [e]
     exact ⟨_, _, rfl⟩⟩

/-- every register file of the architectural size has a view with an LDS component -/
example (st : St) (h1 : st.s.size = 128) (h2 : st.v.size = 16384) :
    SeesL st ⟨st.pc, st.exec, st.vcc, st.rs, st.rv, st.rmem⟩ st.rlds :=
  ⟨⟨h1, h2, rfl, rfl, rfl, fun _ _ => rfl, fun _ _ _ _ => rfl, fun _ => rfl⟩, fun _ => rfl⟩

/-- the hypotheses of `step_lds_write16`, `step_lds_read16`, `step_barrier_lds` are met by the SHIPPED code bytes:
    the write at byte 436, the read `ds_read2_b64 v[15:18], v15` at byte 568 (address register among the
    destinations), the barrier at byte 516 — from any described state at that PC the emulator steps as stated -/
example (base : Nat) (st : St) (V : View) (L : Nat → Nat) (h : SeesL st V L) (hpc : V.pc = base + 436) :
    ∃ st', step ⟨transposeKernelCode, false⟩ base st = .ok (st', .next) ∧
      SeesL st' { V with pc := base + 436 + 8 } (applyWrites (viewPairs16 V 12 2 4) L) :=
  step_lds_write16 ⟨transposeKernelCode, false⟩ rfl base 436 12 2 4 (by decide) (by decide) (by decide)
    (transposeKernel_lds_insts.2.1 436 (by decide)) "ds_write2_b64"
    (fun st => by
      show exec false st ((ttWin 436).take 8) = _
      rw [ttw436]
      exact ttx436 st) st V L h hpc

example (base : Nat) (st : St) (V : View) (L : Nat → Nat) (h : SeesL st V L) (hpc : V.pc = base + 568) :
    ∃ st', step ⟨transposeKernelCode, false⟩ base st = .ok (st', .next) ∧ ∃ V', SeesL st' V' L ∧ V'.pc = base + 568 + 8 :=
  let ⟨st', hs, hv⟩ := step_lds_read16 ⟨transposeKernelCode, false⟩ rfl base 568 15 15 (by decide)
    (transposeKernel_lds_insts.2.2.2.1 568 (by decide)) "ds_read2_b64"
    (fun st => by
      show exec false st ((ttWin 568).take 8) = _
      rw [ttw568]
      exact ttx568 st) st V L h hpc
  ⟨st', hs, _, hv, rfl⟩

example (base : Nat) (st : St) (V : View) (L : Nat → Nat) (h : SeesL st V L) (hpc : V.pc = base + 516) :
    ∃ st', step ⟨transposeKernelCode, false⟩ base st = .ok (st', .barrier) ∧ SeesL st' { V with pc := base + 516 + 4 } L :=
  step_barrier_lds ⟨transposeKernelCode, false⟩ rfl base 516 transposeKernel_lds_insts.2.2.1 st V L h hpc

/-- … and by the first 16-byte load (byte 320: `flat_load_dwordx4 v[2:5], v[2:3]`) and the first 16-byte store
    (byte 608: `flat_store_dwordx4 v[21:22], v[8:11]`) of the shipped code -/
example (base : Nat) (st : St) (V : View) (L : Nat → Nat) (h : SeesL st V L) (hpc : V.pc = base + 320) :
    ∃ st', step ⟨transposeKernelCode, false⟩ base st = .ok (st', .next) ∧ ∃ V', SeesL st' V' L ∧ V'.mem = V.mem :=
  let ⟨st', hs, hv⟩ := step_flat_load16_lds ⟨transposeKernelCode, false⟩ rfl base 320 2 2 (by decide)
    (transposeKernel_lds_insts.1 320 (by decide)) "load_dwordx4"
    (fun st => by
      show exec false st ((ttWin 320).take 8) = _
      rw [ttw320]
      exact ttx320 st) st V L h hpc
  ⟨st', hs, _, hv, rfl⟩

example (base : Nat) (st : St) (V : View) (L : Nat → Nat) (h : SeesL st V L) (hpc : V.pc = base + 608) :
    ∃ st', step ⟨transposeKernelCode, false⟩ base st = .ok (st', .next) ∧
      SeesL st' { V with pc := base + 608 + 8, mem := applyWrites (storePairs16 V 21 8) V.mem } L :=
  step_flat_store16_lds ⟨transposeKernelCode, false⟩ rfl base 608 21 8 (by decide) (by decide)
    (transposeKernel_lds_insts.2.2.2.2.1 608 (by decide)) "store_dwordx4"
    (fun st => by
      show exec false st ((ttWin 608).take 8) = _
      rw [ttw608]
      exact ttx608 st) st V L h hpc

end Emu
end C01
